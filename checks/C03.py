"""C03 -- Block-wise diagonalisation reproduces the full Hamiltonian's eigen-system.

Proof (coq/props/Properties_C03.v): block assembly and spectrum (mathcomp, theories/Rotate.v), the block filled by
HamiltonianPart::prepare is the restriction of the full Fock-space matrix, 1x1 blocks, ground energy, look-up by state
label, concatenation (theories/HPartProofs.v about the model theories/HPart.v).

NOT proved: the numerical eigen-solver.  Its output is certified on every run and for every scenario:
  residual max|H U - U E| <= 1e-12 |H| and max|U^+ U - 1| <= 1e-12, with H = EDSpec.poly_matrix of the dumped
  Hamiltonian polynomial on the FULL Fock space (oracle driver_ed), and again block by block with the model's own H_b.
  |H| = largest absolute row sum of the block matrices (model's and dumped), with NO floor: a model written in units of 1e-9 is
  held to 1e-21, so that an absolute cut applied to the matrix elements cannot hide below the tolerance (the solver reaches
  4e-15 |H|).
Trusted mathematics: small residuals imply eigenvalues close to the exact spectrum (Weyl / Bauer-Fike).

Correspondence (model vs implementation, per scenario):
  (a) HBLK of the model of HamiltonianPart::prepare == dumped HBLK, exactly (dyadic inputs); on a difference the dumped block is
      compared, exactly again, with the restriction of EDSpec.poly_matrix (oracle's HFULL) to the block's states: if the
      implementation's block is not the Hamiltonian restricted to the block that is a violation, otherwise the model is wrong;
  (b) certificate as above; eigenvalues of every block ascending; 1x1 blocks: eigenvalue = the entry, vector = 1;
  (d) GROUND, ESTATE (eigenvalue by state label), EALL == model's computeGroundEnergy / getEigenValue / getEigenValues;
  (e) StateBlockIndex == the model's; the label 2^N is rejected (harness h_c03 under ASan).

  (f) histories on ONE object (harness h_c03 `history`; `a second call on the same object' of AGENTS_GUIDE): for every scenario and
      every block prepare; compute; prepare; compute (and ppc, pcc, pcpcpc, pcppc) on one HamiltonianPart, and PCPC, PPC, PCC, PCPPCC on one
      Hamiltonian; after EVERY call the object is dumped: status Prepared => matrix == the model's block exactly (on a difference:
      oracle's HFULL restriction decides, as in (a)); status Computed => certificate of (b) for the reported (E, U) with the model's
      H_b, eigenvalues ascending and equal (4e-12 |H|) to those of the first compute() and of the documented workflow; Hamiltonian
      Computed => ground / look-up / concatenation as in (d).  What the code makes of a repeated call (no-op or rebuild) is not
      prescribed; only that whatever is reported is an eigen-system of H.

Scenarios: hole-type families of checks/hpartlib.py (terms that are not normal ordered, e c c^+, and constants: spectra that are entirely
positive, entirely negative or straddle 0 -- every LatticePresets model has the vacuum at energy 0, hence ground energy <= 0), the O(1) dyadic families of tools/scen.py and the tiny-amplitude families of checks/hpartlib.py (hoppings, levels, fields,
interactions of 2^-28 .. 2^-40 next to O(1) terms, and whole models in units of 2^-k, always with degenerate levels so that the
tiny term matters at first order).
"""
import json
import re
import concurrent.futures as cf
import pv
import edlib
import hpartlib as hl

RESID_TOL = 1e-12         # relative to |H|; measured on the unmodified tree: <= 4e-15 |H|
UNIT_TOL = 1e-12


def setup():
    hl.driver()
    edlib.binaries("real")
    pv.build_harness("h_c03", "asan")
    pv.build_harness("h_c03", "real")
    pv.build_harness("h_c03", "complex")


def feq(a, b):
    return a == b          # exact; -0.0 == 0.0


def analyse(text, variant, mode):
    """run one scenario; returns (run, failures, facts). failures: list of (kind, is_impl_violation, detail)"""
    fails = []
    r = edlib.run(text, ["dm"], variant=variant, hprep=True)
    if r.error or r.crash or not r.dumprec("VEC"):
        return r, [("workflow", False, "error=%r crash=%r" % (r.error, r.crash))], {}
    n = r.n()
    blocks = r.blocks()
    eigs = r.eigs()
    vec = hl.dense_blocks(r.dump, "VEC")
    hpre = hl.dense_blocks(r.pre, "HBLK")
    # ---- model ----
    rc, mo, err = hl.model(r.pre, ["mode " + mode, "hblk"])
    rc2, me, err2 = hl.model(r.dump, ["mode " + mode, "sbi", "energies"])
    if rc or rc2 or any(t[0] == "DRIVER-ERROR" for t in mo + me):
        return r, [("driver", False, "rc=%d/%d %s %s" % (rc, rc2, err[-200:], [t for t in mo + me if t[0] == "DRIVER-ERROR"][:2]))], {}
    mh = {int(t[1]): t[2:] for t in mo if t[0] == "MHBLK"}
    # |H|: largest absolute row sum over the blocks, of the model's matrix and of the dumped one; no floor (a model in units of
    # 2^-30 has |H| ~ 1e-9 and is certified to 1e-21)
    hscale = 0.0
    hblk_bad = None
    for b in sorted(blocks):
        sz, h = hpre.get(b, (0, []))
        for i in range(sz):
            hscale = max(hscale, sum(abs(x) for x in h[i * sz:(i + 1) * sz]))
        m = mh.get(b)
        if m is None or m[0] == "FAIL":
            hblk_bad = hblk_bad or (b, "model outcome %s" % (m,))
            continue
        mv = hl.cplx_list(m[1:])
        msz = int(m[0])
        for i in range(msz):
            hscale = max(hscale, sum(abs(x) for x in mv[i * msz:(i + 1) * msz]))
        if msz != sz or len(mv) != len(h) or any(not feq(x, y) for x, y in zip(mv, h)):
            k = next((k for k in range(min(len(mv), len(h))) if not feq(mv[k], h[k])), -1)
            hblk_bad = hblk_bad or (b, "cell %d (row %d col %d): model %r impl %r" % (k, k // max(sz, 1), k % max(sz, 1), mv[k] if 0 <= k < len(mv) else None, h[k] if 0 <= k < len(h) else None))
    # the model and the implementation disagree about a block: who is right is decided by the specification on the full space
    hblk_impl = None
    if hblk_bad:
        hblk_impl = spec_restriction_mismatch(text, variant, blocks, hpre)
    # ---- certificate ----
    cert_bad = None
    if r.cert is None:
        cert_bad = "oracle produced no CERT (%s)" % getattr(r, "oracle_err", "")
    else:
        if not (r.cert[0] <= RESID_TOL * hscale):
            cert_bad = "full-space residual max|HU-UE| = %.3e > %.1e * |H| (|H| = %g)" % (r.cert[0], RESID_TOL, hscale)
        elif not (r.cert[1] <= UNIT_TOL):
            cert_bad = "full-space max|U^+U-1| = %.3e > %.1e" % (r.cert[1], UNIT_TOL)
    bcert_bad = None
    for t in me:
        if t[0] == "BCERT":
            if t[2] == "FAIL":
                bcert_bad = bcert_bad or "block %s: model outcome %s" % (t[1], t[3])
            elif not (HX(t[3]) <= RESID_TOL * hscale and HX(t[4]) <= UNIT_TOL):
                bcert_bad = bcert_bad or "block %s (size %s): residual %.3e unitarity %.3e" % (t[1], t[2], HX(t[3]), HX(t[4]))
    if cert_bad:
        fails.append(("cert", True, cert_bad + ("; HBLK differs from the model at block %d: %s" % hblk_bad if hblk_bad else "")))
    elif bcert_bad:
        fails.append(("block-cert", True, bcert_bad + ("; HBLK differs from the model at block %d: %s" % hblk_bad if hblk_bad else "")))
    if hblk_impl and hblk_impl != "unavailable":
        fails.append(("hblk", True, "the matrix that HamiltonianPart::prepare hands to the solver is not the Hamiltonian restricted to the block: " + hblk_impl))
    elif hblk_bad and not cert_bad and not bcert_bad:
        fails.append(("hblk-model", False, "block %d: %s%s" % (hblk_bad + ("" if hblk_impl is None else " (HFULL of the oracle not available)",))))
    # ---- per block: ascending, 1x1 ----
    for b in sorted(blocks):
        e = eigs[b]
        if any(e[k] > e[k + 1] for k in range(len(e) - 1)):
            fails.append(("eig-order", True, "block %d eigenvalues not ascending: %r" % (b, e)))
        if len(blocks[b]) == 1:
            sz, h = hpre[b]
            sv, v = vec[b]
            if not (feq(e[0], h[0].real) and feq(v[0], 1.0)):
                fails.append(("one-by-one", True, "1x1 block %d: H = %r, reported eigenvalue %r, eigenvector %r (expected %r and 1)" % (b, h[0], e[0], v[0], h[0].real)))
    for t in me:
        if t[0] == "MCOMP":
            b = int(t[1])
            bar = t.index("|")
            mev = [HX(x) for x in t[3:bar]]
            mu = hl.cplx_list(t[bar + 1:])
            if not (len(mev) == 1 and feq(mev[0], eigs[b][0]) and feq(mu[0], vec[b][1][0])):
                if not any(f[0] == "one-by-one" for f in fails):
                    fails.append(("one-by-one-model", False, "1x1 block %d: model (%r, %r) vs dump (%r, %r)" % (b, mev, mu, eigs[b], vec[b][1])))
    # ---- ground energy, look-up, concatenation ----
    ground = HX(r.dumprec("GROUND")[0][1])
    estate = [HX(x) for x in r.get("impl", "ESTATE")[0][1:]]
    eall = [HX(x) for x in r.get("impl", "EALL")[0][1:]]
    mg = [t for t in me if t[0] == "MGROUND"][0]
    mes = [t for t in me if t[0] == "MESTATE"][0][1:]
    mea = [t for t in me if t[0] == "MEALL"][0][1:]
    # python's direct reading of the property, to tell a wrong model from a wrong implementation
    pos = {}
    for b, st in blocks.items():
        for k, s in enumerate(st):
            pos[s] = (b, k)
    d_ground = min(e for l in eigs.values() for e in l)
    d_estate = [eigs[pos[s][0]][pos[s][1]] for s in range(1 << n)]
    d_eall = [e for b in sorted(eigs) for e in eigs[b]]
    m_ground = HX(mg[1]) if mg[1] != "FAIL" else None
    m_estate = [HX(x) if not x.startswith("FAIL") else None for x in mes]
    m_eall = [HX(x) for x in mea] if mea and mea[0] != "FAIL" else None
    if m_ground != d_ground or m_estate != d_estate or m_eall != d_eall:
        fails.append(("energies-model", False, "model vs direct reading: ground %r/%r estate-equal %r eall-equal %r" % (m_ground, d_ground, m_estate == d_estate, m_eall == d_eall)))
    if not feq(ground, d_ground):
        fails.append(("ground", True, "getGroundEnergy() = %r, minimum over all blocks = %r" % (ground, d_ground)))
    if estate != d_estate:
        k = next(k for k in range(len(d_estate)) if k >= len(estate) or estate[k] != d_estate[k])
        fails.append(("estate", True, "getEigenValue(label %d) = %r, stored for its block %d position %d: %r" % (k, estate[k] if k < len(estate) else None, pos[k][0], pos[k][1], d_estate[k])))
    if eall != d_eall:
        fails.append(("eall", True, "getEigenValues() = %r, concatenation in block order = %r" % (eall, d_eall)))
    # ---- StateBlockIndex of the model == partition dumped ----
    msbi = [int(x) for x in [t for t in me if t[0] == "MSBI"][0][1:]]
    if msbi != [pos[s][0] for s in range(1 << n)]:
        fails.append(("sbi-model", False, "model StateBlockIndex %r" % msbi))
    melabel = [t for t in me if t[0] == "MELABEL"][0]
    return r, fails, {"hscale": hscale, "melabel": " ".join(melabel[2:]), "cert": r.cert}


def oracle_hfull(text, variant):
    """EDSpec.poly_matrix of the dumped Hamiltonian polynomial on the full Fock space (driver_ed `hfull`), row-major; None if unavailable"""
    r = edlib.run(text, ["hfull"], variant=variant)
    hf = [t for t in r.oracle if t[0] == "HFULL"]
    if not hf:
        return None
    full = hl.cplx_list(hf[0][1:])
    d = 1 << r.n()
    return full if len(full) == d * d else None


def spec_restriction_mismatch(text, variant, blocks, hpre, full=None):
    """dumped HBLK (before diagonalisation) against <bra| H |ket> of EDSpec.poly_matrix (oracle's HFULL, built from the dumped
    Hamiltonian polynomial on the full Fock space) for bra, ket in the block; exact (dyadic amplitudes).
    None = equal everywhere | text naming the first differing cell | "unavailable"."""
    if full is None:
        full = oracle_hfull(text, variant)
    if full is None:
        return "unavailable"
    d = int(round(len(full) ** 0.5))
    worst = None
    count = 0
    for b in sorted(blocks):
        st = blocks[b]
        sz, h = hpre.get(b, (0, []))
        if sz != len(st) or len(h) != sz * sz:
            return "block %d: dumped matrix is %dx%d (%d cells), the block has %d states" % (b, sz, sz, len(h), len(st))
        for i, bra in enumerate(st):
            for j, ket in enumerate(st):
                want, got = full[bra * d + ket], h[i * sz + j]
                if not feq(want, got):
                    count += 1
                    if worst is None or abs(want - got) > worst[0]:
                        worst = (abs(want - got), b, i, j, bra, ket, want, got)
    if worst is None:
        return None
    _, b, i, j, bra, ket, want, got = worst
    return ("block %d cell (%d,%d): <%d| H |%d> = %r by the specification, the block holds %r (%d cells differ, this is the largest difference)"
            % (b, i, j, bra, ket, want, got, count))


def history_failures(text, variant, mode, eigs_ref=None, part_hists=None, ham_hists=None):
    """prepare / compute called more than once on ONE HamiltonianPart per block and on ONE Hamiltonian (harness h_c03 `history`).
    Required after every call, whatever the Status guards make of it:
      an object that says Prepared holds the block matrix: equal, entry by entry, to the model's block (hpart_prepare; the main part of
        the check ties that to the restriction of the full matrix); on a difference the offending matrix is compared with the oracle's
        HFULL restriction, exactly as for a first prepare();
      an object that says Computed reports an eigen-system of H: certificate max|H_b U - U E| <= RESID_TOL |H|, max|U^+U-1| <= UNIT_TOL
        computed by the extracted specification with the model's H_b (driver_c03 BCERT), eigenvalues ascending and within the
        certified accuracy of those of the first compute() and of the documented workflow's (eigs_ref);
      a Computed Hamiltonian reports ground energy = minimum over its blocks, getEigenValue(label) = the stored value, getEigenValues()
        = the concatenation (direct reading, and the model's MGROUND / MESTATE / MEALL on the same eigen-system).
    Returns (failures [(kind, is_implementation, detail)], facts)."""
    part_hists = hl.PART_HISTORIES if part_hists is None else part_hists
    ham_hists = hl.HAM_HISTORIES if ham_hists is None else ham_hists
    fails = []
    hs = hl.run_histories(text, variant, part_hists, ham_hists)
    facts = {"steps": 0, "prepared_compared": 0, "eigen_systems_certified": 0, "throws": [" ".join(t) for t in hs.throws]}
    if hs.error:
        return [("workflow", False, "history harness: " + hs.error)], facts
    if hs.rc != 0 or not hs.done:
        last = sorted(list(hs.pstep) + [(h, k, -1) for h, k in hs.hstep])[-1:] or None
        return [("history-died", True, "harness h_c03 ended with rc=%s before the histories were through (%d part steps, %d Hamiltonian steps printed; %s)"
                 % (hs.rc, len(hs.pstep), len(hs.hstep), (pv.sanitizer_digest(hs.err) or hs.err[-300:]).strip()))], facts
    blocks = hs.blocks()
    n = hs.n()
    # eigen-systems to certify: one per (part history, step with every block Computed), one per (Hamiltonian history, step Computed)
    jobs = []      # (level, h, k, {b: (size, U, E)})
    for h in part_hists:
        for k in range(len(h)):
            st = {b: hs.pstep.get((h, k, b)) for b in blocks}
            if all(v is not None and v[0] >= 2 for v in st.values()) and all((h, k, b) in hs.peig for b in blocks):
                jobs.append(("part", h, k, {b: (st[b][1], st[b][2], hs.peig[(h, k, b)]) for b in blocks}))
    for h in ham_hists:
        for k in range(len(h)):
            if hs.hstep.get((h, k), 0) >= 2:
                st = {b: hs.hpart.get((h, k, b)) for b in blocks}
                if all(v is not None and v[0] >= 2 for v in st.values()) and all((h, k, b) in hs.heig for b in blocks):
                    jobs.append(("ham", h, k, {b: (st[b][1], st[b][2], hs.heig[(h, k, b)]) for b in blocks}))
                else:
                    fails.append(("history-status", True, "after %s on one Hamiltonian object the Hamiltonian says Computed but part(s) %r do not"
                                  % (describe_history(h[:k + 1]), sorted(b for b, v in st.items() if v is None or v[0] < 2))))
    # bit-identical eigen-systems (a repeated call that is a no-op, a repeated diagonalisation of the same matrix) are certified once
    uniq, slot = [], {}
    for j in jobs:
        key = repr(sorted(j[3].items()))
        if key not in slot:
            slot[key] = len(uniq)
            uniq.append(j[3])
    rc, mh, ugroups, err = hl.model_histories(hs, mode, uniq)
    groups = [ugroups[slot[repr(sorted(j[3].items()))]] for j in jobs] if len(ugroups) == len(uniq) else []
    facts["distinct_eigen_systems"] = len(uniq)
    if rc or len(groups) != len(jobs) or any(mh.get(b) is None for b in blocks):
        return fails + [("driver", False, "history model run: rc=%s groups=%d/%d %s" % (rc, len(groups), len(jobs), err[-200:]))], facts
    hscale = 0.0
    for b, (sz, mv) in mh.items():
        for i in range(sz):
            hscale = max(hscale, sum(abs(x) for x in mv[i * sz:(i + 1) * sz]))
    facts["hscale"] = hscale

    cache = {}

    def prepared_ok(level, h, k, b, rec):
        """rec = (status, size, entries) of an object that says Prepared"""
        sz, mv = mh[b]
        facts["prepared_compared"] += 1
        if rec[1] == sz and len(rec[2]) == len(mv) and all(feq(x, y) for x, y in zip(rec[2], mv)):
            return
        facts["prepared_wrong"] = facts.get("prepared_wrong", 0) + 1
        if facts["prepared_wrong"] > 3:
            return                              # three per scenario are described; the count stays in the facts
        first = (hs.pstep if level == "part" else hs.hpart).get((h, 0, b))
        if "full" not in cache:
            cache["full"] = oracle_hfull(text, variant)
        what = (spec_restriction_mismatch(text, variant, {b: blocks[b]}, {b: (rec[1], rec[2])}, full=cache["full"])
                if cache["full"] is not None else "unavailable")
        who = "one HamiltonianPart object (block %d, %d states)" % (b, len(blocks[b])) if level == "part" else "one Hamiltonian object (block %d)" % b
        if what and what != "unavailable":
            fails.append(("history-hblk", True, "after %s on %s the object says Prepared but its matrix is not the Hamiltonian restricted to the block: %s%s"
                          % (describe_history(h[:k + 1]), who, what,
                             "" if k == 0 or first is None or first[2] != list(mv) else " (the first prepare() on the same object gave the right block)")))
        else:
            cell = next((c for c in range(min(len(mv), len(rec[2]))) if not feq(mv[c], rec[2][c])), -1)
            fails.append(("history-hblk-model", False, "after %s on %s: cell %d model %r impl %r (oracle's HFULL: %s)"
                          % (describe_history(h[:k + 1]), who, cell, mv[cell] if 0 <= cell < len(mv) else None,
                             rec[2][cell] if 0 <= cell < len(rec[2]) else None, "equal to the implementation" if what is None else what)))

    for (h, k, b), rec in sorted(hs.pstep.items()):
        facts["steps"] += 1
        if rec[0] == 1:
            prepared_ok("part", h, k, b, rec)
        elif rec[0] < 1:
            fails.append(("history-status", True, "after %s on one HamiltonianPart object (block %d) the status is %d" % (describe_history(h[:k + 1]), b, rec[0])))
    for (h, k), st in sorted(hs.hstep.items()):
        facts["steps"] += 1
        if st == 1:
            for b in blocks:
                rec = hs.hpart.get((h, k, b))
                if rec is None or rec[0] != 1:
                    fails.append(("history-status", True, "after %s on one Hamiltonian object the Hamiltonian says Prepared but part %d says %r"
                                  % (describe_history(h[:k + 1]), b, rec and rec[0])))
                else:
                    prepared_ok("ham", h, k, b, rec)
        elif st < 1:
            fails.append(("history-status", True, "after %s the Hamiltonian's status is %d" % (describe_history(h[:k + 1]), st)))
    # ---- eigen-systems ----
    etol = 4 * RESID_TOL * hscale
    first_eigs = {}
    for (level, h, k, es), grp in zip(jobs, groups):
        facts["eigen_systems_certified"] += 1
        who = ("one HamiltonianPart object per block" if level == "part" else "one Hamiltonian object")
        hist = describe_history(h[:k + 1])
        bad = None
        for t in grp:
            if t[0] == "BCERT":
                b = int(t[1])
                if t[2] == "FAIL":
                    fails.append(("driver", False, "history BCERT block %s: %s" % (t[1], t[3:])))
                elif not (HX(t[3]) <= RESID_TOL * hscale and HX(t[4]) <= UNIT_TOL):
                    e = es[b][2]
                    ref = first_eigs.get((level, h, b))
                    bad = bad or ("block %d (%d states, Fock states %r): max|H_b U - U E| = %.3e (allowed %.1e |H|, |H| = %g), max|U^+U-1| = %.3e; "
                                  "reported eigenvalues %r%s" % (b, len(blocks[b]), blocks[b][:6], HX(t[3]), RESID_TOL, hscale, HX(t[4]), e[:6],
                                                                  (", after the first compute() on the same object %r" % ref[:6]) if ref else ""))
        if bad:
            fails.append(("history-cert", True, "after %s on %s the reported eigen-system is not an eigen-system of H: %s" % (hist, who, bad)))
        for b in sorted(es):
            e = es[b][2]
            if any(e[i] > e[i + 1] for i in range(len(e) - 1)):
                fails.append(("history-eig-order", True, "after %s on %s: block %d eigenvalues not ascending: %r" % (hist, who, b, e)))
            ref = first_eigs.setdefault((level, h, b), e)
            for name, other in (("the first compute() on the same object", ref), ("the documented workflow (one prepare, one compute)", (eigs_ref or {}).get(b))):
                if other is not None and not bad and (len(other) != len(e) or any(abs(x - y) > etol for x, y in zip(e, other))):
                    fails.append(("history-eig", True, "after %s on %s: block %d eigenvalues %r, after %s %r" % (hist, who, b, e[:6], name, other[:6])))
                    break
        if level == "ham":
            pos = {}
            for b, sts in blocks.items():
                for i, s_ in enumerate(sts):
                    pos[s_] = (b, i)
            d_ground = min(x for b in es for x in es[b][2])
            d_estate = [es[pos[q][0]][2][pos[q][1]] for q in range(1 << n)]
            d_eall = [x for b in sorted(es) for x in es[b][2]]
            g, est, eal = hs.hground.get((h, k)), hs.hestate.get((h, k)), hs.heall.get((h, k))
            if g is None or not feq(g, d_ground):
                fails.append(("history-ground", True, "after %s on %s: getGroundEnergy() = %r, minimum over all blocks = %r" % (hist, who, g, d_ground)))
            if est != d_estate:
                q = next((q for q in range(len(d_estate)) if est is None or q >= len(est) or est[q] != d_estate[q]), 0)
                fails.append(("history-estate", True, "after %s on %s: getEigenValue(label %d) = %r, stored for its block %d position %d: %r"
                              % (hist, who, q, est[q] if est and q < len(est) else None, pos[q][0], pos[q][1], d_estate[q])))
            if eal != d_eall:
                fails.append(("history-eall", True, "after %s on %s: getEigenValues() = %r, concatenation in block order = %r" % (hist, who, eal, d_eall)))
            mg = [t for t in grp if t[0] == "MGROUND"][0]
            mea = [t for t in grp if t[0] == "MEALL"][0][1:]
            mes = [t for t in grp if t[0] == "MESTATE"][0][1:]
            if mg[1] == "FAIL" or HX(mg[1]) != d_ground or [None if x.startswith("FAIL") else HX(x) for x in mes] != d_estate or (mea and mea[0] == "FAIL") or [HX(x) for x in mea] != d_eall:
                fails.append(("energies-model", False, "history %s: model's ground / look-up / concatenation differ from the direct reading" % h[:k + 1]))
    return fails, facts


def describe_history(h):
    names = {"p": "prepare()", "c": "compute()", "P": "Hamiltonian::prepare()", "C": "Hamiltonian::compute()"}
    return "; ".join(names[x] for x in h)


def numpy_sanity(text, variant):
    """TESTING layer, not part of the decision: eigenvalues of the full-space matrix (oracle's HFULL) by numpy.linalg.eigvalsh
    (python3-vt) against the sorted concatenation of the reported block eigenvalues. Returns max deviation or None."""
    r = edlib.run(text, ["hfull"], variant=variant)
    hf = [t for t in r.oracle if t[0] == "HFULL"]
    if not hf or not r.eigs():
        return None
    vals = hl.cplx_list(hf[0][1:])
    ev = sorted(e for l in r.eigs().values() for e in l)
    prog = ("import sys, json, numpy as np\n"
            "d = json.load(sys.stdin)\n"
            "n = d['n']\n"
            "h = np.array([complex(a, b) for a, b in d['h']]).reshape(n, n)\n"
            "w = np.linalg.eigvalsh((h + h.conj().T) / 2)\n"
            "print(max(abs(w - np.array(d['e']))))\n")
    rc, out, err = pv.sh(["python3-vt", "-c", prog], input=json.dumps({"n": 1 << r.n(), "h": [(z.real, z.imag) for z in vals], "e": ev}), timeout=120)
    try:
        return float(out.strip())
    except ValueError:
        return None


def probe_label_bound(chk):
    """which label test does the code have? (h_c03 under ASan).  Returns 'fixed' | 'unfixed'."""
    h = pv.build_harness("h_c03", "asan")
    mode = "fixed"
    for text, n in (("site A 1 2\naddCoulombS A 1 -0.5\nsymm default\nbeta 1\n", 2),
                    ("site A 1 2\nsite B 1 2\naddCoulombS A 1 -0.5\naddLevel B 0.25\naddHopping4 A B 0.5\nsymm default\nbeta 1\n", 4)):
        q = 1 << n
        inp = "model\n%send\nprobe %d\nprobe %d\nprobe %d\n" % (text, q - 1, q + 1, q)
        rc, out, err = pv.run_harness(h, inp, timeout=120)
        lines = [l.split() for l in out.split("\n") if l.strip()]
        probes = {(int(t[1]), t[2]): t[3:] for t in lines if t[0] == "PROBE"}
        sbi = [[int(x) for x in t[1:]] for t in lines if t[0] == "SBI"]
        rcm, mo, _ = hl.model([t for t in lines if t[0] in ("N", "NBLOCKS", "BLOCK")], ["sbi"])
        msbi = [[int(x) for x in t[1:]] for t in mo if t[0] == "MSBI"]
        chk.case("label-bound N=%d" % n, "label-bound|N=%d" % n, nontrivial=True,
                 sample={"N": n, "probes": {"%d %s" % k: " ".join(v) for k, v in probes.items()}, "asan_rc": rc})
        if not sbi or not msbi or sbi[0] != msbi[0]:
            chk.tie_broken("StateBlockIndex", "harness %r model %r" % (sbi, msbi))
        # valid label and label 2^N + 1 behave as the model says in both modes
        for what in ("block", "inner", "eig"):
            if probes.get((q + 1, what), [""])[0] != "THROWS":
                chk.violation("state-label-bound label=2^N+1 N=%d %s" % (n, what), "label 2^N+1 = %d is not rejected by %s: %r" % (q + 1, what, probes.get((q + 1, what))),
                              {"harness": "h_c03", "variant": "asan", "input": inp})
        thrown = all(probes.get((q, what), [""])[0] == "THROWS" for what in ("block", "inner", "eig"))
        if not thrown:
            mode = "unfixed"
            asan = "heap-buffer-overflow" in err or "AddressSanitizer" in err
            where = [l for l in err.split("\n") if "StatesClassification" in l][:1]
            chk.violation("state-label-bound label=2^N",
                          "StatesClassification::getBlockNumber / getInnerState / Hamiltonian::getEigenValue accept the state label 2^N = %d of a %d-state space "
                          "(test `> StateSize` instead of `>=`): %s; probes: %r" % (q, q, ("ASan heap-buffer-overflow " + (re.sub(r"^#\d+ 0x[0-9a-f]+ ", "", where[0].strip()) if where else "")) if asan else "no exception", {k: v for k, v in probes.items() if k[0] == q}),
                          {"harness": "h_c03", "variant": "asan", "input": inp, "stderr_tail": err[-600:], "proposed_fix": "proposed/fix-state-label-bound.diff"})
    return mode


def failures_of(text, variant, mode, fk):
    """the failures of one scenario that can be of kind fk (histories on one object are a run of their own)"""
    if fk.startswith("history-"):
        return history_failures(text, variant, mode)[0]
    return analyse(text, variant, mode)[1]


def report(chk, family, kind, variant, text, mode, fails):
    for fk, is_impl, detail in fails:
        if fk in ("workflow", "driver"):
            chk.notes.append("%s: %s | %s" % (fk, detail, hl.canon(text)))
            chk.extra.setdefault("skipped", []).append({"why": fk, "detail": detail, "scenario": hl.canon(text)})
            if fk == "driver":
                chk.tie_broken("driver_c03", detail)
            continue
        cnt = chk.extra.setdefault("failures_by_kind", {})
        cnt[fk + "|" + variant] = cnt.get(fk + "|" + variant, 0) + 1
        if cnt[fk + "|" + variant] > (1 if fk.startswith("history-") else 2):
            continue                      # two shrunk instances per kind and build are reported (one for the histories); the count stays in the evidence
        small = hl.shrink(text, lambda cand: any(f[0] == fk for f in failures_of(cand, variant, mode, fk)), max_tries=12 if fk.startswith("history-") else 40)
        f2 = failures_of(small, variant, mode, fk)
        d2 = next((f[2] for f in f2 if f[0] == fk), detail)
        rep = {"check": "C03", "kind": fk, "variant": variant, "scenario": small, "original": text, "detail": d2, "mode": mode}
        if is_impl:
            chk.violation("%s|%s|%s" % (fk, variant, hl.canon(small)), "%s: %s  [scenario: %s]" % (fk, d2, hl.canon(small)), rep)
        else:
            chk.tie_broken("model-vs-implementation " + fk, "%s  [scenario (%s): %s]" % (d2, variant, hl.canon(small)))


def distributed_slice(chk, quick):
    """Hamiltonian::prepare/compute on P > 1 ranks (harness h_c06 under mpiexec): on every rank every block's eigenvalues and
    eigenvectors must be those of the single-rank run (which the main part of this check certifies against the full matrix),
    in particular normalised 1x1 blocks.  Hangs are C06's business: a launch that times out is only noted here."""
    import C06
    h = pv.build_harness("h_c06")
    models = [("two-site", C06.MODEL), ("atom (1x1 and 2x2 blocks)", C06.ATOM),
              ("decoupled sites (many 1x1 blocks)", "site A 1 2\nsite B 1 2\naddCoulombS A 1 -0.25\naddCoulombS B 2 -0.5\naddLevel B 0.125\nbeta 2\n")]
    for name, model in models:
        rc, ranks, err = C06.launch(h, 1, "ham\n", threads=1, timeout=120, model=model)
        ref = C06.parse(ranks[0])
        if rc != 0 or not ref["done"]:
            chk.tie_broken("h_c06 single-rank reference (C03 distributed slice)", "rc=%s %s" % (rc, err))
            continue
        for P in ((2, 3) if quick else (2, 3, 5, 7)):
            rc, ranks, err = C06.launch(h, P, "ham\n", threads=1, timeout=60, model=model)
            if rc != 0:      # a loaded machine: once more with a generous limit before the launch is given up
                rc, ranks, err = C06.launch(h, P, "ham\n", threads=1, timeout=300, model=model)
            chk.case("mpi %s %d" % (name, P), "distributed diagonalisation P=%d %s" % (P, name), True, None)
            if rc != 0:
                chk.notes.append("distributed slice: launch P=%d on %s ended with rc=%s (termination is decided by C06)" % (P, name, rc))
                continue
            for r in sorted(ranks):
                o = C06.parse(ranks[r])
                for b in ref["eig"]:
                    bad = None
                    if not C06.close(o["eig"].get(b, []), ref["eig"][b], 1e-12):
                        bad = "eigenvalues"
                    elif not C06.close(o["vec"].get(b, []), ref["vec"][b], 1e-9):
                        bad = "eigenvectors"
                    if bad:
                        chk.violation("distributed-%s|%s" % (bad, name),
                                      "after Hamiltonian::compute on %d ranks, rank %d reports %s of block %s that differ from the single-rank run (%s vs %s)"
                                      % (P, r, bad, b, (o["vec"] if bad == "eigenvectors" else o["eig"]).get(b, [])[:4],
                                         (ref["vec"] if bad == "eigenvectors" else ref["eig"])[b][:4]),
                                      {"harness": "h_c06", "P": P, "model": model, "commands": "ham\n", "threads": 1})
                        break


SAME_PROCESS_TAGS = ("GROUND", "ESTATE", "EALL", "EIG")


def same_process_records(texts, variant):
    """the eigenvalue records (ground energy, look-up by state label, concatenation, per block) of several models analysed one after
    the other in ONE process; returns a list (one entry per model, None when the stage failed) of {tag: [records]}"""
    h, _ = edlib.binaries(variant)
    inp = "".join("model ops\n%s\nend\ndm\n" % t.strip() for t in texts)
    rc, out, err = pv.run_harness(h, inp, timeout=600)
    segs, cur = [], None
    for l in out.split("\n"):
        t = l.split()
        if not t:
            continue
        if t[0] in ("BUILT", "ERROR"):
            cur = {} if t[0] == "BUILT" else None
            segs.append(cur)
        elif cur is not None and t[0] in SAME_PROCESS_TAGS:
            cur.setdefault(t[0], []).append(t)
    return rc, segs


def recs_agree(x, y):
    """two lists of records (tag, [block,] hex floats ...): same shape, numbers equal to 1e-12 (1 + |value|) -- the runs are
    deterministic and normally agree bit for bit; what this stage is after are values of ANOTHER model, which are far apart"""
    if x is None or y is None or len(x) != len(y):
        return x == y
    for a, b in zip(x, y):
        if len(a) != len(b):
            return False
        for u, v in zip(a, b):
            if u == v:
                continue
            try:
                fu, fv = float.fromhex(u), float.fromhex(v)
            except ValueError:
                return False
            if not abs(fu - fv) <= 1e-12 * (1.0 + abs(fu)):
                return False
    return True


def same_process_stage(chk, quick, good):
    """Several Hamiltonians per process (a temperature or parameter sweep, a self-consistency loop): what one object reports must not
    depend on which models the process diagonalised before.  good: [(variant, text, number of modes)] of scenarios the main part has
    certified in a process of their own; they are grouped by Fock-space size, the models of a group are analysed in one process in
    the order A B A, and every record is compared (1e-12) with the one-model-per-process run of the same scenario."""
    groups = {}
    for variant, text, nm in good:
        groups.setdefault((variant, nm), [])
        if text not in groups[(variant, nm)]:
            groups[(variant, nm)].append(text)
    budget = 10 if quick else 40
    done = 0
    for (variant, nm), texts in sorted(groups.items()):
        for k in range(0, len(texts) - 1, 2):
            if done >= budget:
                break
            a, b = texts[k], texts[k + 1]
            single = []
            for t in (a, b):
                rc, segs = same_process_records([t], variant)
                single.append(segs[0] if rc == 0 and segs else None)
            if single[0] is None or single[1] is None or all(recs_agree(single[0].get(t), single[1].get(t)) for t in SAME_PROCESS_TAGS):
                continue
            rc, segs = same_process_records([a, b, a], variant)
            done += 1
            chk.case("same-process|%s|%s|%s" % (variant, hl.canon(a), hl.canon(b)), "two models of %d modes in one process|%s" % (nm, variant), True, None)
            if rc != 0 or len(segs) != 3 or any(x is None for x in segs):
                chk.violation("same-process-crash|%s|%s" % (variant, hl.canon(b)),
                              "analysing [%s] AFTER [%s] in one process fails (rc=%s) although each model is analysed without error in a process of its own"
                              % (hl.canon(b), hl.canon(a), rc),
                              {"check": "C03", "kind": "same-process", "variant": variant, "scenarios": [a, b, a]})
                continue
            for pos, (seg, ref, t) in enumerate(zip(segs, (single[0], single[1], single[0]), (a, b, a))):
                bad = next((tag for tag in SAME_PROCESS_TAGS if not recs_agree(seg.get(tag), ref.get(tag))), None)
                if bad:
                    got, want = seg.get(bad), ref.get(bad)
                    i = next((i for i in range(min(len(got or []), len(want or []))) if got[i] != want[i]), 0)
                    chk.violation("same-process|%s|%s" % (bad, variant),
                                  "model number %d of a process ([%s], analysed after [%s]) reports %s = %s; the same model analysed in a process of its own "
                                  "(certified against the full-space matrix by this check) reports %s"
                                  % (pos + 1, hl.canon(t), hl.canon((a, b, a)[pos - 1]) if pos else "-", bad,
                                     " ".join(got[i][1:6] if got else []), " ".join(want[i][1:6] if want else [])),
                                  {"check": "C03", "kind": "same-process", "variant": variant, "scenarios": [a, b, a]})
                    break
    chk.extra["several_models_per_process"] = {"pairs": done, "order": "A B A", "records_compared_to_1e-12": list(SAME_PROCESS_TAGS)}


def run(chk):
    quick = chk.tier == "quick"
    ok, log = chk.prove(["extract/Extract_C03.vo", "extract/Extract_ED.vo"], extra_props=["Properties_C03_source.v", "Properties_C03_statics.v"])
    chk.level = "proof"
    chk.trusted += ["translator/gen_ham.py (statement splitter + shape recognition, ~1500 lines of Python): reads the loop ranges, case chains, written cells and broadcast "
                    "calls of Hamiltonian / HamiltonianPart off the source into coq/gen/Gen_Ham*.v, Gen_HPart*.v; Properties_C03_source.v is about those generated "
                    "descriptions and about HPartGen.v's reading of them; a function that leaves the recognised shape falls back to the snapshot and is then tied by the runs only",
                    "per-run certificate instead of a proof for Eigen::SelfAdjointEigenSolver: residuals of the dumped (E,U) against EDSpec.poly_matrix "
                    "of the dumped Hamiltonian polynomial, computed in binary64 by the extracted specification (driver_ed CERT, driver_c03 BCERT)",
                    "mathematics not formalised: a Hermitian matrix with residual |HU-UE| <= r and |U^+U-1| <= u has its eigenvalues within O(r+u|H|) of E (Weyl / Bauer-Fike)",
                    "extraction (ExtrOcamlBasic, ExtrOcamlNatInt, ExtrOCamlFloats), ocaml/driver_c03.ml and ocaml/driver_ed.ml (parsing, printing), harness/h_ed.cpp, harness/h_c03.cpp, tools/edlib.py",
                    "mathcomp 1.15 (ssreflect, algebra) as installed",
                    "the IndexHamiltonian polynomial dumped as HPOLY is the model's Hamiltonian (C04) and Operator::actRight is Poly.act_poly (tied by C05's check)"]
    chk.assume += ["amplitudes are dyadic rationals, so the block matrices are exact in binary64 and HBLK is compared for equality",
                   "the partition dumped by StatesClassification is taken as given (its soundness is C07); hpart_prepare_is_restriction assumes the Hamiltonian respects it, "
                   "the certificate on the full space does not",
                   "theorems are about exact arithmetic; rounding inside the solver is covered by the certificate only",
                   "objects that are prepared / computed more than once: the model of HamiltonianPart::prepare has no memory (hpart_prepare builds the block "
                   "from the zero matrix), i.e. prepare() on an object in ANY state is specified to give the block matrix -- which is what the code does "
                   "(H.resize; H.setZero at the top of prepare); the histories (p = prepare, c = compute on one HamiltonianPart per block: "
                   + ", ".join(hl.PART_HISTORIES) + "; P, C on one Hamiltonian: " + ", ".join(hl.HAM_HISTORIES) + ") require after every call: a Prepared object "
                   "holds the model's block exactly, a Computed object an eigen-system of H (same certificate)"]
    mode = probe_label_bound(chk)
    chk.extra["label_test_mode"] = mode
    # the fragments of translator/gen_ham.py this property rests on: one that left the recognised shape is replaced by its
    # snapshot, i.e. the *_source theorems then speak about the OLD text and only the runs below tie the new one
    tr = chk.extra.get("translator") or {}
    for frag in ("Gen_HamGround", "Gen_HamEigenValue", "Gen_HamEigenValues", "Gen_HPartCompute", "Gen_HPartPrepare",
                 "Gen_HamPrepareBcast", "Gen_HamComputeBcast"):
        st = str(tr.get(frag, ""))
        if st.startswith("untranslatable"):
            chk.notes.append("translator: %s is %s -- Properties_C03_source.v is about the snapshot for this function; tied by the runs only" % (frag, st))
            chk.extra.setdefault("fragments_not_translated", []).append({"fragment": frag, "why": st})
    # (build, complex amplitudes, tiny-amplitude families, number of scenarios)
    # (build, complex amplitudes, generator: O(1) families | tiny-amplitude families | hole-type terms and constants, number of scenarios)
    plan = [("real", False, "o1", 42 if quick else 160), ("real", False, "tiny", 14 if quick else 56), ("real", False, "holes", 15 if quick else 60)]
    if not quick:
        plan.append(("complex", True, "o1", 100))
        plan.append(("complex", False, "o1", 30))
        plan.append(("complex", True, "tiny", 28))
        plan.append(("complex", True, "holes", 25))
    else:
        plan.append(("complex", True, "o1", 6))       # a few complex-Hermitian cases also in the quick tier (the variant is built once)
        plan.append(("complex", True, "tiny", 4))
        plan.append(("complex", True, "holes", 5))
    certs = []
    rel_certs = []
    sanity = []
    good = []
    hist_facts = {"scenarios": 0, "steps": 0, "prepared_compared": 0, "eigen_systems_certified": 0, "throws": []}
    spectra = {}
    for variant, cplx, which, count in plan:
        edlib.binaries(variant)
        pv.build_harness("h_c03", variant)
        gen = {"o1": hl.gen_cases, "tiny": hl.gen_tiny_cases, "holes": hl.gen_hole_cases}[which]
        cases = gen(chk.rng, count, variant, complex_amplitudes=cplx)
        # every scenario twice: through the documented workflow (analyse) and with prepare / compute called more than once on one
        # object (history_failures; independent harness runs, started ahead in a small pool)
        pool = cf.ThreadPoolExecutor(max_workers=min(6, pv.NPROC))
        futs = [pool.submit(history_failures, text, variant, mode) for _, _, text, _ in cases]
        for (family, kind, text, nm), fut in zip(cases, futs):
            r, fails, facts = analyse(text, variant, mode)
            if any(f[0] == "workflow" for f in fails):
                report(chk, family, kind, variant, text, mode, fails)
                continue
            sclass = hl.spectrum_class(r.eigs())
            spectra[sclass] = spectra.get(sclass, 0) + 1
            sig = hl.signature(r, family + ("-cplx" if cplx else ""), kind, variant) + "|" + sclass
            chk.case(variant + "|" + hl.canon(text), sig, nontrivial=max(len(v) for v in r.blocks().values()) > 1,
                     sample={"scenario": hl.canon(text), "variant": variant, "blocks": sorted(len(v) for v in r.blocks().values()),
                             "cert": facts.get("cert"), "signature": sig} if len(chk.samples) < 6 and chk.evaluations % 7 == 0 else None)
            if facts.get("cert"):
                certs.append(facts["cert"])
                if facts.get("hscale"):
                    rel_certs.append(facts["cert"][0] / facts["hscale"])
            if chk.evaluations % (16 if quick else 5) == 0:
                dev = numpy_sanity(text, variant)
                if dev is not None:
                    sanity.append(dev)
            want = "FAIL OOB" if mode == "unfixed" else "FAIL Throws2"
            if facts.get("melabel") and facts["melabel"] != want:
                chk.tie_broken("label bound model", "model getEigenValue(2^N) = %s in mode %s" % (facts["melabel"], mode))
            hfails, hfacts = fut.result()
            if any(f[0] == "workflow" for f in hfails):
                chk.tie_broken("h_c03 history", "%s [scenario (%s): %s]" % (hfails[0][2], variant, hl.canon(text)))
                hfails = []
            hist_facts["scenarios"] += 1
            for k_ in ("steps", "prepared_compared", "eigen_systems_certified"):
                hist_facts[k_] += hfacts.get(k_, 0)
            hist_facts["throws"] = (hist_facts["throws"] + hfacts.get("throws", []))[:10]
            fails = fails + hfails
            if fails:
                report(chk, family, kind, variant, text, mode, fails)
            elif which != "tiny":
                good.append((variant, text, nm))
        pool.shutdown()
    same_process_stage(chk, quick, good)
    chk.extra["histories_on_one_object"] = dict(hist_facts, part_histories=hl.PART_HISTORIES, hamiltonian_histories=hl.HAM_HISTORIES,
                                                what_the_code_does="Hamiltonian::prepare / compute return at once when the status is already reached "
                                                "(a second call is a no-op); HamiltonianPart::prepare rebuilds the block from scratch on every call, "
                                                "HamiltonianPart::compute returns at once on a Computed part")
    chk.extra["spectrum_classes"] = spectra
    chk.extra["numpy_sanity_TESTING_ONLY"] = {"scenarios": len(sanity), "max_deviation_of_sorted_spectra": max(sanity) if sanity else None,
                                              "note": "numpy.linalg.eigvalsh of the full-space matrix vs reported eigenvalues; additional testing layer, never decides"}
    if certs:
        chk.extra["certificate_max"] = {"residual": max(c[0] for c in certs), "unitarity": max(c[1] for c in certs), "scenarios": len(certs),
                                        "residual_relative_to_|H|": max(rel_certs) if rel_certs else None, "tolerance_relative_to_|H|": RESID_TOL}
    distributed_slice(chk, quick)
    chk.rule = ("scenario = model family (Hubbard atom, two-site incl. spin-flip, Anderson, free degenerate, atomic limit, Kanamori, exchange, pairing, spinless 3-orbital; "
                "tiny-amplitude families: weak link between identical atoms, whole model in units of 2^-k, free degenerate chain, spin-flip hopping, field / level shift, "
                "interaction, Hund coupling, each of magnitude 2^-28 .. 2^-40 next to O(1) terms or alone, degenerate levels; "
                "hole-type families (not normal ordered: e c c^+ + f c^+ c on every mode with all-positive / all-negative / mixed parameters, hole terms only, "
                "any O(1) family plus a constant +-4..16), so that the spectrum is entirely positive, entirely negative or straddles 0 -- the class is part of the signature) "
                "x histories (every scenario once through the documented workflow and once with prepare / compute called repeatedly on one HamiltonianPart per block "
                "and on one Hamiltonian) "
                "x partition (default analysis, symmetries ignored, custom integrals of motion: N, S_z, N and S_z, per-site charges) x build (real; complex with complex hoppings); "
                "distinct = distinct canonical scenario text; non-trivial = at least one block larger than 1x1; the signature names family, partition and number of accepted "
                "symmetries, block shapes present, degenerate spectrum or not, build")


def replay(chk, path):
    obj = json.load(open(path))
    rep = obj.get("replay", {})
    print(json.dumps(obj, indent=1)[:3000])
    if isinstance(rep, dict) and rep.get("harness") == "h_c03":
        probe_label_bound(chk)
        return chk.finish()
    if isinstance(rep, dict) and rep.get("kind") == "same-process":
        a, b = rep["scenarios"][0], rep["scenarios"][1]
        edlib.binaries(rep.get("variant", "real"))
        same_process_stage(chk, True, [(rep.get("variant", "real"), a, 0), (rep.get("variant", "real"), b, 0)])
        return chk.finish()
    if isinstance(rep, dict) and "scenario" in rep:
        mode = rep.get("mode", "unfixed")
        r, fails, facts = analyse(rep["scenario"], rep.get("variant", "real"), mode)
        if str(rep.get("kind", "")).startswith("history-") and not any(f[0] == "workflow" for f in fails):
            fails = fails + history_failures(rep["scenario"], rep.get("variant", "real"), mode, eigs_ref=r.eigs())[0]
        print("failures now:", fails)
        for fk, is_impl, detail in fails:
            if is_impl:
                chk.violation("%s|%s|%s" % (fk, rep.get("variant", "real"), hl.canon(rep["scenario"])), "%s: %s" % (fk, detail), rep)
        return chk.finish()
    run(chk)
    return chk.finish()


HX = hl.HX
