"""C06 -- Results independent of MPI ranks and OpenMP threads; runs always terminate.

Proof: props/Properties_C06.v (protocol model SplitComm: collective sequences match on every communicator, colours
non-empty, the table's sender is the reduce root, terms and status everywhere) -- about a model whose colour arithmetic
and barrier/root fragments are regenerated from the source on every run.
Tie: the real library under mpiexec -np P (harness h_c06): per-rank dumps of eigenvalues/eigenvectors, G, chi tables and
chi evaluated from terms are compared with the single-rank single-thread run; a launch that does not finish within the
hard timeout is a hang. Randomised worker delays come from the POMEROL_VERIF hook when it is present.
"""
import os
import shutil
import tempfile
import pv

MODEL = ("site A 1 2\nsite B 1 2\naddCoulombS A 2 -0.75\naddLevel B 0.25\naddHopping4 A B 0.5\nbeta 4\n")
QUADS = [(0, 1, 0, 1), (0, 2, 0, 2), (1, 3, 1, 3), (0, 3, 0, 3), (2, 3, 2, 3), (0, 0, 1, 1)]   # the last one vanishes (S_z)
# 37 triples: a table longer than 32 entries whose length is not divisible by 2..6 threads (static partitions with a remainder)
FREQS = [(0, 0, 0), (1, -2, 1), (2, 1, 0)] + [((7 * k) % 9 - 4, (5 * k) % 7 - 3, (3 * k) % 5 - 2) for k in range(34)]
ATOM = "site A 1 2\naddCoulombS A 1 -0.5\nbeta 10\n"      # 4 blocks: fewer dispatch jobs than ranks for P >= 5


def hexc(a, b):
    return complex(float.fromhex(a), float.fromhex(b))


def launch(h, P, cmds, threads=1, timeout=60, seed=None, model=None):
    d = tempfile.mkdtemp(prefix="c06-", dir=pv.BUILD)
    try:
        open(os.path.join(d, "in.txt"), "w").write("model\n" + (model or MODEL) + "end\n" + cmds)
        env = {"OMP_NUM_THREADS": str(threads)}
        if seed is not None:
            env["POMEROL_VERIF_DELAY_SEED"] = str(seed)
            env["POMEROL_VERIF_DELAY_MAX_US"] = "3000"
        rc, out, err = pv.run_harness(h, "", np=P, args=[d, os.path.join(d, "in.txt")], timeout=timeout, env=env)
        ranks = {}
        for r in range(P):
            try:
                ranks[r] = [l.split() for l in open(os.path.join(d, "rank%d.out" % r)).read().split("\n") if l.strip()]
            except OSError:
                ranks[r] = [["MISSING"]]
        return rc, ranks, err[-600:]
    finally:
        shutil.rmtree(d, ignore_errors=True)


def launch_patient(h, P, cmds, threads=1, timeout=60, seed=None, model=None):
    """launch; a run that hits the time limit is repeated once with five times the limit, so that a loaded machine is not taken for a
    hang (a real hang hits the second limit as well)"""
    rc, ranks, err = launch(h, P, cmds, threads=threads, timeout=timeout, seed=seed, model=model)
    if rc == 124:
        rc, ranks, err = launch(h, P, cmds, threads=threads, timeout=5 * timeout, seed=seed, model=model)
    return rc, ranks, err


def parse(recs):
    """records of one rank -> dict"""
    o = {"eig": {}, "vec": {}, "g": {}, "table": {}, "eval": {}, "chitable": {}, "chieval": {}, "done": False, "throws": []}
    for t in recs:
        if t[0] == "EIG":
            o["eig"][t[1]] = t[2:]
        elif t[0] == "VEC":
            o["vec"][t[1]] = t[2:]
        elif t[0] == "G":
            o["g"][(t[1], t[2])] = t[3:]
        elif t[0] == "TABLE":
            o["table"][tuple(t[1:5])] = t[6:]
        elif t[0] == "EVAL":
            o["eval"][tuple(t[1:5])] = t[7:]
        elif t[0] == "CHITABLE":
            o["chitable"][tuple(t[1:5])] = t[6:]
        elif t[0] == "CHIEVAL":
            o["chieval"][tuple(t[1:5])] = t[5:]
        elif t[0] == "DONE":
            o["done"] = True
        elif t[0] in ("THROWS", "ERROR"):
            o["throws"].append(" ".join(t))
    return o


def close(a, b, tol=1e-10):
    """two token lists of hex floats (pairs) equal to rounding accuracy"""
    if len(a) != len(b):
        return False
    for x, y in zip(a, b):
        if x == "THROWS" or y == "THROWS":
            if x != y:
                return False
            continue
        fx, fy = float.fromhex(x), float.fromhex(y)
        if abs(fx - fy) > tol * (1 + abs(fx) + abs(fy)):
            return False
    return True


def run(chk):
    quick = chk.tier == "quick"
    chk.prove(extra_props=["Properties_C06_current.v"])
    chk.trusted += ["Open MPI 4.1.4 / Boost.MPI 1.83 semantics as modelled (collectives match by call order per communicator; "
                    "comm.split with default key keeps world rank order)", "harness/h_c06.cpp, mpiexec with oversubscription; hangs are observed by a hard timeout"]
    chk.assume += ["liveness is proved for the protocol model under weak fairness; the real-time behaviour of the MPI library and the OS is outside any theorem"]
    h = pv.build_harness("h_c06")
    rng = chk.rng
    fr = " ".join("%d %d %d" % f for f in FREQS)
    hook = None
    configs = []
    Ps = [1, 2, 3, 4] if quick else [1, 2, 3, 4, 5, 6, 8, 12, 16]
    ncs = [1, 2, 3, 4] if quick else [1, 2, 3, 4, 5, 6]
    for P in Ps:
        for nc in ncs:
            for split in (1, 0):
                for clear in (0, 1):
                    if quick and (clear == 1 and (P + nc) % 2 == 1):
                        continue
                    configs.append((P, nc, split, clear))
    refs = {}

    def cmds_for(nc, split, clear):
        qs = QUADS[:nc]
        return "ham\ngf 0 2 0 1 -1\nc2 %d %d %d %s %d %s\nchi 0 1 0 1 %d %d %s\n" % (
            split, clear, len(qs), " ".join("%d %d %d %d" % q for q in qs), len(FREQS), fr, clear, len(FREQS), fr)

    reported = set()
    for (P, nc, split, clear) in configs:
        key = (nc, split, clear)
        if key not in refs:
            rc, ranks, err = launch(h, 1, cmds_for(nc, split, clear), threads=1, timeout=120)
            refs[key] = parse(ranks[0])
            if rc != 0 or not refs[key]["done"]:
                chk.tie_broken("h_c06 reference run", "single-rank reference failed rc=%s %s" % (rc, err))
                continue
        ref = refs[key]
        threads = rng.choice([1, 3, 4, 5]) if quick else rng.choice([1, 2, 3, 5, 7, max(1, 16 // P)])
        seed = rng.randint(1, 10 ** 6)
        rc, ranks, err = launch_patient(h, P, cmds_for(nc, split, clear), threads=threads, timeout=45 if quick else 90, seed=seed)
        sig = "P=%d nc=%d %s %s %s" % (P, nc, "split" if split else "nosplit", "purge" if clear else "keep",
                                        "P>nc" if P > nc else ("P|nc" if nc % P == 0 else "P!|nc"))
        chk.case("%d %d %d %d %d" % (P, nc, split, clear, threads), sig, P > 1,
                 {"P": P, "components": nc, "split": split, "clear": clear, "threads": threads, "rc": rc} if len(chk.samples) < 5 and P > 1 else None)
        conf = {"P": P, "components": nc, "split": split, "clear": clear, "threads": threads, "delay_seed": seed,
                "harness": "h_c06", "commands": cmds_for(nc, split, clear), "model": MODEL}

        def viol(kind, what):
            k = "%s [%s]" % (kind, "split" if split else "nosplit")
            if k in reported:
                return
            reported.add(k)
            chk.violation(k, "%s (first seen at P=%d, %d components, %s, clear=%d, threads=%d)" % (what, P, nc, "split" if split else "nosplit", clear, threads), conf)
        if rc == 124:
            viol("hang", "the run does not terminate within the timeout: ranks done = %s" %
                 [r for r in ranks if parse(ranks[r])["done"]])
            continue
        if rc != 0:
            viol("crash", "mpiexec exit %d: %s" % (rc, err[-200:]))
            continue
        for r in sorted(ranks):
            o = parse(ranks[r])
            if not o["done"]:
                viol("rank did not finish", "rank %d did not reach the end" % r)
                continue
            # identical eigen-data on every rank, equal to the single-rank run
            for b in ref["eig"]:
                if not close(o["eig"].get(b, []), ref["eig"][b], 1e-12):
                    viol("eigenvalues differ", "rank %d block %s: eigenvalues differ from the single-rank run" % (r, b))
                if not close(o["vec"].get(b, []), ref["vec"][b], 1e-9):
                    viol("eigenvectors differ", "rank %d block %s: eigenvectors differ from the single-rank run" % (r, b))
            for k in ref["g"]:
                if not close(o["g"].get(k, []), ref["g"][k]):
                    viol("G differs", "rank %d: G_%s%s differs from the single-rank run" % (r, k[0], k[1]))
            # returned tables: split mode broadcasts them to every rank; unsplit / direct compute: the reduce root (rank 0)
            if split or r == 0:
                for k in ref["table"]:
                    if k not in o["table"]:
                        viol("table missing", "rank %d: no table returned for component %s" % (r, "".join(k)))
                    elif not close(o["table"][k], ref["table"][k]):
                        viol("table differs", "rank %d: returned table of component %s differs from the single-rank run (%s vs %s)" %
                             (r, "".join(k), o["table"][k][:4], ref["table"][k][:4]))
            if r == 0:
                for k in ref["chitable"]:
                    if not close(o["chitable"].get(k, []), ref["chitable"][k]):
                        viol("direct table differs", "rank 0: TwoParticleGF::compute table differs from the single-rank run")
            # every listed component can be evaluated on every rank that returned it (terms kept)
            if not clear:
                for k in ref["eval"]:
                    if not close(o["eval"].get(k, []), ref["eval"][k]):
                        viol("evaluation differs", "rank %d: evaluating listed component %s from its terms gives %s, single-rank run %s" %
                             (r, "".join(k), o["eval"].get(k, ["(missing)"])[:4], ref["eval"][k][:4]))
                for k in ref["chieval"]:
                    if not close(o["chieval"].get(k, []), ref["chieval"][k]):
                        viol("direct evaluation differs", "rank %d: evaluating a directly computed TwoParticleGF differs from the single-rank run" % r)
    # more ranks than jobs in a dispatch step: the Hubbard atom has 4 Hamiltonian blocks
    acmd = "ham\ngf 0 1 0 1\ngf 0 0 0 2\nc2 1 0 1 0 1 0 1 3 0 0 0 1 -2 1 2 1 0\nchi 0 1 0 1 0 2 0 0 0 1 -2 1\n"
    rc, ranks, err = launch(h, 1, acmd, threads=1, timeout=120, model=ATOM)
    aref = parse(ranks[0])
    for P in ([5, 6] if quick else [5, 6, 7, 9, 12, 16]):
        seed = rng.randint(1, 10 ** 6)
        rc, ranks, err = launch_patient(h, P, acmd, threads=1, timeout=45, seed=seed, model=ATOM)
        chk.case("atom %d" % P, "P=%d atom (ranks > jobs)" % P, True, None)
        conf = {"P": P, "model": ATOM, "commands": acmd, "threads": 1, "delay_seed": seed, "harness": "h_c06"}
        if rc == 124:
            if "hang-atom" not in reported:
                reported.add("hang-atom")
                chk.violation("hang [ranks > jobs]", "the run does not terminate with %d ranks on a model with 4 Hamiltonian blocks" % P, conf)
            continue
        for r in sorted(ranks):
            o = parse(ranks[r])
            bad = (not o["done"]) or any(not close(o["eig"].get(b, []), aref["eig"][b], 1e-12) for b in aref["eig"]) \
                or any(not close(o["g"].get(k, []), aref["g"][k]) for k in aref["g"]) \
                or any(not close(o["table"].get(k, []), aref["table"][k]) for k in aref["table"]) \
                or any(not close(o["eval"].get(k, []), aref["eval"][k]) for k in aref["eval"])
            if bad and "differs-atom" not in reported:
                reported.add("differs-atom")
                chk.violation("results differ [ranks > jobs]", "rank %d of %d differs from the single-rank run on the Hubbard atom" % (r, P), conf)
    cold_stage(chk, h, quick, rng, reported)
    subcomm_stage(chk, h, quick, rng, reported)
    chk.extra["delay_hook"] = "POMEROL_VERIF_DELAY_SEED is passed to every launch; it has effect only when the hook commit is present in /repo"
    chk.rule = ("configurations (ranks P, number of 2PGF components, split/unsplit, purge/keep, OpenMP threads, delay seed) on a two-site "
                "model; each launch is compared rank by rank with the single-rank single-thread run of the same commands; non-trivial = P > 1; "
                "signature = (P, components, mode, divisibility class)")


# a low-temperature dimer: several world-stripes of a two-particle component carry no term at all (all four weights below the
# coefficient tolerance), so some parts of a component are EMPTY -- they must still be evaluable on every rank
COLD = "site A 1 2\nsite B 1 2\naddCoulombS A 4 -1\naddCoulombS B 4 -1\naddHopping4 A B 1\nbeta 32\n"


def compare_c2(o, ref, clear, tables_here):
    """returns None or (kind, text) for the records of one rank against a single-rank reference of the same components"""
    if not o["done"]:
        return ("rank did not finish", "did not reach the end")
    if tables_here:
        for k in ref["table"]:
            if k not in o["table"]:
                return ("table missing", "no table returned for component %s" % "".join(k))
            if not close(o["table"][k], ref["table"][k]):
                return ("table differs", "returned table of component %s differs from the single-rank run (%s vs %s)" % ("".join(k), o["table"][k][:4], ref["table"][k][:4]))
    if not clear:
        for k in ref["eval"]:
            if not close(o["eval"].get(k, []), ref["eval"][k]):
                return ("evaluation differs", "evaluating listed component %s from its terms gives %s, single-rank run %s"
                        % ("".join(k), o["eval"].get(k, ["(missing)"])[:4], ref["eval"][k][:4]))
    return None


def cold_stage(chk, h, quick, rng, reported):
    """parts without a single term (low temperature): tables and on-demand evaluation on every rank, split and unsplit"""
    fr = " ".join("%d %d %d" % f for f in FREQS[:7])
    qs = QUADS[:3]
    for split in (0, 1):
        cmd = "c2 %d 0 %d %s 7 %s\nchi 0 1 0 1 0 7 %s\n" % (split, len(qs), " ".join("%d %d %d %d" % q for q in qs), fr, fr)
        rc, ranks, err = launch(h, 1, cmd, threads=1, timeout=120, model=COLD)
        ref = parse(ranks[0])
        if rc != 0 or not ref["done"]:
            chk.tie_broken("h_c06 reference run (cold model)", "rc=%s %s" % (rc, err))
            continue
        for P in ((2, 3, 5) if quick else (2, 3, 4, 5, 7, 8)):
            seed = rng.randint(1, 10 ** 6)
            rc, ranks, err = launch_patient(h, P, cmd, threads=2, timeout=60, seed=seed, model=COLD)
            chk.case("cold %d %d" % (P, split), "P=%d cold model (parts without terms) %s" % (P, "split" if split else "nosplit"), True, None)
            conf = {"P": P, "model": COLD, "commands": cmd, "threads": 2, "delay_seed": seed, "harness": "h_c06"}
            key = "cold [%s]" % ("split" if split else "nosplit")
            if key in reported:
                continue
            if rc != 0:
                reported.add(key)
                chk.violation(("hang " if rc == 124 else "crash ") + key, "low-temperature dimer (beta=32, parts without terms) on %d ranks: %s"
                              % (P, "the run does not terminate within the timeout" if rc == 124 else "mpiexec exit %d: %s" % (rc, err[-200:])), conf)
                continue
            for r in sorted(ranks):
                o = parse(ranks[r])
                bad = compare_c2(o, ref, 0, split or r == 0)
                if bad is None and not close(o["chieval"].get(("0", "1", "0", "1"), []), ref["chieval"][("0", "1", "0", "1")]):
                    bad = ("direct evaluation differs", "evaluating a directly computed TwoParticleGF gives %s, single-rank run %s"
                           % (o["chieval"].get(("0", "1", "0", "1"), [])[:4], ref["chieval"][("0", "1", "0", "1")][:4]))
                if bad:
                    reported.add(key)
                    chk.violation("%s %s" % (bad[0], key), "low-temperature dimer (beta=32: some parts of a component carry no term), rank %d of %d: %s" % (r, P, bad[1]), conf)
                    break


def subcomm_stage(chk, h, quick, rng, reported):
    """the container on communicators other than the world: the world is split into groups, every group computes ITS OWN list of
    components on ITS OWN communicator, all groups at the same time (lists of equal and of different length); every rank is compared
    with the single-rank run of its group's list"""
    fr = " ".join("%d %d %d" % f for f in FREQS[:5])
    lists = {"equal lengths": [QUADS[0:2], QUADS[2:4]], "different lengths": [QUADS[0:1], QUADS[1:4]], "three groups": [QUADS[0:2], QUADS[3:4], QUADS[1:3]]}
    refs = {}
    for name, groups in sorted(lists.items()):
        ng = len(groups)
        for split in (1, 0):
            for clear in (0, 1):
                if quick and clear and name != "equal lengths":
                    continue
                for P in ((ng, ng + 2) if quick else (ng, ng + 1, ng + 2, 2 * ng + 1, 3 * ng)):
                    cmd = "c2sub %d %d %d 5 %s %s\n" % (ng, split, clear, fr, " ".join("%d %s" % (len(g), " ".join("%d %d %d %d" % q for q in g)) for g in groups))
                    seed = rng.randint(1, 10 ** 6)
                    rc, ranks, err = launch_patient(h, P, cmd, threads=1, timeout=60, seed=seed)
                    chk.case("subcomm %s %d %d %d" % (name, P, split, clear), "sub-communicators (%s) %s P=%d" % (name, "split" if split else "nosplit", P), True, None)
                    conf = {"P": P, "model": MODEL, "commands": cmd, "threads": 1, "delay_seed": seed, "harness": "h_c06"}
                    key = "sub-communicators [%s]" % ("split" if split else "nosplit")
                    if key in reported:
                        continue
                    if rc != 0:
                        reported.add(key)
                        chk.violation(("hang " if rc == 124 else "crash ") + key,
                                      "%d groups of ranks computing their own component lists (%s) on their own communicators at the same time, P=%d, clear=%d: %s"
                                      % (ng, name, P, clear, "the run does not terminate within the timeout" if rc == 124 else "mpiexec exit %d: %s" % (rc, err[-200:])), conf)
                        continue
                    for r in sorted(ranks):
                        g = r % ng
                        rk = (tuple(groups[g]), split, clear)
                        if rk not in refs:
                            c1 = "c2 %d %d %d %s 5 %s\n" % (split, clear, len(groups[g]), " ".join("%d %d %d %d" % q for q in groups[g]), fr)
                            rc1, rr, e1 = launch(h, 1, c1, threads=1, timeout=120)
                            refs[rk] = parse(rr[0])
                        grp = [t for t in ranks[r] if t[0] == "GROUP"]
                        sub_rank = int(grp[0][2]) if grp else -1
                        bad = compare_c2(parse(ranks[r]), refs[rk], clear, split or sub_rank == 0)
                        if bad:
                            reported.add(key)
                            chk.violation("%s %s" % (bad[0], key),
                                          "%d groups of ranks computing their own component lists (%s) on their own communicators at the same time, P=%d, clear=%d: "
                                          "world rank %d (group %d, rank %d of its communicator): %s" % (ng, name, P, clear, r, g, sub_rank, bad[1]), conf)
                            break


def setup():
    pv.build_harness("h_c06")


def replay(chk, path):
    import json
    r = json.load(open(path))["replay"]
    h = pv.build_harness("h_c06")
    rc, ranks, err = launch(h, r["P"], r["commands"], threads=r["threads"], timeout=60, seed=r.get("delay_seed"), model=r.get("model"))
    print("exit", rc, err)
    for k in ranks:
        for t in ranks[k]:
            if t[0] in ("TABLE", "EVAL", "DONE", "THROWS", "C2"):
                print("rank", k, " ".join(t)[:200])
    return 0
