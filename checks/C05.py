"""C05 -- Symbolic operator algebra faithfully represents the fermionic algebra.

Proof: props/Properties_C05.v about PV.Poly (hand model of Operator.h/.cpp, loop for loop).
Tie: correspondence. The same RPN expressions are evaluated by the real Pomerol::Operator (harness h_c05) and by the
extracted model at exact rationals (driver_c05); monomial maps (iteration order included), matrices on the M-mode Fock
space, ==, commutes and the N/Sz shortcuts are diffed exactly. Independently of the model, the property is evaluated on
the implementation's own output: matrix(A*B) = matrix(A) matrix(B); (A == B) <-> equal matrices; commutes <-> matrices
commute; shortcut = generic diagonal element.
Every matrix (A, B, A*B, A+B, A-B, [A,B], {A,B}) is read through BOTH observation points, actRight(ket) and
getMatrixElement(bra,ket) for all pairs, and compared exactly with the same expression of the model's matrices of A and B.
In-place expressions whose right-hand side is the object itself (S *= S, S += S, S -= S, S *= S*S, S = S*S, chains, ...) are
compared with the polynomial in matrix(A) they denote (S -= S in a process of its own: see run()).
"""
import itertools
from fractions import Fraction
from math import gcd
import pv


def frac(tok):
    if "x" in tok or "p" in tok.lower() and "/" not in tok:
        return Fraction(*float.fromhex(tok).as_integer_ratio())
    if "/" in tok:
        a, b = tok.split("/")
        return Fraction(int(a), int(b))
    return Fraction(tok)


MAT_TAGS = ("MATA", "MATB", "MATMUL", "MATADD", "MATSUB", "MATCOMM", "MATACOMM",
            "GMEA", "GMEB", "GMEMUL", "GMEADD", "GMESUB", "GMECOMM", "GMEACOMM")


def parse_mat(toks):
    """`ket:bra=c,bra=c ...` -> {(bra, ket): Fraction}, zeros dropped"""
    m = {}
    for x in toks:
        if x.startswith("ERR"):
            return x
        k, rest = x.split(":")
        for e in rest.split(","):
            b, c = e.split("=")
            v = frac(c)
            if v != 0:
                m[(int(b), int(k))] = v
    return m


def parse_block(lines):
    """lines of one case -> dict tag -> parsed value"""
    r = {}
    for l in lines:
        t = l.split()
        tag = t[0]
        if tag in ("A", "B", "MUL", "ADD", "SUB", "COMM", "ACOMM"):
            if len(t) > 1 and t[1].startswith("ERR"):
                r[tag] = t[1]
            else:
                r[tag] = [(x.split("=")[0], frac(x.split("=")[1])) for x in t[1:]]
        elif tag in ("EQ", "COMMUTES", "EQOLD", "COMMUTESOLD"):
            r[tag] = t[1]
        elif tag in MAT_TAGS:
            r[tag] = parse_mat(t[1:])
        elif tag == "ALIAS":          # ALIAS <name> MAT <matrix>
            r.setdefault("ALIAS", {})[t[1]] = parse_mat(t[3:])
        elif tag == "ALIASGME":       # ALIASGME <name> <matrix>
            r.setdefault("ALIASGME", {})[t[1]] = parse_mat(t[2:])
        elif tag == "ALIASFLAGS":
            r[tag] = (t[1], t[2])
        elif tag == "SPECDIAG":
            r.setdefault("SPECDIAG", []).append([(x.split(":")[0],) + tuple(y for y in x.split(":")[1].split("|")) for x in t[2:]])
        elif tag == "SPECIAL":
            r.setdefault("SPECIAL", []).append([(x.split(":")[0],) + tuple(frac(y) for y in x.split(":")[1].split("|")) for x in t[2:]])
        elif tag == "GMEVEC":         # GMEVEC <operator> <compared> <differing> <first difference>
            r.setdefault("GMEVEC", []).append((t[1], int(t[2]), int(t[3]), " ".join(t[4:])))
        elif tag == "ERR":
            r["ERR"] = " ".join(t[1:])
    return r


def blocks(out):
    res, cur = [], []
    for l in out.split("\n"):
        if l == "END":
            res.append(cur)
            cur = []
        elif l.strip():
            cur.append(l)
    return res


def matmul(a, b):
    r = {}
    for (i, k), x in a.items():
        for (k2, j), y in b.items():
            if k == k2:
                r[(i, j)] = r.get((i, j), 0) + x * y
    return {k: v for k, v in r.items() if v != 0}


class IMat:
    """sparse matrix with exact entries: {(i, j): python int} over the common denominator `den` (no overflow, no rounding)"""

    def __init__(self, a, den=1, n=0):
        self.a, self.den, self.n = a, den, n

    @staticmethod
    def of(mat, n):
        den = 1
        for v in mat.values():
            den = den * v.denominator // gcd(den, v.denominator)
        return IMat(dict((k, int(v * den)) for k, v in mat.items()), den, n)

    @staticmethod
    def ident(n):
        return IMat(dict(((i, i), 1) for i in range(n)), 1, n)

    def __mul__(self, o):
        if isinstance(o, IMat):
            rows = {}
            for (k, j), y in o.a.items():
                rows.setdefault(k, []).append((j, y))
            r = {}
            for (i, k), x in self.a.items():
                for j, y in rows.get(k, ()):
                    r[(i, j)] = r.get((i, j), 0) + x * y
            return IMat(r, self.den * o.den, self.n)
        o = Fraction(o)
        return IMat(dict((k, v * o.numerator) for k, v in self.a.items()), self.den * o.denominator, self.n)

    def _lin(self, o, sign):
        r = dict((k, v * o.den) for k, v in self.a.items())
        for k, v in o.a.items():
            r[k] = r.get(k, 0) + sign * v * self.den
        return IMat(r, self.den * o.den, self.n)

    def __add__(self, o):
        return self._lin(o, 1)

    def __sub__(self, o):
        return self._lin(o, -1)

    def sparse(self):
        return dict((k, Fraction(v, self.den)) for k, v in self.a.items() if v != 0)


def fmt_poly(p):
    if not isinstance(p, list):
        return str(p)
    return " + ".join("%s*%s" % (c, m) for m, c in p) if p else "0"


def mat_diff(got, want):
    """first differing element of two sparse matrices as text, or None"""
    if got == want:
        return None
    for k in sorted(set(got) | set(want)):
        if got.get(k, 0) != want.get(k, 0):
            return "<%d|X|%d>: library %s expected %s" % (k[0], k[1], got.get(k, 0), want.get(k, 0))
    return None


def alias_expected(a, c0):
    """name of the aliased in-place expression (harness/h_c05.cpp alias_battery) -> matrix expression of a = matrix(A)"""
    one = IMat.ident(a.n)
    a2 = a * a
    e = {"S*=S": a2, "S+=S": a * 2, "S*=T": a2, "S=S*S": a2, "S=S+S": a * 2, "S=S-S": a * 0, "S=S": a,
         "S+=S;S*=S": a2 * 4, "S*=S;S+=S": a2 * 2, "S*=S;S-=T": a2 - a, "comm(S,S)": a * 0, "acomm(S,S)": a2 * 2,
         "S-=S": a * 0, "S*=S;S-=S": a * 0}
    lazy = {"S*=S*S": lambda: a2 * a, "S+=S*S": lambda: a + a2, "S-=S*S": lambda: a - a2, "S*=S;S*=S": lambda: a2 * a2}
    if c0 is not None:
        e.update({"S*=coef": a * c0, "S+=coef": a + one * c0, "S-=coef": a - one * c0})
    return e, lazy


OPS = lambda M: ["d%d" % i for i in range(M)] + ["c%d" % i for i in range(M)]


def gen_cases(rng, quick):
    cases = []
    # (1) exhaustive: raw monomials through normalize_and_insert (length <= 4 over 2 modes, <= 3 over 3 modes)
    for M, L in ((2, 4), (3, 3 if quick else 4)):
        for n in range(0, L + 1):
            for m in itertools.product(OPS(M), repeat=n):
                r = "m" + ".".join(m) if m else "k1"
                cases.append((M, r, r, "raw-monomial len=%d" % n))
    # (2) exhaustive pairs of short monomials: products, sums, commutators, ==, commutes
    for M, L in ((2, 2), (3, 1 if quick else 2)):
        monos = [m for n in range(0, L + 1) for m in itertools.product(OPS(M), repeat=n)]
        for a in monos:
            for b in monos:
                ra = " ".join(a) + " *" * max(0, len(a) - 1) if a else "k1"
                rb = " ".join(b) + " *" * max(0, len(b) - 1) if b else "k1"
                cases.append((M, ra, rb, "pair-of-monomials"))

    # (3) random polynomials with forced cancellations
    def rpoly(M, nterms, maxlen):
        parts = []
        for _ in range(nterms):
            n = rng.randint(0, maxlen)
            m = [rng.choice(OPS(M)) for _ in range(n)]
            coef = rng.choice(["1", "-1", "2", "-2", "1/2", "-1/2", "3", "1/4"])
            parts.append(("m" + ".".join(m) if m else "k1") + " s" + coef)
        return " ".join(parts) + " +" * (len(parts) - 1)
    for i in range(250 if quick else 2500):
        M = rng.randint(1, 5)
        a = rpoly(M, rng.randint(1, 4), 6 if M >= 3 else 4)
        kind = rng.random()
        if kind < 0.2:
            b, sig = a + " neg " + rpoly(M, 1, 3) + " +", "random cancel B=-A+x"
        elif kind < 0.35:
            b, sig = a, "random B=A"
        elif kind < 0.45:
            b, sig = a + " " + rpoly(M, 1, 2) + " *", "random B=A*x"
        else:
            b, sig = rpoly(M, rng.randint(1, 4), 6 if M >= 3 else 4), "random independent"
        cases.append((M, a, b, sig))
    # (4) presets and scalars: N, Sz (incl. shapes that make the constructor throw), constants, scale by 0
    for M in range(1, 6):
        cases.append((M, "N%d" % M, "N%d n0 -" % M, "preset N"))
        for _ in range(3 if quick else 12):
            ups = sorted(rng.sample(range(M), M // 2)) if M >= 2 else []
            cases.append((M, "S%d:%s" % (M, ",".join(map(str, ups))), "N%d" % M, "preset Sz valid" if 2 * len(ups) == M else "preset Sz throws"))
            if M >= 2:
                k = rng.randint(1, M // 2)
                idx = rng.sample(range(M), 2 * k)
                cases.append((M, "T%s|%s" % (",".join(map(str, idx[:k])), ",".join(map(str, idx[k:]))), "N%d" % M, "preset Sz two lists"))
        cases.append((M, "n0 s0", "n0 a1 b1", "scalar zero / add-sub constant"))
        cases.append((M, "n0 a2 s1/2", "k1 n0 s1/2 +", "scalar ops"))
    # (5) prefix / size pattern for operator== (the case split of eq_sound)
    for M in (3, 4):
        cases.append((M, "d0", "md0.d1.c2", "eq prefix pattern"))
        cases.append((M, "md0.d1.c2", "d0", "eq prefix pattern"))
        cases.append((M, "d0 d1 +", "md0.d1.c2 d1 +", "eq prefix pattern"))
        cases.append((M, "d0 c1 *", "md0.c1.d2.c2", "eq prefix pattern"))
    # (6) several monomials connecting the SAME off-diagonal (bra, ket) pair: a hop / a single operator times a polynomial in the
    #     densities of spectator modes, normal ordering that leaves density factors behind, commutators with density-density terms
    #     (every matrix is read through getMatrixElement(bra, ket) AND actRight(ket))
    for M in (3, 4):
        for i, j, l in itertools.permutations(range(M), 3):
            if M == 4 and (i + j + l) % 2:
                continue
            hop = "d%d c%d *" % (i, j)
            cases.append((M, hop + " k1 n%d s2 + *" % l, "n%d" % l, "spectator hop*(1+2n)"))
            cases.append((M, hop + " " + hop + " n%d * +" % l, hop, "spectator hop+hop*n"))
            cases.append((M, "mc%d.d%d.d%d" % (j, j, i), "c%d n%d *" % (i, l), "spectator from normal ordering"))
            cases.append((M, "n%d n%d * n%d s3 +" % (i, j, i), "d%d" % i, "spectator commutator [nn+3n, c+]"))
        for _ in range(6 if quick else 40):
            i, j = rng.sample(range(M), 2)
            rest = [x for x in range(M) if x not in (i, j)]
            dens = " ".join("k%s n%d s%s +" % (rng.choice(["1", "2", "-1", "1/2"]), x, rng.choice(["1", "2", "-2", "3", "-1/2"])) for x in rest)
            dens += " *" * (len(rest) - 1)
            a = "d%d c%d * %s *" % (i, j, dens)
            b = rng.choice(["c%d d%d * n%d *" % (i, j, rest[0]), "d%d n%d *" % (i, rest[-1]), a + " neg d%d c%d * +" % (i, j)])
            cases.append((M, a, b, "spectator hop*prod(k+s n)"))
    return cases


def size_of(case):
    return (len(case[1].split()) + len(case[2].split()), len(case[1]) + len(case[2]), case[1], case[2])


def run(chk):
    quick = chk.tier == "quick"
    chk.prove(["extract/Extract_C05.vo"], extra_props=["Properties_C05_source.v"])
    chk.trusted += ["translator/gen_operator.py (statement splitter + shape recognition, ~1800 lines of Python): reads, one generated file per C++ function, the "
                    "loop nest of normalize_and_insert and the loop body of actRight(monomial, ket) statement by statement, the insert idioms, operator==, "
                    "the arithmetic operators, commutes / getCommutator, the presets and their shortcuts; what it cannot read falls back to the committed "
                    "snapshot and is then covered by the differential runs only; boost::operators, std::map, std::equal, std::copy, boost::dynamic_bitset "
                    "semantics as modelled in coq/theories/PolyGen.v",
                    "extraction: ExtrOcamlBasic, ExtrOcamlNatInt (nat -> OCaml int; indices and lengths < 100 here); Z and Q stay inductive",
                    "ocaml/driver_c05.ml, harness/h_c05.cpp (RPN interpreters), Python comparison with exact fractions"]
    chk.trusted += ["the vector form getMatrixElement(bra, ket, states) is modelled by hand (coq/theories/PolyVec.v: linear search for the image state, "
                    "terms with |ket_i| <= eps skipped, absent image states contribute 0; theorem vector_form_unit_vectors: unit vectors over pairwise "
                    "different states in any order give the pair form; vector_form_binary_search_refuted: a search that presupposes an ascending list does "
                    "not); it is not translated from the source: the tie is the GMEVEC comparison of h_c05 on every run (implementation's vector form on "
                    "unit vectors over ascending / descending / scrambled lists and scrambled subsets == implementation's pair form, which is compared "
                    "with the extracted polynomial model)"]
    chk.assume += ["coefficients are small dyadic rationals, for which the C++ threshold |c| < 100*eps coincides with the model's exact zero test",
                   "indices are < the size of the Fock state (beyond that boost::dynamic_bitset is undefined behaviour; excluded by C20)",
                   "real build (MelemType = double); the complex build shares the code path"]
    drv = pv.build_driver("driver_c05", ["C05_model"])
    h = pv.build_harness("h_c05")
    cases = gen_cases(chk.rng, quick)
    inp = "".join("%d ; %s ; %s\n" % (M, a, b) for (M, a, b, _) in cases)
    rc2, mout, merr = pv.sh([drv], input=inp, timeout=900)
    mb = blocks(mout)
    # the implementation may crash on a case (undefined behaviour); record it and continue with the next case
    ib, start, crashes = [], 0, []
    while start < len(cases):
        part = "".join("%d ; %s ; %s\n" % (M, a, b) for (M, a, b, _) in cases[start:])
        rc, out, err = pv.run_harness(h, part, timeout=900)
        got = blocks(out)
        ib += got
        start += len(got)
        if start < len(cases):
            crashes.append((cases[start], rc, err[-400:]))
            ib.append(["ERR CRASH rc=%d" % rc])
            start += 1
            if len(crashes) > 60:
                break
    if crashes:
        worst = min(crashes, key=lambda c: size_of(c[0]))
        M, a, b, sig = worst[0]
        mblock = parse_block(mb[cases.index(worst[0])]) if len(mb) == len(cases) else {}
        chk.violation("crash: M=%d A=[%s] B=[%s]" % (M, a, b),
                      "the library crashes (exit %d) evaluating the battery on A=[%s], B=[%s]; model says EQ -> %s; %d crashing cases in this run"
                      % (worst[1], a, b, mblock.get("EQOLD", "?"), len(crashes)),
                      {"harness": "h_c05", "input": "%d ; %s ; %s" % (M, a, b), "stderr": worst[2]})
    if len(ib) != len(cases):
        chk.tie_broken("h_c05", "too many crashes (%d); %d/%d cases evaluated" % (len(crashes), len(ib), len(cases)))
        return
    if rc2 != 0 or len(mb) != len(cases):
        chk.tie_broken("driver_c05", "model driver rc=%d blocks=%d/%d %s" % (rc2, len(mb), len(cases), merr[-300:]))
        return
    fails = {}   # kind -> (size, case, detail, is_violation)

    def fail(kind, case, detail, violation):
        k = (kind, violation)
        if k not in fails or size_of(case) < size_of(fails[k][0]):
            fails[k] = (case, detail)

    for case, bi, bm in zip(cases, ib, mb):
        M, a, b, sig = case
        pi, pm = parse_block(bi), parse_block(bm)
        canon = "%d;%s;%s" % (M, a, b)
        nontrivial = True
        if pi.get("ERR", "").startswith("CRASH"):
            chk.case(canon, sig + " [crash]", True, None)
            continue
        if "ERR" in pi or "ERR" in pm:
            # constructor threw: both sides must agree on the error
            chk.case(canon, sig + " [throws]", True, None)
            ei = pi.get("ERR", "none").split()[0]
            em = pm.get("ERR", "none").split()[0]
            if ei != em:
                fail("exception", case, "impl %s model %s" % (pi.get("ERR"), pm.get("ERR")), False)
            continue
        nsw = sum(1 for t in ("MUL", "COMM", "ACOMM") if pi.get(t))
        chk.case(canon, sig, nontrivial,
                 {"M": M, "A": a, "B": b, "impl_MUL": [(m, str(c)) for m, c in pi["MUL"]][:4]} if len(chk.samples) < 6 and sig.startswith("random") else None)
        # ---- model vs implementation (exact, order included) ----
        for tag in ("A", "B", "MUL", "ADD", "SUB", "COMM", "ACOMM", "MATA", "MATB", "MATMUL"):
            if pi.get(tag) != pm.get(tag):
                fail("model-vs-impl " + tag, case, "impl %s model %s" % (str(pi.get(tag))[:300], str(pm.get(tag))[:300]), False)
        if pi.get("SPECIAL") != pm.get("SPECIAL"):
            fail("model-vs-impl SPECIAL", case, "impl %s model %s" % (str(pi.get("SPECIAL"))[:200], str(pm.get("SPECIAL"))[:200]), False)
        # ---- the property itself, on the implementation's output ----
        mats_ok = all(isinstance(pi[t], dict) for t in ("MATA", "MATB", "MATMUL"))
        if mats_ok:
            if matmul(pi["MATA"], pi["MATB"]) != pi["MATMUL"]:
                fail("product", case, "matrix(A*B) != matrix(A) matrix(B): %s" % (pi["MUL"],), True)
            same = pi["MATA"] == pi["MATB"]
            if (pi["EQ"] == "1") != same:
                fail("equality-test", case, "A == B returned %s but matrices are %s (A=%s B=%s)" % (pi["EQ"], "equal" if same else "different", pi["A"], pi["B"]), True)
            comm = matmul(pi["MATA"], pi["MATB"]) == matmul(pi["MATB"], pi["MATA"])
            if (pi["COMMUTES"] == "1") != comm:
                fail("commutation-test", case, "commutes returned %s but matrices %s" % (pi["COMMUTES"], "commute" if comm else "do not commute"), True)
        for sp in pi.get("SPECIAL", []):
            for (k, fast, slow) in sp:
                if fast != slow:
                    fail("shortcut", case, "ket %s: specialised %s generic %s" % (k, fast, slow), True)
        # one-argument shortcut getMatrixElement(ket), the specialised actRight(ket) and the off-diagonal elements of N / Sz
        for sp, sd in zip(pi.get("SPECIAL", []), pi.get("SPECDIAG", [])):
            for (k, fast, slow), (k2, one, dg, noff) in zip(sp, sd):
                if frac(one) != slow or frac(dg) != slow or noff != "0":
                    fail("shortcut-paths", case, "ket %s: getMatrixElement(ket) %s, actRight(ket)[ket] %s, generic polynomial %s, non-zero off-diagonal "
                         "elements / image states other than the ket: %s" % (k, frac(one), frac(dg), slow, noff), True)
        if len(pi.get("SPECIAL", [])) != len(pi.get("SPECDIAG", [])):
            fail("harness SPECDIAG", case, "SPECDIAG lines missing", False)
        # ---- every matrix through BOTH reading paths, against the matrix expression of the MODEL's matrices of A and B ----
        if isinstance(pm.get("MATA"), dict) and isinstance(pm.get("MATB"), dict):
            n = 1 << M
            ma, mb_ = IMat.of(pm["MATA"], n), IMat.of(pm["MATB"], n)
            ab, ba = ma * mb_, mb_ * ma
            want = {"A": pm["MATA"], "B": pm["MATB"], "MUL": ab.sparse(), "ADD": (ma + mb_).sparse(), "SUB": (ma - mb_).sparse(),
                    "COMM": (ab - ba).sparse(), "ACOMM": (ab + ba).sparse()}
            label = {"A": "A", "B": "B", "MUL": "A*B", "ADD": "A+B", "SUB": "A-B", "COMM": "[A,B]", "ACOMM": "{A,B}"}
            base_ok = True
            for t in ("A", "B", "MUL", "ADD", "SUB", "COMM", "ACOMM"):
                for path, tag in (("actRight(ket)", "MAT" + t), ("getMatrixElement(bra,ket)", "GME" + t)):
                    got = pi.get(tag)
                    if not isinstance(got, dict):
                        fail("harness " + tag, case, "record %s missing or unreadable: %s" % (tag, str(got)[:80]), False)
                        continue
                    d = mat_diff(got, want[t])
                    if d:
                        base_ok = False
                        other = pi.get(("GME" if tag.startswith("MAT") else "MAT") + t)
                        fail("matrix of %s via %s" % (label[t], path), case,
                             "X = %s = %s read through %s; %s (expected = same expression of the Jordan-Wigner matrices of A and B; the other reading path gives %s)"
                             % (label[t], fmt_poly(pi.get(t)), path, d,
                                other.get(tuple(int(x) for x in d.split(">")[0][1:].replace("X|", "").split("|")), 0) if isinstance(other, dict) else "?"), True)
            # ---- the vector form getMatrixElement(bra, ket, states) with unit vectors over state lists in any order ----
            for opn, total, bad, first in pi.get("GMEVEC", []):
                chk.extra["vector_form_elements_compared"] = chk.extra.get("vector_form_elements_compared", 0) + total
                if bad:
                    fail("matrix of %s via getMatrixElement(bra-vector, ket-vector, states)" % opn, case,
                         "X = %s: with unit vectors over a list of basis states, %d of %d (ordering, bra, ket) give a value different from "
                         "getMatrixElement(states[bra], states[ket]) (which agrees with the Jordan-Wigner matrix); first: %s"
                         % (opn, bad, total, first), True)
            # ---- aliased in-place expressions: S is a copy of A, the right-hand side is S itself ----
            c0 = pm["A"][0][1] if isinstance(pm.get("A"), list) and pm["A"] else None
            exp, lazy = alias_expected(ma, c0)
            al, alg = pi.get("ALIAS", {}), pi.get("ALIASGME", {})
            for name in sorted(al):
                e = exp.get(name) or (lazy[name]() if name in lazy else None)
                if e is None:
                    fail("harness ALIAS " + name, case, "no expectation for this record", False)
                    continue
                w = e.sparse()
                for path, got in (("actRight(ket)", al[name]), ("getMatrixElement(bra,ket)", alg.get(name))):
                    d = mat_diff(got, w) if isinstance(got, dict) else "record unreadable"
                    if d:
                        ref = al.get("S*=T"), alg.get("S*=T")
                        refok = ref[0] == exp["S*=T"].sparse() and ref[1] == ref[0] and base_ok
                        fail("in-place `%s` with the object itself as operand" % name, case,
                             "S = A = %s; after `%s` (S on both sides is the SAME object) the matrix of S read through %s has %s; "
                             "the matrices of A, B, A*B, A+B, A-B, [A,B], {A,B} and of `S *= T` with a COPY T of S are %s for this input"
                             % (fmt_poly(pi.get("A")), name.replace(";", "; "), path, d, "all as expected" if refok else "NOT all as expected either"), True)
            missing = [nm for nm in ("S*=S", "S+=S", "S*=T", "S=S*S", "S=S+S", "S=S-S", "S=S", "comm(S,S)", "acomm(S,S)") if nm not in al]
            if missing:
                fail("harness ALIAS", case, "records missing: %s" % missing, False)
            if pi.get("ALIASFLAGS") != ("1", "1"):
                fail("in-place: S==S / S.commutes(S)", case, "S == S returned %s, S.commutes(S) returned %s for S = %s" % (pi.get("ALIASFLAGS", ("?", "?")) + (fmt_poly(pi.get("A")),)), True)
        # model's own ==/commutes (repaired semantics) vs impl
        if pm.get("EQ") != pi.get("EQ"):
            fail("model-vs-impl EQ", case, "impl %s model(sized) %s model(prefix) %s" % (pi.get("EQ"), pm.get("EQ"), pm.get("EQOLD")), False)
        if pm.get("COMMUTES") != pi.get("COMMUTES"):
            fail("model-vs-impl COMMUTES", case, "impl %s model(sized) %s model(prefix) %s" % (pi.get("COMMUTES"), pm.get("COMMUTES"), pm.get("COMMUTESOLD")), False)

    # ---- S -= S (and S *= S; S -= S): a process of its own per attempt, because an implementation that erases the entry it is visiting
    #      dies here; a handful of cases of every family, smallest first
    fam = {}
    for case, bm in zip(cases, mb):
        if case[3].startswith("raw-monomial len=0") or "throws" in case[3]:
            continue
        fam.setdefault(case[3], [])
        if len(fam[case[3]]) < (3 if quick else 12):
            fam[case[3]].append((case, bm))
    todo = sorted((x for l in fam.values() for x in l), key=lambda x: size_of(x[0]))
    start, sub_crashes = 0, 0
    while start < len(todo) and sub_crashes < 3:
        part = "".join("%d ; %s ; %s\n" % (c[0], c[1], c[2]) for c, _ in todo[start:])
        rc, out, err = pv.run_harness(h, part, timeout=600, args=["alias-sub"])
        got = blocks(out)
        for (case, bm), blk in zip(todo[start:], got):
            pm = parse_block(bm)
            if "ERR" in pm or any(l.startswith("ERR") for l in blk):
                continue
            chk.case("alias-sub;%d;%s" % (case[0], case[1]), "aliased S -= S [" + case[3].split(" len=")[0] + "]", True, None)
            for l in blk:
                t = l.split()
                if t[0] in ("ALIASSUB", "ALIASSUB2", "ALIASSUBGME"):
                    m = parse_mat(t[2:] if t[0] != "ALIASSUBGME" else t[1:])
                    if m != {}:
                        nm = "S*=S; S-=S" if t[0] == "ALIASSUB2" else "S-=S"
                        fail("in-place `%s` with the object itself as operand" % nm, case, "S = A = %s; after `%s` (the SAME object on both sides) the matrix of S is not zero: %s"
                             % (fmt_poly(pm.get("A")), nm, mat_diff(m, {})), True)
            if not any(l.startswith("ALIASSUB2") for l in blk):
                fail("harness ALIASSUB", case, "records missing", False)
        start += len(got)
        if start < len(todo):
            # the process died inside the block that follows the last complete one
            sub_crashes += 1
            case, bm = todo[start]
            pm = parse_block(bm)
            if "ERR" not in pm:
                chk.case("alias-sub;%d;%s" % (case[0], case[1]), "aliased S -= S [crash]", True, None)
                fail("alias-crash: S -= S", case, "the library crashes (exit %d) on `Operator S = A; S -= S;` with A = %s (Operator::operator-= with the "
                     "object itself as right-hand side: operator-= erases the entry it is visiting); %s"
                     % (rc, fmt_poly(pm.get("A")), ("Segmentation fault" if "Segmentation fault" in err else " ".join(err.split())[-120:])), True)
            start += 1
    viol_kinds = set(k for (k, v) in fails if v)
    rank = lambda kv: (2 if kv[0][0].startswith("alias-crash") else 1 if kv[0][0].startswith("in-place") else 0, kv[0])
    for (kind, violation), (case, detail) in sorted(fails.items(), key=rank):
        M, a, b, sig = case
        if violation and (kind.startswith("alias-crash") or kind.startswith("in-place")):
            # B plays no role in these
            chk.violation("%s: M=%d A=[%s]" % (kind, M, a), "%s (%s)" % (detail, sig),
                          {"harness": "h_c05", "input": "%d ; %s ; %s" % (M, a, a), "kind": kind, "detail": detail,
                           "args": ["alias-sub"] if "S-=S" in kind or "S -= S" in kind else []})
        elif violation:
            chk.violation("%s: M=%d A=[%s] B=[%s]" % (kind, M, a, b), "%s (%s)" % (detail, sig),
                          {"harness": "h_c05", "input": "%d ; %s ; %s" % (M, a, b), "kind": kind, "detail": detail})
        else:
            # the model disagrees with the code although the property checks passed on this case: the model is not the code
            related = [k for k in viol_kinds if k.split("-")[0] in kind.lower()]
            if not related:
                chk.tie_broken(kind, "M=%d A=[%s] B=[%s]: %s" % (M, a, b, detail))
    chk.rule = ("exhaustive: all raw monomials up to length 4 (2 modes) / 3-4 (3 modes) through normalize_and_insert, all pairs of monomials "
                "up to length 2 (2 modes) / 1-2 (3 modes) through the full battery (A*B, A+B, A-B, commutator, anticommutator, ==, commutes, "
                "matrices); random: polynomials of 1-4 terms, monomials up to length 6 over up to 5 modes, coefficients from "
                "{+-1,+-2,+-1/2,3,1/4} with forced cancellations; presets N, Sz (valid and throwing shapes), scalar operations; "
                "spectator families (hop or single operator times polynomials in the densities of other modes, commutators with density-density "
                "terms: several monomials per (bra, ket) pair). For every case the matrices of A, B, A*B, A+B, A-B, [A,B], {A,B} are read through "
                "actRight(ket) AND through getMatrixElement(bra,ket) for all pairs and compared exactly with the same expression of the model's "
                "matrices of A and B; N / Sz additionally through getMatrixElement(ket) and their own actRight. Aliased in-place expressions on "
                "S = copy of A with S itself as right-hand side (S*=S, S+=S, S*=S*S, S=S*S, S=S+S, S=S-S, S=S, chains, scalar taken from S, "
                "comm/acomm/==/commutes with itself) are compared with the polynomial in matrix(A) they denote; S -= S in a process of its own. "
                "Every case is non-trivial; distinct = distinct (M, A, B) text. Signature = generator family.")


def setup():
    pv.build_driver("driver_c05", ["C05_model"])
    pv.build_harness("h_c05")


def replay(chk, path):
    import json
    r = json.load(open(path))
    rp = r.get("replay", {})
    if isinstance(rp, dict) and "input" in rp:
        h = pv.build_harness("h_c05")
        drv = pv.build_driver("driver_c05", ["C05_model"])
        rc, out, err = pv.run_harness(h, rp["input"] + "\n", args=rp.get("args", []))
        print("implementation (exit %d):\n%s%s" % (rc, out, "" if rc == 0 else err[-600:]))
        print("model:\n" + pv.sh([drv], input=rp["input"] + "\n")[1])
        return 0
    run(chk)
    return chk.finish()
