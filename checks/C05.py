"""C05 -- Symbolic operator algebra faithfully represents the fermionic algebra.

Proof: props/Properties_C05.v about PV.Poly (hand model of Operator.h/.cpp, loop for loop).
Tie: correspondence. The same RPN expressions are evaluated by the real Pomerol::Operator (harness h_c05) and by the
extracted model at exact rationals (driver_c05); monomial maps (iteration order included), matrices on the M-mode Fock
space, ==, commutes and the N/Sz shortcuts are diffed exactly. Independently of the model, the property is evaluated on
the implementation's own output: matrix(A*B) = matrix(A) matrix(B); (A == B) <-> equal matrices; commutes <-> matrices
commute; shortcut = generic diagonal element.
"""
import itertools
from fractions import Fraction
import pv


def frac(tok):
    if "x" in tok or "p" in tok.lower() and "/" not in tok:
        return Fraction(*float.fromhex(tok).as_integer_ratio())
    if "/" in tok:
        a, b = tok.split("/")
        return Fraction(int(a), int(b))
    return Fraction(tok)


def parse_block(lines):
    """lines of one case -> dict tag -> parsed value"""
    r = {}
    for l in lines:
        t = l.split()
        tag = t[0]
        if tag in ("A", "B", "MUL", "ADD", "SUB", "COMM", "ACOMM"):
            if len(t) > 1 and t[1].startswith("ERR"):
                r[tag] = t[1]
            else:
                r[tag] = [(x.split("=")[0], frac(x.split("=")[1])) for x in t[1:]]
        elif tag in ("EQ", "COMMUTES", "EQOLD", "COMMUTESOLD"):
            r[tag] = t[1]
        elif tag in ("MATA", "MATB", "MATMUL"):
            m = {}
            for x in t[1:]:
                if x.startswith("ERR"):
                    m = x
                    break
                k, rest = x.split(":")
                for e in rest.split(","):
                    b, c = e.split("=")
                    if frac(c) != 0:
                        m[(int(b), int(k))] = frac(c)
            r[tag] = m
        elif tag == "SPECIAL":
            r.setdefault("SPECIAL", []).append([(x.split(":")[0],) + tuple(frac(y) for y in x.split(":")[1].split("|")) for x in t[2:]])
        elif tag == "ERR":
            r["ERR"] = " ".join(t[1:])
    return r


def blocks(out):
    res, cur = [], []
    for l in out.split("\n"):
        if l == "END":
            res.append(cur)
            cur = []
        elif l.strip():
            cur.append(l)
    return res


def matmul(a, b):
    r = {}
    for (i, k), x in a.items():
        for (k2, j), y in b.items():
            if k == k2:
                r[(i, j)] = r.get((i, j), 0) + x * y
    return {k: v for k, v in r.items() if v != 0}


OPS = lambda M: ["d%d" % i for i in range(M)] + ["c%d" % i for i in range(M)]


def gen_cases(rng, quick):
    cases = []
    # (1) exhaustive: raw monomials through normalize_and_insert (length <= 4 over 2 modes, <= 3 over 3 modes)
    for M, L in ((2, 4), (3, 3 if quick else 4)):
        for n in range(0, L + 1):
            for m in itertools.product(OPS(M), repeat=n):
                r = "m" + ".".join(m) if m else "k1"
                cases.append((M, r, r, "raw-monomial len=%d" % n))
    # (2) exhaustive pairs of short monomials: products, sums, commutators, ==, commutes
    for M, L in ((2, 2), (3, 1 if quick else 2)):
        monos = [m for n in range(0, L + 1) for m in itertools.product(OPS(M), repeat=n)]
        for a in monos:
            for b in monos:
                ra = " ".join(a) + " *" * max(0, len(a) - 1) if a else "k1"
                rb = " ".join(b) + " *" * max(0, len(b) - 1) if b else "k1"
                cases.append((M, ra, rb, "pair-of-monomials"))

    # (3) random polynomials with forced cancellations
    def rpoly(M, nterms, maxlen):
        parts = []
        for _ in range(nterms):
            n = rng.randint(0, maxlen)
            m = [rng.choice(OPS(M)) for _ in range(n)]
            coef = rng.choice(["1", "-1", "2", "-2", "1/2", "-1/2", "3", "1/4"])
            parts.append(("m" + ".".join(m) if m else "k1") + " s" + coef)
        return " ".join(parts) + " +" * (len(parts) - 1)
    for i in range(250 if quick else 2500):
        M = rng.randint(1, 5)
        a = rpoly(M, rng.randint(1, 4), 6 if M >= 3 else 4)
        kind = rng.random()
        if kind < 0.2:
            b, sig = a + " neg " + rpoly(M, 1, 3) + " +", "random cancel B=-A+x"
        elif kind < 0.35:
            b, sig = a, "random B=A"
        elif kind < 0.45:
            b, sig = a + " " + rpoly(M, 1, 2) + " *", "random B=A*x"
        else:
            b, sig = rpoly(M, rng.randint(1, 4), 6 if M >= 3 else 4), "random independent"
        cases.append((M, a, b, sig))
    # (4) presets and scalars: N, Sz (incl. shapes that make the constructor throw), constants, scale by 0
    for M in range(1, 6):
        cases.append((M, "N%d" % M, "N%d n0 -" % M, "preset N"))
        for _ in range(3 if quick else 12):
            ups = sorted(rng.sample(range(M), M // 2)) if M >= 2 else []
            cases.append((M, "S%d:%s" % (M, ",".join(map(str, ups))), "N%d" % M, "preset Sz valid" if 2 * len(ups) == M else "preset Sz throws"))
            if M >= 2:
                k = rng.randint(1, M // 2)
                idx = rng.sample(range(M), 2 * k)
                cases.append((M, "T%s|%s" % (",".join(map(str, idx[:k])), ",".join(map(str, idx[k:]))), "N%d" % M, "preset Sz two lists"))
        cases.append((M, "n0 s0", "n0 a1 b1", "scalar zero / add-sub constant"))
        cases.append((M, "n0 a2 s1/2", "k1 n0 s1/2 +", "scalar ops"))
    # (5) prefix / size pattern for operator== (the case split of eq_sound)
    for M in (3, 4):
        cases.append((M, "d0", "md0.d1.c2", "eq prefix pattern"))
        cases.append((M, "md0.d1.c2", "d0", "eq prefix pattern"))
        cases.append((M, "d0 d1 +", "md0.d1.c2 d1 +", "eq prefix pattern"))
        cases.append((M, "d0 c1 *", "md0.c1.d2.c2", "eq prefix pattern"))
    return cases


def size_of(case):
    return (len(case[1].split()) + len(case[2].split()), len(case[1]) + len(case[2]), case[1], case[2])


def run(chk):
    quick = chk.tier == "quick"
    chk.prove(["extract/Extract_C05.vo"], extra_props=["Properties_C05_source.v"])
    chk.trusted += ["translator/gen_operator.py (statement splitter + shape recognition, ~1800 lines of Python): reads, one generated file per C++ function, the "
                    "loop nest of normalize_and_insert and the loop body of actRight(monomial, ket) statement by statement, the insert idioms, operator==, "
                    "the arithmetic operators, commutes / getCommutator, the presets and their shortcuts; what it cannot read falls back to the committed "
                    "snapshot and is then covered by the differential runs only; boost::operators, std::map, std::equal, std::copy, boost::dynamic_bitset "
                    "semantics as modelled in coq/theories/PolyGen.v",
                    "extraction: ExtrOcamlBasic, ExtrOcamlNatInt (nat -> OCaml int; indices and lengths < 100 here); Z and Q stay inductive",
                    "ocaml/driver_c05.ml, harness/h_c05.cpp (RPN interpreters), Python comparison with exact fractions"]
    chk.assume += ["coefficients are small dyadic rationals, for which the C++ threshold |c| < 100*eps coincides with the model's exact zero test",
                   "indices are < the size of the Fock state (beyond that boost::dynamic_bitset is undefined behaviour; excluded by C20)",
                   "real build (MelemType = double); the complex build shares the code path"]
    drv = pv.build_driver("driver_c05", ["C05_model"])
    h = pv.build_harness("h_c05")
    cases = gen_cases(chk.rng, quick)
    inp = "".join("%d ; %s ; %s\n" % (M, a, b) for (M, a, b, _) in cases)
    rc2, mout, merr = pv.sh([drv], input=inp, timeout=900)
    mb = blocks(mout)
    # the implementation may crash on a case (undefined behaviour); record it and continue with the next case
    ib, start, crashes = [], 0, []
    while start < len(cases):
        part = "".join("%d ; %s ; %s\n" % (M, a, b) for (M, a, b, _) in cases[start:])
        rc, out, err = pv.run_harness(h, part, timeout=900)
        got = blocks(out)
        ib += got
        start += len(got)
        if start < len(cases):
            crashes.append((cases[start], rc, err[-400:]))
            ib.append(["ERR CRASH rc=%d" % rc])
            start += 1
            if len(crashes) > 60:
                break
    if crashes:
        worst = min(crashes, key=lambda c: size_of(c[0]))
        M, a, b, sig = worst[0]
        mblock = parse_block(mb[cases.index(worst[0])]) if len(mb) == len(cases) else {}
        chk.violation("crash: M=%d A=[%s] B=[%s]" % (M, a, b),
                      "the library crashes (exit %d) evaluating the battery on A=[%s], B=[%s]; model says EQ -> %s; %d crashing cases in this run"
                      % (worst[1], a, b, mblock.get("EQOLD", "?"), len(crashes)),
                      {"harness": "h_c05", "input": "%d ; %s ; %s" % (M, a, b), "stderr": worst[2]})
    if len(ib) != len(cases):
        chk.tie_broken("h_c05", "too many crashes (%d); %d/%d cases evaluated" % (len(crashes), len(ib), len(cases)))
        return
    if rc2 != 0 or len(mb) != len(cases):
        chk.tie_broken("driver_c05", "model driver rc=%d blocks=%d/%d %s" % (rc2, len(mb), len(cases), merr[-300:]))
        return
    fails = {}   # kind -> (size, case, detail, is_violation)

    def fail(kind, case, detail, violation):
        k = (kind, violation)
        if k not in fails or size_of(case) < size_of(fails[k][0]):
            fails[k] = (case, detail)

    for case, bi, bm in zip(cases, ib, mb):
        M, a, b, sig = case
        pi, pm = parse_block(bi), parse_block(bm)
        canon = "%d;%s;%s" % (M, a, b)
        nontrivial = True
        if pi.get("ERR", "").startswith("CRASH"):
            chk.case(canon, sig + " [crash]", True, None)
            continue
        if "ERR" in pi or "ERR" in pm:
            # constructor threw: both sides must agree on the error
            chk.case(canon, sig + " [throws]", True, None)
            ei = pi.get("ERR", "none").split()[0]
            em = pm.get("ERR", "none").split()[0]
            if ei != em:
                fail("exception", case, "impl %s model %s" % (pi.get("ERR"), pm.get("ERR")), False)
            continue
        nsw = sum(1 for t in ("MUL", "COMM", "ACOMM") if pi.get(t))
        chk.case(canon, sig, nontrivial,
                 {"M": M, "A": a, "B": b, "impl_MUL": [(m, str(c)) for m, c in pi["MUL"]][:4]} if len(chk.samples) < 6 and sig.startswith("random") else None)
        # ---- model vs implementation (exact, order included) ----
        for tag in ("A", "B", "MUL", "ADD", "SUB", "COMM", "ACOMM", "MATA", "MATB", "MATMUL"):
            if pi.get(tag) != pm.get(tag):
                fail("model-vs-impl " + tag, case, "impl %s model %s" % (str(pi.get(tag))[:300], str(pm.get(tag))[:300]), False)
        if pi.get("SPECIAL") != pm.get("SPECIAL"):
            fail("model-vs-impl SPECIAL", case, "impl %s model %s" % (str(pi.get("SPECIAL"))[:200], str(pm.get("SPECIAL"))[:200]), False)
        # ---- the property itself, on the implementation's output ----
        mats_ok = all(isinstance(pi[t], dict) for t in ("MATA", "MATB", "MATMUL"))
        if mats_ok:
            if matmul(pi["MATA"], pi["MATB"]) != pi["MATMUL"]:
                fail("product", case, "matrix(A*B) != matrix(A) matrix(B): %s" % (pi["MUL"],), True)
            same = pi["MATA"] == pi["MATB"]
            if (pi["EQ"] == "1") != same:
                fail("equality-test", case, "A == B returned %s but matrices are %s (A=%s B=%s)" % (pi["EQ"], "equal" if same else "different", pi["A"], pi["B"]), True)
            comm = matmul(pi["MATA"], pi["MATB"]) == matmul(pi["MATB"], pi["MATA"])
            if (pi["COMMUTES"] == "1") != comm:
                fail("commutation-test", case, "commutes returned %s but matrices %s" % (pi["COMMUTES"], "commute" if comm else "do not commute"), True)
        for sp in pi.get("SPECIAL", []):
            for (k, fast, slow) in sp:
                if fast != slow:
                    fail("shortcut", case, "ket %s: specialised %s generic %s" % (k, fast, slow), True)
        # model's own ==/commutes (repaired semantics) vs impl
        if pm.get("EQ") != pi.get("EQ"):
            fail("model-vs-impl EQ", case, "impl %s model(sized) %s model(prefix) %s" % (pi.get("EQ"), pm.get("EQ"), pm.get("EQOLD")), False)
        if pm.get("COMMUTES") != pi.get("COMMUTES"):
            fail("model-vs-impl COMMUTES", case, "impl %s model(sized) %s model(prefix) %s" % (pi.get("COMMUTES"), pm.get("COMMUTES"), pm.get("COMMUTESOLD")), False)

    viol_kinds = set(k for (k, v) in fails if v)
    for (kind, violation), (case, detail) in sorted(fails.items()):
        M, a, b, sig = case
        if violation:
            chk.violation("%s: M=%d A=[%s] B=[%s]" % (kind, M, a, b), "%s (%s)" % (detail, sig),
                          {"harness": "h_c05", "input": "%d ; %s ; %s" % (M, a, b), "kind": kind, "detail": detail})
        else:
            # the model disagrees with the code although the property checks passed on this case: the model is not the code
            related = [k for k in viol_kinds if k.split("-")[0] in kind.lower()]
            if not related:
                chk.tie_broken(kind, "M=%d A=[%s] B=[%s]: %s" % (M, a, b, detail))
    chk.rule = ("exhaustive: all raw monomials up to length 4 (2 modes) / 3-4 (3 modes) through normalize_and_insert, all pairs of monomials "
                "up to length 2 (2 modes) / 1-2 (3 modes) through the full battery (A*B, A+B, A-B, commutator, anticommutator, ==, commutes, "
                "matrices); random: polynomials of 1-4 terms, monomials up to length 6 over up to 5 modes, coefficients from "
                "{+-1,+-2,+-1/2,3,1/4} with forced cancellations; presets N, Sz (valid and throwing shapes), scalar operations. "
                "Every case is non-trivial; distinct = distinct (M, A, B) text. Signature = generator family.")


def setup():
    pv.build_driver("driver_c05", ["C05_model"])
    pv.build_harness("h_c05")


def replay(chk, path):
    import json
    r = json.load(open(path))
    rp = r.get("replay", {})
    if isinstance(rp, dict) and "input" in rp:
        h = pv.build_harness("h_c05")
        drv = pv.build_driver("driver_c05", ["C05_model"])
        print("implementation:\n" + pv.run_harness(h, rp["input"] + "\n")[1])
        print("model:\n" + pv.sh([drv], input=rp["input"] + "\n")[1])
        return 0
    run(chk)
    return chk.finish()
