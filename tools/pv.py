"""Common machinery for the pomerol verification checks (see DESIGN.md section 2).

Everything a check needs that is not specific to one property lives here:
building libpomerol variants from /repo's *current working tree*, building C++
harnesses and extracted OCaml drivers, running the translators and the Coq
build, collecting proof obligations, writing evidence, reporting violations and
consulting known_findings.json.
"""
import fcntl
import glob
import hashlib
import json
import os
import random
import re
import shutil
import signal
import subprocess
import sys
import time

ROOT = os.path.dirname(os.path.dirname(os.path.abspath(__file__)))
REPO = os.environ.get("POMEROL_REPO", "/repo")
BUILD = os.path.join(ROOT, ".build")
COQ = os.path.join(ROOT, "coq")
COQ_SRC = COQ
if os.path.realpath(REPO) != "/repo":
    # scratch copies of the repository (self-tests, seeded changes) get their own build trees
    BUILD = os.path.join(ROOT, ".build", "alt-" + hashlib.sha1(os.path.realpath(REPO).encode()).hexdigest()[:8])
    COQ = os.path.join(BUILD, "coq")     # private copy of the Coq sources: gen/ is regenerated from the scratch repository


def sync_coq():
    """For scratch repositories: bring the private copy of the Coq sources up to date (mtimes preserved,
    so make stays incremental); generated files and build products in the copy are left alone."""
    if COQ == COQ_SRC:
        return
    if not os.path.isdir(COQ):
        # first use of this scratch repository: start from the main tree's compiled files (sources are identical, mtimes are
        # preserved, so make rebuilds only what depends on a gen/ file that the scratch repository translates differently);
        # taken under the main tree's Coq lock so that no half-written .vo is copied
        os.makedirs(os.path.join(ROOT, ".build"), exist_ok=True)
        with open(os.path.join(ROOT, ".build", "coq.lock"), "w") as lk:
            fcntl.flock(lk, fcntl.LOCK_EX)
            os.makedirs(COQ, exist_ok=True)
            subprocess.run(["rsync", "-a", "--exclude", "Makefile*", "--exclude", ".Makefile.d", "--exclude", "_CoqProject",
                            "--exclude", ".*.cache", COQ_SRC + "/", COQ + "/"], check=True)
            fcntl.flock(lk, fcntl.LOCK_UN)
    subprocess.run(["rsync", "-a", "--exclude", "*.vo", "--exclude", "*.vok", "--exclude", "*.vos", "--exclude", "*.glob",
                    "--exclude", "*.aux", "--exclude", "Makefile*", "--exclude", ".Makefile.d", "--exclude", "_CoqProject",
                    "--exclude", "/gen/Gen_*.v", "--exclude", "/*.ml", "--exclude", "/*.mli", "--exclude", ".*.cache",
                    COQ_SRC + "/", COQ + "/"], check=True)
GUARD = "POMEROL_VERIF"
NPROC = os.cpu_count() or 4

MPI_ENV = {"OMPI_ALLOW_RUN_AS_ROOT": "1", "OMPI_ALLOW_RUN_AS_ROOT_CONFIRM": "1",
           "OMPI_MCA_rmaps_base_oversubscribe": "1", "OMPI_MCA_hwloc_base_binding_policy": "none",
           "OMPI_MCA_btl_vader_single_copy_mechanism": "none"}

VARIANTS = {
    "real": ["-DCMAKE_BUILD_TYPE=Release", "-DCMAKE_CXX_FLAGS=-D%s" % GUARD],
    "complex": ["-DCMAKE_BUILD_TYPE=Release", "-DCMAKE_CXX_FLAGS=-D%s" % GUARD,
                "-DPOMEROL_COMPLEX_MATRIX_ELEMENTS=ON"],
    # what a plain `cmake /repo` gives: no build type, so NDEBUG is not defined and the library's assert()s are active
    "assert": ["-DCMAKE_BUILD_TYPE=", "-DCMAKE_CXX_FLAGS=-D%s -O1" % GUARD],
    "asan": ["-DCMAKE_BUILD_TYPE=RelWithDebInfo",
             "-DCMAKE_CXX_FLAGS=-D%s -O1 -g -fsanitize=address,undefined -fno-sanitize-recover=undefined -fno-omit-frame-pointer" % GUARD,
             "-DCMAKE_SHARED_LINKER_FLAGS=-fsanitize=address,undefined"],
}
VARIANT_CXX = {
    "real": [],
    "assert": [],
    "complex": [],
    "asan": ["-O1", "-g", "-fsanitize=address,undefined", "-fno-sanitize-recover=undefined", "-fno-omit-frame-pointer"],
}


class BuildError(Exception):
    def __init__(self, what, log):
        Exception.__init__(self, what)
        self.what = what
        self.log = log


def sh(cmd, timeout=600, cwd=None, env=None, input=None):
    """Run a command; returns (rc, stdout, stderr). rc = 124 on timeout."""
    e = dict(os.environ)
    if env:
        e.update(env)
    # own process group, so that a timeout kills mpiexec together with the ranks it started
    p = subprocess.Popen(cmd, cwd=cwd, env=e, stdin=subprocess.PIPE if input is not None else subprocess.DEVNULL,
                         stdout=subprocess.PIPE, stderr=subprocess.PIPE, shell=isinstance(cmd, str),
                         universal_newlines=True, errors="replace", start_new_session=True)
    try:
        out, err = p.communicate(input=input, timeout=timeout)
        return p.returncode, out, err
    except subprocess.TimeoutExpired:
        try:
            os.killpg(p.pid, signal.SIGKILL)
        except OSError:
            pass
        try:
            out, err = p.communicate(timeout=10)
        except Exception:
            out, err = "", ""
        return 124, out or "", err or ""


class _Lock:
    def __init__(self, name):
        os.makedirs(BUILD, exist_ok=True)
        self.path = os.path.join(BUILD, name + ".lock")

    def __enter__(self):
        self.f = open(self.path, "w")
        fcntl.flock(self.f, fcntl.LOCK_EX)
        return self

    def __exit__(self, *a):
        fcntl.flock(self.f, fcntl.LOCK_UN)
        self.f.close()


# ----------------------------------------------------------------------------
# libpomerol variants, always rebuilt (incrementally) from /repo's working tree

def ensure_lib(variant="real"):
    d = os.path.join(BUILD, variant)
    with _Lock("lib-" + variant):
        os.makedirs(d, exist_ok=True)
        if not os.path.exists(os.path.join(d, "build.ninja")):
            rc, out, err = sh(["cmake", "-G", "Ninja", "-DTesting=OFF", "-DDocumentation=OFF"] +
                              VARIANTS[variant] + [REPO], cwd=d, timeout=300)
            if rc != 0:
                raise BuildError("cmake failed for variant " + variant, out + err)
        rc, out, err = sh(["ninja"], cwd=d, timeout=1200)
        if rc != 0:
            raise BuildError("library build failed for variant " + variant, out + err)
    return d


def _newest(paths):
    m = 0.0
    for p in paths:
        try:
            m = max(m, os.path.getmtime(p))
        except OSError:
            pass
    return m


def repo_headers_mtime():
    return _newest(glob.glob(os.path.join(REPO, "include", "**", "*.h*"), recursive=True))


def build_harness(name, variant="real", extra=()):
    """Compile /verif/harness/<name>.cpp against the given library variant."""
    libdir = ensure_lib(variant)
    src = os.path.join(ROOT, "harness", name + ".cpp")
    outdir = os.path.join(libdir, "h")
    os.makedirs(outdir, exist_ok=True)
    out = os.path.join(outdir, name)
    deps = [src, os.path.join(libdir, "libpomerol.so")] + glob.glob(os.path.join(ROOT, "harness", "*.h"))
    with _Lock("h-%s-%s" % (variant, name)):
        if os.path.exists(out) and os.path.getmtime(out) >= max(_newest(deps), repo_headers_mtime()):
            return out
        flags = ["-std=c++11", "-O1", "-fopenmp", "-fno-access-control", "-D" + GUARD, "-w"]
        if variant == "complex":
            flags.append("-DPOMEROL_COMPLEX_MATRIX_ELEMENTS")
        cmd = (["g++"] + flags + VARIANT_CXX[variant] + list(extra) +
               ["-I" + os.path.join(REPO, "include"), "-I" + os.path.join(libdir, "include"),
                "-I" + os.path.join(ROOT, "harness"),
                "-I/usr/include/eigen3", "-I/usr/lib/x86_64-linux-gnu/openmpi/include",
                "-I/usr/lib/x86_64-linux-gnu/openmpi/include/openmpi",
                src, "-o", out + ".tmp", "-L" + libdir, "-lpomerol", "-lboost_mpi", "-lboost_serialization",
                "-lmpi_cxx", "-lmpi", "-Wl,-rpath," + libdir])
        rc, o, e = sh(cmd, timeout=600)
        if rc != 0:
            raise BuildError("harness %s failed to compile (%s)" % (name, variant), o + e)
        os.replace(out + ".tmp", out)
    return out


def run_harness(binary, input_text, timeout=300, np=None, env=None, args=()):
    e = dict(MPI_ENV)
    e["ASAN_OPTIONS"] = "detect_leaks=0"
    e["UBSAN_OPTIONS"] = "print_stacktrace=1"
    e.setdefault("OMP_NUM_THREADS", "1")
    if env:
        e.update(env)
    if np is None:
        cmd = [binary] + list(args)
    else:
        cmd = ["mpiexec", "--allow-run-as-root", "--oversubscribe", "--bind-to", "none", "-np", str(np), binary] + list(args)
    return sh(cmd, timeout=timeout, env=e, input=input_text)


# ----------------------------------------------------------------------------
# Coq development

def write_if_changed(path, text):
    try:
        with open(path) as f:
            if f.read() == text:
                return False
    except OSError:
        pass
    os.makedirs(os.path.dirname(path), exist_ok=True)
    with open(path, "w") as f:
        f.write(text)
    return True


def coq_project():
    """(Re)generate _CoqProject from the files present and the Makefile from it."""
    files = []
    for sub in ("gen", "theories", "props", "extract"):
        files += sorted(glob.glob(os.path.join(COQ, sub, "*.v")))
    text = "-Q theories PV\n-Q gen PVgen\n-Q props PVprops\n-Q extract PVextract\n-arg -w -arg -all\n" + \
        "\n".join(os.path.relpath(f, COQ) for f in files) + "\n"
    changed = write_if_changed(os.path.join(COQ, "_CoqProject"), text)
    if changed or not os.path.exists(os.path.join(COQ, "Makefile")):
        rc, o, e = sh(["coq_makefile", "-f", "_CoqProject", "-o", "Makefile"], cwd=COQ, timeout=60)
        if rc != 0:
            raise BuildError("coq_makefile failed", o + e)


def run_translators():
    """Regenerate coq/gen/*.v from /repo. Returns {fragment: status} with status in
    same-as-snapshot | changed | untranslatable."""
    sys.path.insert(0, os.path.join(ROOT, "translator"))
    import translate
    with _Lock("coq"):
        sync_coq()
        return translate.run_all(REPO, os.path.join(COQ, "gen"))


PER_FILE_TIMEOUT = 900


def coq_make(targets, timeout=1500):
    """Full .vo build of the given targets (paths relative to coq/, e.g. props/Properties_C15.vo)."""
    with _Lock("coq"):
        sync_coq()
        coq_project()
        # every coqc runs under its own timeout (coq_makefile's TIMECMD hook): one diverging file cannot stall the build
        cmd = ["make", "-k", "-j%d" % NPROC, "TIMECMD=timeout %d" % PER_FILE_TIMEOUT] + list(targets)
        rc, o, e = sh(cmd, cwd=COQ, timeout=timeout)
    return rc == 0, o + e


def coq_failed_files(log):
    return sorted(set(re.findall(r'File "\./([^"]+)", line (\d+)', log)))


def count_obligations(prop_file):
    """Theorems stated in a Properties_Cxx.v file (each closed by `exact`), and the
    axioms Print Assumptions reported for them in the build log, if any."""
    with open(os.path.join(COQ, "props", prop_file)) as f:
        src = f.read()
    return re.findall(r'^\s*(?:Theorem|Corollary|Lemma)\s+(\w+)', src, re.M)


def print_assumptions(prop_file):
    """Re-run coqc on the property file to capture Print Assumptions output (cheap: deps are compiled)."""
    # the answer only depends on the compiled statement file: cached next to it, keyed by the .vo's mtime and size
    vo = os.path.join(COQ, "props", prop_file + "o")
    cache = os.path.join(COQ, "props", "." + prop_file + ".assumptions.json")
    key = None
    try:
        st = os.stat(vo)
        key = [st.st_mtime_ns, st.st_size]
        c = json.load(open(cache))
        if c.get("key") == key:
            return c["res"], c["out"]
    except (OSError, ValueError, KeyError):
        pass
    # compiled into a scratch directory (coqc demands the same base name; the directory may differ) so that the .vo made by
    # `make` and its mtime stay untouched
    padir = os.path.join(BUILD, "pa-%d" % os.getpid())
    os.makedirs(padir, exist_ok=True)
    rc, o, e = sh(["coqc", "-Q", "theories", "PV", "-Q", "gen", "PVgen", "-Q", "props", "PVprops",
                   "-w", "-all", "-o", os.path.join(padir, prop_file + "o"), os.path.join("props", prop_file)], cwd=COQ, timeout=900)
    shutil.rmtree(padir, ignore_errors=True)
    if rc != 0:
        return None, o + e
    res = {}
    # output: "Closed under the global context" or "Axioms:\n name : type ..."
    blocks = re.split(r'(?=Closed under the global context|Axioms:)', o)
    names = count_obligations(prop_file)
    blocks = [b for b in blocks if b.startswith("Closed") or b.startswith("Axioms:")]
    for n, b in zip(names, blocks):
        if b.startswith("Closed"):
            res[n] = []
        else:
            res[n] = sorted(set(re.findall(r'^([A-Za-z_][\w\.]*)\s*:', b[len("Axioms:"):], re.M)))
    if key is not None:
        try:
            json.dump({"key": key, "res": res, "out": o}, open(cache, "w"))
        except OSError:
            pass
    return res, o


def forbidden_constructs():
    """grep for anything that would declare an axiom or disable a kernel check."""
    bad = []
    pat = re.compile(r'\b(Admitted|admit|Axiom|Axioms|Parameter|Parameters|Conjecture|Admit Obligations|'
                     r'Unset Guard Checking|Unset Positivity Checking|Unset Universe Checking|bypass_check|'
                     r'type-in-type|impredicative-set)\b')
    for f in glob.glob(os.path.join(COQ, "**", "*.v"), recursive=True):
        txt = open(f).read()
        txt = re.sub(r'\(\*.*?\*\)', '', txt, flags=re.S)
        for i, line in enumerate(txt.split("\n"), 1):
            if pat.search(line):
                bad.append("%s:%d:%s" % (os.path.relpath(f, ROOT), i, line.strip()))
    return bad


# ----------------------------------------------------------------------------
# Extracted OCaml drivers

def build_driver(name, modules, zarith=False, floats=False):
    """Build ocaml/<name>.ml together with extracted modules (coq/<M>.ml[i]) into .build/ocaml/<name>."""
    outdir = os.path.join(BUILD, "ocaml", name)
    os.makedirs(outdir, exist_ok=True)
    out = os.path.join(outdir, name)
    srcs = []
    for m in modules:
        srcs += [os.path.join(COQ, m + ".mli"), os.path.join(COQ, m + ".ml")]
    drv = os.path.join(ROOT, "ocaml", name + ".ml")
    with _Lock("ml-" + name):
        if os.path.exists(out) and os.path.getmtime(out) >= _newest(srcs + [drv]):
            return out
        for s in srcs + [drv]:
            if not os.path.exists(s):
                raise BuildError("driver %s: missing %s (extraction did not run?)" % (name, s), "")
            shutil.copy(s, outdir)
        cmd = ["ocamlfind", "ocamlopt", "-inline", "100", "-w", "-a"]
        pk = (["zarith"] if zarith else []) + (["coq-core.kernel"] if floats else [])
        if floats:   # Float64 (the module ExtrOCamlFloats maps PrimFloat to) lives in Coq's kernel library
            cmd += ["-rectypes", "-thread"]
        if pk:
            cmd += ["-package", ",".join(pk), "-linkpkg"]
        cmd += [os.path.basename(s) for s in srcs] + [name + ".ml", "-o", name]
        rc, o, e = sh(cmd, cwd=outdir, timeout=600)
        if rc != 0:
            raise BuildError("driver %s failed to build" % name, o + e)
    return out


# ----------------------------------------------------------------------------
# Known findings, violations, evidence

def load_known():
    p = os.path.join(ROOT, "known_findings.json")
    if not os.path.exists(p):
        return []
    return json.load(open(p))


class Check:
    def __init__(self, prop, tier, seed, level="proof"):
        self.prop, self.tier, self.seed, self.level = prop, tier, seed, level
        self.t0 = time.time()
        self.rng = random.Random(seed * 1000003 + int(prop[1:]))
        self.violations = []      # (key, what, replay_obj)
        self.known_hits = []
        self.evaluations = 0
        self.signatures = {}      # signature -> count
        self.distinct = set()
        self.samples = []
        self.obligations = []
        self.discharged = []
        self.assumptions_by_thm = {}
        self.trusted = []
        self.assume = []
        self.extra = {}
        self.rule = ""
        self.checker_cmd = "make -C coq props/Properties_%s.vo (coqc 8.16.1, full .vo build)" % prop
        self.notes = []
        self.broken = []          # names of proof obligations / ties that no longer check

    # -- case accounting -------------------------------------------------
    def case(self, canon, signature, nontrivial=True, sample=None):
        self.evaluations += 1
        self.signatures[signature] = self.signatures.get(signature, 0) + 1
        if nontrivial:
            self.distinct.add(hashlib.sha1(canon.encode()).hexdigest())
        if sample is not None and len(self.samples) < 6:
            self.samples.append(sample)

    # -- proof obligations ----------------------------------------------
    def prove(self, extra_targets=(), extra_props=()):
        """Translator + Coq build of this property's theorem file(s). Records obligations.
        extra_props: further statement files under coq/props (e.g. "Properties_C06_current.v") whose theorems count as
        obligations of this property too; extra_targets: other .vo targets (extraction roots, ...)."""
        pfs = ["Properties_%s.v" % self.prop] + list(extra_props)
        try:
            self.extra["translator"] = run_translators()
        except Exception as ex:  # translator crash = untranslatable, never an alarm by itself
            self.extra["translator"] = {"error": repr(ex)}
        ok, log = coq_make(["props/" + pf + "o" for pf in pfs] + list(extra_targets))
        names = []
        for pf in pfs:
            names += count_obligations(pf)
        self.obligations = names
        if len(pfs) > 1:
            self.checker_cmd = "make -C coq " + " ".join("props/" + pf + "o" for pf in pfs) + " (coqc 8.16.1, full .vo build)"
        if ok:
            self.discharged = list(names)
            self.assumptions_by_thm = {}
            for pf in pfs:
                ax, _ = print_assumptions(pf)
                self.assumptions_by_thm.update(ax or {})
        else:
            failed = coq_failed_files(log)
            failed_files = set(f for f, _ in failed)
            # theorems of statement files that did build still count as discharged
            self.discharged = []
            for pf in pfs:
                # up to date w.r.t. everything it depends on (a stale .vo whose dependency failed to build does not count:
                # scratch trees start from the main tree's compiled files)
                fresh = sh(["make", "-q", "props/" + pf + "o"], cwd=COQ, timeout=300)[0] == 0
                if fresh and os.path.exists(os.path.join(COQ, "props", pf + "o")) and ("props/" + pf) not in failed_files:
                    ax, _ = print_assumptions(pf)
                    if ax is not None:
                        self.discharged += count_obligations(pf)
                        self.assumptions_by_thm.update(ax)
            self.broken.append({"kind": "proof", "files": failed, "log_tail": log[-3000:]})
        bad = forbidden_constructs()
        if bad:
            self.broken.append({"kind": "forbidden-construct", "where": bad})
        return ok, log

    def tie_broken(self, name, detail):
        self.broken.append({"kind": "correspondence", "name": name, "detail": detail})

    # -- violations -----------------------------------------------------
    def violation(self, key, what, replay):
        """key: canonical identification of the failing input / call site / history."""
        for k in load_known():
            if k.get("property") == self.prop and k.get("status") == "known" and k.get("match") == key:
                if key not in [h[0] for h in self.known_hits]:
                    self.known_hits.append((key, k.get("what", what)))
                return
        if key not in [v[0] for v in self.violations]:
            self.violations.append((key, what, replay))

    def _write_replay(self, key, what, replay, nofail=False):
        d = os.path.join(ROOT if COQ == COQ_SRC else BUILD, "replays")   # scratch repositories keep their replays apart
        os.makedirs(d, exist_ok=True)
        h = hashlib.sha1((self.prop + key).encode()).hexdigest()[:10]
        p = os.path.join(d, "%s-%s.json" % (self.prop, h))
        obj = {"property": self.prop, "kind": "no-failing-input-found" if nofail else "input",
               "key": key, "what": what, "seed": self.seed, "tier": self.tier, "replay": replay,
               "how_to_run": "./check %s --replay %s" % (self.prop, p)}
        json.dump(obj, open(p, "w"), indent=1, default=str)
        return p

    # -- finish ---------------------------------------------------------
    def finish(self):
        rc = 0
        for key, what in self.known_hits:
            print("KNOWN-FINDING: property=%s %s" % (self.prop, what))
        for n, (key, what, replay) in enumerate(self.violations):
            p = self._write_replay(key, what, replay)
            if n < 8:
                print("VIOLATION property=%s replay=%s" % (self.prop, p))
                print("  what: %s" % what[:600])
            elif n == 8:
                print("  ... %d more violations of %s (replay files written, listed in the evidence)" % (len(self.violations) - 8, self.prop))
            rc = 1
        if self.broken and not self.violations:
            # A proof obligation or a tie no longer checks and the search found no failing input.
            p = self._write_replay("broken-obligation", "proof obligation or correspondence no longer checks",
                                   self.broken, nofail=True)
            print("VIOLATION property=%s replay=%s no-failing-input-found" % (self.prop, p))
            rc = 1
        ax = sorted(set(a for l in self.assumptions_by_thm.values() for a in l))
        cov = {
            "obligations": len(self.obligations),
            "discharged": len(self.discharged),
            "checker_cmd": self.checker_cmd,
            "trusted_base": ["Coq 8.16.1 kernel (coqc; vm_compute where stated; no native_compute)",
                             "axioms reported by Print Assumptions: " + (", ".join(ax) if ax else "none")] + self.trusted,
            "theorems": self.obligations,
            "axioms_by_theorem": self.assumptions_by_thm,
            "evaluations": self.evaluations,
            "distinct_nontrivial": len(self.distinct),
            "rule": self.rule,
            "samples": self.samples if self.samples else ["(no correspondence cases in this run)"],
            "signature_histogram": dict(sorted(self.signatures.items(), key=lambda kv: -kv[1])[:40]),
            "known_findings_hit": [k for k, _ in self.known_hits],
            "violation_keys": [k for k, _, _ in self.violations][:200],
            "broken": self.broken,
        }
        if not self.discharged or not self.obligations:
            # schema: a proof-level file needs discharged >= 1; when nothing is discharged, say so under other keys
            cov["obligations_stated"] = cov.pop("obligations")
            cov["obligations_discharged"] = cov.pop("discharged")
        cov.update(self.extra)
        ev = {"property_id": self.prop, "tier": self.tier, "seed": self.seed, "level": self.level,
              "coverage": cov, "assumptions": self.assume, "wall_s": round(time.time() - self.t0, 2),
              "violations": len(self.violations) + (1 if (self.broken and not self.violations) else 0)}
        evdir = os.path.join(ROOT if COQ == COQ_SRC else BUILD, "evidence")   # scratch repositories do not touch /verif/evidence
        os.makedirs(evdir, exist_ok=True)
        json.dump(ev, open(os.path.join(evdir, self.prop + ".json"), "w"), indent=1, default=str)
        print("%s tier=%s seed=%d obligations=%d/%d cases=%d distinct=%d violations=%d known=%d wall=%.1fs" % (
            self.prop, self.tier, self.seed, len(self.discharged), len(self.obligations), self.evaluations,
            len(self.distinct), ev["violations"], len(self.known_hits), time.time() - self.t0))
        return rc


def sanitizer_digest(err, limit=70):
    """the informative lines of a sanitizer report (error line, stack frames, summary)"""
    keep = [l for l in err.split("\n") if re.search(r'ERROR: |runtime error|^\s*#\d+ |SUMMARY|is located|allocated by|freed by', l)]
    return "\n".join(l[:260] for l in keep[:limit])


def hexf(s):
    """hex float string -> python float (exact)."""
    return float.fromhex(s)
