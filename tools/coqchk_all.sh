#!/bin/sh
# Re-checks every compiled statement file (and everything it depends on) with Coq's independent checker coqchk and records
# the axioms it reports. Usage: sh tools/coqchk_all.sh [Cxx ...]   -> coqchk/<file>.txt, coqchk/SUMMARY.txt
cd "$(dirname "$0")/../coq" || exit 1
mkdir -p ../coqchk
if [ $# -gt 0 ]; then FILES=""; for c in "$@"; do FILES="$FILES $(ls props/Properties_${c}*.v)"; done; else FILES=$(ls props/Properties_C*.v); fi
for f in $FILES; do
  m=$(basename "$f" .v)
  [ -f "props/$m.vo" ] || { echo "$m: not compiled" ; continue; }
  timeout 3600 coqchk -o -silent -Q theories PV -Q gen PVgen -Q props PVprops "PVprops.$m" > "../coqchk/$m.txt" 2>&1
  rc=$?
  echo "$m rc=$rc $(grep -c '^' ../coqchk/$m.txt) lines"
done
( cd ../coqchk; for t in Properties_*.txt; do echo "== $t"; sed -n '/CONTEXT SUMMARY/,$p' "$t"; done ) > ../coqchk/SUMMARY.txt
