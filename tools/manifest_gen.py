#!/usr/bin/env python3
"""Regenerates MANIFEST.json from tools/manifest_entries.json (per-property claims) -- keeps the file valid and the
not_applicable list current for every property without a claimed check."""
import json, os, subprocess
ROOT = os.path.dirname(os.path.dirname(os.path.abspath(__file__)))
props = [json.loads(l) for l in open(os.path.join(ROOT, "properties.jsonl"))]
entries = json.load(open(os.path.join(ROOT, "tools", "manifest_entries.json")))
hooks = entries.pop("_hooks")
claimed = [p["id"] for p in props if p["id"] in entries and entries[p["id"]].get("claim", True)]
checks = []
for pid in claimed:
    e = entries[pid]
    checks.append({"property_id": pid, "quick_cmd": "./check %s --tier quick" % pid, "thorough_cmd": "./check %s --tier thorough" % pid,
                   "evidence_file": "evidence/%s.json" % pid, "replay_cmd_template": "./check %s --replay {path}" % pid,
                   "engine": "coq-proof+correspondence",
                   "level_claimed": {"category": e.get("category", "proof"), "text": e["text"], "design_ref": e.get("design_ref", "DESIGN.md section 4, " + pid)},
                   "level_note": e["note"], "technique": e["technique"]})
m = {"version": 1, "setup_cmd": "sh tools/setup.sh",
     "hooks": hooks,
     "engines": [{"name": "coq-proof+correspondence", "path": "check", "serves_properties": claimed,
                  "kind_free_text": "Coq 8.16.1 theorems about translator-generated and hand-written Gallina models; extracted OCaml drivers vs C++ harnesses linked against libpomerol built from /repo's working tree"}],
     "checks": checks,
     "notes": "See DESIGN.md. Every check rebuilds libpomerol and its harnesses from /repo's working tree, re-runs the translators and the Coq build of its property file, then runs the correspondence / oracle comparisons.",
     "not_applicable": [{"property_id": p["id"], "reason": entries.get(p["id"], {}).get("na_reason", "machinery for this property is not finished in this round; see DESIGN.md section 4")}
                        for p in props if p["id"] not in claimed]}
json.dump(m, open(os.path.join(ROOT, "MANIFEST.json"), "w"), indent=1)
print("claimed:", claimed)
