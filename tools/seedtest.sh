#!/bin/sh
# usage: tools/seedtest.sh <worktree> <patch.diff> <Cxx> [<Cyy> ...]
# Applies a seeded change to a scratch worktree of /repo, runs the given checks against it (POMEROL_REPO), reverts.
WT=$1; PATCH=$2; shift 2
git -C "$WT" checkout -q -- . || exit 2
git -C "$WT" apply "$PATCH" || { echo "patch does not apply"; exit 2; }
for c in "$@"; do
  POMEROL_REPO="$WT" /verif/check "$c" --tier quick 2>&1 | grep -E "VIOLATION|what:|tier=" | cut -c1-260
done
git -C "$WT" checkout -q -- .
