#!/usr/bin/env python3
"""Entry point: ./check Cxx --tier quick|thorough [--replay path]."""
import argparse, importlib, os, sys, traceback
sys.path.insert(0, os.path.dirname(os.path.abspath(__file__)))
sys.path.insert(0, os.path.join(os.path.dirname(os.path.dirname(os.path.abspath(__file__))), "checks"))
import pv

def main():
    ap = argparse.ArgumentParser()
    ap.add_argument("prop")
    ap.add_argument("--tier", default=os.environ.get("VERIF_TIER", "quick"))
    ap.add_argument("--replay", default=None)
    a = ap.parse_args()
    seed = int(os.environ.get("VERIF_SEED", "1"))
    mod = importlib.import_module(a.prop)
    chk = pv.Check(a.prop, a.tier, seed)
    try:
        if a.replay:
            return mod.replay(chk, a.replay)
        mod.run(chk)
    except pv.BuildError as ex:
        # the tree under /repo (or the framework) does not build: nothing is shown to hold
        chk.broken.append({"kind": "build", "what": ex.what, "log_tail": ex.log[-3000:]})
        print("BUILD ERROR: %s\n%s" % (ex.what, ex.log[-1500:]))
    except Exception:
        chk.broken.append({"kind": "internal", "trace": traceback.format_exc()})
        traceback.print_exc()
    return chk.finish()

if __name__ == "__main__":
    sys.exit(main())
