#!/usr/bin/env python3
"""Prints, from evidence/*.json as written by the checks, a markdown table: property | obligations | axioms (Print Assumptions) |
translator fragments read from /repo in that run.  Used to keep DESIGN.md section 9.5 current."""
import glob, json, os
ROOT = os.path.dirname(os.path.dirname(os.path.abspath(__file__)))
print("| property | tier | obligations | axioms reported by Print Assumptions | cases (distinct) |")
print("|---|---|---|---|---|")
for f in sorted(glob.glob(os.path.join(ROOT, "evidence", "C*.json"))):
    e = json.load(open(f)); c = e["coverage"]
    ax = sorted(set(a for l in c.get("axioms_by_theorem", {}).values() for a in l))
    prim = [a for a in ax if a.startswith("Prim")]
    ax = [a for a in ax if not a.startswith("Prim")]
    s = ", ".join(a.split(".")[-1] if a.count(".") else a for a in ax) or "none"
    if prim:
        s += " (+ kernel primitives PrimFloat/PrimInt63)"
    print("| %s | %s | %s/%s | %s | %s (%s) |" % (e["property_id"], e["tier"], c.get("discharged", c.get("obligations_discharged")),
                                               c.get("obligations", c.get("obligations_stated")), s, c.get("evaluations"), c.get("distinct_nontrivial")))
