"""Scenario generators shared by the numeric property checks. A scenario is the text understood by
harness/ed_common.h. All amplitudes are small dyadic rationals, so every discrete decision of the code
(which coefficient vanishes, which levels coincide, which quantum numbers are equal) is the same in exact
and in binary64 arithmetic. Every generator returns (family_name, scenario_text, n_modes, info dict)."""

DY = [-2, -1.5, -1, -0.75, -0.5, -0.25, 0.25, 0.5, 0.75, 1, 1.5, 2]
BETAS = [0.5, 1, 2, 4, 10, 25]


def f(x):
    return repr(float(x)) if float(x) != int(x) else str(int(x))


def hubbard_atom(rng, symm="default"):
    U = rng.choice([0.5, 1, 2, 4])
    eps = rng.choice([-U / 2, -U / 2, rng.choice(DY)])        # half filling often: maximal degeneracy
    s = "site A 1 2\naddCoulombS A %s %s\n" % (f(U), f(eps))
    if rng.random() < 0.3:
        s += "addMagnetization A %s\n" % f(rng.choice([0.25, 0.5, -0.25]))
    return "hubbard-atom", s + "symm %s\nbeta %s\n" % (symm, f(rng.choice(BETAS))), 2, {"U": U, "eps": eps}


def two_site(rng, symm="default"):
    U = rng.choice([0, 1, 2, 4])
    s = "site A 1 2\nsite B 1 2\n"
    s += "addCoulombS A %s %s\n" % (f(U), f(rng.choice([-U / 2, rng.choice(DY)])))
    kind = rng.random()
    if kind < 0.5:
        s += "addLevel B %s\n" % f(rng.choice(DY))
    else:
        s += "addCoulombS B %s %s\n" % (f(rng.choice([1, 2])), f(rng.choice(DY)))
    s += "addHopping4 A B %s\n" % f(rng.choice([0.25, 0.5, 1, -0.5]))
    fam = "two-site"
    if rng.random() < 0.35:      # spin-flip hopping: S_z is not conserved
        s += "addHopping8 A B %s 0 0 0 1\n" % f(rng.choice([0.25, 0.5]))
        fam = "two-site-spinflip"
    return fam, s + "symm %s\nbeta %s\n" % (symm, f(rng.choice(BETAS))), 4, {}


def anderson(rng, symm="default"):
    U = rng.choice([1, 2, 4])
    s = "site A 1 2\nsite B 1 2\naddCoulombS A %s %s\naddLevel B %s\naddHopping4 A B %s\n" % (
        f(U), f(-U / 2), f(rng.choice([0, 0.5, -0.5])), f(rng.choice([0.5, 1])))
    return "anderson-2", s + "symm %s\nbeta %s\n" % (symm, f(rng.choice(BETAS))), 4, {}


def free_degenerate(rng, symm="default"):
    """non-interacting, with degenerate single-particle levels (many coinciding poles, resonances)"""
    e = rng.choice([0, 0.5, -0.5])
    s = "site A 1 2\nsite B 1 2\naddLevel A %s\naddLevel B %s\n" % (f(e), f(rng.choice([e, e, -e, 0.25])))
    if rng.random() < 0.6:
        s += "addHopping4 A B %s\n" % f(rng.choice([0.25, 0.5, 1]))
    return "free-degenerate", s + "symm %s\nbeta %s\n" % (symm, f(rng.choice(BETAS))), 4, {"free": True}


def atomic_limit(rng, symm="default"):
    """two decoupled Hubbard atoms at particle-hole symmetry: maximal degeneracy"""
    U = rng.choice([1, 2])
    s = "site A 1 2\nsite B 1 2\naddCoulombS A %s %s\naddCoulombS B %s %s\n" % (f(U), f(-U / 2), f(U), f(-U / 2))
    return "atomic-limit", s + "symm %s\nbeta %s\n" % (symm, f(rng.choice(BETAS))), 4, {}


def kanamori(rng, symm="default"):
    U, J = rng.choice([(2, 0.5), (3, 0.25), (1, 0.25)])
    s = "site A 2 2\naddCoulombP3 A %s %s %s\n" % (f(U), f(J), f(rng.choice([-1, -0.5, 0.25])))
    return "kanamori-2orb", s + "symm %s\nbeta %s\n" % (symm, f(rng.choice(BETAS))), 4, {}


def exchange(rng, symm="default"):
    s = "site A 1 2\nsite B 1 2\naddCoulombS A 2 -1\naddCoulombS B 2 -1\naddSS A B %s\n" % f(rng.choice([0.5, 1, -0.5]))
    if rng.random() < 0.5:
        s += "addHopping4 A B 0.5\n"
    return "exchange", s + "symm %s\nbeta %s\n" % (symm, f(rng.choice(BETAS))), 4, {}


def pairing(rng, symm="ignore"):
    """a raw pair term c^+ c^+ + h.c.: particle number is not conserved (symmetries must be ignored or custom)"""
    d = rng.choice([0.25, 0.5])
    s = "site A 1 2\naddCoulombS A %s %s\n" % (f(rng.choice([0, 1])), f(rng.choice([-0.5, 0.25])))
    s += "term 2 %s 1 A 0 0 1 A 0 1\nterm 2 %s 0 A 0 1 0 A 0 0\n" % (f(d), f(d))
    return "pairing", s + "symm %s\nbeta %s\n" % (symm, f(rng.choice(BETAS))), 2, {"no_N": True}


def three_orbital_small(rng, symm="default"):
    """one site, 3 orbitals, 1 spin... spinless sites make the default analysis throw (known finding C07); use with symm ignore"""
    s = "site A 3 1\naddLevel A %s\nterm 2 0.5 1 A 0 0 0 A 1 0\nterm 2 0.5 1 A 1 0 0 A 0 0\nterm 2 0.25 1 A 1 0 0 A 2 0\nterm 2 0.25 1 A 2 0 0 A 1 0\n" % f(rng.choice(DY))
    return "spinless-3", s + "symm %s\nbeta %s\n" % (symm, f(rng.choice(BETAS))), 3, {"spinless": True}


FAMILIES = [hubbard_atom, two_site, anderson, free_degenerate, atomic_limit, kanamori, exchange]


def pick(rng, families=None, symm="default"):
    fam = rng.choice(families or FAMILIES)
    return fam(rng, symm)


def matsubara_triples(rng, k, span=3):
    """frequency triples aimed at the resonance patterns: n1=n3, n2=n3, n1+n2=-1 (bosonic combination zero)"""
    out = []
    for _ in range(k):
        r = rng.random()
        n1, n2, n3 = rng.randint(-span, span), rng.randint(-span, span), rng.randint(-span, span)
        if r < 0.2:
            n3 = n1
        elif r < 0.4:
            n3 = n2
        elif r < 0.6:
            n2 = -1 - n1
        elif r < 0.7:
            n2 = -1 - n1
            n3 = n1
        out.append((n1, n2, n3))
    return out
