#!/bin/sh
# MANIFEST.setup_cmd: build the whole framework offline from files on disk.
# 1. translator -> coq/gen; 2. full .vo build of the Coq development (models, proofs, property files, extraction);
# 3. extracted OCaml drivers; 4. libpomerol variants from /repo's working tree and the C++ harnesses.
set -e
cd "$(dirname "$0")/.."
python3 tools/setup.py "$@"
