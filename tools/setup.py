import glob, os, sys, time
sys.path.insert(0, os.path.dirname(os.path.abspath(__file__)))
import pv
t0 = time.time()
print("translator:", pv.run_translators())
ok, log = pv.coq_make([], timeout=3000)      # default target: everything in _CoqProject
print("coq build:", "ok" if ok else "FAILED", "%.0fs" % (time.time() - t0))
if not ok:
    print(log[-4000:])
bad = pv.forbidden_constructs()
if bad:
    print("FORBIDDEN CONSTRUCTS:", bad)
sys.path.insert(0, os.path.join(pv.ROOT, "checks"))
import importlib
fails = 0
for f in sorted(glob.glob(os.path.join(pv.ROOT, "checks", "C*.py"))):
    m = importlib.import_module(os.path.basename(f)[:-3])
    if hasattr(m, "setup"):
        try:
            m.setup()
            print("setup", os.path.basename(f), "ok %.0fs" % (time.time() - t0))
        except pv.BuildError as ex:
            fails += 1
            print("setup", os.path.basename(f), "FAILED:", ex.what, ex.log[-1500:])
# setup never fails as a whole because one theory file or harness is broken: every check re-runs the build of
# what it needs and reports a broken obligation itself (make -k above has built everything that can be built)
print("setup finished: coq %s, %d check setups failed, %d forbidden constructs" % ("ok" if ok else "with failures", fails, len(bad)))
sys.exit(0)
