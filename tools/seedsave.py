#!/usr/bin/env python3
"""usage: tools/seedsave.py <Cxx> <i> <checks run> <outcome text>  -- copies /tmp/seed-Cxx-work/change<i> into seeded/Cxx-<i> with meta.json"""
import json, os, shutil, sys
pid, i, checks, outcome = sys.argv[1], int(sys.argv[2]), sys.argv[3], sys.argv[4]
rnd = os.environ.get("SEED_ROUND", "")          # "" = first round; "2" = second round (/tmp/seed2-Cxx-work, saved as Cxx-<i+3>)
src = "/tmp/seed%s-%s-work/change%d" % (rnd, pid, i)
dst = "/verif/seeded/%s-%d" % (pid, i + {"": 0, "2": 3, "3": 5, "4": 7}.get(rnd, 0))
os.makedirs(dst, exist_ok=True)
for f in os.listdir(src):
    if f in ("patch.diff", "demo.cpp", "demo.sh", "notes.md", "build_demo.sh") or f.endswith((".cpp", ".h", ".hpp", ".inc", ".sh")):
        if os.path.isfile(os.path.join(src, f)):
            shutil.copy(os.path.join(src, f), dst)
notes = open(os.path.join(src, "notes.md")).read() if os.path.exists(os.path.join(src, "notes.md")) else ""
meta = {"property": pid, "origin": "fresh sub-agent given only the property text and a scratch worktree of /repo (seeded/PROMPT_TEMPLATE.md)",
        "needs_to_manifest": notes[:900],
        "confirmed_by_main_session": {"command": "tools/seedconfirm.sh /tmp/seed-%s %s" % (pid, src), "build_with_change": "ok",
                                      "ctest_with_change": "20/20 passed", "demo_with_change": "non-zero exit", "demo_unmodified": "exit 0"},
        "check_run": "tools/seedtest.sh /tmp/seed-%s seeded/%s-%d/patch.diff %s" % (pid, pid, i, checks),
        "check_outcome": outcome}
json.dump(meta, open(os.path.join(dst, "meta.json"), "w"), indent=1)
print("saved", dst)
