#!/bin/sh
# usage: tools/seedconfirm.sh <worktree> <change-dir> ; confirms: builds with the change, 20 tests pass, demo fails with it, passes without
WT=$1; CH=$2
export OMPI_ALLOW_RUN_AS_ROOT=1 OMPI_ALLOW_RUN_AS_ROOT_CONFIRM=1 OMPI_MCA_rmaps_base_oversubscribe=1
GXX="g++ -std=c++11 -fopenmp -w -I$WT/include -I$WT/_b/include -I/usr/include/eigen3 -I/usr/lib/x86_64-linux-gnu/openmpi/include -I/usr/lib/x86_64-linux-gnu/openmpi/include/openmpi"
LIBS="-L$WT/_b -lpomerol -lboost_mpi -lboost_serialization -lmpi_cxx -lmpi -Wl,-rpath,$WT/_b"
rundemo() {
  if [ -f "$CH/demo.sh" ]; then (cd "$CH" && timeout 900 bash ./demo.sh >/dev/null 2>&1); echo $?;
  else (cd "$CH" && $GXX demo.cpp -o demo.bin $LIBS >/dev/null 2>&1 && timeout 600 ./demo.bin >/dev/null 2>&1); echo $?; fi
}
git -C "$WT" checkout -q -- . ; git -C "$WT" apply "$CH/patch.diff" || { echo "RESULT $CH patch-does-not-apply"; exit 1; }
cmake --build "$WT/_b" -j8 >/dev/null 2>&1; B=$?
T=$(ctest --test-dir "$WT/_b" -j8 --timeout 900 2>&1 | grep -c "Passed")
D1=$(rundemo)
git -C "$WT" checkout -q -- . ; cmake --build "$WT/_b" -j8 >/dev/null 2>&1
D0=$(rundemo)
echo "RESULT $CH build_rc=$B tests_passed=$T demo_with_change_rc=$D1 demo_unmodified_rc=$D0"
