"""Running a scenario through the real library (harness h_ed) and through the extracted full-space
oracle (driver_ed), and comparing the answers. Shared by the numeric property checks."""
import os
import pv

DUMP_TAGS = {"N", "INFO", "HPOLY", "NSYM", "NBLOCKS", "BLOCK", "HBLK", "VEC", "EIG", "GROUND", "BETA", "W", "RET", "OPMAP", "OPMAT",
             "COLROWDIFF"}


def hx(s):
    return float.fromhex(s)


def cx(t, k):
    return complex(hx(t[k]), hx(t[k + 1]))


class Run:
    """Result of one scenario: .impl / .oracle are lists of token lists (records), .dump the model dump."""

    def __init__(self):
        self.impl, self.oracle, self.dump = [], [], []
        self.error = None          # "ERROR ..." line of the harness (a stage threw)
        self.crash = None          # (rc, stderr tail)
        self.cert = None           # (residual HU, residual unitary)
        self.wspec = None

    def get(self, side, tag):
        return [t for t in (self.impl if side == "impl" else self.oracle) if t[0] == tag]

    def dumprec(self, tag):
        return [t for t in self.dump if t[0] == tag]

    # convenient views of the dump
    def n(self):
        return int(self.dumprec("N")[0][1])

    def blocks(self):
        return {int(t[1]): [int(x) for x in t[3:]] for t in self.dumprec("BLOCK")}

    def eigs(self):
        return {int(t[1]): [hx(x) for x in t[2:]] for t in self.dumprec("EIG")}

    def weights(self):
        return {int(t[1]): [hx(x) for x in t[2:]] for t in self.dumprec("W")}

    def retained(self):
        return {int(t[1]): int(t[2]) for t in self.dumprec("RET")}

    def beta(self):
        return hx(self.dumprec("BETA")[0][1])

    def hpoly(self):
        t = self.dumprec("HPOLY")[0]
        nt, p, out = int(t[1]), 2, []
        for _ in range(nt):
            coef = complex(hx(t[p]), hx(t[p + 1]))
            ln = int(t[p + 2])
            p += 3
            m = []
            for _ in range(ln):
                m.append(("d" if t[p] == "1" else "c") + t[p + 1])
                p += 2
            out.append((".".join(m) if m else "1", coef))
        return out


def binaries(variant="real"):
    h = pv.build_harness("h_ed", variant)
    d = pv.build_driver("driver_ed", ["ED_model"], floats=True)
    return h, d


def run(scenario, queries, variant="real", stage="ops", hprep=False, timeout=600, oracle=True, env=None):
    """scenario: text of model lines (without 'model'/'end'); queries: list of query lines."""
    h, d = binaries(variant)
    r = Run()
    inp = "model %s%s\n%s\nend\n%s\n" % (stage, " hprep" if hprep else "", scenario.strip(), "\n".join(queries))
    rc, out, err = pv.run_harness(h, inp, timeout=timeout, env=env)
    lines = [l.split() for l in out.split("\n") if l.strip()]
    r.raw_input = inp
    if rc != 0:
        r.crash = (rc, pv.sanitizer_digest(err) or err[-1500:])
    seen_built = False
    pre = []
    for t in lines:
        if t[0] == "ERROR":
            r.error = " ".join(t[1:])
        if t[0] == "BUILT":
            seen_built = True
            continue
        if not seen_built:
            pre.append(t)
        elif t[0] in DUMP_TAGS:
            r.dump.append(t)
        else:
            r.impl.append(t)
    r.pre = pre          # records of the pre-diagonalisation dump (hprep) or of a failed build
    if oracle and seen_built and r.dumprec("VEC") and not r.crash:
        oin = "BUILT\n" + "\n".join(" ".join(t) for t in r.dump if t[0] in ("N", "HPOLY", "NBLOCKS", "BLOCK", "VEC", "EIG", "BETA", "W")) \
              + "\nENDDUMP\n" + "\n".join(queries) + "\n"
        rc2, oout, oerr = pv.sh([d], input=oin, timeout=timeout)
        r.oracle = [l.split() for l in oout.split("\n") if l.strip()]
        r.oracle_rc = rc2
        r.oracle_err = oerr[-500:]
        for t in r.oracle:
            if t[0] == "CERT":
                r.cert = (hx(t[1]), hx(t[2]))
            if t[0] == "WSPEC":
                r.wspec = [hx(x) for x in t[1:]]
    return r


def values(rec, start, step=2):
    """complex values of a record from token index start (pairs re im), skipping non-numeric label tokens"""
    return [complex(hx(rec[k]), hx(rec[k + 1])) for k in range(start, len(rec) - 1, step)]
