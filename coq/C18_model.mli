
val fst : ('a1 * 'a2) -> 'a1

val snd : ('a1 * 'a2) -> 'a2

val length : 'a1 list -> int

type comparison =
| Eq
| Lt
| Gt

val add : int -> int -> int

val mul : int -> int -> int

val eqb : bool -> bool -> bool

module Nat :
 sig
  val ltb : int -> int -> bool

  val max : int -> int -> int
 end

val nth_error : 'a1 list -> int -> 'a1 option

val fold_left : ('a1 -> 'a2 -> 'a1) -> 'a2 list -> 'a1 -> 'a1

val repeat : 'a1 -> int -> 'a1 list

type positive =
| XI of positive
| XO of positive
| XH

type n =
| N0
| Npos of positive

module Pos :
 sig
  val succ : positive -> positive

  val add : positive -> positive -> positive

  val add_carry : positive -> positive -> positive

  val mul : positive -> positive -> positive

  val compare_cont : comparison -> positive -> positive -> comparison

  val compare : positive -> positive -> comparison
 end

module N :
 sig
  val add : n -> n -> n

  val mul : n -> n -> n

  val compare : n -> n -> comparison
 end

type ascii =
| Ascii of bool * bool * bool * bool * bool * bool * bool * bool

val eqb0 : ascii -> ascii -> bool

val n_of_digits : bool list -> n

val n_of_ascii : ascii -> n

val compare0 : ascii -> ascii -> comparison

type string =
| EmptyString
| String of ascii * string

val eqb1 : string -> string -> bool

val compare1 : string -> string -> comparison

type 'a outcome =
| Done of 'a
| OOB
| Uninit
| Throws of int
| OutOfFuel

val bind : 'a1 outcome -> ('a1 -> 'a2 outcome) -> 'a2 outcome

type label = string

type site = { s_label : label; s_orb : int; s_spin : int }

type info = (label * int) * int

val info_label : info -> label

val info_orb : info -> int

val info_spin : info -> int

val info_eqb : info -> info -> bool

val map_insert : site -> site list -> site list

val site_map : site list -> site list

type vec = info option list

val vec_set : vec -> int -> info -> vec

val vec_write : vec -> int -> info -> vec outcome

val vec_deref : vec -> int -> info outcome

type imap = (info * int) list

val map_find : info -> imap -> int option

val map_set : info -> int -> imap -> imap

val for_range :
  int -> int -> (int -> 'a1 -> 'a1 outcome) -> 'a1 -> 'a1 outcome

val index_total : site list -> int

val max_spin : site list -> int

type estate = vec * int

val emit : label -> int -> int -> estate -> estate outcome

val site_major : site list -> estate -> estate outcome

val spin_major_sites : bool -> int -> site list -> estate -> estate outcome

val spin_major : bool -> site list -> estate -> estate outcome

val fill_vector : bool -> bool -> site list -> estate outcome

val build_step : vec -> int -> imap -> imap outcome

type table = { indexSize : int; indicesToInfo : vec; infoToIndices : imap }

val prepare : bool -> bool -> site list -> table outcome

val getIndex : table -> info -> int

val exWrongIndex : int

val getInfo : table -> int -> info outcome

val checkIndex : table -> int -> bool
