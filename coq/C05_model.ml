
(** val xorb : bool -> bool -> bool **)

let xorb b1 b2 =
  if b1 then if b2 then false else true else b2

(** val negb : bool -> bool **)

let negb = function
| true -> false
| false -> true

(** val fst : ('a1 * 'a2) -> 'a1 **)

let fst = function
| (x, _) -> x

(** val snd : ('a1 * 'a2) -> 'a2 **)

let snd = function
| (_, y) -> y

(** val length : 'a1 list -> int **)

let rec length = function
| [] -> 0
| _ :: l' -> Stdlib.Int.succ (length l')

(** val app : 'a1 list -> 'a1 list -> 'a1 list **)

let rec app l m =
  match l with
  | [] -> m
  | a :: l1 -> a :: (app l1 m)

type comparison =
| Eq
| Lt
| Gt

module Coq__1 = struct
 (** val add : int -> int -> int **)let rec add = (+)
end
include Coq__1

(** val mul : int -> int -> int **)

let rec mul = ( * )

type positive =
| XI of positive
| XO of positive
| XH

type z =
| Z0
| Zpos of positive
| Zneg of positive

(** val eqb : bool -> bool -> bool **)

let eqb b1 b2 =
  if b1 then b2 else if b2 then false else true

module Nat =
 struct
  (** val ltb : int -> int -> bool **)

  let ltb n m =
    (<=) (Stdlib.Int.succ n) m

  (** val compare : int -> int -> comparison **)

  let rec compare = fun n m -> if n=m then Eq else if n<m then Lt else Gt

  (** val even : int -> bool **)

  let rec even n =
    (fun fO fS n -> if n=0 then fO () else fS (n-1))
      (fun _ -> true)
      (fun n0 ->
      (fun fO fS n -> if n=0 then fO () else fS (n-1))
        (fun _ -> false)
        (fun n' -> even n')
        n0)
      n

  (** val odd : int -> bool **)

  let odd n =
    negb (even n)

  (** val div2 : int -> int **)

  let rec div2 = fun n -> n/2
 end

module Pos =
 struct
  type mask =
  | IsNul
  | IsPos of positive
  | IsNeg
 end

module Coq_Pos =
 struct
  (** val succ : positive -> positive **)

  let rec succ = function
  | XI p -> XO (succ p)
  | XO p -> XI p
  | XH -> XO XH

  (** val add : positive -> positive -> positive **)

  let rec add x y =
    match x with
    | XI p ->
      (match y with
       | XI q0 -> XO (add_carry p q0)
       | XO q0 -> XI (add p q0)
       | XH -> XO (succ p))
    | XO p ->
      (match y with
       | XI q0 -> XI (add p q0)
       | XO q0 -> XO (add p q0)
       | XH -> XI p)
    | XH -> (match y with
             | XI q0 -> XO (succ q0)
             | XO q0 -> XI q0
             | XH -> XO XH)

  (** val add_carry : positive -> positive -> positive **)

  and add_carry x y =
    match x with
    | XI p ->
      (match y with
       | XI q0 -> XI (add_carry p q0)
       | XO q0 -> XO (add_carry p q0)
       | XH -> XI (succ p))
    | XO p ->
      (match y with
       | XI q0 -> XO (add_carry p q0)
       | XO q0 -> XI (add p q0)
       | XH -> XO (succ p))
    | XH ->
      (match y with
       | XI q0 -> XI (succ q0)
       | XO q0 -> XO (succ q0)
       | XH -> XI XH)

  (** val pred_double : positive -> positive **)

  let rec pred_double = function
  | XI p -> XI (XO p)
  | XO p -> XI (pred_double p)
  | XH -> XH

  type mask = Pos.mask =
  | IsNul
  | IsPos of positive
  | IsNeg

  (** val succ_double_mask : mask -> mask **)

  let succ_double_mask = function
  | IsNul -> IsPos XH
  | IsPos p -> IsPos (XI p)
  | IsNeg -> IsNeg

  (** val double_mask : mask -> mask **)

  let double_mask = function
  | IsPos p -> IsPos (XO p)
  | x0 -> x0

  (** val double_pred_mask : positive -> mask **)

  let double_pred_mask = function
  | XI p -> IsPos (XO (XO p))
  | XO p -> IsPos (XO (pred_double p))
  | XH -> IsNul

  (** val sub_mask : positive -> positive -> mask **)

  let rec sub_mask x y =
    match x with
    | XI p ->
      (match y with
       | XI q0 -> double_mask (sub_mask p q0)
       | XO q0 -> succ_double_mask (sub_mask p q0)
       | XH -> IsPos (XO p))
    | XO p ->
      (match y with
       | XI q0 -> succ_double_mask (sub_mask_carry p q0)
       | XO q0 -> double_mask (sub_mask p q0)
       | XH -> IsPos (pred_double p))
    | XH -> (match y with
             | XH -> IsNul
             | _ -> IsNeg)

  (** val sub_mask_carry : positive -> positive -> mask **)

  and sub_mask_carry x y =
    match x with
    | XI p ->
      (match y with
       | XI q0 -> succ_double_mask (sub_mask_carry p q0)
       | XO q0 -> double_mask (sub_mask p q0)
       | XH -> IsPos (pred_double p))
    | XO p ->
      (match y with
       | XI q0 -> double_mask (sub_mask_carry p q0)
       | XO q0 -> succ_double_mask (sub_mask_carry p q0)
       | XH -> double_pred_mask p)
    | XH -> IsNeg

  (** val sub : positive -> positive -> positive **)

  let sub x y =
    match sub_mask x y with
    | IsPos z0 -> z0
    | _ -> XH

  (** val mul : positive -> positive -> positive **)

  let rec mul x y =
    match x with
    | XI p -> add y (XO (mul p y))
    | XO p -> XO (mul p y)
    | XH -> y

  (** val size_nat : positive -> int **)

  let rec size_nat = function
  | XI p0 -> Stdlib.Int.succ (size_nat p0)
  | XO p0 -> Stdlib.Int.succ (size_nat p0)
  | XH -> Stdlib.Int.succ 0

  (** val compare_cont : comparison -> positive -> positive -> comparison **)

  let rec compare_cont r x y =
    match x with
    | XI p ->
      (match y with
       | XI q0 -> compare_cont r p q0
       | XO q0 -> compare_cont Gt p q0
       | XH -> Gt)
    | XO p ->
      (match y with
       | XI q0 -> compare_cont Lt p q0
       | XO q0 -> compare_cont r p q0
       | XH -> Gt)
    | XH -> (match y with
             | XH -> r
             | _ -> Lt)

  (** val compare : positive -> positive -> comparison **)

  let compare =
    compare_cont Eq

  (** val eqb : positive -> positive -> bool **)

  let rec eqb p q0 =
    match p with
    | XI p0 -> (match q0 with
                | XI q1 -> eqb p0 q1
                | _ -> false)
    | XO p0 -> (match q0 with
                | XO q1 -> eqb p0 q1
                | _ -> false)
    | XH -> (match q0 with
             | XH -> true
             | _ -> false)

  (** val ggcdn :
      int -> positive -> positive -> positive * (positive * positive) **)

  let rec ggcdn n a b =
    (fun fO fS n -> if n=0 then fO () else fS (n-1))
      (fun _ -> (XH, (a, b)))
      (fun n0 ->
      match a with
      | XI a' ->
        (match b with
         | XI b' ->
           (match compare a' b' with
            | Eq -> (a, (XH, XH))
            | Lt ->
              let (g, p) = ggcdn n0 (sub b' a') a in
              let (ba, aa) = p in (g, (aa, (add aa (XO ba))))
            | Gt ->
              let (g, p) = ggcdn n0 (sub a' b') b in
              let (ab, bb) = p in (g, ((add bb (XO ab)), bb)))
         | XO b0 ->
           let (g, p) = ggcdn n0 a b0 in
           let (aa, bb) = p in (g, (aa, (XO bb)))
         | XH -> (XH, (a, XH)))
      | XO a0 ->
        (match b with
         | XI _ ->
           let (g, p) = ggcdn n0 a0 b in
           let (aa, bb) = p in (g, ((XO aa), bb))
         | XO b0 -> let (g, p) = ggcdn n0 a0 b0 in ((XO g), p)
         | XH -> (XH, (a, XH)))
      | XH -> (XH, (XH, b)))
      n

  (** val ggcd : positive -> positive -> positive * (positive * positive) **)

  let ggcd a b =
    ggcdn (Coq__1.add (size_nat a) (size_nat b)) a b
 end

module Z =
 struct
  (** val double : z -> z **)

  let double = function
  | Z0 -> Z0
  | Zpos p -> Zpos (XO p)
  | Zneg p -> Zneg (XO p)

  (** val succ_double : z -> z **)

  let succ_double = function
  | Z0 -> Zpos XH
  | Zpos p -> Zpos (XI p)
  | Zneg p -> Zneg (Coq_Pos.pred_double p)

  (** val pred_double : z -> z **)

  let pred_double = function
  | Z0 -> Zneg XH
  | Zpos p -> Zpos (Coq_Pos.pred_double p)
  | Zneg p -> Zneg (XI p)

  (** val pos_sub : positive -> positive -> z **)

  let rec pos_sub x y =
    match x with
    | XI p ->
      (match y with
       | XI q0 -> double (pos_sub p q0)
       | XO q0 -> succ_double (pos_sub p q0)
       | XH -> Zpos (XO p))
    | XO p ->
      (match y with
       | XI q0 -> pred_double (pos_sub p q0)
       | XO q0 -> double (pos_sub p q0)
       | XH -> Zpos (Coq_Pos.pred_double p))
    | XH ->
      (match y with
       | XI q0 -> Zneg (XO q0)
       | XO q0 -> Zneg (Coq_Pos.pred_double q0)
       | XH -> Z0)

  (** val add : z -> z -> z **)

  let add x y =
    match x with
    | Z0 -> y
    | Zpos x' ->
      (match y with
       | Z0 -> x
       | Zpos y' -> Zpos (Coq_Pos.add x' y')
       | Zneg y' -> pos_sub x' y')
    | Zneg x' ->
      (match y with
       | Z0 -> x
       | Zpos y' -> pos_sub y' x'
       | Zneg y' -> Zneg (Coq_Pos.add x' y'))

  (** val opp : z -> z **)

  let opp = function
  | Z0 -> Z0
  | Zpos x0 -> Zneg x0
  | Zneg x0 -> Zpos x0

  (** val mul : z -> z -> z **)

  let mul x y =
    match x with
    | Z0 -> Z0
    | Zpos x' ->
      (match y with
       | Z0 -> Z0
       | Zpos y' -> Zpos (Coq_Pos.mul x' y')
       | Zneg y' -> Zneg (Coq_Pos.mul x' y'))
    | Zneg x' ->
      (match y with
       | Z0 -> Z0
       | Zpos y' -> Zneg (Coq_Pos.mul x' y')
       | Zneg y' -> Zpos (Coq_Pos.mul x' y'))

  (** val sgn : z -> z **)

  let sgn = function
  | Z0 -> Z0
  | Zpos _ -> Zpos XH
  | Zneg _ -> Zneg XH

  (** val eqb : z -> z -> bool **)

  let eqb x y =
    match x with
    | Z0 -> (match y with
             | Z0 -> true
             | _ -> false)
    | Zpos p -> (match y with
                 | Zpos q0 -> Coq_Pos.eqb p q0
                 | _ -> false)
    | Zneg p -> (match y with
                 | Zneg q0 -> Coq_Pos.eqb p q0
                 | _ -> false)

  (** val abs : z -> z **)

  let abs = function
  | Zneg p -> Zpos p
  | x -> x

  (** val to_pos : z -> positive **)

  let to_pos = function
  | Zpos p -> p
  | _ -> XH

  (** val ggcd : z -> z -> z * (z * z) **)

  let ggcd a b =
    match a with
    | Z0 -> ((abs b), (Z0, (sgn b)))
    | Zpos a0 ->
      (match b with
       | Z0 -> ((abs a), ((sgn a), Z0))
       | Zpos b0 ->
         let (g, p) = Coq_Pos.ggcd a0 b0 in
         let (aa, bb) = p in ((Zpos g), ((Zpos aa), (Zpos bb)))
       | Zneg b0 ->
         let (g, p) = Coq_Pos.ggcd a0 b0 in
         let (aa, bb) = p in ((Zpos g), ((Zpos aa), (Zneg bb))))
    | Zneg a0 ->
      (match b with
       | Z0 -> ((abs a), ((sgn a), Z0))
       | Zpos b0 ->
         let (g, p) = Coq_Pos.ggcd a0 b0 in
         let (aa, bb) = p in ((Zpos g), ((Zneg aa), (Zpos bb)))
       | Zneg b0 ->
         let (g, p) = Coq_Pos.ggcd a0 b0 in
         let (aa, bb) = p in ((Zpos g), ((Zneg aa), (Zneg bb))))
 end

(** val nth : int -> 'a1 list -> 'a1 -> 'a1 **)

let rec nth n l default =
  (fun fO fS n -> if n=0 then fO () else fS (n-1))
    (fun _ -> match l with
              | [] -> default
              | x :: _ -> x)
    (fun m -> match l with
              | [] -> default
              | _ :: t -> nth m t default)
    n

(** val rev : 'a1 list -> 'a1 list **)

let rec rev = function
| [] -> []
| x :: l' -> app (rev l') (x :: [])

(** val map : ('a1 -> 'a2) -> 'a1 list -> 'a2 list **)

let rec map f = function
| [] -> []
| a :: t -> (f a) :: (map f t)

(** val fold_left : ('a1 -> 'a2 -> 'a1) -> 'a2 list -> 'a1 -> 'a1 **)

let rec fold_left f l a0 =
  match l with
  | [] -> a0
  | b :: t -> fold_left f t (f a0 b)

(** val existsb : ('a1 -> bool) -> 'a1 list -> bool **)

let rec existsb f = function
| [] -> false
| a :: l0 -> (||) (f a) (existsb f l0)

(** val filter : ('a1 -> bool) -> 'a1 list -> 'a1 list **)

let rec filter f = function
| [] -> []
| x :: l0 -> if f x then x :: (filter f l0) else filter f l0

(** val combine : 'a1 list -> 'a2 list -> ('a1 * 'a2) list **)

let rec combine l l' =
  match l with
  | [] -> []
  | x :: tl ->
    (match l' with
     | [] -> []
     | y :: tl' -> (x, y) :: (combine tl tl'))

(** val seq : int -> int -> int list **)

let rec seq start len =
  (fun fO fS n -> if n=0 then fO () else fS (n-1))
    (fun _ -> [])
    (fun len0 -> start :: (seq (Stdlib.Int.succ start) len0))
    len

type q = { qnum : z; qden : positive }

(** val qplus : q -> q -> q **)

let qplus x y =
  { qnum = (Z.add (Z.mul x.qnum (Zpos y.qden)) (Z.mul y.qnum (Zpos x.qden)));
    qden = (Coq_Pos.mul x.qden y.qden) }

(** val qmult : q -> q -> q **)

let qmult x y =
  { qnum = (Z.mul x.qnum y.qnum); qden = (Coq_Pos.mul x.qden y.qden) }

(** val qopp : q -> q **)

let qopp x =
  { qnum = (Z.opp x.qnum); qden = x.qden }

(** val qminus : q -> q -> q **)

let qminus x y =
  qplus x (qopp y)

(** val qred : q -> q **)

let qred q0 =
  let { qnum = q1; qden = q2 } = q0 in
  let (r1, r2) = snd (Z.ggcd q1 (Zpos q2)) in
  { qnum = r1; qden = (Z.to_pos r2) }

type 'a outcome =
| Done of 'a
| OOB
| Uninit
| Throws of int
| OutOfFuel

(** val bind : 'a1 outcome -> ('a1 -> 'a2 outcome) -> 'a2 outcome **)

let bind x f =
  match x with
  | Done a -> f a
  | OOB -> OOB
  | Uninit -> Uninit
  | Throws c -> Throws c
  | OutOfFuel -> OutOfFuel

type op = bool * int

(** val op_ann : op -> bool **)

let op_ann =
  fst

(** val op_idx : op -> int **)

let op_idx =
  snd

(** val cdag : int -> op **)

let cdag i =
  (false, i)

(** val cann : int -> op **)

let cann i =
  (true, i)

(** val flip_type : op -> op **)

let flip_type o =
  ((negb (fst o)), (snd o))

type state = bool list

(** val upd : int -> bool -> state -> state **)

let rec upd i v = function
| [] -> []
| b :: t ->
  ((fun fO fS n -> if n=0 then fO () else fS (n-1))
     (fun _ -> v :: t)
     (fun j -> b :: (upd j v t))
     i)

(** val par : int -> state -> bool **)

let rec par n s =
  (fun fO fS n -> if n=0 then fO () else fS (n-1))
    (fun _ -> false)
    (fun m -> match s with
              | [] -> false
              | b :: t -> xorb b (par m t))
    n

(** val act_op : op -> state -> (bool * state) option outcome **)

let act_op o s =
  let i = op_idx o in
  if Nat.ltb i (length s)
  then let occ = nth i s false in
       if eqb occ (negb (op_ann o))
       then Done None
       else Done (Some ((par i s), (upd i (negb (op_ann o)) s)))
  else OOB

(** val act_mono : op list -> state -> (bool * state) option outcome **)

let rec act_mono m s =
  match m with
  | [] -> Done (Some (false, s))
  | o :: rest ->
    (match act_mono rest s with
     | Done a ->
       (match a with
        | Some p ->
          let (sg, s') = p in
          (match act_op o s' with
           | Done a0 ->
             (match a0 with
              | Some p0 ->
                let (sg', s'') = p0 in Done (Some ((xorb sg sg'), s''))
              | None -> Done None)
           | x -> x)
        | None -> Done None)
     | x -> x)

(** val state_of_nat : int -> int -> state **)

let rec state_of_nat m n =
  (fun fO fS n -> if n=0 then fO () else fS (n-1))
    (fun _ -> [])
    (fun m' -> (Nat.odd n) :: (state_of_nat m' (Nat.div2 n)))
    m

(** val nat_of_state : state -> int **)

let rec nat_of_state = function
| [] -> 0
| b :: t ->
  add (if b then Stdlib.Int.succ 0 else 0)
    (mul (Stdlib.Int.succ (Stdlib.Int.succ 0)) (nat_of_state t))

(** val count_occ : state -> int **)

let count_occ s =
  length (filter (fun b -> b) s)

(** val op_compare : op -> op -> comparison **)

let op_compare a b =
  if fst a
  then if fst b then Nat.compare (snd a) (snd b) else Gt
  else if fst b then Lt else Nat.compare (snd a) (snd b)

(** val op_eqb : op -> op -> bool **)

let op_eqb a b =
  match op_compare a b with
  | Eq -> true
  | _ -> false

(** val op_gtb : op -> op -> bool **)

let op_gtb a b =
  match op_compare a b with
  | Gt -> true
  | _ -> false

type monomial = op list

(** val lex_compare : monomial -> monomial -> comparison **)

let rec lex_compare a b =
  match a with
  | [] -> (match b with
           | [] -> Eq
           | _ :: _ -> Lt)
  | x :: a' ->
    (match b with
     | [] -> Gt
     | y :: b' ->
       (match op_compare x y with
        | Eq -> lex_compare a' b'
        | x0 -> x0))

(** val mono_compare : monomial -> monomial -> comparison **)

let mono_compare a b =
  match Nat.compare (length a) (length b) with
  | Eq -> lex_compare a b
  | x -> x

type 'k poly = (monomial * 'k) list

(** val insert :
    ('a1 -> 'a1 -> 'a1) -> ('a1 -> bool) -> monomial -> 'a1 -> 'a1 poly ->
    'a1 poly **)

let rec insert kadd kzero m c p = match p with
| [] -> (m, c) :: []
| p0 :: t ->
  let (m', c') = p0 in
  (match mono_compare m m' with
   | Eq -> let s = kadd c' c in if kzero s then t else (m', s) :: t
   | Lt -> (m, c) :: p
   | Gt -> (m', c') :: (insert kadd kzero m c t))

(** val insert_sub :
    ('a1 -> 'a1 -> 'a1) -> ('a1 -> 'a1) -> ('a1 -> bool) -> monomial -> 'a1
    -> 'a1 poly -> 'a1 poly **)

let rec insert_sub ksub kopp kzero m c p = match p with
| [] -> (m, (kopp c)) :: []
| p0 :: t ->
  let (m', c') = p0 in
  (match mono_compare m m' with
   | Eq -> let s = ksub c' c in if kzero s then t else (m', s) :: t
   | Lt -> (m, (kopp c)) :: p
   | Gt -> (m', c') :: (insert_sub ksub kopp kzero m c t))

type 'k pass_result =
| PassVanish of 'k poly
| PassEnd of monomial * 'k * 'k poly * bool
| PassFail of 'k poly outcome

(** val pass :
    ('a1 -> 'a1) -> (monomial -> 'a1 -> 'a1 poly -> 'a1 poly outcome) -> op
    list -> op -> op list -> 'a1 -> 'a1 poly -> bool -> 'a1 pass_result **)

let rec pass kopp rec0 done_rev prev rest c tgt swapped =
  match rest with
  | [] -> PassEnd ((rev (prev :: done_rev)), c, tgt, swapped)
  | cur :: rest' ->
    if op_eqb prev cur
    then PassVanish tgt
    else if op_gtb prev cur
         then let r =
                if op_eqb prev (flip_type cur)
                then rec0 (app (rev done_rev) rest') c tgt
                else Done tgt
              in
              (match r with
               | Done tgt' ->
                 pass kopp rec0 (cur :: done_rev) prev rest' (kopp c) tgt'
                   true
               | _ -> PassFail r)
         else pass kopp rec0 (prev :: done_rev) cur rest' c tgt swapped

(** val normalize_and_insert :
    ('a1 -> 'a1 -> 'a1) -> ('a1 -> 'a1) -> ('a1 -> bool) -> int -> monomial
    -> 'a1 -> 'a1 poly -> 'a1 poly outcome **)

let rec normalize_and_insert kadd kopp kzero fuel m c tgt =
  (fun fO fS n -> if n=0 then fO () else fS (n-1))
    (fun _ -> OutOfFuel)
    (fun f ->
    match m with
    | [] -> Done (insert kadd kzero m c tgt)
    | first :: rest ->
      (match rest with
       | [] -> Done (insert kadd kzero m c tgt)
       | _ :: _ ->
         (match pass kopp (normalize_and_insert kadd kopp kzero f) [] first
                  rest c tgt false with
          | PassVanish tgt' -> Done tgt'
          | PassEnd (m', c', tgt', swapped) ->
            if swapped
            then normalize_and_insert kadd kopp kzero f m' c' tgt'
            else Done (insert kadd kzero m' c' tgt')
          | PassFail e -> e)))
    fuel

(** val fuel_for : monomial -> int **)

let fuel_for m =
  add (mul (Stdlib.Int.succ (length m)) (Stdlib.Int.succ (length m)))
    (Stdlib.Int.succ (Stdlib.Int.succ 0))

(** val normalize :
    ('a1 -> 'a1 -> 'a1) -> ('a1 -> 'a1) -> ('a1 -> bool) -> monomial -> 'a1
    -> 'a1 poly -> 'a1 poly outcome **)

let normalize kadd kopp kzero m c tgt =
  normalize_and_insert kadd kopp kzero (fuel_for m) m c tgt

(** val padd :
    ('a1 -> 'a1 -> 'a1) -> ('a1 -> bool) -> 'a1 poly -> 'a1 poly -> 'a1 poly **)

let padd kadd kzero a b =
  fold_left (fun acc mc -> insert kadd kzero (fst mc) (snd mc) acc) b a

(** val psub :
    ('a1 -> 'a1 -> 'a1) -> ('a1 -> 'a1) -> ('a1 -> bool) -> 'a1 poly -> 'a1
    poly -> 'a1 poly **)

let psub ksub kopp kzero a b =
  fold_left (fun acc mc -> insert_sub ksub kopp kzero (fst mc) (snd mc) acc)
    b a

(** val pneg : ('a1 -> 'a1) -> 'a1 poly -> 'a1 poly **)

let pneg kopp a =
  map (fun mc -> ((fst mc), (kopp (snd mc)))) a

(** val pscale :
    ('a1 -> 'a1 -> 'a1) -> ('a1 -> bool) -> 'a1 -> 'a1 poly -> 'a1 poly **)

let pscale kmul kzero alpha a =
  if kzero alpha
  then []
  else map (fun mc -> ((fst mc), (kmul (snd mc) alpha))) a

(** val padd_const :
    ('a1 -> 'a1 -> 'a1) -> ('a1 -> bool) -> 'a1 -> 'a1 poly -> 'a1 poly **)

let padd_const kadd kzero alpha a =
  insert kadd kzero [] alpha a

(** val psub_const :
    ('a1 -> 'a1 -> 'a1) -> ('a1 -> 'a1) -> ('a1 -> bool) -> 'a1 -> 'a1 poly
    -> 'a1 poly **)

let psub_const ksub kopp kzero alpha a =
  insert_sub ksub kopp kzero [] alpha a

(** val pmul :
    ('a1 -> 'a1 -> 'a1) -> ('a1 -> 'a1 -> 'a1) -> ('a1 -> 'a1) -> ('a1 ->
    bool) -> 'a1 poly -> 'a1 poly -> 'a1 poly outcome **)

let pmul kadd kmul kopp kzero a b =
  fold_left (fun acc mc ->
    fold_left (fun acc' mc' ->
      bind acc' (fun t ->
        normalize kadd kopp kzero (app (fst mc) (fst mc'))
          (kmul (snd mc) (snd mc')) t)) b acc) a (Done [])

(** val commutator :
    ('a1 -> 'a1 -> 'a1) -> ('a1 -> 'a1 -> 'a1) -> ('a1 -> 'a1 -> 'a1) -> ('a1
    -> 'a1) -> ('a1 -> bool) -> 'a1 poly -> 'a1 poly -> 'a1 poly outcome **)

let commutator kadd kmul ksub kopp kzero a b =
  bind (pmul kadd kmul kopp kzero a b) (fun ab ->
    bind (pmul kadd kmul kopp kzero b a) (fun ba -> Done
      (psub ksub kopp kzero ab ba)))

(** val anticommutator :
    ('a1 -> 'a1 -> 'a1) -> ('a1 -> 'a1 -> 'a1) -> ('a1 -> 'a1) -> ('a1 ->
    bool) -> 'a1 poly -> 'a1 poly -> 'a1 poly outcome **)

let anticommutator kadd kmul kopp kzero a b =
  bind (pmul kadd kmul kopp kzero a b) (fun ab ->
    bind (pmul kadd kmul kopp kzero b a) (fun ba -> Done
      (padd kadd kzero ab ba)))

(** val prefix_equal : monomial -> monomial -> bool outcome **)

let rec prefix_equal a b =
  match a with
  | [] -> Done true
  | x :: a' ->
    (match b with
     | [] -> OOB
     | y :: b' -> if op_eqb x y then prefix_equal a' b' else Done false)

(** val mono_eqb : monomial -> monomial -> bool **)

let rec mono_eqb a b =
  match a with
  | [] -> (match b with
           | [] -> true
           | _ :: _ -> false)
  | x :: a' ->
    (match b with
     | [] -> false
     | y :: b' -> (&&) (op_eqb x y) (mono_eqb a' b'))

(** val entry_eq :
    ('a1 -> 'a1 -> 'a1) -> ('a1 -> bool) -> bool -> (monomial * 'a1) ->
    (monomial * 'a1) -> bool outcome **)

let entry_eq ksub kzero sized l r =
  if sized
  then Done ((&&) (mono_eqb (fst l) (fst r)) (kzero (ksub (snd r) (snd l))))
  else bind (prefix_equal (fst l) (fst r)) (fun b -> Done
         ((&&) b (kzero (ksub (snd r) (snd l)))))

(** val entries_equal :
    ('a1 -> 'a1 -> 'a1) -> ('a1 -> bool) -> bool -> 'a1 poly -> 'a1 poly ->
    bool outcome **)

let rec entries_equal ksub kzero sized a b =
  match a with
  | [] -> Done true
  | x :: a' ->
    (match b with
     | [] -> OOB
     | y :: b' ->
       bind (entry_eq ksub kzero sized x y) (fun e ->
         if e then entries_equal ksub kzero sized a' b' else Done false))

(** val poly_eq :
    ('a1 -> 'a1 -> 'a1) -> ('a1 -> bool) -> bool -> 'a1 poly -> 'a1 poly ->
    bool outcome **)

let poly_eq ksub kzero sized a b =
  if (=) (length a) (length b)
  then entries_equal ksub kzero sized a b
  else Done false

(** val commutes :
    ('a1 -> 'a1 -> 'a1) -> ('a1 -> 'a1 -> 'a1) -> ('a1 -> 'a1 -> 'a1) -> ('a1
    -> 'a1) -> ('a1 -> bool) -> bool -> 'a1 poly -> 'a1 poly -> bool outcome **)

let commutes kadd kmul ksub kopp kzero sized a b =
  bind (pmul kadd kmul kopp kzero a b) (fun ab ->
    bind (pmul kadd kmul kopp kzero b a) (fun ba ->
      poly_eq ksub kzero sized ab ba))

(** val p_c : 'a1 -> int -> 'a1 poly **)

let p_c k1 i =
  (((cann i) :: []), k1) :: []

(** val p_cdag : 'a1 -> int -> 'a1 poly **)

let p_cdag k1 i =
  (((cdag i) :: []), k1) :: []

(** val p_n : 'a1 -> int -> 'a1 poly **)

let p_n k1 i =
  (((cdag i) :: ((cann i) :: [])), k1) :: []

(** val p_n_offdiag : 'a1 -> int -> int -> 'a1 poly **)

let p_n_offdiag k1 i j =
  (((cdag i) :: ((cann j) :: [])), k1) :: []

(** val p_N :
    'a1 -> ('a1 -> 'a1 -> 'a1) -> ('a1 -> bool) -> int -> 'a1 poly **)

let p_N k1 kadd kzero m =
  fold_left (fun acc i -> padd kadd kzero acc (p_n k1 i)) (seq 0 m) []

(** val sz_down : int -> int list -> int list **)

let sz_down m ups =
  filter (fun i -> negb (existsb ((=) i) ups)) (seq 0 m)

(** val p_Sz_lists :
    'a1 -> ('a1 -> 'a1 -> 'a1) -> ('a1 -> 'a1 -> 'a1) -> ('a1 -> 'a1 -> 'a1)
    -> ('a1 -> 'a1) -> ('a1 -> bool) -> 'a1 -> int list -> int list -> 'a1
    poly outcome **)

let p_Sz_lists k1 kadd kmul ksub kopp kzero khalf ups downs =
  if (=) (length ups) (length downs)
  then Done
         (fold_left (fun acc ud ->
           psub ksub kopp kzero
             (padd kadd kzero acc (pscale kmul kzero khalf (p_n k1 (fst ud))))
             (pscale kmul kzero khalf (p_n k1 (snd ud)))) (combine ups downs)
           [])
  else Throws (Stdlib.Int.succ 0)

(** val p_Sz :
    'a1 -> ('a1 -> 'a1 -> 'a1) -> ('a1 -> 'a1 -> 'a1) -> ('a1 -> 'a1 -> 'a1)
    -> ('a1 -> 'a1) -> ('a1 -> bool) -> 'a1 -> int -> int list -> 'a1 poly
    outcome **)

let p_Sz k1 kadd kmul ksub kopp kzero khalf m ups =
  p_Sz_lists k1 kadd kmul ksub kopp kzero khalf ups (sz_down m ups)

(** val n_shortcut : state -> int **)

let n_shortcut =
  count_occ

(** val sz_shortcut : int list -> int list -> state -> int * int **)

let sz_shortcut ups downs ket =
  ((length (filter (fun i -> nth i ket false) ups)),
    (length (filter (fun i -> nth i ket false) downs)))

(** val lc_add :
    ('a1 -> 'a1 -> 'a1) -> state -> 'a1 -> (state * 'a1) list ->
    (state * 'a1) list **)

let rec lc_add kadd s c = function
| [] -> (s, c) :: []
| p :: t ->
  let (s', c') = p in
  if (=) (nat_of_state s) (nat_of_state s')
  then (s', (kadd c' c)) :: t
  else (s', c') :: (lc_add kadd s c t)

(** val act_poly :
    ('a1 -> 'a1 -> 'a1) -> ('a1 -> 'a1) -> 'a1 poly -> state -> (state * 'a1)
    list outcome **)

let act_poly kadd kopp p ket =
  fold_left (fun acc mc ->
    bind acc (fun l ->
      match act_mono (fst mc) ket with
      | Done a ->
        (match a with
         | Some p0 ->
           let (sg, s') = p0 in
           Done (lc_add kadd s' (if sg then kopp (snd mc) else snd mc) l)
         | None -> Done l)
      | OOB -> OOB
      | Uninit -> Uninit
      | Throws c -> Throws c
      | OutOfFuel -> OutOfFuel)) p (Done [])

(** val qadd : q -> q -> q **)

let qadd a b =
  qred (qplus a b)

(** val qmul : q -> q -> q **)

let qmul a b =
  qred (qmult a b)

(** val qsub : q -> q -> q **)

let qsub a b =
  qred (qminus a b)

(** val qopp0 : q -> q **)

let qopp0 a =
  qred (qopp a)

(** val qzero : q -> bool **)

let qzero a =
  Z.eqb a.qnum Z0

(** val qhalf : q **)

let qhalf =
  { qnum = (Zpos XH); qden = (XO XH) }

(** val q_insert : monomial -> q -> q poly -> q poly **)

let q_insert =
  insert qadd qzero

(** val q_padd : q poly -> q poly -> q poly **)

let q_padd =
  padd qadd qzero

(** val q_psub : q poly -> q poly -> q poly **)

let q_psub =
  psub qsub qopp0 qzero

(** val q_pneg : q poly -> q poly **)

let q_pneg =
  pneg qopp0

(** val q_pscale : q -> q poly -> q poly **)

let q_pscale =
  pscale qmul qzero

(** val q_padd_const : q -> q poly -> q poly **)

let q_padd_const =
  padd_const qadd qzero

(** val q_psub_const : q -> q poly -> q poly **)

let q_psub_const =
  psub_const qsub qopp0 qzero

(** val q_pmul : q poly -> q poly -> q poly outcome **)

let q_pmul =
  pmul qadd qmul qopp0 qzero

(** val q_commutator : q poly -> q poly -> q poly outcome **)

let q_commutator =
  commutator qadd qmul qsub qopp0 qzero

(** val q_anticommutator : q poly -> q poly -> q poly outcome **)

let q_anticommutator =
  anticommutator qadd qmul qopp0 qzero

(** val q_poly_eq : bool -> q poly -> q poly -> bool outcome **)

let q_poly_eq =
  poly_eq qsub qzero

(** val q_commutes : bool -> q poly -> q poly -> bool outcome **)

let q_commutes =
  commutes qadd qmul qsub qopp0 qzero

(** val q_c : int -> q poly **)

let q_c =
  p_c { qnum = (Zpos XH); qden = XH }

(** val q_cdag : int -> q poly **)

let q_cdag =
  p_cdag { qnum = (Zpos XH); qden = XH }

(** val q_n : int -> q poly **)

let q_n =
  p_n { qnum = (Zpos XH); qden = XH }

(** val q_n_offdiag : int -> int -> q poly **)

let q_n_offdiag =
  p_n_offdiag { qnum = (Zpos XH); qden = XH }

(** val q_N : int -> q poly **)

let q_N =
  p_N { qnum = (Zpos XH); qden = XH } qadd qzero

(** val q_Sz : int -> int list -> q poly outcome **)

let q_Sz =
  p_Sz { qnum = (Zpos XH); qden = XH } qadd qmul qsub qopp0 qzero qhalf

(** val q_act : q poly -> state -> (state * q) list outcome **)

let q_act =
  act_poly qadd qopp0

(** val q_normalize : monomial -> q -> q poly -> q poly outcome **)

let q_normalize =
  normalize qadd qopp0 qzero
