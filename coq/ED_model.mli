
val xorb : bool -> bool -> bool

val negb : bool -> bool

val fst : ('a1 * 'a2) -> 'a1

val snd : ('a1 * 'a2) -> 'a2

val length : 'a1 list -> int

val app : 'a1 list -> 'a1 list -> 'a1 list

val add : int -> int -> int

val mul : int -> int -> int

type positive =
| XI of positive
| XO of positive
| XH

type z =
| Z0
| Zpos of positive
| Zneg of positive

val eqb : bool -> bool -> bool

module Nat :
 sig
  val add : int -> int -> int

  val mul : int -> int -> int

  val ltb : int -> int -> bool

  val even : int -> bool

  val odd : int -> bool

  val pow : int -> int -> int

  val div2 : int -> int
 end

val hd : 'a1 -> 'a1 list -> 'a1

val tl : 'a1 list -> 'a1 list

val nth : int -> 'a1 list -> 'a1 -> 'a1

val concat : 'a1 list list -> 'a1 list

val map : ('a1 -> 'a2) -> 'a1 list -> 'a2 list

val fold_left : ('a1 -> 'a2 -> 'a1) -> 'a2 list -> 'a1 -> 'a1

val filter : ('a1 -> bool) -> 'a1 list -> 'a1 list

val combine : 'a1 list -> 'a2 list -> ('a1 * 'a2) list

val seq : int -> int -> int list

val sqrt : Float64.t -> Float64.t

val opp : Float64.t -> Float64.t

val ltb0 : Float64.t -> Float64.t -> bool

val mul0 : Float64.t -> Float64.t -> Float64.t

val add0 : Float64.t -> Float64.t -> Float64.t

val sub : Float64.t -> Float64.t -> Float64.t

val div : Float64.t -> Float64.t -> Float64.t

type 'a outcome =
| Done of 'a
| OOB
| Uninit
| Throws of int
| OutOfFuel

type op = bool * int

val op_ann : op -> bool

val op_idx : op -> int

val cdag : int -> op

val cann : int -> op

type state = bool list

val upd : int -> bool -> state -> state

val par : int -> state -> bool

val act_op : op -> state -> (bool * state) option outcome

val act_mono : op list -> state -> (bool * state) option outcome

val state_of_nat : int -> int -> state

val nat_of_state : state -> int

type monomial = op list

type 'k numops = { n0 : 'k; n1 : 'k; nadd : ('k -> 'k -> 'k);
                   nsub : ('k -> 'k -> 'k); nmul : ('k -> 'k -> 'k);
                   ndiv : ('k -> 'k -> 'k); nopp : ('k -> 'k);
                   nconj : ('k -> 'k); nexp : ('k -> 'k);
                   nre_ltb : ('k -> 'k -> bool); nabs : ('k -> 'k);
                   nofZ : (z -> 'k); nI : 'k }

type 'k vec = 'k list

type 'k mat = 'k list list

val ksum : 'a1 numops -> 'a2 list -> ('a2 -> 'a1) -> 'a1

val dot : 'a1 numops -> 'a1 vec -> 'a1 vec -> 'a1

val transpose_aux : 'a1 numops -> int -> 'a1 mat -> 'a1 mat

val transpose : 'a1 numops -> int -> 'a1 mat -> 'a1 mat

val mmul : 'a1 numops -> int -> 'a1 mat -> 'a1 mat -> 'a1 mat

val adjoint : 'a1 numops -> int -> 'a1 mat -> 'a1 mat

val mget : 'a1 numops -> 'a1 mat -> int -> int -> 'a1

val idx : 'a1 list -> (int * 'a1) list

val mono_entry : int -> monomial -> int -> (bool * int) option

val poly_matrix : 'a1 numops -> int -> (monomial * 'a1) list -> 'a1 mat

val op_matrix : 'a1 numops -> int -> op -> 'a1 mat

val max_abs : 'a1 numops -> 'a1 list -> 'a1

val residual_HU : 'a1 numops -> int -> 'a1 mat -> 'a1 mat -> 'a1 vec -> 'a1

val residual_unitary : 'a1 numops -> int -> 'a1 mat -> 'a1

val min_re : 'a1 numops -> 'a1 list -> 'a1

val weights : 'a1 numops -> 'a1 -> 'a1 vec -> 'a1 vec

val rotate : 'a1 numops -> int -> 'a1 mat -> 'a1 mat -> 'a1 mat

val gf : 'a1 numops -> 'a1 vec -> 'a1 vec -> 'a1 mat -> 'a1 mat -> 'a1 -> 'a1

val gf_tau :
  'a1 numops -> 'a1 vec -> 'a1 vec -> 'a1 mat -> 'a1 mat -> 'a1 -> 'a1

val trace_rho : 'a1 numops -> 'a1 vec -> 'a1 mat -> 'a1

val avg_energy : 'a1 numops -> 'a1 vec -> 'a1 vec -> 'a1

val susc :
  'a1 numops -> 'a1 -> 'a1 -> 'a1 vec -> 'a1 vec -> 'a1 mat -> 'a1 mat -> 'a1
  -> bool -> 'a1

val susc_tau :
  'a1 numops -> 'a1 vec -> 'a1 vec -> 'a1 mat -> 'a1 mat -> 'a1 -> 'a1

val phi :
  'a1 numops -> 'a1 -> 'a1 -> 'a1 -> 'a1 -> 'a1 -> 'a1 -> 'a1 -> 'a1 -> 'a1
  -> 'a1 -> 'a1 -> 'a1 -> 'a1 -> 'a1

val chi_ordering :
  'a1 numops -> 'a1 -> 'a1 -> 'a1 vec -> 'a1 vec -> 'a1 mat -> 'a1 mat -> 'a1
  mat -> 'a1 mat -> 'a1 -> 'a1 -> 'a1 -> 'a1

val perms3 : (int list * bool) list

val chi :
  'a1 numops -> 'a1 -> 'a1 -> 'a1 vec -> 'a1 vec -> 'a1 mat -> 'a1 mat -> 'a1
  mat -> 'a1 mat -> 'a1 -> 'a1 -> 'a1 -> 'a1

type fc = Float64.t * Float64.t

val fadd : fc -> fc -> fc

val fsub : fc -> fc -> fc

val fmul : fc -> fc -> fc

val fdiv : fc -> fc -> fc

val fopp : fc -> fc

val fconj : fc -> fc

val fabs : fc -> fc

val pos_to_float : positive -> Float64.t

val fofZ : z -> fc

val fops : (Float64.t -> Float64.t) -> fc numops

val f_poly_matrix :
  (Float64.t -> Float64.t) -> int -> (monomial * fc) list -> fc mat

val f_op_matrix : (Float64.t -> Float64.t) -> int -> op -> fc mat

val f_residual_HU :
  (Float64.t -> Float64.t) -> int -> fc mat -> fc mat -> fc vec -> fc

val f_residual_unitary : (Float64.t -> Float64.t) -> int -> fc mat -> fc

val f_weights : (Float64.t -> Float64.t) -> fc -> fc vec -> fc vec

val f_rotate : (Float64.t -> Float64.t) -> int -> fc mat -> fc mat -> fc mat

val f_mmul : (Float64.t -> Float64.t) -> int -> fc mat -> fc mat -> fc mat

val f_adjoint : (Float64.t -> Float64.t) -> int -> fc mat -> fc mat

val f_gf :
  (Float64.t -> Float64.t) -> fc vec -> fc vec -> fc mat -> fc mat -> fc -> fc

val f_gf_tau :
  (Float64.t -> Float64.t) -> fc vec -> fc vec -> fc mat -> fc mat -> fc -> fc

val f_trace_rho : (Float64.t -> Float64.t) -> fc vec -> fc mat -> fc

val f_avg_energy : (Float64.t -> Float64.t) -> fc vec -> fc vec -> fc

val f_susc :
  (Float64.t -> Float64.t) -> fc -> fc -> fc vec -> fc vec -> fc mat -> fc
  mat -> fc -> bool -> fc

val f_susc_tau :
  (Float64.t -> Float64.t) -> fc vec -> fc vec -> fc mat -> fc mat -> fc -> fc

val f_phi :
  (Float64.t -> Float64.t) -> fc -> fc -> fc -> fc -> fc -> fc -> fc -> fc ->
  fc -> fc -> fc -> fc -> fc -> fc

val f_chi :
  (Float64.t -> Float64.t) -> fc -> fc -> fc vec -> fc vec -> fc mat -> fc
  mat -> fc mat -> fc mat -> fc -> fc -> fc -> fc

val f_chi_ordering :
  (Float64.t -> Float64.t) -> fc -> fc -> fc vec -> fc vec -> fc mat -> fc
  mat -> fc mat -> fc mat -> fc -> fc -> fc -> fc
