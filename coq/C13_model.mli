
val negb : bool -> bool

val fst : ('a1 * 'a2) -> 'a1

val snd : ('a1 * 'a2) -> 'a2

val length : 'a1 list -> int

val app : 'a1 list -> 'a1 list -> 'a1 list

val sub : int -> int -> int

type positive =
| XI of positive
| XO of positive
| XH

type z =
| Z0
| Zpos of positive
| Zneg of positive

module Nat :
 sig
  val ltb : int -> int -> bool
 end

module Pos :
 sig
  val succ : positive -> positive

  val add : positive -> positive -> positive

  val add_carry : positive -> positive -> positive

  val pred_double : positive -> positive
 end

module Z :
 sig
  val double : z -> z

  val succ_double : z -> z

  val pred_double : z -> z

  val pos_sub : positive -> positive -> z

  val add : z -> z -> z

  val opp : z -> z

  val sub : z -> z -> z
 end

val nth : int -> 'a1 list -> 'a1 -> 'a1

val nth_error : 'a1 list -> int -> 'a1 option

val map : ('a1 -> 'a2) -> 'a1 list -> 'a2 list

val flat_map : ('a1 -> 'a2 list) -> 'a1 list -> 'a2 list

val fold_left : ('a1 -> 'a2 -> 'a1) -> 'a2 list -> 'a1 -> 'a1

val forallb : ('a1 -> bool) -> 'a1 list -> bool

val seq : int -> int -> int list

val permutations4 : ((((int * int) * int) * int) * z) list

val set_owner_perm_index : int

val set_inserts_nontrivial : bool

val set_aliases :
  (((int * int) list * (((int * int) * int) * int)) * int) list

val fill_clears_nontrivial : bool

val freq_array : z -> z -> z -> z list

val eval_arg_slots : int list

val eval_multiplies_sign : bool

type quad = ((int * int) * int) * int

type triple = (z * z) * z

val quad_eqb : quad -> quad -> bool

val quad_ltb : quad -> quad -> bool

type 'a qmap = (quad * 'a) list

val qfind : quad -> 'a1 qmap -> 'a1 option

val qins : quad -> 'a1 -> 'a1 qmap -> 'a1 qmap

val qinsert : quad -> 'a1 -> 'a1 qmap -> 'a1 qmap

val qkeys : 'a1 qmap -> quad list

val qset_of_list : quad list -> quad list

type status =
| Constructed
| Prepared
| Computed

type perm4 = (((int * int) * int) * int) * z

type estore = (quad * status) list

val upd : int -> 'a1 -> 'a1 list -> 'a1 list

type cstate = { emap : (int * perm4) qmap; nontriv : int qmap; elems : estore }

val init : cstate

type exn =
| StatusMismatch
| UncomputedPart
| Dangling

type cout =
| OUnit
| OThrows of exn
| OVal of z * quad * triple
| OZero of z

type cop =
| Fill of quad list
| PrepareAll of quad list
| ComputeAll of bool
| Lookup of quad
| PrepareElem of quad
| ComputeElem of quad
| Eval of quad * triple

val bad_perm : perm4

val perm_at : int -> perm4

val sel : quad -> int -> int

val pnth : perm4 -> int -> int

val alias_key : quad -> (((int * int) * int) * int) -> quad

val alias_cond : quad -> (int * int) list -> bool

val perm_eval : perm4 -> triple -> z * triple

val isInContainer : cstate -> quad -> bool

val add_alias :
  quad -> int -> (int * perm4) qmap -> (((int * int)
  list * (((int * int) * int) * int)) * int) -> (int * perm4) qmap

val set_ : cstate -> quad -> cstate * (int * perm4)

val lookup : cstate -> quad -> cstate * (int * perm4)

val enumerate : int -> quad list

val fill : bool -> int -> cstate -> quad list -> cstate

val prepare_elem : int -> estore -> estore * cout

val compute_elem : int -> estore -> estore * cout

val run_seq :
  (int -> estore -> estore * cout) -> int list -> estore -> estore * cout

val eval_elem : (quad -> bool) -> estore -> (int * perm4) -> triple -> cout

val emap_ids : cstate -> int list

val nontriv_ids : cstate -> int list

val with_elems : cstate -> estore -> cstate

val prepare_all : bool -> int -> cstate -> quad list -> cstate * cout

val compute_all : cstate -> bool -> cstate * cout

val cstep : bool -> (quad -> bool) -> int -> cstate -> cop -> cstate * cout

val source_says_fixed : bool

val status_leb : status -> status -> bool

val smax : status -> status -> status

type gmap = status qmap

val gsync : gmap -> cstate -> gmap

val gall : status -> gmap -> gmap

val graise : quad -> status -> gmap -> gmap

val gstep : gmap -> cop -> cstate -> cout -> gmap
