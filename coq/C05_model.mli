
val xorb : bool -> bool -> bool

val negb : bool -> bool

val fst : ('a1 * 'a2) -> 'a1

val snd : ('a1 * 'a2) -> 'a2

val length : 'a1 list -> int

val app : 'a1 list -> 'a1 list -> 'a1 list

type comparison =
| Eq
| Lt
| Gt

val add : int -> int -> int

val mul : int -> int -> int

type positive =
| XI of positive
| XO of positive
| XH

type z =
| Z0
| Zpos of positive
| Zneg of positive

val eqb : bool -> bool -> bool

module Nat :
 sig
  val ltb : int -> int -> bool

  val compare : int -> int -> comparison

  val even : int -> bool

  val odd : int -> bool

  val div2 : int -> int
 end

module Pos :
 sig
  type mask =
  | IsNul
  | IsPos of positive
  | IsNeg
 end

module Coq_Pos :
 sig
  val succ : positive -> positive

  val add : positive -> positive -> positive

  val add_carry : positive -> positive -> positive

  val pred_double : positive -> positive

  type mask = Pos.mask =
  | IsNul
  | IsPos of positive
  | IsNeg

  val succ_double_mask : mask -> mask

  val double_mask : mask -> mask

  val double_pred_mask : positive -> mask

  val sub_mask : positive -> positive -> mask

  val sub_mask_carry : positive -> positive -> mask

  val sub : positive -> positive -> positive

  val mul : positive -> positive -> positive

  val size_nat : positive -> int

  val compare_cont : comparison -> positive -> positive -> comparison

  val compare : positive -> positive -> comparison

  val eqb : positive -> positive -> bool

  val ggcdn : int -> positive -> positive -> positive * (positive * positive)

  val ggcd : positive -> positive -> positive * (positive * positive)
 end

module Z :
 sig
  val double : z -> z

  val succ_double : z -> z

  val pred_double : z -> z

  val pos_sub : positive -> positive -> z

  val add : z -> z -> z

  val opp : z -> z

  val mul : z -> z -> z

  val sgn : z -> z

  val eqb : z -> z -> bool

  val abs : z -> z

  val to_pos : z -> positive

  val ggcd : z -> z -> z * (z * z)
 end

val nth : int -> 'a1 list -> 'a1 -> 'a1

val rev : 'a1 list -> 'a1 list

val map : ('a1 -> 'a2) -> 'a1 list -> 'a2 list

val fold_left : ('a1 -> 'a2 -> 'a1) -> 'a2 list -> 'a1 -> 'a1

val existsb : ('a1 -> bool) -> 'a1 list -> bool

val filter : ('a1 -> bool) -> 'a1 list -> 'a1 list

val combine : 'a1 list -> 'a2 list -> ('a1 * 'a2) list

val seq : int -> int -> int list

type q = { qnum : z; qden : positive }

val qplus : q -> q -> q

val qmult : q -> q -> q

val qopp : q -> q

val qminus : q -> q -> q

val qred : q -> q

type 'a outcome =
| Done of 'a
| OOB
| Uninit
| Throws of int
| OutOfFuel

val bind : 'a1 outcome -> ('a1 -> 'a2 outcome) -> 'a2 outcome

type op = bool * int

val op_ann : op -> bool

val op_idx : op -> int

val cdag : int -> op

val cann : int -> op

val flip_type : op -> op

type state = bool list

val upd : int -> bool -> state -> state

val par : int -> state -> bool

val act_op : op -> state -> (bool * state) option outcome

val act_mono : op list -> state -> (bool * state) option outcome

val state_of_nat : int -> int -> state

val nat_of_state : state -> int

val count_occ : state -> int

val op_compare : op -> op -> comparison

val op_eqb : op -> op -> bool

val op_gtb : op -> op -> bool

type monomial = op list

val lex_compare : monomial -> monomial -> comparison

val mono_compare : monomial -> monomial -> comparison

type 'k poly = (monomial * 'k) list

val insert :
  ('a1 -> 'a1 -> 'a1) -> ('a1 -> bool) -> monomial -> 'a1 -> 'a1 poly -> 'a1
  poly

val insert_sub :
  ('a1 -> 'a1 -> 'a1) -> ('a1 -> 'a1) -> ('a1 -> bool) -> monomial -> 'a1 ->
  'a1 poly -> 'a1 poly

type 'k pass_result =
| PassVanish of 'k poly
| PassEnd of monomial * 'k * 'k poly * bool
| PassFail of 'k poly outcome

val pass :
  ('a1 -> 'a1) -> (monomial -> 'a1 -> 'a1 poly -> 'a1 poly outcome) -> op
  list -> op -> op list -> 'a1 -> 'a1 poly -> bool -> 'a1 pass_result

val normalize_and_insert :
  ('a1 -> 'a1 -> 'a1) -> ('a1 -> 'a1) -> ('a1 -> bool) -> int -> monomial ->
  'a1 -> 'a1 poly -> 'a1 poly outcome

val fuel_for : monomial -> int

val normalize :
  ('a1 -> 'a1 -> 'a1) -> ('a1 -> 'a1) -> ('a1 -> bool) -> monomial -> 'a1 ->
  'a1 poly -> 'a1 poly outcome

val padd :
  ('a1 -> 'a1 -> 'a1) -> ('a1 -> bool) -> 'a1 poly -> 'a1 poly -> 'a1 poly

val psub :
  ('a1 -> 'a1 -> 'a1) -> ('a1 -> 'a1) -> ('a1 -> bool) -> 'a1 poly -> 'a1
  poly -> 'a1 poly

val pneg : ('a1 -> 'a1) -> 'a1 poly -> 'a1 poly

val pscale :
  ('a1 -> 'a1 -> 'a1) -> ('a1 -> bool) -> 'a1 -> 'a1 poly -> 'a1 poly

val padd_const :
  ('a1 -> 'a1 -> 'a1) -> ('a1 -> bool) -> 'a1 -> 'a1 poly -> 'a1 poly

val psub_const :
  ('a1 -> 'a1 -> 'a1) -> ('a1 -> 'a1) -> ('a1 -> bool) -> 'a1 -> 'a1 poly ->
  'a1 poly

val pmul :
  ('a1 -> 'a1 -> 'a1) -> ('a1 -> 'a1 -> 'a1) -> ('a1 -> 'a1) -> ('a1 -> bool)
  -> 'a1 poly -> 'a1 poly -> 'a1 poly outcome

val commutator :
  ('a1 -> 'a1 -> 'a1) -> ('a1 -> 'a1 -> 'a1) -> ('a1 -> 'a1 -> 'a1) -> ('a1
  -> 'a1) -> ('a1 -> bool) -> 'a1 poly -> 'a1 poly -> 'a1 poly outcome

val anticommutator :
  ('a1 -> 'a1 -> 'a1) -> ('a1 -> 'a1 -> 'a1) -> ('a1 -> 'a1) -> ('a1 -> bool)
  -> 'a1 poly -> 'a1 poly -> 'a1 poly outcome

val prefix_equal : monomial -> monomial -> bool outcome

val mono_eqb : monomial -> monomial -> bool

val entry_eq :
  ('a1 -> 'a1 -> 'a1) -> ('a1 -> bool) -> bool -> (monomial * 'a1) ->
  (monomial * 'a1) -> bool outcome

val entries_equal :
  ('a1 -> 'a1 -> 'a1) -> ('a1 -> bool) -> bool -> 'a1 poly -> 'a1 poly ->
  bool outcome

val poly_eq :
  ('a1 -> 'a1 -> 'a1) -> ('a1 -> bool) -> bool -> 'a1 poly -> 'a1 poly ->
  bool outcome

val commutes :
  ('a1 -> 'a1 -> 'a1) -> ('a1 -> 'a1 -> 'a1) -> ('a1 -> 'a1 -> 'a1) -> ('a1
  -> 'a1) -> ('a1 -> bool) -> bool -> 'a1 poly -> 'a1 poly -> bool outcome

val p_c : 'a1 -> int -> 'a1 poly

val p_cdag : 'a1 -> int -> 'a1 poly

val p_n : 'a1 -> int -> 'a1 poly

val p_n_offdiag : 'a1 -> int -> int -> 'a1 poly

val p_N : 'a1 -> ('a1 -> 'a1 -> 'a1) -> ('a1 -> bool) -> int -> 'a1 poly

val sz_down : int -> int list -> int list

val p_Sz_lists :
  'a1 -> ('a1 -> 'a1 -> 'a1) -> ('a1 -> 'a1 -> 'a1) -> ('a1 -> 'a1 -> 'a1) ->
  ('a1 -> 'a1) -> ('a1 -> bool) -> 'a1 -> int list -> int list -> 'a1 poly
  outcome

val p_Sz :
  'a1 -> ('a1 -> 'a1 -> 'a1) -> ('a1 -> 'a1 -> 'a1) -> ('a1 -> 'a1 -> 'a1) ->
  ('a1 -> 'a1) -> ('a1 -> bool) -> 'a1 -> int -> int list -> 'a1 poly outcome

val n_shortcut : state -> int

val sz_shortcut : int list -> int list -> state -> int * int

val lc_add :
  ('a1 -> 'a1 -> 'a1) -> state -> 'a1 -> (state * 'a1) list -> (state * 'a1)
  list

val act_poly :
  ('a1 -> 'a1 -> 'a1) -> ('a1 -> 'a1) -> 'a1 poly -> state -> (state * 'a1)
  list outcome

val qadd : q -> q -> q

val qmul : q -> q -> q

val qsub : q -> q -> q

val qopp0 : q -> q

val qzero : q -> bool

val qhalf : q

val q_insert : monomial -> q -> q poly -> q poly

val q_padd : q poly -> q poly -> q poly

val q_psub : q poly -> q poly -> q poly

val q_pneg : q poly -> q poly

val q_pscale : q -> q poly -> q poly

val q_padd_const : q -> q poly -> q poly

val q_psub_const : q -> q poly -> q poly

val q_pmul : q poly -> q poly -> q poly outcome

val q_commutator : q poly -> q poly -> q poly outcome

val q_anticommutator : q poly -> q poly -> q poly outcome

val q_poly_eq : bool -> q poly -> q poly -> bool outcome

val q_commutes : bool -> q poly -> q poly -> bool outcome

val q_c : int -> q poly

val q_cdag : int -> q poly

val q_n : int -> q poly

val q_n_offdiag : int -> int -> q poly

val q_N : int -> q poly

val q_Sz : int -> int list -> q poly outcome

val q_act : q poly -> state -> (state * q) list outcome

val q_normalize : monomial -> q -> q poly -> q poly outcome
