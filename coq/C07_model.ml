
(** val xorb : bool -> bool -> bool **)

let xorb b1 b2 =
  if b1 then if b2 then false else true else b2

(** val negb : bool -> bool **)

let negb = function
| true -> false
| false -> true

(** val fst : ('a1 * 'a2) -> 'a1 **)

let fst = function
| (x, _) -> x

(** val snd : ('a1 * 'a2) -> 'a2 **)

let snd = function
| (_, y) -> y

(** val length : 'a1 list -> int **)

let rec length = function
| [] -> 0
| _ :: l' -> Stdlib.Int.succ (length l')

(** val app : 'a1 list -> 'a1 list -> 'a1 list **)

let rec app l m =
  match l with
  | [] -> m
  | a :: l1 -> a :: (app l1 m)

type comparison =
| Eq
| Lt
| Gt

module Coq__1 = struct
 (** val add : int -> int -> int **)let rec add = (+)
end
include Coq__1

(** val mul : int -> int -> int **)

let rec mul = ( * )

type positive =
| XI of positive
| XO of positive
| XH

type z =
| Z0
| Zpos of positive
| Zneg of positive

(** val eqb : bool -> bool -> bool **)

let eqb b1 b2 =
  if b1 then b2 else if b2 then false else true

module Nat =
 struct
  (** val add : int -> int -> int **)

  let rec add n m =
    (fun fO fS n -> if n=0 then fO () else fS (n-1))
      (fun _ -> m)
      (fun p -> Stdlib.Int.succ (add p m))
      n

  (** val mul : int -> int -> int **)

  let rec mul n m =
    (fun fO fS n -> if n=0 then fO () else fS (n-1))
      (fun _ -> 0)
      (fun p -> add m (mul p m))
      n

  (** val ltb : int -> int -> bool **)

  let ltb n m =
    (<=) (Stdlib.Int.succ n) m

  (** val compare : int -> int -> comparison **)

  let rec compare = fun n m -> if n=m then Eq else if n<m then Lt else Gt

  (** val min : int -> int -> int **)

  let rec min n m =
    (fun fO fS n -> if n=0 then fO () else fS (n-1))
      (fun _ -> 0)
      (fun n' ->
      (fun fO fS n -> if n=0 then fO () else fS (n-1))
        (fun _ -> 0)
        (fun m' -> Stdlib.Int.succ (min n' m'))
        m)
      n

  (** val even : int -> bool **)

  let rec even n =
    (fun fO fS n -> if n=0 then fO () else fS (n-1))
      (fun _ -> true)
      (fun n0 ->
      (fun fO fS n -> if n=0 then fO () else fS (n-1))
        (fun _ -> false)
        (fun n' -> even n')
        n0)
      n

  (** val odd : int -> bool **)

  let odd n =
    negb (even n)

  (** val pow : int -> int -> int **)

  let rec pow n m =
    (fun fO fS n -> if n=0 then fO () else fS (n-1))
      (fun _ -> Stdlib.Int.succ 0)
      (fun m0 -> mul n (pow n m0))
      m

  (** val div2 : int -> int **)

  let rec div2 = fun n -> n/2
 end

module Pos =
 struct
  type mask =
  | IsNul
  | IsPos of positive
  | IsNeg
 end

module Coq_Pos =
 struct
  (** val succ : positive -> positive **)

  let rec succ = function
  | XI p -> XO (succ p)
  | XO p -> XI p
  | XH -> XO XH

  (** val add : positive -> positive -> positive **)

  let rec add x y =
    match x with
    | XI p ->
      (match y with
       | XI q0 -> XO (add_carry p q0)
       | XO q0 -> XI (add p q0)
       | XH -> XO (succ p))
    | XO p ->
      (match y with
       | XI q0 -> XI (add p q0)
       | XO q0 -> XO (add p q0)
       | XH -> XI p)
    | XH -> (match y with
             | XI q0 -> XO (succ q0)
             | XO q0 -> XI q0
             | XH -> XO XH)

  (** val add_carry : positive -> positive -> positive **)

  and add_carry x y =
    match x with
    | XI p ->
      (match y with
       | XI q0 -> XI (add_carry p q0)
       | XO q0 -> XO (add_carry p q0)
       | XH -> XI (succ p))
    | XO p ->
      (match y with
       | XI q0 -> XO (add_carry p q0)
       | XO q0 -> XI (add p q0)
       | XH -> XO (succ p))
    | XH ->
      (match y with
       | XI q0 -> XI (succ q0)
       | XO q0 -> XO (succ q0)
       | XH -> XI XH)

  (** val pred_double : positive -> positive **)

  let rec pred_double = function
  | XI p -> XI (XO p)
  | XO p -> XI (pred_double p)
  | XH -> XH

  type mask = Pos.mask =
  | IsNul
  | IsPos of positive
  | IsNeg

  (** val succ_double_mask : mask -> mask **)

  let succ_double_mask = function
  | IsNul -> IsPos XH
  | IsPos p -> IsPos (XI p)
  | IsNeg -> IsNeg

  (** val double_mask : mask -> mask **)

  let double_mask = function
  | IsPos p -> IsPos (XO p)
  | x0 -> x0

  (** val double_pred_mask : positive -> mask **)

  let double_pred_mask = function
  | XI p -> IsPos (XO (XO p))
  | XO p -> IsPos (XO (pred_double p))
  | XH -> IsNul

  (** val sub_mask : positive -> positive -> mask **)

  let rec sub_mask x y =
    match x with
    | XI p ->
      (match y with
       | XI q0 -> double_mask (sub_mask p q0)
       | XO q0 -> succ_double_mask (sub_mask p q0)
       | XH -> IsPos (XO p))
    | XO p ->
      (match y with
       | XI q0 -> succ_double_mask (sub_mask_carry p q0)
       | XO q0 -> double_mask (sub_mask p q0)
       | XH -> IsPos (pred_double p))
    | XH -> (match y with
             | XH -> IsNul
             | _ -> IsNeg)

  (** val sub_mask_carry : positive -> positive -> mask **)

  and sub_mask_carry x y =
    match x with
    | XI p ->
      (match y with
       | XI q0 -> succ_double_mask (sub_mask_carry p q0)
       | XO q0 -> double_mask (sub_mask p q0)
       | XH -> IsPos (pred_double p))
    | XO p ->
      (match y with
       | XI q0 -> double_mask (sub_mask_carry p q0)
       | XO q0 -> succ_double_mask (sub_mask_carry p q0)
       | XH -> double_pred_mask p)
    | XH -> IsNeg

  (** val sub : positive -> positive -> positive **)

  let sub x y =
    match sub_mask x y with
    | IsPos z0 -> z0
    | _ -> XH

  (** val mul : positive -> positive -> positive **)

  let rec mul x y =
    match x with
    | XI p -> add y (XO (mul p y))
    | XO p -> XO (mul p y)
    | XH -> y

  (** val size_nat : positive -> int **)

  let rec size_nat = function
  | XI p0 -> Stdlib.Int.succ (size_nat p0)
  | XO p0 -> Stdlib.Int.succ (size_nat p0)
  | XH -> Stdlib.Int.succ 0

  (** val compare_cont : comparison -> positive -> positive -> comparison **)

  let rec compare_cont r x y =
    match x with
    | XI p ->
      (match y with
       | XI q0 -> compare_cont r p q0
       | XO q0 -> compare_cont Gt p q0
       | XH -> Gt)
    | XO p ->
      (match y with
       | XI q0 -> compare_cont Lt p q0
       | XO q0 -> compare_cont r p q0
       | XH -> Gt)
    | XH -> (match y with
             | XH -> r
             | _ -> Lt)

  (** val compare : positive -> positive -> comparison **)

  let compare =
    compare_cont Eq

  (** val eqb : positive -> positive -> bool **)

  let rec eqb p q0 =
    match p with
    | XI p0 -> (match q0 with
                | XI q1 -> eqb p0 q1
                | _ -> false)
    | XO p0 -> (match q0 with
                | XO q1 -> eqb p0 q1
                | _ -> false)
    | XH -> (match q0 with
             | XH -> true
             | _ -> false)

  (** val ggcdn :
      int -> positive -> positive -> positive * (positive * positive) **)

  let rec ggcdn n a b =
    (fun fO fS n -> if n=0 then fO () else fS (n-1))
      (fun _ -> (XH, (a, b)))
      (fun n0 ->
      match a with
      | XI a' ->
        (match b with
         | XI b' ->
           (match compare a' b' with
            | Eq -> (a, (XH, XH))
            | Lt ->
              let (g, p) = ggcdn n0 (sub b' a') a in
              let (ba, aa) = p in (g, (aa, (add aa (XO ba))))
            | Gt ->
              let (g, p) = ggcdn n0 (sub a' b') b in
              let (ab, bb) = p in (g, ((add bb (XO ab)), bb)))
         | XO b0 ->
           let (g, p) = ggcdn n0 a b0 in
           let (aa, bb) = p in (g, (aa, (XO bb)))
         | XH -> (XH, (a, XH)))
      | XO a0 ->
        (match b with
         | XI _ ->
           let (g, p) = ggcdn n0 a0 b in
           let (aa, bb) = p in (g, ((XO aa), bb))
         | XO b0 -> let (g, p) = ggcdn n0 a0 b0 in ((XO g), p)
         | XH -> (XH, (a, XH)))
      | XH -> (XH, (XH, b)))
      n

  (** val ggcd : positive -> positive -> positive * (positive * positive) **)

  let ggcd a b =
    ggcdn (Coq__1.add (size_nat a) (size_nat b)) a b
 end

module Z =
 struct
  (** val double : z -> z **)

  let double = function
  | Z0 -> Z0
  | Zpos p -> Zpos (XO p)
  | Zneg p -> Zneg (XO p)

  (** val succ_double : z -> z **)

  let succ_double = function
  | Z0 -> Zpos XH
  | Zpos p -> Zpos (XI p)
  | Zneg p -> Zneg (Coq_Pos.pred_double p)

  (** val pred_double : z -> z **)

  let pred_double = function
  | Z0 -> Zneg XH
  | Zpos p -> Zpos (Coq_Pos.pred_double p)
  | Zneg p -> Zneg (XI p)

  (** val pos_sub : positive -> positive -> z **)

  let rec pos_sub x y =
    match x with
    | XI p ->
      (match y with
       | XI q0 -> double (pos_sub p q0)
       | XO q0 -> succ_double (pos_sub p q0)
       | XH -> Zpos (XO p))
    | XO p ->
      (match y with
       | XI q0 -> pred_double (pos_sub p q0)
       | XO q0 -> double (pos_sub p q0)
       | XH -> Zpos (Coq_Pos.pred_double p))
    | XH ->
      (match y with
       | XI q0 -> Zneg (XO q0)
       | XO q0 -> Zneg (Coq_Pos.pred_double q0)
       | XH -> Z0)

  (** val add : z -> z -> z **)

  let add x y =
    match x with
    | Z0 -> y
    | Zpos x' ->
      (match y with
       | Z0 -> x
       | Zpos y' -> Zpos (Coq_Pos.add x' y')
       | Zneg y' -> pos_sub x' y')
    | Zneg x' ->
      (match y with
       | Z0 -> x
       | Zpos y' -> pos_sub y' x'
       | Zneg y' -> Zneg (Coq_Pos.add x' y'))

  (** val opp : z -> z **)

  let opp = function
  | Z0 -> Z0
  | Zpos x0 -> Zneg x0
  | Zneg x0 -> Zpos x0

  (** val mul : z -> z -> z **)

  let mul x y =
    match x with
    | Z0 -> Z0
    | Zpos x' ->
      (match y with
       | Z0 -> Z0
       | Zpos y' -> Zpos (Coq_Pos.mul x' y')
       | Zneg y' -> Zneg (Coq_Pos.mul x' y'))
    | Zneg x' ->
      (match y with
       | Z0 -> Z0
       | Zpos y' -> Zneg (Coq_Pos.mul x' y')
       | Zneg y' -> Zpos (Coq_Pos.mul x' y'))

  (** val sgn : z -> z **)

  let sgn = function
  | Z0 -> Z0
  | Zpos _ -> Zpos XH
  | Zneg _ -> Zneg XH

  (** val eqb : z -> z -> bool **)

  let eqb x y =
    match x with
    | Z0 -> (match y with
             | Z0 -> true
             | _ -> false)
    | Zpos p -> (match y with
                 | Zpos q0 -> Coq_Pos.eqb p q0
                 | _ -> false)
    | Zneg p -> (match y with
                 | Zneg q0 -> Coq_Pos.eqb p q0
                 | _ -> false)

  (** val abs : z -> z **)

  let abs = function
  | Zneg p -> Zpos p
  | x -> x

  (** val to_pos : z -> positive **)

  let to_pos = function
  | Zpos p -> p
  | _ -> XH

  (** val ggcd : z -> z -> z * (z * z) **)

  let ggcd a b =
    match a with
    | Z0 -> ((abs b), (Z0, (sgn b)))
    | Zpos a0 ->
      (match b with
       | Z0 -> ((abs a), ((sgn a), Z0))
       | Zpos b0 ->
         let (g, p) = Coq_Pos.ggcd a0 b0 in
         let (aa, bb) = p in ((Zpos g), ((Zpos aa), (Zpos bb)))
       | Zneg b0 ->
         let (g, p) = Coq_Pos.ggcd a0 b0 in
         let (aa, bb) = p in ((Zpos g), ((Zpos aa), (Zneg bb))))
    | Zneg a0 ->
      (match b with
       | Z0 -> ((abs a), ((sgn a), Z0))
       | Zpos b0 ->
         let (g, p) = Coq_Pos.ggcd a0 b0 in
         let (aa, bb) = p in ((Zpos g), ((Zneg aa), (Zpos bb)))
       | Zneg b0 ->
         let (g, p) = Coq_Pos.ggcd a0 b0 in
         let (aa, bb) = p in ((Zpos g), ((Zneg aa), (Zneg bb))))
 end

(** val nth : int -> 'a1 list -> 'a1 -> 'a1 **)

let rec nth n l default =
  (fun fO fS n -> if n=0 then fO () else fS (n-1))
    (fun _ -> match l with
              | [] -> default
              | x :: _ -> x)
    (fun m -> match l with
              | [] -> default
              | _ :: t -> nth m t default)
    n

(** val nth_error : 'a1 list -> int -> 'a1 option **)

let rec nth_error l n =
  (fun fO fS n -> if n=0 then fO () else fS (n-1))
    (fun _ -> match l with
              | [] -> None
              | x :: _ -> Some x)
    (fun n0 -> match l with
               | [] -> None
               | _ :: l0 -> nth_error l0 n0)
    n

(** val rev : 'a1 list -> 'a1 list **)

let rec rev = function
| [] -> []
| x :: l' -> app (rev l') (x :: [])

(** val map : ('a1 -> 'a2) -> 'a1 list -> 'a2 list **)

let rec map f = function
| [] -> []
| a :: t -> (f a) :: (map f t)

(** val fold_left : ('a1 -> 'a2 -> 'a1) -> 'a2 list -> 'a1 -> 'a1 **)

let rec fold_left f l a0 =
  match l with
  | [] -> a0
  | b :: t -> fold_left f t (f a0 b)

(** val fold_right : ('a2 -> 'a1 -> 'a1) -> 'a1 -> 'a2 list -> 'a1 **)

let rec fold_right f a0 = function
| [] -> a0
| b :: t -> f b (fold_right f a0 t)

(** val existsb : ('a1 -> bool) -> 'a1 list -> bool **)

let rec existsb f = function
| [] -> false
| a :: l0 -> (||) (f a) (existsb f l0)

(** val forallb : ('a1 -> bool) -> 'a1 list -> bool **)

let rec forallb f = function
| [] -> true
| a :: l0 -> (&&) (f a) (forallb f l0)

(** val filter : ('a1 -> bool) -> 'a1 list -> 'a1 list **)

let rec filter f = function
| [] -> []
| x :: l0 -> if f x then x :: (filter f l0) else filter f l0

(** val combine : 'a1 list -> 'a2 list -> ('a1 * 'a2) list **)

let rec combine l l' =
  match l with
  | [] -> []
  | x :: tl ->
    (match l' with
     | [] -> []
     | y :: tl' -> (x, y) :: (combine tl tl'))

(** val seq : int -> int -> int list **)

let rec seq start len =
  (fun fO fS n -> if n=0 then fO () else fS (n-1))
    (fun _ -> [])
    (fun len0 -> start :: (seq (Stdlib.Int.succ start) len0))
    len

(** val repeat : 'a1 -> int -> 'a1 list **)

let rec repeat x n =
  (fun fO fS n -> if n=0 then fO () else fS (n-1))
    (fun _ -> [])
    (fun k -> x :: (repeat x k))
    n

type q = { qnum : z; qden : positive }

(** val qplus : q -> q -> q **)

let qplus x y =
  { qnum = (Z.add (Z.mul x.qnum (Zpos y.qden)) (Z.mul y.qnum (Zpos x.qden)));
    qden = (Coq_Pos.mul x.qden y.qden) }

(** val qmult : q -> q -> q **)

let qmult x y =
  { qnum = (Z.mul x.qnum y.qnum); qden = (Coq_Pos.mul x.qden y.qden) }

(** val qopp : q -> q **)

let qopp x =
  { qnum = (Z.opp x.qnum); qden = x.qden }

(** val qminus : q -> q -> q **)

let qminus x y =
  qplus x (qopp y)

(** val qred : q -> q **)

let qred q0 =
  let { qnum = q1; qden = q2 } = q0 in
  let (r1, r2) = snd (Z.ggcd q1 (Zpos q2)) in
  { qnum = r1; qden = (Z.to_pos r2) }

type 'a outcome =
| Done of 'a
| OOB
| Uninit
| Throws of int
| OutOfFuel

(** val bind : 'a1 outcome -> ('a1 -> 'a2 outcome) -> 'a2 outcome **)

let bind x f =
  match x with
  | Done a -> f a
  | OOB -> OOB
  | Uninit -> Uninit
  | Throws c -> Throws c
  | OutOfFuel -> OutOfFuel

type op = bool * int

(** val op_ann : op -> bool **)

let op_ann =
  fst

(** val op_idx : op -> int **)

let op_idx =
  snd

(** val cdag : int -> op **)

let cdag i =
  (false, i)

(** val cann : int -> op **)

let cann i =
  (true, i)

(** val flip_type : op -> op **)

let flip_type o =
  ((negb (fst o)), (snd o))

type state = bool list

(** val upd : int -> bool -> state -> state **)

let rec upd i v = function
| [] -> []
| b :: t ->
  ((fun fO fS n -> if n=0 then fO () else fS (n-1))
     (fun _ -> v :: t)
     (fun j -> b :: (upd j v t))
     i)

(** val par : int -> state -> bool **)

let rec par n s =
  (fun fO fS n -> if n=0 then fO () else fS (n-1))
    (fun _ -> false)
    (fun m -> match s with
              | [] -> false
              | b :: t -> xorb b (par m t))
    n

(** val act_op : op -> state -> (bool * state) option outcome **)

let act_op o s =
  let i = op_idx o in
  if Nat.ltb i (length s)
  then let occ = nth i s false in
       if eqb occ (negb (op_ann o))
       then Done None
       else Done (Some ((par i s), (upd i (negb (op_ann o)) s)))
  else OOB

(** val act_mono : op list -> state -> (bool * state) option outcome **)

let rec act_mono m s =
  match m with
  | [] -> Done (Some (false, s))
  | o :: rest ->
    (match act_mono rest s with
     | Done a ->
       (match a with
        | Some p ->
          let (sg, s') = p in
          (match act_op o s' with
           | Done a0 ->
             (match a0 with
              | Some p0 ->
                let (sg', s'') = p0 in Done (Some ((xorb sg sg'), s''))
              | None -> Done None)
           | x -> x)
        | None -> Done None)
     | x -> x)

(** val state_of_nat : int -> int -> state **)

let rec state_of_nat m n =
  (fun fO fS n -> if n=0 then fO () else fS (n-1))
    (fun _ -> [])
    (fun m' -> (Nat.odd n) :: (state_of_nat m' (Nat.div2 n)))
    m

(** val nat_of_state : state -> int **)

let rec nat_of_state = function
| [] -> 0
| b :: t ->
  add (if b then Stdlib.Int.succ 0 else 0)
    (mul (Stdlib.Int.succ (Stdlib.Int.succ 0)) (nat_of_state t))

(** val op_compare : op -> op -> comparison **)

let op_compare a b =
  if fst a
  then if fst b then Nat.compare (snd a) (snd b) else Gt
  else if fst b then Lt else Nat.compare (snd a) (snd b)

(** val op_eqb : op -> op -> bool **)

let op_eqb a b =
  match op_compare a b with
  | Eq -> true
  | _ -> false

(** val op_gtb : op -> op -> bool **)

let op_gtb a b =
  match op_compare a b with
  | Gt -> true
  | _ -> false

type monomial = op list

(** val lex_compare : monomial -> monomial -> comparison **)

let rec lex_compare a b =
  match a with
  | [] -> (match b with
           | [] -> Eq
           | _ :: _ -> Lt)
  | x :: a' ->
    (match b with
     | [] -> Gt
     | y :: b' ->
       (match op_compare x y with
        | Eq -> lex_compare a' b'
        | x0 -> x0))

(** val mono_compare : monomial -> monomial -> comparison **)

let mono_compare a b =
  match Nat.compare (length a) (length b) with
  | Eq -> lex_compare a b
  | x -> x

type 'k poly = (monomial * 'k) list

(** val insert :
    ('a1 -> 'a1 -> 'a1) -> ('a1 -> bool) -> monomial -> 'a1 -> 'a1 poly ->
    'a1 poly **)

let rec insert kadd kzero m c p = match p with
| [] -> (m, c) :: []
| p0 :: t ->
  let (m', c') = p0 in
  (match mono_compare m m' with
   | Eq -> let s = kadd c' c in if kzero s then t else (m', s) :: t
   | Lt -> (m, c) :: p
   | Gt -> (m', c') :: (insert kadd kzero m c t))

(** val insert_sub :
    ('a1 -> 'a1 -> 'a1) -> ('a1 -> 'a1) -> ('a1 -> bool) -> monomial -> 'a1
    -> 'a1 poly -> 'a1 poly **)

let rec insert_sub ksub kopp kzero m c p = match p with
| [] -> (m, (kopp c)) :: []
| p0 :: t ->
  let (m', c') = p0 in
  (match mono_compare m m' with
   | Eq -> let s = ksub c' c in if kzero s then t else (m', s) :: t
   | Lt -> (m, (kopp c)) :: p
   | Gt -> (m', c') :: (insert_sub ksub kopp kzero m c t))

type 'k pass_result =
| PassVanish of 'k poly
| PassEnd of monomial * 'k * 'k poly * bool
| PassFail of 'k poly outcome

(** val pass :
    ('a1 -> 'a1) -> (monomial -> 'a1 -> 'a1 poly -> 'a1 poly outcome) -> op
    list -> op -> op list -> 'a1 -> 'a1 poly -> bool -> 'a1 pass_result **)

let rec pass kopp rec0 done_rev prev rest c tgt swapped =
  match rest with
  | [] -> PassEnd ((rev (prev :: done_rev)), c, tgt, swapped)
  | cur :: rest' ->
    if op_eqb prev cur
    then PassVanish tgt
    else if op_gtb prev cur
         then let r =
                if op_eqb prev (flip_type cur)
                then rec0 (app (rev done_rev) rest') c tgt
                else Done tgt
              in
              (match r with
               | Done tgt' ->
                 pass kopp rec0 (cur :: done_rev) prev rest' (kopp c) tgt'
                   true
               | _ -> PassFail r)
         else pass kopp rec0 (prev :: done_rev) cur rest' c tgt swapped

(** val normalize_and_insert :
    ('a1 -> 'a1 -> 'a1) -> ('a1 -> 'a1) -> ('a1 -> bool) -> int -> monomial
    -> 'a1 -> 'a1 poly -> 'a1 poly outcome **)

let rec normalize_and_insert kadd kopp kzero fuel m c tgt =
  (fun fO fS n -> if n=0 then fO () else fS (n-1))
    (fun _ -> OutOfFuel)
    (fun f ->
    match m with
    | [] -> Done (insert kadd kzero m c tgt)
    | first :: rest ->
      (match rest with
       | [] -> Done (insert kadd kzero m c tgt)
       | _ :: _ ->
         (match pass kopp (normalize_and_insert kadd kopp kzero f) [] first
                  rest c tgt false with
          | PassVanish tgt' -> Done tgt'
          | PassEnd (m', c', tgt', swapped) ->
            if swapped
            then normalize_and_insert kadd kopp kzero f m' c' tgt'
            else Done (insert kadd kzero m' c' tgt')
          | PassFail e -> e)))
    fuel

(** val fuel_for : monomial -> int **)

let fuel_for m =
  add (mul (Stdlib.Int.succ (length m)) (Stdlib.Int.succ (length m)))
    (Stdlib.Int.succ (Stdlib.Int.succ 0))

(** val normalize :
    ('a1 -> 'a1 -> 'a1) -> ('a1 -> 'a1) -> ('a1 -> bool) -> monomial -> 'a1
    -> 'a1 poly -> 'a1 poly outcome **)

let normalize kadd kopp kzero m c tgt =
  normalize_and_insert kadd kopp kzero (fuel_for m) m c tgt

(** val padd :
    ('a1 -> 'a1 -> 'a1) -> ('a1 -> bool) -> 'a1 poly -> 'a1 poly -> 'a1 poly **)

let padd kadd kzero a b =
  fold_left (fun acc mc -> insert kadd kzero (fst mc) (snd mc) acc) b a

(** val psub :
    ('a1 -> 'a1 -> 'a1) -> ('a1 -> 'a1) -> ('a1 -> bool) -> 'a1 poly -> 'a1
    poly -> 'a1 poly **)

let psub ksub kopp kzero a b =
  fold_left (fun acc mc -> insert_sub ksub kopp kzero (fst mc) (snd mc) acc)
    b a

(** val pscale :
    ('a1 -> 'a1 -> 'a1) -> ('a1 -> bool) -> 'a1 -> 'a1 poly -> 'a1 poly **)

let pscale kmul kzero alpha a =
  if kzero alpha
  then []
  else map (fun mc -> ((fst mc), (kmul (snd mc) alpha))) a

(** val pmul :
    ('a1 -> 'a1 -> 'a1) -> ('a1 -> 'a1 -> 'a1) -> ('a1 -> 'a1) -> ('a1 ->
    bool) -> 'a1 poly -> 'a1 poly -> 'a1 poly outcome **)

let pmul kadd kmul kopp kzero a b =
  fold_left (fun acc mc ->
    fold_left (fun acc' mc' ->
      bind acc' (fun t ->
        normalize kadd kopp kzero (app (fst mc) (fst mc'))
          (kmul (snd mc) (snd mc')) t)) b acc) a (Done [])

(** val commutator :
    ('a1 -> 'a1 -> 'a1) -> ('a1 -> 'a1 -> 'a1) -> ('a1 -> 'a1 -> 'a1) -> ('a1
    -> 'a1) -> ('a1 -> bool) -> 'a1 poly -> 'a1 poly -> 'a1 poly outcome **)

let commutator kadd kmul ksub kopp kzero a b =
  bind (pmul kadd kmul kopp kzero a b) (fun ab ->
    bind (pmul kadd kmul kopp kzero b a) (fun ba -> Done
      (psub ksub kopp kzero ab ba)))

(** val prefix_equal : monomial -> monomial -> bool outcome **)

let rec prefix_equal a b =
  match a with
  | [] -> Done true
  | x :: a' ->
    (match b with
     | [] -> OOB
     | y :: b' -> if op_eqb x y then prefix_equal a' b' else Done false)

(** val mono_eqb : monomial -> monomial -> bool **)

let rec mono_eqb a b =
  match a with
  | [] -> (match b with
           | [] -> true
           | _ :: _ -> false)
  | x :: a' ->
    (match b with
     | [] -> false
     | y :: b' -> (&&) (op_eqb x y) (mono_eqb a' b'))

(** val entry_eq :
    ('a1 -> 'a1 -> 'a1) -> ('a1 -> bool) -> bool -> (monomial * 'a1) ->
    (monomial * 'a1) -> bool outcome **)

let entry_eq ksub kzero sized l r =
  if sized
  then Done ((&&) (mono_eqb (fst l) (fst r)) (kzero (ksub (snd r) (snd l))))
  else bind (prefix_equal (fst l) (fst r)) (fun b -> Done
         ((&&) b (kzero (ksub (snd r) (snd l)))))

(** val entries_equal :
    ('a1 -> 'a1 -> 'a1) -> ('a1 -> bool) -> bool -> 'a1 poly -> 'a1 poly ->
    bool outcome **)

let rec entries_equal ksub kzero sized a b =
  match a with
  | [] -> Done true
  | x :: a' ->
    (match b with
     | [] -> OOB
     | y :: b' ->
       bind (entry_eq ksub kzero sized x y) (fun e ->
         if e then entries_equal ksub kzero sized a' b' else Done false))

(** val poly_eq :
    ('a1 -> 'a1 -> 'a1) -> ('a1 -> bool) -> bool -> 'a1 poly -> 'a1 poly ->
    bool outcome **)

let poly_eq ksub kzero sized a b =
  if (=) (length a) (length b)
  then entries_equal ksub kzero sized a b
  else Done false

(** val commutes :
    ('a1 -> 'a1 -> 'a1) -> ('a1 -> 'a1 -> 'a1) -> ('a1 -> 'a1 -> 'a1) -> ('a1
    -> 'a1) -> ('a1 -> bool) -> bool -> 'a1 poly -> 'a1 poly -> bool outcome **)

let commutes kadd kmul ksub kopp kzero sized a b =
  bind (pmul kadd kmul kopp kzero a b) (fun ab ->
    bind (pmul kadd kmul kopp kzero b a) (fun ba ->
      poly_eq ksub kzero sized ab ba))

(** val p_c : 'a1 -> int -> 'a1 poly **)

let p_c k1 i =
  (((cann i) :: []), k1) :: []

(** val p_cdag : 'a1 -> int -> 'a1 poly **)

let p_cdag k1 i =
  (((cdag i) :: []), k1) :: []

(** val p_n : 'a1 -> int -> 'a1 poly **)

let p_n k1 i =
  (((cdag i) :: ((cann i) :: [])), k1) :: []

(** val p_n_offdiag : 'a1 -> int -> int -> 'a1 poly **)

let p_n_offdiag k1 i j =
  (((cdag i) :: ((cann j) :: [])), k1) :: []

(** val p_N :
    'a1 -> ('a1 -> 'a1 -> 'a1) -> ('a1 -> bool) -> int -> 'a1 poly **)

let p_N k1 kadd kzero m =
  fold_left (fun acc i -> padd kadd kzero acc (p_n k1 i)) (seq 0 m) []

(** val sz_down : int -> int list -> int list **)

let sz_down m ups =
  filter (fun i -> negb (existsb ((=) i) ups)) (seq 0 m)

(** val p_Sz_lists :
    'a1 -> ('a1 -> 'a1 -> 'a1) -> ('a1 -> 'a1 -> 'a1) -> ('a1 -> 'a1 -> 'a1)
    -> ('a1 -> 'a1) -> ('a1 -> bool) -> 'a1 -> int list -> int list -> 'a1
    poly outcome **)

let p_Sz_lists k1 kadd kmul ksub kopp kzero khalf ups downs =
  if (=) (length ups) (length downs)
  then Done
         (fold_left (fun acc ud ->
           psub ksub kopp kzero
             (padd kadd kzero acc (pscale kmul kzero khalf (p_n k1 (fst ud))))
             (pscale kmul kzero khalf (p_n k1 (snd ud)))) (combine ups downs)
           [])
  else Throws (Stdlib.Int.succ 0)

(** val p_Sz :
    'a1 -> ('a1 -> 'a1 -> 'a1) -> ('a1 -> 'a1 -> 'a1) -> ('a1 -> 'a1 -> 'a1)
    -> ('a1 -> 'a1) -> ('a1 -> bool) -> 'a1 -> int -> int list -> 'a1 poly
    outcome **)

let p_Sz k1 kadd kmul ksub kopp kzero khalf m ups =
  p_Sz_lists k1 kadd kmul ksub kopp kzero khalf ups (sz_down m ups)

(** val lc_add :
    ('a1 -> 'a1 -> 'a1) -> state -> 'a1 -> (state * 'a1) list ->
    (state * 'a1) list **)

let rec lc_add kadd s c = function
| [] -> (s, c) :: []
| p :: t ->
  let (s', c') = p in
  if (=) (nat_of_state s) (nat_of_state s')
  then (s', (kadd c' c)) :: t
  else (s', c') :: (lc_add kadd s c t)

(** val act_poly :
    ('a1 -> 'a1 -> 'a1) -> ('a1 -> 'a1) -> 'a1 poly -> state -> (state * 'a1)
    list outcome **)

let act_poly kadd kopp p ket =
  fold_left (fun acc mc ->
    bind acc (fun l ->
      match act_mono (fst mc) ket with
      | Done a ->
        (match a with
         | Some p0 ->
           let (sg, s') = p0 in
           Done (lc_add kadd s' (if sg then kopp (snd mc) else snd mc) l)
         | None -> Done l)
      | OOB -> OOB
      | Uninit -> Uninit
      | Throws c -> Throws c
      | OutOfFuel -> OutOfFuel)) p (Done [])

(** val qadd : q -> q -> q **)

let qadd a b =
  qred (qplus a b)

(** val qmul : q -> q -> q **)

let qmul a b =
  qred (qmult a b)

(** val qsub : q -> q -> q **)

let qsub a b =
  qred (qminus a b)

(** val qopp0 : q -> q **)

let qopp0 a =
  qred (qopp a)

(** val qzero : q -> bool **)

let qzero a =
  Z.eqb a.qnum Z0

(** val qhalf : q **)

let qhalf =
  { qnum = (Zpos XH); qden = (XO XH) }

(** val q_insert : monomial -> q -> q poly -> q poly **)

let q_insert =
  insert qadd qzero

(** val q_c : int -> q poly **)

let q_c =
  p_c { qnum = (Zpos XH); qden = XH }

(** val q_cdag : int -> q poly **)

let q_cdag =
  p_cdag { qnum = (Zpos XH); qden = XH }

(** val q_n_offdiag : int -> int -> q poly **)

let q_n_offdiag =
  p_n_offdiag { qnum = (Zpos XH); qden = XH }

(** val q_act : q poly -> state -> (state * q) list outcome **)

let q_act =
  act_poly qadd qopp0

(** val push_at : int -> int -> int list list -> int list list outcome **)

let rec push_at b s = function
| [] -> OOB
| l :: t ->
  ((fun fO fS n -> if n=0 then fO () else fS (n-1))
     (fun _ -> Done ((app l (s :: [])) :: t))
     (fun b' -> match push_at b' s t with
                | Done t' -> Done (l :: t')
                | x -> x)
     b)

(** val index_of : int -> int list -> int -> int option **)

let rec index_of s l n =
  match l with
  | [] -> None
  | x :: r -> if (=) x s then Some n else index_of s r (Stdlib.Int.succ n)

(** val map_set : int -> int -> (int * int) list -> (int * int) list **)

let rec map_set k v = function
| [] -> (k, v) :: []
| p :: t ->
  let (k', v') = p in
  if (=) k' k then (k, v) :: t else (k', v') :: (map_set k v t)

type bimap = (int * int) list

(** val bimap_insert : int -> int -> bimap -> bimap **)

let bimap_insert l r bm =
  if existsb (fun lr -> (||) ((=) (fst lr) l) ((=) (snd lr) r)) bm
  then bm
  else app bm ((l, r) :: [])

(** val ins_by : ('a1 -> int) -> 'a1 -> 'a1 list -> 'a1 list **)

let rec ins_by key x l = match l with
| [] -> x :: []
| y :: t -> if (<=) (key x) (key y) then x :: l else y :: (ins_by key x t)

(** val sort_by : ('a1 -> int) -> 'a1 list -> 'a1 list **)

let sort_by key l =
  fold_right (ins_by key) [] l

(** val left_view : bimap -> (int * int) list **)

let left_view bm =
  sort_by fst bm

(** val right_view : bimap -> (int * int) list **)

let right_view bm =
  sort_by snd bm

(** val zeros : int -> state **)

let zeros n =
  repeat false n

type 'key sclass = { sc_q2b : ('key * int) list; sc_b2q : (int * 'key) list;
                     sc_blocks : int list list; sc_sbi : int list }

(** val sc_empty : 'a1 sclass **)

let sc_empty =
  { sc_q2b = []; sc_b2q = []; sc_blocks = []; sc_sbi = [] }

(** val q2b_find :
    ('a1 -> 'a1 -> bool) -> 'a1 -> ('a1 * int) list -> int option **)

let rec q2b_find keq q0 = function
| [] -> None
| p :: t -> let (q', b) = p in if keq q0 q' then Some b else q2b_find keq q0 t

(** val sc_step :
    ('a1 -> 'a1 -> bool) -> (int -> 'a1 outcome) -> ('a1 sclass * int) -> int
    -> ('a1 sclass * int) outcome **)

let sc_step keq key acc s =
  let c = fst acc in
  let bi = snd acc in
  bind (key s) (fun q0 ->
    match q2b_find keq q0 c.sc_q2b with
    | Some b ->
      bind (push_at b s c.sc_blocks) (fun blocks' -> Done ({ sc_q2b =
        c.sc_q2b; sc_b2q = c.sc_b2q; sc_blocks = blocks'; sc_sbi =
        (app c.sc_sbi (b :: [])) }, bi))
    | None ->
      bind (push_at bi s (app c.sc_blocks ([] :: []))) (fun blocks' -> Done
        ({ sc_q2b = (app c.sc_q2b ((q0, bi) :: [])); sc_b2q =
        (app c.sc_b2q ((bi, q0) :: [])); sc_blocks = blocks'; sc_sbi =
        (app c.sc_sbi (bi :: [])) }, (Stdlib.Int.succ bi))))

(** val sc_loop :
    ('a1 -> 'a1 -> bool) -> (int -> 'a1 outcome) -> int list -> ('a1
    sclass * int) -> ('a1 sclass * int) outcome **)

let rec sc_loop keq key l acc =
  match l with
  | [] -> Done acc
  | s :: r -> bind (sc_step keq key acc s) (sc_loop keq key r)

(** val sc_compute_gen :
    ('a1 -> 'a1 -> bool) -> (int -> 'a1 outcome) -> int -> 'a1 sclass outcome **)

let sc_compute_gen keq key stateSize =
  bind (sc_loop keq key (seq 0 stateSize) (sc_empty, 0)) (fun a -> Done
    (fst a))

(** val getBlockNumber : int -> 'a1 sclass -> int -> int outcome **)

let getBlockNumber stateSize c s =
  if Nat.ltb stateSize s
  then Throws (Stdlib.Int.succ (Stdlib.Int.succ 0))
  else (match nth_error c.sc_sbi s with
        | Some b -> Done b
        | None -> OOB)

(** val getInnerState : int -> 'a1 sclass -> int -> int outcome **)

let getInnerState stateSize c s =
  if Nat.ltb stateSize s
  then Throws (Stdlib.Int.succ (Stdlib.Int.succ 0))
  else bind (getBlockNumber stateSize c s) (fun b ->
         match nth_error c.sc_blocks b with
         | Some l ->
           (match index_of s l 0 with
            | Some n -> Done n
            | None -> Throws (Stdlib.Int.succ (Stdlib.Int.succ 0)))
         | None -> OOB)

(** val getFockState : 'a1 sclass -> int -> int -> int outcome **)

let getFockState c b m =
  match nth_error c.sc_blocks b with
  | Some l ->
    (match nth_error l m with
     | Some s -> Done s
     | None -> Throws (Stdlib.Int.succ (Stdlib.Int.succ 0)))
  | None -> Throws (Stdlib.Int.succ (Stdlib.Int.succ 0))

(** val numberOfBlocks : 'a1 sclass -> int **)

let numberOfBlocks c =
  length c.sc_blocks

type fieldop = { fo_parts : (int * int) list;
                 fo_fromRight : (int * int) list;
                 fo_fromLeft : (int * int) list; fo_bimap : bimap }

(** val fo_empty : fieldop **)

let fo_empty =
  { fo_parts = []; fo_fromRight = []; fo_fromLeft = []; fo_bimap = [] }

(** val prepare_step :
    (int -> int option outcome) -> fieldop -> int -> fieldop outcome **)

let prepare_step mapsTo0 f r =
  bind (mapsTo0 r) (fun o ->
    match o with
    | Some l ->
      let size = length f.fo_parts in
      Done { fo_parts = (app f.fo_parts ((l, r) :: [])); fo_fromRight =
      (map_set r size f.fo_fromRight); fo_fromLeft =
      (map_set l size f.fo_fromLeft); fo_bimap =
      (bimap_insert l r f.fo_bimap) }
    | None -> Done f)

(** val prepare_loop :
    (int -> int option outcome) -> int list -> fieldop -> fieldop outcome **)

let rec prepare_loop mapsTo0 l f =
  match l with
  | [] -> Done f
  | r :: r0 -> bind (prepare_step mapsTo0 f r) (prepare_loop mapsTo0 r0)

(** val lc_find : 'a1 -> state -> (state * 'a1) list -> 'a1 **)

let rec lc_find k0 t = function
| [] -> k0
| p :: r ->
  let (s', c) = p in
  if (=) (nat_of_state t) (nat_of_state s') then c else lc_find k0 t r

(** val get_melem :
    'a1 -> ('a1 -> 'a1 -> 'a1) -> ('a1 -> 'a1) -> 'a1 poly -> state -> state
    -> 'a1 outcome **)

let get_melem k0 kadd kopp p bra ket =
  bind (act_poly kadd kopp p ket) (fun l -> Done (lc_find k0 bra l))

(** val commutes_all_n :
    'a1 -> ('a1 -> 'a1 -> 'a1) -> ('a1 -> 'a1 -> 'a1) -> ('a1 -> 'a1 -> 'a1)
    -> ('a1 -> 'a1) -> ('a1 -> bool) -> int list -> 'a1 poly -> bool outcome **)

let rec commutes_all_n k1 kadd kmul ksub kopp kzero l op0 =
  match l with
  | [] -> Done true
  | i :: r ->
    bind (commutes kadd kmul ksub kopp kzero true (p_n k1 i) op0) (fun b ->
      if b
      then commutes_all_n k1 kadd kmul ksub kopp kzero r op0
      else Done false)

(** val shift_test_i :
    'a1 -> 'a1 -> ('a1 -> 'a1 -> 'a1) -> ('a1 -> 'a1 -> 'a1) -> ('a1 -> 'a1
    -> 'a1) -> ('a1 -> 'a1) -> ('a1 -> bool) -> int -> 'a1 poly -> int ->
    bool outcome **)

let shift_test_i k0 k1 kadd kmul ksub kopp kzero n op0 i =
  bind (commutator kadd kmul ksub kopp kzero op0 (p_cdag k1 i)) (fun comm ->
    bind (get_melem k0 kadd kopp comm (upd i true (zeros n)) (zeros n))
      (fun q0 ->
      poly_eq ksub kzero true comm (pscale kmul kzero q0 (p_cdag k1 i))))

(** val shift_test_all :
    'a1 -> 'a1 -> ('a1 -> 'a1 -> 'a1) -> ('a1 -> 'a1 -> 'a1) -> ('a1 -> 'a1
    -> 'a1) -> ('a1 -> 'a1) -> ('a1 -> bool) -> int -> int list -> 'a1 poly
    -> bool outcome **)

let rec shift_test_all k0 k1 kadd kmul ksub kopp kzero n l op0 =
  match l with
  | [] -> Done true
  | i :: r ->
    bind (shift_test_i k0 k1 kadd kmul ksub kopp kzero n op0 i) (fun b ->
      if b
      then shift_test_all k0 k1 kadd kmul ksub kopp kzero n r op0
      else Done false)

(** val check_symmetry :
    'a1 -> 'a1 -> ('a1 -> 'a1 -> 'a1) -> ('a1 -> 'a1 -> 'a1) -> ('a1 -> 'a1
    -> 'a1) -> ('a1 -> 'a1) -> ('a1 -> bool) -> bool -> int -> 'a1 poly ->
    'a1 poly -> bool outcome **)

let check_symmetry k0 k1 kadd kmul ksub kopp kzero shiftfix n h op0 =
  bind (commutes kadd kmul ksub kopp kzero true h op0) (fun b1 ->
    if b1
    then bind (commutes_all_n k1 kadd kmul ksub kopp kzero (seq 0 n) op0)
           (fun b2 ->
           if b2
           then if shiftfix
                then shift_test_all k0 k1 kadd kmul ksub kopp kzero n
                       (seq 0 n) op0
                else Done true
           else Done false)
    else Done false)

type 'k symm = { sy_ops : 'k poly list; sy_flags : bool list }

(** val sy_empty : 'a1 symm **)

let sy_empty =
  { sy_ops = []; sy_flags = [] }

(** val sy_offer :
    'a1 -> 'a1 -> ('a1 -> 'a1 -> 'a1) -> ('a1 -> 'a1 -> 'a1) -> ('a1 -> 'a1
    -> 'a1) -> ('a1 -> 'a1) -> ('a1 -> bool) -> bool -> int -> 'a1 poly ->
    'a1 symm -> 'a1 poly -> 'a1 symm outcome **)

let sy_offer k0 k1 kadd kmul ksub kopp kzero shiftfix n h sy op0 =
  bind (check_symmetry k0 k1 kadd kmul ksub kopp kzero shiftfix n h op0)
    (fun b -> Done { sy_ops =
    (if b then app sy.sy_ops (op0 :: []) else sy.sy_ops); sy_flags =
    (app sy.sy_flags (b :: [])) })

(** val compute_custom_loop :
    'a1 -> 'a1 -> ('a1 -> 'a1 -> 'a1) -> ('a1 -> 'a1 -> 'a1) -> ('a1 -> 'a1
    -> 'a1) -> ('a1 -> 'a1) -> ('a1 -> bool) -> bool -> int -> 'a1 poly ->
    'a1 poly list -> 'a1 symm -> 'a1 symm outcome **)

let rec compute_custom_loop k0 k1 kadd kmul ksub kopp kzero shiftfix n h cands sy =
  match cands with
  | [] -> Done sy
  | q0 :: r ->
    bind (sy_offer k0 k1 kadd kmul ksub kopp kzero shiftfix n h sy q0)
      (compute_custom_loop k0 k1 kadd kmul ksub kopp kzero shiftfix n h r)

(** val compute_custom :
    'a1 -> 'a1 -> ('a1 -> 'a1 -> 'a1) -> ('a1 -> 'a1 -> 'a1) -> ('a1 -> 'a1
    -> 'a1) -> ('a1 -> 'a1) -> ('a1 -> bool) -> bool -> int -> 'a1 poly ->
    'a1 poly list -> 'a1 symm outcome **)

let compute_custom k0 k1 kadd kmul ksub kopp kzero shiftfix n h cands =
  compute_custom_loop k0 k1 kadd kmul ksub kopp kzero shiftfix n h cands
    sy_empty

(** val spin_is_up : int -> bool **)

let spin_is_up sp =
  (=) sp (Stdlib.Int.succ 0)

(** val spin_is_down : int -> bool **)

let spin_is_down sp =
  (=) sp 0

(** val valid_sz : int list -> bool **)

let valid_sz spins =
  forallb (fun sp -> (||) (spin_is_up sp) (spin_is_down sp)) spins

(** val spin_up_indices : int list -> int list **)

let spin_up_indices spins =
  filter (fun i -> spin_is_up (nth i spins 0)) (seq 0 (length spins))

(** val compute_default :
    'a1 -> 'a1 -> ('a1 -> 'a1 -> 'a1) -> ('a1 -> 'a1 -> 'a1) -> ('a1 -> 'a1
    -> 'a1) -> ('a1 -> 'a1) -> ('a1 -> bool) -> 'a1 -> bool -> bool -> bool
    -> int list -> 'a1 poly -> 'a1 symm outcome **)

let compute_default k0 k1 kadd kmul ksub kopp kzero khalf fixed_sz shiftfix ignore spins h =
  let n = length spins in
  if ignore
  then Done sy_empty
  else bind
         (sy_offer k0 k1 kadd kmul ksub kopp kzero shiftfix n h sy_empty
           (p_N k1 kadd kzero n)) (fun sy1 ->
         if valid_sz spins
         then let ups = spin_up_indices spins in
              if (&&) fixed_sz
                   (negb ((=) (length ups) (length (sz_down n ups))))
              then Done sy1
              else bind (p_Sz k1 kadd kmul ksub kopp kzero khalf n ups)
                     (fun op_sz ->
                     sy_offer k0 k1 kadd kmul ksub kopp kzero shiftfix n h
                       sy1 op_sz)
         else Done sy1)

(** val qn_of :
    'a1 -> ('a1 -> 'a1 -> 'a1) -> ('a1 -> 'a1) -> 'a1 poly list -> state ->
    'a1 list outcome **)

let rec qn_of k0 kadd kopp ops s =
  match ops with
  | [] -> Done []
  | q0 :: r ->
    bind (get_melem k0 kadd kopp q0 s s) (fun v ->
      bind (qn_of k0 kadd kopp r s) (fun vs -> Done (v :: vs)))

(** val qn_eqb :
    ('a1 -> 'a1 -> 'a1) -> ('a1 -> bool) -> 'a1 list -> 'a1 list -> bool **)

let rec qn_eqb ksub kzero a b =
  match a with
  | [] -> (match b with
           | [] -> true
           | _ :: _ -> false)
  | x :: a' ->
    (match b with
     | [] -> false
     | y :: b' -> (&&) (kzero (ksub x y)) (qn_eqb ksub kzero a' b'))

type 'k qclass = 'k list sclass

(** val sc_compute :
    'a1 -> ('a1 -> 'a1 -> 'a1) -> ('a1 -> 'a1 -> 'a1) -> ('a1 -> 'a1) -> ('a1
    -> bool) -> int -> 'a1 poly list -> 'a1 qclass outcome **)

let sc_compute k0 kadd ksub kopp kzero n ops =
  sc_compute_gen (qn_eqb ksub kzero) (fun s ->
    qn_of k0 kadd kopp ops (state_of_nat n s))
    (Nat.pow (Stdlib.Int.succ (Stdlib.Int.succ 0)) n)

(** val min_label : ('a1 -> bool) -> (state * 'a1) list -> int option **)

let rec min_label kzero = function
| [] -> None
| p :: r ->
  let (s, c) = p in
  if kzero c
  then min_label kzero r
  else (match min_label kzero r with
        | Some m -> Some (Nat.min (nat_of_state s) m)
        | None -> Some (nat_of_state s))

(** val first_image :
    ('a1 -> 'a1 -> 'a1) -> ('a1 -> 'a1) -> ('a1 -> bool) -> int -> 'a1 poly
    -> int list -> int option outcome **)

let rec first_image kadd kopp kzero n o = function
| [] -> Done None
| s :: r ->
  bind (act_poly kadd kopp o (state_of_nat n s)) (fun res ->
    match min_label kzero res with
    | Some t -> Done (Some t)
    | None -> first_image kadd kopp kzero n o r)

(** val mapsTo :
    ('a1 -> 'a1 -> 'a1) -> ('a1 -> 'a1) -> ('a1 -> bool) -> int -> 'a1 qclass
    -> 'a1 poly -> int -> int option outcome **)

let mapsTo kadd kopp kzero n c o r =
  match nth_error c.sc_blocks r with
  | Some states ->
    bind (first_image kadd kopp kzero n o states) (fun o0 ->
      match o0 with
      | Some t ->
        bind
          (getBlockNumber (Nat.pow (Stdlib.Int.succ (Stdlib.Int.succ 0)) n) c
            t) (fun b -> Done (Some b))
      | None -> Done None)
  | None -> OOB

(** val prepare :
    ('a1 -> 'a1 -> 'a1) -> ('a1 -> 'a1) -> ('a1 -> bool) -> int -> 'a1 qclass
    -> 'a1 poly -> fieldop outcome **)

let prepare kadd kopp kzero n c o =
  prepare_loop (mapsTo kadd kopp kzero n c o) (seq 0 (numberOfBlocks c))
    fo_empty

(** val prepare_cdag :
    'a1 -> ('a1 -> 'a1 -> 'a1) -> ('a1 -> 'a1) -> ('a1 -> bool) -> int -> 'a1
    qclass -> int -> fieldop outcome **)

let prepare_cdag k1 kadd kopp kzero n c i =
  prepare kadd kopp kzero n c (p_cdag k1 i)

(** val prepare_c :
    'a1 -> ('a1 -> 'a1 -> 'a1) -> ('a1 -> 'a1) -> ('a1 -> bool) -> int -> 'a1
    qclass -> int -> fieldop outcome **)

let prepare_c k1 kadd kopp kzero n c i =
  prepare kadd kopp kzero n c (p_c k1 i)

(** val prepare_quad :
    'a1 -> ('a1 -> 'a1 -> 'a1) -> ('a1 -> 'a1) -> ('a1 -> bool) -> int -> 'a1
    qclass -> int -> int -> fieldop outcome **)

let prepare_quad k1 kadd kopp kzero n c i j =
  prepare kadd kopp kzero n c (p_n_offdiag k1 i j)

type 'k symm_mode =
| SymmDefault
| SymmIgnore
| SymmCustom of 'k poly list

(** val symmetrize :
    'a1 -> 'a1 -> ('a1 -> 'a1 -> 'a1) -> ('a1 -> 'a1 -> 'a1) -> ('a1 -> 'a1
    -> 'a1) -> ('a1 -> 'a1) -> ('a1 -> bool) -> 'a1 -> bool -> bool -> 'a1
    symm_mode -> int list -> 'a1 poly -> 'a1 symm outcome **)

let symmetrize k0 k1 kadd kmul ksub kopp kzero khalf fixed_sz shiftfix mode spins h =
  match mode with
  | SymmDefault ->
    compute_default k0 k1 kadd kmul ksub kopp kzero khalf fixed_sz shiftfix
      false spins h
  | SymmIgnore ->
    compute_default k0 k1 kadd kmul ksub kopp kzero khalf fixed_sz shiftfix
      true spins h
  | SymmCustom cands ->
    compute_custom k0 k1 kadd kmul ksub kopp kzero shiftfix (length spins) h
      cands

type 'k analysis = { an_symm : 'k symm; an_class : 'k qclass;
                     an_cdag : fieldop list; an_c : fieldop list }

(** val mapM : ('a1 -> 'a2 outcome) -> 'a1 list -> 'a2 list outcome **)

let rec mapM f = function
| [] -> Done []
| a :: r -> bind (f a) (fun b -> bind (mapM f r) (fun bs -> Done (b :: bs)))

(** val analyse :
    'a1 -> 'a1 -> ('a1 -> 'a1 -> 'a1) -> ('a1 -> 'a1 -> 'a1) -> ('a1 -> 'a1
    -> 'a1) -> ('a1 -> 'a1) -> ('a1 -> bool) -> 'a1 -> bool -> bool -> 'a1
    symm_mode -> int list -> 'a1 poly -> 'a1 analysis outcome **)

let analyse k0 k1 kadd kmul ksub kopp kzero khalf fixed_sz shiftfix mode spins h =
  let n = length spins in
  bind
    (symmetrize k0 k1 kadd kmul ksub kopp kzero khalf fixed_sz shiftfix mode
      spins h) (fun sy ->
    bind (sc_compute k0 kadd ksub kopp kzero n sy.sy_ops) (fun c ->
      bind (mapM (prepare_cdag k1 kadd kopp kzero n c) (seq 0 n)) (fun cd ->
        bind (mapM (prepare_c k1 kadd kopp kzero n c) (seq 0 n)) (fun cc ->
          Done { an_symm = sy; an_class = c; an_cdag = cd; an_c = cc }))))

(** val q_get_melem : q poly -> state -> state -> q outcome **)

let q_get_melem =
  get_melem { qnum = Z0; qden = XH } qadd qopp0

(** val q_check_symmetry : bool -> int -> q poly -> q poly -> bool outcome **)

let q_check_symmetry =
  check_symmetry { qnum = Z0; qden = XH } { qnum = (Zpos XH); qden = XH }
    qadd qmul qsub qopp0 qzero

(** val q_symmetrize :
    bool -> bool -> q symm_mode -> int list -> q poly -> q symm outcome **)

let q_symmetrize =
  symmetrize { qnum = Z0; qden = XH } { qnum = (Zpos XH); qden = XH } qadd
    qmul qsub qopp0 qzero qhalf

(** val q_qn_of : q poly list -> state -> q list outcome **)

let q_qn_of =
  qn_of { qnum = Z0; qden = XH } qadd qopp0

(** val q_sc_compute : int -> q poly list -> q qclass outcome **)

let q_sc_compute =
  sc_compute { qnum = Z0; qden = XH } qadd qsub qopp0 qzero

(** val q_mapsTo : int -> q qclass -> q poly -> int -> int option outcome **)

let q_mapsTo =
  mapsTo qadd qopp0 qzero

(** val q_prepare : int -> q qclass -> q poly -> fieldop outcome **)

let q_prepare =
  prepare qadd qopp0 qzero

(** val q_prepare_cdag : int -> q qclass -> int -> fieldop outcome **)

let q_prepare_cdag =
  prepare_cdag { qnum = (Zpos XH); qden = XH } qadd qopp0 qzero

(** val q_prepare_c : int -> q qclass -> int -> fieldop outcome **)

let q_prepare_c =
  prepare_c { qnum = (Zpos XH); qden = XH } qadd qopp0 qzero

(** val q_prepare_quad : int -> q qclass -> int -> int -> fieldop outcome **)

let q_prepare_quad =
  prepare_quad { qnum = (Zpos XH); qden = XH } qadd qopp0 qzero

(** val q_analyse :
    bool -> bool -> q symm_mode -> int list -> q poly -> q analysis outcome **)

let q_analyse =
  analyse { qnum = Z0; qden = XH } { qnum = (Zpos XH); qden = XH } qadd qmul
    qsub qopp0 qzero qhalf
