
(** val xorb : bool -> bool -> bool **)

let xorb b1 b2 =
  if b1 then if b2 then false else true else b2

(** val negb : bool -> bool **)

let negb = function
| true -> false
| false -> true

(** val fst : ('a1 * 'a2) -> 'a1 **)

let fst = function
| (x, _) -> x

(** val snd : ('a1 * 'a2) -> 'a2 **)

let snd = function
| (_, y) -> y

(** val length : 'a1 list -> int **)

let rec length = function
| [] -> 0
| _ :: l' -> Stdlib.Int.succ (length l')

(** val app : 'a1 list -> 'a1 list -> 'a1 list **)

let rec app l m =
  match l with
  | [] -> m
  | a :: l1 -> a :: (app l1 m)

(** val add : int -> int -> int **)

let rec add = (+)

(** val mul : int -> int -> int **)

let rec mul = ( * )

(** val sub : int -> int -> int **)

let rec sub = fun n m -> Stdlib.max 0 (n-m)

type positive =
| XI of positive
| XO of positive
| XH

type z =
| Z0
| Zpos of positive
| Zneg of positive

(** val eqb : bool -> bool -> bool **)

let eqb b1 b2 =
  if b1 then b2 else if b2 then false else true

module Nat =
 struct
  (** val add : int -> int -> int **)

  let rec add n m =
    (fun fO fS n -> if n=0 then fO () else fS (n-1))
      (fun _ -> m)
      (fun p -> Stdlib.Int.succ (add p m))
      n

  (** val mul : int -> int -> int **)

  let rec mul n m =
    (fun fO fS n -> if n=0 then fO () else fS (n-1))
      (fun _ -> 0)
      (fun p -> add m (mul p m))
      n

  (** val sub : int -> int -> int **)

  let rec sub n m =
    (fun fO fS n -> if n=0 then fO () else fS (n-1))
      (fun _ -> n)
      (fun k ->
      (fun fO fS n -> if n=0 then fO () else fS (n-1))
        (fun _ -> n)
        (fun l -> sub k l)
        m)
      n

  (** val ltb : int -> int -> bool **)

  let ltb n m =
    (<=) (Stdlib.Int.succ n) m

  (** val even : int -> bool **)

  let rec even n =
    (fun fO fS n -> if n=0 then fO () else fS (n-1))
      (fun _ -> true)
      (fun n2 ->
      (fun fO fS n -> if n=0 then fO () else fS (n-1))
        (fun _ -> false)
        (fun n' -> even n')
        n2)
      n

  (** val odd : int -> bool **)

  let odd n =
    negb (even n)

  (** val pow : int -> int -> int **)

  let rec pow n m =
    (fun fO fS n -> if n=0 then fO () else fS (n-1))
      (fun _ -> Stdlib.Int.succ 0)
      (fun m0 -> mul n (pow n m0))
      m

  (** val divmod : int -> int -> int -> int -> int * int **)

  let rec divmod x y q u =
    (fun fO fS n -> if n=0 then fO () else fS (n-1))
      (fun _ -> (q, u))
      (fun x' ->
      (fun fO fS n -> if n=0 then fO () else fS (n-1))
        (fun _ -> divmod x' y (Stdlib.Int.succ q) y)
        (fun u' -> divmod x' y q u')
        u)
      x

  (** val modulo : int -> int -> int **)

  let modulo x y =
    (fun fO fS n -> if n=0 then fO () else fS (n-1))
      (fun _ -> x)
      (fun y' -> sub y' (snd (divmod x y' 0 y')))
      y

  (** val div2 : int -> int **)

  let rec div2 = fun n -> n/2
 end

(** val hd : 'a1 -> 'a1 list -> 'a1 **)

let hd default = function
| [] -> default
| x :: _ -> x

(** val tl : 'a1 list -> 'a1 list **)

let tl = function
| [] -> []
| _ :: m -> m

(** val nth : int -> 'a1 list -> 'a1 -> 'a1 **)

let rec nth n l default =
  (fun fO fS n -> if n=0 then fO () else fS (n-1))
    (fun _ -> match l with
              | [] -> default
              | x :: _ -> x)
    (fun m -> match l with
              | [] -> default
              | _ :: t -> nth m t default)
    n

(** val nth_error : 'a1 list -> int -> 'a1 option **)

let rec nth_error l n =
  (fun fO fS n -> if n=0 then fO () else fS (n-1))
    (fun _ -> match l with
              | [] -> None
              | x :: _ -> Some x)
    (fun n2 -> match l with
               | [] -> None
               | _ :: l0 -> nth_error l0 n2)
    n

(** val concat : 'a1 list list -> 'a1 list **)

let rec concat = function
| [] -> []
| x :: l0 -> app x (concat l0)

(** val map : ('a1 -> 'a2) -> 'a1 list -> 'a2 list **)

let rec map f = function
| [] -> []
| a :: t -> (f a) :: (map f t)

(** val fold_left : ('a1 -> 'a2 -> 'a1) -> 'a2 list -> 'a1 -> 'a1 **)

let rec fold_left f l a0 =
  match l with
  | [] -> a0
  | b :: t -> fold_left f t (f a0 b)

(** val fold_right : ('a2 -> 'a1 -> 'a1) -> 'a1 -> 'a2 list -> 'a1 **)

let rec fold_right f a0 = function
| [] -> a0
| b :: t -> f b (fold_right f a0 t)

(** val existsb : ('a1 -> bool) -> 'a1 list -> bool **)

let rec existsb f = function
| [] -> false
| a :: l0 -> (||) (f a) (existsb f l0)

(** val filter : ('a1 -> bool) -> 'a1 list -> 'a1 list **)

let rec filter f = function
| [] -> []
| x :: l0 -> if f x then x :: (filter f l0) else filter f l0

(** val find : ('a1 -> bool) -> 'a1 list -> 'a1 option **)

let rec find f = function
| [] -> None
| x :: tl0 -> if f x then Some x else find f tl0

(** val combine : 'a1 list -> 'a2 list -> ('a1 * 'a2) list **)

let rec combine l l' =
  match l with
  | [] -> []
  | x :: tl0 ->
    (match l' with
     | [] -> []
     | y :: tl' -> (x, y) :: (combine tl0 tl'))

(** val seq : int -> int -> int list **)

let rec seq start len =
  (fun fO fS n -> if n=0 then fO () else fS (n-1))
    (fun _ -> [])
    (fun len0 -> start :: (seq (Stdlib.Int.succ start) len0))
    len

(** val repeat : 'a1 -> int -> 'a1 list **)

let rec repeat x n =
  (fun fO fS n -> if n=0 then fO () else fS (n-1))
    (fun _ -> [])
    (fun k -> x :: (repeat x k))
    n

(** val sqrt : Float64.t -> Float64.t **)

let sqrt = Float64.sqrt

(** val opp : Float64.t -> Float64.t **)

let opp = Float64.opp

(** val ltb0 : Float64.t -> Float64.t -> bool **)

let ltb0 = Float64.lt

(** val mul0 : Float64.t -> Float64.t -> Float64.t **)

let mul0 = Float64.mul

(** val add0 : Float64.t -> Float64.t -> Float64.t **)

let add0 = Float64.add

(** val sub0 : Float64.t -> Float64.t -> Float64.t **)

let sub0 = Float64.sub

(** val div : Float64.t -> Float64.t -> Float64.t **)

let div = Float64.div

type 'a outcome =
| Done of 'a
| OOB
| Uninit
| Throws of int
| OutOfFuel

(** val bind : 'a1 outcome -> ('a1 -> 'a2 outcome) -> 'a2 outcome **)

let bind x f =
  match x with
  | Done a -> f a
  | OOB -> OOB
  | Uninit -> Uninit
  | Throws c -> Throws c
  | OutOfFuel -> OutOfFuel

type op = bool * int

(** val op_ann : op -> bool **)

let op_ann =
  fst

(** val op_idx : op -> int **)

let op_idx =
  snd

(** val cdag : int -> op **)

let cdag i =
  (false, i)

(** val cann : int -> op **)

let cann i =
  (true, i)

type state = bool list

(** val upd : int -> bool -> state -> state **)

let rec upd i v = function
| [] -> []
| b :: t ->
  ((fun fO fS n -> if n=0 then fO () else fS (n-1))
     (fun _ -> v :: t)
     (fun j -> b :: (upd j v t))
     i)

(** val par : int -> state -> bool **)

let rec par n s =
  (fun fO fS n -> if n=0 then fO () else fS (n-1))
    (fun _ -> false)
    (fun m -> match s with
              | [] -> false
              | b :: t -> xorb b (par m t))
    n

(** val act_op : op -> state -> (bool * state) option outcome **)

let act_op o s =
  let i = op_idx o in
  if Nat.ltb i (length s)
  then let occ = nth i s false in
       if eqb occ (negb (op_ann o))
       then Done None
       else Done (Some ((par i s), (upd i (negb (op_ann o)) s)))
  else OOB

(** val act_mono : op list -> state -> (bool * state) option outcome **)

let rec act_mono m s =
  match m with
  | [] -> Done (Some (false, s))
  | o :: rest ->
    (match act_mono rest s with
     | Done a ->
       (match a with
        | Some p ->
          let (sg, s') = p in
          (match act_op o s' with
           | Done a0 ->
             (match a0 with
              | Some p0 ->
                let (sg', s'') = p0 in Done (Some ((xorb sg sg'), s''))
              | None -> Done None)
           | x -> x)
        | None -> Done None)
     | x -> x)

(** val state_of_nat : int -> int -> state **)

let rec state_of_nat m n =
  (fun fO fS n -> if n=0 then fO () else fS (n-1))
    (fun _ -> [])
    (fun m' -> (Nat.odd n) :: (state_of_nat m' (Nat.div2 n)))
    m

(** val nat_of_state : state -> int **)

let rec nat_of_state = function
| [] -> 0
| b :: t ->
  add (if b then Stdlib.Int.succ 0 else 0)
    (mul (Stdlib.Int.succ (Stdlib.Int.succ 0)) (nat_of_state t))

type monomial = op list

type 'k poly = (monomial * 'k) list

(** val p_c : 'a1 -> int -> 'a1 poly **)

let p_c k1 i =
  (((cann i) :: []), k1) :: []

(** val p_cdag : 'a1 -> int -> 'a1 poly **)

let p_cdag k1 i =
  (((cdag i) :: []), k1) :: []

(** val p_n_offdiag : 'a1 -> int -> int -> 'a1 poly **)

let p_n_offdiag k1 i j =
  (((cdag i) :: ((cann j) :: [])), k1) :: []

(** val lc_add :
    ('a1 -> 'a1 -> 'a1) -> state -> 'a1 -> (state * 'a1) list ->
    (state * 'a1) list **)

let rec lc_add kadd s c = function
| [] -> (s, c) :: []
| p :: t ->
  let (s', c') = p in
  if (=) (nat_of_state s) (nat_of_state s')
  then (s', (kadd c' c)) :: t
  else (s', c') :: (lc_add kadd s c t)

(** val act_poly :
    ('a1 -> 'a1 -> 'a1) -> ('a1 -> 'a1) -> 'a1 poly -> state -> (state * 'a1)
    list outcome **)

let act_poly kadd kopp p ket =
  fold_left (fun acc mc ->
    bind acc (fun l ->
      match act_mono (fst mc) ket with
      | Done a ->
        (match a with
         | Some p0 ->
           let (sg, s') = p0 in
           Done (lc_add kadd s' (if sg then kopp (snd mc) else snd mc) l)
         | None -> Done l)
      | OOB -> OOB
      | Uninit -> Uninit
      | Throws c -> Throws c
      | OutOfFuel -> OutOfFuel)) p (Done [])

type 'k numops = { n0 : 'k; n1 : 'k; nadd : ('k -> 'k -> 'k);
                   nsub : ('k -> 'k -> 'k); nmul : ('k -> 'k -> 'k);
                   ndiv : ('k -> 'k -> 'k); nopp : ('k -> 'k);
                   nconj : ('k -> 'k); nexp : ('k -> 'k);
                   nre_ltb : ('k -> 'k -> bool); nabs : ('k -> 'k);
                   nofZ : (z -> 'k); nI : 'k }

type 'k vec = 'k list

type 'k mat = 'k list list

(** val ksum : 'a1 numops -> 'a2 list -> ('a2 -> 'a1) -> 'a1 **)

let ksum nO l f =
  fold_left (fun acc a -> nO.nadd acc (f a)) l nO.n0

(** val dot : 'a1 numops -> 'a1 vec -> 'a1 vec -> 'a1 **)

let dot nO u v =
  fold_left (fun acc ab -> nO.nadd acc (nO.nmul (fst ab) (snd ab)))
    (combine u v) nO.n0

(** val transpose_aux : 'a1 numops -> int -> 'a1 mat -> 'a1 mat **)

let rec transpose_aux nO n m =
  (fun fO fS n -> if n=0 then fO () else fS (n-1))
    (fun _ -> [])
    (fun n' ->
    (map (fun r -> hd nO.n0 r) m) :: (transpose_aux nO n' (map tl m)))
    n

(** val transpose : 'a1 numops -> int -> 'a1 mat -> 'a1 mat **)

let transpose =
  transpose_aux

(** val mmul : 'a1 numops -> int -> 'a1 mat -> 'a1 mat -> 'a1 mat **)

let mmul nO ncols_b a b =
  let bt = transpose nO ncols_b b in
  map (fun r -> map (fun c -> dot nO r c) bt) a

(** val adjoint : 'a1 numops -> int -> 'a1 mat -> 'a1 mat **)

let adjoint nO ncols m =
  map (map nO.nconj) (transpose nO ncols m)

(** val mget : 'a1 numops -> 'a1 mat -> int -> int -> 'a1 **)

let mget nO m i j =
  nth j (nth i m []) nO.n0

(** val idx : 'a1 list -> (int * 'a1) list **)

let idx l =
  combine (seq 0 (length l)) l

(** val mono_entry : int -> monomial -> int -> (bool * int) option **)

let mono_entry m m0 s =
  match act_mono m0 (state_of_nat m s) with
  | Done a ->
    (match a with
     | Some p -> let (sg, s') = p in Some (sg, (nat_of_state s'))
     | None -> None)
  | _ -> None

(** val poly_matrix :
    'a1 numops -> int -> (monomial * 'a1) list -> 'a1 mat **)

let poly_matrix nO m p =
  let dim = Nat.pow (Stdlib.Int.succ (Stdlib.Int.succ 0)) m in
  map (fun t ->
    map (fun s ->
      ksum nO p (fun mc ->
        match mono_entry m (fst mc) s with
        | Some p0 ->
          let (sg, t') = p0 in
          if (=) t' t then if sg then nO.nopp (snd mc) else snd mc else nO.n0
        | None -> nO.n0)) (seq 0 dim)) (seq 0 dim)

(** val max_abs : 'a1 numops -> 'a1 list -> 'a1 **)

let max_abs nO l =
  fold_left (fun acc x ->
    if nO.nre_ltb acc (nO.nabs x) then nO.nabs x else acc) l nO.n0

(** val residual_HU :
    'a1 numops -> int -> 'a1 mat -> 'a1 mat -> 'a1 vec -> 'a1 **)

let residual_HU nO dim h u e =
  let hU = mmul nO dim h u in
  max_abs nO
    (concat
      (map (fun ir ->
        map (fun jc ->
          nO.nsub (snd jc)
            (nO.nmul (mget nO u (fst ir) (fst jc)) (nth (fst jc) e nO.n0)))
          (idx (snd ir))) (idx hU)))

(** val residual_unitary : 'a1 numops -> int -> 'a1 mat -> 'a1 **)

let residual_unitary nO dim u =
  let uU = mmul nO dim (adjoint nO dim u) u in
  max_abs nO
    (concat
      (map (fun ir ->
        map (fun jc ->
          nO.nsub (snd jc) (if (=) (fst ir) (fst jc) then nO.n1 else nO.n0))
          (idx (snd ir))) (idx uU)))

type fc = Float64.t * Float64.t

(** val fadd : fc -> fc -> fc **)

let fadd a b =
  ((add0 (fst a) (fst b)), (add0 (snd a) (snd b)))

(** val fsub : fc -> fc -> fc **)

let fsub a b =
  ((sub0 (fst a) (fst b)), (sub0 (snd a) (snd b)))

(** val fmul : fc -> fc -> fc **)

let fmul a b =
  ((sub0 (mul0 (fst a) (fst b)) (mul0 (snd a) (snd b))),
    (add0 (mul0 (fst a) (snd b)) (mul0 (snd a) (fst b))))

(** val fdiv : fc -> fc -> fc **)

let fdiv a b =
  let d = add0 (mul0 (fst b) (fst b)) (mul0 (snd b) (snd b)) in
  ((div (add0 (mul0 (fst a) (fst b)) (mul0 (snd a) (snd b))) d),
  (div (sub0 (mul0 (snd a) (fst b)) (mul0 (fst a) (snd b))) d))

(** val fopp : fc -> fc **)

let fopp a =
  ((opp (fst a)), (opp (snd a)))

(** val fconj : fc -> fc **)

let fconj a =
  ((fst a), (opp (snd a)))

(** val fabs : fc -> fc **)

let fabs a =
  ((sqrt (add0 (mul0 (fst a) (fst a)) (mul0 (snd a) (snd a)))),
    (Float64.of_float (0x0p+0)))

(** val pos_to_float : positive -> Float64.t **)

let rec pos_to_float = function
| XI q ->
  add0 (mul0 (Float64.of_float (0x1p+1)) (pos_to_float q))
    (Float64.of_float (0x1p+0))
| XO q -> mul0 (Float64.of_float (0x1p+1)) (pos_to_float q)
| XH -> (Float64.of_float (0x1p+0))

(** val fofZ : z -> fc **)

let fofZ z0 =
  ((match z0 with
    | Z0 -> (Float64.of_float (0x0p+0))
    | Zpos p -> pos_to_float p
    | Zneg p -> opp (pos_to_float p)), (Float64.of_float (0x0p+0)))

(** val fops : (Float64.t -> Float64.t) -> fc numops **)

let fops fexp =
  { n0 = ((Float64.of_float (0x0p+0)), (Float64.of_float (0x0p+0))); n1 =
    ((Float64.of_float (0x1p+0)), (Float64.of_float (0x0p+0))); nadd = fadd;
    nsub = fsub; nmul = fmul; ndiv = fdiv; nopp = fopp; nconj = fconj; nexp =
    (fun a -> ((fexp (fst a)), (Float64.of_float (0x0p+0)))); nre_ltb =
    (fun a b -> ltb0 (fst a) (fst b)); nabs = fabs; nofZ = fofZ; nI =
    ((Float64.of_float (0x0p+0)), (Float64.of_float (0x1p+0))) }

(** val ex_wrong_state : int **)

let ex_wrong_state =
  Stdlib.Int.succ (Stdlib.Int.succ 0)

type classification = { sc_M : int; sc_states : int list list;
                        sc_index : int list }

(** val state_size : classification -> int **)

let state_size s =
  Nat.pow (Stdlib.Int.succ (Stdlib.Int.succ 0)) s.sc_M

(** val block_containing : int list list -> int -> int -> int **)

let rec block_containing blocks s b =
  match blocks with
  | [] -> b
  | l :: rest ->
    if existsb ((=) s) l
    then b
    else block_containing rest s (Stdlib.Int.succ b)

(** val classification_of_blocks : int -> int list list -> classification **)

let classification_of_blocks m blocks =
  { sc_M = m; sc_states = blocks; sc_index =
    (map (fun s -> block_containing blocks s 0)
      (seq 0 (Nat.pow (Stdlib.Int.succ (Stdlib.Int.succ 0)) m))) }

(** val outcome_map : ('a1 -> 'a2 outcome) -> 'a1 list -> 'a2 list outcome **)

let rec outcome_map f = function
| [] -> Done []
| a :: t ->
  bind (f a) (fun b -> bind (outcome_map f t) (fun r -> Done (b :: r)))

(** val set_nth : 'a1 list -> int -> 'a1 -> 'a1 list option **)

let rec set_nth l i v =
  match l with
  | [] -> None
  | x :: t ->
    ((fun fO fS n -> if n=0 then fO () else fS (n-1))
       (fun _ -> Some (v :: t))
       (fun j ->
       match set_nth t j v with
       | Some t' -> Some (x :: t')
       | None -> None)
       i)

(** val label_rejected : bool -> classification -> int -> bool **)

let label_rejected fixed_bound s s0 =
  if fixed_bound then (<=) (state_size s) s0 else Nat.ltb (state_size s) s0

(** val getBlockNumber : bool -> classification -> int -> int outcome **)

let getBlockNumber fixed_bound s s0 =
  if label_rejected fixed_bound s s0
  then Throws ex_wrong_state
  else (match nth_error s.sc_index s0 with
        | Some b -> Done b
        | None -> OOB)

(** val find_pos : int list -> int -> int -> int option **)

let rec find_pos l s n =
  match l with
  | [] -> None
  | x :: t -> if (=) x s then Some n else find_pos t s (Stdlib.Int.succ n)

(** val getInnerState : bool -> classification -> int -> int outcome **)

let getInnerState fixed_bound s s0 =
  if label_rejected fixed_bound s s0
  then Throws ex_wrong_state
  else bind (getBlockNumber fixed_bound s s0) (fun b ->
         match nth_error s.sc_states b with
         | Some l ->
           (match find_pos l s0 0 with
            | Some n -> Done n
            | None -> Throws ex_wrong_state)
         | None -> OOB)

(** val getInnerState_label : bool -> classification -> int -> int outcome **)

let getInnerState_label fixed_bound s q =
  if label_rejected fixed_bound s q
  then Throws ex_wrong_state
  else getInnerState fixed_bound s (Nat.modulo q (state_size s))

(** val getFockStates : classification -> int -> int list outcome **)

let getFockStates s b =
  match nth_error s.sc_states b with
  | Some l -> Done l
  | None -> OOB

(** val is_zero : 'a1 numops -> 'a1 -> 'a1 -> bool **)

let is_zero nO eps x =
  nO.nre_ltb (nO.nabs x) eps

(** val insert_sorted :
    (int * 'a1) -> (int * 'a1) list -> (int * 'a1) list **)

let rec insert_sorted e l = match l with
| [] -> e :: []
| x :: t -> if (<=) (fst e) (fst x) then e :: l else x :: (insert_sorted e t)

(** val sort_by_label : (int * 'a1) list -> (int * 'a1) list **)

let sort_by_label l =
  fold_right insert_sorted [] l

(** val act_map :
    'a1 numops -> 'a1 -> int -> 'a1 poly -> int -> (int * 'a1) list outcome **)

let act_map nO eps m p ket =
  bind (act_poly nO.nadd nO.nopp p (state_of_nat m ket)) (fun l -> Done
    (sort_by_label
      (filter (fun e -> negb (is_zero nO eps (snd e)))
        (map (fun sc -> ((nat_of_state (fst sc)), (snd sc))) l))))

(** val hpart_column :
    bool -> 'a1 numops -> 'a1 -> classification -> 'a1 poly -> int -> int ->
    'a1 list outcome **)

let hpart_column fixed_bound nO eps s p n ket =
  bind (act_map nO eps s.sc_M p ket) (fun entries ->
    fold_left (fun acc e ->
      bind acc (fun col ->
        bind (getInnerState fixed_bound s (fst e)) (fun left_st ->
          match set_nth col left_st (snd e) with
          | Some col' -> Done col'
          | None -> OOB))) entries (Done (repeat nO.n0 n)))

(** val rows_of_columns : 'a1 numops -> int -> 'a1 list list -> 'a1 mat **)

let rows_of_columns nO n cols =
  map (fun i -> map (fun col -> nth i col nO.n0) cols) (seq 0 n)

(** val hpart_prepare :
    bool -> 'a1 numops -> 'a1 -> classification -> 'a1 poly -> int -> 'a1 mat
    outcome **)

let hpart_prepare fixed_bound nO eps s p b =
  bind (getFockStates s b) (fun states ->
    let n = length states in
    bind (outcome_map (hpart_column fixed_bound nO eps s p n) states)
      (fun cols -> Done (rows_of_columns nO n cols)))

(** val hpart_compute :
    'a1 numops -> ('a1 -> 'a1) -> 'a1 mat -> ('a1 list * 'a1 mat) -> 'a1
    list * 'a1 mat **)

let hpart_compute nO kre h solver =
  if (=) (length h) (Stdlib.Int.succ 0)
  then (((kre (mget nO h 0 0)) :: []), ((nO.n1 :: []) :: []))
  else solver

type 'k hpart = 'k list * 'k mat

(** val min_coeff : 'a1 numops -> 'a1 list -> 'a1 outcome **)

let min_coeff nO = function
| [] -> OOB
| x :: t -> Done (fold_left (fun m v -> if nO.nre_ltb v m then v else m) t x)

(** val computeGroundEnergy : 'a1 numops -> 'a1 hpart list -> 'a1 outcome **)

let computeGroundEnergy nO parts =
  bind (outcome_map (fun p -> min_coeff nO (fst p)) parts) (min_coeff nO)

(** val getEigenValue :
    bool -> classification -> 'a1 hpart list -> int -> 'a1 outcome **)

let getEigenValue fixed_bound s parts q =
  bind (getInnerState_label fixed_bound s q) (fun inner ->
    bind (getBlockNumber fixed_bound s q) (fun b ->
      match nth_error parts b with
      | Some part ->
        (match nth_error (fst part) inner with
         | Some e -> Done e
         | None -> OOB)
      | None -> OOB))

(** val write_range :
    'a1 option list -> int -> 'a1 list -> 'a1 option list outcome **)

let rec write_range out i = function
| [] -> Done out
| x :: t ->
  (match set_nth out i (Some x) with
   | Some out' -> write_range out' (Stdlib.Int.succ i) t
   | None -> OOB)

(** val read_all : 'a1 option list -> 'a1 list outcome **)

let rec read_all = function
| [] -> Done []
| o :: t ->
  (match o with
   | Some x -> bind (read_all t) (fun r -> Done (x :: r))
   | None -> Uninit)

(** val getEigenValues :
    classification -> 'a1 hpart list -> 'a1 list outcome **)

let getEigenValues s parts =
  bind
    (fold_left (fun acc part ->
      bind acc (fun oi ->
        bind (write_range (fst oi) (snd oi) (fst part)) (fun out' -> Done
          (out', (add (snd oi) (length (fst part))))))) parts (Done
      ((repeat None (state_size s)), 0))) (fun oi -> read_all (fst oi))

type fop =
| FCdag of int
| FC of int
| FQuad of int * int

(** val fop_poly : 'a1 numops -> fop -> 'a1 poly **)

let fop_poly nO = function
| FCdag i -> p_cdag nO.n1 i
| FC i -> p_c nO.n1 i
| FQuad (i, j) -> p_n_offdiag nO.n1 i j

(** val first_image :
    'a1 numops -> 'a1 -> int -> 'a1 poly -> int list -> int option outcome **)

let rec first_image nO eps m p = function
| [] -> Done None
| s :: t ->
  bind (act_map nO eps m p s) (fun r ->
    match r with
    | [] -> first_image nO eps m p t
    | p0 :: _ -> let (bra, _) = p0 in Done (Some bra))

(** val mapsTo :
    bool -> 'a1 numops -> 'a1 -> classification -> fop -> int -> int option
    outcome **)

let mapsTo fixed_bound nO eps s o right =
  bind (getFockStates s right) (fun states ->
    bind (first_image nO eps s.sc_M (fop_poly nO o) states) (fun r ->
      match r with
      | Some bra ->
        bind (getBlockNumber fixed_bound s bra) (fun b -> Done (Some b))
      | None -> Done None))

(** val fo_prepare :
    bool -> 'a1 numops -> 'a1 -> classification -> fop -> (int * int) list
    outcome **)

let fo_prepare fixed_bound nO eps s o =
  fold_left (fun acc right ->
    bind acc (fun parts ->
      bind (mapsTo fixed_bound nO eps s o right) (fun l ->
        match l with
        | Some lft -> Done (app parts ((lft, right) :: []))
        | None -> Done parts))) (seq 0 (length s.sc_states)) (Done [])

(** val bimap_insert : (int * int) list -> (int * int) -> (int * int) list **)

let bimap_insert bm lr =
  if existsb (fun e -> (||) ((=) (fst e) (fst lr)) ((=) (snd e) (snd lr))) bm
  then bm
  else app bm (lr :: [])

(** val fo_bimap : (int * int) list -> (int * int) list **)

let fo_bimap parts =
  fold_left bimap_insert parts []

(** val mget_chk : 'a1 mat -> int -> int -> 'a1 outcome **)

let mget_chk m i j =
  match nth_error m i with
  | Some r -> (match nth_error r j with
               | Some x -> Done x
               | None -> OOB)
  | None -> OOB

(** val fop_fill :
    bool -> 'a1 numops -> 'a1 -> classification -> fop -> 'a1 mat -> 'a1 mat
    -> int -> int -> int list -> ('a1 list list * 'a1 list list) outcome **)

let fop_fill fixed_bound nO eps s o hfrom hto nt nf fromStates =
  fold_left (fun acc kst ->
    bind acc (fun lR ->
      bind (act_map nO eps s.sc_M (fop_poly nO o) kst) (fun result1 ->
        match result1 with
        | [] -> Done lR
        | p :: _ ->
          let (lst, sign) = p in
          if nO.nre_ltb eps (nO.nabs sign)
          then bind (getInnerState fixed_bound s lst) (fun l ->
                 bind (getInnerState fixed_bound s kst) (fun k ->
                   bind
                     (outcome_map (fun n ->
                       bind (mget_chk hto l n) (fun x -> Done (nO.nconj x)))
                       (seq 0 nt)) (fun lcol ->
                     bind
                       (outcome_map (fun m ->
                         bind (mget_chk hfrom k m) (fun x -> Done
                           (nO.nmul sign x))) (seq 0 nf)) (fun rrow ->
                       match set_nth (fst lR) k lcol with
                       | Some l' ->
                         (match set_nth (snd lR) k rrow with
                          | Some r' -> Done (l', r')
                          | None -> OOB)
                       | None -> OOB))))
          else Done lR))) fromStates (Done ((repeat (repeat nO.n0 nt) nf),
    (repeat (repeat nO.n0 nf) nf)))

(** val fop_dense :
    bool -> 'a1 numops -> 'a1 -> classification -> fop -> int -> int -> 'a1
    mat -> 'a1 mat -> 'a1 mat outcome **)

let fop_dense fixed_bound nO eps s o from to0 hfrom hto =
  bind (getFockStates s to0) (fun toStates ->
    bind (getFockStates s from) (fun fromStates ->
      let nt = length toStates in
      let nf = length fromStates in
      bind (fop_fill fixed_bound nO eps s o hfrom hto nt nf fromStates)
        (fun lR -> Done (mmul nO nf (transpose nO nt (fst lR)) (snd lR)))))

(** val keep_entry : 'a1 numops -> 'a1 -> 'a1 -> 'a1 -> bool **)

let keep_entry nO reference prec x =
  nO.nre_ltb (nO.nmul (nO.nabs reference) prec) (nO.nabs x)

(** val prune : 'a1 numops -> 'a1 -> 'a1 -> 'a1 mat -> 'a1 mat **)

let prune nO reference prec m =
  map (map (fun x -> if keep_entry nO reference prec x then x else nO.n0)) m

(** val assoc_right :
    ((int * int) * 'a1) list -> int -> ((int * int) * 'a1) option **)

let assoc_right parts right =
  find (fun e -> (=) (snd (fst e)) right) parts

(** val container_copy :
    'a1 numops -> (int -> int) -> (int * int) list -> ((int * int) * 'a1 mat)
    list -> (int * int) list -> ((int * int) * 'a1 mat option) list outcome **)

let container_copy nO ncols cdag_bimap cdag_parts c_parts =
  fold_left (fun acc lr ->
    bind acc (fun cs ->
      match assoc_right cdag_parts (snd lr) with
      | Some p ->
        let (_, m) = p in
        (match assoc_right cs (fst lr) with
         | Some _ ->
           Done
             (map (fun e ->
               if (=) (snd (fst e)) (fst lr)
               then ((fst e), (Some (adjoint nO (ncols (snd lr)) m)))
               else e) cs)
         | None -> OOB)
      | None -> OOB)) cdag_bimap (Done (map (fun lr -> (lr, None)) c_parts))

(** val restrict :
    'a1 numops -> 'a1 mat -> int list -> int list -> 'a1 mat **)

let restrict nO m rows cols =
  map (fun t -> map (fun s -> mget nO m t s) cols) rows

(** val rotate_block :
    'a1 numops -> int -> int -> 'a1 mat -> 'a1 mat -> 'a1 mat -> 'a1 mat **)

let rotate_block nO nt nf uto o ufrom =
  mmul nO nf (adjoint nO nt uto) (mmul nO nf o ufrom)

(** val rotate_back :
    'a1 numops -> int -> int -> 'a1 mat -> 'a1 mat -> 'a1 mat -> 'a1 mat **)

let rotate_back nO _ nf uto c ufrom =
  mmul nO nf uto (mmul nO nf c (adjoint nO nf ufrom))

(** val max_dev : 'a1 numops -> 'a1 mat -> 'a1 mat -> 'a1 **)

let max_dev nO a b =
  max_abs nO
    (concat
      (map (fun ir ->
        map (fun jc -> nO.nsub (snd jc) (mget nO b (fst ir) (fst jc)))
          (idx (snd ir))) (idx a)))

(** val outside_blocks :
    'a1 numops -> 'a1 mat -> (int -> int) -> (int * int) list -> int **)

let outside_blocks nO m blk pairs =
  length
    (filter (fun x -> x)
      (concat
        (map (fun ir ->
          map (fun jc ->
            (&&) (nO.nre_ltb nO.n0 (nO.nabs (snd jc)))
              (negb
                (existsb (fun lr ->
                  (&&) ((=) (fst lr) (blk (fst ir)))
                    ((=) (snd lr) (blk (fst jc)))) pairs))) (idx (snd ir)))
          (idx m))))

(** val locate : int list -> int -> int -> int * int **)

let rec locate sizes g b =
  match sizes with
  | [] -> (b, g)
  | n :: rest ->
    if Nat.ltb g n then (b, g) else locate rest (sub g n) (Stdlib.Int.succ b)

(** val assemble :
    'a1 numops -> int list -> ((int * int) * 'a1 mat) list -> 'a1 mat **)

let assemble nO sizes parts =
  let dim = fold_left Nat.add sizes 0 in
  map (fun g ->
    let bk = locate sizes g 0 in
    map (fun g' ->
      let bk' = locate sizes g' 0 in
      (match find (fun e ->
               (&&) ((=) (fst (fst e)) (fst bk)) ((=) (snd (fst e)) (fst bk')))
               parts with
       | Some p -> let (_, m) = p in mget nO m (snd bk) (snd bk')
       | None -> nO.n0)) (seq 0 dim)) (seq 0 dim)

(** val madd : 'a1 numops -> 'a1 mat -> 'a1 mat -> 'a1 mat **)

let madd nO a b =
  map (fun rr ->
    map (fun xy -> nO.nadd (fst xy) (snd xy)) (combine (fst rr) (snd rr)))
    (combine a b)

(** val anticomm : 'a1 numops -> int -> 'a1 mat -> 'a1 mat -> 'a1 mat **)

let anticomm nO dim a b =
  madd nO (mmul nO dim a b) (mmul nO dim b a)

(** val scalar_mat : 'a1 numops -> int -> 'a1 -> 'a1 mat **)

let scalar_mat nO dim c =
  map (fun i -> map (fun j -> if (=) i j then c else nO.n0) (seq 0 dim))
    (seq 0 dim)

(** val feps : fc **)

let feps =
  ((Float64.of_float (0x1p-52)), (Float64.of_float (0x0p+0)))

(** val fre : fc -> fc **)

let fre a =
  ((fst a), (Float64.of_float (0x0p+0)))

(** val m_classification : int -> int list list -> classification **)

let m_classification =
  classification_of_blocks

(** val m_getBlockNumber : bool -> classification -> int -> int outcome **)

let m_getBlockNumber =
  getBlockNumber

(** val m_getInnerState_label :
    bool -> classification -> int -> int outcome **)

let m_getInnerState_label =
  getInnerState_label

(** val m_hpart_prepare :
    (Float64.t -> Float64.t) -> bool -> classification -> fc poly -> int ->
    fc mat outcome **)

let m_hpart_prepare fexp fixed =
  hpart_prepare fixed (fops fexp) feps

(** val m_hpart_compute :
    (Float64.t -> Float64.t) -> fc mat -> (fc list * fc mat) -> fc list * fc
    mat **)

let m_hpart_compute fexp =
  hpart_compute (fops fexp) fre

(** val m_ground : (Float64.t -> Float64.t) -> fc hpart list -> fc outcome **)

let m_ground fexp =
  computeGroundEnergy (fops fexp)

(** val m_getEigenValue :
    bool -> classification -> fc hpart list -> int -> fc outcome **)

let m_getEigenValue =
  getEigenValue

(** val m_getEigenValues :
    classification -> fc hpart list -> fc list outcome **)

let m_getEigenValues =
  getEigenValues

(** val m_fo_prepare :
    (Float64.t -> Float64.t) -> bool -> classification -> fop -> (int * int)
    list outcome **)

let m_fo_prepare fexp fixed =
  fo_prepare fixed (fops fexp) feps

(** val m_fo_bimap : (int * int) list -> (int * int) list **)

let m_fo_bimap =
  fo_bimap

(** val m_fop_dense :
    (Float64.t -> Float64.t) -> bool -> classification -> fop -> int -> int
    -> fc mat -> fc mat -> fc mat outcome **)

let m_fop_dense fexp fixed =
  fop_dense fixed (fops fexp) feps

(** val m_prune : (Float64.t -> Float64.t) -> fc -> fc -> fc mat -> fc mat **)

let m_prune fexp =
  prune (fops fexp)

(** val m_keep : (Float64.t -> Float64.t) -> fc -> fc -> fc -> bool **)

let m_keep fexp =
  keep_entry (fops fexp)

(** val m_container_copy :
    (Float64.t -> Float64.t) -> (int -> int) -> (int * int) list ->
    ((int * int) * fc mat) list -> (int * int) list -> ((int * int) * fc mat
    option) list outcome **)

let m_container_copy fexp =
  container_copy (fops fexp)

(** val m_fop_poly : (Float64.t -> Float64.t) -> fop -> fc poly **)

let m_fop_poly fexp =
  fop_poly (fops fexp)

(** val s_poly_matrix :
    (Float64.t -> Float64.t) -> int -> (monomial * fc) list -> fc mat **)

let s_poly_matrix fexp =
  poly_matrix (fops fexp)

(** val s_restrict :
    (Float64.t -> Float64.t) -> fc mat -> int list -> int list -> fc mat **)

let s_restrict fexp =
  restrict (fops fexp)

(** val s_rotate_block :
    (Float64.t -> Float64.t) -> int -> int -> fc mat -> fc mat -> fc mat ->
    fc mat **)

let s_rotate_block fexp =
  rotate_block (fops fexp)

(** val s_rotate_back :
    (Float64.t -> Float64.t) -> int -> int -> fc mat -> fc mat -> fc mat ->
    fc mat **)

let s_rotate_back fexp =
  rotate_back (fops fexp)

(** val s_max_dev : (Float64.t -> Float64.t) -> fc mat -> fc mat -> fc **)

let s_max_dev fexp =
  max_dev (fops fexp)

(** val s_outside :
    (Float64.t -> Float64.t) -> fc mat -> (int -> int) -> (int * int) list ->
    int **)

let s_outside fexp =
  outside_blocks (fops fexp)

(** val s_assemble :
    (Float64.t -> Float64.t) -> int list -> ((int * int) * fc mat) list -> fc
    mat **)

let s_assemble fexp =
  assemble (fops fexp)

(** val s_anticomm :
    (Float64.t -> Float64.t) -> int -> fc mat -> fc mat -> fc mat **)

let s_anticomm fexp =
  anticomm (fops fexp)

(** val s_scalar : (Float64.t -> Float64.t) -> int -> fc -> fc mat **)

let s_scalar fexp =
  scalar_mat (fops fexp)

(** val s_residual_HU :
    (Float64.t -> Float64.t) -> int -> fc mat -> fc mat -> fc vec -> fc **)

let s_residual_HU fexp =
  residual_HU (fops fexp)

(** val s_residual_unitary :
    (Float64.t -> Float64.t) -> int -> fc mat -> fc **)

let s_residual_unitary fexp =
  residual_unitary (fops fexp)

(** val s_adjoint : (Float64.t -> Float64.t) -> int -> fc mat -> fc mat **)

let s_adjoint fexp =
  adjoint (fops fexp)

(** val s_max_abs : (Float64.t -> Float64.t) -> fc list -> fc **)

let s_max_abs fexp =
  max_abs (fops fexp)
