
(** val xorb : bool -> bool -> bool **)

let xorb b1 b2 =
  if b1 then if b2 then false else true else b2

(** val negb : bool -> bool **)

let negb = function
| true -> false
| false -> true

(** val fst : ('a1 * 'a2) -> 'a1 **)

let fst = function
| (x, _) -> x

(** val snd : ('a1 * 'a2) -> 'a2 **)

let snd = function
| (_, y) -> y

(** val length : 'a1 list -> int **)

let rec length = function
| [] -> 0
| _ :: l' -> Stdlib.Int.succ (length l')

(** val app : 'a1 list -> 'a1 list -> 'a1 list **)

let rec app l m =
  match l with
  | [] -> m
  | a :: l1 -> a :: (app l1 m)

type comparison =
| Eq
| Lt
| Gt

(** val compOpp : comparison -> comparison **)

let compOpp = function
| Eq -> Eq
| Lt -> Gt
| Gt -> Lt

(** val pred : int -> int **)

let pred = fun n -> Stdlib.max 0 (n-1)

(** val add : int -> int -> int **)

let rec add = (+)

(** val mul : int -> int -> int **)

let rec mul = ( * )

(** val sub : int -> int -> int **)

let rec sub = fun n m -> Stdlib.max 0 (n-m)

type positive =
| XI of positive
| XO of positive
| XH

type z =
| Z0
| Zpos of positive
| Zneg of positive

(** val eqb : bool -> bool -> bool **)

let eqb b1 b2 =
  if b1 then b2 else if b2 then false else true

module Nat =
 struct
  (** val add : int -> int -> int **)

  let rec add n m =
    (fun fO fS n -> if n=0 then fO () else fS (n-1))
      (fun _ -> m)
      (fun p -> Stdlib.Int.succ (add p m))
      n

  (** val mul : int -> int -> int **)

  let rec mul n m =
    (fun fO fS n -> if n=0 then fO () else fS (n-1))
      (fun _ -> 0)
      (fun p -> add m (mul p m))
      n

  (** val ltb : int -> int -> bool **)

  let ltb n m =
    (<=) (Stdlib.Int.succ n) m

  (** val even : int -> bool **)

  let rec even n =
    (fun fO fS n -> if n=0 then fO () else fS (n-1))
      (fun _ -> true)
      (fun n2 ->
      (fun fO fS n -> if n=0 then fO () else fS (n-1))
        (fun _ -> false)
        (fun n' -> even n')
        n2)
      n

  (** val odd : int -> bool **)

  let odd n =
    negb (even n)

  (** val pow : int -> int -> int **)

  let rec pow n m =
    (fun fO fS n -> if n=0 then fO () else fS (n-1))
      (fun _ -> Stdlib.Int.succ 0)
      (fun m0 -> mul n (pow n m0))
      m

  (** val div2 : int -> int **)

  let rec div2 = fun n -> n/2
 end

module Pos =
 struct
  (** val succ : positive -> positive **)

  let rec succ = function
  | XI p -> XO (succ p)
  | XO p -> XI p
  | XH -> XO XH

  (** val add : positive -> positive -> positive **)

  let rec add x y =
    match x with
    | XI p ->
      (match y with
       | XI q -> XO (add_carry p q)
       | XO q -> XI (add p q)
       | XH -> XO (succ p))
    | XO p ->
      (match y with
       | XI q -> XI (add p q)
       | XO q -> XO (add p q)
       | XH -> XI p)
    | XH -> (match y with
             | XI q -> XO (succ q)
             | XO q -> XI q
             | XH -> XO XH)

  (** val add_carry : positive -> positive -> positive **)

  and add_carry x y =
    match x with
    | XI p ->
      (match y with
       | XI q -> XI (add_carry p q)
       | XO q -> XO (add_carry p q)
       | XH -> XI (succ p))
    | XO p ->
      (match y with
       | XI q -> XO (add_carry p q)
       | XO q -> XI (add p q)
       | XH -> XO (succ p))
    | XH ->
      (match y with
       | XI q -> XI (succ q)
       | XO q -> XO (succ q)
       | XH -> XI XH)

  (** val pred_double : positive -> positive **)

  let rec pred_double = function
  | XI p -> XI (XO p)
  | XO p -> XI (pred_double p)
  | XH -> XH

  (** val mul : positive -> positive -> positive **)

  let rec mul x y =
    match x with
    | XI p -> add y (XO (mul p y))
    | XO p -> XO (mul p y)
    | XH -> y

  (** val iter : ('a1 -> 'a1) -> 'a1 -> positive -> 'a1 **)

  let rec iter f x = function
  | XI n' -> f (iter f (iter f x n') n')
  | XO n' -> iter f (iter f x n') n'
  | XH -> f x

  (** val compare_cont : comparison -> positive -> positive -> comparison **)

  let rec compare_cont r x y =
    match x with
    | XI p ->
      (match y with
       | XI q -> compare_cont r p q
       | XO q -> compare_cont Gt p q
       | XH -> Gt)
    | XO p ->
      (match y with
       | XI q -> compare_cont Lt p q
       | XO q -> compare_cont r p q
       | XH -> Gt)
    | XH -> (match y with
             | XH -> r
             | _ -> Lt)

  (** val compare : positive -> positive -> comparison **)

  let compare =
    compare_cont Eq

  (** val of_succ_nat : int -> positive **)

  let rec of_succ_nat n =
    (fun fO fS n -> if n=0 then fO () else fS (n-1))
      (fun _ -> XH)
      (fun x -> succ (of_succ_nat x))
      n
 end

module Z =
 struct
  (** val double : z -> z **)

  let double = function
  | Z0 -> Z0
  | Zpos p -> Zpos (XO p)
  | Zneg p -> Zneg (XO p)

  (** val succ_double : z -> z **)

  let succ_double = function
  | Z0 -> Zpos XH
  | Zpos p -> Zpos (XI p)
  | Zneg p -> Zneg (Pos.pred_double p)

  (** val pred_double : z -> z **)

  let pred_double = function
  | Z0 -> Zneg XH
  | Zpos p -> Zpos (Pos.pred_double p)
  | Zneg p -> Zneg (XI p)

  (** val pos_sub : positive -> positive -> z **)

  let rec pos_sub x y =
    match x with
    | XI p ->
      (match y with
       | XI q -> double (pos_sub p q)
       | XO q -> succ_double (pos_sub p q)
       | XH -> Zpos (XO p))
    | XO p ->
      (match y with
       | XI q -> pred_double (pos_sub p q)
       | XO q -> double (pos_sub p q)
       | XH -> Zpos (Pos.pred_double p))
    | XH ->
      (match y with
       | XI q -> Zneg (XO q)
       | XO q -> Zneg (Pos.pred_double q)
       | XH -> Z0)

  (** val add : z -> z -> z **)

  let add x y =
    match x with
    | Z0 -> y
    | Zpos x' ->
      (match y with
       | Z0 -> x
       | Zpos y' -> Zpos (Pos.add x' y')
       | Zneg y' -> pos_sub x' y')
    | Zneg x' ->
      (match y with
       | Z0 -> x
       | Zpos y' -> pos_sub y' x'
       | Zneg y' -> Zneg (Pos.add x' y'))

  (** val opp : z -> z **)

  let opp = function
  | Z0 -> Z0
  | Zpos x0 -> Zneg x0
  | Zneg x0 -> Zpos x0

  (** val mul : z -> z -> z **)

  let mul x y =
    match x with
    | Z0 -> Z0
    | Zpos x' ->
      (match y with
       | Z0 -> Z0
       | Zpos y' -> Zpos (Pos.mul x' y')
       | Zneg y' -> Zneg (Pos.mul x' y'))
    | Zneg x' ->
      (match y with
       | Z0 -> Z0
       | Zpos y' -> Zneg (Pos.mul x' y')
       | Zneg y' -> Zpos (Pos.mul x' y'))

  (** val pow_pos : z -> positive -> z **)

  let pow_pos z0 =
    Pos.iter (mul z0) (Zpos XH)

  (** val pow : z -> z -> z **)

  let pow x = function
  | Z0 -> Zpos XH
  | Zpos p -> pow_pos x p
  | Zneg _ -> Z0

  (** val compare : z -> z -> comparison **)

  let compare x y =
    match x with
    | Z0 -> (match y with
             | Z0 -> Eq
             | Zpos _ -> Lt
             | Zneg _ -> Gt)
    | Zpos x' -> (match y with
                  | Zpos y' -> Pos.compare x' y'
                  | _ -> Gt)
    | Zneg x' ->
      (match y with
       | Zneg y' -> compOpp (Pos.compare x' y')
       | _ -> Lt)

  (** val leb : z -> z -> bool **)

  let leb x y =
    match compare x y with
    | Gt -> false
    | _ -> true

  (** val of_nat : int -> z **)

  let of_nat n =
    (fun fO fS n -> if n=0 then fO () else fS (n-1))
      (fun _ -> Z0)
      (fun n2 -> Zpos (Pos.of_succ_nat n2))
      n
 end

(** val hd : 'a1 -> 'a1 list -> 'a1 **)

let hd default = function
| [] -> default
| x :: _ -> x

(** val tl : 'a1 list -> 'a1 list **)

let tl = function
| [] -> []
| _ :: m -> m

(** val nth : int -> 'a1 list -> 'a1 -> 'a1 **)

let rec nth n l default =
  (fun fO fS n -> if n=0 then fO () else fS (n-1))
    (fun _ -> match l with
              | [] -> default
              | x :: _ -> x)
    (fun m -> match l with
              | [] -> default
              | _ :: t -> nth m t default)
    n

(** val nth_error : 'a1 list -> int -> 'a1 option **)

let rec nth_error l n =
  (fun fO fS n -> if n=0 then fO () else fS (n-1))
    (fun _ -> match l with
              | [] -> None
              | x :: _ -> Some x)
    (fun n2 -> match l with
               | [] -> None
               | _ :: l0 -> nth_error l0 n2)
    n

(** val rev : 'a1 list -> 'a1 list **)

let rec rev = function
| [] -> []
| x :: l' -> app (rev l') (x :: [])

(** val map : ('a1 -> 'a2) -> 'a1 list -> 'a2 list **)

let rec map f = function
| [] -> []
| a :: t -> (f a) :: (map f t)

(** val flat_map : ('a1 -> 'a2 list) -> 'a1 list -> 'a2 list **)

let rec flat_map f = function
| [] -> []
| x :: t -> app (f x) (flat_map f t)

(** val fold_left : ('a1 -> 'a2 -> 'a1) -> 'a2 list -> 'a1 -> 'a1 **)

let rec fold_left f l a0 =
  match l with
  | [] -> a0
  | b :: t -> fold_left f t (f a0 b)

(** val forallb : ('a1 -> bool) -> 'a1 list -> bool **)

let rec forallb f = function
| [] -> true
| a :: l0 -> (&&) (f a) (forallb f l0)

(** val filter : ('a1 -> bool) -> 'a1 list -> 'a1 list **)

let rec filter f = function
| [] -> []
| x :: l0 -> if f x then x :: (filter f l0) else filter f l0

(** val combine : 'a1 list -> 'a2 list -> ('a1 * 'a2) list **)

let rec combine l l' =
  match l with
  | [] -> []
  | x :: tl0 ->
    (match l' with
     | [] -> []
     | y :: tl' -> (x, y) :: (combine tl0 tl'))

(** val seq : int -> int -> int list **)

let rec seq start len =
  (fun fO fS n -> if n=0 then fO () else fS (n-1))
    (fun _ -> [])
    (fun len0 -> start :: (seq (Stdlib.Int.succ start) len0))
    len

(** val sqrt : Float64.t -> Float64.t **)

let sqrt = Float64.sqrt

(** val opp0 : Float64.t -> Float64.t **)

let opp0 = Float64.opp

(** val ltb0 : Float64.t -> Float64.t -> bool **)

let ltb0 = Float64.lt

(** val mul0 : Float64.t -> Float64.t -> Float64.t **)

let mul0 = Float64.mul

(** val add0 : Float64.t -> Float64.t -> Float64.t **)

let add0 = Float64.add

(** val sub0 : Float64.t -> Float64.t -> Float64.t **)

let sub0 = Float64.sub

(** val div : Float64.t -> Float64.t -> Float64.t **)

let div = Float64.div

type 'a outcome =
| Done of 'a
| OOB
| Uninit
| Throws of int
| OutOfFuel

type op = bool * int

(** val op_ann : op -> bool **)

let op_ann =
  fst

(** val op_idx : op -> int **)

let op_idx =
  snd

(** val cdag : int -> op **)

let cdag i =
  (false, i)

(** val cann : int -> op **)

let cann i =
  (true, i)

type state = bool list

(** val upd : int -> bool -> state -> state **)

let rec upd i v = function
| [] -> []
| b :: t ->
  ((fun fO fS n -> if n=0 then fO () else fS (n-1))
     (fun _ -> v :: t)
     (fun j -> b :: (upd j v t))
     i)

(** val par : int -> state -> bool **)

let rec par n s =
  (fun fO fS n -> if n=0 then fO () else fS (n-1))
    (fun _ -> false)
    (fun m -> match s with
              | [] -> false
              | b :: t -> xorb b (par m t))
    n

(** val act_op : op -> state -> (bool * state) option outcome **)

let act_op o s =
  let i = op_idx o in
  if Nat.ltb i (length s)
  then let occ = nth i s false in
       if eqb occ (negb (op_ann o))
       then Done None
       else Done (Some ((par i s), (upd i (negb (op_ann o)) s)))
  else OOB

(** val act_mono : op list -> state -> (bool * state) option outcome **)

let rec act_mono m s =
  match m with
  | [] -> Done (Some (false, s))
  | o :: rest ->
    (match act_mono rest s with
     | Done a ->
       (match a with
        | Some p ->
          let (sg, s') = p in
          (match act_op o s' with
           | Done a0 ->
             (match a0 with
              | Some p0 ->
                let (sg', s'') = p0 in Done (Some ((xorb sg sg'), s''))
              | None -> Done None)
           | x -> x)
        | None -> Done None)
     | x -> x)

(** val state_of_nat : int -> int -> state **)

let rec state_of_nat m n =
  (fun fO fS n -> if n=0 then fO () else fS (n-1))
    (fun _ -> [])
    (fun m' -> (Nat.odd n) :: (state_of_nat m' (Nat.div2 n)))
    m

(** val nat_of_state : state -> int **)

let rec nat_of_state = function
| [] -> 0
| b :: t ->
  add (if b then Stdlib.Int.succ 0 else 0)
    (mul (Stdlib.Int.succ (Stdlib.Int.succ 0)) (nat_of_state t))

type monomial = op list

type 'k numops = { n0 : 'k; n1 : 'k; nadd : ('k -> 'k -> 'k);
                   nsub : ('k -> 'k -> 'k); nmul : ('k -> 'k -> 'k);
                   ndiv : ('k -> 'k -> 'k); nopp : ('k -> 'k);
                   nconj : ('k -> 'k); nexp : ('k -> 'k);
                   nre_ltb : ('k -> 'k -> bool); nabs : ('k -> 'k);
                   nofZ : (z -> 'k); nI : 'k }

type 'k vec = 'k list

type 'k mat = 'k list list

(** val ksum : 'a1 numops -> 'a2 list -> ('a2 -> 'a1) -> 'a1 **)

let ksum nO l f =
  fold_left (fun acc a -> nO.nadd acc (f a)) l nO.n0

(** val dot : 'a1 numops -> 'a1 vec -> 'a1 vec -> 'a1 **)

let dot nO u v =
  fold_left (fun acc ab -> nO.nadd acc (nO.nmul (fst ab) (snd ab)))
    (combine u v) nO.n0

(** val transpose_aux : 'a1 numops -> int -> 'a1 mat -> 'a1 mat **)

let rec transpose_aux nO n m =
  (fun fO fS n -> if n=0 then fO () else fS (n-1))
    (fun _ -> [])
    (fun n' ->
    (map (fun r -> hd nO.n0 r) m) :: (transpose_aux nO n' (map tl m)))
    n

(** val transpose : 'a1 numops -> int -> 'a1 mat -> 'a1 mat **)

let transpose =
  transpose_aux

(** val mmul : 'a1 numops -> int -> 'a1 mat -> 'a1 mat -> 'a1 mat **)

let mmul nO ncols_b a b =
  let bt = transpose nO ncols_b b in
  map (fun r -> map (fun c -> dot nO r c) bt) a

(** val adjoint : 'a1 numops -> int -> 'a1 mat -> 'a1 mat **)

let adjoint nO ncols m =
  map (map nO.nconj) (transpose nO ncols m)

(** val mget : 'a1 numops -> 'a1 mat -> int -> int -> 'a1 **)

let mget nO m i j =
  nth j (nth i m []) nO.n0

(** val idx : 'a1 list -> (int * 'a1) list **)

let idx l =
  combine (seq 0 (length l)) l

(** val mono_entry : int -> monomial -> int -> (bool * int) option **)

let mono_entry m m0 s =
  match act_mono m0 (state_of_nat m s) with
  | Done a ->
    (match a with
     | Some p -> let (sg, s') = p in Some (sg, (nat_of_state s'))
     | None -> None)
  | _ -> None

(** val poly_matrix :
    'a1 numops -> int -> (monomial * 'a1) list -> 'a1 mat **)

let poly_matrix nO m p =
  let dim = Nat.pow (Stdlib.Int.succ (Stdlib.Int.succ 0)) m in
  map (fun t ->
    map (fun s ->
      ksum nO p (fun mc ->
        match mono_entry m (fst mc) s with
        | Some p0 ->
          let (sg, t') = p0 in
          if (=) t' t then if sg then nO.nopp (snd mc) else snd mc else nO.n0
        | None -> nO.n0)) (seq 0 dim)) (seq 0 dim)

(** val op_matrix : 'a1 numops -> int -> op -> 'a1 mat **)

let op_matrix nO m o =
  poly_matrix nO m (((o :: []), nO.n1) :: [])

(** val min_re : 'a1 numops -> 'a1 list -> 'a1 **)

let min_re nO l =
  fold_left (fun acc x -> if nO.nre_ltb x acc then x else acc) (tl l)
    (hd nO.n0 l)

(** val weights : 'a1 numops -> 'a1 -> 'a1 vec -> 'a1 vec **)

let weights nO beta e =
  let e0 = min_re nO e in
  let u = map (fun e1 -> nO.nexp (nO.nopp (nO.nmul beta (nO.nsub e1 e0)))) e
  in
  let z0 = ksum nO u (fun x -> x) in map (fun x -> nO.ndiv x z0) u

(** val rotate : 'a1 numops -> int -> 'a1 mat -> 'a1 mat -> 'a1 mat **)

let rotate nO dim u om =
  mmul nO dim (adjoint nO dim u) (mmul nO dim om u)

type fc = Float64.t * Float64.t

(** val fadd : fc -> fc -> fc **)

let fadd a b =
  ((add0 (fst a) (fst b)), (add0 (snd a) (snd b)))

(** val fsub : fc -> fc -> fc **)

let fsub a b =
  ((sub0 (fst a) (fst b)), (sub0 (snd a) (snd b)))

(** val fmul : fc -> fc -> fc **)

let fmul a b =
  ((sub0 (mul0 (fst a) (fst b)) (mul0 (snd a) (snd b))),
    (add0 (mul0 (fst a) (snd b)) (mul0 (snd a) (fst b))))

(** val fdiv : fc -> fc -> fc **)

let fdiv a b =
  let d = add0 (mul0 (fst b) (fst b)) (mul0 (snd b) (snd b)) in
  ((div (add0 (mul0 (fst a) (fst b)) (mul0 (snd a) (snd b))) d),
  (div (sub0 (mul0 (snd a) (fst b)) (mul0 (fst a) (snd b))) d))

(** val fopp : fc -> fc **)

let fopp a =
  ((opp0 (fst a)), (opp0 (snd a)))

(** val fconj : fc -> fc **)

let fconj a =
  ((fst a), (opp0 (snd a)))

(** val fabs : fc -> fc **)

let fabs a =
  ((sqrt (add0 (mul0 (fst a) (fst a)) (mul0 (snd a) (snd a)))),
    (Float64.of_float (0x0p+0)))

(** val pos_to_float : positive -> Float64.t **)

let rec pos_to_float = function
| XI q ->
  add0 (mul0 (Float64.of_float (0x1p+1)) (pos_to_float q))
    (Float64.of_float (0x1p+0))
| XO q -> mul0 (Float64.of_float (0x1p+1)) (pos_to_float q)
| XH -> (Float64.of_float (0x1p+0))

(** val fofZ : z -> fc **)

let fofZ z0 =
  ((match z0 with
    | Z0 -> (Float64.of_float (0x0p+0))
    | Zpos p -> pos_to_float p
    | Zneg p -> opp0 (pos_to_float p)), (Float64.of_float (0x0p+0)))

(** val fops : (Float64.t -> Float64.t) -> fc numops **)

let fops fexp =
  { n0 = ((Float64.of_float (0x0p+0)), (Float64.of_float (0x0p+0))); n1 =
    ((Float64.of_float (0x1p+0)), (Float64.of_float (0x0p+0))); nadd = fadd;
    nsub = fsub; nmul = fmul; ndiv = fdiv; nopp = fopp; nconj = fconj; nexp =
    (fun a -> ((fexp (fst a)), (Float64.of_float (0x0p+0)))); nre_ltb =
    (fun a b -> ltb0 (fst a) (fst b)); nabs = fabs; nofZ = fofZ; nI =
    ((Float64.of_float (0x0p+0)), (Float64.of_float (0x1p+0))) }

(** val lit_dec : 'a1 numops -> z -> z -> 'a1 **)

let lit_dec nO m e =
  if Z.leb Z0 e
  then nO.nmul (nO.nofZ m) (nO.nofZ (Z.pow (Zpos (XO (XI (XO XH)))) e))
  else nO.ndiv (nO.nofZ m)
         (nO.nofZ (Z.pow (Zpos (XO (XI (XO XH)))) (Z.opp e)))

(** val lit_nat : 'a1 numops -> int -> 'a1 **)

let lit_nat nO n =
  nO.nofZ (Z.of_nat n)

type 'v cs = { cs_inner : int; cs_ptr : int list; cs_idx : int list;
               cs_val : 'v list }

(** val cs_outer : 'a1 cs -> int **)

let cs_outer m =
  pred (length m.cs_ptr)

(** val ptr_at : 'a1 cs -> int -> int **)

let ptr_at m o =
  nth o m.cs_ptr 0

(** val mono_b : int list -> bool **)

let rec mono_b = function
| [] -> true
| a :: r -> (match r with
             | [] -> true
             | b :: _ -> (&&) ((<=) a b) (mono_b r))

(** val incr_from : int list -> int -> int -> bool **)

let rec incr_from idx0 p n =
  (fun fO fS n -> if n=0 then fO () else fS (n-1))
    (fun _ -> true)
    (fun n' ->
    (&&) (Nat.ltb (nth p idx0 0) (nth (Stdlib.Int.succ p) idx0 0))
      (incr_from idx0 (Stdlib.Int.succ p) n'))
    n

(** val cs_wf_b : 'a1 cs -> bool **)

let cs_wf_b m =
  match m.cs_ptr with
  | [] -> false
  | _ :: _ ->
    (&&)
      ((&&)
        ((&&)
          ((&&) (mono_b m.cs_ptr)
            ((=) (ptr_at m (cs_outer m)) (length m.cs_idx)))
          ((=) (length m.cs_val) (length m.cs_idx)))
        (forallb (fun o ->
          incr_from m.cs_idx (ptr_at m o)
            (pred (sub (ptr_at m (Stdlib.Int.succ o)) (ptr_at m o))))
          (seq 0 (cs_outer m))))
      (forallb (fun i -> Nat.ltb i m.cs_inner) m.cs_idx)

type 'a read =
| Val of 'a
| PastEnd of 'a
| ROOB

(** val rd : 'a1 cs -> int -> int -> int read **)

let rd m e id =
  match nth_error m.cs_idx id with
  | Some v -> if Nat.ltb id e then Val v else PastEnd v
  | None -> ROOB

(** val rdv : 'a1 cs -> int -> 'a1 option **)

let rdv m id =
  nth_error m.cs_val id

(** val iter_begin : 'a1 cs -> int -> (int * int) option **)

let iter_begin m o =
  match nth_error m.cs_ptr o with
  | Some s ->
    (match nth_error m.cs_ptr (Stdlib.Int.succ o) with
     | Some e -> Some (s, e)
     | None -> None)
  | None -> None

type side =
| SideA
| SideB

type 'a wres =
| WDone of 'a
| WPastEnd of side * int
| WOOB of side * int
| WFuel

(** val wmap : ('a1 -> 'a2) -> 'a1 wres -> 'a2 wres **)

let wmap f = function
| WDone a -> WDone (f a)
| WPastEnd (s, p) -> WPastEnd (s, p)
| WOOB (s, p) -> WOOB (s, p)
| WFuel -> WFuel

(** val wbind : 'a1 wres -> ('a1 -> 'a2 wres) -> 'a2 wres **)

let wbind r f =
  match r with
  | WDone a -> f a
  | WPastEnd (s, p) -> WPastEnd (s, p)
  | WOOB (s, p) -> WOOB (s, p)
  | WFuel -> WFuel

(** val chase :
    bool -> bool -> side -> 'a1 cs -> int -> int -> int -> int -> int wres **)

let rec chase fixed lenient sd m e target fuel id =
  (fun fO fS n -> if n=0 then fO () else fS (n-1))
    (fun _ -> WFuel)
    (fun f ->
    if (&&) fixed (negb (Nat.ltb id e))
    then WDone id
    else (match rd m e id with
          | Val j ->
            if Nat.ltb j target
            then chase fixed lenient sd m e target f (Stdlib.Int.succ id)
            else WDone id
          | PastEnd j ->
            if lenient
            then if Nat.ltb j target
                 then chase fixed lenient sd m e target f (Stdlib.Int.succ id)
                 else WDone id
            else WPastEnd (sd, id)
          | ROOB -> WOOB (sd, id)))
    fuel

(** val chase_fuel : 'a1 cs -> int **)

let chase_fuel m =
  Stdlib.Int.succ (Stdlib.Int.succ (length m.cs_idx))

(** val wcons : 'a1 -> 'a1 list wres -> 'a1 list wres **)

let wcons x r =
  wmap (fun x0 -> x :: x0) r

(** val walk :
    bool -> bool -> 'a1 cs -> 'a2 cs -> int -> int -> int -> int -> int ->
    (int * int) list wres **)

let rec walk fixed lenient a b pe qe fuel p q =
  (fun fO fS n -> if n=0 then fO () else fS (n-1))
    (fun _ -> WFuel)
    (fun f ->
    if (&&) (Nat.ltb p pe) (Nat.ltb q qe)
    then (match rd a pe p with
          | Val i ->
            (match rd b qe q with
             | Val j ->
               if (=) i j
               then wcons (p, q)
                      (walk fixed lenient a b pe qe f (Stdlib.Int.succ p)
                        (Stdlib.Int.succ q))
               else if Nat.ltb j i
                    then wbind
                           (chase fixed lenient SideB b qe i (chase_fuel b) q)
                           (fun q' -> walk fixed lenient a b pe qe f p q')
                    else wbind
                           (chase fixed lenient SideA a pe j (chase_fuel a) p)
                           (fun p' -> walk fixed lenient a b pe qe f p' q)
             | PastEnd _ -> WPastEnd (SideB, q)
             | ROOB -> WOOB (SideB, q))
          | PastEnd _ -> WPastEnd (SideA, p)
          | ROOB -> WOOB (SideA, p))
    else WDone [])
    fuel

(** val walk_fuel : int -> int -> int -> int -> int **)

let walk_fuel p pe q qe =
  Stdlib.Int.succ (add (sub pe p) (sub qe q))

(** val walk_outer :
    bool -> bool -> 'a1 cs -> 'a2 cs -> int -> (int * int) list wres **)

let walk_outer fixed lenient a b o =
  match iter_begin a o with
  | Some p0 ->
    let (p, pe) = p0 in
    (match iter_begin b o with
     | Some p1 ->
       let (q, qe) = p1 in
       walk fixed lenient a b pe qe (walk_fuel p pe q qe) p q
     | None -> WOOB (SideB, o))
  | None -> WOOB (SideA, o)

(** val part_walk_from :
    bool -> bool -> 'a1 cs -> 'a2 cs -> int -> int -> (int * (int * int))
    list wres **)

let rec part_walk_from fixed lenient a b n o =
  (fun fO fS n -> if n=0 then fO () else fS (n-1))
    (fun _ -> WDone [])
    (fun n' ->
    wbind (walk_outer fixed lenient a b o) (fun l ->
      wmap (fun rest -> app (map (fun pq -> (o, pq)) l) rest)
        (part_walk_from fixed lenient a b n' (Stdlib.Int.succ o))))
    n

(** val part_walk :
    bool -> bool -> 'a1 cs -> 'a2 cs -> (int * (int * int)) list wres **)

let part_walk fixed lenient a b =
  part_walk_from fixed lenient a b (cs_outer a) 0

type ('p, 'c) term = 'p * 'c

(** val pole : ('a1, 'a2) term -> 'a1 **)

let pole =
  fst

(** val residue : ('a1, 'a2) term -> 'a2 **)

let residue =
  snd

(** val scan :
    (('a1, 'a2) term -> bool) -> ('a1, 'a2) term list -> ('a1, 'a2) term
    list * ('a1, 'a2) term list **)

let rec scan pred0 = function
| [] -> ([], [])
| x :: r ->
  if pred0 x
  then ([], (x :: r))
  else let ba = scan pred0 r in ((x :: (fst ba)), (snd ba))

type ('p, 'c) ins_res =
| Inserted of ('p, 'c) term list
| Blocked of ('p, 'c) term list * ('p, 'c) term * ('p, 'c) term list

(** val set_insert_res :
    ('a1 -> 'a1 -> bool) -> ('a1, 'a2) term -> ('a1, 'a2) term list -> ('a1,
    'a2) ins_res **)

let set_insert_res comp t l =
  let ba = scan (fun x -> comp (pole t) (pole x)) l in
  (match rev (fst ba) with
   | [] -> Inserted (t :: l)
   | j :: rb ->
     if comp (pole j) (pole t)
     then Inserted (app (fst ba) (t :: (snd ba)))
     else Blocked ((rev rb), j, (snd ba)))

type final =
| FinInserted
| FinNegligible
| FinFuel

type ('p, 'c) event =
| EvChain of (('p, 'c) term * ('p, 'c) term) list * final

(** val add_term_loop :
    ('a1 -> 'a1 -> bool) -> ('a2 -> int -> bool) -> ('a2 -> 'a2 -> 'a2) ->
    int -> ('a1, 'a2) term -> ('a1, 'a2) term list -> ('a1, 'a2) term
    list * ((('a1, 'a2) term * ('a1, 'a2) term) list * final) **)

let rec add_term_loop comp negl cadd fuel sum l =
  match set_insert_res comp sum l with
  | Inserted l' -> (l', ([], FinInserted))
  | Blocked (b, e, a) ->
    let reduced = ((pole e), (cadd (residue e) (residue sum))) in
    let l' = app b a in
    if negl (residue reduced) (add (length l') (Stdlib.Int.succ 0))
    then (l', (((e, reduced) :: []), FinNegligible))
    else ((fun fO fS n -> if n=0 then fO () else fS (n-1))
            (fun _ -> (l', (((e, reduced) :: []), FinFuel)))
            (fun f ->
            let r = add_term_loop comp negl cadd f reduced l' in
            ((fst r), (((e, reduced) :: (fst (snd r))), (snd (snd r)))))
            fuel)

(** val add_term :
    ('a1 -> 'a1 -> bool) -> ('a2 -> int -> bool) -> ('a2 -> 'a2 -> 'a2) ->
    ('a1, 'a2) term -> ('a1, 'a2) term list -> ('a1, 'a2) term list * ('a1,
    'a2) event **)

let add_term comp negl cadd t l =
  let r = add_term_loop comp negl cadd (length l) t l in
  ((fst r), (EvChain ((fst (snd r)), (snd (snd r)))))

(** val add_terms :
    ('a1 -> 'a1 -> bool) -> ('a2 -> int -> bool) -> ('a2 -> 'a2 -> 'a2) ->
    ('a1, 'a2) term list -> ('a1, 'a2) term list -> ('a1, 'a2) term
    list * ('a1, 'a2) event list **)

let rec add_terms comp negl cadd ts l =
  match ts with
  | [] -> (l, [])
  | t :: r ->
    let s = add_term comp negl cadd t l in
    let s' = add_terms comp negl cadd r (fst s) in
    ((fst s'), ((snd s) :: (snd s')))

(** val eval :
    'a3 -> ('a3 -> 'a3 -> 'a3) -> (('a1, 'a2) term -> 'a3) -> ('a1, 'a2) term
    list -> 'a3 **)

let eval k0 kadd f l =
  fold_left (fun acc t -> kadd acc (f t)) l k0

(** val gf_term_eval : 'a1 numops -> 'a1 -> 'a1 -> 'a1 -> 'a1 **)

let gf_term_eval nO residue0 pole0 frequency =
  nO.ndiv residue0 (nO.nsub frequency pole0)

(** val gf_term_tau : 'a1 numops -> 'a1 -> 'a1 -> 'a1 -> 'a1 -> 'a1 **)

let gf_term_tau nO residue0 pole0 tau beta =
  if nO.nre_ltb nO.n0 pole0
  then nO.ndiv
         (nO.nmul (nO.nopp residue0) (nO.nexp (nO.nmul (nO.nopp tau) pole0)))
         (nO.nadd nO.n1 (nO.nexp (nO.nmul (nO.nopp beta) pole0)))
  else nO.ndiv
         (nO.nmul (nO.nopp residue0)
           (nO.nexp (nO.nmul (nO.nsub beta tau) pole0)))
         (nO.nadd (nO.nexp (nO.nmul beta pole0)) nO.n1)

(** val gf_term_add : 'a1 numops -> 'a1 -> 'a1 -> 'a1 **)

let gf_term_add nO residue0 anotherResidue =
  nO.nadd residue0 anotherResidue

(** val gf_compare : 'a1 numops -> 'a1 -> 'a1 -> 'a1 -> bool **)

let gf_compare nO tolerance p1 p2 =
  negb (nO.nre_ltb (nO.nsub p2 p1) tolerance)

(** val gf_negligible : 'a1 numops -> 'a1 -> 'a1 -> int -> bool **)

let gf_negligible nO tolerance residue0 toleranceDivisor =
  nO.nre_ltb (nO.nabs residue0)
    (nO.ndiv tolerance (lit_nat nO toleranceDivisor))

(** val gf_tol_compare : 'a1 numops -> 'a1 **)

let gf_tol_compare nO =
  lit_dec nO (Zpos XH) (Zneg (XO (XO (XO XH))))

(** val gf_tol_negligible : 'a1 numops -> 'a1 **)

let gf_tol_negligible nO =
  lit_dec nO (Zpos XH) (Zneg (XO (XO (XO XH))))

(** val gf_MatrixElementTolerance : 'a1 numops -> 'a1 **)

let gf_MatrixElementTolerance nO =
  lit_dec nO (Zpos XH) (Zneg (XO (XO (XO XH))))

(** val gf_ReduceResonanceTolerance : 'a1 numops -> 'a1 **)

let gf_ReduceResonanceTolerance nO =
  lit_dec nO (Zpos XH) (Zneg (XO (XO (XO XH))))

(** val gf_residue :
    'a1 numops -> 'a1 -> 'a1 -> (int -> 'a1) -> (int -> 'a1) -> int -> int ->
    'a1 **)

let gf_residue nO va vb wO wI index1 index2 =
  nO.nmul (nO.nmul va vb) (nO.nadd (wO index1) (wI index2))

(** val gf_pole :
    'a1 numops -> (int -> 'a1) -> (int -> 'a1) -> int -> int -> 'a1 **)

let gf_pole nO eO eI index1 index2 =
  nO.nsub (eI index2) (eO index1)

(** val gf_relevant : 'a1 numops -> 'a1 -> 'a1 -> bool **)

let gf_relevant nO matrixElementTolerance residue0 =
  nO.nre_ltb matrixElementTolerance (nO.nabs residue0)

(** val gf_chase_guarded : bool **)

let gf_chase_guarded =
  true

(** val gf_part_eval : 'a1 -> 'a1 **)

let gf_part_eval terms_at_z =
  terms_at_z

(** val gf_part_tau : 'a1 -> 'a1 **)

let gf_part_tau terms_at_tau =
  terms_at_tau

(** val susc_term_eval : 'a1 numops -> 'a1 -> 'a1 -> 'a1 -> 'a1 **)

let susc_term_eval nO residue0 pole0 frequency =
  nO.ndiv (nO.nopp residue0) (nO.nsub frequency pole0)

(** val susc_term_tau : 'a1 numops -> 'a1 -> 'a1 -> 'a1 -> 'a1 -> 'a1 **)

let susc_term_tau nO residue0 pole0 tau beta =
  if nO.nre_ltb nO.n0 pole0
  then nO.ndiv (nO.nmul residue0 (nO.nexp (nO.nmul (nO.nopp tau) pole0)))
         (nO.nsub nO.n1 (nO.nexp (nO.nmul (nO.nopp beta) pole0)))
  else nO.ndiv
         (nO.nmul residue0 (nO.nexp (nO.nmul (nO.nsub beta tau) pole0)))
         (nO.nsub (nO.nexp (nO.nmul beta pole0)) nO.n1)

(** val susc_term_add : 'a1 numops -> 'a1 -> 'a1 -> 'a1 **)

let susc_term_add nO residue0 anotherResidue =
  nO.nadd residue0 anotherResidue

(** val susc_compare : 'a1 numops -> 'a1 -> 'a1 -> 'a1 -> bool **)

let susc_compare nO tolerance p1 p2 =
  negb (nO.nre_ltb (nO.nsub p2 p1) tolerance)

(** val susc_negligible : 'a1 numops -> 'a1 -> 'a1 -> int -> bool **)

let susc_negligible nO tolerance residue0 toleranceDivisor =
  nO.nre_ltb (nO.nabs residue0)
    (nO.ndiv tolerance (lit_nat nO toleranceDivisor))

(** val susc_tol_compare : 'a1 numops -> 'a1 **)

let susc_tol_compare nO =
  lit_dec nO (Zpos XH) (Zneg (XO (XO (XO XH))))

(** val susc_tol_negligible : 'a1 numops -> 'a1 **)

let susc_tol_negligible nO =
  lit_dec nO (Zpos XH) (Zneg (XO (XO (XO XH))))

(** val susc_MatrixElementTolerance : 'a1 numops -> 'a1 **)

let susc_MatrixElementTolerance nO =
  lit_dec nO (Zpos XH) (Zneg (XO (XO (XO XH))))

(** val susc_ReduceResonanceTolerance : 'a1 numops -> 'a1 **)

let susc_ReduceResonanceTolerance nO =
  lit_dec nO (Zpos XH) (Zneg (XO (XO (XO XH))))

(** val susc_residue :
    'a1 numops -> 'a1 -> 'a1 -> (int -> 'a1) -> (int -> 'a1) -> int -> int ->
    'a1 **)

let susc_residue nO va vb wO wI index1 index2 =
  nO.nmul (nO.nmul va vb) (nO.nsub (wO index1) (wI index2))

(** val susc_pole :
    'a1 numops -> (int -> 'a1) -> (int -> 'a1) -> int -> int -> 'a1 **)

let susc_pole nO eO eI index1 index2 =
  nO.nsub (eI index2) (eO index1)

(** val susc_relevant : 'a1 numops -> 'a1 -> 'a1 -> bool **)

let susc_relevant nO matrixElementTolerance residue0 =
  nO.nre_ltb matrixElementTolerance (nO.nabs residue0)

(** val susc_is_zero_pole : 'a1 numops -> 'a1 -> 'a1 -> bool **)

let susc_is_zero_pole nO reduceResonanceTolerance pole0 =
  nO.nre_ltb (nO.nabs pole0) reduceResonanceTolerance

(** val susc_zero_weight :
    'a1 numops -> 'a1 -> 'a1 -> (int -> 'a1) -> (int -> 'a1) -> int -> int ->
    'a1 **)

let susc_zero_weight nO va vb wO _ index1 _ =
  nO.nmul (nO.nmul va vb) (wO index1)

(** val susc_chase_guarded : bool **)

let susc_chase_guarded =
  true

(** val susc_part_eval : 'a1 numops -> 'a1 -> 'a1 -> 'a1 -> 'a1 -> 'a1 **)

let susc_part_eval nO terms_at_z zeroPoleWeight beta z0 =
  nO.nadd terms_at_z
    (if nO.nre_ltb (nO.nabs z0)
          (lit_dec nO (Zpos XH) (Zneg (XI (XI (XI XH)))))
     then nO.nmul zeroPoleWeight beta
     else nO.n0)

(** val susc_part_tau : 'a1 numops -> 'a1 -> 'a1 -> 'a1 **)

let susc_part_tau nO terms_at_tau zeroPoleWeight =
  nO.nadd terms_at_tau zeroPoleWeight

(** val susc_subtract :
    'a1 numops -> 'a1 -> 'a1 -> 'a1 -> 'a1 -> 'a1 -> 'a1 **)

let susc_subtract nO value ave_A ave_B beta z0 =
  if nO.nre_ltb (nO.nabs z0) (lit_dec nO (Zpos XH) (Zneg (XI (XI (XI XH)))))
  then nO.nsub value (nO.nmul (nO.nmul ave_A ave_B) beta)
  else value

(** val susc_subtract_tau : 'a1 numops -> 'a1 -> 'a1 -> 'a1 -> 'a1 **)

let susc_subtract_tau nO value ave_A ave_B =
  nO.nsub value (nO.nmul ave_A ave_B)

(** val susc_total_matsubara_mult : z -> z **)

let susc_total_matsubara_mult n =
  Z.mul (Zpos (XO XH)) n

(** val gf_total_matsubara_mult : z -> z **)

let gf_total_matsubara_mult n =
  Z.add (Z.mul (Zpos (XO XH)) n) (Zpos XH)

(** val matsubara_spacing : 'a1 numops -> 'a1 -> 'a1 -> 'a1 -> 'a1 **)

let matsubara_spacing nO kI kpi beta =
  nO.ndiv (nO.nmul kI kpi) beta

(** val chaseIndices_guarded : bool **)

let chaseIndices_guarded =
  true

(** val all_some : 'a1 option list -> 'a1 list option **)

let rec all_some = function
| [] -> Some []
| o :: r ->
  (match o with
   | Some a ->
     (match all_some r with
      | Some r' -> Some (a :: r')
      | None -> None)
   | None -> None)

type 'k gterm = ('k, 'k) term

type 'k part_in = { p_C : 'k cs; p_CX : 'k cs; p_eO : 'k list;
                    p_eI : 'k list; p_wO : 'k list; p_wI : 'k list }

type 'k tols = { t_matrix_element : 'k; t_compare : 'k; t_negligible : 
                 'k; t_resonance : 'k }

(** val gf_tols_cpp : 'a1 numops -> 'a1 tols **)

let gf_tols_cpp nO =
  { t_matrix_element = (gf_MatrixElementTolerance nO); t_compare =
    (gf_tol_compare nO); t_negligible = (gf_tol_negligible nO); t_resonance =
    (gf_ReduceResonanceTolerance nO) }

(** val gf_match :
    'a1 numops -> 'a1 tols -> 'a1 part_in -> (int * (int * int)) ->
    (bool * 'a1 gterm) option **)

let gf_match nO t inp m =
  let index1 = fst m in
  let p = fst (snd m) in
  let q = snd (snd m) in
  (match rdv inp.p_C p with
   | Some va ->
     (match rdv inp.p_CX q with
      | Some vb ->
        (match nth_error inp.p_C.cs_idx p with
         | Some index2 ->
           (match nth_error inp.p_wO index1 with
            | Some _ ->
              (match nth_error inp.p_wI index2 with
               | Some _ ->
                 (match nth_error inp.p_eO index1 with
                  | Some _ ->
                    (match nth_error inp.p_eI index2 with
                     | Some _ ->
                       let rd_ = fun l i -> nth i l nO.n0 in
                       let residue0 =
                         gf_residue nO va vb (rd_ inp.p_wO) (rd_ inp.p_wI)
                           index1 index2
                       in
                       let pole0 =
                         gf_pole nO (rd_ inp.p_eO) (rd_ inp.p_eI) index1
                           index2
                       in
                       Some ((gf_relevant nO t.t_matrix_element residue0),
                       (pole0, residue0))
                     | None -> None)
                  | None -> None)
               | None -> None)
            | None -> None)
         | None -> None)
      | None -> None)
   | None -> None)

(** val kept : (bool * 'a1 gterm) list -> 'a1 gterm list **)

let kept l =
  map snd (filter fst l)

(** val dropped : (bool * 'a1 gterm) list -> 'a1 gterm list **)

let dropped l =
  map snd (filter (fun x -> negb (fst x)) l)

(** val gf_add_terms :
    'a1 numops -> 'a1 tols -> 'a1 gterm list -> 'a1 gterm list * ('a1, 'a1)
    event list **)

let gf_add_terms nO t ts =
  add_terms (gf_compare nO t.t_compare) (gf_negligible nO t.t_negligible)
    (gf_term_add nO) ts []

type 'k part_out = { o_terms : 'k gterm list; o_raw : (bool * 'k gterm) list;
                     o_events : ('k, 'k) event list }

(** val gf_part_compute :
    'a1 numops -> bool -> bool -> 'a1 tols -> 'a1 part_in -> 'a1 part_out wres **)

let gf_part_compute nO fixed lenient t inp =
  wbind (part_walk fixed lenient inp.p_C inp.p_CX) (fun l ->
    match all_some (map (gf_match nO t inp) l) with
    | Some raw ->
      let r = gf_add_terms nO t (kept raw) in
      WDone { o_terms = (fst r); o_raw = raw; o_events = (snd r) }
    | None -> WOOB (SideA, 0))

(** val gf_terms_eval : 'a1 numops -> 'a1 gterm list -> 'a1 -> 'a1 **)

let gf_terms_eval nO terms z0 =
  eval nO.n0 nO.nadd (fun t -> gf_term_eval nO (snd t) (fst t) z0) terms

(** val gf_terms_tau : 'a1 numops -> 'a1 gterm list -> 'a1 -> 'a1 -> 'a1 **)

let gf_terms_tau nO terms tau beta =
  eval nO.n0 nO.nadd (fun t -> gf_term_tau nO (snd t) (fst t) tau beta) terms

(** val gf_part_value : 'a1 numops -> 'a1 part_out -> 'a1 -> 'a1 **)

let gf_part_value nO o z0 =
  gf_part_eval (gf_terms_eval nO o.o_terms z0)

(** val gf_part_value_tau :
    'a1 numops -> 'a1 part_out -> 'a1 -> 'a1 -> 'a1 **)

let gf_part_value_tau nO o tau beta =
  gf_part_tau (gf_terms_tau nO o.o_terms tau beta)

(** val stripes :
    int -> (int * int) list -> (int * int) list -> (int * int) list option **)

let rec stripes fuel cl cxr =
  (fun fO fS n -> if n=0 then fO () else fS (n-1))
    (fun _ ->
    match cl with
    | [] -> Some []
    | _ :: _ -> (match cxr with
                 | [] -> Some []
                 | _ :: _ -> None))
    (fun f ->
    match cl with
    | [] -> Some []
    | p :: cl' ->
      let (cleft, cright) = p in
      (match cxr with
       | [] -> Some []
       | p0 :: cxr' ->
         let (cXright, cXleft) = p0 in
         let sel =
           if (&&) ((=) cleft cXright) ((=) cright cXleft)
           then (cleft, cright) :: []
           else []
         in
         let cl2 = if (<=) cleft cXright then cl' else cl in
         let cxr2 = if (<=) cXright cleft then cxr' else cxr in
         (match stripes f cl2 cxr2 with
          | Some r -> Some (app sel r)
          | None -> None)))
    fuel

(** val stripes_fuel : (int * int) list -> (int * int) list -> int **)

let stripes_fuel cl cxr =
  add (length cl) (length cxr)

type 'k gf_in = { g_cl : (int * int) list; g_cxr : (int * int) list;
                  g_cpart : (int -> 'k cs option);
                  g_cxpart : (int -> 'k cs option); g_E : (int -> 'k list);
                  g_W : (int -> 'k list); g_ret : (int -> bool) }

(** val gf_prepare : 'a1 gf_in -> ((int * int) * 'a1 part_in) list option **)

let gf_prepare g =
  match stripes (stripes_fuel g.g_cl g.g_cxr) g.g_cl g.g_cxr with
  | Some sel ->
    all_some
      (map (fun lr ->
        match g.g_cpart (fst lr) with
        | Some c ->
          (match g.g_cxpart (fst lr) with
           | Some cx ->
             Some (lr, { p_C = c; p_CX = cx; p_eO = (g.g_E (fst lr)); p_eI =
               (g.g_E (snd lr)); p_wO = (g.g_W (fst lr)); p_wI =
               (g.g_W (snd lr)) })
           | None -> None)
        | None -> None)
        (filter (fun lr -> (||) (g.g_ret (fst lr)) (g.g_ret (snd lr))) sel))
  | None -> None

(** val compute_parts :
    'a1 numops -> bool -> bool -> 'a1 tols -> ((int * int) * 'a1 part_in)
    list -> ((int * int) * 'a1 part_out) list wres **)

let rec compute_parts nO fixed lenient t = function
| [] -> WDone []
| p :: r ->
  let (lr, inp) = p in
  wbind (gf_part_compute nO fixed lenient t inp) (fun o ->
    wmap (fun x -> (lr, o) :: x) (compute_parts nO fixed lenient t r))

(** val gf_compute :
    'a1 numops -> bool -> bool -> 'a1 tols -> 'a1 gf_in -> ((int * int) * 'a1
    part_out) list wres **)

let gf_compute nO fixed lenient t g =
  match gf_prepare g with
  | Some ps -> compute_parts nO fixed lenient t ps
  | None -> WOOB (SideA, 0)

(** val gf_value :
    'a1 numops -> ((int * int) * 'a1 part_out) list -> 'a1 -> 'a1 **)

let gf_value nO parts z0 =
  match parts with
  | [] -> nO.n0
  | _ :: _ ->
    fold_left (fun acc p -> nO.nadd acc (gf_part_value nO (snd p) z0)) parts
      nO.n0

(** val gf_value_tau :
    'a1 numops -> ((int * int) * 'a1 part_out) list -> 'a1 -> 'a1 -> 'a1 **)

let gf_value_tau nO parts tau beta =
  match parts with
  | [] -> nO.n0
  | _ :: _ ->
    fold_left (fun acc p ->
      nO.nadd acc (gf_part_value_tau nO (snd p) tau beta)) parts nO.n0

(** val gf_matsubara : 'a1 numops -> 'a1 -> 'a1 -> z -> 'a1 **)

let gf_matsubara nO kpi beta n =
  nO.nmul (matsubara_spacing nO nO.nI kpi beta)
    (nO.nofZ (gf_total_matsubara_mult n))

(** val susc_tols_cpp : 'a1 numops -> 'a1 tols **)

let susc_tols_cpp nO =
  { t_matrix_element = (susc_MatrixElementTolerance nO); t_compare =
    (susc_tol_compare nO); t_negligible = (susc_tol_negligible nO);
    t_resonance = (susc_ReduceResonanceTolerance nO) }

type 'k smatch =
| SZero of 'k * 'k
| STerm of bool * 'k gterm

(** val susc_match :
    'a1 numops -> 'a1 tols -> 'a1 part_in -> (int * (int * int)) -> 'a1
    smatch option **)

let susc_match nO t inp m =
  let index1 = fst m in
  let p = fst (snd m) in
  let q = snd (snd m) in
  (match rdv inp.p_C p with
   | Some va ->
     (match rdv inp.p_CX q with
      | Some vb ->
        (match nth_error inp.p_C.cs_idx p with
         | Some index2 ->
           (match nth_error inp.p_wO index1 with
            | Some _ ->
              (match nth_error inp.p_wI index2 with
               | Some _ ->
                 (match nth_error inp.p_eO index1 with
                  | Some _ ->
                    (match nth_error inp.p_eI index2 with
                     | Some _ ->
                       let rd_ = fun l i -> nth i l nO.n0 in
                       let pole0 =
                         susc_pole nO (rd_ inp.p_eO) (rd_ inp.p_eI) index1
                           index2
                       in
                       if susc_is_zero_pole nO t.t_resonance pole0
                       then Some (SZero
                              ((susc_zero_weight nO va vb (rd_ inp.p_wO)
                                 (rd_ inp.p_wI) index1 index2), pole0))
                       else let residue0 =
                              susc_residue nO va vb (rd_ inp.p_wO)
                                (rd_ inp.p_wI) index1 index2
                            in
                            Some (STerm
                            ((susc_relevant nO t.t_matrix_element residue0),
                            (pole0, residue0)))
                     | None -> None)
                  | None -> None)
               | None -> None)
            | None -> None)
         | None -> None)
      | None -> None)
   | None -> None)

(** val s_kept : 'a1 smatch list -> 'a1 gterm list **)

let s_kept l =
  flat_map (fun s ->
    match s with
    | SZero (_, _) -> []
    | STerm (keep, t) -> if keep then t :: [] else []) l

(** val s_dropped : 'a1 smatch list -> 'a1 gterm list **)

let s_dropped l =
  flat_map (fun s ->
    match s with
    | SZero (_, _) -> []
    | STerm (keep, t) -> if keep then [] else t :: []) l

(** val s_zero : 'a1 numops -> 'a1 smatch list -> 'a1 **)

let s_zero nO l =
  fold_left (fun acc s ->
    match s with
    | SZero (w, _) -> nO.nadd acc w
    | STerm (_, _) -> acc) l nO.n0

(** val susc_add_terms :
    'a1 numops -> 'a1 tols -> 'a1 gterm list -> 'a1 gterm list * ('a1, 'a1)
    event list **)

let susc_add_terms nO t ts =
  add_terms (susc_compare nO t.t_compare) (susc_negligible nO t.t_negligible)
    (susc_term_add nO) ts []

type 'k spart_out = { so_terms : 'k gterm list; so_zero : 'k;
                      so_raw : 'k smatch list; so_events : ('k, 'k) event list }

(** val susc_part_compute :
    'a1 numops -> bool -> bool -> 'a1 tols -> 'a1 part_in -> 'a1 spart_out
    wres **)

let susc_part_compute nO fixed lenient t inp =
  wbind (part_walk fixed lenient inp.p_C inp.p_CX) (fun l ->
    match all_some (map (susc_match nO t inp) l) with
    | Some raw ->
      let r = susc_add_terms nO t (s_kept raw) in
      WDone { so_terms = (fst r); so_zero = (s_zero nO raw); so_raw = raw;
      so_events = (snd r) }
    | None -> WOOB (SideA, 0))

(** val susc_terms_eval : 'a1 numops -> 'a1 gterm list -> 'a1 -> 'a1 **)

let susc_terms_eval nO terms z0 =
  eval nO.n0 nO.nadd (fun t -> susc_term_eval nO (snd t) (fst t) z0) terms

(** val susc_terms_tau : 'a1 numops -> 'a1 gterm list -> 'a1 -> 'a1 -> 'a1 **)

let susc_terms_tau nO terms tau beta =
  eval nO.n0 nO.nadd (fun t -> susc_term_tau nO (snd t) (fst t) tau beta)
    terms

(** val susc_part_value : 'a1 numops -> 'a1 spart_out -> 'a1 -> 'a1 -> 'a1 **)

let susc_part_value nO o beta z0 =
  susc_part_eval nO (susc_terms_eval nO o.so_terms z0) o.so_zero beta z0

(** val susc_part_value_tau :
    'a1 numops -> 'a1 spart_out -> 'a1 -> 'a1 -> 'a1 **)

let susc_part_value_tau nO o tau beta =
  susc_part_tau nO (susc_terms_tau nO o.so_terms tau beta) o.so_zero

(** val scompute_parts :
    'a1 numops -> bool -> bool -> 'a1 tols -> ((int * int) * 'a1 part_in)
    list -> ((int * int) * 'a1 spart_out) list wres **)

let rec scompute_parts nO fixed lenient t = function
| [] -> WDone []
| p :: r ->
  let (lr, inp) = p in
  wbind (susc_part_compute nO fixed lenient t inp) (fun o ->
    wmap (fun x -> (lr, o) :: x) (scompute_parts nO fixed lenient t r))

(** val susc_compute :
    'a1 numops -> bool -> bool -> 'a1 tols -> 'a1 gf_in -> ((int * int) * 'a1
    spart_out) list wres **)

let susc_compute nO fixed lenient t g =
  match gf_prepare g with
  | Some ps -> scompute_parts nO fixed lenient t ps
  | None -> WOOB (SideA, 0)

(** val find_pos : int list -> int -> int -> int -> int option **)

let rec find_pos idx0 p n i =
  (fun fO fS n -> if n=0 then fO () else fS (n-1))
    (fun _ -> None)
    (fun n' ->
    if (=) (nth p idx0 0) i
    then Some p
    else find_pos idx0 (Stdlib.Int.succ p) n' i)
    n

(** val cs_coeff : 'a1 numops -> 'a1 cs -> int -> int -> 'a1 **)

let cs_coeff nO m o i =
  match find_pos m.cs_idx (ptr_at m o)
          (sub (ptr_at m (Stdlib.Int.succ o)) (ptr_at m o)) i with
  | Some p -> nth p m.cs_val nO.n0
  | None -> nO.n0

(** val ea_part : 'a1 numops -> 'a1 cs -> 'a1 list -> 'a1 **)

let ea_part nO a w =
  fold_left (fun acc i ->
    nO.nadd acc (nO.nmul (cs_coeff nO a i i) (nth i w nO.n0)))
    (seq 0 (cs_outer a)) nO.n0

(** val ea_sum : 'a1 numops -> 'a1 gf_in -> 'a1 -> 'a1 **)

let ea_sum nO g start =
  fold_left (fun acc lr ->
    if (&&) ((=) (fst lr) (snd lr)) (g.g_ret (fst lr))
    then (match g.g_cpart (fst lr) with
          | Some a -> nO.nadd acc (ea_part nO a (g.g_W (fst lr)))
          | None -> acc)
    else acc) g.g_cl start

type 'k ea_state = { ea_prepared : bool; ea_result : 'k }

(** val ea_new : 'a1 numops -> 'a1 ea_state **)

let ea_new nO =
  { ea_prepared = false; ea_result = nO.n0 }

(** val ea_prepare :
    'a1 numops -> 'a1 gf_in -> 'a1 ea_state -> 'a1 ea_state **)

let ea_prepare nO g s =
  if s.ea_prepared
  then s
  else { ea_prepared = true; ea_result = (ea_sum nO g s.ea_result) }

(** val ensemble_average : 'a1 numops -> 'a1 gf_in -> 'a1 **)

let ensemble_average nO g =
  (ea_prepare nO g (ea_new nO)).ea_result

type 'k supply =
| SupplyInternal
| SupplyObjects of 'k ea_state * 'k ea_state
| SupplyNumbers of 'k * 'k

(** val supplied :
    'a1 numops -> 'a1 gf_in -> 'a1 gf_in -> 'a1 supply -> 'a1 * 'a1 **)

let supplied nO gA gB = function
| SupplyInternal ->
  ((ea_prepare nO gA (ea_new nO)).ea_result,
    (ea_prepare nO gB (ea_new nO)).ea_result)
| SupplyObjects (sa, sb) ->
  ((ea_prepare nO gA sa).ea_result, (ea_prepare nO gB sb).ea_result)
| SupplyNumbers (a, b) -> (a, b)

(** val susc_sum :
    'a1 numops -> ((int * int) * 'a1 spart_out) list -> 'a1 -> 'a1 -> 'a1 **)

let susc_sum nO parts beta z0 =
  fold_left (fun acc p -> nO.nadd acc (susc_part_value nO (snd p) beta z0))
    parts nO.n0

(** val susc_value :
    'a1 numops -> ((int * int) * 'a1 spart_out) list -> ('a1 * 'a1) option ->
    'a1 -> 'a1 -> 'a1 **)

let susc_value nO parts sub1 beta z0 =
  let value = susc_sum nO parts beta z0 in
  (match sub1 with
   | Some p ->
     let (aveA, aveB) = p in susc_subtract nO value aveA aveB beta z0
   | None -> value)

(** val susc_sum_tau :
    'a1 numops -> ((int * int) * 'a1 spart_out) list -> 'a1 -> 'a1 -> 'a1 **)

let susc_sum_tau nO parts tau beta =
  fold_left (fun acc p ->
    nO.nadd acc (susc_part_value_tau nO (snd p) tau beta)) parts nO.n0

(** val susc_value_tau :
    'a1 numops -> ((int * int) * 'a1 spart_out) list -> ('a1 * 'a1) option ->
    'a1 -> 'a1 -> 'a1 **)

let susc_value_tau nO parts sub1 tau beta =
  let value = susc_sum_tau nO parts tau beta in
  (match sub1 with
   | Some p -> let (aveA, aveB) = p in susc_subtract_tau nO value aveA aveB
   | None -> value)

(** val susc_matsubara : 'a1 numops -> 'a1 -> 'a1 -> z -> 'a1 **)

let susc_matsubara nO kpi beta n =
  nO.nmul (matsubara_spacing nO nO.nI kpi beta)
    (nO.nofZ (susc_total_matsubara_mult n))

(** val gf_lehmann :
    'a1 numops -> 'a1 list -> 'a1 list -> 'a1 list list -> 'a1 list list ->
    ('a1 * 'a1) list **)

let gf_lehmann nO e w ci cXj =
  flat_map (fun nr ->
    let n = fst nr in
    flat_map (fun mc ->
      let m = fst mc in
      let r =
        nO.nmul (nO.nmul (snd mc) (mget nO cXj m n))
          (nO.nadd (nth n w nO.n0) (nth m w nO.n0))
      in
      if nO.nre_ltb nO.n0 (nO.nabs r)
      then ((nO.nsub (nth m e nO.n0) (nth n e nO.n0)), r) :: []
      else []) (idx (snd nr))) (idx ci)

(** val dropped_bound :
    'a1 numops -> 'a1 -> ('a1 * 'a1) list -> 'a1 -> 'a1 **)

let dropped_bound nO tolM terms z0 =
  ksum nO terms (fun t ->
    if nO.nre_ltb tolM (nO.nabs (snd t))
    then nO.n0
    else nO.ndiv (nO.nabs (snd t)) (nO.nabs (nO.nsub z0 (fst t))))

(** val merge_delta :
    'a1 numops -> 'a1 -> 'a1 -> ('a1 * 'a1) list -> 'a1 -> 'a1 **)

let merge_delta nO tolM tolC terms p =
  fold_left (fun acc t ->
    let d = nO.nabs (nO.nsub p (fst t)) in
    if (&&) ((&&) (nO.nre_ltb tolM (nO.nabs (snd t))) (nO.nre_ltb d tolC))
         (nO.nre_ltb acc d)
    then d
    else acc) terms nO.n0

(** val with_delta :
    'a1 numops -> 'a1 -> 'a1 -> ('a1 * 'a1) list -> (('a1 * 'a1) * 'a1) list **)

let with_delta nO tolM tolC terms =
  flat_map (fun t ->
    if nO.nre_ltb tolM (nO.nabs (snd t))
    then (((fst t), (snd t)), (merge_delta nO tolM tolC terms (fst t))) :: []
    else []) terms

(** val merge_bound : 'a1 numops -> (('a1 * 'a1) * 'a1) list -> 'a1 -> 'a1 **)

let merge_bound nO wd z0 =
  ksum nO wd (fun t ->
    let p = fst (fst t) in
    let r = snd (fst t) in
    let d = snd t in
    let dist = nO.nabs (nO.nsub z0 p) in
    if nO.nre_ltb nO.n0 d
    then if nO.nre_ltb d dist
         then nO.ndiv (nO.nmul (nO.nabs r) d) (nO.nmul dist (nO.nsub dist d))
         else nO.ndiv (nO.nabs r) d
    else nO.n0)

(** val susc_lehmann :
    'a1 numops -> 'a1 list -> 'a1 list -> 'a1 list list -> 'a1 list list ->
    ('a1 * ('a1 * ('a1 * 'a1))) list **)

let susc_lehmann nO e w a b =
  flat_map (fun nr ->
    let n = fst nr in
    flat_map (fun mc ->
      let m = fst mc in
      let ab = nO.nmul (snd mc) (mget nO b m n) in
      if nO.nre_ltb nO.n0 (nO.nabs ab)
      then ((nO.nsub (nth m e nO.n0) (nth n e nO.n0)), (ab, ((nth n w nO.n0),
             (nth m w nO.n0)))) :: []
      else []) (idx (snd nr))) (idx a)

(** val susc_terms :
    'a1 numops -> 'a1 -> ('a1 * ('a1 * ('a1 * 'a1))) list -> ('a1 * 'a1) list **)

let susc_terms nO tolR l =
  flat_map (fun t ->
    let p = fst t in
    let ab = fst (snd t) in
    let wn = fst (snd (snd t)) in
    let wm = snd (snd (snd t)) in
    if nO.nre_ltb (nO.nabs p) tolR
    then []
    else let r = nO.nmul ab (nO.nsub wn wm) in
         if nO.nre_ltb nO.n0 (nO.nabs r) then (p, r) :: [] else []) l

(** val resonance_bound :
    'a1 numops -> 'a1 -> 'a1 -> ('a1 * ('a1 * ('a1 * 'a1))) list -> 'a1 ->
    bool -> 'a1 **)

let resonance_bound nO beta tolR l z0 z_is_zero =
  ksum nO l (fun t ->
    let p = fst t in
    let ab = fst (snd t) in
    let wn = fst (snd (snd t)) in
    if nO.nre_ltb (nO.nabs p) tolR
    then let x = nO.nmul beta (nO.nabs p) in
         let ex = nO.nexp x in
         if z_is_zero
         then nO.nmul
                (nO.nmul (nO.nmul (nO.nmul (nO.nabs ab) wn) beta)
                  (nO.ndiv x (nO.nadd nO.n1 nO.n1))) ex
         else nO.ndiv (nO.nmul (nO.nmul (nO.nmul (nO.nabs ab) wn) x) ex)
                (nO.nabs (nO.nsub z0 p))
    else nO.n0)

(** val tau_weight : 'a1 numops -> 'a1 -> 'a1 -> 'a1 **)

let tau_weight nO beta p =
  nO.ndiv nO.n1 (nO.nsub nO.n1 (nO.nexp (nO.nopp (nO.nmul beta (nO.nabs p)))))

(** val tau_dropped_bound :
    'a1 numops -> 'a1 -> 'a1 -> ('a1 * 'a1) list -> 'a1 **)

let tau_dropped_bound nO beta tolM terms =
  ksum nO terms (fun t ->
    if nO.nre_ltb tolM (nO.nabs (snd t))
    then nO.n0
    else nO.nmul (nO.nabs (snd t)) (tau_weight nO beta (fst t)))

(** val tau_merge_bound :
    'a1 numops -> 'a1 -> (('a1 * 'a1) * 'a1) list -> 'a1 **)

let tau_merge_bound nO beta wd =
  ksum nO wd (fun t ->
    let p = fst (fst t) in
    let r = snd (fst t) in
    let d = snd t in
    nO.nmul
      (nO.nmul (nO.nmul (nO.nmul (nO.nabs r) d) beta) (tau_weight nO beta p))
      (nO.nadd nO.n1 (tau_weight nO beta p)))

(** val susc_tau_safe :
    'a1 numops -> 'a1 -> 'a1 list -> 'a1 list list -> 'a1 list list -> 'a1 ->
    'a1 **)

let susc_tau_safe nO beta e a b tau =
  let e0 = min_re nO e in
  let z0 =
    ksum nO e (fun e1 -> nO.nexp (nO.nopp (nO.nmul beta (nO.nsub e1 e0))))
  in
  ksum nO (idx a) (fun nr ->
    let n = fst nr in
    ksum nO (idx (snd nr)) (fun mc ->
      let m = fst mc in
      nO.ndiv
        (nO.nmul (nO.nmul (snd mc) (mget nO b m n))
          (nO.nexp
            (nO.nopp
              (nO.nadd
                (nO.nmul (nO.nsub beta tau) (nO.nsub (nth n e nO.n0) e0))
                (nO.nmul tau (nO.nsub (nth m e nO.n0) e0)))))) z0))

type status =
| Constructed
| Prepared
| Computed

(** val status_max_prepared : status -> status **)

let status_max_prepared s = match s with
| Constructed -> Prepared
| _ -> s

type elem = { el_id : int; el_c : int; el_cx : int; el_status : status }

type key = int * int

type cstate = { emap : (key * elem) list; next_id : int }

(** val cinit : cstate **)

let cinit =
  { emap = []; next_id = 0 }

(** val key_eqb : key -> key -> bool **)

let key_eqb a b =
  (&&) ((=) (fst a) (fst b)) ((=) (snd a) (snd b))

(** val key_ltb : key -> key -> bool **)

let key_ltb a b =
  (||) (Nat.ltb (fst a) (fst b))
    ((&&) ((=) (fst a) (fst b)) (Nat.ltb (snd a) (snd b)))

(** val mfind : key -> (key * elem) list -> elem option **)

let rec mfind k = function
| [] -> None
| p :: r -> let (k', e) = p in if key_eqb k k' then Some e else mfind k r

(** val mset : key -> elem -> (key * elem) list -> (key * elem) list **)

let rec mset k e = function
| [] -> (k, e) :: []
| p :: r ->
  let (k', e') = p in
  if key_eqb k k'
  then (k, e) :: r
  else if key_ltb k k'
       then (k, e) :: ((k', e') :: r)
       else (k', e') :: (mset k e r)

(** val sins : key -> key list -> key list **)

let rec sins k s = match s with
| [] -> k :: []
| k' :: r ->
  if key_eqb k k'
  then s
  else if key_ltb k k' then k :: s else k' :: (sins k r)

(** val set_of : key list -> key list **)

let set_of l =
  fold_left (fun s k -> sins k s) l []

(** val all_indices : int -> key list **)

let all_indices n =
  flat_map (fun i -> map (fun j -> (i, j)) (seq 0 n)) (seq 0 n)

type cop =
| Fill of key list
| SetK of key
| IsIn of key
| Lookup of key
| PrepareAll of key list
| ComputeAll
| PrepareAt of key
| ComputeAt of key

type cout =
| OUnit
| OBool of bool
| OElem of elem
| OThrows

(** val create : int -> cstate -> key -> elem option **)

let create n st k =
  if (&&) (Nat.ltb (fst k) n) (Nat.ltb (snd k) n)
  then Some { el_id = st.next_id; el_c = (fst k); el_cx = (snd k);
         el_status = Constructed }
  else None

(** val do_set : int -> cstate -> key -> cstate * cout **)

let do_set n st k =
  match create n st k with
  | Some e ->
    ({ emap = (mset k e st.emap); next_id = (Stdlib.Int.succ st.next_id) },
      (OElem e))
  | None -> (st, OThrows)

(** val fill_loop : int -> cstate -> key list -> cstate * cout **)

let rec fill_loop n st = function
| [] -> (st, OUnit)
| k :: r ->
  (match mfind k st.emap with
   | Some _ -> fill_loop n st r
   | None ->
     let (st', c) = do_set n st k in
     (match c with
      | OThrows -> (st', OThrows)
      | _ -> fill_loop n st' r))

(** val do_fill : int -> cstate -> key list -> cstate * cout **)

let do_fill n st ks =
  let iI = match set_of ks with
           | [] -> all_indices n
           | k :: l -> k :: l in
  fill_loop n { emap = []; next_id = st.next_id } iI

(** val upd_status :
    (status -> status) -> key -> (key * elem) list -> (key * elem) list **)

let upd_status f k m =
  map (fun ke ->
    if key_eqb k (fst ke)
    then ((fst ke), { el_id = (snd ke).el_id; el_c = (snd ke).el_c; el_cx =
           (snd ke).el_cx; el_status = (f (snd ke).el_status) })
    else ke) m

(** val all_status :
    (status -> status) -> (key * elem) list -> (key * elem) list **)

let all_status f m =
  map (fun ke -> ((fst ke), { el_id = (snd ke).el_id; el_c = (snd ke).el_c;
    el_cx = (snd ke).el_cx; el_status = (f (snd ke).el_status) })) m

(** val do_lookup : int -> cstate -> key -> cstate * cout **)

let do_lookup n st k =
  match mfind k st.emap with
  | Some e -> (st, (OElem e))
  | None -> do_set n st k

(** val cstep : int -> cstate -> cop -> cstate * cout **)

let cstep n st = function
| Fill ks -> do_fill n st ks
| SetK k -> do_set n st k
| IsIn k ->
  (st, (OBool (match mfind k st.emap with
               | Some _ -> true
               | None -> false)))
| Lookup k -> do_lookup n st k
| PrepareAll ks ->
  let (st', c) = do_fill n st ks in
  (match c with
   | OThrows -> (st', OThrows)
   | _ ->
     ({ emap = (all_status status_max_prepared st'.emap); next_id =
       st'.next_id }, OUnit))
| ComputeAll ->
  ({ emap = (all_status (fun _ -> Computed) st.emap); next_id = st.next_id },
    OUnit)
| PrepareAt k ->
  let (st', c) = do_lookup n st k in
  (match c with
   | OElem _ ->
     ({ emap = (upd_status status_max_prepared k st'.emap); next_id =
       st'.next_id }, OUnit)
   | x -> (st', x))
| ComputeAt k ->
  let (st', c) = do_lookup n st k in
  (match c with
   | OElem _ ->
     ({ emap = (upd_status (fun _ -> Computed) k st'.emap); next_id =
       st'.next_id }, OUnit)
   | x -> (st', x))

(** val crun : int -> cstate -> cop list -> cstate **)

let rec crun n st = function
| [] -> st
| o :: r -> crun n (fst (cstep n st o)) r

(** val c_gf_compute :
    (Float64.t -> Float64.t) -> bool -> bool -> fc tols -> fc gf_in ->
    ((int * int) * fc part_out) list wres **)

let c_gf_compute fexp =
  gf_compute (fops fexp)

(** val c_gf_value :
    (Float64.t -> Float64.t) -> ((int * int) * fc part_out) list -> fc -> fc **)

let c_gf_value fexp =
  gf_value (fops fexp)

(** val c_gf_value_tau :
    (Float64.t -> Float64.t) -> ((int * int) * fc part_out) list -> fc -> fc
    -> fc **)

let c_gf_value_tau fexp =
  gf_value_tau (fops fexp)

(** val c_gf_matsubara : (Float64.t -> Float64.t) -> fc -> fc -> z -> fc **)

let c_gf_matsubara fexp =
  gf_matsubara (fops fexp)

(** val c_gf_tols : (Float64.t -> Float64.t) -> fc tols **)

let c_gf_tols fexp =
  gf_tols_cpp (fops fexp)

(** val c_gf_part_value :
    (Float64.t -> Float64.t) -> fc part_out -> fc -> fc **)

let c_gf_part_value fexp =
  gf_part_value (fops fexp)

(** val c_susc_compute :
    (Float64.t -> Float64.t) -> bool -> bool -> fc tols -> fc gf_in ->
    ((int * int) * fc spart_out) list wres **)

let c_susc_compute fexp =
  susc_compute (fops fexp)

(** val c_susc_value :
    (Float64.t -> Float64.t) -> ((int * int) * fc spart_out) list ->
    (fc * fc) option -> fc -> fc -> fc **)

let c_susc_value fexp =
  susc_value (fops fexp)

(** val c_susc_value_tau :
    (Float64.t -> Float64.t) -> ((int * int) * fc spart_out) list ->
    (fc * fc) option -> fc -> fc -> fc **)

let c_susc_value_tau fexp =
  susc_value_tau (fops fexp)

(** val c_susc_matsubara : (Float64.t -> Float64.t) -> fc -> fc -> z -> fc **)

let c_susc_matsubara fexp =
  susc_matsubara (fops fexp)

(** val c_susc_tols : (Float64.t -> Float64.t) -> fc tols **)

let c_susc_tols fexp =
  susc_tols_cpp (fops fexp)

(** val c_susc_part_value :
    (Float64.t -> Float64.t) -> fc spart_out -> fc -> fc -> fc **)

let c_susc_part_value fexp =
  susc_part_value (fops fexp)

(** val c_ensemble_average : (Float64.t -> Float64.t) -> fc gf_in -> fc **)

let c_ensemble_average fexp =
  ensemble_average (fops fexp)

(** val c_supplied :
    (Float64.t -> Float64.t) -> fc gf_in -> fc gf_in -> fc supply -> fc * fc **)

let c_supplied fexp =
  supplied (fops fexp)

(** val c_ea_prepare :
    (Float64.t -> Float64.t) -> fc gf_in -> fc ea_state -> fc ea_state **)

let c_ea_prepare fexp =
  ea_prepare (fops fexp)

(** val c_ea_new : (Float64.t -> Float64.t) -> fc ea_state **)

let c_ea_new fexp =
  ea_new (fops fexp)

(** val c_cs_wf_b : fc cs -> bool **)

let c_cs_wf_b =
  cs_wf_b

(** val c_kept : (bool * fc gterm) list -> fc gterm list **)

let c_kept =
  kept

(** val c_dropped : (bool * fc gterm) list -> fc gterm list **)

let c_dropped =
  dropped

(** val c_s_kept : fc smatch list -> fc gterm list **)

let c_s_kept =
  s_kept

(** val c_s_dropped : fc smatch list -> fc gterm list **)

let c_s_dropped =
  s_dropped

(** val c_gf_term_eval : (Float64.t -> Float64.t) -> fc -> fc -> fc -> fc **)

let c_gf_term_eval fexp =
  gf_term_eval (fops fexp)

(** val c_susc_term_eval :
    (Float64.t -> Float64.t) -> fc -> fc -> fc -> fc **)

let c_susc_term_eval fexp =
  susc_term_eval (fops fexp)

(** val c_gf_chase_guarded : bool **)

let c_gf_chase_guarded =
  gf_chase_guarded

(** val c_susc_chase_guarded : bool **)

let c_susc_chase_guarded =
  susc_chase_guarded

(** val c_chaseIndices_guarded : bool **)

let c_chaseIndices_guarded =
  chaseIndices_guarded

(** val c_poly_matrix :
    (Float64.t -> Float64.t) -> int -> (monomial * fc) list -> fc mat **)

let c_poly_matrix fexp =
  poly_matrix (fops fexp)

(** val c_op_matrix : (Float64.t -> Float64.t) -> int -> op -> fc mat **)

let c_op_matrix fexp =
  op_matrix (fops fexp)

(** val c_weights : (Float64.t -> Float64.t) -> fc -> fc vec -> fc vec **)

let c_weights fexp =
  weights (fops fexp)

(** val c_rotate :
    (Float64.t -> Float64.t) -> int -> fc mat -> fc mat -> fc mat **)

let c_rotate fexp =
  rotate (fops fexp)

(** val c_mmul :
    (Float64.t -> Float64.t) -> int -> fc mat -> fc mat -> fc mat **)

let c_mmul fexp =
  mmul (fops fexp)

(** val c_gf_lehmann :
    (Float64.t -> Float64.t) -> fc list -> fc list -> fc list list -> fc list
    list -> (fc * fc) list **)

let c_gf_lehmann fexp =
  gf_lehmann (fops fexp)

(** val c_dropped_bound :
    (Float64.t -> Float64.t) -> fc -> (fc * fc) list -> fc -> fc **)

let c_dropped_bound fexp =
  dropped_bound (fops fexp)

(** val c_with_delta :
    (Float64.t -> Float64.t) -> fc -> fc -> (fc * fc) list ->
    ((fc * fc) * fc) list **)

let c_with_delta fexp =
  with_delta (fops fexp)

(** val c_merge_bound :
    (Float64.t -> Float64.t) -> ((fc * fc) * fc) list -> fc -> fc **)

let c_merge_bound fexp =
  merge_bound (fops fexp)

(** val c_susc_lehmann :
    (Float64.t -> Float64.t) -> fc list -> fc list -> fc list list -> fc list
    list -> (fc * (fc * (fc * fc))) list **)

let c_susc_lehmann fexp =
  susc_lehmann (fops fexp)

(** val c_susc_terms :
    (Float64.t -> Float64.t) -> fc -> (fc * (fc * (fc * fc))) list ->
    (fc * fc) list **)

let c_susc_terms fexp =
  susc_terms (fops fexp)

(** val c_resonance_bound :
    (Float64.t -> Float64.t) -> fc -> fc -> (fc * (fc * (fc * fc))) list ->
    fc -> bool -> fc **)

let c_resonance_bound fexp =
  resonance_bound (fops fexp)

(** val c_tau_dropped_bound :
    (Float64.t -> Float64.t) -> fc -> fc -> (fc * fc) list -> fc **)

let c_tau_dropped_bound fexp =
  tau_dropped_bound (fops fexp)

(** val c_tau_merge_bound :
    (Float64.t -> Float64.t) -> fc -> ((fc * fc) * fc) list -> fc **)

let c_tau_merge_bound fexp =
  tau_merge_bound (fops fexp)

(** val c_susc_tau_safe :
    (Float64.t -> Float64.t) -> fc -> fc list -> fc list list -> fc list list
    -> fc -> fc **)

let c_susc_tau_safe fexp =
  susc_tau_safe (fops fexp)
