
val xorb : bool -> bool -> bool

val negb : bool -> bool

val fst : ('a1 * 'a2) -> 'a1

val snd : ('a1 * 'a2) -> 'a2

val length : 'a1 list -> int

val app : 'a1 list -> 'a1 list -> 'a1 list

val add : int -> int -> int

val mul : int -> int -> int

val sub : int -> int -> int

type positive =
| XI of positive
| XO of positive
| XH

type z =
| Z0
| Zpos of positive
| Zneg of positive

val eqb : bool -> bool -> bool

module Nat :
 sig
  val add : int -> int -> int

  val mul : int -> int -> int

  val sub : int -> int -> int

  val ltb : int -> int -> bool

  val even : int -> bool

  val odd : int -> bool

  val pow : int -> int -> int

  val divmod : int -> int -> int -> int -> int * int

  val modulo : int -> int -> int

  val div2 : int -> int
 end

val hd : 'a1 -> 'a1 list -> 'a1

val tl : 'a1 list -> 'a1 list

val nth : int -> 'a1 list -> 'a1 -> 'a1

val nth_error : 'a1 list -> int -> 'a1 option

val concat : 'a1 list list -> 'a1 list

val map : ('a1 -> 'a2) -> 'a1 list -> 'a2 list

val fold_left : ('a1 -> 'a2 -> 'a1) -> 'a2 list -> 'a1 -> 'a1

val fold_right : ('a2 -> 'a1 -> 'a1) -> 'a1 -> 'a2 list -> 'a1

val existsb : ('a1 -> bool) -> 'a1 list -> bool

val filter : ('a1 -> bool) -> 'a1 list -> 'a1 list

val find : ('a1 -> bool) -> 'a1 list -> 'a1 option

val combine : 'a1 list -> 'a2 list -> ('a1 * 'a2) list

val seq : int -> int -> int list

val repeat : 'a1 -> int -> 'a1 list

val sqrt : Float64.t -> Float64.t

val opp : Float64.t -> Float64.t

val ltb0 : Float64.t -> Float64.t -> bool

val mul0 : Float64.t -> Float64.t -> Float64.t

val add0 : Float64.t -> Float64.t -> Float64.t

val sub0 : Float64.t -> Float64.t -> Float64.t

val div : Float64.t -> Float64.t -> Float64.t

type 'a outcome =
| Done of 'a
| OOB
| Uninit
| Throws of int
| OutOfFuel

val bind : 'a1 outcome -> ('a1 -> 'a2 outcome) -> 'a2 outcome

type op = bool * int

val op_ann : op -> bool

val op_idx : op -> int

val cdag : int -> op

val cann : int -> op

type state = bool list

val upd : int -> bool -> state -> state

val par : int -> state -> bool

val act_op : op -> state -> (bool * state) option outcome

val act_mono : op list -> state -> (bool * state) option outcome

val state_of_nat : int -> int -> state

val nat_of_state : state -> int

type monomial = op list

type 'k poly = (monomial * 'k) list

val p_c : 'a1 -> int -> 'a1 poly

val p_cdag : 'a1 -> int -> 'a1 poly

val p_n_offdiag : 'a1 -> int -> int -> 'a1 poly

val lc_add :
  ('a1 -> 'a1 -> 'a1) -> state -> 'a1 -> (state * 'a1) list -> (state * 'a1)
  list

val act_poly :
  ('a1 -> 'a1 -> 'a1) -> ('a1 -> 'a1) -> 'a1 poly -> state -> (state * 'a1)
  list outcome

type 'k numops = { n0 : 'k; n1 : 'k; nadd : ('k -> 'k -> 'k);
                   nsub : ('k -> 'k -> 'k); nmul : ('k -> 'k -> 'k);
                   ndiv : ('k -> 'k -> 'k); nopp : ('k -> 'k);
                   nconj : ('k -> 'k); nexp : ('k -> 'k);
                   nre_ltb : ('k -> 'k -> bool); nabs : ('k -> 'k);
                   nofZ : (z -> 'k); nI : 'k }

type 'k vec = 'k list

type 'k mat = 'k list list

val ksum : 'a1 numops -> 'a2 list -> ('a2 -> 'a1) -> 'a1

val dot : 'a1 numops -> 'a1 vec -> 'a1 vec -> 'a1

val transpose_aux : 'a1 numops -> int -> 'a1 mat -> 'a1 mat

val transpose : 'a1 numops -> int -> 'a1 mat -> 'a1 mat

val mmul : 'a1 numops -> int -> 'a1 mat -> 'a1 mat -> 'a1 mat

val adjoint : 'a1 numops -> int -> 'a1 mat -> 'a1 mat

val mget : 'a1 numops -> 'a1 mat -> int -> int -> 'a1

val idx : 'a1 list -> (int * 'a1) list

val mono_entry : int -> monomial -> int -> (bool * int) option

val poly_matrix : 'a1 numops -> int -> (monomial * 'a1) list -> 'a1 mat

val max_abs : 'a1 numops -> 'a1 list -> 'a1

val residual_HU : 'a1 numops -> int -> 'a1 mat -> 'a1 mat -> 'a1 vec -> 'a1

val residual_unitary : 'a1 numops -> int -> 'a1 mat -> 'a1

type fc = Float64.t * Float64.t

val fadd : fc -> fc -> fc

val fsub : fc -> fc -> fc

val fmul : fc -> fc -> fc

val fdiv : fc -> fc -> fc

val fopp : fc -> fc

val fconj : fc -> fc

val fabs : fc -> fc

val pos_to_float : positive -> Float64.t

val fofZ : z -> fc

val fops : (Float64.t -> Float64.t) -> fc numops

val ex_wrong_state : int

type classification = { sc_M : int; sc_states : int list list;
                        sc_index : int list }

val state_size : classification -> int

val block_containing : int list list -> int -> int -> int

val classification_of_blocks : int -> int list list -> classification

val outcome_map : ('a1 -> 'a2 outcome) -> 'a1 list -> 'a2 list outcome

val set_nth : 'a1 list -> int -> 'a1 -> 'a1 list option

val label_rejected : bool -> classification -> int -> bool

val getBlockNumber : bool -> classification -> int -> int outcome

val find_pos : int list -> int -> int -> int option

val getInnerState : bool -> classification -> int -> int outcome

val getInnerState_label : bool -> classification -> int -> int outcome

val getFockStates : classification -> int -> int list outcome

val is_zero : 'a1 numops -> 'a1 -> 'a1 -> bool

val insert_sorted : (int * 'a1) -> (int * 'a1) list -> (int * 'a1) list

val sort_by_label : (int * 'a1) list -> (int * 'a1) list

val act_map :
  'a1 numops -> 'a1 -> int -> 'a1 poly -> int -> (int * 'a1) list outcome

val hpart_column :
  bool -> 'a1 numops -> 'a1 -> classification -> 'a1 poly -> int -> int ->
  'a1 list outcome

val rows_of_columns : 'a1 numops -> int -> 'a1 list list -> 'a1 mat

val hpart_prepare :
  bool -> 'a1 numops -> 'a1 -> classification -> 'a1 poly -> int -> 'a1 mat
  outcome

val hpart_compute :
  'a1 numops -> ('a1 -> 'a1) -> 'a1 mat -> ('a1 list * 'a1 mat) -> 'a1
  list * 'a1 mat

type 'k hpart = 'k list * 'k mat

val min_coeff : 'a1 numops -> 'a1 list -> 'a1 outcome

val computeGroundEnergy : 'a1 numops -> 'a1 hpart list -> 'a1 outcome

val getEigenValue :
  bool -> classification -> 'a1 hpart list -> int -> 'a1 outcome

val write_range :
  'a1 option list -> int -> 'a1 list -> 'a1 option list outcome

val read_all : 'a1 option list -> 'a1 list outcome

val getEigenValues : classification -> 'a1 hpart list -> 'a1 list outcome

type fop =
| FCdag of int
| FC of int
| FQuad of int * int

val fop_poly : 'a1 numops -> fop -> 'a1 poly

val first_image :
  'a1 numops -> 'a1 -> int -> 'a1 poly -> int list -> int option outcome

val mapsTo :
  bool -> 'a1 numops -> 'a1 -> classification -> fop -> int -> int option
  outcome

val fo_prepare :
  bool -> 'a1 numops -> 'a1 -> classification -> fop -> (int * int) list
  outcome

val bimap_insert : (int * int) list -> (int * int) -> (int * int) list

val fo_bimap : (int * int) list -> (int * int) list

val mget_chk : 'a1 mat -> int -> int -> 'a1 outcome

val fop_fill :
  bool -> 'a1 numops -> 'a1 -> classification -> fop -> 'a1 mat -> 'a1 mat ->
  int -> int -> int list -> ('a1 list list * 'a1 list list) outcome

val fop_dense :
  bool -> 'a1 numops -> 'a1 -> classification -> fop -> int -> int -> 'a1 mat
  -> 'a1 mat -> 'a1 mat outcome

val keep_entry : 'a1 numops -> 'a1 -> 'a1 -> 'a1 -> bool

val prune : 'a1 numops -> 'a1 -> 'a1 -> 'a1 mat -> 'a1 mat

val assoc_right :
  ((int * int) * 'a1) list -> int -> ((int * int) * 'a1) option

val container_copy :
  'a1 numops -> (int -> int) -> (int * int) list -> ((int * int) * 'a1 mat)
  list -> (int * int) list -> ((int * int) * 'a1 mat option) list outcome

val restrict : 'a1 numops -> 'a1 mat -> int list -> int list -> 'a1 mat

val rotate_block :
  'a1 numops -> int -> int -> 'a1 mat -> 'a1 mat -> 'a1 mat -> 'a1 mat

val rotate_back :
  'a1 numops -> int -> int -> 'a1 mat -> 'a1 mat -> 'a1 mat -> 'a1 mat

val max_dev : 'a1 numops -> 'a1 mat -> 'a1 mat -> 'a1

val outside_blocks :
  'a1 numops -> 'a1 mat -> (int -> int) -> (int * int) list -> int

val locate : int list -> int -> int -> int * int

val assemble :
  'a1 numops -> int list -> ((int * int) * 'a1 mat) list -> 'a1 mat

val madd : 'a1 numops -> 'a1 mat -> 'a1 mat -> 'a1 mat

val anticomm : 'a1 numops -> int -> 'a1 mat -> 'a1 mat -> 'a1 mat

val scalar_mat : 'a1 numops -> int -> 'a1 -> 'a1 mat

val feps : fc

val fre : fc -> fc

val m_classification : int -> int list list -> classification

val m_getBlockNumber : bool -> classification -> int -> int outcome

val m_getInnerState_label : bool -> classification -> int -> int outcome

val m_hpart_prepare :
  (Float64.t -> Float64.t) -> bool -> classification -> fc poly -> int -> fc
  mat outcome

val m_hpart_compute :
  (Float64.t -> Float64.t) -> fc mat -> (fc list * fc mat) -> fc list * fc mat

val m_ground : (Float64.t -> Float64.t) -> fc hpart list -> fc outcome

val m_getEigenValue :
  bool -> classification -> fc hpart list -> int -> fc outcome

val m_getEigenValues : classification -> fc hpart list -> fc list outcome

val m_fo_prepare :
  (Float64.t -> Float64.t) -> bool -> classification -> fop -> (int * int)
  list outcome

val m_fo_bimap : (int * int) list -> (int * int) list

val m_fop_dense :
  (Float64.t -> Float64.t) -> bool -> classification -> fop -> int -> int ->
  fc mat -> fc mat -> fc mat outcome

val m_prune : (Float64.t -> Float64.t) -> fc -> fc -> fc mat -> fc mat

val m_keep : (Float64.t -> Float64.t) -> fc -> fc -> fc -> bool

val m_container_copy :
  (Float64.t -> Float64.t) -> (int -> int) -> (int * int) list ->
  ((int * int) * fc mat) list -> (int * int) list -> ((int * int) * fc mat
  option) list outcome

val m_fop_poly : (Float64.t -> Float64.t) -> fop -> fc poly

val s_poly_matrix :
  (Float64.t -> Float64.t) -> int -> (monomial * fc) list -> fc mat

val s_restrict :
  (Float64.t -> Float64.t) -> fc mat -> int list -> int list -> fc mat

val s_rotate_block :
  (Float64.t -> Float64.t) -> int -> int -> fc mat -> fc mat -> fc mat -> fc
  mat

val s_rotate_back :
  (Float64.t -> Float64.t) -> int -> int -> fc mat -> fc mat -> fc mat -> fc
  mat

val s_max_dev : (Float64.t -> Float64.t) -> fc mat -> fc mat -> fc

val s_outside :
  (Float64.t -> Float64.t) -> fc mat -> (int -> int) -> (int * int) list ->
  int

val s_assemble :
  (Float64.t -> Float64.t) -> int list -> ((int * int) * fc mat) list -> fc
  mat

val s_anticomm : (Float64.t -> Float64.t) -> int -> fc mat -> fc mat -> fc mat

val s_scalar : (Float64.t -> Float64.t) -> int -> fc -> fc mat

val s_residual_HU :
  (Float64.t -> Float64.t) -> int -> fc mat -> fc mat -> fc vec -> fc

val s_residual_unitary : (Float64.t -> Float64.t) -> int -> fc mat -> fc

val s_adjoint : (Float64.t -> Float64.t) -> int -> fc mat -> fc mat

val s_max_abs : (Float64.t -> Float64.t) -> fc list -> fc
