(** Extraction root of the C07 model (PV.Symm at exact rationals). nat -> OCaml int (indices, state labels
    below 2^N with N small); Z and Q stay the extracted inductive types. *)
Require Import ZArith QArith.
From Coq Require Import ExtrOcamlBasic ExtrOcamlNatInt.
From PV Require Import Outcome Fock Poly PolyQ Symm.
Extraction "C07_model.ml" q_insert q_check_symmetry q_symmetrize q_qn_of q_sc_compute q_mapsTo q_prepare
  q_prepare_cdag q_prepare_c q_prepare_quad q_analyse q_get_melem q_c q_cdag q_n_offdiag q_act
  getBlockNumber getInnerState getFockState numberOfBlocks left_view right_view sort_by
  state_of_nat nat_of_state act_mono.
