(** Extraction root for the C20 correspondence driver.  nat -> OCaml int (labels, orbitals, spins and
    orders are tiny); Z / positive / Q stay the extracted inductive types (amplitudes are small dyadics). *)
Require Import QArith.
From Coq Require Import ExtrOcamlBasic ExtrOcamlNatInt.
From PV Require Import Outcome Lattice.

Extraction "C20_model.ml" q_rinit q_rstep q_effect q_getTerms q_judge q_set_site q_ops
  as_is repaired FNupNdown3 FSpinflip4 FPairHopping4 Qred.
