(** Extraction root for the C13 correspondence driver: the container state machine, the caller's-view
    ("ghost") step and the variant the translator reads off the source.  nat -> int (small indices and
    element ids), Z stays the extracted inductive type. *)
Require Import ZArith.
From Coq Require Import ExtrOcamlBasic ExtrOcamlNatInt.
From PV Require Import Container4 Container4Spec.

Extraction "C13_model.ml" init cstep gstep qfind source_says_fixed.
