(** Extraction root for the C15 correspondence driver. Z stays the extracted inductive type. *)
Require Import ZArith Floats.
From Coq Require Import ExtrOcamlBasic ExtrOCamlFloats.
From PV Require Import Outcome Matsubara4.
From PVgen Require Import Gen_Vertex4.

(** Vertex4::value instantiated at pairs of binary64 floats (complex numbers), with the
    operation order of the generated definition. *)
Definition cplx := (float * float)%type.
Definition cadd (a b : cplx) : cplx := (fst a + fst b, snd a + snd b)%float.
Definition csub (a b : cplx) : cplx := (fst a - fst b, snd a - snd b)%float.
Definition cmul (a b : cplx) : cplx :=
  (fst a * fst b - snd a * snd b, fst a * snd b + snd a * fst b)%float.
Definition vertex_value_f (beta : cplx) (chi : cplx) (g13 g24 g14 g23 : cplx) (n1 n2 n3 : Z) : cplx :=
  vertex_value cplx cadd csub cmul beta (fun _ _ _ => chi) (fun _ => g13) (fun _ => g24)
               (fun _ => g14) (fun _ => g23) n1 n2 n3.

Extraction "C15_model.ml" probe probe_seq window_cells vertex_value_f.
