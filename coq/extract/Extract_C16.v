(** Extraction root for the C16 replay / exploration driver.  Ranks and job ids are small, so [nat] is mapped
    to OCaml [int] (ExtrOcamlNatInt); nothing else is realised by hand. *)
From Coq Require Import ExtrOcamlBasic ExtrOcamlNatInt.
From PV Require Import Dispatch DispatchProofs.

Extraction "C16_model.ml" init step run enabled finalb final_okb candidates restart valid_cfg pool ranks mu.
