(** Extraction root for the C04 correspondence driver (ocaml/driver_c04.ml).
    nat -> OCaml int (labels, orbitals, spins, mode indices, Fock-state numbers < 64);
    Z / positive / Q stay the extracted inductive types (amplitudes are small dyadics). *)
Require Import QArith.
From Coq Require Import ExtrOcamlBasic ExtrOcamlNatInt.
From PV Require Import Outcome Lattice IndexHam PolyQ PresetsSpec PresetsConfig PresetsExec.

Extraction "C04_model.ml"
  q_spec_table q_model_poly q_model_results q_splus_table q_sminus_table q_poly_table
  c_spec_table c_model_poly c_model_results c_splus_table c_sminus_table c_poly_table
  cfg_fixed cfg_mag_half cfg_doc_half
  as_is repaired Qred qadd qmul qsub qopp qzero q_eqb
  c0 c1 c_of_q cadd csub cmul copp cconj czero ceqb.
