(** Extraction root for the C03 / C10 correspondence driver: the models of HPart.v and the
    specification functions of EDSpec.v / HPartSpec.v at binary64 complex numbers. *)
Require Import ZArith Floats.
From Coq Require Import ExtrOcamlBasic ExtrOcamlNatInt ExtrOCamlFloats.
From PV Require Import Outcome Fock Poly EDSpec EDFloat HPart HPartSpec.

Definition feps : fc := (0x1p-52%float, 0%float).      (* std::numeric_limits<double>::epsilon() *)
Definition fre (a : fc) : fc := (fst a, 0%float).

Definition m_classification := classification_of_blocks.
Definition m_getBlockNumber := getBlockNumber.
Definition m_getInnerState_label := getInnerState_label.
Definition m_hpart_prepare fexp fixed := hpart_prepare fixed fc (fops fexp) feps.
Definition m_hpart_compute fexp := hpart_compute fc (fops fexp) fre.
Definition m_ground fexp := computeGroundEnergy fc (fops fexp).
Definition m_getEigenValue (fixed : bool) := getEigenValue fixed fc.
Definition m_getEigenValues := getEigenValues fc.
Definition m_fo_prepare fexp fixed := fo_prepare fixed fc (fops fexp) feps.
Definition m_fo_bimap := fo_bimap.
Definition m_fop_dense fexp fixed := fop_dense fixed fc (fops fexp) feps.
Definition m_prune fexp := prune fc (fops fexp).
Definition m_keep fexp := keep_entry fc (fops fexp).
Definition m_container_copy fexp := container_copy fc (fops fexp).
Definition m_fop_poly fexp := fop_poly fc (fops fexp).

Definition s_poly_matrix fexp := poly_matrix fc (fops fexp).
Definition s_restrict fexp := restrict fc (fops fexp).
Definition s_rotate_block fexp := rotate_block fc (fops fexp).
Definition s_rotate_back fexp := rotate_back fc (fops fexp).
Definition s_max_dev fexp := max_dev fc (fops fexp).
Definition s_outside fexp := outside_blocks fc (fops fexp).
Definition s_assemble fexp := assemble fc (fops fexp).
Definition s_anticomm fexp := anticomm fc (fops fexp).
Definition s_scalar fexp := scalar_mat fc (fops fexp).
Definition s_residual_HU fexp := residual_HU fc (fops fexp).
Definition s_residual_unitary fexp := residual_unitary fc (fops fexp).
Definition s_adjoint fexp := adjoint fc (fops fexp).
Definition s_max_abs fexp := max_abs fc (fops fexp).

Extraction "C03_model.ml" m_classification m_getBlockNumber m_getInnerState_label m_hpart_prepare m_hpart_compute
  m_ground m_getEigenValue m_getEigenValues m_fo_prepare m_fo_bimap m_fop_dense m_prune m_keep m_container_copy m_fop_poly
  s_poly_matrix s_restrict s_rotate_block s_rotate_back s_max_dev s_outside s_assemble s_anticomm s_scalar
  s_residual_HU s_residual_unitary s_adjoint s_max_abs cdag cann.
