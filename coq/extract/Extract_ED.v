(** Extraction root of the exact-diagonalisation oracle (EDSpec at binary64 complex numbers). *)
Require Import ZArith Floats.
From Coq Require Import ExtrOcamlBasic ExtrOcamlNatInt ExtrOCamlFloats.
From PV Require Import Outcome Fock Poly EDSpec EDFloat.

Definition f_poly_matrix fexp := poly_matrix fc (fops fexp).
Definition f_op_matrix fexp := op_matrix fc (fops fexp).
Definition f_residual_HU fexp := residual_HU fc (fops fexp).
Definition f_residual_unitary fexp := residual_unitary fc (fops fexp).
Definition f_weights fexp := weights fc (fops fexp).
Definition f_rotate fexp := rotate fc (fops fexp).
Definition f_mmul fexp := mmul fc (fops fexp).
Definition f_adjoint fexp := adjoint fc (fops fexp).
Definition f_gf fexp := gf fc (fops fexp).
Definition f_gf_tau fexp := gf_tau fc (fops fexp).
Definition f_trace_rho fexp := trace_rho fc (fops fexp).
Definition f_avg_energy fexp := avg_energy fc (fops fexp).
Definition f_susc fexp := susc fc (fops fexp).
Definition f_susc_tau fexp := susc_tau fc (fops fexp).
Definition f_phi fexp := phi fc (fops fexp).
Definition f_chi fexp := chi fc (fops fexp).
Definition f_chi_ordering fexp := chi_ordering fc (fops fexp).

Extraction "ED_model.ml" f_poly_matrix f_op_matrix f_residual_HU f_residual_unitary f_weights f_rotate f_mmul f_adjoint
  f_gf f_gf_tau f_trace_rho f_avg_energy f_susc f_susc_tau f_phi f_chi f_chi_ordering cdag cann.
