(** Extraction root of the C02 correspondence driver: the model PV.Chi (with the generated PVgen.Gen_Multiterm inside)
    at binary64 complex numbers (PV.EDFloat), plus the documented kernel EDSpec.phi for the per-multiterm check. *)
Require Import ZArith Floats List.
From Coq Require Import ExtrOcamlBasic ExtrOcamlNatInt ExtrOCamlFloats.
From PV Require Import Outcome EDSpec EDFloat Chi.
From PVgen Require Import Gen_Multiterm.

Definition f_tols fexp := tols_code fc (fops fexp).
Definition f_gf_prepare := gf_prepare fc.
Definition f_gf_prepared := gf_prepared fc.
Definition f_part_compute fexp := part_compute fc (fops fexp).
Definition f_part_visits fexp := part_visits fc (fops fexp).
Definition f_part_emissions fexp := part_emissions fc (fops fexp).
Definition f_emissions_separated_b fexp := emissions_separated_b fc (fops fexp).
Definition f_part_eval fexp := part_eval fc (fops fexp).
Definition f_gf_compute fexp := gf_compute fc (fops fexp).            (* the shape the source has now *)
Definition f_gf_compute_gen fexp := gf_compute_gen fc (fops fexp).    (* explicit shape flags *)
Definition f_gf_value fexp := gf_value fc (fops fexp).
Definition f_phi fexp := phi fc (fops fexp).
(** the sum of the terms one multiterm generates (guards as in the code), evaluated at (z1,z2,z3) *)
Definition f_multiterm_value fexp (tl : tols fc) (Coeff beta Ei Ej Ek El Wi Wj Wk Wl z1 z2 z3 : fc) : fc :=
  let NO := fops fexp in
  fold_left (fun (acc : fc) (ge : bool * emission fc) =>
     if fst ge then
       fadd acc (match snd ge with
                 | EmitNonRes _ c p1 p2 p3 f => nr_eval fc NO (mk_nr fc c p1 p2 p3 f) z1 z2 z3
                 | EmitRes _ rc nc p1 p2 p3 f => r_eval fc NO (t_reduce fc tl) (mk_r fc rc nc p1 p2 p3 f) z1 z2 z3
                 end)
     else acc)
    (addMultiterm fc (nadd fc NO) (nsub fc NO) (nmul fc NO) (ndiv fc NO) (nopp fc NO) (abs_gt fc NO) (abs_lt fc NO) (real_ge fc NO)
                  (t_coeff fc tl) Coeff beta Ei Ej Ek El Wi Wj Wk Wl) (0%float, 0%float).

Extraction "C02_model.ml" f_tols f_gf_prepare f_gf_prepared f_part_compute f_part_visits f_part_emissions f_emissions_separated_b f_part_eval f_gf_compute f_gf_compute_gen f_gf_value
  f_phi f_multiterm_value add_term_retries compute_sizes_table_before_vanishing_test compute_guards_empty_reduce.
