(** Extraction root of the C09 / C19 correspondence driver: PV.Thermal at binary64 complex numbers
    (pairs of primitive floats; every real quantity has imaginary part 0).  The exponential is supplied by the
    OCaml driver (Stdlib.exp), as for the ED oracle.  Division is only ever by the real partition function and
    is performed component-wise, so that on real data the floating-point operations are those of the C++
    (w / Z, not w*Z / (Z*Z)); |v*v| of a real v is |v*v| (no square root). *)
Require Import ZArith Floats.
From Coq Require Import ExtrOcamlBasic ExtrOcamlNatInt ExtrOCamlFloats.
From PV Require Import Outcome EDSpec EDFloat Thermal.
Local Open Scope float_scope.

Definition tdiv (a b : fc) : fc := (fst a / fst b, snd a / fst b).
Definition tabs (a : fc) : fc :=
  if PrimFloat.eqb (snd a) 0 then (abs (fst a), 0) else fabs a.
Fixpoint nat_to_float (n : nat) : float := match n with O => 0 | S m => nat_to_float m + 1 end.
Definition tofnat (n : nat) : fc := (nat_to_float n, 0).
Definition tltb (a b : fc) : bool := PrimFloat.ltb (fst a) (fst b).
Definition texp (fexp : float -> float) (a : fc) : fc := (fexp (fst a), 0).
Definition t0 : fc := (0, 0).

Definition t_ground_energy := ground_energy fc tltb.
Definition t_dm_compute fexp := dm_compute fc t0 fadd fsub fmul tdiv fopp (texp fexp) tltb.
Definition t_dm_unnormalized fexp := dm_unnormalized fc t0 fadd fsub fmul fopp (texp fexp).
Definition t_dm_truncate := dm_truncate fc tltb.
Definition t_is_retained := is_retained fc.
Definition t_dm_average_energy := dm_average_energy fc t0 fadd fmul.
Definition t_dm_average_occupancy := dm_average_occupancy fc t0 fadd fmul tabs tofnat.
Definition t_dm_average_occupancy_i := dm_average_occupancy_i fc t0 fadd fmul tabs tofnat.
Definition t_dm_average_double_occupancy := dm_average_double_occupancy fc t0 fadd fmul tabs tofnat.
Definition t_dm_get_weight := dm_get_weight fc.
Definition t_ham_get_eigenvalue := ham_get_eigenvalue fc.
Definition t_ham_get_eigenvalues := ham_get_eigenvalues fc.
Definition t_ea_prepare := ea_prepare fc t0 fadd fmul.
Definition t_gf_prepare := gf_prepare.
Definition t_tpgf_prepare := tpgf_prepare.
Definition t_mk_hpart := mk_hpart fc.
Definition t_mk_oppart := mk_oppart fc.
Definition t_dp_weights := dp_weights fc.
Definition t_dp_zpart := dp_zpart fc.
Definition t_dp_retained := dp_retained fc.

Extraction "C09_model.ml" t_ground_energy t_dm_compute t_dm_unnormalized t_dm_truncate t_is_retained
  t_dm_average_energy t_dm_average_occupancy t_dm_average_occupancy_i t_dm_average_double_occupancy
  t_dm_get_weight t_ham_get_eigenvalue t_ham_get_eigenvalues t_ea_prepare t_gf_prepare t_tpgf_prepare
  t_mk_hpart t_mk_oppart t_dp_weights t_dp_zpart t_dp_retained.
