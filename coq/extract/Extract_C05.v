Require Import ZArith QArith.
From Coq Require Import ExtrOcamlBasic ExtrOcamlNatInt.
From PV Require Import Outcome Fock Poly PolyQ.
(* nat is extracted to OCaml int (ExtrOcamlNatInt): indices and lengths are tiny here. Z and Q stay inductive. *)
Extraction "C05_model.ml" q_insert q_padd q_psub q_pneg q_pscale q_padd_const q_psub_const q_pmul
  q_commutator q_anticommutator q_poly_eq q_commutes q_c q_cdag q_n q_n_offdiag q_N q_Sz q_act q_normalize
  state_of_nat nat_of_state N_shortcut Sz_shortcut sz_down act_mono mono_compare.
