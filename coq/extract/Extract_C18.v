(** Extraction root for the C18 correspondence driver.  [nat] values are small indices and
    counts (ExtrOcamlNatInt); labels stay the extracted inductive [string] / [ascii], built and
    printed by the driver byte by byte, so no string-specific extraction directive is trusted. *)
Require Import List.
From Coq Require Import ExtrOcamlBasic ExtrOcamlNatInt.
From PV Require Import Outcome Index.

Extraction "C18_model.ml" mkSite site_map fill_vector prepare getIndex getInfo checkIndex index_total.
