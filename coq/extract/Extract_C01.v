(** Extraction root of the C01 / C14 / C17-loops correspondence driver: the models PV.Sparse, PV.TermList, PV.GFPart,
    PV.SuscPart, PV.Container2 and the full-space truncation bound PV.TruncSpec (with the pieces of PV.EDSpec it needs),
    at binary64 complex numbers (PV.EDFloat). No Extract Constant of our own. *)
Require Import ZArith Floats.
From Coq Require Import ExtrOcamlBasic ExtrOcamlNatInt ExtrOCamlFloats.
From PV Require Import Outcome Fock Poly EDSpec EDFloat NumLit Sparse TermList GFPart SuscPart TruncSpec Container2.
From PVgen Require Import Gen_C01.

(* the models *)
Definition c_gf_compute fexp := gf_compute fc (fops fexp).
Definition c_gf_value fexp := gf_value fc (fops fexp).
Definition c_gf_value_tau fexp := gf_value_tau fc (fops fexp).
Definition c_gf_matsubara fexp := gf_matsubara fc (fops fexp).
Definition c_gf_tols fexp := gf_tols_cpp fc (fops fexp).
Definition c_gf_part_value fexp := gf_part_value fc (fops fexp).
Definition c_susc_compute fexp := susc_compute fc (fops fexp).
Definition c_susc_value fexp := susc_value fc (fops fexp).
Definition c_susc_value_tau fexp := susc_value_tau fc (fops fexp).
Definition c_susc_matsubara fexp := susc_matsubara fc (fops fexp).
Definition c_susc_tols fexp := susc_tols_cpp fc (fops fexp).
Definition c_susc_part_value fexp := susc_part_value fc (fops fexp).
Definition c_ensemble_average fexp := ensemble_average fc (fops fexp).
Definition c_supplied fexp := supplied fc (fops fexp).
Definition c_ea_prepare fexp := ea_prepare fc (fops fexp).
Definition c_ea_new fexp := ea_new fc (fops fexp).
Definition c_cs_wf_b := @cs_wf_b fc.
Definition c_kept := kept fc.
Definition c_dropped := dropped fc.
Definition c_s_kept := s_kept fc.
Definition c_s_dropped := s_dropped fc.
Definition c_gf_term_eval fexp := gf_term_eval fc (fops fexp).
Definition c_susc_term_eval fexp := susc_term_eval fc (fops fexp).

(* which loops the source has now (translator): tested-before-read or not *)
Definition c_gf_chase_guarded := gf_chase_guarded.
Definition c_susc_chase_guarded := susc_chase_guarded.
Definition c_chaseIndices_guarded := chaseIndices_guarded.

(* the oracle side *)
Definition c_poly_matrix fexp := poly_matrix fc (fops fexp).
Definition c_op_matrix fexp := op_matrix fc (fops fexp).
Definition c_weights fexp := weights fc (fops fexp).
Definition c_rotate fexp := rotate fc (fops fexp).
Definition c_mmul fexp := mmul fc (fops fexp).
Definition c_gf_lehmann fexp := gf_lehmann fc (fops fexp).
Definition c_dropped_bound fexp := dropped_bound fc (fops fexp).
Definition c_with_delta fexp := with_delta fc (fops fexp).
Definition c_merge_bound fexp := merge_bound fc (fops fexp).
Definition c_susc_lehmann fexp := susc_lehmann fc (fops fexp).
Definition c_susc_terms fexp := susc_terms fc (fops fexp).
Definition c_resonance_bound fexp := resonance_bound fc (fops fexp).
Definition c_tau_dropped_bound fexp := tau_dropped_bound fc (fops fexp).
Definition c_tau_merge_bound fexp := tau_merge_bound fc (fops fexp).
Definition c_susc_tau_safe fexp := susc_tau_safe fc (fops fexp).

Extraction "C01_model.ml"
  c_gf_compute c_gf_value c_gf_value_tau c_gf_matsubara c_gf_tols c_gf_part_value
  c_susc_compute c_susc_value c_susc_value_tau c_susc_matsubara c_susc_tols c_susc_part_value
  c_ensemble_average c_supplied c_ea_prepare c_ea_new c_cs_wf_b c_kept c_dropped c_s_kept c_s_dropped
  c_gf_term_eval c_susc_term_eval
  c_poly_matrix c_op_matrix c_weights c_rotate c_mmul
  c_gf_lehmann c_dropped_bound c_with_delta c_merge_bound c_susc_lehmann c_susc_terms c_resonance_bound c_tau_dropped_bound c_tau_merge_bound c_susc_tau_safe
  c_gf_chase_guarded c_susc_chase_guarded c_chaseIndices_guarded
  cstep cinit crun cdag cann mkcs mkgf mktols.
