(** Extraction root for the C06 prediction driver (ocaml/driver_c06.ml).
    Ranks, colours and part indices are small, so [nat] is mapped to OCaml [int] (ExtrOcamlNatInt); [Z] stays the
    extracted inductive type; primitive floats and 63-bit integers are mapped to Coq's own Float64 / Uint63 kernel
    modules (ExtrOCamlFloats, ExtrOCamlInt63), i.e. the rank colours are computed with hardware binary64 arithmetic
    exactly as the C++ does.  Nothing is realised by hand. *)
From Coq Require Import ExtrOcamlBasic ExtrOcamlNatInt ExtrOCamlFloats ExtrOCamlInt63.
From PVgen Require Import Gen_SplitColors.
From PV Require Import SplitComm.

Extraction "C06_model.ml"
  gen_root_is_first gen_skel_barrier_on_comm gen_parts_marked_computed
  gen_skel_barriers_before_loop gen_skel_barriers_after gen_skel_bcasts_root_branch gen_skel_bcasts_other_branch
  gen_skel_root gen_distribute_bcasts_per_part
  mkfixes all_fixed none_fixed code_fixes mkcomp
  ncolors float_colouring exact_colouring colours_ok_b
  members local_rank sender comms_of proj
  split_trace nosplit_trace single_trace ham_prepare_trace ham_compute_trace
  split_state nosplit_state ham_block_source
  evaluable has_all_terms is_full_sum_b is_zeros_b
  collectives_match_b coll_exec no_step_b all_done.
