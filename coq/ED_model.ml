
(** val xorb : bool -> bool -> bool **)

let xorb b1 b2 =
  if b1 then if b2 then false else true else b2

(** val negb : bool -> bool **)

let negb = function
| true -> false
| false -> true

(** val fst : ('a1 * 'a2) -> 'a1 **)

let fst = function
| (x, _) -> x

(** val snd : ('a1 * 'a2) -> 'a2 **)

let snd = function
| (_, y) -> y

(** val length : 'a1 list -> int **)

let rec length = function
| [] -> 0
| _ :: l' -> Stdlib.Int.succ (length l')

(** val app : 'a1 list -> 'a1 list -> 'a1 list **)

let rec app l m =
  match l with
  | [] -> m
  | a :: l1 -> a :: (app l1 m)

(** val add : int -> int -> int **)

let rec add = (+)

(** val mul : int -> int -> int **)

let rec mul = ( * )

type positive =
| XI of positive
| XO of positive
| XH

type z =
| Z0
| Zpos of positive
| Zneg of positive

(** val eqb : bool -> bool -> bool **)

let eqb b1 b2 =
  if b1 then b2 else if b2 then false else true

module Nat =
 struct
  (** val add : int -> int -> int **)

  let rec add n m =
    (fun fO fS n -> if n=0 then fO () else fS (n-1))
      (fun _ -> m)
      (fun p -> Stdlib.Int.succ (add p m))
      n

  (** val mul : int -> int -> int **)

  let rec mul n m =
    (fun fO fS n -> if n=0 then fO () else fS (n-1))
      (fun _ -> 0)
      (fun p -> add m (mul p m))
      n

  (** val ltb : int -> int -> bool **)

  let ltb n m =
    (<=) (Stdlib.Int.succ n) m

  (** val even : int -> bool **)

  let rec even n =
    (fun fO fS n -> if n=0 then fO () else fS (n-1))
      (fun _ -> true)
      (fun n2 ->
      (fun fO fS n -> if n=0 then fO () else fS (n-1))
        (fun _ -> false)
        (fun n' -> even n')
        n2)
      n

  (** val odd : int -> bool **)

  let odd n =
    negb (even n)

  (** val pow : int -> int -> int **)

  let rec pow n m =
    (fun fO fS n -> if n=0 then fO () else fS (n-1))
      (fun _ -> Stdlib.Int.succ 0)
      (fun m0 -> mul n (pow n m0))
      m

  (** val div2 : int -> int **)

  let rec div2 = fun n -> n/2
 end

(** val hd : 'a1 -> 'a1 list -> 'a1 **)

let hd default = function
| [] -> default
| x :: _ -> x

(** val tl : 'a1 list -> 'a1 list **)

let tl = function
| [] -> []
| _ :: m -> m

(** val nth : int -> 'a1 list -> 'a1 -> 'a1 **)

let rec nth n l default =
  (fun fO fS n -> if n=0 then fO () else fS (n-1))
    (fun _ -> match l with
              | [] -> default
              | x :: _ -> x)
    (fun m -> match l with
              | [] -> default
              | _ :: t -> nth m t default)
    n

(** val concat : 'a1 list list -> 'a1 list **)

let rec concat = function
| [] -> []
| x :: l0 -> app x (concat l0)

(** val map : ('a1 -> 'a2) -> 'a1 list -> 'a2 list **)

let rec map f = function
| [] -> []
| a :: t -> (f a) :: (map f t)

(** val fold_left : ('a1 -> 'a2 -> 'a1) -> 'a2 list -> 'a1 -> 'a1 **)

let rec fold_left f l a0 =
  match l with
  | [] -> a0
  | b :: t -> fold_left f t (f a0 b)

(** val filter : ('a1 -> bool) -> 'a1 list -> 'a1 list **)

let rec filter f = function
| [] -> []
| x :: l0 -> if f x then x :: (filter f l0) else filter f l0

(** val combine : 'a1 list -> 'a2 list -> ('a1 * 'a2) list **)

let rec combine l l' =
  match l with
  | [] -> []
  | x :: tl0 ->
    (match l' with
     | [] -> []
     | y :: tl' -> (x, y) :: (combine tl0 tl'))

(** val seq : int -> int -> int list **)

let rec seq start len =
  (fun fO fS n -> if n=0 then fO () else fS (n-1))
    (fun _ -> [])
    (fun len0 -> start :: (seq (Stdlib.Int.succ start) len0))
    len

(** val sqrt : Float64.t -> Float64.t **)

let sqrt = Float64.sqrt

(** val opp : Float64.t -> Float64.t **)

let opp = Float64.opp

(** val ltb0 : Float64.t -> Float64.t -> bool **)

let ltb0 = Float64.lt

(** val mul0 : Float64.t -> Float64.t -> Float64.t **)

let mul0 = Float64.mul

(** val add0 : Float64.t -> Float64.t -> Float64.t **)

let add0 = Float64.add

(** val sub : Float64.t -> Float64.t -> Float64.t **)

let sub = Float64.sub

(** val div : Float64.t -> Float64.t -> Float64.t **)

let div = Float64.div

type 'a outcome =
| Done of 'a
| OOB
| Uninit
| Throws of int
| OutOfFuel

type op = bool * int

(** val op_ann : op -> bool **)

let op_ann =
  fst

(** val op_idx : op -> int **)

let op_idx =
  snd

(** val cdag : int -> op **)

let cdag i =
  (false, i)

(** val cann : int -> op **)

let cann i =
  (true, i)

type state = bool list

(** val upd : int -> bool -> state -> state **)

let rec upd i v = function
| [] -> []
| b :: t ->
  ((fun fO fS n -> if n=0 then fO () else fS (n-1))
     (fun _ -> v :: t)
     (fun j -> b :: (upd j v t))
     i)

(** val par : int -> state -> bool **)

let rec par n s =
  (fun fO fS n -> if n=0 then fO () else fS (n-1))
    (fun _ -> false)
    (fun m -> match s with
              | [] -> false
              | b :: t -> xorb b (par m t))
    n

(** val act_op : op -> state -> (bool * state) option outcome **)

let act_op o s =
  let i = op_idx o in
  if Nat.ltb i (length s)
  then let occ = nth i s false in
       if eqb occ (negb (op_ann o))
       then Done None
       else Done (Some ((par i s), (upd i (negb (op_ann o)) s)))
  else OOB

(** val act_mono : op list -> state -> (bool * state) option outcome **)

let rec act_mono m s =
  match m with
  | [] -> Done (Some (false, s))
  | o :: rest ->
    (match act_mono rest s with
     | Done a ->
       (match a with
        | Some p ->
          let (sg, s') = p in
          (match act_op o s' with
           | Done a0 ->
             (match a0 with
              | Some p0 ->
                let (sg', s'') = p0 in Done (Some ((xorb sg sg'), s''))
              | None -> Done None)
           | x -> x)
        | None -> Done None)
     | x -> x)

(** val state_of_nat : int -> int -> state **)

let rec state_of_nat m n =
  (fun fO fS n -> if n=0 then fO () else fS (n-1))
    (fun _ -> [])
    (fun m' -> (Nat.odd n) :: (state_of_nat m' (Nat.div2 n)))
    m

(** val nat_of_state : state -> int **)

let rec nat_of_state = function
| [] -> 0
| b :: t ->
  add (if b then Stdlib.Int.succ 0 else 0)
    (mul (Stdlib.Int.succ (Stdlib.Int.succ 0)) (nat_of_state t))

type monomial = op list

type 'k numops = { n0 : 'k; n1 : 'k; nadd : ('k -> 'k -> 'k);
                   nsub : ('k -> 'k -> 'k); nmul : ('k -> 'k -> 'k);
                   ndiv : ('k -> 'k -> 'k); nopp : ('k -> 'k);
                   nconj : ('k -> 'k); nexp : ('k -> 'k);
                   nre_ltb : ('k -> 'k -> bool); nabs : ('k -> 'k);
                   nofZ : (z -> 'k); nI : 'k }

type 'k vec = 'k list

type 'k mat = 'k list list

(** val ksum : 'a1 numops -> 'a2 list -> ('a2 -> 'a1) -> 'a1 **)

let ksum nO l f =
  fold_left (fun acc a -> nO.nadd acc (f a)) l nO.n0

(** val dot : 'a1 numops -> 'a1 vec -> 'a1 vec -> 'a1 **)

let dot nO u v =
  fold_left (fun acc ab -> nO.nadd acc (nO.nmul (fst ab) (snd ab)))
    (combine u v) nO.n0

(** val transpose_aux : 'a1 numops -> int -> 'a1 mat -> 'a1 mat **)

let rec transpose_aux nO n m =
  (fun fO fS n -> if n=0 then fO () else fS (n-1))
    (fun _ -> [])
    (fun n' ->
    (map (fun r -> hd nO.n0 r) m) :: (transpose_aux nO n' (map tl m)))
    n

(** val transpose : 'a1 numops -> int -> 'a1 mat -> 'a1 mat **)

let transpose =
  transpose_aux

(** val mmul : 'a1 numops -> int -> 'a1 mat -> 'a1 mat -> 'a1 mat **)

let mmul nO ncols_b a b =
  let bt = transpose nO ncols_b b in
  map (fun r -> map (fun c -> dot nO r c) bt) a

(** val adjoint : 'a1 numops -> int -> 'a1 mat -> 'a1 mat **)

let adjoint nO ncols m =
  map (map nO.nconj) (transpose nO ncols m)

(** val mget : 'a1 numops -> 'a1 mat -> int -> int -> 'a1 **)

let mget nO m i j =
  nth j (nth i m []) nO.n0

(** val idx : 'a1 list -> (int * 'a1) list **)

let idx l =
  combine (seq 0 (length l)) l

(** val mono_entry : int -> monomial -> int -> (bool * int) option **)

let mono_entry m m0 s =
  match act_mono m0 (state_of_nat m s) with
  | Done a ->
    (match a with
     | Some p -> let (sg, s') = p in Some (sg, (nat_of_state s'))
     | None -> None)
  | _ -> None

(** val poly_matrix :
    'a1 numops -> int -> (monomial * 'a1) list -> 'a1 mat **)

let poly_matrix nO m p =
  let dim = Nat.pow (Stdlib.Int.succ (Stdlib.Int.succ 0)) m in
  map (fun t ->
    map (fun s ->
      ksum nO p (fun mc ->
        match mono_entry m (fst mc) s with
        | Some p0 ->
          let (sg, t') = p0 in
          if (=) t' t then if sg then nO.nopp (snd mc) else snd mc else nO.n0
        | None -> nO.n0)) (seq 0 dim)) (seq 0 dim)

(** val op_matrix : 'a1 numops -> int -> op -> 'a1 mat **)

let op_matrix nO m o =
  poly_matrix nO m (((o :: []), nO.n1) :: [])

(** val max_abs : 'a1 numops -> 'a1 list -> 'a1 **)

let max_abs nO l =
  fold_left (fun acc x ->
    if nO.nre_ltb acc (nO.nabs x) then nO.nabs x else acc) l nO.n0

(** val residual_HU :
    'a1 numops -> int -> 'a1 mat -> 'a1 mat -> 'a1 vec -> 'a1 **)

let residual_HU nO dim h u e =
  let hU = mmul nO dim h u in
  max_abs nO
    (concat
      (map (fun ir ->
        map (fun jc ->
          nO.nsub (snd jc)
            (nO.nmul (mget nO u (fst ir) (fst jc)) (nth (fst jc) e nO.n0)))
          (idx (snd ir))) (idx hU)))

(** val residual_unitary : 'a1 numops -> int -> 'a1 mat -> 'a1 **)

let residual_unitary nO dim u =
  let uU = mmul nO dim (adjoint nO dim u) u in
  max_abs nO
    (concat
      (map (fun ir ->
        map (fun jc ->
          nO.nsub (snd jc) (if (=) (fst ir) (fst jc) then nO.n1 else nO.n0))
          (idx (snd ir))) (idx uU)))

(** val min_re : 'a1 numops -> 'a1 list -> 'a1 **)

let min_re nO l =
  fold_left (fun acc x -> if nO.nre_ltb x acc then x else acc) (tl l)
    (hd nO.n0 l)

(** val weights : 'a1 numops -> 'a1 -> 'a1 vec -> 'a1 vec **)

let weights nO beta e =
  let e0 = min_re nO e in
  let u = map (fun e1 -> nO.nexp (nO.nopp (nO.nmul beta (nO.nsub e1 e0)))) e
  in
  let z0 = ksum nO u (fun x -> x) in map (fun x -> nO.ndiv x z0) u

(** val rotate : 'a1 numops -> int -> 'a1 mat -> 'a1 mat -> 'a1 mat **)

let rotate nO dim u om =
  mmul nO dim (adjoint nO dim u) (mmul nO dim om u)

(** val gf :
    'a1 numops -> 'a1 vec -> 'a1 vec -> 'a1 mat -> 'a1 mat -> 'a1 -> 'a1 **)

let gf nO e w ci cXj z0 =
  ksum nO (idx ci) (fun nr ->
    let n = fst nr in
    ksum nO (idx (snd nr)) (fun mc ->
      let m = fst mc in
      let a = nO.nmul (snd mc) (mget nO cXj m n) in
      nO.ndiv (nO.nmul a (nO.nadd (nth n w nO.n0) (nth m w nO.n0)))
        (nO.nsub z0 (nO.nsub (nth m e nO.n0) (nth n e nO.n0)))))

(** val gf_tau :
    'a1 numops -> 'a1 vec -> 'a1 vec -> 'a1 mat -> 'a1 mat -> 'a1 -> 'a1 **)

let gf_tau nO e w ci cXj tau =
  ksum nO (idx ci) (fun nr ->
    let n = fst nr in
    ksum nO (idx (snd nr)) (fun mc ->
      let m = fst mc in
      nO.nopp
        (nO.nmul
          (nO.nmul (nO.nmul (snd mc) (mget nO cXj m n)) (nth n w nO.n0))
          (nO.nexp
            (nO.nopp (nO.nmul tau (nO.nsub (nth m e nO.n0) (nth n e nO.n0))))))))

(** val trace_rho : 'a1 numops -> 'a1 vec -> 'a1 mat -> 'a1 **)

let trace_rho nO w om =
  ksum nO (idx om) (fun nr ->
    nO.nmul (nth (fst nr) w nO.n0) (nth (fst nr) (snd nr) nO.n0))

(** val avg_energy : 'a1 numops -> 'a1 vec -> 'a1 vec -> 'a1 **)

let avg_energy nO e w =
  dot nO w e

(** val susc :
    'a1 numops -> 'a1 -> 'a1 -> 'a1 vec -> 'a1 vec -> 'a1 mat -> 'a1 mat ->
    'a1 -> bool -> 'a1 **)

let susc nO beta tol e w a b z0 z_is_zero =
  ksum nO (idx a) (fun nr ->
    let n = fst nr in
    ksum nO (idx (snd nr)) (fun mc ->
      let m = fst mc in
      let ab = nO.nmul (snd mc) (mget nO b m n) in
      let p = nO.nsub (nth m e nO.n0) (nth n e nO.n0) in
      if nO.nre_ltb (nO.nabs p) tol
      then if z_is_zero
           then nO.nmul (nO.nmul beta ab) (nth n w nO.n0)
           else nO.n0
      else nO.ndiv (nO.nmul ab (nO.nsub (nth m w nO.n0) (nth n w nO.n0)))
             (nO.nsub z0 p)))

(** val susc_tau :
    'a1 numops -> 'a1 vec -> 'a1 vec -> 'a1 mat -> 'a1 mat -> 'a1 -> 'a1 **)

let susc_tau nO e w a b tau =
  ksum nO (idx a) (fun nr ->
    let n = fst nr in
    ksum nO (idx (snd nr)) (fun mc ->
      let m = fst mc in
      nO.nmul (nO.nmul (nO.nmul (snd mc) (mget nO b m n)) (nth n w nO.n0))
        (nO.nexp (nO.nmul tau (nO.nsub (nth n e nO.n0) (nth m e nO.n0))))))

(** val phi :
    'a1 numops -> 'a1 -> 'a1 -> 'a1 -> 'a1 -> 'a1 -> 'a1 -> 'a1 -> 'a1 -> 'a1
    -> 'a1 -> 'a1 -> 'a1 -> 'a1 -> 'a1 **)

let phi nO beta tol ei ej ek el wi wj wk wl z1 z2 z3 =
  let d1 = nO.nsub (nO.nadd z1 ei) ej in
  let d3 = nO.nsub (nO.nadd z3 ek) el in
  let t1 =
    nO.ndiv (nO.nadd wi wl)
      (nO.nmul
        (nO.nmul d1 (nO.nsub (nO.nadd (nO.nadd (nO.nadd z1 z2) z3) ei) el))
        d3)
  in
  let t2 =
    nO.ndiv (nO.nadd wj wk)
      (nO.nmul (nO.nmul d1 (nO.nsub (nO.nadd z2 ej) ek)) d3)
  in
  let r12 =
    if (&&) (nO.nre_ltb (nO.nabs (nO.nadd z1 z2)) tol)
         (nO.nre_ltb (nO.nabs (nO.nsub ei ek)) tol)
    then nO.nmul beta wi
    else nO.ndiv (nO.nsub wk wi) (nO.nsub (nO.nadd (nO.nadd z1 z2) ei) ek)
  in
  let r23 =
    if (&&) (nO.nre_ltb (nO.nabs (nO.nadd z2 z3)) tol)
         (nO.nre_ltb (nO.nabs (nO.nsub ej el)) tol)
    then nO.nmul beta wj
    else nO.ndiv (nO.nsub wl wj) (nO.nsub (nO.nadd (nO.nadd z2 z3) ej) el)
  in
  nO.nsub (nO.nadd (nO.nsub t1 t2) (nO.ndiv r12 (nO.nmul d1 d3)))
    (nO.ndiv r23 (nO.nmul d1 d3))

(** val chi_ordering :
    'a1 numops -> 'a1 -> 'a1 -> 'a1 vec -> 'a1 vec -> 'a1 mat -> 'a1 mat ->
    'a1 mat -> 'a1 mat -> 'a1 -> 'a1 -> 'a1 -> 'a1 **)

let chi_ordering nO beta tol e w o1 o2 o3 o4 z1 z2 z3 =
  let nz = fun r ->
    filter (fun jc -> nO.nre_ltb nO.n0 (nO.nabs (snd jc))) (idx r)
  in
  ksum nO (idx o1) (fun ir ->
    let i = fst ir in
    ksum nO (nz (snd ir)) (fun ja ->
      let j = fst ja in
      ksum nO (nz (nth j o2 [])) (fun kb ->
        let k = fst kb in
        ksum nO (nz (nth k o3 [])) (fun lc ->
          let l = fst lc in
          let d = mget nO o4 l i in
          nO.nmul (nO.nmul (nO.nmul (nO.nmul (snd ja) (snd kb)) (snd lc)) d)
            (phi nO beta tol (nth i e nO.n0) (nth j e nO.n0) (nth k e nO.n0)
              (nth l e nO.n0) (nth i w nO.n0) (nth j w nO.n0) (nth k w nO.n0)
              (nth l w nO.n0) z1 z2 z3)))))

(** val perms3 : (int list * bool) list **)

let perms3 =
  ((0 :: ((Stdlib.Int.succ 0) :: ((Stdlib.Int.succ (Stdlib.Int.succ
    0)) :: []))), false) :: (((0 :: ((Stdlib.Int.succ (Stdlib.Int.succ
    0)) :: ((Stdlib.Int.succ 0) :: []))), true) :: ((((Stdlib.Int.succ
    0) :: (0 :: ((Stdlib.Int.succ (Stdlib.Int.succ 0)) :: []))),
    true) :: ((((Stdlib.Int.succ 0) :: ((Stdlib.Int.succ (Stdlib.Int.succ
    0)) :: (0 :: []))), false) :: ((((Stdlib.Int.succ (Stdlib.Int.succ
    0)) :: (0 :: ((Stdlib.Int.succ 0) :: []))), false) :: ((((Stdlib.Int.succ
    (Stdlib.Int.succ 0)) :: ((Stdlib.Int.succ 0) :: (0 :: []))),
    true) :: [])))))

(** val chi :
    'a1 numops -> 'a1 -> 'a1 -> 'a1 vec -> 'a1 vec -> 'a1 mat -> 'a1 mat ->
    'a1 mat -> 'a1 mat -> 'a1 -> 'a1 -> 'a1 -> 'a1 **)

let chi nO beta tol e w c1 c2 cX3 cX4 z1 z2 z3 =
  let ops = c1 :: (c2 :: (cX3 :: [])) in
  let zs = z1 :: (z2 :: ((nO.nopp z3) :: [])) in
  ksum nO perms3 (fun ps ->
    let p = fst ps in
    let sel = fun l d k -> nth (nth k p 0) l d in
    let v =
      chi_ordering nO beta tol e w (sel ops [] 0)
        (sel ops [] (Stdlib.Int.succ 0))
        (sel ops [] (Stdlib.Int.succ (Stdlib.Int.succ 0))) cX4
        (sel zs nO.n0 0) (sel zs nO.n0 (Stdlib.Int.succ 0))
        (sel zs nO.n0 (Stdlib.Int.succ (Stdlib.Int.succ 0)))
    in
    if snd ps then nO.nopp v else v)

type fc = Float64.t * Float64.t

(** val fadd : fc -> fc -> fc **)

let fadd a b =
  ((add0 (fst a) (fst b)), (add0 (snd a) (snd b)))

(** val fsub : fc -> fc -> fc **)

let fsub a b =
  ((sub (fst a) (fst b)), (sub (snd a) (snd b)))

(** val fmul : fc -> fc -> fc **)

let fmul a b =
  ((sub (mul0 (fst a) (fst b)) (mul0 (snd a) (snd b))),
    (add0 (mul0 (fst a) (snd b)) (mul0 (snd a) (fst b))))

(** val fdiv : fc -> fc -> fc **)

let fdiv a b =
  let d = add0 (mul0 (fst b) (fst b)) (mul0 (snd b) (snd b)) in
  ((div (add0 (mul0 (fst a) (fst b)) (mul0 (snd a) (snd b))) d),
  (div (sub (mul0 (snd a) (fst b)) (mul0 (fst a) (snd b))) d))

(** val fopp : fc -> fc **)

let fopp a =
  ((opp (fst a)), (opp (snd a)))

(** val fconj : fc -> fc **)

let fconj a =
  ((fst a), (opp (snd a)))

(** val fabs : fc -> fc **)

let fabs a =
  ((sqrt (add0 (mul0 (fst a) (fst a)) (mul0 (snd a) (snd a)))),
    (Float64.of_float (0x0p+0)))

(** val pos_to_float : positive -> Float64.t **)

let rec pos_to_float = function
| XI q ->
  add0 (mul0 (Float64.of_float (0x1p+1)) (pos_to_float q))
    (Float64.of_float (0x1p+0))
| XO q -> mul0 (Float64.of_float (0x1p+1)) (pos_to_float q)
| XH -> (Float64.of_float (0x1p+0))

(** val fofZ : z -> fc **)

let fofZ z0 =
  ((match z0 with
    | Z0 -> (Float64.of_float (0x0p+0))
    | Zpos p -> pos_to_float p
    | Zneg p -> opp (pos_to_float p)), (Float64.of_float (0x0p+0)))

(** val fops : (Float64.t -> Float64.t) -> fc numops **)

let fops fexp =
  { n0 = ((Float64.of_float (0x0p+0)), (Float64.of_float (0x0p+0))); n1 =
    ((Float64.of_float (0x1p+0)), (Float64.of_float (0x0p+0))); nadd = fadd;
    nsub = fsub; nmul = fmul; ndiv = fdiv; nopp = fopp; nconj = fconj; nexp =
    (fun a -> ((fexp (fst a)), (Float64.of_float (0x0p+0)))); nre_ltb =
    (fun a b -> ltb0 (fst a) (fst b)); nabs = fabs; nofZ = fofZ; nI =
    ((Float64.of_float (0x0p+0)), (Float64.of_float (0x1p+0))) }

(** val f_poly_matrix :
    (Float64.t -> Float64.t) -> int -> (monomial * fc) list -> fc mat **)

let f_poly_matrix fexp =
  poly_matrix (fops fexp)

(** val f_op_matrix : (Float64.t -> Float64.t) -> int -> op -> fc mat **)

let f_op_matrix fexp =
  op_matrix (fops fexp)

(** val f_residual_HU :
    (Float64.t -> Float64.t) -> int -> fc mat -> fc mat -> fc vec -> fc **)

let f_residual_HU fexp =
  residual_HU (fops fexp)

(** val f_residual_unitary :
    (Float64.t -> Float64.t) -> int -> fc mat -> fc **)

let f_residual_unitary fexp =
  residual_unitary (fops fexp)

(** val f_weights : (Float64.t -> Float64.t) -> fc -> fc vec -> fc vec **)

let f_weights fexp =
  weights (fops fexp)

(** val f_rotate :
    (Float64.t -> Float64.t) -> int -> fc mat -> fc mat -> fc mat **)

let f_rotate fexp =
  rotate (fops fexp)

(** val f_mmul :
    (Float64.t -> Float64.t) -> int -> fc mat -> fc mat -> fc mat **)

let f_mmul fexp =
  mmul (fops fexp)

(** val f_adjoint : (Float64.t -> Float64.t) -> int -> fc mat -> fc mat **)

let f_adjoint fexp =
  adjoint (fops fexp)

(** val f_gf :
    (Float64.t -> Float64.t) -> fc vec -> fc vec -> fc mat -> fc mat -> fc ->
    fc **)

let f_gf fexp =
  gf (fops fexp)

(** val f_gf_tau :
    (Float64.t -> Float64.t) -> fc vec -> fc vec -> fc mat -> fc mat -> fc ->
    fc **)

let f_gf_tau fexp =
  gf_tau (fops fexp)

(** val f_trace_rho : (Float64.t -> Float64.t) -> fc vec -> fc mat -> fc **)

let f_trace_rho fexp =
  trace_rho (fops fexp)

(** val f_avg_energy : (Float64.t -> Float64.t) -> fc vec -> fc vec -> fc **)

let f_avg_energy fexp =
  avg_energy (fops fexp)

(** val f_susc :
    (Float64.t -> Float64.t) -> fc -> fc -> fc vec -> fc vec -> fc mat -> fc
    mat -> fc -> bool -> fc **)

let f_susc fexp =
  susc (fops fexp)

(** val f_susc_tau :
    (Float64.t -> Float64.t) -> fc vec -> fc vec -> fc mat -> fc mat -> fc ->
    fc **)

let f_susc_tau fexp =
  susc_tau (fops fexp)

(** val f_phi :
    (Float64.t -> Float64.t) -> fc -> fc -> fc -> fc -> fc -> fc -> fc -> fc
    -> fc -> fc -> fc -> fc -> fc -> fc **)

let f_phi fexp =
  phi (fops fexp)

(** val f_chi :
    (Float64.t -> Float64.t) -> fc -> fc -> fc vec -> fc vec -> fc mat -> fc
    mat -> fc mat -> fc mat -> fc -> fc -> fc -> fc **)

let f_chi fexp =
  chi (fops fexp)

(** val f_chi_ordering :
    (Float64.t -> Float64.t) -> fc -> fc -> fc vec -> fc vec -> fc mat -> fc
    mat -> fc mat -> fc mat -> fc -> fc -> fc -> fc **)

let f_chi_ordering fexp =
  chi_ordering (fops fexp)
