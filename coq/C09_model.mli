
val negb : bool -> bool

val option_map : ('a1 -> 'a2) -> 'a1 option -> 'a2 option

val fst : ('a1 * 'a2) -> 'a1

val snd : ('a1 * 'a2) -> 'a2

val length : 'a1 list -> int

val app : 'a1 list -> 'a1 list -> 'a1 list

val add : int -> int -> int

module Nat :
 sig
  val ltb : int -> int -> bool

  val even : int -> bool

  val odd : int -> bool

  val div2 : int -> int

  val testbit : int -> int -> bool
 end

val nth : int -> 'a1 list -> 'a1 -> 'a1

val nth_error : 'a1 list -> int -> 'a1 option

val concat : 'a1 list list -> 'a1 list

val map : ('a1 -> 'a2) -> 'a1 list -> 'a2 list

val flat_map : ('a1 -> 'a2 list) -> 'a1 list -> 'a2 list

val fold_left : ('a1 -> 'a2 -> 'a1) -> 'a2 list -> 'a1 -> 'a1

val existsb : ('a1 -> bool) -> 'a1 list -> bool

val find : ('a1 -> bool) -> 'a1 list -> 'a1 option

val combine : 'a1 list -> 'a2 list -> ('a1 * 'a2) list

val seq : int -> int -> int list

val abs : Float64.t -> Float64.t

val sqrt : Float64.t -> Float64.t

val opp : Float64.t -> Float64.t

val eqb : Float64.t -> Float64.t -> bool

val ltb0 : Float64.t -> Float64.t -> bool

val mul : Float64.t -> Float64.t -> Float64.t

val add0 : Float64.t -> Float64.t -> Float64.t

val sub : Float64.t -> Float64.t -> Float64.t

val div : Float64.t -> Float64.t -> Float64.t

type 'a outcome =
| Done of 'a
| OOB
| Uninit
| Throws of int
| OutOfFuel

val bind : 'a1 outcome -> ('a1 -> 'a2 outcome) -> 'a2 outcome

type fc = Float64.t * Float64.t

val fadd : fc -> fc -> fc

val fsub : fc -> fc -> fc

val fmul : fc -> fc -> fc

val fopp : fc -> fc

val fabs : fc -> fc

type 'k hpart = { hp_states : int list; hp_eig : 'k list;
                  hp_vec : 'k list list }

val min_coeff : ('a1 -> 'a1 -> bool) -> 'a1 list -> 'a1 outcome

val map_outcome : ('a1 -> 'a2 outcome) -> 'a1 list -> 'a2 list outcome

val ground_energy : ('a1 -> 'a1 -> bool) -> 'a1 hpart list -> 'a1 outcome

type 'k dmpart = { dp_weights : 'k list; dp_zpart : 'k; dp_retained : bool }

val unnormalized_weight :
  ('a1 -> 'a1 -> 'a1) -> ('a1 -> 'a1 -> 'a1) -> ('a1 -> 'a1) -> ('a1 -> 'a1)
  -> 'a1 -> 'a1 -> 'a1 -> 'a1

val compute_unnormalized :
  'a1 -> ('a1 -> 'a1 -> 'a1) -> ('a1 -> 'a1 -> 'a1) -> ('a1 -> 'a1 -> 'a1) ->
  ('a1 -> 'a1) -> ('a1 -> 'a1) -> 'a1 -> 'a1 -> 'a1 hpart -> 'a1 dmpart

val normalize : ('a1 -> 'a1 -> 'a1) -> 'a1 -> 'a1 dmpart -> 'a1 dmpart

val part_average_energy :
  'a1 -> ('a1 -> 'a1 -> 'a1) -> ('a1 -> 'a1 -> 'a1) -> 'a1 hpart -> 'a1
  dmpart -> 'a1

val col : 'a1 -> 'a1 list list -> int -> 'a1 list

val part_fock_average :
  'a1 -> ('a1 -> 'a1 -> 'a1) -> ('a1 -> 'a1 -> 'a1) -> ('a1 -> 'a1) -> ('a1
  -> int -> 'a1) -> 'a1 hpart -> 'a1 dmpart -> 'a1

val popcount_fuel : int -> int -> int

val popcount : int -> int -> int

val b2k : (int -> 'a1) -> bool -> 'a1

val part_average_occupancy :
  'a1 -> ('a1 -> 'a1 -> 'a1) -> ('a1 -> 'a1 -> 'a1) -> ('a1 -> 'a1) -> (int
  -> 'a1) -> int -> 'a1 hpart -> 'a1 dmpart -> 'a1

val part_average_occupancy_i :
  'a1 -> ('a1 -> 'a1 -> 'a1) -> ('a1 -> 'a1 -> 'a1) -> ('a1 -> 'a1) -> (int
  -> 'a1) -> int -> 'a1 hpart -> 'a1 dmpart -> 'a1

val part_average_double_occupancy :
  'a1 -> ('a1 -> 'a1 -> 'a1) -> ('a1 -> 'a1 -> 'a1) -> ('a1 -> 'a1) -> (int
  -> 'a1) -> int -> int -> 'a1 hpart -> 'a1 dmpart -> 'a1

val truncate : ('a1 -> 'a1 -> bool) -> 'a1 -> 'a1 dmpart -> 'a1 dmpart

val dm_unnormalized :
  'a1 -> ('a1 -> 'a1 -> 'a1) -> ('a1 -> 'a1 -> 'a1) -> ('a1 -> 'a1 -> 'a1) ->
  ('a1 -> 'a1) -> ('a1 -> 'a1) -> 'a1 -> 'a1 -> 'a1 hpart list -> 'a1 dmpart
  list

val dm_Z : 'a1 -> ('a1 -> 'a1 -> 'a1) -> 'a1 dmpart list -> 'a1

val dm_compute :
  'a1 -> ('a1 -> 'a1 -> 'a1) -> ('a1 -> 'a1 -> 'a1) -> ('a1 -> 'a1 -> 'a1) ->
  ('a1 -> 'a1 -> 'a1) -> ('a1 -> 'a1) -> ('a1 -> 'a1) -> ('a1 -> 'a1 -> bool)
  -> 'a1 -> 'a1 hpart list -> 'a1 dmpart list outcome

val dm_truncate :
  ('a1 -> 'a1 -> bool) -> 'a1 -> 'a1 dmpart list -> 'a1 dmpart list

val is_retained : 'a1 dmpart list -> int -> bool

val dm_sum_parts :
  'a1 -> ('a1 -> 'a1 -> 'a1) -> ('a1 hpart -> 'a1 dmpart -> 'a1) -> 'a1 hpart
  list -> 'a1 dmpart list -> 'a1

val dm_average_energy :
  'a1 -> ('a1 -> 'a1 -> 'a1) -> ('a1 -> 'a1 -> 'a1) -> 'a1 hpart list -> 'a1
  dmpart list -> 'a1

val dm_average_occupancy :
  'a1 -> ('a1 -> 'a1 -> 'a1) -> ('a1 -> 'a1 -> 'a1) -> ('a1 -> 'a1) -> (int
  -> 'a1) -> int -> 'a1 hpart list -> 'a1 dmpart list -> 'a1

val dm_average_occupancy_i :
  'a1 -> ('a1 -> 'a1 -> 'a1) -> ('a1 -> 'a1 -> 'a1) -> ('a1 -> 'a1) -> (int
  -> 'a1) -> int -> int -> 'a1 hpart list -> 'a1 dmpart list -> 'a1 outcome

val dm_average_double_occupancy :
  'a1 -> ('a1 -> 'a1 -> 'a1) -> ('a1 -> 'a1 -> 'a1) -> ('a1 -> 'a1) -> (int
  -> 'a1) -> int -> int -> int -> 'a1 hpart list -> 'a1 dmpart list -> 'a1
  outcome

val index_of : int -> int list -> int option

val find_state : int -> 'a1 hpart list -> int -> (int * int) option

val lookup_state : 'a1 list list -> 'a1 hpart list -> int -> 'a1 outcome

val dm_get_weight : 'a1 hpart list -> 'a1 dmpart list -> int -> 'a1 outcome

val ham_get_eigenvalue : 'a1 hpart list -> int -> 'a1 outcome

val ham_get_eigenvalues : 'a1 hpart list -> 'a1 list

type 'k oppart = { op_left : int; op_right : int; op_mat : 'k list list }

type 'k fieldop = 'k oppart list

val coeff : 'a1 -> 'a1 list list -> int -> int -> 'a1

val get_part_from_left : 'a1 fieldop -> int -> 'a1 oppart option

val ea_compute :
  'a1 -> ('a1 -> 'a1 -> 'a1) -> ('a1 -> 'a1 -> 'a1) -> 'a1 oppart -> 'a1
  dmpart -> 'a1

val ea_prepare :
  'a1 -> ('a1 -> 'a1 -> 'a1) -> ('a1 -> 'a1 -> 'a1) -> 'a1 fieldop -> 'a1
  dmpart list -> 'a1 outcome

val stripe_walk :
  int -> (int -> bool) -> (int * int) list -> (int * int) list -> (int * int)
  list -> (int * int) list outcome

val gf_prepare :
  (int -> bool) -> (int * int) list -> (int * int) list -> (int * int) list
  outcome

type bimap = (int * int) list

val get_right_index : bimap -> int -> int option

val get_left_index : bimap -> int -> int option

val permutations3 : int list list

val op_at : bimap list -> int list -> int -> bimap

type tpgf_part = int * (((int * int) * int) * int)

val tpgf_try :
  (int -> bool) -> bimap list -> int -> int list -> int -> int -> tpgf_part
  list

val tpgf_prepare :
  (int -> bool) -> bimap list -> (int * int) list -> tpgf_part list

val tdiv : fc -> fc -> fc

val tabs : fc -> fc

val nat_to_float : int -> Float64.t

val tofnat : int -> fc

val tltb : fc -> fc -> bool

val texp : (Float64.t -> Float64.t) -> fc -> fc

val t0 : fc

val t_ground_energy : fc hpart list -> fc outcome

val t_dm_compute :
  (Float64.t -> Float64.t) -> fc -> fc hpart list -> fc dmpart list outcome

val t_dm_unnormalized :
  (Float64.t -> Float64.t) -> fc -> fc -> fc hpart list -> fc dmpart list

val t_dm_truncate : fc -> fc dmpart list -> fc dmpart list

val t_is_retained : fc dmpart list -> int -> bool

val t_dm_average_energy : fc hpart list -> fc dmpart list -> fc

val t_dm_average_occupancy : int -> fc hpart list -> fc dmpart list -> fc

val t_dm_average_occupancy_i :
  int -> int -> fc hpart list -> fc dmpart list -> fc outcome

val t_dm_average_double_occupancy :
  int -> int -> int -> fc hpart list -> fc dmpart list -> fc outcome

val t_dm_get_weight : fc hpart list -> fc dmpart list -> int -> fc outcome

val t_ham_get_eigenvalue : fc hpart list -> int -> fc outcome

val t_ham_get_eigenvalues : fc hpart list -> fc list

val t_ea_prepare : fc fieldop -> fc dmpart list -> fc outcome

val t_gf_prepare :
  (int -> bool) -> (int * int) list -> (int * int) list -> (int * int) list
  outcome

val t_tpgf_prepare :
  (int -> bool) -> bimap list -> (int * int) list -> tpgf_part list

val t_mk_hpart : int list -> fc list -> fc list list -> fc hpart

val t_mk_oppart : int -> int -> fc list list -> fc oppart

val t_dp_weights : fc dmpart -> fc list

val t_dp_zpart : fc dmpart -> fc

val t_dp_retained : fc dmpart -> bool
