
(** val negb : bool -> bool **)

let negb = function
| true -> false
| false -> true

(** val fst : ('a1 * 'a2) -> 'a1 **)

let fst = function
| (x, _) -> x

(** val snd : ('a1 * 'a2) -> 'a2 **)

let snd = function
| (_, y) -> y

(** val length : 'a1 list -> int **)

let rec length = function
| [] -> 0
| _ :: l' -> Stdlib.Int.succ (length l')

(** val app : 'a1 list -> 'a1 list -> 'a1 list **)

let rec app l m =
  match l with
  | [] -> m
  | a :: l1 -> a :: (app l1 m)

type comparison =
| Eq
| Lt
| Gt

(** val compOpp : comparison -> comparison **)

let compOpp = function
| Eq -> Eq
| Lt -> Gt
| Gt -> Lt

module Coq__1 = struct
 (** val add : int -> int -> int **)let rec add = (+)
end
include Coq__1

module Nat =
 struct
  (** val ltb : int -> int -> bool **)

  let ltb n0 m =
    (<=) (Stdlib.Int.succ n0) m
 end

type positive =
| XI of positive
| XO of positive
| XH

type n =
| N0
| Npos of positive

type z =
| Z0
| Zpos of positive
| Zneg of positive

module Pos =
 struct
  type mask =
  | IsNul
  | IsPos of positive
  | IsNeg
 end

module Coq_Pos =
 struct
  (** val succ : positive -> positive **)

  let rec succ = function
  | XI p -> XO (succ p)
  | XO p -> XI p
  | XH -> XO XH

  (** val add : positive -> positive -> positive **)

  let rec add x y =
    match x with
    | XI p ->
      (match y with
       | XI q0 -> XO (add_carry p q0)
       | XO q0 -> XI (add p q0)
       | XH -> XO (succ p))
    | XO p ->
      (match y with
       | XI q0 -> XI (add p q0)
       | XO q0 -> XO (add p q0)
       | XH -> XI p)
    | XH -> (match y with
             | XI q0 -> XO (succ q0)
             | XO q0 -> XI q0
             | XH -> XO XH)

  (** val add_carry : positive -> positive -> positive **)

  and add_carry x y =
    match x with
    | XI p ->
      (match y with
       | XI q0 -> XI (add_carry p q0)
       | XO q0 -> XO (add_carry p q0)
       | XH -> XI (succ p))
    | XO p ->
      (match y with
       | XI q0 -> XO (add_carry p q0)
       | XO q0 -> XI (add p q0)
       | XH -> XO (succ p))
    | XH ->
      (match y with
       | XI q0 -> XI (succ q0)
       | XO q0 -> XO (succ q0)
       | XH -> XI XH)

  (** val pred_double : positive -> positive **)

  let rec pred_double = function
  | XI p -> XI (XO p)
  | XO p -> XI (pred_double p)
  | XH -> XH

  type mask = Pos.mask =
  | IsNul
  | IsPos of positive
  | IsNeg

  (** val succ_double_mask : mask -> mask **)

  let succ_double_mask = function
  | IsNul -> IsPos XH
  | IsPos p -> IsPos (XI p)
  | IsNeg -> IsNeg

  (** val double_mask : mask -> mask **)

  let double_mask = function
  | IsPos p -> IsPos (XO p)
  | x0 -> x0

  (** val double_pred_mask : positive -> mask **)

  let double_pred_mask = function
  | XI p -> IsPos (XO (XO p))
  | XO p -> IsPos (XO (pred_double p))
  | XH -> IsNul

  (** val sub_mask : positive -> positive -> mask **)

  let rec sub_mask x y =
    match x with
    | XI p ->
      (match y with
       | XI q0 -> double_mask (sub_mask p q0)
       | XO q0 -> succ_double_mask (sub_mask p q0)
       | XH -> IsPos (XO p))
    | XO p ->
      (match y with
       | XI q0 -> succ_double_mask (sub_mask_carry p q0)
       | XO q0 -> double_mask (sub_mask p q0)
       | XH -> IsPos (pred_double p))
    | XH -> (match y with
             | XH -> IsNul
             | _ -> IsNeg)

  (** val sub_mask_carry : positive -> positive -> mask **)

  and sub_mask_carry x y =
    match x with
    | XI p ->
      (match y with
       | XI q0 -> succ_double_mask (sub_mask_carry p q0)
       | XO q0 -> double_mask (sub_mask p q0)
       | XH -> IsPos (pred_double p))
    | XO p ->
      (match y with
       | XI q0 -> double_mask (sub_mask_carry p q0)
       | XO q0 -> succ_double_mask (sub_mask_carry p q0)
       | XH -> double_pred_mask p)
    | XH -> IsNeg

  (** val mul : positive -> positive -> positive **)

  let rec mul x y =
    match x with
    | XI p -> add y (XO (mul p y))
    | XO p -> XO (mul p y)
    | XH -> y

  (** val iter : ('a1 -> 'a1) -> 'a1 -> positive -> 'a1 **)

  let rec iter f x = function
  | XI n' -> f (iter f (iter f x n') n')
  | XO n' -> iter f (iter f x n') n'
  | XH -> f x

  (** val div2 : positive -> positive **)

  let div2 = function
  | XI p0 -> p0
  | XO p0 -> p0
  | XH -> XH

  (** val div2_up : positive -> positive **)

  let div2_up = function
  | XI p0 -> succ p0
  | XO p0 -> p0
  | XH -> XH

  (** val compare_cont : comparison -> positive -> positive -> comparison **)

  let rec compare_cont r x y =
    match x with
    | XI p ->
      (match y with
       | XI q0 -> compare_cont r p q0
       | XO q0 -> compare_cont Gt p q0
       | XH -> Gt)
    | XO p ->
      (match y with
       | XI q0 -> compare_cont Lt p q0
       | XO q0 -> compare_cont r p q0
       | XH -> Gt)
    | XH -> (match y with
             | XH -> r
             | _ -> Lt)

  (** val compare : positive -> positive -> comparison **)

  let compare =
    compare_cont Eq

  (** val iter_op : ('a1 -> 'a1 -> 'a1) -> positive -> 'a1 -> 'a1 **)

  let rec iter_op op p a =
    match p with
    | XI p0 -> op a (iter_op op p0 (op a a))
    | XO p0 -> iter_op op p0 (op a a)
    | XH -> a

  (** val to_nat : positive -> int **)

  let to_nat x =
    iter_op Coq__1.add x (Stdlib.Int.succ 0)

  (** val of_succ_nat : int -> positive **)

  let rec of_succ_nat n0 =
    (fun fO fS n -> if n=0 then fO () else fS (n-1))
      (fun _ -> XH)
      (fun x -> succ (of_succ_nat x))
      n0
 end

module N =
 struct
  (** val succ_double : n -> n **)

  let succ_double = function
  | N0 -> Npos XH
  | Npos p -> Npos (XI p)

  (** val double : n -> n **)

  let double = function
  | N0 -> N0
  | Npos p -> Npos (XO p)

  (** val sub : n -> n -> n **)

  let sub n0 m =
    match n0 with
    | N0 -> N0
    | Npos n' ->
      (match m with
       | N0 -> n0
       | Npos m' ->
         (match Coq_Pos.sub_mask n' m' with
          | Coq_Pos.IsPos p -> Npos p
          | _ -> N0))

  (** val compare : n -> n -> comparison **)

  let compare n0 m =
    match n0 with
    | N0 -> (match m with
             | N0 -> Eq
             | Npos _ -> Lt)
    | Npos n' -> (match m with
                  | N0 -> Gt
                  | Npos m' -> Coq_Pos.compare n' m')

  (** val leb : n -> n -> bool **)

  let leb x y =
    match compare x y with
    | Gt -> false
    | _ -> true

  (** val pos_div_eucl : positive -> n -> n * n **)

  let rec pos_div_eucl a b =
    match a with
    | XI a' ->
      let (q0, r) = pos_div_eucl a' b in
      let r' = succ_double r in
      if leb b r' then ((succ_double q0), (sub r' b)) else ((double q0), r')
    | XO a' ->
      let (q0, r) = pos_div_eucl a' b in
      let r' = double r in
      if leb b r' then ((succ_double q0), (sub r' b)) else ((double q0), r')
    | XH ->
      (match b with
       | N0 -> (N0, (Npos XH))
       | Npos p -> (match p with
                    | XH -> ((Npos XH), N0)
                    | _ -> (N0, (Npos XH))))
 end

(** val tl : 'a1 list -> 'a1 list **)

let tl = function
| [] -> []
| _ :: m -> m

(** val in_dec : ('a1 -> 'a1 -> bool) -> 'a1 -> 'a1 list -> bool **)

let rec in_dec h a = function
| [] -> false
| y :: l0 -> let s = h y a in if s then true else in_dec h a l0

(** val count_occ : ('a1 -> 'a1 -> bool) -> 'a1 list -> 'a1 -> int **)

let rec count_occ eq_dec l x =
  match l with
  | [] -> 0
  | y :: tl0 ->
    let n0 = count_occ eq_dec tl0 x in
    if eq_dec y x then Stdlib.Int.succ n0 else n0

(** val map : ('a1 -> 'a2) -> 'a1 list -> 'a2 list **)

let rec map f = function
| [] -> []
| a :: t -> (f a) :: (map f t)

(** val flat_map : ('a1 -> 'a2 list) -> 'a1 list -> 'a2 list **)

let rec flat_map f = function
| [] -> []
| x :: t -> app (f x) (flat_map f t)

(** val fold_left : ('a1 -> 'a2 -> 'a1) -> 'a2 list -> 'a1 -> 'a1 **)

let rec fold_left f l a0 =
  match l with
  | [] -> a0
  | b :: t -> fold_left f t (f a0 b)

(** val existsb : ('a1 -> bool) -> 'a1 list -> bool **)

let rec existsb f = function
| [] -> false
| a :: l0 -> (||) (f a) (existsb f l0)

(** val forallb : ('a1 -> bool) -> 'a1 list -> bool **)

let rec forallb f = function
| [] -> true
| a :: l0 -> (&&) (f a) (forallb f l0)

(** val filter : ('a1 -> bool) -> 'a1 list -> 'a1 list **)

let rec filter f = function
| [] -> []
| x :: l0 -> if f x then x :: (filter f l0) else filter f l0

(** val find : ('a1 -> bool) -> 'a1 list -> 'a1 option **)

let rec find f = function
| [] -> None
| x :: tl0 -> if f x then Some x else find f tl0

(** val combine : 'a1 list -> 'a2 list -> ('a1 * 'a2) list **)

let rec combine l l' =
  match l with
  | [] -> []
  | x :: tl0 ->
    (match l' with
     | [] -> []
     | y :: tl' -> (x, y) :: (combine tl0 tl'))

(** val nodup : ('a1 -> 'a1 -> bool) -> 'a1 list -> 'a1 list **)

let rec nodup decA = function
| [] -> []
| x :: xs -> if in_dec decA x xs then nodup decA xs else x :: (nodup decA xs)

(** val seq : int -> int -> int list **)

let rec seq start len =
  (fun fO fS n -> if n=0 then fO () else fS (n-1))
    (fun _ -> [])
    (fun len0 -> start :: (seq (Stdlib.Int.succ start) len0))
    len

(** val repeat : 'a1 -> int -> 'a1 list **)

let rec repeat x n0 =
  (fun fO fS n -> if n=0 then fO () else fS (n-1))
    (fun _ -> [])
    (fun k -> x :: (repeat x k))
    n0

module Z =
 struct
  (** val double : z -> z **)

  let double = function
  | Z0 -> Z0
  | Zpos p -> Zpos (XO p)
  | Zneg p -> Zneg (XO p)

  (** val succ_double : z -> z **)

  let succ_double = function
  | Z0 -> Zpos XH
  | Zpos p -> Zpos (XI p)
  | Zneg p -> Zneg (Coq_Pos.pred_double p)

  (** val pred_double : z -> z **)

  let pred_double = function
  | Z0 -> Zneg XH
  | Zpos p -> Zpos (Coq_Pos.pred_double p)
  | Zneg p -> Zneg (XI p)

  (** val pos_sub : positive -> positive -> z **)

  let rec pos_sub x y =
    match x with
    | XI p ->
      (match y with
       | XI q0 -> double (pos_sub p q0)
       | XO q0 -> succ_double (pos_sub p q0)
       | XH -> Zpos (XO p))
    | XO p ->
      (match y with
       | XI q0 -> pred_double (pos_sub p q0)
       | XO q0 -> double (pos_sub p q0)
       | XH -> Zpos (Coq_Pos.pred_double p))
    | XH ->
      (match y with
       | XI q0 -> Zneg (XO q0)
       | XO q0 -> Zneg (Coq_Pos.pred_double q0)
       | XH -> Z0)

  (** val add : z -> z -> z **)

  let add x y =
    match x with
    | Z0 -> y
    | Zpos x' ->
      (match y with
       | Z0 -> x
       | Zpos y' -> Zpos (Coq_Pos.add x' y')
       | Zneg y' -> pos_sub x' y')
    | Zneg x' ->
      (match y with
       | Z0 -> x
       | Zpos y' -> pos_sub y' x'
       | Zneg y' -> Zneg (Coq_Pos.add x' y'))

  (** val opp : z -> z **)

  let opp = function
  | Z0 -> Z0
  | Zpos x0 -> Zneg x0
  | Zneg x0 -> Zpos x0

  (** val sub : z -> z -> z **)

  let sub m n0 =
    add m (opp n0)

  (** val mul : z -> z -> z **)

  let mul x y =
    match x with
    | Z0 -> Z0
    | Zpos x' ->
      (match y with
       | Z0 -> Z0
       | Zpos y' -> Zpos (Coq_Pos.mul x' y')
       | Zneg y' -> Zneg (Coq_Pos.mul x' y'))
    | Zneg x' ->
      (match y with
       | Z0 -> Z0
       | Zpos y' -> Zneg (Coq_Pos.mul x' y')
       | Zneg y' -> Zpos (Coq_Pos.mul x' y'))

  (** val compare : z -> z -> comparison **)

  let compare x y =
    match x with
    | Z0 -> (match y with
             | Z0 -> Eq
             | Zpos _ -> Lt
             | Zneg _ -> Gt)
    | Zpos x' -> (match y with
                  | Zpos y' -> Coq_Pos.compare x' y'
                  | _ -> Gt)
    | Zneg x' ->
      (match y with
       | Zneg y' -> compOpp (Coq_Pos.compare x' y')
       | _ -> Lt)

  (** val leb : z -> z -> bool **)

  let leb x y =
    match compare x y with
    | Gt -> false
    | _ -> true

  (** val ltb : z -> z -> bool **)

  let ltb x y =
    match compare x y with
    | Lt -> true
    | _ -> false

  (** val max : z -> z -> z **)

  let max n0 m =
    match compare n0 m with
    | Lt -> m
    | _ -> n0

  (** val min : z -> z -> z **)

  let min n0 m =
    match compare n0 m with
    | Gt -> m
    | _ -> n0

  (** val to_nat : z -> int **)

  let to_nat = function
  | Zpos p -> Coq_Pos.to_nat p
  | _ -> 0

  (** val of_nat : int -> z **)

  let of_nat n0 =
    (fun fO fS n -> if n=0 then fO () else fS (n-1))
      (fun _ -> Z0)
      (fun n1 -> Zpos (Coq_Pos.of_succ_nat n1))
      n0

  (** val of_N : n -> z **)

  let of_N = function
  | N0 -> Z0
  | Npos p -> Zpos p

  (** val pos_div_eucl : positive -> z -> z * z **)

  let rec pos_div_eucl a b =
    match a with
    | XI a' ->
      let (q0, r) = pos_div_eucl a' b in
      let r' = add (mul (Zpos (XO XH)) r) (Zpos XH) in
      if ltb r' b
      then ((mul (Zpos (XO XH)) q0), r')
      else ((add (mul (Zpos (XO XH)) q0) (Zpos XH)), (sub r' b))
    | XO a' ->
      let (q0, r) = pos_div_eucl a' b in
      let r' = mul (Zpos (XO XH)) r in
      if ltb r' b
      then ((mul (Zpos (XO XH)) q0), r')
      else ((add (mul (Zpos (XO XH)) q0) (Zpos XH)), (sub r' b))
    | XH -> if leb (Zpos (XO XH)) b then (Z0, (Zpos XH)) else ((Zpos XH), Z0)

  (** val div_eucl : z -> z -> z * z **)

  let div_eucl a b =
    match a with
    | Z0 -> (Z0, Z0)
    | Zpos a' ->
      (match b with
       | Z0 -> (Z0, a)
       | Zpos _ -> pos_div_eucl a' b
       | Zneg b' ->
         let (q0, r) = pos_div_eucl a' (Zpos b') in
         (match r with
          | Z0 -> ((opp q0), Z0)
          | _ -> ((opp (add q0 (Zpos XH))), (add b r))))
    | Zneg a' ->
      (match b with
       | Z0 -> (Z0, a)
       | Zpos _ ->
         let (q0, r) = pos_div_eucl a' b in
         (match r with
          | Z0 -> ((opp q0), Z0)
          | _ -> ((opp (add q0 (Zpos XH))), (sub b r)))
       | Zneg b' -> let (q0, r) = pos_div_eucl a' (Zpos b') in (q0, (opp r)))

  (** val div : z -> z -> z **)

  let div a b =
    let (q0, _) = div_eucl a b in q0

  (** val quotrem : z -> z -> z * z **)

  let quotrem a b =
    match a with
    | Z0 -> (Z0, Z0)
    | Zpos a0 ->
      (match b with
       | Z0 -> (Z0, a)
       | Zpos b0 ->
         let (q0, r) = N.pos_div_eucl a0 (Npos b0) in ((of_N q0), (of_N r))
       | Zneg b0 ->
         let (q0, r) = N.pos_div_eucl a0 (Npos b0) in
         ((opp (of_N q0)), (of_N r)))
    | Zneg a0 ->
      (match b with
       | Z0 -> (Z0, a)
       | Zpos b0 ->
         let (q0, r) = N.pos_div_eucl a0 (Npos b0) in
         ((opp (of_N q0)), (opp (of_N r)))
       | Zneg b0 ->
         let (q0, r) = N.pos_div_eucl a0 (Npos b0) in
         ((of_N q0), (opp (of_N r))))

  (** val quot : z -> z -> z **)

  let quot a b =
    fst (quotrem a b)

  (** val div2 : z -> z **)

  let div2 = function
  | Z0 -> Z0
  | Zpos p -> (match p with
               | XH -> Z0
               | _ -> Zpos (Coq_Pos.div2 p))
  | Zneg p -> Zneg (Coq_Pos.div2_up p)

  (** val shiftl : z -> z -> z **)

  let shiftl a = function
  | Z0 -> a
  | Zpos p -> Coq_Pos.iter (mul (Zpos (XO XH))) a p
  | Zneg p -> Coq_Pos.iter div2 a p

  (** val shiftr : z -> z -> z **)

  let shiftr a n0 =
    shiftl a (opp n0)
 end

(** val lsl0 : Uint63.t -> Uint63.t -> Uint63.t **)

let lsl0 = Uint63.l_sl

(** val lsr0 : Uint63.t -> Uint63.t -> Uint63.t **)

let lsr0 = Uint63.l_sr

(** val land0 : Uint63.t -> Uint63.t -> Uint63.t **)

let land0 = Uint63.l_and

(** val lor0 : Uint63.t -> Uint63.t -> Uint63.t **)

let lor0 = Uint63.l_or

(** val sub0 : Uint63.t -> Uint63.t -> Uint63.t **)

let sub0 = Uint63.sub

(** val eqb : Uint63.t -> Uint63.t -> bool **)

let eqb = Uint63.equal

(** val abs : Float64.t -> Float64.t **)

let abs = Float64.abs

(** val eqb0 : Float64.t -> Float64.t -> bool **)

let eqb0 = Float64.eq

(** val ltb0 : Float64.t -> Float64.t -> bool **)

let ltb0 = Float64.lt

(** val mul0 : Float64.t -> Float64.t -> Float64.t **)

let mul0 = Float64.mul

(** val div0 : Float64.t -> Float64.t -> Float64.t **)

let div0 = Float64.div

(** val of_uint63 : Uint63.t -> Float64.t **)

let of_uint63 = Float64.of_uint63

(** val normfr_mantissa : Float64.t -> Uint63.t **)

let normfr_mantissa = Float64.normfr_mantissa

(** val frshiftexp : Float64.t -> Float64.t * Uint63.t **)

let frshiftexp = Float64.frshiftexp

(** val infinity : Float64.t **)

let infinity =
  (Float64.of_float (infinity))

(** val one : Float64.t **)

let one =
  (Float64.of_float (0x1p+0))

(** val zero : Float64.t **)

let zero =
  (Float64.of_float (0x0p+0))

(** val is_nan : Float64.t -> bool **)

let is_nan f =
  negb (eqb0 f f)

(** val is_zero : Float64.t -> bool **)

let is_zero f =
  eqb0 f zero

(** val is_infinity : Float64.t -> bool **)

let is_infinity f =
  eqb0 (abs f) infinity

(** val get_sign : Float64.t -> bool **)

let get_sign f =
  let f0 = if is_zero f then div0 one f else f in ltb0 f0 zero

type q = { qnum : z; qden : positive }

(** val inject_Z : z -> q **)

let inject_Z x =
  { qnum = x; qden = XH }

(** val qle_bool : q -> q -> bool **)

let qle_bool x y =
  Z.leb (Z.mul x.qnum (Zpos y.qden)) (Z.mul y.qnum (Zpos x.qden))

(** val qmult : q -> q -> q **)

let qmult x y =
  { qnum = (Z.mul x.qnum y.qnum); qden = (Coq_Pos.mul x.qden y.qden) }

(** val qopp : q -> q **)

let qopp x =
  { qnum = (Z.opp x.qnum); qden = x.qden }

(** val qinv : q -> q **)

let qinv x =
  match x.qnum with
  | Z0 -> { qnum = Z0; qden = XH }
  | Zpos p -> { qnum = (Zpos x.qden); qden = p }
  | Zneg p -> { qnum = (Zneg x.qden); qden = p }

(** val qdiv : q -> q -> q **)

let qdiv x y =
  qmult x (qinv y)

type spec_float =
| S754_zero of bool
| S754_infinity of bool
| S754_nan
| S754_finite of bool * positive * z

(** val emin : z -> z -> z **)

let emin prec0 emax0 =
  Z.sub (Z.sub (Zpos (XI XH)) emax0) prec0

(** val fexp : z -> z -> z -> z **)

let fexp prec0 emax0 e =
  Z.max (Z.sub e prec0) (emin prec0 emax0)

(** val digits2_pos : positive -> positive **)

let rec digits2_pos = function
| XI p -> Coq_Pos.succ (digits2_pos p)
| XO p -> Coq_Pos.succ (digits2_pos p)
| XH -> XH

(** val zdigits2 : z -> z **)

let zdigits2 n0 = match n0 with
| Z0 -> n0
| Zpos p -> Zpos (digits2_pos p)
| Zneg p -> Zpos (digits2_pos p)

(** val iter_pos : ('a1 -> 'a1) -> positive -> 'a1 -> 'a1 **)

let rec iter_pos f n0 x =
  match n0 with
  | XI n' -> iter_pos f n' (iter_pos f n' (f x))
  | XO n' -> iter_pos f n' (iter_pos f n' x)
  | XH -> f x

type location =
| Loc_Exact
| Loc_Inexact of comparison

type shr_record = { shr_m : z; shr_r : bool; shr_s : bool }

(** val shr_1 : shr_record -> shr_record **)

let shr_1 mrs =
  let { shr_m = m; shr_r = r; shr_s = s } = mrs in
  let s0 = (||) r s in
  (match m with
   | Z0 -> { shr_m = Z0; shr_r = false; shr_s = s0 }
   | Zpos p0 ->
     (match p0 with
      | XI p -> { shr_m = (Zpos p); shr_r = true; shr_s = s0 }
      | XO p -> { shr_m = (Zpos p); shr_r = false; shr_s = s0 }
      | XH -> { shr_m = Z0; shr_r = true; shr_s = s0 })
   | Zneg p0 ->
     (match p0 with
      | XI p -> { shr_m = (Zneg p); shr_r = true; shr_s = s0 }
      | XO p -> { shr_m = (Zneg p); shr_r = false; shr_s = s0 }
      | XH -> { shr_m = Z0; shr_r = true; shr_s = s0 }))

(** val shr_record_of_loc : z -> location -> shr_record **)

let shr_record_of_loc m = function
| Loc_Exact -> { shr_m = m; shr_r = false; shr_s = false }
| Loc_Inexact c ->
  (match c with
   | Eq -> { shr_m = m; shr_r = true; shr_s = false }
   | Lt -> { shr_m = m; shr_r = false; shr_s = true }
   | Gt -> { shr_m = m; shr_r = true; shr_s = true })

(** val shr : shr_record -> z -> z -> shr_record * z **)

let shr mrs e n0 = match n0 with
| Zpos p -> ((iter_pos shr_1 p mrs), (Z.add e n0))
| _ -> (mrs, e)

(** val shr_fexp : z -> z -> z -> z -> location -> shr_record * z **)

let shr_fexp prec0 emax0 m e l =
  shr (shr_record_of_loc m l) e
    (Z.sub (fexp prec0 emax0 (Z.add (zdigits2 m) e)) e)

(** val size : int **)

let size =
  Stdlib.Int.succ (Stdlib.Int.succ (Stdlib.Int.succ (Stdlib.Int.succ
    (Stdlib.Int.succ (Stdlib.Int.succ (Stdlib.Int.succ (Stdlib.Int.succ
    (Stdlib.Int.succ (Stdlib.Int.succ (Stdlib.Int.succ (Stdlib.Int.succ
    (Stdlib.Int.succ (Stdlib.Int.succ (Stdlib.Int.succ (Stdlib.Int.succ
    (Stdlib.Int.succ (Stdlib.Int.succ (Stdlib.Int.succ (Stdlib.Int.succ
    (Stdlib.Int.succ (Stdlib.Int.succ (Stdlib.Int.succ (Stdlib.Int.succ
    (Stdlib.Int.succ (Stdlib.Int.succ (Stdlib.Int.succ (Stdlib.Int.succ
    (Stdlib.Int.succ (Stdlib.Int.succ (Stdlib.Int.succ (Stdlib.Int.succ
    (Stdlib.Int.succ (Stdlib.Int.succ (Stdlib.Int.succ (Stdlib.Int.succ
    (Stdlib.Int.succ (Stdlib.Int.succ (Stdlib.Int.succ (Stdlib.Int.succ
    (Stdlib.Int.succ (Stdlib.Int.succ (Stdlib.Int.succ (Stdlib.Int.succ
    (Stdlib.Int.succ (Stdlib.Int.succ (Stdlib.Int.succ (Stdlib.Int.succ
    (Stdlib.Int.succ (Stdlib.Int.succ (Stdlib.Int.succ (Stdlib.Int.succ
    (Stdlib.Int.succ (Stdlib.Int.succ (Stdlib.Int.succ (Stdlib.Int.succ
    (Stdlib.Int.succ (Stdlib.Int.succ (Stdlib.Int.succ (Stdlib.Int.succ
    (Stdlib.Int.succ (Stdlib.Int.succ (Stdlib.Int.succ
    0))))))))))))))))))))))))))))))))))))))))))))))))))))))))))))))

(** val is_zero0 : Uint63.t -> bool **)

let is_zero0 i =
  eqb i (Uint63.of_int (0))

(** val is_even : Uint63.t -> bool **)

let is_even i =
  is_zero0 (land0 i (Uint63.of_int (1)))

(** val opp0 : Uint63.t -> Uint63.t **)

let opp0 i =
  sub0 (Uint63.of_int (0)) i

(** val to_Z_rec : int -> Uint63.t -> z **)

let rec to_Z_rec n0 i =
  (fun fO fS n -> if n=0 then fO () else fS (n-1))
    (fun _ -> Z0)
    (fun n1 ->
    if is_even i
    then Z.double (to_Z_rec n1 (lsr0 i (Uint63.of_int (1))))
    else Z.succ_double (to_Z_rec n1 (lsr0 i (Uint63.of_int (1)))))
    n0

(** val to_Z : Uint63.t -> z **)

let to_Z =
  to_Z_rec size

(** val of_pos_rec : int -> positive -> Uint63.t **)

let rec of_pos_rec n0 p =
  (fun fO fS n -> if n=0 then fO () else fS (n-1))
    (fun _ -> (Uint63.of_int (0)))
    (fun n1 ->
    match p with
    | XI p0 ->
      lor0 (lsl0 (of_pos_rec n1 p0) (Uint63.of_int (1))) (Uint63.of_int (1))
    | XO p0 -> lsl0 (of_pos_rec n1 p0) (Uint63.of_int (1))
    | XH -> (Uint63.of_int (1)))
    n0

(** val of_pos : positive -> Uint63.t **)

let of_pos =
  of_pos_rec size

(** val of_Z : z -> Uint63.t **)

let of_Z = function
| Z0 -> (Uint63.of_int (0))
| Zpos p -> of_pos p
| Zneg p -> opp0 (of_pos p)

(** val prec : z **)

let prec =
  Zpos (XI (XO (XI (XO (XI XH)))))

(** val emax : z **)

let emax =
  Zpos (XO (XO (XO (XO (XO (XO (XO (XO (XO (XO XH))))))))))

(** val shift : z **)

let shift =
  Zpos (XI (XO (XI (XO (XI (XI (XO (XO (XO (XO (XO XH)))))))))))

module Coq_Z =
 struct
  (** val frexp : Float64.t -> Float64.t * z **)

  let frexp f =
    let (m, se) = frshiftexp f in (m, (Z.sub (to_Z se) shift))
 end

(** val prim2SF : Float64.t -> spec_float **)

let prim2SF f =
  if is_nan f
  then S754_nan
  else if is_zero f
       then S754_zero (get_sign f)
       else if is_infinity f
            then S754_infinity (get_sign f)
            else let (r, exp) = Coq_Z.frexp f in
                 let e = Z.sub exp prec in
                 let (shr0, e') =
                   shr_fexp prec emax (to_Z (normfr_mantissa r)) e Loc_Exact
                 in
                 (match shr0.shr_m with
                  | Zpos p -> S754_finite ((get_sign f), p, e')
                  | _ -> S754_zero false)

(** val qfloor : q -> z **)

let qfloor x =
  let { qnum = n0; qden = d } = x in Z.div n0 (Zpos d)

(** val qceiling : q -> z **)

let qceiling x =
  Z.opp (qfloor (qopp x))

(** val gen_Z2f : z -> Float64.t **)

let gen_Z2f z0 =
  of_uint63 (of_Z z0)

(** val gen_f2Z : Float64.t -> z **)

let gen_f2Z x =
  match prim2SF x with
  | S754_finite (s, m, e) ->
    let v =
      if Z.leb Z0 e then Z.shiftl (Zpos m) e else Z.shiftr (Zpos m) (Z.opp e)
    in
    if s then Z.opp v else v
  | _ -> Z0

(** val gen_Qtrunc : q -> z **)

let gen_Qtrunc x =
  if qle_bool { qnum = Z0; qden = XH } x then qfloor x else qceiling x

(** val gen_ncolors : z -> z -> z **)

let gen_ncolors =
  Z.min

(** val gen_color_size_f : z -> z -> Float64.t **)

let gen_color_size_f p ncolors0 =
  div0 (mul0 (Float64.of_float (0x1p+0)) (gen_Z2f p)) (gen_Z2f ncolors0)

(** val gen_color_size_exact : z -> z -> q **)

let gen_color_size_exact p ncolors0 =
  qdiv (qmult { qnum = (Zpos XH); qden = XH } (inject_Z p))
    (inject_Z ncolors0)

(** val gen_proc_color_f : z -> z -> z -> z **)

let gen_proc_color_f p ncolors0 p0 =
  gen_f2Z
    (div0 (mul0 (Float64.of_float (0x1p+0)) (gen_Z2f p0))
      (gen_color_size_f p ncolors0))

(** val gen_proc_color_exact : z -> z -> z -> z **)

let gen_proc_color_exact p ncolors0 p0 =
  gen_Qtrunc
    (qdiv (qmult { qnum = (Zpos XH); qden = XH } (inject_Z p0))
      (gen_color_size_exact p ncolors0))

(** val gen_root_is_first : bool **)

let gen_root_is_first =
  true

(** val gen_elem_color : z -> z -> z -> z **)

let gen_elem_color ncolors0 ncomponents i =
  Z.quot (Z.mul i ncolors0) ncomponents

(** val gen_distribute_bcasts_per_part : int **)

let gen_distribute_bcasts_per_part =
  Stdlib.Int.succ (Stdlib.Int.succ (Stdlib.Int.succ 0))

(** val gen_parts_marked_computed : bool **)

let gen_parts_marked_computed =
  true

(** val gen_skel_root : int **)

let gen_skel_root =
  0

(** val gen_skel_barriers_before_loop : int **)

let gen_skel_barriers_before_loop =
  Stdlib.Int.succ (Stdlib.Int.succ 0)

(** val gen_skel_barrier_on_comm : bool **)

let gen_skel_barrier_on_comm =
  true

(** val gen_skel_barriers_after : int **)

let gen_skel_barriers_after =
  Stdlib.Int.succ 0

(** val gen_skel_bcasts_root_branch : int **)

let gen_skel_bcasts_root_branch =
  Stdlib.Int.succ (Stdlib.Int.succ 0)

(** val gen_skel_bcasts_other_branch : int **)

let gen_skel_bcasts_other_branch =
  Stdlib.Int.succ (Stdlib.Int.succ 0)

type fixes = { fix_barrier : bool; fix_root : bool; fix_status : bool }

(** val all_fixed : fixes **)

let all_fixed =
  { fix_barrier = true; fix_root = true; fix_status = true }

(** val none_fixed : fixes **)

let none_fixed =
  { fix_barrier = false; fix_root = false; fix_status = false }

(** val code_fixes : fixes **)

let code_fixes =
  { fix_barrier = gen_skel_barrier_on_comm; fix_root = gen_root_is_first;
    fix_status = gen_parts_marked_computed }

type component = { vanishing : bool; nparts : int }

(** val indexed : 'a1 list -> (int * 'a1) list **)

let indexed l =
  combine (seq 0 (length l)) l

type colouring = { pcol : (int -> int); ecol : (int -> int) }

(** val ncolors : int -> int -> int **)

let ncolors p ncomp =
  Z.to_nat (gen_ncolors (Z.of_nat p) (Z.of_nat ncomp))

(** val elem_colour : int -> int -> int -> int **)

let elem_colour p ncomp i =
  Z.to_nat
    (gen_elem_color (Z.of_nat (ncolors p ncomp)) (Z.of_nat ncomp)
      (Z.of_nat i))

(** val float_colouring : int -> int -> colouring **)

let float_colouring p ncomp =
  { pcol = (fun p0 ->
    Z.to_nat
      (gen_proc_color_f (Z.of_nat p) (Z.of_nat (ncolors p ncomp))
        (Z.of_nat p0))); ecol = (elem_colour p ncomp) }

(** val exact_colouring : int -> int -> colouring **)

let exact_colouring p ncomp =
  { pcol = (fun p0 ->
    Z.to_nat
      (gen_proc_color_exact (Z.of_nat p) (Z.of_nat (ncolors p ncomp))
        (Z.of_nat p0))); ecol = (elem_colour p ncomp) }

(** val colours_ok_b : colouring -> int -> int -> bool **)

let colours_ok_b col p ncomp =
  forallb (fun k ->
    existsb (fun r -> (=) (col.pcol r) (col.ecol k)) (seq 0 p)) (seq 0 ncomp)

type commid =
| World
| Colour of int

type ckind =
| Barrier
| Bcast of int
| Reduce of int
| Split

type event = commid * ckind

(** val commid_eqb : commid -> commid -> bool **)

let commid_eqb a b =
  match a with
  | World -> (match b with
              | World -> true
              | Colour _ -> false)
  | Colour x -> (match b with
                 | World -> false
                 | Colour y -> (=) x y)

(** val ckind_eqb : ckind -> ckind -> bool **)

let ckind_eqb a b =
  match a with
  | Barrier -> (match b with
                | Barrier -> true
                | _ -> false)
  | Bcast x -> (match b with
                | Bcast y -> (=) x y
                | _ -> false)
  | Reduce x -> (match b with
                 | Reduce y -> (=) x y
                 | _ -> false)
  | Split -> (match b with
              | Split -> true
              | _ -> false)

(** val members : colouring -> int -> commid -> int list **)

let members col p = function
| World -> seq 0 p
| Colour c -> filter (fun r -> (=) (col.pcol r) c) (seq 0 p)

(** val local_rank : colouring -> commid -> int -> int **)

let local_rank col cm r =
  match cm with
  | World -> r
  | Colour c -> length (filter (fun q0 -> (=) (col.pcol q0) c) (seq 0 r))

(** val proj : commid -> event list -> ckind list **)

let proj cm t =
  map snd (filter (fun e -> commid_eqb (fst e) cm) t)

(** val skel_run : fixes -> commid -> event list **)

let skel_run fx cm =
  (cm, Barrier) :: ((cm,
    Barrier) :: (((if fx.fix_barrier then cm else World), Barrier) :: ((cm,
    Barrier) :: ((cm, (Bcast 0)) :: ((cm, (Bcast 0)) :: [])))))

(** val gf2_compute :
    fixes -> commid -> bool -> component -> (int -> int) -> event list **)

let gf2_compute fx cm clear c jmk =
  if c.vanishing
  then []
  else app (skel_run fx cm)
         (app ((cm, Barrier) :: ((cm, (Reduce 0)) :: []))
           (if clear
            then []
            else app
                   (flat_map (fun p -> (cm, (Bcast (jmk p))) :: ((cm, (Bcast
                     (jmk p))) :: [])) (seq 0 c.nparts)) ((cm, Barrier) :: [])))

(** val upd : (int -> int option) -> int -> int -> int -> int option **)

let upd m c v x =
  if (=) x c then Some v else m x

(** val roots_step :
    fixes -> colouring -> (int -> int option) -> int -> int -> int option **)

let roots_step fx col m p =
  let c = col.pcol p in
  if fx.fix_root
  then (match m c with
        | Some _ -> m
        | None -> upd m c p)
  else upd m c p

(** val color_roots : fixes -> colouring -> int -> int -> int option **)

let color_roots fx col p =
  fold_left (roots_step fx col) (seq 0 p) (fun _ -> None)

(** val sender : fixes -> colouring -> int -> int -> int **)

let sender fx col p k =
  match color_roots fx col p (col.ecol k) with
  | Some r -> r
  | None -> 0

(** val split_trace :
    fixes -> colouring -> int -> component list -> bool -> (int -> int ->
    int) -> int -> event list **)

let split_trace fx col p comps clear jm r =
  let mycol = col.pcol r in
  app ((World, Barrier) :: ((World, Split) :: []))
    (app
      (flat_map (fun kc ->
        if (=) (col.ecol (fst kc)) mycol
        then gf2_compute fx (Colour mycol) clear (snd kc) (jm (fst kc))
        else []) (indexed comps))
      (app ((World, Barrier) :: [])
        (app
          (flat_map (fun kc ->
            flat_map (fun _ -> (World, (Bcast
              (sender fx col p (fst kc)))) :: ((World, (Bcast
              (sender fx col p (fst kc)))) :: ((World, (Bcast
              (sender fx col p (fst kc)))) :: []))) (seq 0 (snd kc).nparts))
            (indexed comps)) ((World, Barrier) :: []))))

(** val nosplit_trace :
    fixes -> component list -> bool -> (int -> int -> int) -> int -> event
    list **)

let nosplit_trace fx comps clear jm _ =
  flat_map (fun kc -> gf2_compute fx World clear (snd kc) (jm (fst kc)))
    (indexed comps)

(** val single_trace :
    fixes -> component -> bool -> (int -> int) -> int -> event list **)

let single_trace fx c clear jmk _ =
  gf2_compute fx World clear c jmk

(** val ham_prepare_trace :
    fixes -> commid -> int -> (int -> int) -> int -> event list **)

let ham_prepare_trace fx cm nblocks jmk _ =
  app (skel_run fx cm)
    (app ((cm, Barrier) :: [])
      (map (fun p -> (cm, (Bcast (jmk p)))) (seq 0 nblocks)))

(** val ham_compute_trace :
    fixes -> commid -> int -> (int -> int) -> int -> event list **)

let ham_compute_trace fx cm nblocks jmk _ =
  app (skel_run fx cm)
    (app ((cm, Barrier) :: [])
      (flat_map (fun p -> (cm, (Bcast (jmk p))) :: ((cm, (Bcast
        (jmk p))) :: [])) (seq 0 nblocks)))

type table =
| TAbsent
| TEmpty
| TData of int list

type pstatus =
| PConstructed
| PComputed

type partst = { terms : bool; pstat : pstatus }

type gstatus =
| GPrepared
| GComputed

type compst = { tab : table; parts : partst list; gstat : gstatus }

(** val init_state : component -> compst **)

let init_state c =
  { tab = TEmpty; parts =
    (repeat { terms = false; pstat = PConstructed } c.nparts); gstat =
    GPrepared }

(** val run_part : bool -> int -> int -> partst **)

let run_part clear lr runner =
  if (=) lr runner
  then if clear
       then { terms = false; pstat = PConstructed }
       else { terms = true; pstat = PComputed }
  else { terms = false; pstat = PConstructed }

(** val partial_sum : int -> (int -> int) -> int -> int list **)

let partial_sum np jmk lr =
  filter (fun p -> (=) (jmk p) lr) (seq 0 np)

(** val reduce_all : int -> (int -> int) -> int -> int list **)

let reduce_all np jmk n0 =
  flat_map (partial_sum np jmk) (seq 0 n0)

(** val gf2_state :
    bool -> bool -> component -> (int -> int) -> int -> int -> compst **)

let gf2_state clear fne c jmk n0 lr =
  if c.vanishing
  then { tab = TEmpty; parts =
         (repeat { terms = false; pstat = PConstructed } c.nparts); gstat =
         GComputed }
  else let part = fun p ->
         if clear
         then run_part clear lr (jmk p)
         else { terms =
                (if Nat.ltb (jmk p) n0
                 then (run_part clear (jmk p) (jmk p)).terms
                 else false); pstat = PComputed }
       in
       { tab =
       (if fne
        then TData (if (=) lr 0 then reduce_all c.nparts jmk n0 else [])
        else TEmpty); parts = (map part (seq 0 c.nparts)); gstat = GComputed }

(** val distribute_comp :
    fixes -> bool -> component -> compst -> compst -> bool -> compst **)

let distribute_comp fx clear c at_sender at_me is_sender =
  { tab = (if (=) c.nparts 0 then TAbsent else at_sender.tab); parts =
    (map (fun sm -> { terms = (fst sm).terms; pstat =
      (if is_sender
       then (snd sm).pstat
       else if (&&) fx.fix_status (negb clear)
            then PComputed
            else (snd sm).pstat) }) (combine at_sender.parts at_me.parts));
    gstat =
    (if (||) is_sender ((=) c.nparts 0) then at_me.gstat else GComputed) }

(** val split_state :
    fixes -> colouring -> int -> component list -> bool -> bool -> (int ->
    int -> int) -> int -> compst list **)

let split_state fx col p comps clear fne jm r =
  map (fun kc ->
    let k = fst kc in
    let c = snd kc in
    let ck = col.ecol k in
    let n0 = length (members col p (Colour ck)) in
    let st1 = fun q0 ->
      if (=) (col.pcol q0) ck
      then gf2_state clear fne c (jm k) n0 (local_rank col (Colour ck) q0)
      else init_state c
    in
    let s = sender fx col p k in
    distribute_comp fx clear c (st1 s) (st1 r) ((=) r s)) (indexed comps)

(** val nosplit_state :
    int -> component list -> bool -> bool -> (int -> int -> int) -> int ->
    compst list **)

let nosplit_state p comps clear fne jm r =
  map (fun kc -> gf2_state clear fne (snd kc) (jm (fst kc)) p r)
    (indexed comps)

(** val ham_block_source : int -> (int -> int) -> int -> int -> int option **)

let ham_block_source p jmk r p0 =
  if (=) r (jmk p0)
  then Some r
  else if Nat.ltb (jmk p0) p then Some (jmk p0) else None

(** val evaluable : component -> compst -> bool **)

let evaluable c s =
  (||) c.vanishing
    (forallb (fun p ->
      match p.pstat with
      | PConstructed -> false
      | PComputed -> true) s.parts)

(** val has_all_terms : component -> compst -> bool **)

let has_all_terms c s =
  (||) c.vanishing (forallb (fun p -> p.terms) s.parts)

(** val is_full_sum_b : int -> table -> bool **)

let is_full_sum_b np = function
| TData l ->
  (&&) ((=) (length l) np)
    (forallb (fun p -> (=) (count_occ (=) l p) (Stdlib.Int.succ 0))
      (seq 0 np))
| _ -> false

(** val is_zeros_b : table -> bool **)

let is_zeros_b = function
| TData contrib -> (match contrib with
                    | [] -> true
                    | _ :: _ -> false)
| _ -> false

(** val list_eqb : ('a1 -> 'a1 -> bool) -> 'a1 list -> 'a1 list -> bool **)

let rec list_eqb eqb1 a b =
  match a with
  | [] -> (match b with
           | [] -> true
           | _ :: _ -> false)
  | x :: a' ->
    (match b with
     | [] -> false
     | y :: b' -> (&&) (eqb1 x y) (list_eqb eqb1 a' b'))

(** val comms_of : colouring -> int -> commid list **)

let comms_of col p =
  World :: (map (fun x -> Colour x) (nodup (=) (map col.pcol (seq 0 p))))

(** val collectives_match_b :
    colouring -> int -> (int -> event list) -> bool **)

let collectives_match_b col p trace =
  forallb (fun cm ->
    match members col p cm with
    | [] -> true
    | r0 :: rs ->
      forallb (fun r ->
        list_eqb ckind_eqb (proj cm (trace r0)) (proj cm (trace r))) rs)
    (comms_of col p)

(** val heads_agree :
    int list -> commid -> (int -> event list) -> ckind option **)

let heads_agree ms cm st =
  match ms with
  | [] -> None
  | r0 :: _ ->
    (match st r0 with
     | [] -> None
     | e :: _ ->
       let (cm0, k) = e in
       if (&&) (commid_eqb cm0 cm)
            (forallb (fun r ->
              match st r with
              | [] -> false
              | e0 :: _ ->
                let (cm', k') = e0 in
                (&&) (commid_eqb cm' cm) (ckind_eqb k' k)) ms)
       then Some k
       else None)

(** val coll_step :
    colouring -> int -> commid -> (int -> event list) -> (int -> event list)
    option **)

let coll_step col p cm st =
  match heads_agree (members col p cm) cm st with
  | Some _ ->
    Some (fun r ->
      if existsb ((=) r) (members col p cm) then tl (st r) else st r)
  | None -> None

(** val all_done : int -> (int -> event list) -> bool **)

let all_done p st =
  forallb (fun r -> match st r with
                    | [] -> true
                    | _ :: _ -> false) (seq 0 p)

(** val no_step_b : colouring -> int -> (int -> event list) -> bool **)

let no_step_b col p st =
  forallb (fun cm ->
    match coll_step col p cm st with
    | Some _ -> false
    | None -> true) (comms_of col p)

(** val coll_exec :
    colouring -> int -> int -> (int -> event list) -> (bool * commid
    list) * (int -> event list) **)

let rec coll_exec col p fuel st =
  (fun fO fS n -> if n=0 then fO () else fS (n-1))
    (fun _ -> (((all_done p st), []), st))
    (fun f ->
    if all_done p st
    then ((true, []), st)
    else (match find (fun cm ->
                  match coll_step col p cm st with
                  | Some _ -> true
                  | None -> false) (comms_of col p) with
          | Some cm ->
            (match coll_step col p cm st with
             | Some st' ->
               let (p0, fin) = coll_exec col p f st' in
               let (ok, sched) = p0 in ((ok, (cm :: sched)), fin)
             | None -> ((false, []), st))
          | None -> ((false, []), st)))
    fuel
