
val negb : bool -> bool

val fst : ('a1 * 'a2) -> 'a1

val snd : ('a1 * 'a2) -> 'a2

val length : 'a1 list -> int

val app : 'a1 list -> 'a1 list -> 'a1 list

type comparison =
| Eq
| Lt
| Gt

val compOpp : comparison -> comparison

val add : int -> int -> int

type positive =
| XI of positive
| XO of positive
| XH

type z =
| Z0
| Zpos of positive
| Zneg of positive

val eqb : bool -> bool -> bool

module Nat :
 sig
  val ltb : int -> int -> bool
 end

module Pos :
 sig
  type mask =
  | IsNul
  | IsPos of positive
  | IsNeg
 end

module Coq_Pos :
 sig
  val succ : positive -> positive

  val add : positive -> positive -> positive

  val add_carry : positive -> positive -> positive

  val pred_double : positive -> positive

  type mask = Pos.mask =
  | IsNul
  | IsPos of positive
  | IsNeg

  val succ_double_mask : mask -> mask

  val double_mask : mask -> mask

  val double_pred_mask : positive -> mask

  val sub_mask : positive -> positive -> mask

  val sub_mask_carry : positive -> positive -> mask

  val sub : positive -> positive -> positive

  val mul : positive -> positive -> positive

  val size_nat : positive -> int

  val compare_cont : comparison -> positive -> positive -> comparison

  val compare : positive -> positive -> comparison

  val eqb : positive -> positive -> bool

  val ggcdn : int -> positive -> positive -> positive * (positive * positive)

  val ggcd : positive -> positive -> positive * (positive * positive)
 end

module Z :
 sig
  val double : z -> z

  val succ_double : z -> z

  val pred_double : z -> z

  val pos_sub : positive -> positive -> z

  val add : z -> z -> z

  val opp : z -> z

  val mul : z -> z -> z

  val compare : z -> z -> comparison

  val sgn : z -> z

  val eqb : z -> z -> bool

  val abs : z -> z

  val to_pos : z -> positive

  val ggcd : z -> z -> z * (z * z)
 end

val zeq_bool : z -> z -> bool

val fold_left : ('a1 -> 'a2 -> 'a1) -> 'a2 list -> 'a1 -> 'a1

val forallb : ('a1 -> bool) -> 'a1 list -> bool

type q = { qnum : z; qden : positive }

val qeq_bool : q -> q -> bool

val qplus : q -> q -> q

val qmult : q -> q -> q

val qopp : q -> q

val qminus : q -> q -> q

val qinv : q -> q

val qdiv : q -> q -> q

val qred : q -> q

type 'a outcome =
| Done of 'a
| OOB
| Uninit
| Throws of int
| OutOfFuel

val spin_down : int

val spin_up : int

val hopping7_throws :
  ('a1 -> 'a1 -> bool) -> 'a1 -> 'a1 -> int -> int -> int -> int -> bool

val hopping7_ops :
  ('a1 -> 'a1 -> bool) -> 'a1 -> 'a1 -> int -> int -> int -> int -> bool list

val hopping7_labels :
  ('a1 -> 'a1 -> bool) -> 'a1 -> 'a1 -> int -> int -> int -> int -> 'a1 list

val hopping7_orbitals :
  ('a1 -> 'a1 -> bool) -> 'a1 -> 'a1 -> int -> int -> int -> int -> int list

val hopping7_spins :
  ('a1 -> 'a1 -> bool) -> 'a1 -> 'a1 -> int -> int -> int -> int -> int list

val hopping5_throws : ('a1 -> 'a1 -> bool) -> 'a1 -> 'a1 -> int -> int -> bool

val hopping5_ops :
  ('a1 -> 'a1 -> bool) -> 'a1 -> 'a1 -> int -> int -> bool list

val hopping5_labels :
  ('a1 -> 'a1 -> bool) -> 'a1 -> 'a1 -> int -> int -> 'a1 list

val hopping5_orbitals :
  ('a1 -> 'a1 -> bool) -> 'a1 -> 'a1 -> int -> int -> int list

val hopping5_spins :
  ('a1 -> 'a1 -> bool) -> 'a1 -> 'a1 -> int -> int -> int list

val level4_throws : ('a1 -> 'a1 -> bool) -> 'a1 -> int -> int -> bool

val level4_ops : ('a1 -> 'a1 -> bool) -> 'a1 -> int -> int -> bool list

val level4_labels : ('a1 -> 'a1 -> bool) -> 'a1 -> int -> int -> 'a1 list

val level4_orbitals : ('a1 -> 'a1 -> bool) -> 'a1 -> int -> int -> int list

val level4_spins : ('a1 -> 'a1 -> bool) -> 'a1 -> int -> int -> int list

val nupNdown7_throws :
  ('a1 -> 'a1 -> bool) -> 'a1 -> 'a1 -> int -> int -> int -> int -> bool

val nupNdown7_ops :
  ('a1 -> 'a1 -> bool) -> 'a1 -> 'a1 -> int -> int -> int -> int -> bool list

val nupNdown7_labels :
  ('a1 -> 'a1 -> bool) -> 'a1 -> 'a1 -> int -> int -> int -> int -> 'a1 list

val nupNdown7_orbitals :
  ('a1 -> 'a1 -> bool) -> 'a1 -> 'a1 -> int -> int -> int -> int -> int list

val nupNdown7_spins :
  ('a1 -> 'a1 -> bool) -> 'a1 -> 'a1 -> int -> int -> int -> int -> int list

val nupNdown6_throws :
  ('a1 -> 'a1 -> bool) -> 'a1 -> int -> int -> int -> int -> bool

val nupNdown6_ops :
  ('a1 -> 'a1 -> bool) -> 'a1 -> int -> int -> int -> int -> bool list

val nupNdown6_labels :
  ('a1 -> 'a1 -> bool) -> 'a1 -> int -> int -> int -> int -> 'a1 list

val nupNdown6_orbitals :
  ('a1 -> 'a1 -> bool) -> 'a1 -> int -> int -> int -> int -> int list

val nupNdown6_spins :
  ('a1 -> 'a1 -> bool) -> 'a1 -> int -> int -> int -> int -> int list

val nupNdown4_throws : ('a1 -> 'a1 -> bool) -> 'a1 -> int -> int -> bool

val nupNdown4_ops : ('a1 -> 'a1 -> bool) -> 'a1 -> int -> int -> bool list

val nupNdown4_labels : ('a1 -> 'a1 -> bool) -> 'a1 -> int -> int -> 'a1 list

val nupNdown4_orbitals : ('a1 -> 'a1 -> bool) -> 'a1 -> int -> int -> int list

val nupNdown4_spins : ('a1 -> 'a1 -> bool) -> 'a1 -> int -> int -> int list

val nupNdown5_throws :
  ('a1 -> 'a1 -> bool) -> 'a1 -> int -> int -> int -> bool

val nupNdown5_ops :
  ('a1 -> 'a1 -> bool) -> 'a1 -> int -> int -> int -> bool list

val nupNdown5_labels :
  ('a1 -> 'a1 -> bool) -> 'a1 -> int -> int -> int -> 'a1 list

val nupNdown5_orbitals :
  ('a1 -> 'a1 -> bool) -> 'a1 -> int -> int -> int -> int list

val nupNdown5_spins :
  ('a1 -> 'a1 -> bool) -> 'a1 -> int -> int -> int -> int list

val nupNdown5_default_spin1 : int

val nupNdown5_default_spin2 : int

val spinflip6_throws :
  ('a1 -> 'a1 -> bool) -> 'a1 -> int -> int -> int -> int -> bool

val spinflip6_ops :
  ('a1 -> 'a1 -> bool) -> 'a1 -> int -> int -> int -> int -> bool list

val spinflip6_labels :
  ('a1 -> 'a1 -> bool) -> 'a1 -> int -> int -> int -> int -> 'a1 list

val spinflip6_orbitals :
  ('a1 -> 'a1 -> bool) -> 'a1 -> int -> int -> int -> int -> int list

val spinflip6_spins :
  ('a1 -> 'a1 -> bool) -> 'a1 -> int -> int -> int -> int -> int list

val spinflip6_default_spin1 : int

val spinflip6_default_spin2 : int

val pairHopping6_throws :
  ('a1 -> 'a1 -> bool) -> 'a1 -> int -> int -> int -> int -> bool

val pairHopping6_ops :
  ('a1 -> 'a1 -> bool) -> 'a1 -> int -> int -> int -> int -> bool list

val pairHopping6_labels :
  ('a1 -> 'a1 -> bool) -> 'a1 -> int -> int -> int -> int -> 'a1 list

val pairHopping6_orbitals :
  ('a1 -> 'a1 -> bool) -> 'a1 -> int -> int -> int -> int -> int list

val pairHopping6_spins :
  ('a1 -> 'a1 -> bool) -> 'a1 -> int -> int -> int -> int -> int list

val pairHopping6_default_spin1 : int

val pairHopping6_default_spin2 : int

val splusSminus4_throws : ('a1 -> 'a1 -> bool) -> 'a1 -> 'a1 -> int -> bool

val splusSminus4_ops : ('a1 -> 'a1 -> bool) -> 'a1 -> 'a1 -> int -> bool list

val splusSminus4_labels :
  ('a1 -> 'a1 -> bool) -> 'a1 -> 'a1 -> int -> 'a1 list

val splusSminus4_orbitals :
  ('a1 -> 'a1 -> bool) -> 'a1 -> 'a1 -> int -> int list

val splusSminus4_spins : ('a1 -> 'a1 -> bool) -> 'a1 -> 'a1 -> int -> int list

val sminusSplus4_throws : ('a1 -> 'a1 -> bool) -> 'a1 -> 'a1 -> int -> bool

val sminusSplus4_ops : ('a1 -> 'a1 -> bool) -> 'a1 -> 'a1 -> int -> bool list

val sminusSplus4_labels :
  ('a1 -> 'a1 -> bool) -> 'a1 -> 'a1 -> int -> 'a1 list

val sminusSplus4_orbitals :
  ('a1 -> 'a1 -> bool) -> 'a1 -> 'a1 -> int -> int list

val sminusSplus4_spins : ('a1 -> 'a1 -> bool) -> 'a1 -> 'a1 -> int -> int list

val exWrongLabel : int

val exWrongIndices : int

type config = { fix_getsite : bool; fix_shapecheck : bool }

val as_is : config

val repaired : config

type 'v vops = { vnz : ('v -> bool); veqb : ('v -> 'v -> bool);
                 vneg : ('v -> 'v); vsub : ('v -> 'v -> 'v);
                 vhalf : ('v -> 'v); vquart : ('v -> 'v); vdbl : ('v -> 'v);
                 vconj : ('v -> 'v) }

type ('l, 'v) term = { t_ops : bool list; t_labels : 'l list;
                       t_orbs : int list; t_spins : int list; t_val : 
                       'v }

val t_order : ('a1, 'a2) term -> int

type shape = int * int

type ('l, 'v) obs =
| ONone
| OSite of shape
| OTerms of ('l, 'v) term list
| ONat of int

type 'l site_map = ('l * shape) list

val find_site : ('a1 -> 'a1 -> bool) -> 'a1 -> 'a1 site_map -> shape option

val set_site :
  ('a1 -> 'a1 -> bool) -> 'a1 -> shape -> 'a1 site_map -> 'a1 site_map

type ('l, 'v) term_map = (int * ('l, 'v) term list) list

val tm_get : int -> ('a1, 'a2) term_map -> ('a1, 'a2) term list

val tm_push :
  int -> ('a1, 'a2) term -> ('a1, 'a2) term_map -> ('a1, 'a2) term_map

type ('l, 'v) state = { sites : 'l site_map; terms : ('l, 'v) term_map;
                        maxorder : int }

val init : ('a1, 'a2) state

val ts_add : ('a1, 'a2) term -> ('a1, 'a2) state -> ('a1, 'a2) state

val push_all : ('a1, 'a2) term list -> ('a1, 'a2) state -> ('a1, 'a2) state

val getTerms : ('a1, 'a2) state -> int -> ('a1, 'a2) term list

type ('l, 'v) w = ('l, 'v) term list * unit outcome

val wret : ('a1, 'a2) w

val wthrow : int -> ('a1, 'a2) w

val woob : ('a1, 'a2) w

val wpush : ('a1, 'a2) term -> ('a1, 'a2) w

val wseq : ('a1, 'a2) w -> ('a1, 'a2) w -> ('a1, 'a2) w

val wwhen : bool -> ('a1, 'a2) w -> ('a1, 'a2) w

val wfor_from : int -> int -> (int -> ('a1, 'a2) w) -> ('a1, 'a2) w

val wfor : int -> (int -> ('a1, 'a2) w) -> ('a1, 'a2) w

val validate :
  ('a1 -> 'a1 -> bool) -> 'a1 site_map -> int -> 'a1 list -> int list -> int
  list -> unit outcome

val w_addTerm :
  ('a1 -> 'a1 -> bool) -> 'a2 vops -> 'a1 site_map -> ('a1, 'a2) term ->
  ('a1, 'a2) w

type ('l, 'v) fcall =
| FHopping7 of 'l * 'l * 'v * int * int * int * int
| FHopping5 of 'l * 'l * 'v * int * int
| FLevel4 of 'l * 'v * int * int
| FNupNdown7 of 'l * 'l * 'v * int * int * int * int
| FNupNdown6 of 'l * 'v * int * int * int * int
| FNupNdown4 of 'l * 'v * int * int
| FNupNdown5 of 'l * 'v * int * int * int
| FSpinflip6 of 'l * 'v * int * int * int * int
| FPairHopping6 of 'l * 'v * int * int * int * int
| FSplusSminus4 of 'l * 'l * 'v * int
| FSminusSplus4 of 'l * 'l * 'v * int

val mk :
  bool -> bool list -> 'a1 list -> int list -> int list -> 'a2 -> ('a1, 'a2)
  term outcome

val factory :
  ('a1 -> 'a1 -> bool) -> ('a1, 'a2) fcall -> ('a1, 'a2) term outcome

val fNupNdown3 : 'a1 -> 'a2 -> int -> ('a1, 'a2) fcall

val fSpinflip4 : 'a1 -> 'a2 -> int -> int -> ('a1, 'a2) fcall

val fPairHopping4 : 'a1 -> 'a2 -> int -> int -> ('a1, 'a2) fcall

val wpush_f : ('a1 -> 'a1 -> bool) -> ('a1, 'a2) fcall -> ('a1, 'a2) w

val wadd_f :
  ('a1 -> 'a1 -> bool) -> 'a2 vops -> 'a1 site_map -> ('a1, 'a2) fcall ->
  ('a1, 'a2) w

val addCoulombS :
  ('a1 -> 'a1 -> bool) -> 'a2 vops -> 'a1 site_map -> 'a1 -> 'a2 -> 'a2 ->
  ('a1, 'a2) w

val addCoulombP :
  ('a1 -> 'a1 -> bool) -> 'a2 vops -> 'a1 site_map -> 'a1 -> 'a2 -> 'a2 ->
  'a2 -> 'a2 -> ('a1, 'a2) w

val addCoulombP3 :
  ('a1 -> 'a1 -> bool) -> 'a2 vops -> 'a1 site_map -> 'a1 -> 'a2 -> 'a2 ->
  'a2 -> ('a1, 'a2) w

val addLevel :
  ('a1 -> 'a1 -> bool) -> 'a2 vops -> 'a1 site_map -> 'a1 -> 'a2 -> ('a1,
  'a2) w

val addMagnetization :
  ('a1 -> 'a1 -> bool) -> 'a2 vops -> 'a1 site_map -> 'a1 -> 'a2 -> ('a1,
  'a2) w

val cmp_spins : config -> shape -> shape -> int

val addSzSz :
  ('a1 -> 'a1 -> bool) -> 'a2 vops -> config -> 'a1 site_map -> 'a1 -> 'a1 ->
  'a2 -> ('a1, 'a2) w

val addSS :
  ('a1 -> 'a1 -> bool) -> 'a2 vops -> config -> 'a1 site_map -> 'a1 -> 'a1 ->
  'a2 -> ('a1, 'a2) w

val addHopping8 :
  ('a1 -> 'a1 -> bool) -> 'a2 vops -> 'a1 site_map -> 'a1 -> 'a1 -> 'a2 ->
  int -> int -> int -> int -> ('a1, 'a2) w

val addHopping7 :
  ('a1 -> 'a1 -> bool) -> 'a2 vops -> 'a1 site_map -> 'a1 -> 'a1 -> 'a2 ->
  int -> int -> int -> ('a1, 'a2) w

val addHopping6 :
  ('a1 -> 'a1 -> bool) -> 'a2 vops -> config -> 'a1 site_map -> 'a1 -> 'a1 ->
  'a2 -> int -> int -> ('a1, 'a2) w

val addHopping4 :
  ('a1 -> 'a1 -> bool) -> 'a2 vops -> config -> 'a1 site_map -> 'a1 -> 'a1 ->
  'a2 -> ('a1, 'a2) w

type ('l, 'v) pcall =
| PCoulombS of 'l * 'v * 'v
| PCoulombP of 'l * 'v * 'v * 'v * 'v
| PCoulombP3 of 'l * 'v * 'v * 'v
| PLevel of 'l * 'v
| PMagnetization of 'l * 'v
| PSzSz of 'l * 'l * 'v
| PSS of 'l * 'l * 'v
| PHopping8 of 'l * 'l * 'v * int * int * int * int
| PHopping7 of 'l * 'l * 'v * int * int * int
| PHopping6 of 'l * 'l * 'v * int * int
| PHopping4 of 'l * 'l * 'v

val preset :
  ('a1 -> 'a1 -> bool) -> 'a2 vops -> config -> 'a1 site_map -> ('a1, 'a2)
  pcall -> ('a1, 'a2) w

val getSite :
  ('a1 -> 'a1 -> bool) -> config -> ('a1, 'a2) state -> 'a1 -> ('a1, 'a2) obs
  outcome

val copy : ('a1, 'a2) state -> ('a1, 'a2) state

type ('l, 'v) op =
| AddSite of 'l * int * int
| AddTerm of ('l, 'v) term
| AddFactoryTerm of ('l, 'v) fcall
| Preset of ('l, 'v) pcall
| GetSite of 'l
| GetTerms of int
| MaxOrder
| Copy

val effect :
  ('a1 -> 'a1 -> bool) -> 'a2 vops -> config -> 'a1 site_map -> ('a1, 'a2) op
  -> ('a1, 'a2) w

val result_of : unit outcome -> ('a1, 'a2) obs outcome

val step :
  ('a1 -> 'a1 -> bool) -> 'a2 vops -> config -> ('a1, 'a2) op -> ('a1, 'a2)
  state -> ('a1, 'a2) state * ('a1, 'a2) obs outcome

type ('l, 'v) rstate = { cur : ('l, 'v) state; origs : ('l, 'v) state list }

val rinit : ('a1, 'a2) rstate

val rstep :
  ('a1 -> 'a1 -> bool) -> 'a2 vops -> config -> ('a1, 'a2) op -> ('a1, 'a2)
  rstate -> ('a1, 'a2) rstate * ('a1, 'a2) obs outcome

val term_wfb : ('a1, 'a2) term -> bool

val item_ok :
  ('a1 -> 'a1 -> bool) -> 'a1 site_map -> 'a1 -> int -> int -> bool

val all3 :
  ('a1 -> int -> int -> bool) -> 'a1 list -> int list -> int list -> bool

val term_valid :
  ('a1 -> 'a1 -> bool) -> 'a1 site_map -> ('a1, 'a2) term -> bool

val factory_defined : ('a1, 'a2) fcall -> bool

val same_shape : shape -> shape -> bool

val preset_defined :
  ('a1 -> 'a1 -> bool) -> 'a1 site_map -> ('a1, 'a2) pcall -> bool

val list_eqb : ('a1 -> 'a1 -> bool) -> 'a1 list -> 'a1 list -> bool

val term_eqb :
  ('a1 -> 'a1 -> bool) -> 'a2 vops -> ('a1, 'a2) term -> ('a1, 'a2) term ->
  bool

val is_nil : 'a1 list -> bool

val judge_term :
  ('a1 -> 'a1 -> bool) -> 'a2 vops -> 'a1 site_map -> ('a1, 'a2) term -> bool
  -> ('a1, 'a2) term list -> int list

val judge :
  ('a1 -> 'a1 -> bool) -> 'a2 vops -> 'a1 site_map -> ('a1, 'a2) op -> bool
  -> ('a1, 'a2) term list -> int list

val q_ops : q vops

type qterm = (int, q) term

type qop = (int, q) op

type qstate = (int, q) state

type qrstate = (int, q) rstate

val q_rinit : qrstate

val q_rstep : config -> qop -> qrstate -> qrstate * (int, q) obs outcome

val q_effect : config -> qstate -> qop -> qterm list

val q_getTerms : qstate -> int -> qterm list

val q_judge : int site_map -> qop -> bool -> qterm list -> int list

val q_set_site : int -> shape -> int site_map -> int site_map
