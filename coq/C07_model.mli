
val xorb : bool -> bool -> bool

val negb : bool -> bool

val fst : ('a1 * 'a2) -> 'a1

val snd : ('a1 * 'a2) -> 'a2

val length : 'a1 list -> int

val app : 'a1 list -> 'a1 list -> 'a1 list

type comparison =
| Eq
| Lt
| Gt

val add : int -> int -> int

val mul : int -> int -> int

type positive =
| XI of positive
| XO of positive
| XH

type z =
| Z0
| Zpos of positive
| Zneg of positive

val eqb : bool -> bool -> bool

module Nat :
 sig
  val add : int -> int -> int

  val mul : int -> int -> int

  val ltb : int -> int -> bool

  val compare : int -> int -> comparison

  val min : int -> int -> int

  val even : int -> bool

  val odd : int -> bool

  val pow : int -> int -> int

  val div2 : int -> int
 end

module Pos :
 sig
  type mask =
  | IsNul
  | IsPos of positive
  | IsNeg
 end

module Coq_Pos :
 sig
  val succ : positive -> positive

  val add : positive -> positive -> positive

  val add_carry : positive -> positive -> positive

  val pred_double : positive -> positive

  type mask = Pos.mask =
  | IsNul
  | IsPos of positive
  | IsNeg

  val succ_double_mask : mask -> mask

  val double_mask : mask -> mask

  val double_pred_mask : positive -> mask

  val sub_mask : positive -> positive -> mask

  val sub_mask_carry : positive -> positive -> mask

  val sub : positive -> positive -> positive

  val mul : positive -> positive -> positive

  val size_nat : positive -> int

  val compare_cont : comparison -> positive -> positive -> comparison

  val compare : positive -> positive -> comparison

  val eqb : positive -> positive -> bool

  val ggcdn : int -> positive -> positive -> positive * (positive * positive)

  val ggcd : positive -> positive -> positive * (positive * positive)
 end

module Z :
 sig
  val double : z -> z

  val succ_double : z -> z

  val pred_double : z -> z

  val pos_sub : positive -> positive -> z

  val add : z -> z -> z

  val opp : z -> z

  val mul : z -> z -> z

  val sgn : z -> z

  val eqb : z -> z -> bool

  val abs : z -> z

  val to_pos : z -> positive

  val ggcd : z -> z -> z * (z * z)
 end

val nth : int -> 'a1 list -> 'a1 -> 'a1

val nth_error : 'a1 list -> int -> 'a1 option

val rev : 'a1 list -> 'a1 list

val map : ('a1 -> 'a2) -> 'a1 list -> 'a2 list

val fold_left : ('a1 -> 'a2 -> 'a1) -> 'a2 list -> 'a1 -> 'a1

val fold_right : ('a2 -> 'a1 -> 'a1) -> 'a1 -> 'a2 list -> 'a1

val existsb : ('a1 -> bool) -> 'a1 list -> bool

val forallb : ('a1 -> bool) -> 'a1 list -> bool

val filter : ('a1 -> bool) -> 'a1 list -> 'a1 list

val combine : 'a1 list -> 'a2 list -> ('a1 * 'a2) list

val seq : int -> int -> int list

val repeat : 'a1 -> int -> 'a1 list

type q = { qnum : z; qden : positive }

val qplus : q -> q -> q

val qmult : q -> q -> q

val qopp : q -> q

val qminus : q -> q -> q

val qred : q -> q

type 'a outcome =
| Done of 'a
| OOB
| Uninit
| Throws of int
| OutOfFuel

val bind : 'a1 outcome -> ('a1 -> 'a2 outcome) -> 'a2 outcome

type op = bool * int

val op_ann : op -> bool

val op_idx : op -> int

val cdag : int -> op

val cann : int -> op

val flip_type : op -> op

type state = bool list

val upd : int -> bool -> state -> state

val par : int -> state -> bool

val act_op : op -> state -> (bool * state) option outcome

val act_mono : op list -> state -> (bool * state) option outcome

val state_of_nat : int -> int -> state

val nat_of_state : state -> int

val op_compare : op -> op -> comparison

val op_eqb : op -> op -> bool

val op_gtb : op -> op -> bool

type monomial = op list

val lex_compare : monomial -> monomial -> comparison

val mono_compare : monomial -> monomial -> comparison

type 'k poly = (monomial * 'k) list

val insert :
  ('a1 -> 'a1 -> 'a1) -> ('a1 -> bool) -> monomial -> 'a1 -> 'a1 poly -> 'a1
  poly

val insert_sub :
  ('a1 -> 'a1 -> 'a1) -> ('a1 -> 'a1) -> ('a1 -> bool) -> monomial -> 'a1 ->
  'a1 poly -> 'a1 poly

type 'k pass_result =
| PassVanish of 'k poly
| PassEnd of monomial * 'k * 'k poly * bool
| PassFail of 'k poly outcome

val pass :
  ('a1 -> 'a1) -> (monomial -> 'a1 -> 'a1 poly -> 'a1 poly outcome) -> op
  list -> op -> op list -> 'a1 -> 'a1 poly -> bool -> 'a1 pass_result

val normalize_and_insert :
  ('a1 -> 'a1 -> 'a1) -> ('a1 -> 'a1) -> ('a1 -> bool) -> int -> monomial ->
  'a1 -> 'a1 poly -> 'a1 poly outcome

val fuel_for : monomial -> int

val normalize :
  ('a1 -> 'a1 -> 'a1) -> ('a1 -> 'a1) -> ('a1 -> bool) -> monomial -> 'a1 ->
  'a1 poly -> 'a1 poly outcome

val padd :
  ('a1 -> 'a1 -> 'a1) -> ('a1 -> bool) -> 'a1 poly -> 'a1 poly -> 'a1 poly

val psub :
  ('a1 -> 'a1 -> 'a1) -> ('a1 -> 'a1) -> ('a1 -> bool) -> 'a1 poly -> 'a1
  poly -> 'a1 poly

val pscale :
  ('a1 -> 'a1 -> 'a1) -> ('a1 -> bool) -> 'a1 -> 'a1 poly -> 'a1 poly

val pmul :
  ('a1 -> 'a1 -> 'a1) -> ('a1 -> 'a1 -> 'a1) -> ('a1 -> 'a1) -> ('a1 -> bool)
  -> 'a1 poly -> 'a1 poly -> 'a1 poly outcome

val commutator :
  ('a1 -> 'a1 -> 'a1) -> ('a1 -> 'a1 -> 'a1) -> ('a1 -> 'a1 -> 'a1) -> ('a1
  -> 'a1) -> ('a1 -> bool) -> 'a1 poly -> 'a1 poly -> 'a1 poly outcome

val prefix_equal : monomial -> monomial -> bool outcome

val mono_eqb : monomial -> monomial -> bool

val entry_eq :
  ('a1 -> 'a1 -> 'a1) -> ('a1 -> bool) -> bool -> (monomial * 'a1) ->
  (monomial * 'a1) -> bool outcome

val entries_equal :
  ('a1 -> 'a1 -> 'a1) -> ('a1 -> bool) -> bool -> 'a1 poly -> 'a1 poly ->
  bool outcome

val poly_eq :
  ('a1 -> 'a1 -> 'a1) -> ('a1 -> bool) -> bool -> 'a1 poly -> 'a1 poly ->
  bool outcome

val commutes :
  ('a1 -> 'a1 -> 'a1) -> ('a1 -> 'a1 -> 'a1) -> ('a1 -> 'a1 -> 'a1) -> ('a1
  -> 'a1) -> ('a1 -> bool) -> bool -> 'a1 poly -> 'a1 poly -> bool outcome

val p_c : 'a1 -> int -> 'a1 poly

val p_cdag : 'a1 -> int -> 'a1 poly

val p_n : 'a1 -> int -> 'a1 poly

val p_n_offdiag : 'a1 -> int -> int -> 'a1 poly

val p_N : 'a1 -> ('a1 -> 'a1 -> 'a1) -> ('a1 -> bool) -> int -> 'a1 poly

val sz_down : int -> int list -> int list

val p_Sz_lists :
  'a1 -> ('a1 -> 'a1 -> 'a1) -> ('a1 -> 'a1 -> 'a1) -> ('a1 -> 'a1 -> 'a1) ->
  ('a1 -> 'a1) -> ('a1 -> bool) -> 'a1 -> int list -> int list -> 'a1 poly
  outcome

val p_Sz :
  'a1 -> ('a1 -> 'a1 -> 'a1) -> ('a1 -> 'a1 -> 'a1) -> ('a1 -> 'a1 -> 'a1) ->
  ('a1 -> 'a1) -> ('a1 -> bool) -> 'a1 -> int -> int list -> 'a1 poly outcome

val lc_add :
  ('a1 -> 'a1 -> 'a1) -> state -> 'a1 -> (state * 'a1) list -> (state * 'a1)
  list

val act_poly :
  ('a1 -> 'a1 -> 'a1) -> ('a1 -> 'a1) -> 'a1 poly -> state -> (state * 'a1)
  list outcome

val qadd : q -> q -> q

val qmul : q -> q -> q

val qsub : q -> q -> q

val qopp0 : q -> q

val qzero : q -> bool

val qhalf : q

val q_insert : monomial -> q -> q poly -> q poly

val q_c : int -> q poly

val q_cdag : int -> q poly

val q_n_offdiag : int -> int -> q poly

val q_act : q poly -> state -> (state * q) list outcome

val push_at : int -> int -> int list list -> int list list outcome

val index_of : int -> int list -> int -> int option

val map_set : int -> int -> (int * int) list -> (int * int) list

type bimap = (int * int) list

val bimap_insert : int -> int -> bimap -> bimap

val ins_by : ('a1 -> int) -> 'a1 -> 'a1 list -> 'a1 list

val sort_by : ('a1 -> int) -> 'a1 list -> 'a1 list

val left_view : bimap -> (int * int) list

val right_view : bimap -> (int * int) list

val zeros : int -> state

type 'key sclass = { sc_q2b : ('key * int) list; sc_b2q : (int * 'key) list;
                     sc_blocks : int list list; sc_sbi : int list }

val sc_empty : 'a1 sclass

val q2b_find : ('a1 -> 'a1 -> bool) -> 'a1 -> ('a1 * int) list -> int option

val sc_step :
  ('a1 -> 'a1 -> bool) -> (int -> 'a1 outcome) -> ('a1 sclass * int) -> int
  -> ('a1 sclass * int) outcome

val sc_loop :
  ('a1 -> 'a1 -> bool) -> (int -> 'a1 outcome) -> int list -> ('a1
  sclass * int) -> ('a1 sclass * int) outcome

val sc_compute_gen :
  ('a1 -> 'a1 -> bool) -> (int -> 'a1 outcome) -> int -> 'a1 sclass outcome

val getBlockNumber : int -> 'a1 sclass -> int -> int outcome

val getInnerState : int -> 'a1 sclass -> int -> int outcome

val getFockState : 'a1 sclass -> int -> int -> int outcome

val numberOfBlocks : 'a1 sclass -> int

type fieldop = { fo_parts : (int * int) list;
                 fo_fromRight : (int * int) list;
                 fo_fromLeft : (int * int) list; fo_bimap : bimap }

val fo_empty : fieldop

val prepare_step :
  (int -> int option outcome) -> fieldop -> int -> fieldop outcome

val prepare_loop :
  (int -> int option outcome) -> int list -> fieldop -> fieldop outcome

val lc_find : 'a1 -> state -> (state * 'a1) list -> 'a1

val get_melem :
  'a1 -> ('a1 -> 'a1 -> 'a1) -> ('a1 -> 'a1) -> 'a1 poly -> state -> state ->
  'a1 outcome

val commutes_all_n :
  'a1 -> ('a1 -> 'a1 -> 'a1) -> ('a1 -> 'a1 -> 'a1) -> ('a1 -> 'a1 -> 'a1) ->
  ('a1 -> 'a1) -> ('a1 -> bool) -> int list -> 'a1 poly -> bool outcome

val shift_test_i :
  'a1 -> 'a1 -> ('a1 -> 'a1 -> 'a1) -> ('a1 -> 'a1 -> 'a1) -> ('a1 -> 'a1 ->
  'a1) -> ('a1 -> 'a1) -> ('a1 -> bool) -> int -> 'a1 poly -> int -> bool
  outcome

val shift_test_all :
  'a1 -> 'a1 -> ('a1 -> 'a1 -> 'a1) -> ('a1 -> 'a1 -> 'a1) -> ('a1 -> 'a1 ->
  'a1) -> ('a1 -> 'a1) -> ('a1 -> bool) -> int -> int list -> 'a1 poly ->
  bool outcome

val check_symmetry :
  'a1 -> 'a1 -> ('a1 -> 'a1 -> 'a1) -> ('a1 -> 'a1 -> 'a1) -> ('a1 -> 'a1 ->
  'a1) -> ('a1 -> 'a1) -> ('a1 -> bool) -> bool -> int -> 'a1 poly -> 'a1
  poly -> bool outcome

type 'k symm = { sy_ops : 'k poly list; sy_flags : bool list }

val sy_empty : 'a1 symm

val sy_offer :
  'a1 -> 'a1 -> ('a1 -> 'a1 -> 'a1) -> ('a1 -> 'a1 -> 'a1) -> ('a1 -> 'a1 ->
  'a1) -> ('a1 -> 'a1) -> ('a1 -> bool) -> bool -> int -> 'a1 poly -> 'a1
  symm -> 'a1 poly -> 'a1 symm outcome

val compute_custom_loop :
  'a1 -> 'a1 -> ('a1 -> 'a1 -> 'a1) -> ('a1 -> 'a1 -> 'a1) -> ('a1 -> 'a1 ->
  'a1) -> ('a1 -> 'a1) -> ('a1 -> bool) -> bool -> int -> 'a1 poly -> 'a1
  poly list -> 'a1 symm -> 'a1 symm outcome

val compute_custom :
  'a1 -> 'a1 -> ('a1 -> 'a1 -> 'a1) -> ('a1 -> 'a1 -> 'a1) -> ('a1 -> 'a1 ->
  'a1) -> ('a1 -> 'a1) -> ('a1 -> bool) -> bool -> int -> 'a1 poly -> 'a1
  poly list -> 'a1 symm outcome

val spin_is_up : int -> bool

val spin_is_down : int -> bool

val valid_sz : int list -> bool

val spin_up_indices : int list -> int list

val compute_default :
  'a1 -> 'a1 -> ('a1 -> 'a1 -> 'a1) -> ('a1 -> 'a1 -> 'a1) -> ('a1 -> 'a1 ->
  'a1) -> ('a1 -> 'a1) -> ('a1 -> bool) -> 'a1 -> bool -> bool -> bool -> int
  list -> 'a1 poly -> 'a1 symm outcome

val qn_of :
  'a1 -> ('a1 -> 'a1 -> 'a1) -> ('a1 -> 'a1) -> 'a1 poly list -> state -> 'a1
  list outcome

val qn_eqb :
  ('a1 -> 'a1 -> 'a1) -> ('a1 -> bool) -> 'a1 list -> 'a1 list -> bool

type 'k qclass = 'k list sclass

val sc_compute :
  'a1 -> ('a1 -> 'a1 -> 'a1) -> ('a1 -> 'a1 -> 'a1) -> ('a1 -> 'a1) -> ('a1
  -> bool) -> int -> 'a1 poly list -> 'a1 qclass outcome

val min_label : ('a1 -> bool) -> (state * 'a1) list -> int option

val first_image :
  ('a1 -> 'a1 -> 'a1) -> ('a1 -> 'a1) -> ('a1 -> bool) -> int -> 'a1 poly ->
  int list -> int option outcome

val mapsTo :
  ('a1 -> 'a1 -> 'a1) -> ('a1 -> 'a1) -> ('a1 -> bool) -> int -> 'a1 qclass
  -> 'a1 poly -> int -> int option outcome

val prepare :
  ('a1 -> 'a1 -> 'a1) -> ('a1 -> 'a1) -> ('a1 -> bool) -> int -> 'a1 qclass
  -> 'a1 poly -> fieldop outcome

val prepare_cdag :
  'a1 -> ('a1 -> 'a1 -> 'a1) -> ('a1 -> 'a1) -> ('a1 -> bool) -> int -> 'a1
  qclass -> int -> fieldop outcome

val prepare_c :
  'a1 -> ('a1 -> 'a1 -> 'a1) -> ('a1 -> 'a1) -> ('a1 -> bool) -> int -> 'a1
  qclass -> int -> fieldop outcome

val prepare_quad :
  'a1 -> ('a1 -> 'a1 -> 'a1) -> ('a1 -> 'a1) -> ('a1 -> bool) -> int -> 'a1
  qclass -> int -> int -> fieldop outcome

type 'k symm_mode =
| SymmDefault
| SymmIgnore
| SymmCustom of 'k poly list

val symmetrize :
  'a1 -> 'a1 -> ('a1 -> 'a1 -> 'a1) -> ('a1 -> 'a1 -> 'a1) -> ('a1 -> 'a1 ->
  'a1) -> ('a1 -> 'a1) -> ('a1 -> bool) -> 'a1 -> bool -> bool -> 'a1
  symm_mode -> int list -> 'a1 poly -> 'a1 symm outcome

type 'k analysis = { an_symm : 'k symm; an_class : 'k qclass;
                     an_cdag : fieldop list; an_c : fieldop list }

val mapM : ('a1 -> 'a2 outcome) -> 'a1 list -> 'a2 list outcome

val analyse :
  'a1 -> 'a1 -> ('a1 -> 'a1 -> 'a1) -> ('a1 -> 'a1 -> 'a1) -> ('a1 -> 'a1 ->
  'a1) -> ('a1 -> 'a1) -> ('a1 -> bool) -> 'a1 -> bool -> bool -> 'a1
  symm_mode -> int list -> 'a1 poly -> 'a1 analysis outcome

val q_get_melem : q poly -> state -> state -> q outcome

val q_check_symmetry : bool -> int -> q poly -> q poly -> bool outcome

val q_symmetrize :
  bool -> bool -> q symm_mode -> int list -> q poly -> q symm outcome

val q_qn_of : q poly list -> state -> q list outcome

val q_sc_compute : int -> q poly list -> q qclass outcome

val q_mapsTo : int -> q qclass -> q poly -> int -> int option outcome

val q_prepare : int -> q qclass -> q poly -> fieldop outcome

val q_prepare_cdag : int -> q qclass -> int -> fieldop outcome

val q_prepare_c : int -> q qclass -> int -> fieldop outcome

val q_prepare_quad : int -> q qclass -> int -> int -> fieldop outcome

val q_analyse :
  bool -> bool -> q symm_mode -> int list -> q poly -> q analysis outcome
