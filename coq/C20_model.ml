
(** val negb : bool -> bool **)

let negb = function
| true -> false
| false -> true

(** val fst : ('a1 * 'a2) -> 'a1 **)

let fst = function
| (x, _) -> x

(** val snd : ('a1 * 'a2) -> 'a2 **)

let snd = function
| (_, y) -> y

(** val length : 'a1 list -> int **)

let rec length = function
| [] -> 0
| _ :: l' -> Stdlib.Int.succ (length l')

(** val app : 'a1 list -> 'a1 list -> 'a1 list **)

let rec app l m =
  match l with
  | [] -> m
  | a :: l1 -> a :: (app l1 m)

type comparison =
| Eq
| Lt
| Gt

(** val compOpp : comparison -> comparison **)

let compOpp = function
| Eq -> Eq
| Lt -> Gt
| Gt -> Lt

module Coq__1 = struct
 (** val add : int -> int -> int **)let rec add = (+)
end
include Coq__1

type positive =
| XI of positive
| XO of positive
| XH

type z =
| Z0
| Zpos of positive
| Zneg of positive

(** val eqb : bool -> bool -> bool **)

let eqb b1 b2 =
  if b1 then b2 else if b2 then false else true

module Nat =
 struct
  (** val ltb : int -> int -> bool **)

  let ltb n m =
    (<=) (Stdlib.Int.succ n) m
 end

module Pos =
 struct
  type mask =
  | IsNul
  | IsPos of positive
  | IsNeg
 end

module Coq_Pos =
 struct
  (** val succ : positive -> positive **)

  let rec succ = function
  | XI p -> XO (succ p)
  | XO p -> XI p
  | XH -> XO XH

  (** val add : positive -> positive -> positive **)

  let rec add x y =
    match x with
    | XI p ->
      (match y with
       | XI q0 -> XO (add_carry p q0)
       | XO q0 -> XI (add p q0)
       | XH -> XO (succ p))
    | XO p ->
      (match y with
       | XI q0 -> XI (add p q0)
       | XO q0 -> XO (add p q0)
       | XH -> XI p)
    | XH -> (match y with
             | XI q0 -> XO (succ q0)
             | XO q0 -> XI q0
             | XH -> XO XH)

  (** val add_carry : positive -> positive -> positive **)

  and add_carry x y =
    match x with
    | XI p ->
      (match y with
       | XI q0 -> XI (add_carry p q0)
       | XO q0 -> XO (add_carry p q0)
       | XH -> XI (succ p))
    | XO p ->
      (match y with
       | XI q0 -> XO (add_carry p q0)
       | XO q0 -> XI (add p q0)
       | XH -> XO (succ p))
    | XH ->
      (match y with
       | XI q0 -> XI (succ q0)
       | XO q0 -> XO (succ q0)
       | XH -> XI XH)

  (** val pred_double : positive -> positive **)

  let rec pred_double = function
  | XI p -> XI (XO p)
  | XO p -> XI (pred_double p)
  | XH -> XH

  type mask = Pos.mask =
  | IsNul
  | IsPos of positive
  | IsNeg

  (** val succ_double_mask : mask -> mask **)

  let succ_double_mask = function
  | IsNul -> IsPos XH
  | IsPos p -> IsPos (XI p)
  | IsNeg -> IsNeg

  (** val double_mask : mask -> mask **)

  let double_mask = function
  | IsPos p -> IsPos (XO p)
  | x0 -> x0

  (** val double_pred_mask : positive -> mask **)

  let double_pred_mask = function
  | XI p -> IsPos (XO (XO p))
  | XO p -> IsPos (XO (pred_double p))
  | XH -> IsNul

  (** val sub_mask : positive -> positive -> mask **)

  let rec sub_mask x y =
    match x with
    | XI p ->
      (match y with
       | XI q0 -> double_mask (sub_mask p q0)
       | XO q0 -> succ_double_mask (sub_mask p q0)
       | XH -> IsPos (XO p))
    | XO p ->
      (match y with
       | XI q0 -> succ_double_mask (sub_mask_carry p q0)
       | XO q0 -> double_mask (sub_mask p q0)
       | XH -> IsPos (pred_double p))
    | XH -> (match y with
             | XH -> IsNul
             | _ -> IsNeg)

  (** val sub_mask_carry : positive -> positive -> mask **)

  and sub_mask_carry x y =
    match x with
    | XI p ->
      (match y with
       | XI q0 -> succ_double_mask (sub_mask_carry p q0)
       | XO q0 -> double_mask (sub_mask p q0)
       | XH -> IsPos (pred_double p))
    | XO p ->
      (match y with
       | XI q0 -> double_mask (sub_mask_carry p q0)
       | XO q0 -> succ_double_mask (sub_mask_carry p q0)
       | XH -> double_pred_mask p)
    | XH -> IsNeg

  (** val sub : positive -> positive -> positive **)

  let sub x y =
    match sub_mask x y with
    | IsPos z0 -> z0
    | _ -> XH

  (** val mul : positive -> positive -> positive **)

  let rec mul x y =
    match x with
    | XI p -> add y (XO (mul p y))
    | XO p -> XO (mul p y)
    | XH -> y

  (** val size_nat : positive -> int **)

  let rec size_nat = function
  | XI p0 -> Stdlib.Int.succ (size_nat p0)
  | XO p0 -> Stdlib.Int.succ (size_nat p0)
  | XH -> Stdlib.Int.succ 0

  (** val compare_cont : comparison -> positive -> positive -> comparison **)

  let rec compare_cont r x y =
    match x with
    | XI p ->
      (match y with
       | XI q0 -> compare_cont r p q0
       | XO q0 -> compare_cont Gt p q0
       | XH -> Gt)
    | XO p ->
      (match y with
       | XI q0 -> compare_cont Lt p q0
       | XO q0 -> compare_cont r p q0
       | XH -> Gt)
    | XH -> (match y with
             | XH -> r
             | _ -> Lt)

  (** val compare : positive -> positive -> comparison **)

  let compare =
    compare_cont Eq

  (** val eqb : positive -> positive -> bool **)

  let rec eqb p q0 =
    match p with
    | XI p0 -> (match q0 with
                | XI q1 -> eqb p0 q1
                | _ -> false)
    | XO p0 -> (match q0 with
                | XO q1 -> eqb p0 q1
                | _ -> false)
    | XH -> (match q0 with
             | XH -> true
             | _ -> false)

  (** val ggcdn :
      int -> positive -> positive -> positive * (positive * positive) **)

  let rec ggcdn n a b =
    (fun fO fS n -> if n=0 then fO () else fS (n-1))
      (fun _ -> (XH, (a, b)))
      (fun n0 ->
      match a with
      | XI a' ->
        (match b with
         | XI b' ->
           (match compare a' b' with
            | Eq -> (a, (XH, XH))
            | Lt ->
              let (g, p) = ggcdn n0 (sub b' a') a in
              let (ba, aa) = p in (g, (aa, (add aa (XO ba))))
            | Gt ->
              let (g, p) = ggcdn n0 (sub a' b') b in
              let (ab, bb) = p in (g, ((add bb (XO ab)), bb)))
         | XO b0 ->
           let (g, p) = ggcdn n0 a b0 in
           let (aa, bb) = p in (g, (aa, (XO bb)))
         | XH -> (XH, (a, XH)))
      | XO a0 ->
        (match b with
         | XI _ ->
           let (g, p) = ggcdn n0 a0 b in
           let (aa, bb) = p in (g, ((XO aa), bb))
         | XO b0 -> let (g, p) = ggcdn n0 a0 b0 in ((XO g), p)
         | XH -> (XH, (a, XH)))
      | XH -> (XH, (XH, b)))
      n

  (** val ggcd : positive -> positive -> positive * (positive * positive) **)

  let ggcd a b =
    ggcdn (Coq__1.add (size_nat a) (size_nat b)) a b
 end

module Z =
 struct
  (** val double : z -> z **)

  let double = function
  | Z0 -> Z0
  | Zpos p -> Zpos (XO p)
  | Zneg p -> Zneg (XO p)

  (** val succ_double : z -> z **)

  let succ_double = function
  | Z0 -> Zpos XH
  | Zpos p -> Zpos (XI p)
  | Zneg p -> Zneg (Coq_Pos.pred_double p)

  (** val pred_double : z -> z **)

  let pred_double = function
  | Z0 -> Zneg XH
  | Zpos p -> Zpos (Coq_Pos.pred_double p)
  | Zneg p -> Zneg (XI p)

  (** val pos_sub : positive -> positive -> z **)

  let rec pos_sub x y =
    match x with
    | XI p ->
      (match y with
       | XI q0 -> double (pos_sub p q0)
       | XO q0 -> succ_double (pos_sub p q0)
       | XH -> Zpos (XO p))
    | XO p ->
      (match y with
       | XI q0 -> pred_double (pos_sub p q0)
       | XO q0 -> double (pos_sub p q0)
       | XH -> Zpos (Coq_Pos.pred_double p))
    | XH ->
      (match y with
       | XI q0 -> Zneg (XO q0)
       | XO q0 -> Zneg (Coq_Pos.pred_double q0)
       | XH -> Z0)

  (** val add : z -> z -> z **)

  let add x y =
    match x with
    | Z0 -> y
    | Zpos x' ->
      (match y with
       | Z0 -> x
       | Zpos y' -> Zpos (Coq_Pos.add x' y')
       | Zneg y' -> pos_sub x' y')
    | Zneg x' ->
      (match y with
       | Z0 -> x
       | Zpos y' -> pos_sub y' x'
       | Zneg y' -> Zneg (Coq_Pos.add x' y'))

  (** val opp : z -> z **)

  let opp = function
  | Z0 -> Z0
  | Zpos x0 -> Zneg x0
  | Zneg x0 -> Zpos x0

  (** val mul : z -> z -> z **)

  let mul x y =
    match x with
    | Z0 -> Z0
    | Zpos x' ->
      (match y with
       | Z0 -> Z0
       | Zpos y' -> Zpos (Coq_Pos.mul x' y')
       | Zneg y' -> Zneg (Coq_Pos.mul x' y'))
    | Zneg x' ->
      (match y with
       | Z0 -> Z0
       | Zpos y' -> Zneg (Coq_Pos.mul x' y')
       | Zneg y' -> Zpos (Coq_Pos.mul x' y'))

  (** val compare : z -> z -> comparison **)

  let compare x y =
    match x with
    | Z0 -> (match y with
             | Z0 -> Eq
             | Zpos _ -> Lt
             | Zneg _ -> Gt)
    | Zpos x' -> (match y with
                  | Zpos y' -> Coq_Pos.compare x' y'
                  | _ -> Gt)
    | Zneg x' ->
      (match y with
       | Zneg y' -> compOpp (Coq_Pos.compare x' y')
       | _ -> Lt)

  (** val sgn : z -> z **)

  let sgn = function
  | Z0 -> Z0
  | Zpos _ -> Zpos XH
  | Zneg _ -> Zneg XH

  (** val eqb : z -> z -> bool **)

  let eqb x y =
    match x with
    | Z0 -> (match y with
             | Z0 -> true
             | _ -> false)
    | Zpos p -> (match y with
                 | Zpos q0 -> Coq_Pos.eqb p q0
                 | _ -> false)
    | Zneg p -> (match y with
                 | Zneg q0 -> Coq_Pos.eqb p q0
                 | _ -> false)

  (** val abs : z -> z **)

  let abs = function
  | Zneg p -> Zpos p
  | x -> x

  (** val to_pos : z -> positive **)

  let to_pos = function
  | Zpos p -> p
  | _ -> XH

  (** val ggcd : z -> z -> z * (z * z) **)

  let ggcd a b =
    match a with
    | Z0 -> ((abs b), (Z0, (sgn b)))
    | Zpos a0 ->
      (match b with
       | Z0 -> ((abs a), ((sgn a), Z0))
       | Zpos b0 ->
         let (g, p) = Coq_Pos.ggcd a0 b0 in
         let (aa, bb) = p in ((Zpos g), ((Zpos aa), (Zpos bb)))
       | Zneg b0 ->
         let (g, p) = Coq_Pos.ggcd a0 b0 in
         let (aa, bb) = p in ((Zpos g), ((Zpos aa), (Zneg bb))))
    | Zneg a0 ->
      (match b with
       | Z0 -> ((abs a), ((sgn a), Z0))
       | Zpos b0 ->
         let (g, p) = Coq_Pos.ggcd a0 b0 in
         let (aa, bb) = p in ((Zpos g), ((Zneg aa), (Zpos bb)))
       | Zneg b0 ->
         let (g, p) = Coq_Pos.ggcd a0 b0 in
         let (aa, bb) = p in ((Zpos g), ((Zneg aa), (Zneg bb))))
 end

(** val zeq_bool : z -> z -> bool **)

let zeq_bool x y =
  match Z.compare x y with
  | Eq -> true
  | _ -> false

(** val fold_left : ('a1 -> 'a2 -> 'a1) -> 'a2 list -> 'a1 -> 'a1 **)

let rec fold_left f l a0 =
  match l with
  | [] -> a0
  | b :: t -> fold_left f t (f a0 b)

(** val forallb : ('a1 -> bool) -> 'a1 list -> bool **)

let rec forallb f = function
| [] -> true
| a :: l0 -> (&&) (f a) (forallb f l0)

type q = { qnum : z; qden : positive }

(** val qeq_bool : q -> q -> bool **)

let qeq_bool x y =
  zeq_bool (Z.mul x.qnum (Zpos y.qden)) (Z.mul y.qnum (Zpos x.qden))

(** val qplus : q -> q -> q **)

let qplus x y =
  { qnum = (Z.add (Z.mul x.qnum (Zpos y.qden)) (Z.mul y.qnum (Zpos x.qden)));
    qden = (Coq_Pos.mul x.qden y.qden) }

(** val qmult : q -> q -> q **)

let qmult x y =
  { qnum = (Z.mul x.qnum y.qnum); qden = (Coq_Pos.mul x.qden y.qden) }

(** val qopp : q -> q **)

let qopp x =
  { qnum = (Z.opp x.qnum); qden = x.qden }

(** val qminus : q -> q -> q **)

let qminus x y =
  qplus x (qopp y)

(** val qinv : q -> q **)

let qinv x =
  match x.qnum with
  | Z0 -> { qnum = Z0; qden = XH }
  | Zpos p -> { qnum = (Zpos x.qden); qden = p }
  | Zneg p -> { qnum = (Zneg x.qden); qden = p }

(** val qdiv : q -> q -> q **)

let qdiv x y =
  qmult x (qinv y)

(** val qred : q -> q **)

let qred q0 =
  let { qnum = q1; qden = q2 } = q0 in
  let (r1, r2) = snd (Z.ggcd q1 (Zpos q2)) in
  { qnum = r1; qden = (Z.to_pos r2) }

type 'a outcome =
| Done of 'a
| OOB
| Uninit
| Throws of int
| OutOfFuel

(** val spin_down : int **)

let spin_down =
  0

(** val spin_up : int **)

let spin_up =
  Stdlib.Int.succ 0

(** val hopping7_throws :
    ('a1 -> 'a1 -> bool) -> 'a1 -> 'a1 -> int -> int -> int -> int -> bool **)

let hopping7_throws _ _ _ _ _ _ _ =
  false

(** val hopping7_ops :
    ('a1 -> 'a1 -> bool) -> 'a1 -> 'a1 -> int -> int -> int -> int -> bool
    list **)

let hopping7_ops _ _ _ _ _ _ _ =
  true :: (false :: [])

(** val hopping7_labels :
    ('a1 -> 'a1 -> bool) -> 'a1 -> 'a1 -> int -> int -> int -> int -> 'a1 list **)

let hopping7_labels _ label1 label2 _ _ _ _ =
  label1 :: (label2 :: [])

(** val hopping7_orbitals :
    ('a1 -> 'a1 -> bool) -> 'a1 -> 'a1 -> int -> int -> int -> int -> int list **)

let hopping7_orbitals _ _ _ orbital1 orbital2 _ _ =
  orbital1 :: (orbital2 :: [])

(** val hopping7_spins :
    ('a1 -> 'a1 -> bool) -> 'a1 -> 'a1 -> int -> int -> int -> int -> int list **)

let hopping7_spins _ _ _ _ _ spin1 spin2 =
  spin1 :: (spin2 :: [])

(** val hopping5_throws :
    ('a1 -> 'a1 -> bool) -> 'a1 -> 'a1 -> int -> int -> bool **)

let hopping5_throws leqb label1 label2 orbital spin =
  hopping7_throws leqb label1 label2 orbital orbital spin spin

(** val hopping5_ops :
    ('a1 -> 'a1 -> bool) -> 'a1 -> 'a1 -> int -> int -> bool list **)

let hopping5_ops leqb label1 label2 orbital spin =
  hopping7_ops leqb label1 label2 orbital orbital spin spin

(** val hopping5_labels :
    ('a1 -> 'a1 -> bool) -> 'a1 -> 'a1 -> int -> int -> 'a1 list **)

let hopping5_labels leqb label1 label2 orbital spin =
  hopping7_labels leqb label1 label2 orbital orbital spin spin

(** val hopping5_orbitals :
    ('a1 -> 'a1 -> bool) -> 'a1 -> 'a1 -> int -> int -> int list **)

let hopping5_orbitals leqb label1 label2 orbital spin =
  hopping7_orbitals leqb label1 label2 orbital orbital spin spin

(** val hopping5_spins :
    ('a1 -> 'a1 -> bool) -> 'a1 -> 'a1 -> int -> int -> int list **)

let hopping5_spins leqb label1 label2 orbital spin =
  hopping7_spins leqb label1 label2 orbital orbital spin spin

(** val level4_throws : ('a1 -> 'a1 -> bool) -> 'a1 -> int -> int -> bool **)

let level4_throws _ _ _ _ =
  false

(** val level4_ops :
    ('a1 -> 'a1 -> bool) -> 'a1 -> int -> int -> bool list **)

let level4_ops _ _ _ _ =
  true :: (false :: [])

(** val level4_labels :
    ('a1 -> 'a1 -> bool) -> 'a1 -> int -> int -> 'a1 list **)

let level4_labels _ label _ _ =
  label :: (label :: [])

(** val level4_orbitals :
    ('a1 -> 'a1 -> bool) -> 'a1 -> int -> int -> int list **)

let level4_orbitals _ _ orbital _ =
  orbital :: (orbital :: [])

(** val level4_spins :
    ('a1 -> 'a1 -> bool) -> 'a1 -> int -> int -> int list **)

let level4_spins _ _ _ spin =
  spin :: (spin :: [])

(** val nupNdown7_throws :
    ('a1 -> 'a1 -> bool) -> 'a1 -> 'a1 -> int -> int -> int -> int -> bool **)

let nupNdown7_throws leqb label1 label2 orbital1 orbital2 spin1 spin2 =
  if (&&) ((&&) (leqb label1 label2) ((=) spin1 spin2))
       ((=) orbital1 orbital2)
  then level4_throws leqb label1 orbital1 spin1
  else false

(** val nupNdown7_ops :
    ('a1 -> 'a1 -> bool) -> 'a1 -> 'a1 -> int -> int -> int -> int -> bool
    list **)

let nupNdown7_ops leqb label1 label2 orbital1 orbital2 spin1 spin2 =
  if (&&) ((&&) (leqb label1 label2) ((=) spin1 spin2))
       ((=) orbital1 orbital2)
  then level4_ops leqb label1 orbital1 spin1
  else true :: (false :: (true :: (false :: [])))

(** val nupNdown7_labels :
    ('a1 -> 'a1 -> bool) -> 'a1 -> 'a1 -> int -> int -> int -> int -> 'a1 list **)

let nupNdown7_labels leqb label1 label2 orbital1 orbital2 spin1 spin2 =
  if (&&) ((&&) (leqb label1 label2) ((=) spin1 spin2))
       ((=) orbital1 orbital2)
  then level4_labels leqb label1 orbital1 spin1
  else label1 :: (label1 :: (label2 :: (label2 :: [])))

(** val nupNdown7_orbitals :
    ('a1 -> 'a1 -> bool) -> 'a1 -> 'a1 -> int -> int -> int -> int -> int list **)

let nupNdown7_orbitals leqb label1 label2 orbital1 orbital2 spin1 spin2 =
  if (&&) ((&&) (leqb label1 label2) ((=) spin1 spin2))
       ((=) orbital1 orbital2)
  then level4_orbitals leqb label1 orbital1 spin1
  else orbital1 :: (orbital1 :: (orbital2 :: (orbital2 :: [])))

(** val nupNdown7_spins :
    ('a1 -> 'a1 -> bool) -> 'a1 -> 'a1 -> int -> int -> int -> int -> int list **)

let nupNdown7_spins leqb label1 label2 orbital1 orbital2 spin1 spin2 =
  if (&&) ((&&) (leqb label1 label2) ((=) spin1 spin2))
       ((=) orbital1 orbital2)
  then level4_spins leqb label1 orbital1 spin1
  else spin1 :: (spin1 :: (spin2 :: (spin2 :: [])))

(** val nupNdown6_throws :
    ('a1 -> 'a1 -> bool) -> 'a1 -> int -> int -> int -> int -> bool **)

let nupNdown6_throws leqb label orbital1 orbital2 spin1 spin2 =
  nupNdown7_throws leqb label label orbital1 orbital2 spin1 spin2

(** val nupNdown6_ops :
    ('a1 -> 'a1 -> bool) -> 'a1 -> int -> int -> int -> int -> bool list **)

let nupNdown6_ops leqb label orbital1 orbital2 spin1 spin2 =
  nupNdown7_ops leqb label label orbital1 orbital2 spin1 spin2

(** val nupNdown6_labels :
    ('a1 -> 'a1 -> bool) -> 'a1 -> int -> int -> int -> int -> 'a1 list **)

let nupNdown6_labels leqb label orbital1 orbital2 spin1 spin2 =
  nupNdown7_labels leqb label label orbital1 orbital2 spin1 spin2

(** val nupNdown6_orbitals :
    ('a1 -> 'a1 -> bool) -> 'a1 -> int -> int -> int -> int -> int list **)

let nupNdown6_orbitals leqb label orbital1 orbital2 spin1 spin2 =
  nupNdown7_orbitals leqb label label orbital1 orbital2 spin1 spin2

(** val nupNdown6_spins :
    ('a1 -> 'a1 -> bool) -> 'a1 -> int -> int -> int -> int -> int list **)

let nupNdown6_spins leqb label orbital1 orbital2 spin1 spin2 =
  nupNdown7_spins leqb label label orbital1 orbital2 spin1 spin2

(** val nupNdown4_throws :
    ('a1 -> 'a1 -> bool) -> 'a1 -> int -> int -> bool **)

let nupNdown4_throws leqb label orbital1 orbital2 =
  nupNdown7_throws leqb label label orbital1 orbital2 spin_up spin_down

(** val nupNdown4_ops :
    ('a1 -> 'a1 -> bool) -> 'a1 -> int -> int -> bool list **)

let nupNdown4_ops leqb label orbital1 orbital2 =
  nupNdown7_ops leqb label label orbital1 orbital2 spin_up spin_down

(** val nupNdown4_labels :
    ('a1 -> 'a1 -> bool) -> 'a1 -> int -> int -> 'a1 list **)

let nupNdown4_labels leqb label orbital1 orbital2 =
  nupNdown7_labels leqb label label orbital1 orbital2 spin_up spin_down

(** val nupNdown4_orbitals :
    ('a1 -> 'a1 -> bool) -> 'a1 -> int -> int -> int list **)

let nupNdown4_orbitals leqb label orbital1 orbital2 =
  nupNdown7_orbitals leqb label label orbital1 orbital2 spin_up spin_down

(** val nupNdown4_spins :
    ('a1 -> 'a1 -> bool) -> 'a1 -> int -> int -> int list **)

let nupNdown4_spins leqb label orbital1 orbital2 =
  nupNdown7_spins leqb label label orbital1 orbital2 spin_up spin_down

(** val nupNdown5_throws :
    ('a1 -> 'a1 -> bool) -> 'a1 -> int -> int -> int -> bool **)

let nupNdown5_throws leqb label orbital spin1 spin2 =
  nupNdown7_throws leqb label label orbital orbital spin1 spin2

(** val nupNdown5_ops :
    ('a1 -> 'a1 -> bool) -> 'a1 -> int -> int -> int -> bool list **)

let nupNdown5_ops leqb label orbital spin1 spin2 =
  nupNdown7_ops leqb label label orbital orbital spin1 spin2

(** val nupNdown5_labels :
    ('a1 -> 'a1 -> bool) -> 'a1 -> int -> int -> int -> 'a1 list **)

let nupNdown5_labels leqb label orbital spin1 spin2 =
  nupNdown7_labels leqb label label orbital orbital spin1 spin2

(** val nupNdown5_orbitals :
    ('a1 -> 'a1 -> bool) -> 'a1 -> int -> int -> int -> int list **)

let nupNdown5_orbitals leqb label orbital spin1 spin2 =
  nupNdown7_orbitals leqb label label orbital orbital spin1 spin2

(** val nupNdown5_spins :
    ('a1 -> 'a1 -> bool) -> 'a1 -> int -> int -> int -> int list **)

let nupNdown5_spins leqb label orbital spin1 spin2 =
  nupNdown7_spins leqb label label orbital orbital spin1 spin2

(** val nupNdown5_default_spin1 : int **)

let nupNdown5_default_spin1 =
  spin_up

(** val nupNdown5_default_spin2 : int **)

let nupNdown5_default_spin2 =
  spin_down

(** val spinflip6_throws :
    ('a1 -> 'a1 -> bool) -> 'a1 -> int -> int -> int -> int -> bool **)

let spinflip6_throws _ _ orbital1 orbital2 spin1 spin2 =
  (||) ((=) orbital1 orbital2) ((=) spin1 spin2)

(** val spinflip6_ops :
    ('a1 -> 'a1 -> bool) -> 'a1 -> int -> int -> int -> int -> bool list **)

let spinflip6_ops _ _ _ _ _ _ =
  true :: (true :: (false :: (false :: [])))

(** val spinflip6_labels :
    ('a1 -> 'a1 -> bool) -> 'a1 -> int -> int -> int -> int -> 'a1 list **)

let spinflip6_labels _ label _ _ _ _ =
  label :: (label :: (label :: (label :: [])))

(** val spinflip6_orbitals :
    ('a1 -> 'a1 -> bool) -> 'a1 -> int -> int -> int -> int -> int list **)

let spinflip6_orbitals _ _ orbital1 orbital2 _ _ =
  orbital1 :: (orbital2 :: (orbital2 :: (orbital1 :: [])))

(** val spinflip6_spins :
    ('a1 -> 'a1 -> bool) -> 'a1 -> int -> int -> int -> int -> int list **)

let spinflip6_spins _ _ _ _ spin1 spin2 =
  spin1 :: (spin2 :: (spin1 :: (spin2 :: [])))

(** val spinflip6_default_spin1 : int **)

let spinflip6_default_spin1 =
  spin_up

(** val spinflip6_default_spin2 : int **)

let spinflip6_default_spin2 =
  spin_down

(** val pairHopping6_throws :
    ('a1 -> 'a1 -> bool) -> 'a1 -> int -> int -> int -> int -> bool **)

let pairHopping6_throws _ _ orbital1 orbital2 spin1 spin2 =
  (||) ((=) orbital1 orbital2) ((=) spin1 spin2)

(** val pairHopping6_ops :
    ('a1 -> 'a1 -> bool) -> 'a1 -> int -> int -> int -> int -> bool list **)

let pairHopping6_ops _ _ _ _ _ _ =
  true :: (true :: (false :: (false :: [])))

(** val pairHopping6_labels :
    ('a1 -> 'a1 -> bool) -> 'a1 -> int -> int -> int -> int -> 'a1 list **)

let pairHopping6_labels _ label _ _ _ _ =
  label :: (label :: (label :: (label :: [])))

(** val pairHopping6_orbitals :
    ('a1 -> 'a1 -> bool) -> 'a1 -> int -> int -> int -> int -> int list **)

let pairHopping6_orbitals _ _ orbital1 orbital2 _ _ =
  orbital1 :: (orbital1 :: (orbital2 :: (orbital2 :: [])))

(** val pairHopping6_spins :
    ('a1 -> 'a1 -> bool) -> 'a1 -> int -> int -> int -> int -> int list **)

let pairHopping6_spins _ _ _ _ spin1 spin2 =
  spin1 :: (spin2 :: (spin1 :: (spin2 :: [])))

(** val pairHopping6_default_spin1 : int **)

let pairHopping6_default_spin1 =
  spin_up

(** val pairHopping6_default_spin2 : int **)

let pairHopping6_default_spin2 =
  spin_down

(** val splusSminus4_throws :
    ('a1 -> 'a1 -> bool) -> 'a1 -> 'a1 -> int -> bool **)

let splusSminus4_throws _ _ _ _ =
  false

(** val splusSminus4_ops :
    ('a1 -> 'a1 -> bool) -> 'a1 -> 'a1 -> int -> bool list **)

let splusSminus4_ops _ _ _ _ =
  true :: (false :: (true :: (false :: [])))

(** val splusSminus4_labels :
    ('a1 -> 'a1 -> bool) -> 'a1 -> 'a1 -> int -> 'a1 list **)

let splusSminus4_labels _ label1 label2 _ =
  label1 :: (label1 :: (label2 :: (label2 :: [])))

(** val splusSminus4_orbitals :
    ('a1 -> 'a1 -> bool) -> 'a1 -> 'a1 -> int -> int list **)

let splusSminus4_orbitals _ _ _ orbital =
  orbital :: (orbital :: (orbital :: (orbital :: [])))

(** val splusSminus4_spins :
    ('a1 -> 'a1 -> bool) -> 'a1 -> 'a1 -> int -> int list **)

let splusSminus4_spins _ _ _ _ =
  spin_up :: (spin_down :: (spin_down :: (spin_up :: [])))

(** val sminusSplus4_throws :
    ('a1 -> 'a1 -> bool) -> 'a1 -> 'a1 -> int -> bool **)

let sminusSplus4_throws =
  splusSminus4_throws

(** val sminusSplus4_ops :
    ('a1 -> 'a1 -> bool) -> 'a1 -> 'a1 -> int -> bool list **)

let sminusSplus4_ops =
  splusSminus4_ops

(** val sminusSplus4_labels :
    ('a1 -> 'a1 -> bool) -> 'a1 -> 'a1 -> int -> 'a1 list **)

let sminusSplus4_labels =
  splusSminus4_labels

(** val sminusSplus4_orbitals :
    ('a1 -> 'a1 -> bool) -> 'a1 -> 'a1 -> int -> int list **)

let sminusSplus4_orbitals =
  splusSminus4_orbitals

(** val sminusSplus4_spins :
    ('a1 -> 'a1 -> bool) -> 'a1 -> 'a1 -> int -> int list **)

let sminusSplus4_spins _ _ _ _ =
  spin_down :: (spin_up :: (spin_up :: (spin_down :: [])))

(** val exWrongLabel : int **)

let exWrongLabel =
  Stdlib.Int.succ 0

(** val exWrongIndices : int **)

let exWrongIndices =
  Stdlib.Int.succ (Stdlib.Int.succ 0)

type config = { fix_getsite : bool; fix_shapecheck : bool }

(** val as_is : config **)

let as_is =
  { fix_getsite = false; fix_shapecheck = false }

(** val repaired : config **)

let repaired =
  { fix_getsite = true; fix_shapecheck = true }

type 'v vops = { vnz : ('v -> bool); veqb : ('v -> 'v -> bool);
                 vneg : ('v -> 'v); vsub : ('v -> 'v -> 'v);
                 vhalf : ('v -> 'v); vquart : ('v -> 'v); vdbl : ('v -> 'v);
                 vconj : ('v -> 'v) }

type ('l, 'v) term = { t_ops : bool list; t_labels : 'l list;
                       t_orbs : int list; t_spins : int list; t_val : 
                       'v }

(** val t_order : ('a1, 'a2) term -> int **)

let t_order t =
  length t.t_ops

type shape = int * int

type ('l, 'v) obs =
| ONone
| OSite of shape
| OTerms of ('l, 'v) term list
| ONat of int

type 'l site_map = ('l * shape) list

(** val find_site :
    ('a1 -> 'a1 -> bool) -> 'a1 -> 'a1 site_map -> shape option **)

let rec find_site leqb l = function
| [] -> None
| p :: m' ->
  let (k, s) = p in if leqb l k then Some s else find_site leqb l m'

(** val set_site :
    ('a1 -> 'a1 -> bool) -> 'a1 -> shape -> 'a1 site_map -> 'a1 site_map **)

let rec set_site leqb l s = function
| [] -> (l, s) :: []
| p :: m' ->
  let (k, s0) = p in
  if leqb l k then (l, s) :: m' else (k, s0) :: (set_site leqb l s m')

type ('l, 'v) term_map = (int * ('l, 'v) term list) list

(** val tm_get : int -> ('a1, 'a2) term_map -> ('a1, 'a2) term list **)

let rec tm_get n = function
| [] -> []
| p :: m' -> let (k, l) = p in if (=) k n then l else tm_get n m'

(** val tm_push :
    int -> ('a1, 'a2) term -> ('a1, 'a2) term_map -> ('a1, 'a2) term_map **)

let rec tm_push n t = function
| [] -> (n, (t :: [])) :: []
| p :: m' ->
  let (k, l) = p in
  if (=) k n then (k, (app l (t :: []))) :: m' else (k, l) :: (tm_push n t m')

type ('l, 'v) state = { sites : 'l site_map; terms : ('l, 'v) term_map;
                        maxorder : int }

(** val init : ('a1, 'a2) state **)

let init =
  { sites = []; terms = []; maxorder = 0 }

(** val ts_add : ('a1, 'a2) term -> ('a1, 'a2) state -> ('a1, 'a2) state **)

let ts_add t st =
  let n = t_order t in
  { sites = st.sites; terms = (tm_push n t st.terms); maxorder =
  (if Nat.ltb st.maxorder n then n else st.maxorder) }

(** val push_all :
    ('a1, 'a2) term list -> ('a1, 'a2) state -> ('a1, 'a2) state **)

let push_all ts st =
  fold_left (fun s t -> ts_add t s) ts st

(** val getTerms : ('a1, 'a2) state -> int -> ('a1, 'a2) term list **)

let getTerms st n =
  tm_get n st.terms

type ('l, 'v) w = ('l, 'v) term list * unit outcome

(** val wret : ('a1, 'a2) w **)

let wret =
  ([], (Done ()))

(** val wthrow : int -> ('a1, 'a2) w **)

let wthrow c =
  ([], (Throws c))

(** val woob : ('a1, 'a2) w **)

let woob =
  ([], OOB)

(** val wpush : ('a1, 'a2) term -> ('a1, 'a2) w **)

let wpush t =
  ((t :: []), (Done ()))

(** val wseq : ('a1, 'a2) w -> ('a1, 'a2) w -> ('a1, 'a2) w **)

let wseq a b =
  match snd a with
  | Done _ -> ((app (fst a) (fst b)), (snd b))
  | _ -> a

(** val wwhen : bool -> ('a1, 'a2) w -> ('a1, 'a2) w **)

let wwhen c a =
  if c then a else wret

(** val wfor_from : int -> int -> (int -> ('a1, 'a2) w) -> ('a1, 'a2) w **)

let rec wfor_from k i body =
  (fun fO fS n -> if n=0 then fO () else fS (n-1))
    (fun _ -> wret)
    (fun k' -> wseq (body i) (wfor_from k' (Stdlib.Int.succ i) body))
    k

(** val wfor : int -> (int -> ('a1, 'a2) w) -> ('a1, 'a2) w **)

let wfor n body =
  wfor_from n 0 body

(** val validate :
    ('a1 -> 'a1 -> bool) -> 'a1 site_map -> int -> 'a1 list -> int list ->
    int list -> unit outcome **)

let rec validate leqb m n ls os ss =
  (fun fO fS n -> if n=0 then fO () else fS (n-1))
    (fun _ -> Done ())
    (fun n' ->
    match ls with
    | [] -> OOB
    | l :: ls' ->
      (match os with
       | [] -> OOB
       | o :: os' ->
         (match ss with
          | [] -> OOB
          | s :: ss' ->
            (match find_site leqb l m with
             | Some s0 ->
               let (norb, nspin) = s0 in
               if (<=) norb o
               then Throws exWrongLabel
               else if (<=) nspin s
                    then Throws exWrongLabel
                    else validate leqb m n' ls' os' ss'
             | None -> Throws exWrongLabel))))
    n

(** val w_addTerm :
    ('a1 -> 'a1 -> bool) -> 'a2 vops -> 'a1 site_map -> ('a1, 'a2) term ->
    ('a1, 'a2) w **)

let w_addTerm leqb vo m t =
  match validate leqb m (t_order t) t.t_labels t.t_orbs t.t_spins with
  | Done _ -> wwhen (vo.vnz t.t_val) (wpush t)
  | Throws c -> wthrow c
  | _ -> woob

type ('l, 'v) fcall =
| FHopping7 of 'l * 'l * 'v * int * int * int * int
| FHopping5 of 'l * 'l * 'v * int * int
| FLevel4 of 'l * 'v * int * int
| FNupNdown7 of 'l * 'l * 'v * int * int * int * int
| FNupNdown6 of 'l * 'v * int * int * int * int
| FNupNdown4 of 'l * 'v * int * int
| FNupNdown5 of 'l * 'v * int * int * int
| FSpinflip6 of 'l * 'v * int * int * int * int
| FPairHopping6 of 'l * 'v * int * int * int * int
| FSplusSminus4 of 'l * 'l * 'v * int
| FSminusSplus4 of 'l * 'l * 'v * int

(** val mk :
    bool -> bool list -> 'a1 list -> int list -> int list -> 'a2 -> ('a1,
    'a2) term outcome **)

let mk throws ops ls os ss v =
  if throws
  then Throws exWrongIndices
  else Done { t_ops = ops; t_labels = ls; t_orbs = os; t_spins = ss; t_val =
         v }

(** val factory :
    ('a1 -> 'a1 -> bool) -> ('a1, 'a2) fcall -> ('a1, 'a2) term outcome **)

let factory leqb = function
| FHopping7 (l1, l2, v, o1, o2, s1, s2) ->
  mk (hopping7_throws leqb l1 l2 o1 o2 s1 s2)
    (hopping7_ops leqb l1 l2 o1 o2 s1 s2)
    (hopping7_labels leqb l1 l2 o1 o2 s1 s2)
    (hopping7_orbitals leqb l1 l2 o1 o2 s1 s2)
    (hopping7_spins leqb l1 l2 o1 o2 s1 s2) v
| FHopping5 (l1, l2, v, o, s) ->
  mk (hopping5_throws leqb l1 l2 o s) (hopping5_ops leqb l1 l2 o s)
    (hopping5_labels leqb l1 l2 o s) (hopping5_orbitals leqb l1 l2 o s)
    (hopping5_spins leqb l1 l2 o s) v
| FLevel4 (l, v, o, s) ->
  mk (level4_throws leqb l o s) (level4_ops leqb l o s)
    (level4_labels leqb l o s) (level4_orbitals leqb l o s)
    (level4_spins leqb l o s) v
| FNupNdown7 (l1, l2, v, o1, o2, s1, s2) ->
  mk (nupNdown7_throws leqb l1 l2 o1 o2 s1 s2)
    (nupNdown7_ops leqb l1 l2 o1 o2 s1 s2)
    (nupNdown7_labels leqb l1 l2 o1 o2 s1 s2)
    (nupNdown7_orbitals leqb l1 l2 o1 o2 s1 s2)
    (nupNdown7_spins leqb l1 l2 o1 o2 s1 s2) v
| FNupNdown6 (l, v, o1, o2, s1, s2) ->
  mk (nupNdown6_throws leqb l o1 o2 s1 s2) (nupNdown6_ops leqb l o1 o2 s1 s2)
    (nupNdown6_labels leqb l o1 o2 s1 s2)
    (nupNdown6_orbitals leqb l o1 o2 s1 s2)
    (nupNdown6_spins leqb l o1 o2 s1 s2) v
| FNupNdown4 (l, v, o1, o2) ->
  mk (nupNdown4_throws leqb l o1 o2) (nupNdown4_ops leqb l o1 o2)
    (nupNdown4_labels leqb l o1 o2) (nupNdown4_orbitals leqb l o1 o2)
    (nupNdown4_spins leqb l o1 o2) v
| FNupNdown5 (l, v, o, s1, s2) ->
  mk (nupNdown5_throws leqb l o s1 s2) (nupNdown5_ops leqb l o s1 s2)
    (nupNdown5_labels leqb l o s1 s2) (nupNdown5_orbitals leqb l o s1 s2)
    (nupNdown5_spins leqb l o s1 s2) v
| FSpinflip6 (l, v, o1, o2, s1, s2) ->
  mk (spinflip6_throws leqb l o1 o2 s1 s2) (spinflip6_ops leqb l o1 o2 s1 s2)
    (spinflip6_labels leqb l o1 o2 s1 s2)
    (spinflip6_orbitals leqb l o1 o2 s1 s2)
    (spinflip6_spins leqb l o1 o2 s1 s2) v
| FPairHopping6 (l, v, o1, o2, s1, s2) ->
  mk (pairHopping6_throws leqb l o1 o2 s1 s2)
    (pairHopping6_ops leqb l o1 o2 s1 s2)
    (pairHopping6_labels leqb l o1 o2 s1 s2)
    (pairHopping6_orbitals leqb l o1 o2 s1 s2)
    (pairHopping6_spins leqb l o1 o2 s1 s2) v
| FSplusSminus4 (l1, l2, v, o) ->
  mk (splusSminus4_throws leqb l1 l2 o) (splusSminus4_ops leqb l1 l2 o)
    (splusSminus4_labels leqb l1 l2 o) (splusSminus4_orbitals leqb l1 l2 o)
    (splusSminus4_spins leqb l1 l2 o) v
| FSminusSplus4 (l1, l2, v, o) ->
  mk (sminusSplus4_throws leqb l1 l2 o) (sminusSplus4_ops leqb l1 l2 o)
    (sminusSplus4_labels leqb l1 l2 o) (sminusSplus4_orbitals leqb l1 l2 o)
    (sminusSplus4_spins leqb l1 l2 o) v

(** val fNupNdown3 : 'a1 -> 'a2 -> int -> ('a1, 'a2) fcall **)

let fNupNdown3 l v o =
  FNupNdown5 (l, v, o, nupNdown5_default_spin1, nupNdown5_default_spin2)

(** val fSpinflip4 : 'a1 -> 'a2 -> int -> int -> ('a1, 'a2) fcall **)

let fSpinflip4 l v o1 o2 =
  FSpinflip6 (l, v, o1, o2, spinflip6_default_spin1, spinflip6_default_spin2)

(** val fPairHopping4 : 'a1 -> 'a2 -> int -> int -> ('a1, 'a2) fcall **)

let fPairHopping4 l v o1 o2 =
  FPairHopping6 (l, v, o1, o2, pairHopping6_default_spin1,
    pairHopping6_default_spin2)

(** val wpush_f : ('a1 -> 'a1 -> bool) -> ('a1, 'a2) fcall -> ('a1, 'a2) w **)

let wpush_f leqb f =
  match factory leqb f with
  | Done t -> wpush t
  | Throws c -> wthrow c
  | _ -> woob

(** val wadd_f :
    ('a1 -> 'a1 -> bool) -> 'a2 vops -> 'a1 site_map -> ('a1, 'a2) fcall ->
    ('a1, 'a2) w **)

let wadd_f leqb vo m f =
  match factory leqb f with
  | Done t -> w_addTerm leqb vo m t
  | Throws c -> wthrow c
  | _ -> woob

(** val addCoulombS :
    ('a1 -> 'a1 -> bool) -> 'a2 vops -> 'a1 site_map -> 'a1 -> 'a2 -> 'a2 ->
    ('a1, 'a2) w **)

let addCoulombS leqb vo m l u lev =
  match find_site leqb l m with
  | Some s ->
    let (norb, nspin) = s in
    wfor norb (fun i ->
      wfor nspin (fun z1 ->
        wseq (wwhen (vo.vnz lev) (wpush_f leqb (FLevel4 (l, lev, i, z1))))
          (wfor z1 (fun z2 ->
            wwhen (vo.vnz u) (wpush_f leqb (FNupNdown6 (l, u, i, i, z1, z2)))))))
  | None -> wthrow exWrongLabel

(** val addCoulombP :
    ('a1 -> 'a1 -> bool) -> 'a2 vops -> 'a1 site_map -> 'a1 -> 'a2 -> 'a2 ->
    'a2 -> 'a2 -> ('a1, 'a2) w **)

let addCoulombP leqb vo m l u up j lev =
  match find_site leqb l m with
  | Some s ->
    let (norb, nspin) = s in
    if (||) ((<=) norb (Stdlib.Int.succ 0)) ((<=) nspin (Stdlib.Int.succ 0))
    then wthrow exWrongIndices
    else wfor norb (fun i ->
           wfor nspin (fun z1 ->
             wseq
               (wwhen (vo.vnz lev) (wpush_f leqb (FLevel4 (l, lev, i, z1))))
               (wseq
                 (wfor norb (fun j0 ->
                   wwhen (negb ((=) i j0))
                     (wpush_f leqb (FNupNdown6 (l, (vo.vhalf (vo.vsub up j)),
                       i, j0, z1, z1)))))
                 (wfor z1 (fun z2 ->
                   wseq
                     (wwhen (vo.vnz u)
                       (wpush_f leqb (FNupNdown6 (l, u, i, i, z1, z2))))
                     (wfor norb (fun j0 ->
                       wwhen (negb ((=) i j0))
                         (wseq
                           (wwhen (vo.vnz up)
                             (wpush_f leqb (FNupNdown6 (l, up, i, j0, z1,
                               z2))))
                           (wwhen (vo.vnz j)
                             (wseq
                               (wpush_f leqb (FSpinflip6 (l, (vo.vneg j), i,
                                 j0, z1, z2)))
                               (wpush_f leqb (FPairHopping6 (l, (vo.vneg j),
                                 i, j0, z1, z2)))))))))))))
  | None -> wthrow exWrongLabel

(** val addCoulombP3 :
    ('a1 -> 'a1 -> bool) -> 'a2 vops -> 'a1 site_map -> 'a1 -> 'a2 -> 'a2 ->
    'a2 -> ('a1, 'a2) w **)

let addCoulombP3 leqb vo m l u j lev =
  addCoulombP leqb vo m l u (vo.vsub u (vo.vdbl j)) j lev

(** val addLevel :
    ('a1 -> 'a1 -> bool) -> 'a2 vops -> 'a1 site_map -> 'a1 -> 'a2 -> ('a1,
    'a2) w **)

let addLevel leqb vo m l lev =
  match find_site leqb l m with
  | Some s ->
    let (norb, nspin) = s in
    wfor norb (fun i ->
      wfor nspin (fun z0 ->
        wwhen (vo.vnz lev) (wpush_f leqb (FLevel4 (l, lev, i, z0)))))
  | None -> wthrow exWrongLabel

(** val addMagnetization :
    ('a1 -> 'a1 -> bool) -> 'a2 vops -> 'a1 site_map -> 'a1 -> 'a2 -> ('a1,
    'a2) w **)

let addMagnetization leqb vo m l mag =
  match find_site leqb l m with
  | Some s ->
    let (norb, nspin) = s in
    if negb ((=) nspin (Stdlib.Int.succ (Stdlib.Int.succ 0)))
    then wthrow exWrongIndices
    else wfor norb (fun i ->
           wseq (wpush_f leqb (FLevel4 (l, mag, i, spin_up)))
             (wpush_f leqb (FLevel4 (l, (vo.vneg mag), i, spin_down))))
  | None -> wthrow exWrongLabel

(** val cmp_spins : config -> shape -> shape -> int **)

let cmp_spins cfg sh1 sh2 =
  if cfg.fix_shapecheck then snd sh2 else snd sh1

(** val addSzSz :
    ('a1 -> 'a1 -> bool) -> 'a2 vops -> config -> 'a1 site_map -> 'a1 -> 'a1
    -> 'a2 -> ('a1, 'a2) w **)

let addSzSz leqb vo cfg m l1 l2 j =
  match find_site leqb l1 m with
  | Some sh1 ->
    (match find_site leqb l2 m with
     | Some sh2 ->
       let norb = fst sh1 in
       let nspin = snd sh1 in
       if (||) (negb ((=) norb (fst sh2)))
            (negb ((=) nspin (cmp_spins cfg sh1 sh2)))
       then wthrow exWrongIndices
       else if negb ((=) nspin (Stdlib.Int.succ (Stdlib.Int.succ 0)))
            then wthrow exWrongLabel
            else wfor norb (fun i ->
                   wseq
                     (wpush_f leqb (FNupNdown7 (l1, l2,
                       (vo.vquart (vo.vneg j)), i, i, spin_up, spin_down)))
                     (wseq
                       (wpush_f leqb (FNupNdown7 (l1, l2,
                         (vo.vquart (vo.vneg j)), i, i, spin_down, spin_up)))
                       (if negb (leqb l1 l2)
                        then wseq
                               (wpush_f leqb (FNupNdown7 (l1, l2,
                                 (vo.vquart j), i, i, spin_up, spin_up)))
                               (wpush_f leqb (FNupNdown7 (l1, l2,
                                 (vo.vquart j), i, i, spin_down, spin_down)))
                        else wseq
                               (wpush_f leqb (FLevel4 (l1, (vo.vquart j), i,
                                 spin_up)))
                               (wpush_f leqb (FLevel4 (l1, (vo.vquart j), i,
                                 spin_down))))))
     | None -> wthrow exWrongLabel)
  | None -> wthrow exWrongLabel

(** val addSS :
    ('a1 -> 'a1 -> bool) -> 'a2 vops -> config -> 'a1 site_map -> 'a1 -> 'a1
    -> 'a2 -> ('a1, 'a2) w **)

let addSS leqb vo cfg m l1 l2 j =
  match find_site leqb l1 m with
  | Some sh1 ->
    (match find_site leqb l2 m with
     | Some sh2 ->
       let norb = fst sh1 in
       let nspin = snd sh1 in
       if (||) (negb ((=) norb (fst sh2)))
            (negb ((=) nspin (cmp_spins cfg sh1 sh2)))
       then wthrow exWrongIndices
       else if negb ((=) nspin (Stdlib.Int.succ (Stdlib.Int.succ 0)))
            then wthrow exWrongLabel
            else wseq (addSzSz leqb vo cfg m l1 l2 j)
                   (wfor norb (fun i ->
                     wseq
                       (wpush_f leqb (FSplusSminus4 (l1, l2, (vo.vhalf j),
                         i)))
                       (wpush_f leqb (FSminusSplus4 (l1, l2, (vo.vhalf j),
                         i)))))
     | None -> wthrow exWrongLabel)
  | None -> wthrow exWrongLabel

(** val addHopping8 :
    ('a1 -> 'a1 -> bool) -> 'a2 vops -> 'a1 site_map -> 'a1 -> 'a1 -> 'a2 ->
    int -> int -> int -> int -> ('a1, 'a2) w **)

let addHopping8 leqb vo m l1 l2 t o1 o2 s1 s2 =
  match find_site leqb l1 m with
  | Some sh1 ->
    (match find_site leqb l2 m with
     | Some sh2 ->
       if (||)
            ((||) ((||) ((<=) (fst sh1) o1) ((<=) (fst sh2) o2))
              ((<=) (snd sh1) s1)) ((<=) (snd sh2) s2)
       then wthrow exWrongIndices
       else wseq (wadd_f leqb vo m (FHopping7 (l1, l2, t, o1, o2, s1, s2)))
              (wadd_f leqb vo m (FHopping7 (l2, l1, (vo.vconj t), o2, o1, s2,
                s1)))
     | None -> wthrow exWrongLabel)
  | None -> wthrow exWrongLabel

(** val addHopping7 :
    ('a1 -> 'a1 -> bool) -> 'a2 vops -> 'a1 site_map -> 'a1 -> 'a1 -> 'a2 ->
    int -> int -> int -> ('a1, 'a2) w **)

let addHopping7 leqb vo m l1 l2 t o1 o2 s =
  addHopping8 leqb vo m l1 l2 t o1 o2 s s

(** val addHopping6 :
    ('a1 -> 'a1 -> bool) -> 'a2 vops -> config -> 'a1 site_map -> 'a1 -> 'a1
    -> 'a2 -> int -> int -> ('a1, 'a2) w **)

let addHopping6 leqb vo cfg m l1 l2 t o1 o2 =
  match find_site leqb l1 m with
  | Some sh1 ->
    (match find_site leqb l2 m with
     | Some sh2 ->
       if (||) ((<=) (fst sh1) o1) ((<=) (fst sh2) o2)
       then wthrow exWrongIndices
       else let nspin = snd sh1 in
            if negb ((=) nspin (cmp_spins cfg sh1 sh2))
            then wthrow exWrongIndices
            else wfor nspin (fun z0 ->
                   addHopping8 leqb vo m l1 l2 t o1 o2 z0 z0)
     | None -> wthrow exWrongLabel)
  | None -> wthrow exWrongLabel

(** val addHopping4 :
    ('a1 -> 'a1 -> bool) -> 'a2 vops -> config -> 'a1 site_map -> 'a1 -> 'a1
    -> 'a2 -> ('a1, 'a2) w **)

let addHopping4 leqb vo cfg m l1 l2 t =
  match find_site leqb l1 m with
  | Some sh1 ->
    (match find_site leqb l2 m with
     | Some sh2 ->
       let norb = fst sh1 in
       let nspin = snd sh1 in
       if (||) (negb ((=) norb (fst sh2)))
            (negb ((=) nspin (cmp_spins cfg sh1 sh2)))
       then wthrow exWrongIndices
       else wfor nspin (fun z0 ->
              wfor norb (fun i -> addHopping8 leqb vo m l1 l2 t i i z0 z0))
     | None -> wthrow exWrongLabel)
  | None -> wthrow exWrongLabel

type ('l, 'v) pcall =
| PCoulombS of 'l * 'v * 'v
| PCoulombP of 'l * 'v * 'v * 'v * 'v
| PCoulombP3 of 'l * 'v * 'v * 'v
| PLevel of 'l * 'v
| PMagnetization of 'l * 'v
| PSzSz of 'l * 'l * 'v
| PSS of 'l * 'l * 'v
| PHopping8 of 'l * 'l * 'v * int * int * int * int
| PHopping7 of 'l * 'l * 'v * int * int * int
| PHopping6 of 'l * 'l * 'v * int * int
| PHopping4 of 'l * 'l * 'v

(** val preset :
    ('a1 -> 'a1 -> bool) -> 'a2 vops -> config -> 'a1 site_map -> ('a1, 'a2)
    pcall -> ('a1, 'a2) w **)

let preset leqb vo cfg m = function
| PCoulombS (l, u, lev) -> addCoulombS leqb vo m l u lev
| PCoulombP (l, u, up, j, lev) -> addCoulombP leqb vo m l u up j lev
| PCoulombP3 (l, u, j, lev) -> addCoulombP3 leqb vo m l u j lev
| PLevel (l, lev) -> addLevel leqb vo m l lev
| PMagnetization (l, mag) -> addMagnetization leqb vo m l mag
| PSzSz (l1, l2, j) -> addSzSz leqb vo cfg m l1 l2 j
| PSS (l1, l2, j) -> addSS leqb vo cfg m l1 l2 j
| PHopping8 (l1, l2, t, o1, o2, s1, s2) ->
  addHopping8 leqb vo m l1 l2 t o1 o2 s1 s2
| PHopping7 (l1, l2, t, o1, o2, s) -> addHopping7 leqb vo m l1 l2 t o1 o2 s
| PHopping6 (l1, l2, t, o1, o2) -> addHopping6 leqb vo cfg m l1 l2 t o1 o2
| PHopping4 (l1, l2, t) -> addHopping4 leqb vo cfg m l1 l2 t

(** val getSite :
    ('a1 -> 'a1 -> bool) -> config -> ('a1, 'a2) state -> 'a1 -> ('a1, 'a2)
    obs outcome **)

let getSite leqb cfg st l =
  match find_site leqb l st.sites with
  | Some s -> if cfg.fix_getsite then Done (OSite s) else Throws exWrongLabel
  | None -> if cfg.fix_getsite then Throws exWrongLabel else OOB

(** val copy : ('a1, 'a2) state -> ('a1, 'a2) state **)

let copy st =
  { sites = st.sites; terms = st.terms; maxorder = st.maxorder }

type ('l, 'v) op =
| AddSite of 'l * int * int
| AddTerm of ('l, 'v) term
| AddFactoryTerm of ('l, 'v) fcall
| Preset of ('l, 'v) pcall
| GetSite of 'l
| GetTerms of int
| MaxOrder
| Copy

(** val effect :
    ('a1 -> 'a1 -> bool) -> 'a2 vops -> config -> 'a1 site_map -> ('a1, 'a2)
    op -> ('a1, 'a2) w **)

let effect leqb vo cfg m = function
| AddTerm t -> w_addTerm leqb vo m t
| AddFactoryTerm f -> wadd_f leqb vo m f
| Preset p -> preset leqb vo cfg m p
| _ -> wret

(** val result_of : unit outcome -> ('a1, 'a2) obs outcome **)

let result_of = function
| Done _ -> Done ONone
| OOB -> OOB
| Uninit -> Uninit
| Throws c -> Throws c
| OutOfFuel -> OutOfFuel

(** val step :
    ('a1 -> 'a1 -> bool) -> 'a2 vops -> config -> ('a1, 'a2) op -> ('a1, 'a2)
    state -> ('a1, 'a2) state * ('a1, 'a2) obs outcome **)

let step leqb vo cfg o st =
  match o with
  | AddSite (l, a, b) ->
    ({ sites = (set_site leqb l (a, b) st.sites); terms = st.terms;
      maxorder = st.maxorder }, (Done ONone))
  | GetSite l -> (st, (getSite leqb cfg st l))
  | GetTerms n -> (st, (Done (OTerms (getTerms st n))))
  | MaxOrder -> (st, (Done (ONat st.maxorder)))
  | Copy -> ((copy st), (Done ONone))
  | _ ->
    let w0 = effect leqb vo cfg st.sites o in
    ((push_all (fst w0) st), (result_of (snd w0)))

type ('l, 'v) rstate = { cur : ('l, 'v) state; origs : ('l, 'v) state list }

(** val rinit : ('a1, 'a2) rstate **)

let rinit =
  { cur = init; origs = [] }

(** val rstep :
    ('a1 -> 'a1 -> bool) -> 'a2 vops -> config -> ('a1, 'a2) op -> ('a1, 'a2)
    rstate -> ('a1, 'a2) rstate * ('a1, 'a2) obs outcome **)

let rstep leqb vo cfg o r =
  let (s, x) = step leqb vo cfg o r.cur in
  (match o with
   | Copy -> ({ cur = s; origs = (app r.origs (r.cur :: [])) }, x)
   | _ -> ({ cur = s; origs = r.origs }, x))

(** val term_wfb : ('a1, 'a2) term -> bool **)

let term_wfb t =
  (&&)
    ((&&) ((=) (length t.t_labels) (t_order t))
      ((=) (length t.t_orbs) (t_order t)))
    ((=) (length t.t_spins) (t_order t))

(** val item_ok :
    ('a1 -> 'a1 -> bool) -> 'a1 site_map -> 'a1 -> int -> int -> bool **)

let item_ok leqb m l o s =
  match find_site leqb l m with
  | Some s0 ->
    let (norb, nspin) = s0 in (&&) (Nat.ltb o norb) (Nat.ltb s nspin)
  | None -> false

(** val all3 :
    ('a1 -> int -> int -> bool) -> 'a1 list -> int list -> int list -> bool **)

let rec all3 f ls os ss =
  match ls with
  | [] -> true
  | l :: ls' ->
    (match os with
     | [] -> true
     | o :: os' ->
       (match ss with
        | [] -> true
        | s :: ss' -> (&&) (f l o s) (all3 f ls' os' ss')))

(** val term_valid :
    ('a1 -> 'a1 -> bool) -> 'a1 site_map -> ('a1, 'a2) term -> bool **)

let term_valid leqb m t =
  all3 (item_ok leqb m) t.t_labels t.t_orbs t.t_spins

(** val factory_defined : ('a1, 'a2) fcall -> bool **)

let factory_defined = function
| FSpinflip6 (_, _, o1, o2, s1, s2) ->
  (&&) (negb ((=) o1 o2)) (negb ((=) s1 s2))
| FPairHopping6 (_, _, o1, o2, s1, s2) ->
  (&&) (negb ((=) o1 o2)) (negb ((=) s1 s2))
| _ -> true

(** val same_shape : shape -> shape -> bool **)

let same_shape a b =
  (&&) ((=) (fst a) (fst b)) ((=) (snd a) (snd b))

(** val preset_defined :
    ('a1 -> 'a1 -> bool) -> 'a1 site_map -> ('a1, 'a2) pcall -> bool **)

let preset_defined leqb m = function
| PCoulombS (l, _, _) ->
  (match find_site leqb l m with
   | Some _ -> true
   | None -> false)
| PCoulombP (l, _, _, _, _) ->
  (match find_site leqb l m with
   | Some s ->
     let (norb, nspin) = s in
     (&&) (Nat.ltb (Stdlib.Int.succ 0) norb)
       (Nat.ltb (Stdlib.Int.succ 0) nspin)
   | None -> false)
| PCoulombP3 (l, _, _, _) ->
  (match find_site leqb l m with
   | Some s ->
     let (norb, nspin) = s in
     (&&) (Nat.ltb (Stdlib.Int.succ 0) norb)
       (Nat.ltb (Stdlib.Int.succ 0) nspin)
   | None -> false)
| PLevel (l, _) ->
  (match find_site leqb l m with
   | Some _ -> true
   | None -> false)
| PMagnetization (l, _) ->
  (match find_site leqb l m with
   | Some s ->
     let (_, nspin) = s in (=) nspin (Stdlib.Int.succ (Stdlib.Int.succ 0))
   | None -> false)
| PSzSz (l1, l2, _) ->
  (match find_site leqb l1 m with
   | Some a ->
     (match find_site leqb l2 m with
      | Some b ->
        (&&) (same_shape a b)
          ((=) (snd a) (Stdlib.Int.succ (Stdlib.Int.succ 0)))
      | None -> false)
   | None -> false)
| PSS (l1, l2, _) ->
  (match find_site leqb l1 m with
   | Some a ->
     (match find_site leqb l2 m with
      | Some b ->
        (&&) (same_shape a b)
          ((=) (snd a) (Stdlib.Int.succ (Stdlib.Int.succ 0)))
      | None -> false)
   | None -> false)
| PHopping8 (l1, l2, _, o1, o2, s1, s2) ->
  (&&) (item_ok leqb m l1 o1 s1) (item_ok leqb m l2 o2 s2)
| PHopping7 (l1, l2, _, o1, o2, s) ->
  (&&) (item_ok leqb m l1 o1 s) (item_ok leqb m l2 o2 s)
| PHopping6 (l1, l2, _, o1, o2) ->
  (match find_site leqb l1 m with
   | Some a ->
     (match find_site leqb l2 m with
      | Some b ->
        (&&) ((&&) (Nat.ltb o1 (fst a)) (Nat.ltb o2 (fst b)))
          ((=) (snd a) (snd b))
      | None -> false)
   | None -> false)
| PHopping4 (l1, l2, _) ->
  (match find_site leqb l1 m with
   | Some a ->
     (match find_site leqb l2 m with
      | Some b -> same_shape a b
      | None -> false)
   | None -> false)

(** val list_eqb : ('a1 -> 'a1 -> bool) -> 'a1 list -> 'a1 list -> bool **)

let rec list_eqb e a b =
  match a with
  | [] -> (match b with
           | [] -> true
           | _ :: _ -> false)
  | x :: a' ->
    (match b with
     | [] -> false
     | y :: b' -> (&&) (e x y) (list_eqb e a' b'))

(** val term_eqb :
    ('a1 -> 'a1 -> bool) -> 'a2 vops -> ('a1, 'a2) term -> ('a1, 'a2) term ->
    bool **)

let term_eqb leqb vo a b =
  (&&)
    ((&&)
      ((&&)
        ((&&) (list_eqb eqb a.t_ops b.t_ops)
          (list_eqb leqb a.t_labels b.t_labels))
        (list_eqb (=) a.t_orbs b.t_orbs)) (list_eqb (=) a.t_spins b.t_spins))
    (vo.veqb a.t_val b.t_val)

(** val is_nil : 'a1 list -> bool **)

let is_nil = function
| [] -> true
| _ :: _ -> false

(** val judge_term :
    ('a1 -> 'a1 -> bool) -> 'a2 vops -> 'a1 site_map -> ('a1, 'a2) term ->
    bool -> ('a1, 'a2) term list -> int list **)

let judge_term leqb vo m t exn delta =
  if negb (term_wfb t)
  then []
  else if negb (term_valid leqb m t)
       then if exn
            then []
            else (Stdlib.Int.succ (Stdlib.Int.succ (Stdlib.Int.succ 0))) :: []
       else if exn
            then (Stdlib.Int.succ (Stdlib.Int.succ (Stdlib.Int.succ
                   (Stdlib.Int.succ 0)))) :: []
            else if vo.vnz t.t_val
                 then if list_eqb (term_eqb leqb vo) delta (t :: [])
                      then []
                      else (Stdlib.Int.succ (Stdlib.Int.succ (Stdlib.Int.succ
                             (Stdlib.Int.succ (Stdlib.Int.succ 0))))) :: []
                 else if is_nil delta
                      then []
                      else (Stdlib.Int.succ (Stdlib.Int.succ (Stdlib.Int.succ
                             (Stdlib.Int.succ (Stdlib.Int.succ
                             (Stdlib.Int.succ 0)))))) :: []

(** val judge :
    ('a1 -> 'a1 -> bool) -> 'a2 vops -> 'a1 site_map -> ('a1, 'a2) op -> bool
    -> ('a1, 'a2) term list -> int list **)

let judge leqb vo m o exn delta =
  app
    (if (&&) exn (negb (is_nil delta)) then (Stdlib.Int.succ 0) :: [] else [])
    (app
      (if forallb (term_valid leqb m) delta
       then []
       else (Stdlib.Int.succ (Stdlib.Int.succ 0)) :: [])
      (match o with
       | AddTerm t -> judge_term leqb vo m t exn delta
       | AddFactoryTerm f ->
         (match factory leqb f with
          | Done t ->
            if factory_defined f
            then judge_term leqb vo m t exn delta
            else if exn
                 then []
                 else (Stdlib.Int.succ (Stdlib.Int.succ (Stdlib.Int.succ
                        (Stdlib.Int.succ (Stdlib.Int.succ (Stdlib.Int.succ
                        (Stdlib.Int.succ 0))))))) :: []
          | _ ->
            if exn
            then []
            else (Stdlib.Int.succ (Stdlib.Int.succ (Stdlib.Int.succ
                   (Stdlib.Int.succ (Stdlib.Int.succ (Stdlib.Int.succ
                   (Stdlib.Int.succ 0))))))) :: [])
       | Preset p ->
         if preset_defined leqb m p
         then if exn
              then (Stdlib.Int.succ (Stdlib.Int.succ (Stdlib.Int.succ
                     (Stdlib.Int.succ (Stdlib.Int.succ (Stdlib.Int.succ
                     (Stdlib.Int.succ (Stdlib.Int.succ (Stdlib.Int.succ
                     0))))))))) :: []
              else []
         else if exn
              then []
              else (Stdlib.Int.succ (Stdlib.Int.succ (Stdlib.Int.succ
                     (Stdlib.Int.succ (Stdlib.Int.succ (Stdlib.Int.succ
                     (Stdlib.Int.succ (Stdlib.Int.succ 0)))))))) :: []
       | _ -> []))

(** val q_ops : q vops **)

let q_ops =
  { vnz = (fun q0 -> negb (Z.eqb q0.qnum Z0)); veqb = qeq_bool; vneg =
    (fun q0 -> qred (qopp q0)); vsub = (fun a b -> qred (qminus a b));
    vhalf = (fun q0 -> qred (qdiv q0 { qnum = (Zpos (XO XH)); qden = XH }));
    vquart = (fun q0 ->
    qred (qdiv q0 { qnum = (Zpos (XO (XO XH))); qden = XH })); vdbl =
    (fun q0 -> qred (qmult { qnum = (Zpos (XO XH)); qden = XH } q0)); vconj =
    (fun q0 -> q0) }

type qterm = (int, q) term

type qop = (int, q) op

type qstate = (int, q) state

type qrstate = (int, q) rstate

(** val q_rinit : qrstate **)

let q_rinit =
  rinit

(** val q_rstep :
    config -> qop -> qrstate -> qrstate * (int, q) obs outcome **)

let q_rstep cfg o r =
  rstep (=) q_ops cfg o r

(** val q_effect : config -> qstate -> qop -> qterm list **)

let q_effect cfg st o =
  fst (effect (=) q_ops cfg st.sites o)

(** val q_getTerms : qstate -> int -> qterm list **)

let q_getTerms =
  getTerms

(** val q_judge : int site_map -> qop -> bool -> qterm list -> int list **)

let q_judge m o exn delta =
  judge (=) q_ops m o exn delta

(** val q_set_site : int -> shape -> int site_map -> int site_map **)

let q_set_site l s m =
  set_site (=) l s m
