
(** val fst : ('a1 * 'a2) -> 'a1 **)

let fst = function
| (x, _) -> x

(** val snd : ('a1 * 'a2) -> 'a2 **)

let snd = function
| (_, y) -> y

(** val length : 'a1 list -> int **)

let rec length = function
| [] -> 0
| _ :: l' -> Stdlib.Int.succ (length l')

type comparison =
| Eq
| Lt
| Gt

(** val add : int -> int -> int **)

let rec add = (+)

(** val mul : int -> int -> int **)

let rec mul = ( * )

(** val eqb : bool -> bool -> bool **)

let eqb b1 b2 =
  if b1 then b2 else if b2 then false else true

module Nat =
 struct
  (** val ltb : int -> int -> bool **)

  let ltb n0 m =
    (<=) (Stdlib.Int.succ n0) m

  (** val max : int -> int -> int **)

  let rec max n0 m =
    (fun fO fS n -> if n=0 then fO () else fS (n-1))
      (fun _ -> m)
      (fun n' ->
      (fun fO fS n -> if n=0 then fO () else fS (n-1))
        (fun _ -> n0)
        (fun m' -> Stdlib.Int.succ (max n' m'))
        m)
      n0
 end

(** val nth_error : 'a1 list -> int -> 'a1 option **)

let rec nth_error l n0 =
  (fun fO fS n -> if n=0 then fO () else fS (n-1))
    (fun _ -> match l with
              | [] -> None
              | x :: _ -> Some x)
    (fun n1 -> match l with
               | [] -> None
               | _ :: l0 -> nth_error l0 n1)
    n0

(** val fold_left : ('a1 -> 'a2 -> 'a1) -> 'a2 list -> 'a1 -> 'a1 **)

let rec fold_left f l a0 =
  match l with
  | [] -> a0
  | b :: t -> fold_left f t (f a0 b)

(** val repeat : 'a1 -> int -> 'a1 list **)

let rec repeat x n0 =
  (fun fO fS n -> if n=0 then fO () else fS (n-1))
    (fun _ -> [])
    (fun k -> x :: (repeat x k))
    n0

type positive =
| XI of positive
| XO of positive
| XH

type n =
| N0
| Npos of positive

module Pos =
 struct
  (** val succ : positive -> positive **)

  let rec succ = function
  | XI p -> XO (succ p)
  | XO p -> XI p
  | XH -> XO XH

  (** val add : positive -> positive -> positive **)

  let rec add x y =
    match x with
    | XI p ->
      (match y with
       | XI q -> XO (add_carry p q)
       | XO q -> XI (add p q)
       | XH -> XO (succ p))
    | XO p ->
      (match y with
       | XI q -> XI (add p q)
       | XO q -> XO (add p q)
       | XH -> XI p)
    | XH -> (match y with
             | XI q -> XO (succ q)
             | XO q -> XI q
             | XH -> XO XH)

  (** val add_carry : positive -> positive -> positive **)

  and add_carry x y =
    match x with
    | XI p ->
      (match y with
       | XI q -> XI (add_carry p q)
       | XO q -> XO (add_carry p q)
       | XH -> XI (succ p))
    | XO p ->
      (match y with
       | XI q -> XO (add_carry p q)
       | XO q -> XI (add p q)
       | XH -> XO (succ p))
    | XH ->
      (match y with
       | XI q -> XI (succ q)
       | XO q -> XO (succ q)
       | XH -> XI XH)

  (** val mul : positive -> positive -> positive **)

  let rec mul x y =
    match x with
    | XI p -> add y (XO (mul p y))
    | XO p -> XO (mul p y)
    | XH -> y

  (** val compare_cont : comparison -> positive -> positive -> comparison **)

  let rec compare_cont r x y =
    match x with
    | XI p ->
      (match y with
       | XI q -> compare_cont r p q
       | XO q -> compare_cont Gt p q
       | XH -> Gt)
    | XO p ->
      (match y with
       | XI q -> compare_cont Lt p q
       | XO q -> compare_cont r p q
       | XH -> Gt)
    | XH -> (match y with
             | XH -> r
             | _ -> Lt)

  (** val compare : positive -> positive -> comparison **)

  let compare =
    compare_cont Eq
 end

module N =
 struct
  (** val add : n -> n -> n **)

  let add n0 m =
    match n0 with
    | N0 -> m
    | Npos p -> (match m with
                 | N0 -> n0
                 | Npos q -> Npos (Pos.add p q))

  (** val mul : n -> n -> n **)

  let mul n0 m =
    match n0 with
    | N0 -> N0
    | Npos p -> (match m with
                 | N0 -> N0
                 | Npos q -> Npos (Pos.mul p q))

  (** val compare : n -> n -> comparison **)

  let compare n0 m =
    match n0 with
    | N0 -> (match m with
             | N0 -> Eq
             | Npos _ -> Lt)
    | Npos n' -> (match m with
                  | N0 -> Gt
                  | Npos m' -> Pos.compare n' m')
 end

type ascii =
| Ascii of bool * bool * bool * bool * bool * bool * bool * bool

(** val eqb0 : ascii -> ascii -> bool **)

let eqb0 a b =
  let Ascii (a0, a1, a2, a3, a4, a5, a6, a7) = a in
  let Ascii (b0, b1, b2, b3, b4, b5, b6, b7) = b in
  if if if if if if if eqb a0 b0 then eqb a1 b1 else false
                 then eqb a2 b2
                 else false
              then eqb a3 b3
              else false
           then eqb a4 b4
           else false
        then eqb a5 b5
        else false
     then eqb a6 b6
     else false
  then eqb a7 b7
  else false

(** val n_of_digits : bool list -> n **)

let rec n_of_digits = function
| [] -> N0
| b :: l' ->
  N.add (if b then Npos XH else N0) (N.mul (Npos (XO XH)) (n_of_digits l'))

(** val n_of_ascii : ascii -> n **)

let n_of_ascii = function
| Ascii (a0, a1, a2, a3, a4, a5, a6, a7) ->
  n_of_digits
    (a0 :: (a1 :: (a2 :: (a3 :: (a4 :: (a5 :: (a6 :: (a7 :: []))))))))

(** val compare0 : ascii -> ascii -> comparison **)

let compare0 a b =
  N.compare (n_of_ascii a) (n_of_ascii b)

type string =
| EmptyString
| String of ascii * string

(** val eqb1 : string -> string -> bool **)

let rec eqb1 s1 s2 =
  match s1 with
  | EmptyString ->
    (match s2 with
     | EmptyString -> true
     | String (_, _) -> false)
  | String (c1, s1') ->
    (match s2 with
     | EmptyString -> false
     | String (c2, s2') -> if eqb0 c1 c2 then eqb1 s1' s2' else false)

(** val compare1 : string -> string -> comparison **)

let rec compare1 s1 s2 =
  match s1 with
  | EmptyString -> (match s2 with
                    | EmptyString -> Eq
                    | String (_, _) -> Lt)
  | String (c1, s1') ->
    (match s2 with
     | EmptyString -> Gt
     | String (c2, s2') ->
       (match compare0 c1 c2 with
        | Eq -> compare1 s1' s2'
        | x -> x))

type 'a outcome =
| Done of 'a
| OOB
| Uninit
| Throws of int
| OutOfFuel

(** val bind : 'a1 outcome -> ('a1 -> 'a2 outcome) -> 'a2 outcome **)

let bind x f =
  match x with
  | Done a -> f a
  | OOB -> OOB
  | Uninit -> Uninit
  | Throws c -> Throws c
  | OutOfFuel -> OutOfFuel

type label = string

type site = { s_label : label; s_orb : int; s_spin : int }

type info = (label * int) * int

(** val info_label : info -> label **)

let info_label x =
  fst (fst x)

(** val info_orb : info -> int **)

let info_orb x =
  snd (fst x)

(** val info_spin : info -> int **)

let info_spin =
  snd

(** val info_eqb : info -> info -> bool **)

let info_eqb a b =
  (&&)
    ((&&) (eqb1 (info_label a) (info_label b))
      ((=) (info_orb a) (info_orb b))) ((=) (info_spin a) (info_spin b))

(** val map_insert : site -> site list -> site list **)

let rec map_insert s = function
| [] -> s :: []
| h :: t ->
  (match compare1 s.s_label h.s_label with
   | Eq -> s :: t
   | Lt -> s :: (h :: t)
   | Gt -> h :: (map_insert s t))

(** val site_map : site list -> site list **)

let site_map calls =
  fold_left (fun m s -> map_insert s m) calls []

type vec = info option list

(** val vec_set : vec -> int -> info -> vec **)

let rec vec_set v k x =
  match v with
  | [] -> []
  | h :: t ->
    ((fun fO fS n -> if n=0 then fO () else fS (n-1))
       (fun _ -> (Some x) :: t)
       (fun j -> h :: (vec_set t j x))
       k)

(** val vec_write : vec -> int -> info -> vec outcome **)

let vec_write v k x =
  if Nat.ltb k (length v) then Done (vec_set v k x) else OOB

(** val vec_deref : vec -> int -> info outcome **)

let vec_deref v k =
  match nth_error v k with
  | Some o -> (match o with
               | Some x -> Done x
               | None -> Uninit)
  | None -> OOB

type imap = (info * int) list

(** val map_find : info -> imap -> int option **)

let rec map_find k = function
| [] -> None
| p :: t -> let (k', v) = p in if info_eqb k k' then Some v else map_find k t

(** val map_set : info -> int -> imap -> imap **)

let rec map_set k v = function
| [] -> (k, v) :: []
| p :: t ->
  let (k', v') = p in
  if info_eqb k k' then (k', v) :: t else (k', v') :: (map_set k v t)

(** val for_range :
    int -> int -> (int -> 'a1 -> 'a1 outcome) -> 'a1 -> 'a1 outcome **)

let rec for_range n0 lo body st =
  (fun fO fS n -> if n=0 then fO () else fS (n-1))
    (fun _ -> Done st)
    (fun n' -> bind (body lo st) (for_range n' (Stdlib.Int.succ lo) body))
    n0

(** val index_total : site list -> int **)

let rec index_total = function
| [] -> 0
| s :: r -> add (mul s.s_orb s.s_spin) (index_total r)

(** val max_spin : site list -> int **)

let rec max_spin = function
| [] -> 0
| s :: r -> Nat.max s.s_spin (max_spin r)

type estate = vec * int

(** val emit : label -> int -> int -> estate -> estate outcome **)

let emit l i z st =
  bind (vec_write (fst st) (snd st) ((l, i), z)) (fun v' -> Done (v',
    (Stdlib.Int.succ (snd st))))

(** val site_major : site list -> estate -> estate outcome **)

let rec site_major ss st =
  match ss with
  | [] -> Done st
  | s :: rest ->
    bind
      (for_range s.s_orb 0 (fun i ->
        for_range s.s_spin 0 (fun z -> emit s.s_label i z)) st)
      (site_major rest)

(** val spin_major_sites :
    bool -> int -> site list -> estate -> estate outcome **)

let rec spin_major_sites fixed z ss st =
  match ss with
  | [] -> Done st
  | s :: rest ->
    if (<=) s.s_spin z
    then if fixed then spin_major_sites fixed z rest st else Done st
    else bind (for_range s.s_orb 0 (fun i -> emit s.s_label i z) st)
           (spin_major_sites fixed z rest)

(** val spin_major : bool -> site list -> estate -> estate outcome **)

let spin_major fixed ss st =
  for_range (max_spin ss) 0 (fun z -> spin_major_sites fixed z ss) st

(** val fill_vector : bool -> bool -> site list -> estate outcome **)

let fill_vector fixed order_spins ss =
  let st0 = ((repeat None (index_total ss)), 0) in
  if order_spins then spin_major fixed ss st0 else site_major ss st0

(** val build_step : vec -> int -> imap -> imap outcome **)

let build_step v i m =
  bind (vec_deref v i) (fun x -> Done (map_set x i m))

type table = { indexSize : int; indicesToInfo : vec; infoToIndices : imap }

(** val prepare : bool -> bool -> site list -> table outcome **)

let prepare fixed order_spins ss =
  let size = index_total ss in
  bind (fill_vector fixed order_spins ss) (fun st ->
    bind (for_range size 0 (build_step (fst st)) []) (fun m -> Done
      { indexSize = size; indicesToInfo = (fst st); infoToIndices = m }))

(** val getIndex : table -> info -> int **)

let getIndex t x =
  match map_find x t.infoToIndices with
  | Some i -> i
  | None -> t.indexSize

(** val exWrongIndex : int **)

let exWrongIndex =
  Stdlib.Int.succ (Stdlib.Int.succ (Stdlib.Int.succ (Stdlib.Int.succ
    (Stdlib.Int.succ (Stdlib.Int.succ (Stdlib.Int.succ (Stdlib.Int.succ
    (Stdlib.Int.succ (Stdlib.Int.succ (Stdlib.Int.succ (Stdlib.Int.succ
    (Stdlib.Int.succ (Stdlib.Int.succ (Stdlib.Int.succ (Stdlib.Int.succ
    (Stdlib.Int.succ (Stdlib.Int.succ 0)))))))))))))))))

(** val getInfo : table -> int -> info outcome **)

let getInfo t i =
  if (<=) t.indexSize i
  then Throws exWrongIndex
  else vec_deref t.indicesToInfo i

(** val checkIndex : table -> int -> bool **)

let checkIndex t i =
  Nat.ltb i t.indexSize
