
(** val xorb : bool -> bool -> bool **)

let xorb b1 b2 =
  if b1 then if b2 then false else true else b2

(** val negb : bool -> bool **)

let negb = function
| true -> false
| false -> true

(** val fst : ('a1 * 'a2) -> 'a1 **)

let fst = function
| (x, _) -> x

(** val snd : ('a1 * 'a2) -> 'a2 **)

let snd = function
| (_, y) -> y

(** val length : 'a1 list -> int **)

let rec length = function
| [] -> 0
| _ :: l' -> Stdlib.Int.succ (length l')

(** val app : 'a1 list -> 'a1 list -> 'a1 list **)

let rec app l m =
  match l with
  | [] -> m
  | a :: l1 -> a :: (app l1 m)

type comparison =
| Eq
| Lt
| Gt

(** val compOpp : comparison -> comparison **)

let compOpp = function
| Eq -> Eq
| Lt -> Gt
| Gt -> Lt

module Coq__1 = struct
 (** val add : int -> int -> int **)let rec add = (+)
end
include Coq__1

(** val mul : int -> int -> int **)

let rec mul = ( * )

type positive =
| XI of positive
| XO of positive
| XH

type z =
| Z0
| Zpos of positive
| Zneg of positive

(** val eqb : bool -> bool -> bool **)

let eqb b1 b2 =
  if b1 then b2 else if b2 then false else true

module Nat =
 struct
  (** val add : int -> int -> int **)

  let rec add n m =
    (fun fO fS n -> if n=0 then fO () else fS (n-1))
      (fun _ -> m)
      (fun p -> Stdlib.Int.succ (add p m))
      n

  (** val mul : int -> int -> int **)

  let rec mul n m =
    (fun fO fS n -> if n=0 then fO () else fS (n-1))
      (fun _ -> 0)
      (fun p -> add m (mul p m))
      n

  (** val ltb : int -> int -> bool **)

  let ltb n m =
    (<=) (Stdlib.Int.succ n) m

  (** val compare : int -> int -> comparison **)

  let rec compare = fun n m -> if n=m then Eq else if n<m then Lt else Gt

  (** val even : int -> bool **)

  let rec even n =
    (fun fO fS n -> if n=0 then fO () else fS (n-1))
      (fun _ -> true)
      (fun n0 ->
      (fun fO fS n -> if n=0 then fO () else fS (n-1))
        (fun _ -> false)
        (fun n' -> even n')
        n0)
      n

  (** val odd : int -> bool **)

  let odd n =
    negb (even n)

  (** val pow : int -> int -> int **)

  let rec pow n m =
    (fun fO fS n -> if n=0 then fO () else fS (n-1))
      (fun _ -> Stdlib.Int.succ 0)
      (fun m0 -> mul n (pow n m0))
      m

  (** val div2 : int -> int **)

  let rec div2 = fun n -> n/2
 end

module Pos =
 struct
  type mask =
  | IsNul
  | IsPos of positive
  | IsNeg
 end

module Coq_Pos =
 struct
  (** val succ : positive -> positive **)

  let rec succ = function
  | XI p -> XO (succ p)
  | XO p -> XI p
  | XH -> XO XH

  (** val add : positive -> positive -> positive **)

  let rec add x y =
    match x with
    | XI p ->
      (match y with
       | XI q0 -> XO (add_carry p q0)
       | XO q0 -> XI (add p q0)
       | XH -> XO (succ p))
    | XO p ->
      (match y with
       | XI q0 -> XI (add p q0)
       | XO q0 -> XO (add p q0)
       | XH -> XI p)
    | XH -> (match y with
             | XI q0 -> XO (succ q0)
             | XO q0 -> XI q0
             | XH -> XO XH)

  (** val add_carry : positive -> positive -> positive **)

  and add_carry x y =
    match x with
    | XI p ->
      (match y with
       | XI q0 -> XI (add_carry p q0)
       | XO q0 -> XO (add_carry p q0)
       | XH -> XI (succ p))
    | XO p ->
      (match y with
       | XI q0 -> XO (add_carry p q0)
       | XO q0 -> XI (add p q0)
       | XH -> XO (succ p))
    | XH ->
      (match y with
       | XI q0 -> XI (succ q0)
       | XO q0 -> XO (succ q0)
       | XH -> XI XH)

  (** val pred_double : positive -> positive **)

  let rec pred_double = function
  | XI p -> XI (XO p)
  | XO p -> XI (pred_double p)
  | XH -> XH

  type mask = Pos.mask =
  | IsNul
  | IsPos of positive
  | IsNeg

  (** val succ_double_mask : mask -> mask **)

  let succ_double_mask = function
  | IsNul -> IsPos XH
  | IsPos p -> IsPos (XI p)
  | IsNeg -> IsNeg

  (** val double_mask : mask -> mask **)

  let double_mask = function
  | IsPos p -> IsPos (XO p)
  | x0 -> x0

  (** val double_pred_mask : positive -> mask **)

  let double_pred_mask = function
  | XI p -> IsPos (XO (XO p))
  | XO p -> IsPos (XO (pred_double p))
  | XH -> IsNul

  (** val sub_mask : positive -> positive -> mask **)

  let rec sub_mask x y =
    match x with
    | XI p ->
      (match y with
       | XI q0 -> double_mask (sub_mask p q0)
       | XO q0 -> succ_double_mask (sub_mask p q0)
       | XH -> IsPos (XO p))
    | XO p ->
      (match y with
       | XI q0 -> succ_double_mask (sub_mask_carry p q0)
       | XO q0 -> double_mask (sub_mask p q0)
       | XH -> IsPos (pred_double p))
    | XH -> (match y with
             | XH -> IsNul
             | _ -> IsNeg)

  (** val sub_mask_carry : positive -> positive -> mask **)

  and sub_mask_carry x y =
    match x with
    | XI p ->
      (match y with
       | XI q0 -> succ_double_mask (sub_mask_carry p q0)
       | XO q0 -> double_mask (sub_mask p q0)
       | XH -> IsPos (pred_double p))
    | XO p ->
      (match y with
       | XI q0 -> double_mask (sub_mask_carry p q0)
       | XO q0 -> succ_double_mask (sub_mask_carry p q0)
       | XH -> double_pred_mask p)
    | XH -> IsNeg

  (** val sub : positive -> positive -> positive **)

  let sub x y =
    match sub_mask x y with
    | IsPos z0 -> z0
    | _ -> XH

  (** val mul : positive -> positive -> positive **)

  let rec mul x y =
    match x with
    | XI p -> add y (XO (mul p y))
    | XO p -> XO (mul p y)
    | XH -> y

  (** val size_nat : positive -> int **)

  let rec size_nat = function
  | XI p0 -> Stdlib.Int.succ (size_nat p0)
  | XO p0 -> Stdlib.Int.succ (size_nat p0)
  | XH -> Stdlib.Int.succ 0

  (** val compare_cont : comparison -> positive -> positive -> comparison **)

  let rec compare_cont r x y =
    match x with
    | XI p ->
      (match y with
       | XI q0 -> compare_cont r p q0
       | XO q0 -> compare_cont Gt p q0
       | XH -> Gt)
    | XO p ->
      (match y with
       | XI q0 -> compare_cont Lt p q0
       | XO q0 -> compare_cont r p q0
       | XH -> Gt)
    | XH -> (match y with
             | XH -> r
             | _ -> Lt)

  (** val compare : positive -> positive -> comparison **)

  let compare =
    compare_cont Eq

  (** val eqb : positive -> positive -> bool **)

  let rec eqb p q0 =
    match p with
    | XI p0 -> (match q0 with
                | XI q1 -> eqb p0 q1
                | _ -> false)
    | XO p0 -> (match q0 with
                | XO q1 -> eqb p0 q1
                | _ -> false)
    | XH -> (match q0 with
             | XH -> true
             | _ -> false)

  (** val ggcdn :
      int -> positive -> positive -> positive * (positive * positive) **)

  let rec ggcdn n a b =
    (fun fO fS n -> if n=0 then fO () else fS (n-1))
      (fun _ -> (XH, (a, b)))
      (fun n0 ->
      match a with
      | XI a' ->
        (match b with
         | XI b' ->
           (match compare a' b' with
            | Eq -> (a, (XH, XH))
            | Lt ->
              let (g, p) = ggcdn n0 (sub b' a') a in
              let (ba, aa) = p in (g, (aa, (add aa (XO ba))))
            | Gt ->
              let (g, p) = ggcdn n0 (sub a' b') b in
              let (ab, bb) = p in (g, ((add bb (XO ab)), bb)))
         | XO b0 ->
           let (g, p) = ggcdn n0 a b0 in
           let (aa, bb) = p in (g, (aa, (XO bb)))
         | XH -> (XH, (a, XH)))
      | XO a0 ->
        (match b with
         | XI _ ->
           let (g, p) = ggcdn n0 a0 b in
           let (aa, bb) = p in (g, ((XO aa), bb))
         | XO b0 -> let (g, p) = ggcdn n0 a0 b0 in ((XO g), p)
         | XH -> (XH, (a, XH)))
      | XH -> (XH, (XH, b)))
      n

  (** val ggcd : positive -> positive -> positive * (positive * positive) **)

  let ggcd a b =
    ggcdn (Coq__1.add (size_nat a) (size_nat b)) a b
 end

module Z =
 struct
  (** val double : z -> z **)

  let double = function
  | Z0 -> Z0
  | Zpos p -> Zpos (XO p)
  | Zneg p -> Zneg (XO p)

  (** val succ_double : z -> z **)

  let succ_double = function
  | Z0 -> Zpos XH
  | Zpos p -> Zpos (XI p)
  | Zneg p -> Zneg (Coq_Pos.pred_double p)

  (** val pred_double : z -> z **)

  let pred_double = function
  | Z0 -> Zneg XH
  | Zpos p -> Zpos (Coq_Pos.pred_double p)
  | Zneg p -> Zneg (XI p)

  (** val pos_sub : positive -> positive -> z **)

  let rec pos_sub x y =
    match x with
    | XI p ->
      (match y with
       | XI q0 -> double (pos_sub p q0)
       | XO q0 -> succ_double (pos_sub p q0)
       | XH -> Zpos (XO p))
    | XO p ->
      (match y with
       | XI q0 -> pred_double (pos_sub p q0)
       | XO q0 -> double (pos_sub p q0)
       | XH -> Zpos (Coq_Pos.pred_double p))
    | XH ->
      (match y with
       | XI q0 -> Zneg (XO q0)
       | XO q0 -> Zneg (Coq_Pos.pred_double q0)
       | XH -> Z0)

  (** val add : z -> z -> z **)

  let add x y =
    match x with
    | Z0 -> y
    | Zpos x' ->
      (match y with
       | Z0 -> x
       | Zpos y' -> Zpos (Coq_Pos.add x' y')
       | Zneg y' -> pos_sub x' y')
    | Zneg x' ->
      (match y with
       | Z0 -> x
       | Zpos y' -> pos_sub y' x'
       | Zneg y' -> Zneg (Coq_Pos.add x' y'))

  (** val opp : z -> z **)

  let opp = function
  | Z0 -> Z0
  | Zpos x0 -> Zneg x0
  | Zneg x0 -> Zpos x0

  (** val mul : z -> z -> z **)

  let mul x y =
    match x with
    | Z0 -> Z0
    | Zpos x' ->
      (match y with
       | Z0 -> Z0
       | Zpos y' -> Zpos (Coq_Pos.mul x' y')
       | Zneg y' -> Zneg (Coq_Pos.mul x' y'))
    | Zneg x' ->
      (match y with
       | Z0 -> Z0
       | Zpos y' -> Zneg (Coq_Pos.mul x' y')
       | Zneg y' -> Zpos (Coq_Pos.mul x' y'))

  (** val compare : z -> z -> comparison **)

  let compare x y =
    match x with
    | Z0 -> (match y with
             | Z0 -> Eq
             | Zpos _ -> Lt
             | Zneg _ -> Gt)
    | Zpos x' -> (match y with
                  | Zpos y' -> Coq_Pos.compare x' y'
                  | _ -> Gt)
    | Zneg x' ->
      (match y with
       | Zneg y' -> compOpp (Coq_Pos.compare x' y')
       | _ -> Lt)

  (** val sgn : z -> z **)

  let sgn = function
  | Z0 -> Z0
  | Zpos _ -> Zpos XH
  | Zneg _ -> Zneg XH

  (** val eqb : z -> z -> bool **)

  let eqb x y =
    match x with
    | Z0 -> (match y with
             | Z0 -> true
             | _ -> false)
    | Zpos p -> (match y with
                 | Zpos q0 -> Coq_Pos.eqb p q0
                 | _ -> false)
    | Zneg p -> (match y with
                 | Zneg q0 -> Coq_Pos.eqb p q0
                 | _ -> false)

  (** val abs : z -> z **)

  let abs = function
  | Zneg p -> Zpos p
  | x -> x

  (** val to_pos : z -> positive **)

  let to_pos = function
  | Zpos p -> p
  | _ -> XH

  (** val ggcd : z -> z -> z * (z * z) **)

  let ggcd a b =
    match a with
    | Z0 -> ((abs b), (Z0, (sgn b)))
    | Zpos a0 ->
      (match b with
       | Z0 -> ((abs a), ((sgn a), Z0))
       | Zpos b0 ->
         let (g, p) = Coq_Pos.ggcd a0 b0 in
         let (aa, bb) = p in ((Zpos g), ((Zpos aa), (Zpos bb)))
       | Zneg b0 ->
         let (g, p) = Coq_Pos.ggcd a0 b0 in
         let (aa, bb) = p in ((Zpos g), ((Zpos aa), (Zneg bb))))
    | Zneg a0 ->
      (match b with
       | Z0 -> ((abs a), ((sgn a), Z0))
       | Zpos b0 ->
         let (g, p) = Coq_Pos.ggcd a0 b0 in
         let (aa, bb) = p in ((Zpos g), ((Zneg aa), (Zpos bb)))
       | Zneg b0 ->
         let (g, p) = Coq_Pos.ggcd a0 b0 in
         let (aa, bb) = p in ((Zpos g), ((Zneg aa), (Zneg bb))))
 end

(** val zeq_bool : z -> z -> bool **)

let zeq_bool x y =
  match Z.compare x y with
  | Eq -> true
  | _ -> false

(** val nth : int -> 'a1 list -> 'a1 -> 'a1 **)

let rec nth n l default =
  (fun fO fS n -> if n=0 then fO () else fS (n-1))
    (fun _ -> match l with
              | [] -> default
              | x :: _ -> x)
    (fun m -> match l with
              | [] -> default
              | _ :: t -> nth m t default)
    n

(** val rev : 'a1 list -> 'a1 list **)

let rec rev = function
| [] -> []
| x :: l' -> app (rev l') (x :: [])

(** val map : ('a1 -> 'a2) -> 'a1 list -> 'a2 list **)

let rec map f = function
| [] -> []
| a :: t -> (f a) :: (map f t)

(** val fold_left : ('a1 -> 'a2 -> 'a1) -> 'a2 list -> 'a1 -> 'a1 **)

let rec fold_left f l a0 =
  match l with
  | [] -> a0
  | b :: t -> fold_left f t (f a0 b)

(** val fold_right : ('a2 -> 'a1 -> 'a1) -> 'a1 -> 'a2 list -> 'a1 **)

let rec fold_right f a0 = function
| [] -> a0
| b :: t -> f b (fold_right f a0 t)

(** val find : ('a1 -> bool) -> 'a1 list -> 'a1 option **)

let rec find f = function
| [] -> None
| x :: tl -> if f x then Some x else find f tl

(** val combine : 'a1 list -> 'a2 list -> ('a1 * 'a2) list **)

let rec combine l l' =
  match l with
  | [] -> []
  | x :: tl ->
    (match l' with
     | [] -> []
     | y :: tl' -> (x, y) :: (combine tl tl'))

(** val seq : int -> int -> int list **)

let rec seq start len =
  (fun fO fS n -> if n=0 then fO () else fS (n-1))
    (fun _ -> [])
    (fun len0 -> start :: (seq (Stdlib.Int.succ start) len0))
    len

type q = { qnum : z; qden : positive }

(** val qeq_bool : q -> q -> bool **)

let qeq_bool x y =
  zeq_bool (Z.mul x.qnum (Zpos y.qden)) (Z.mul y.qnum (Zpos x.qden))

(** val qplus : q -> q -> q **)

let qplus x y =
  { qnum = (Z.add (Z.mul x.qnum (Zpos y.qden)) (Z.mul y.qnum (Zpos x.qden)));
    qden = (Coq_Pos.mul x.qden y.qden) }

(** val qmult : q -> q -> q **)

let qmult x y =
  { qnum = (Z.mul x.qnum y.qnum); qden = (Coq_Pos.mul x.qden y.qden) }

(** val qopp : q -> q **)

let qopp x =
  { qnum = (Z.opp x.qnum); qden = x.qden }

(** val qminus : q -> q -> q **)

let qminus x y =
  qplus x (qopp y)

(** val qinv : q -> q **)

let qinv x =
  match x.qnum with
  | Z0 -> { qnum = Z0; qden = XH }
  | Zpos p -> { qnum = (Zpos x.qden); qden = p }
  | Zneg p -> { qnum = (Zneg x.qden); qden = p }

(** val qdiv : q -> q -> q **)

let qdiv x y =
  qmult x (qinv y)

(** val qred : q -> q **)

let qred q0 =
  let { qnum = q1; qden = q2 } = q0 in
  let (r1, r2) = snd (Z.ggcd q1 (Zpos q2)) in
  { qnum = r1; qden = (Z.to_pos r2) }

type 'a outcome =
| Done of 'a
| OOB
| Uninit
| Throws of int
| OutOfFuel

(** val bind : 'a1 outcome -> ('a1 -> 'a2 outcome) -> 'a2 outcome **)

let bind x f =
  match x with
  | Done a -> f a
  | OOB -> OOB
  | Uninit -> Uninit
  | Throws c -> Throws c
  | OutOfFuel -> OutOfFuel

(** val spin_down : int **)

let spin_down =
  0

(** val spin_up : int **)

let spin_up =
  Stdlib.Int.succ 0

(** val hopping7_throws :
    ('a1 -> 'a1 -> bool) -> 'a1 -> 'a1 -> int -> int -> int -> int -> bool **)

let hopping7_throws _ _ _ _ _ _ _ =
  false

(** val hopping7_ops :
    ('a1 -> 'a1 -> bool) -> 'a1 -> 'a1 -> int -> int -> int -> int -> bool
    list **)

let hopping7_ops _ _ _ _ _ _ _ =
  true :: (false :: [])

(** val hopping7_labels :
    ('a1 -> 'a1 -> bool) -> 'a1 -> 'a1 -> int -> int -> int -> int -> 'a1 list **)

let hopping7_labels _ label1 label2 _ _ _ _ =
  label1 :: (label2 :: [])

(** val hopping7_orbitals :
    ('a1 -> 'a1 -> bool) -> 'a1 -> 'a1 -> int -> int -> int -> int -> int list **)

let hopping7_orbitals _ _ _ orbital1 orbital2 _ _ =
  orbital1 :: (orbital2 :: [])

(** val hopping7_spins :
    ('a1 -> 'a1 -> bool) -> 'a1 -> 'a1 -> int -> int -> int -> int -> int list **)

let hopping7_spins _ _ _ _ _ spin1 spin2 =
  spin1 :: (spin2 :: [])

(** val hopping5_throws :
    ('a1 -> 'a1 -> bool) -> 'a1 -> 'a1 -> int -> int -> bool **)

let hopping5_throws leqb label1 label2 orbital spin =
  hopping7_throws leqb label1 label2 orbital orbital spin spin

(** val hopping5_ops :
    ('a1 -> 'a1 -> bool) -> 'a1 -> 'a1 -> int -> int -> bool list **)

let hopping5_ops leqb label1 label2 orbital spin =
  hopping7_ops leqb label1 label2 orbital orbital spin spin

(** val hopping5_labels :
    ('a1 -> 'a1 -> bool) -> 'a1 -> 'a1 -> int -> int -> 'a1 list **)

let hopping5_labels leqb label1 label2 orbital spin =
  hopping7_labels leqb label1 label2 orbital orbital spin spin

(** val hopping5_orbitals :
    ('a1 -> 'a1 -> bool) -> 'a1 -> 'a1 -> int -> int -> int list **)

let hopping5_orbitals leqb label1 label2 orbital spin =
  hopping7_orbitals leqb label1 label2 orbital orbital spin spin

(** val hopping5_spins :
    ('a1 -> 'a1 -> bool) -> 'a1 -> 'a1 -> int -> int -> int list **)

let hopping5_spins leqb label1 label2 orbital spin =
  hopping7_spins leqb label1 label2 orbital orbital spin spin

(** val level4_throws : ('a1 -> 'a1 -> bool) -> 'a1 -> int -> int -> bool **)

let level4_throws _ _ _ _ =
  false

(** val level4_ops :
    ('a1 -> 'a1 -> bool) -> 'a1 -> int -> int -> bool list **)

let level4_ops _ _ _ _ =
  true :: (false :: [])

(** val level4_labels :
    ('a1 -> 'a1 -> bool) -> 'a1 -> int -> int -> 'a1 list **)

let level4_labels _ label _ _ =
  label :: (label :: [])

(** val level4_orbitals :
    ('a1 -> 'a1 -> bool) -> 'a1 -> int -> int -> int list **)

let level4_orbitals _ _ orbital _ =
  orbital :: (orbital :: [])

(** val level4_spins :
    ('a1 -> 'a1 -> bool) -> 'a1 -> int -> int -> int list **)

let level4_spins _ _ _ spin =
  spin :: (spin :: [])

(** val nupNdown7_throws :
    ('a1 -> 'a1 -> bool) -> 'a1 -> 'a1 -> int -> int -> int -> int -> bool **)

let nupNdown7_throws leqb label1 label2 orbital1 orbital2 spin1 spin2 =
  if (&&) ((&&) (leqb label1 label2) ((=) spin1 spin2))
       ((=) orbital1 orbital2)
  then level4_throws leqb label1 orbital1 spin1
  else false

(** val nupNdown7_ops :
    ('a1 -> 'a1 -> bool) -> 'a1 -> 'a1 -> int -> int -> int -> int -> bool
    list **)

let nupNdown7_ops leqb label1 label2 orbital1 orbital2 spin1 spin2 =
  if (&&) ((&&) (leqb label1 label2) ((=) spin1 spin2))
       ((=) orbital1 orbital2)
  then level4_ops leqb label1 orbital1 spin1
  else true :: (false :: (true :: (false :: [])))

(** val nupNdown7_labels :
    ('a1 -> 'a1 -> bool) -> 'a1 -> 'a1 -> int -> int -> int -> int -> 'a1 list **)

let nupNdown7_labels leqb label1 label2 orbital1 orbital2 spin1 spin2 =
  if (&&) ((&&) (leqb label1 label2) ((=) spin1 spin2))
       ((=) orbital1 orbital2)
  then level4_labels leqb label1 orbital1 spin1
  else label1 :: (label1 :: (label2 :: (label2 :: [])))

(** val nupNdown7_orbitals :
    ('a1 -> 'a1 -> bool) -> 'a1 -> 'a1 -> int -> int -> int -> int -> int list **)

let nupNdown7_orbitals leqb label1 label2 orbital1 orbital2 spin1 spin2 =
  if (&&) ((&&) (leqb label1 label2) ((=) spin1 spin2))
       ((=) orbital1 orbital2)
  then level4_orbitals leqb label1 orbital1 spin1
  else orbital1 :: (orbital1 :: (orbital2 :: (orbital2 :: [])))

(** val nupNdown7_spins :
    ('a1 -> 'a1 -> bool) -> 'a1 -> 'a1 -> int -> int -> int -> int -> int list **)

let nupNdown7_spins leqb label1 label2 orbital1 orbital2 spin1 spin2 =
  if (&&) ((&&) (leqb label1 label2) ((=) spin1 spin2))
       ((=) orbital1 orbital2)
  then level4_spins leqb label1 orbital1 spin1
  else spin1 :: (spin1 :: (spin2 :: (spin2 :: [])))

(** val nupNdown6_throws :
    ('a1 -> 'a1 -> bool) -> 'a1 -> int -> int -> int -> int -> bool **)

let nupNdown6_throws leqb label orbital1 orbital2 spin1 spin2 =
  nupNdown7_throws leqb label label orbital1 orbital2 spin1 spin2

(** val nupNdown6_ops :
    ('a1 -> 'a1 -> bool) -> 'a1 -> int -> int -> int -> int -> bool list **)

let nupNdown6_ops leqb label orbital1 orbital2 spin1 spin2 =
  nupNdown7_ops leqb label label orbital1 orbital2 spin1 spin2

(** val nupNdown6_labels :
    ('a1 -> 'a1 -> bool) -> 'a1 -> int -> int -> int -> int -> 'a1 list **)

let nupNdown6_labels leqb label orbital1 orbital2 spin1 spin2 =
  nupNdown7_labels leqb label label orbital1 orbital2 spin1 spin2

(** val nupNdown6_orbitals :
    ('a1 -> 'a1 -> bool) -> 'a1 -> int -> int -> int -> int -> int list **)

let nupNdown6_orbitals leqb label orbital1 orbital2 spin1 spin2 =
  nupNdown7_orbitals leqb label label orbital1 orbital2 spin1 spin2

(** val nupNdown6_spins :
    ('a1 -> 'a1 -> bool) -> 'a1 -> int -> int -> int -> int -> int list **)

let nupNdown6_spins leqb label orbital1 orbital2 spin1 spin2 =
  nupNdown7_spins leqb label label orbital1 orbital2 spin1 spin2

(** val nupNdown4_throws :
    ('a1 -> 'a1 -> bool) -> 'a1 -> int -> int -> bool **)

let nupNdown4_throws leqb label orbital1 orbital2 =
  nupNdown7_throws leqb label label orbital1 orbital2 spin_up spin_down

(** val nupNdown4_ops :
    ('a1 -> 'a1 -> bool) -> 'a1 -> int -> int -> bool list **)

let nupNdown4_ops leqb label orbital1 orbital2 =
  nupNdown7_ops leqb label label orbital1 orbital2 spin_up spin_down

(** val nupNdown4_labels :
    ('a1 -> 'a1 -> bool) -> 'a1 -> int -> int -> 'a1 list **)

let nupNdown4_labels leqb label orbital1 orbital2 =
  nupNdown7_labels leqb label label orbital1 orbital2 spin_up spin_down

(** val nupNdown4_orbitals :
    ('a1 -> 'a1 -> bool) -> 'a1 -> int -> int -> int list **)

let nupNdown4_orbitals leqb label orbital1 orbital2 =
  nupNdown7_orbitals leqb label label orbital1 orbital2 spin_up spin_down

(** val nupNdown4_spins :
    ('a1 -> 'a1 -> bool) -> 'a1 -> int -> int -> int list **)

let nupNdown4_spins leqb label orbital1 orbital2 =
  nupNdown7_spins leqb label label orbital1 orbital2 spin_up spin_down

(** val nupNdown5_throws :
    ('a1 -> 'a1 -> bool) -> 'a1 -> int -> int -> int -> bool **)

let nupNdown5_throws leqb label orbital spin1 spin2 =
  nupNdown7_throws leqb label label orbital orbital spin1 spin2

(** val nupNdown5_ops :
    ('a1 -> 'a1 -> bool) -> 'a1 -> int -> int -> int -> bool list **)

let nupNdown5_ops leqb label orbital spin1 spin2 =
  nupNdown7_ops leqb label label orbital orbital spin1 spin2

(** val nupNdown5_labels :
    ('a1 -> 'a1 -> bool) -> 'a1 -> int -> int -> int -> 'a1 list **)

let nupNdown5_labels leqb label orbital spin1 spin2 =
  nupNdown7_labels leqb label label orbital orbital spin1 spin2

(** val nupNdown5_orbitals :
    ('a1 -> 'a1 -> bool) -> 'a1 -> int -> int -> int -> int list **)

let nupNdown5_orbitals leqb label orbital spin1 spin2 =
  nupNdown7_orbitals leqb label label orbital orbital spin1 spin2

(** val nupNdown5_spins :
    ('a1 -> 'a1 -> bool) -> 'a1 -> int -> int -> int -> int list **)

let nupNdown5_spins leqb label orbital spin1 spin2 =
  nupNdown7_spins leqb label label orbital orbital spin1 spin2

(** val spinflip6_throws :
    ('a1 -> 'a1 -> bool) -> 'a1 -> int -> int -> int -> int -> bool **)

let spinflip6_throws _ _ orbital1 orbital2 spin1 spin2 =
  (||) ((=) orbital1 orbital2) ((=) spin1 spin2)

(** val spinflip6_ops :
    ('a1 -> 'a1 -> bool) -> 'a1 -> int -> int -> int -> int -> bool list **)

let spinflip6_ops _ _ _ _ _ _ =
  true :: (true :: (false :: (false :: [])))

(** val spinflip6_labels :
    ('a1 -> 'a1 -> bool) -> 'a1 -> int -> int -> int -> int -> 'a1 list **)

let spinflip6_labels _ label _ _ _ _ =
  label :: (label :: (label :: (label :: [])))

(** val spinflip6_orbitals :
    ('a1 -> 'a1 -> bool) -> 'a1 -> int -> int -> int -> int -> int list **)

let spinflip6_orbitals _ _ orbital1 orbital2 _ _ =
  orbital1 :: (orbital2 :: (orbital2 :: (orbital1 :: [])))

(** val spinflip6_spins :
    ('a1 -> 'a1 -> bool) -> 'a1 -> int -> int -> int -> int -> int list **)

let spinflip6_spins _ _ _ _ spin1 spin2 =
  spin1 :: (spin2 :: (spin1 :: (spin2 :: [])))

(** val pairHopping6_throws :
    ('a1 -> 'a1 -> bool) -> 'a1 -> int -> int -> int -> int -> bool **)

let pairHopping6_throws _ _ orbital1 orbital2 spin1 spin2 =
  (||) ((=) orbital1 orbital2) ((=) spin1 spin2)

(** val pairHopping6_ops :
    ('a1 -> 'a1 -> bool) -> 'a1 -> int -> int -> int -> int -> bool list **)

let pairHopping6_ops _ _ _ _ _ _ =
  true :: (true :: (false :: (false :: [])))

(** val pairHopping6_labels :
    ('a1 -> 'a1 -> bool) -> 'a1 -> int -> int -> int -> int -> 'a1 list **)

let pairHopping6_labels _ label _ _ _ _ =
  label :: (label :: (label :: (label :: [])))

(** val pairHopping6_orbitals :
    ('a1 -> 'a1 -> bool) -> 'a1 -> int -> int -> int -> int -> int list **)

let pairHopping6_orbitals _ _ orbital1 orbital2 _ _ =
  orbital1 :: (orbital1 :: (orbital2 :: (orbital2 :: [])))

(** val pairHopping6_spins :
    ('a1 -> 'a1 -> bool) -> 'a1 -> int -> int -> int -> int -> int list **)

let pairHopping6_spins _ _ _ _ spin1 spin2 =
  spin1 :: (spin2 :: (spin1 :: (spin2 :: [])))

(** val splusSminus4_throws :
    ('a1 -> 'a1 -> bool) -> 'a1 -> 'a1 -> int -> bool **)

let splusSminus4_throws _ _ _ _ =
  false

(** val splusSminus4_ops :
    ('a1 -> 'a1 -> bool) -> 'a1 -> 'a1 -> int -> bool list **)

let splusSminus4_ops _ _ _ _ =
  true :: (false :: (true :: (false :: [])))

(** val splusSminus4_labels :
    ('a1 -> 'a1 -> bool) -> 'a1 -> 'a1 -> int -> 'a1 list **)

let splusSminus4_labels _ label1 label2 _ =
  label1 :: (label1 :: (label2 :: (label2 :: [])))

(** val splusSminus4_orbitals :
    ('a1 -> 'a1 -> bool) -> 'a1 -> 'a1 -> int -> int list **)

let splusSminus4_orbitals _ _ _ orbital =
  orbital :: (orbital :: (orbital :: (orbital :: [])))

(** val splusSminus4_spins :
    ('a1 -> 'a1 -> bool) -> 'a1 -> 'a1 -> int -> int list **)

let splusSminus4_spins _ _ _ _ =
  spin_up :: (spin_down :: (spin_down :: (spin_up :: [])))

(** val sminusSplus4_throws :
    ('a1 -> 'a1 -> bool) -> 'a1 -> 'a1 -> int -> bool **)

let sminusSplus4_throws =
  splusSminus4_throws

(** val sminusSplus4_ops :
    ('a1 -> 'a1 -> bool) -> 'a1 -> 'a1 -> int -> bool list **)

let sminusSplus4_ops =
  splusSminus4_ops

(** val sminusSplus4_labels :
    ('a1 -> 'a1 -> bool) -> 'a1 -> 'a1 -> int -> 'a1 list **)

let sminusSplus4_labels =
  splusSminus4_labels

(** val sminusSplus4_orbitals :
    ('a1 -> 'a1 -> bool) -> 'a1 -> 'a1 -> int -> int list **)

let sminusSplus4_orbitals =
  splusSminus4_orbitals

(** val sminusSplus4_spins :
    ('a1 -> 'a1 -> bool) -> 'a1 -> 'a1 -> int -> int list **)

let sminusSplus4_spins _ _ _ _ =
  spin_down :: (spin_up :: (spin_up :: (spin_down :: [])))

(** val exWrongLabel : int **)

let exWrongLabel =
  Stdlib.Int.succ 0

(** val exWrongIndices : int **)

let exWrongIndices =
  Stdlib.Int.succ (Stdlib.Int.succ 0)

type config = { fix_getsite : bool; fix_shapecheck : bool }

(** val as_is : config **)

let as_is =
  { fix_getsite = false; fix_shapecheck = false }

(** val repaired : config **)

let repaired =
  { fix_getsite = true; fix_shapecheck = true }

type 'v vops = { vnz : ('v -> bool); veqb : ('v -> 'v -> bool);
                 vneg : ('v -> 'v); vsub : ('v -> 'v -> 'v);
                 vhalf : ('v -> 'v); vquart : ('v -> 'v); vdbl : ('v -> 'v);
                 vconj : ('v -> 'v) }

type ('l, 'v) term = { t_ops : bool list; t_labels : 'l list;
                       t_orbs : int list; t_spins : int list; t_val : 
                       'v }

(** val t_order : ('a1, 'a2) term -> int **)

let t_order t =
  length t.t_ops

type shape = int * int

type ('l, 'v) obs =
| ONone
| OSite of shape
| OTerms of ('l, 'v) term list
| ONat of int

type 'l site_map = ('l * shape) list

(** val find_site :
    ('a1 -> 'a1 -> bool) -> 'a1 -> 'a1 site_map -> shape option **)

let rec find_site leqb l = function
| [] -> None
| p :: m' ->
  let (k, s) = p in if leqb l k then Some s else find_site leqb l m'

(** val set_site :
    ('a1 -> 'a1 -> bool) -> 'a1 -> shape -> 'a1 site_map -> 'a1 site_map **)

let rec set_site leqb l s = function
| [] -> (l, s) :: []
| p :: m' ->
  let (k, s0) = p in
  if leqb l k then (l, s) :: m' else (k, s0) :: (set_site leqb l s m')

type ('l, 'v) term_map = (int * ('l, 'v) term list) list

(** val tm_get : int -> ('a1, 'a2) term_map -> ('a1, 'a2) term list **)

let rec tm_get n = function
| [] -> []
| p :: m' -> let (k, l) = p in if (=) k n then l else tm_get n m'

(** val tm_push :
    int -> ('a1, 'a2) term -> ('a1, 'a2) term_map -> ('a1, 'a2) term_map **)

let rec tm_push n t = function
| [] -> (n, (t :: [])) :: []
| p :: m' ->
  let (k, l) = p in
  if (=) k n then (k, (app l (t :: []))) :: m' else (k, l) :: (tm_push n t m')

type ('l, 'v) state = { sites : 'l site_map; terms : ('l, 'v) term_map;
                        maxorder : int }

(** val init : ('a1, 'a2) state **)

let init =
  { sites = []; terms = []; maxorder = 0 }

(** val ts_add : ('a1, 'a2) term -> ('a1, 'a2) state -> ('a1, 'a2) state **)

let ts_add t st =
  let n = t_order t in
  { sites = st.sites; terms = (tm_push n t st.terms); maxorder =
  (if Nat.ltb st.maxorder n then n else st.maxorder) }

(** val push_all :
    ('a1, 'a2) term list -> ('a1, 'a2) state -> ('a1, 'a2) state **)

let push_all ts st =
  fold_left (fun s t -> ts_add t s) ts st

(** val getTerms : ('a1, 'a2) state -> int -> ('a1, 'a2) term list **)

let getTerms st n =
  tm_get n st.terms

type ('l, 'v) w = ('l, 'v) term list * unit outcome

(** val wret : ('a1, 'a2) w **)

let wret =
  ([], (Done ()))

(** val wthrow : int -> ('a1, 'a2) w **)

let wthrow c =
  ([], (Throws c))

(** val woob : ('a1, 'a2) w **)

let woob =
  ([], OOB)

(** val wpush : ('a1, 'a2) term -> ('a1, 'a2) w **)

let wpush t =
  ((t :: []), (Done ()))

(** val wseq : ('a1, 'a2) w -> ('a1, 'a2) w -> ('a1, 'a2) w **)

let wseq a b =
  match snd a with
  | Done _ -> ((app (fst a) (fst b)), (snd b))
  | _ -> a

(** val wwhen : bool -> ('a1, 'a2) w -> ('a1, 'a2) w **)

let wwhen c a =
  if c then a else wret

(** val wfor_from : int -> int -> (int -> ('a1, 'a2) w) -> ('a1, 'a2) w **)

let rec wfor_from k i body =
  (fun fO fS n -> if n=0 then fO () else fS (n-1))
    (fun _ -> wret)
    (fun k' -> wseq (body i) (wfor_from k' (Stdlib.Int.succ i) body))
    k

(** val wfor : int -> (int -> ('a1, 'a2) w) -> ('a1, 'a2) w **)

let wfor n body =
  wfor_from n 0 body

(** val validate :
    ('a1 -> 'a1 -> bool) -> 'a1 site_map -> int -> 'a1 list -> int list ->
    int list -> unit outcome **)

let rec validate leqb m n ls os ss =
  (fun fO fS n -> if n=0 then fO () else fS (n-1))
    (fun _ -> Done ())
    (fun n' ->
    match ls with
    | [] -> OOB
    | l :: ls' ->
      (match os with
       | [] -> OOB
       | o :: os' ->
         (match ss with
          | [] -> OOB
          | s :: ss' ->
            (match find_site leqb l m with
             | Some s0 ->
               let (norb, nspin) = s0 in
               if (<=) norb o
               then Throws exWrongLabel
               else if (<=) nspin s
                    then Throws exWrongLabel
                    else validate leqb m n' ls' os' ss'
             | None -> Throws exWrongLabel))))
    n

(** val w_addTerm :
    ('a1 -> 'a1 -> bool) -> 'a2 vops -> 'a1 site_map -> ('a1, 'a2) term ->
    ('a1, 'a2) w **)

let w_addTerm leqb vo m t =
  match validate leqb m (t_order t) t.t_labels t.t_orbs t.t_spins with
  | Done _ -> wwhen (vo.vnz t.t_val) (wpush t)
  | Throws c -> wthrow c
  | _ -> woob

type ('l, 'v) fcall =
| FHopping7 of 'l * 'l * 'v * int * int * int * int
| FHopping5 of 'l * 'l * 'v * int * int
| FLevel4 of 'l * 'v * int * int
| FNupNdown7 of 'l * 'l * 'v * int * int * int * int
| FNupNdown6 of 'l * 'v * int * int * int * int
| FNupNdown4 of 'l * 'v * int * int
| FNupNdown5 of 'l * 'v * int * int * int
| FSpinflip6 of 'l * 'v * int * int * int * int
| FPairHopping6 of 'l * 'v * int * int * int * int
| FSplusSminus4 of 'l * 'l * 'v * int
| FSminusSplus4 of 'l * 'l * 'v * int

(** val mk :
    bool -> bool list -> 'a1 list -> int list -> int list -> 'a2 -> ('a1,
    'a2) term outcome **)

let mk throws ops ls os ss v =
  if throws
  then Throws exWrongIndices
  else Done { t_ops = ops; t_labels = ls; t_orbs = os; t_spins = ss; t_val =
         v }

(** val factory :
    ('a1 -> 'a1 -> bool) -> ('a1, 'a2) fcall -> ('a1, 'a2) term outcome **)

let factory leqb = function
| FHopping7 (l1, l2, v, o1, o2, s1, s2) ->
  mk (hopping7_throws leqb l1 l2 o1 o2 s1 s2)
    (hopping7_ops leqb l1 l2 o1 o2 s1 s2)
    (hopping7_labels leqb l1 l2 o1 o2 s1 s2)
    (hopping7_orbitals leqb l1 l2 o1 o2 s1 s2)
    (hopping7_spins leqb l1 l2 o1 o2 s1 s2) v
| FHopping5 (l1, l2, v, o, s) ->
  mk (hopping5_throws leqb l1 l2 o s) (hopping5_ops leqb l1 l2 o s)
    (hopping5_labels leqb l1 l2 o s) (hopping5_orbitals leqb l1 l2 o s)
    (hopping5_spins leqb l1 l2 o s) v
| FLevel4 (l, v, o, s) ->
  mk (level4_throws leqb l o s) (level4_ops leqb l o s)
    (level4_labels leqb l o s) (level4_orbitals leqb l o s)
    (level4_spins leqb l o s) v
| FNupNdown7 (l1, l2, v, o1, o2, s1, s2) ->
  mk (nupNdown7_throws leqb l1 l2 o1 o2 s1 s2)
    (nupNdown7_ops leqb l1 l2 o1 o2 s1 s2)
    (nupNdown7_labels leqb l1 l2 o1 o2 s1 s2)
    (nupNdown7_orbitals leqb l1 l2 o1 o2 s1 s2)
    (nupNdown7_spins leqb l1 l2 o1 o2 s1 s2) v
| FNupNdown6 (l, v, o1, o2, s1, s2) ->
  mk (nupNdown6_throws leqb l o1 o2 s1 s2) (nupNdown6_ops leqb l o1 o2 s1 s2)
    (nupNdown6_labels leqb l o1 o2 s1 s2)
    (nupNdown6_orbitals leqb l o1 o2 s1 s2)
    (nupNdown6_spins leqb l o1 o2 s1 s2) v
| FNupNdown4 (l, v, o1, o2) ->
  mk (nupNdown4_throws leqb l o1 o2) (nupNdown4_ops leqb l o1 o2)
    (nupNdown4_labels leqb l o1 o2) (nupNdown4_orbitals leqb l o1 o2)
    (nupNdown4_spins leqb l o1 o2) v
| FNupNdown5 (l, v, o, s1, s2) ->
  mk (nupNdown5_throws leqb l o s1 s2) (nupNdown5_ops leqb l o s1 s2)
    (nupNdown5_labels leqb l o s1 s2) (nupNdown5_orbitals leqb l o s1 s2)
    (nupNdown5_spins leqb l o s1 s2) v
| FSpinflip6 (l, v, o1, o2, s1, s2) ->
  mk (spinflip6_throws leqb l o1 o2 s1 s2) (spinflip6_ops leqb l o1 o2 s1 s2)
    (spinflip6_labels leqb l o1 o2 s1 s2)
    (spinflip6_orbitals leqb l o1 o2 s1 s2)
    (spinflip6_spins leqb l o1 o2 s1 s2) v
| FPairHopping6 (l, v, o1, o2, s1, s2) ->
  mk (pairHopping6_throws leqb l o1 o2 s1 s2)
    (pairHopping6_ops leqb l o1 o2 s1 s2)
    (pairHopping6_labels leqb l o1 o2 s1 s2)
    (pairHopping6_orbitals leqb l o1 o2 s1 s2)
    (pairHopping6_spins leqb l o1 o2 s1 s2) v
| FSplusSminus4 (l1, l2, v, o) ->
  mk (splusSminus4_throws leqb l1 l2 o) (splusSminus4_ops leqb l1 l2 o)
    (splusSminus4_labels leqb l1 l2 o) (splusSminus4_orbitals leqb l1 l2 o)
    (splusSminus4_spins leqb l1 l2 o) v
| FSminusSplus4 (l1, l2, v, o) ->
  mk (sminusSplus4_throws leqb l1 l2 o) (sminusSplus4_ops leqb l1 l2 o)
    (sminusSplus4_labels leqb l1 l2 o) (sminusSplus4_orbitals leqb l1 l2 o)
    (sminusSplus4_spins leqb l1 l2 o) v

(** val wpush_f : ('a1 -> 'a1 -> bool) -> ('a1, 'a2) fcall -> ('a1, 'a2) w **)

let wpush_f leqb f =
  match factory leqb f with
  | Done t -> wpush t
  | Throws c -> wthrow c
  | _ -> woob

(** val wadd_f :
    ('a1 -> 'a1 -> bool) -> 'a2 vops -> 'a1 site_map -> ('a1, 'a2) fcall ->
    ('a1, 'a2) w **)

let wadd_f leqb vo m f =
  match factory leqb f with
  | Done t -> w_addTerm leqb vo m t
  | Throws c -> wthrow c
  | _ -> woob

(** val addCoulombS :
    ('a1 -> 'a1 -> bool) -> 'a2 vops -> 'a1 site_map -> 'a1 -> 'a2 -> 'a2 ->
    ('a1, 'a2) w **)

let addCoulombS leqb vo m l u lev =
  match find_site leqb l m with
  | Some s ->
    let (norb, nspin) = s in
    wfor norb (fun i ->
      wfor nspin (fun z1 ->
        wseq (wwhen (vo.vnz lev) (wpush_f leqb (FLevel4 (l, lev, i, z1))))
          (wfor z1 (fun z2 ->
            wwhen (vo.vnz u) (wpush_f leqb (FNupNdown6 (l, u, i, i, z1, z2)))))))
  | None -> wthrow exWrongLabel

(** val addCoulombP :
    ('a1 -> 'a1 -> bool) -> 'a2 vops -> 'a1 site_map -> 'a1 -> 'a2 -> 'a2 ->
    'a2 -> 'a2 -> ('a1, 'a2) w **)

let addCoulombP leqb vo m l u up0 j lev =
  match find_site leqb l m with
  | Some s ->
    let (norb, nspin) = s in
    if (||) ((<=) norb (Stdlib.Int.succ 0)) ((<=) nspin (Stdlib.Int.succ 0))
    then wthrow exWrongIndices
    else wfor norb (fun i ->
           wfor nspin (fun z1 ->
             wseq
               (wwhen (vo.vnz lev) (wpush_f leqb (FLevel4 (l, lev, i, z1))))
               (wseq
                 (wfor norb (fun j0 ->
                   wwhen (negb ((=) i j0))
                     (wpush_f leqb (FNupNdown6 (l,
                       (vo.vhalf (vo.vsub up0 j)), i, j0, z1, z1)))))
                 (wfor z1 (fun z2 ->
                   wseq
                     (wwhen (vo.vnz u)
                       (wpush_f leqb (FNupNdown6 (l, u, i, i, z1, z2))))
                     (wfor norb (fun j0 ->
                       wwhen (negb ((=) i j0))
                         (wseq
                           (wwhen (vo.vnz up0)
                             (wpush_f leqb (FNupNdown6 (l, up0, i, j0, z1,
                               z2))))
                           (wwhen (vo.vnz j)
                             (wseq
                               (wpush_f leqb (FSpinflip6 (l, (vo.vneg j), i,
                                 j0, z1, z2)))
                               (wpush_f leqb (FPairHopping6 (l, (vo.vneg j),
                                 i, j0, z1, z2)))))))))))))
  | None -> wthrow exWrongLabel

(** val addCoulombP3 :
    ('a1 -> 'a1 -> bool) -> 'a2 vops -> 'a1 site_map -> 'a1 -> 'a2 -> 'a2 ->
    'a2 -> ('a1, 'a2) w **)

let addCoulombP3 leqb vo m l u j lev =
  addCoulombP leqb vo m l u (vo.vsub u (vo.vdbl j)) j lev

(** val addLevel :
    ('a1 -> 'a1 -> bool) -> 'a2 vops -> 'a1 site_map -> 'a1 -> 'a2 -> ('a1,
    'a2) w **)

let addLevel leqb vo m l lev =
  match find_site leqb l m with
  | Some s ->
    let (norb, nspin) = s in
    wfor norb (fun i ->
      wfor nspin (fun z0 ->
        wwhen (vo.vnz lev) (wpush_f leqb (FLevel4 (l, lev, i, z0)))))
  | None -> wthrow exWrongLabel

(** val addMagnetization :
    ('a1 -> 'a1 -> bool) -> 'a2 vops -> 'a1 site_map -> 'a1 -> 'a2 -> ('a1,
    'a2) w **)

let addMagnetization leqb vo m l mag =
  match find_site leqb l m with
  | Some s ->
    let (norb, nspin) = s in
    if negb ((=) nspin (Stdlib.Int.succ (Stdlib.Int.succ 0)))
    then wthrow exWrongIndices
    else wfor norb (fun i ->
           wseq (wpush_f leqb (FLevel4 (l, mag, i, spin_up)))
             (wpush_f leqb (FLevel4 (l, (vo.vneg mag), i, spin_down))))
  | None -> wthrow exWrongLabel

(** val cmp_spins : config -> shape -> shape -> int **)

let cmp_spins cfg sh1 sh2 =
  if cfg.fix_shapecheck then snd sh2 else snd sh1

(** val addSzSz :
    ('a1 -> 'a1 -> bool) -> 'a2 vops -> config -> 'a1 site_map -> 'a1 -> 'a1
    -> 'a2 -> ('a1, 'a2) w **)

let addSzSz leqb vo cfg m l1 l2 j =
  match find_site leqb l1 m with
  | Some sh1 ->
    (match find_site leqb l2 m with
     | Some sh2 ->
       let norb = fst sh1 in
       let nspin = snd sh1 in
       if (||) (negb ((=) norb (fst sh2)))
            (negb ((=) nspin (cmp_spins cfg sh1 sh2)))
       then wthrow exWrongIndices
       else if negb ((=) nspin (Stdlib.Int.succ (Stdlib.Int.succ 0)))
            then wthrow exWrongLabel
            else wfor norb (fun i ->
                   wseq
                     (wpush_f leqb (FNupNdown7 (l1, l2,
                       (vo.vquart (vo.vneg j)), i, i, spin_up, spin_down)))
                     (wseq
                       (wpush_f leqb (FNupNdown7 (l1, l2,
                         (vo.vquart (vo.vneg j)), i, i, spin_down, spin_up)))
                       (if negb (leqb l1 l2)
                        then wseq
                               (wpush_f leqb (FNupNdown7 (l1, l2,
                                 (vo.vquart j), i, i, spin_up, spin_up)))
                               (wpush_f leqb (FNupNdown7 (l1, l2,
                                 (vo.vquart j), i, i, spin_down, spin_down)))
                        else wseq
                               (wpush_f leqb (FLevel4 (l1, (vo.vquart j), i,
                                 spin_up)))
                               (wpush_f leqb (FLevel4 (l1, (vo.vquart j), i,
                                 spin_down))))))
     | None -> wthrow exWrongLabel)
  | None -> wthrow exWrongLabel

(** val addSS :
    ('a1 -> 'a1 -> bool) -> 'a2 vops -> config -> 'a1 site_map -> 'a1 -> 'a1
    -> 'a2 -> ('a1, 'a2) w **)

let addSS leqb vo cfg m l1 l2 j =
  match find_site leqb l1 m with
  | Some sh1 ->
    (match find_site leqb l2 m with
     | Some sh2 ->
       let norb = fst sh1 in
       let nspin = snd sh1 in
       if (||) (negb ((=) norb (fst sh2)))
            (negb ((=) nspin (cmp_spins cfg sh1 sh2)))
       then wthrow exWrongIndices
       else if negb ((=) nspin (Stdlib.Int.succ (Stdlib.Int.succ 0)))
            then wthrow exWrongLabel
            else wseq (addSzSz leqb vo cfg m l1 l2 j)
                   (wfor norb (fun i ->
                     wseq
                       (wpush_f leqb (FSplusSminus4 (l1, l2, (vo.vhalf j),
                         i)))
                       (wpush_f leqb (FSminusSplus4 (l1, l2, (vo.vhalf j),
                         i)))))
     | None -> wthrow exWrongLabel)
  | None -> wthrow exWrongLabel

(** val addHopping8 :
    ('a1 -> 'a1 -> bool) -> 'a2 vops -> 'a1 site_map -> 'a1 -> 'a1 -> 'a2 ->
    int -> int -> int -> int -> ('a1, 'a2) w **)

let addHopping8 leqb vo m l1 l2 t o1 o2 s1 s2 =
  match find_site leqb l1 m with
  | Some sh1 ->
    (match find_site leqb l2 m with
     | Some sh2 ->
       if (||)
            ((||) ((||) ((<=) (fst sh1) o1) ((<=) (fst sh2) o2))
              ((<=) (snd sh1) s1)) ((<=) (snd sh2) s2)
       then wthrow exWrongIndices
       else wseq (wadd_f leqb vo m (FHopping7 (l1, l2, t, o1, o2, s1, s2)))
              (wadd_f leqb vo m (FHopping7 (l2, l1, (vo.vconj t), o2, o1, s2,
                s1)))
     | None -> wthrow exWrongLabel)
  | None -> wthrow exWrongLabel

(** val addHopping7 :
    ('a1 -> 'a1 -> bool) -> 'a2 vops -> 'a1 site_map -> 'a1 -> 'a1 -> 'a2 ->
    int -> int -> int -> ('a1, 'a2) w **)

let addHopping7 leqb vo m l1 l2 t o1 o2 s =
  addHopping8 leqb vo m l1 l2 t o1 o2 s s

(** val addHopping6 :
    ('a1 -> 'a1 -> bool) -> 'a2 vops -> config -> 'a1 site_map -> 'a1 -> 'a1
    -> 'a2 -> int -> int -> ('a1, 'a2) w **)

let addHopping6 leqb vo cfg m l1 l2 t o1 o2 =
  match find_site leqb l1 m with
  | Some sh1 ->
    (match find_site leqb l2 m with
     | Some sh2 ->
       if (||) ((<=) (fst sh1) o1) ((<=) (fst sh2) o2)
       then wthrow exWrongIndices
       else let nspin = snd sh1 in
            if negb ((=) nspin (cmp_spins cfg sh1 sh2))
            then wthrow exWrongIndices
            else wfor nspin (fun z0 ->
                   addHopping8 leqb vo m l1 l2 t o1 o2 z0 z0)
     | None -> wthrow exWrongLabel)
  | None -> wthrow exWrongLabel

(** val addHopping4 :
    ('a1 -> 'a1 -> bool) -> 'a2 vops -> config -> 'a1 site_map -> 'a1 -> 'a1
    -> 'a2 -> ('a1, 'a2) w **)

let addHopping4 leqb vo cfg m l1 l2 t =
  match find_site leqb l1 m with
  | Some sh1 ->
    (match find_site leqb l2 m with
     | Some sh2 ->
       let norb = fst sh1 in
       let nspin = snd sh1 in
       if (||) (negb ((=) norb (fst sh2)))
            (negb ((=) nspin (cmp_spins cfg sh1 sh2)))
       then wthrow exWrongIndices
       else wfor nspin (fun z0 ->
              wfor norb (fun i -> addHopping8 leqb vo m l1 l2 t i i z0 z0))
     | None -> wthrow exWrongLabel)
  | None -> wthrow exWrongLabel

type ('l, 'v) pcall =
| PCoulombS of 'l * 'v * 'v
| PCoulombP of 'l * 'v * 'v * 'v * 'v
| PCoulombP3 of 'l * 'v * 'v * 'v
| PLevel of 'l * 'v
| PMagnetization of 'l * 'v
| PSzSz of 'l * 'l * 'v
| PSS of 'l * 'l * 'v
| PHopping8 of 'l * 'l * 'v * int * int * int * int
| PHopping7 of 'l * 'l * 'v * int * int * int
| PHopping6 of 'l * 'l * 'v * int * int
| PHopping4 of 'l * 'l * 'v

(** val preset :
    ('a1 -> 'a1 -> bool) -> 'a2 vops -> config -> 'a1 site_map -> ('a1, 'a2)
    pcall -> ('a1, 'a2) w **)

let preset leqb vo cfg m = function
| PCoulombS (l, u, lev) -> addCoulombS leqb vo m l u lev
| PCoulombP (l, u, up0, j, lev) -> addCoulombP leqb vo m l u up0 j lev
| PCoulombP3 (l, u, j, lev) -> addCoulombP3 leqb vo m l u j lev
| PLevel (l, lev) -> addLevel leqb vo m l lev
| PMagnetization (l, mag) -> addMagnetization leqb vo m l mag
| PSzSz (l1, l2, j) -> addSzSz leqb vo cfg m l1 l2 j
| PSS (l1, l2, j) -> addSS leqb vo cfg m l1 l2 j
| PHopping8 (l1, l2, t, o1, o2, s1, s2) ->
  addHopping8 leqb vo m l1 l2 t o1 o2 s1 s2
| PHopping7 (l1, l2, t, o1, o2, s) -> addHopping7 leqb vo m l1 l2 t o1 o2 s
| PHopping6 (l1, l2, t, o1, o2) -> addHopping6 leqb vo cfg m l1 l2 t o1 o2
| PHopping4 (l1, l2, t) -> addHopping4 leqb vo cfg m l1 l2 t

(** val getSite :
    ('a1 -> 'a1 -> bool) -> config -> ('a1, 'a2) state -> 'a1 -> ('a1, 'a2)
    obs outcome **)

let getSite leqb cfg st l =
  match find_site leqb l st.sites with
  | Some s -> if cfg.fix_getsite then Done (OSite s) else Throws exWrongLabel
  | None -> if cfg.fix_getsite then Throws exWrongLabel else OOB

(** val copy : ('a1, 'a2) state -> ('a1, 'a2) state **)

let copy st =
  { sites = st.sites; terms = st.terms; maxorder = st.maxorder }

type ('l, 'v) op =
| AddSite of 'l * int * int
| AddTerm of ('l, 'v) term
| AddFactoryTerm of ('l, 'v) fcall
| Preset of ('l, 'v) pcall
| GetSite of 'l
| GetTerms of int
| MaxOrder
| Copy

(** val effect :
    ('a1 -> 'a1 -> bool) -> 'a2 vops -> config -> 'a1 site_map -> ('a1, 'a2)
    op -> ('a1, 'a2) w **)

let effect leqb vo cfg m = function
| AddTerm t -> w_addTerm leqb vo m t
| AddFactoryTerm f -> wadd_f leqb vo m f
| Preset p -> preset leqb vo cfg m p
| _ -> wret

(** val result_of : unit outcome -> ('a1, 'a2) obs outcome **)

let result_of = function
| Done _ -> Done ONone
| OOB -> OOB
| Uninit -> Uninit
| Throws c -> Throws c
| OutOfFuel -> OutOfFuel

(** val step :
    ('a1 -> 'a1 -> bool) -> 'a2 vops -> config -> ('a1, 'a2) op -> ('a1, 'a2)
    state -> ('a1, 'a2) state * ('a1, 'a2) obs outcome **)

let step leqb vo cfg o st =
  match o with
  | AddSite (l, a, b) ->
    ({ sites = (set_site leqb l (a, b) st.sites); terms = st.terms;
      maxorder = st.maxorder }, (Done ONone))
  | GetSite l -> (st, (getSite leqb cfg st l))
  | GetTerms n -> (st, (Done (OTerms (getTerms st n))))
  | MaxOrder -> (st, (Done (ONat st.maxorder)))
  | Copy -> ((copy st), (Done ONone))
  | _ ->
    let w0 = effect leqb vo cfg st.sites o in
    ((push_all (fst w0) st), (result_of (snd w0)))

(** val run :
    ('a1 -> 'a1 -> bool) -> 'a2 vops -> config -> ('a1, 'a2) op list -> ('a1,
    'a2) state -> ('a1, 'a2) state **)

let run leqb vo cfg h st =
  fold_left (fun s o -> fst (step leqb vo cfg o s)) h st

(** val results :
    ('a1 -> 'a1 -> bool) -> 'a2 vops -> config -> ('a1, 'a2) op list -> ('a1,
    'a2) state -> ('a1, 'a2) obs outcome list **)

let rec results leqb vo cfg h st =
  match h with
  | [] -> []
  | o :: h' ->
    (snd (step leqb vo cfg o st)) :: (results leqb vo cfg h'
                                       (fst (step leqb vo cfg o st)))

(** val q_ops : q vops **)

let q_ops =
  { vnz = (fun q0 -> negb (Z.eqb q0.qnum Z0)); veqb = qeq_bool; vneg =
    (fun q0 -> qred (qopp q0)); vsub = (fun a b -> qred (qminus a b));
    vhalf = (fun q0 -> qred (qdiv q0 { qnum = (Zpos (XO XH)); qden = XH }));
    vquart = (fun q0 ->
    qred (qdiv q0 { qnum = (Zpos (XO (XO XH))); qden = XH })); vdbl =
    (fun q0 -> qred (qmult { qnum = (Zpos (XO XH)); qden = XH } q0)); vconj =
    (fun q0 -> q0) }

type qop = (int, q) op

type op0 = bool * int

(** val op_ann : op0 -> bool **)

let op_ann =
  fst

(** val op_idx : op0 -> int **)

let op_idx =
  snd

(** val cdag : int -> op0 **)

let cdag i =
  (false, i)

(** val cann : int -> op0 **)

let cann i =
  (true, i)

(** val flip_type : op0 -> op0 **)

let flip_type o =
  ((negb (fst o)), (snd o))

type state0 = bool list

(** val upd : int -> bool -> state0 -> state0 **)

let rec upd i v = function
| [] -> []
| b :: t ->
  ((fun fO fS n -> if n=0 then fO () else fS (n-1))
     (fun _ -> v :: t)
     (fun j -> b :: (upd j v t))
     i)

(** val par : int -> state0 -> bool **)

let rec par n s =
  (fun fO fS n -> if n=0 then fO () else fS (n-1))
    (fun _ -> false)
    (fun m -> match s with
              | [] -> false
              | b :: t -> xorb b (par m t))
    n

(** val act_op : op0 -> state0 -> (bool * state0) option outcome **)

let act_op o s =
  let i = op_idx o in
  if Nat.ltb i (length s)
  then let occ0 = nth i s false in
       if eqb occ0 (negb (op_ann o))
       then Done None
       else Done (Some ((par i s), (upd i (negb (op_ann o)) s)))
  else OOB

(** val act_mono : op0 list -> state0 -> (bool * state0) option outcome **)

let rec act_mono m s =
  match m with
  | [] -> Done (Some (false, s))
  | o :: rest ->
    (match act_mono rest s with
     | Done a ->
       (match a with
        | Some p ->
          let (sg, s') = p in
          (match act_op o s' with
           | Done a0 ->
             (match a0 with
              | Some p0 ->
                let (sg', s'') = p0 in Done (Some ((xorb sg sg'), s''))
              | None -> Done None)
           | x -> x)
        | None -> Done None)
     | x -> x)

(** val state_of_nat : int -> int -> state0 **)

let rec state_of_nat m n =
  (fun fO fS n -> if n=0 then fO () else fS (n-1))
    (fun _ -> [])
    (fun m' -> (Nat.odd n) :: (state_of_nat m' (Nat.div2 n)))
    m

(** val op_compare : op0 -> op0 -> comparison **)

let op_compare a b =
  if fst a
  then if fst b then Nat.compare (snd a) (snd b) else Gt
  else if fst b then Lt else Nat.compare (snd a) (snd b)

(** val op_eqb : op0 -> op0 -> bool **)

let op_eqb a b =
  match op_compare a b with
  | Eq -> true
  | _ -> false

(** val op_gtb : op0 -> op0 -> bool **)

let op_gtb a b =
  match op_compare a b with
  | Gt -> true
  | _ -> false

type monomial = op0 list

(** val lex_compare : monomial -> monomial -> comparison **)

let rec lex_compare a b =
  match a with
  | [] -> (match b with
           | [] -> Eq
           | _ :: _ -> Lt)
  | x :: a' ->
    (match b with
     | [] -> Gt
     | y :: b' ->
       (match op_compare x y with
        | Eq -> lex_compare a' b'
        | x0 -> x0))

(** val mono_compare : monomial -> monomial -> comparison **)

let mono_compare a b =
  match Nat.compare (length a) (length b) with
  | Eq -> lex_compare a b
  | x -> x

type 'k poly = (monomial * 'k) list

(** val insert :
    ('a1 -> 'a1 -> 'a1) -> ('a1 -> bool) -> monomial -> 'a1 -> 'a1 poly ->
    'a1 poly **)

let rec insert kadd kzero m c p = match p with
| [] -> (m, c) :: []
| p0 :: t ->
  let (m', c') = p0 in
  (match mono_compare m m' with
   | Eq -> let s = kadd c' c in if kzero s then t else (m', s) :: t
   | Lt -> (m, c) :: p
   | Gt -> (m', c') :: (insert kadd kzero m c t))

type 'k pass_result =
| PassVanish of 'k poly
| PassEnd of monomial * 'k * 'k poly * bool
| PassFail of 'k poly outcome

(** val pass :
    ('a1 -> 'a1) -> (monomial -> 'a1 -> 'a1 poly -> 'a1 poly outcome) -> op0
    list -> op0 -> op0 list -> 'a1 -> 'a1 poly -> bool -> 'a1 pass_result **)

let rec pass kopp rec0 done_rev prev rest c tgt swapped =
  match rest with
  | [] -> PassEnd ((rev (prev :: done_rev)), c, tgt, swapped)
  | cur :: rest' ->
    if op_eqb prev cur
    then PassVanish tgt
    else if op_gtb prev cur
         then let r =
                if op_eqb prev (flip_type cur)
                then rec0 (app (rev done_rev) rest') c tgt
                else Done tgt
              in
              (match r with
               | Done tgt' ->
                 pass kopp rec0 (cur :: done_rev) prev rest' (kopp c) tgt'
                   true
               | _ -> PassFail r)
         else pass kopp rec0 (prev :: done_rev) cur rest' c tgt swapped

(** val normalize_and_insert :
    ('a1 -> 'a1 -> 'a1) -> ('a1 -> 'a1) -> ('a1 -> bool) -> int -> monomial
    -> 'a1 -> 'a1 poly -> 'a1 poly outcome **)

let rec normalize_and_insert kadd kopp kzero fuel m c tgt =
  (fun fO fS n -> if n=0 then fO () else fS (n-1))
    (fun _ -> OutOfFuel)
    (fun f ->
    match m with
    | [] -> Done (insert kadd kzero m c tgt)
    | first :: rest ->
      (match rest with
       | [] -> Done (insert kadd kzero m c tgt)
       | _ :: _ ->
         (match pass kopp (normalize_and_insert kadd kopp kzero f) [] first
                  rest c tgt false with
          | PassVanish tgt' -> Done tgt'
          | PassEnd (m', c', tgt', swapped) ->
            if swapped
            then normalize_and_insert kadd kopp kzero f m' c' tgt'
            else Done (insert kadd kzero m' c' tgt')
          | PassFail e -> e)))
    fuel

(** val fuel_for : monomial -> int **)

let fuel_for m =
  add (mul (Stdlib.Int.succ (length m)) (Stdlib.Int.succ (length m)))
    (Stdlib.Int.succ (Stdlib.Int.succ 0))

(** val normalize :
    ('a1 -> 'a1 -> 'a1) -> ('a1 -> 'a1) -> ('a1 -> bool) -> monomial -> 'a1
    -> 'a1 poly -> 'a1 poly outcome **)

let normalize kadd kopp kzero m c tgt =
  normalize_and_insert kadd kopp kzero (fuel_for m) m c tgt

(** val padd :
    ('a1 -> 'a1 -> 'a1) -> ('a1 -> bool) -> 'a1 poly -> 'a1 poly -> 'a1 poly **)

let padd kadd kzero a b =
  fold_left (fun acc mc -> insert kadd kzero (fst mc) (snd mc) acc) b a

(** val pscale :
    ('a1 -> 'a1 -> 'a1) -> ('a1 -> bool) -> 'a1 -> 'a1 poly -> 'a1 poly **)

let pscale kmul kzero alpha a =
  if kzero alpha
  then []
  else map (fun mc -> ((fst mc), (kmul (snd mc) alpha))) a

(** val pmul :
    ('a1 -> 'a1 -> 'a1) -> ('a1 -> 'a1 -> 'a1) -> ('a1 -> 'a1) -> ('a1 ->
    bool) -> 'a1 poly -> 'a1 poly -> 'a1 poly outcome **)

let pmul kadd kmul kopp kzero a b =
  fold_left (fun acc mc ->
    fold_left (fun acc' mc' ->
      bind acc' (fun t ->
        normalize kadd kopp kzero (app (fst mc) (fst mc'))
          (kmul (snd mc) (snd mc')) t)) b acc) a (Done [])

(** val qadd : q -> q -> q **)

let qadd a b =
  qred (qplus a b)

(** val qmul : q -> q -> q **)

let qmul a b =
  qred (qmult a b)

(** val qsub : q -> q -> q **)

let qsub a b =
  qred (qminus a b)

(** val qopp0 : q -> q **)

let qopp0 a =
  qred (qopp a)

(** val qzero : q -> bool **)

let qzero a =
  Z.eqb a.qnum Z0

(** val qhalf : q **)

let qhalf =
  { qnum = (Zpos XH); qden = (XO XH) }

(** val factor_op : bool -> int -> op0 **)

let factor_op creation i1 =
  if creation then cdag i1 else cann i1

(** val factors :
    ('a1 -> int -> int -> int) -> int -> bool list -> 'a1 list -> int list ->
    int list -> op0 list outcome **)

let rec factors getIndex n ops ls os ss =
  (fun fO fS n -> if n=0 then fO () else fS (n-1))
    (fun _ -> Done [])
    (fun n' ->
    match ops with
    | [] -> OOB
    | o :: ops' ->
      (match ls with
       | [] -> OOB
       | l :: ls' ->
         (match os with
          | [] -> OOB
          | a :: os' ->
            (match ss with
             | [] -> OOB
             | s :: ss' ->
               bind (factors getIndex n' ops' ls' os' ss') (fun r -> Done
                 ((factor_op o (getIndex l a s)) :: r))))))
    n

(** val term_factors :
    ('a1 -> int -> int -> int) -> int -> ('a1, 'a2) term -> op0 list outcome **)

let term_factors getIndex n t =
  factors getIndex n t.t_ops t.t_labels t.t_orbs t.t_spins

(** val p_factor : 'a1 -> op0 -> 'a1 poly **)

let p_factor k1 o =
  ((o :: []), k1) :: []

(** val is_empty : 'a1 poly -> bool **)

let is_empty = function
| [] -> true
| _ :: _ -> false

(** val product_loop :
    'a1 -> ('a1 -> 'a1 -> 'a1) -> ('a1 -> 'a1 -> 'a1) -> ('a1 -> 'a1) -> ('a1
    -> bool) -> bool -> op0 list -> 'a1 poly -> bool -> 'a1 poly outcome **)

let rec product_loop k1 kadd kmul kopp kzero fixed fs tmp first =
  match fs with
  | [] -> Done tmp
  | f :: fs' ->
    let t1 = p_factor k1 f in
    if if fixed then first else is_empty tmp
    then product_loop k1 kadd kmul kopp kzero fixed fs' t1 false
    else bind (pmul kadd kmul kopp kzero tmp t1) (fun tmp' ->
           product_loop k1 kadd kmul kopp kzero fixed fs' tmp' false)

(** val add_term :
    'a2 -> ('a2 -> 'a2 -> 'a2) -> ('a2 -> 'a2 -> 'a2) -> ('a2 -> 'a2) -> ('a2
    -> bool) -> ('a1 -> int -> int -> int) -> bool -> int -> ('a1, 'a2) term
    -> 'a2 poly -> 'a2 poly outcome **)

let add_term k1 kadd kmul kopp kzero getIndex fixed n t h =
  bind (term_factors getIndex n t) (fun fs ->
    bind (product_loop k1 kadd kmul kopp kzero fixed fs [] true) (fun tmp ->
      Done (padd kadd kzero h (pscale kmul kzero t.t_val tmp))))

(** val add_terms :
    'a2 -> ('a2 -> 'a2 -> 'a2) -> ('a2 -> 'a2 -> 'a2) -> ('a2 -> 'a2) -> ('a2
    -> bool) -> ('a1 -> int -> int -> int) -> bool -> int -> ('a1, 'a2) term
    list -> 'a2 poly outcome -> 'a2 poly outcome **)

let add_terms k1 kadd kmul kopp kzero getIndex fixed n ts h =
  fold_left (fun acc t ->
    bind acc (add_term k1 kadd kmul kopp kzero getIndex fixed n t)) ts h

(** val orders_down : int -> int list **)

let rec orders_down n =
  (fun fO fS n -> if n=0 then fO () else fS (n-1))
    (fun _ -> [])
    (fun n' -> (Stdlib.Int.succ n') :: (orders_down n'))
    n

(** val prepare :
    'a2 -> ('a2 -> 'a2 -> 'a2) -> ('a2 -> 'a2 -> 'a2) -> ('a2 -> 'a2) -> ('a2
    -> bool) -> ('a1 -> int -> int -> int) -> bool -> ('a1, 'a2) state -> 'a2
    poly outcome **)

let prepare k1 kadd kmul kopp kzero getIndex fixed st =
  fold_left (fun acc n ->
    add_terms k1 kadd kmul kopp kzero getIndex fixed n (getTerms st n) acc)
    (orders_down st.maxorder) (Done [])

(** val state_eqb : state0 -> state0 -> bool **)

let rec state_eqb s t =
  match s with
  | [] -> (match t with
           | [] -> true
           | _ :: _ -> false)
  | a :: s' ->
    (match t with
     | [] -> false
     | b :: t' -> (&&) (eqb a b) (state_eqb s' t'))

(** val coef_mono :
    'a1 -> 'a1 -> ('a1 -> 'a1) -> monomial -> state0 -> state0 -> 'a1 **)

let coef_mono k0 k1 kopp m s t =
  match act_mono m s with
  | Done a ->
    (match a with
     | Some p ->
       let (sg, t') = p in
       if state_eqb t' t then if sg then kopp k1 else k1 else k0
     | None -> k0)
  | _ -> k0

(** val coef_poly :
    'a1 -> 'a1 -> ('a1 -> 'a1 -> 'a1) -> ('a1 -> 'a1 -> 'a1) -> ('a1 -> 'a1)
    -> 'a1 poly -> state0 -> state0 -> 'a1 **)

let coef_poly k0 k1 kadd kmul kopp p s t =
  fold_right (fun mc acc ->
    kadd (kmul (snd mc) (coef_mono k0 k1 kopp (fst mc) s t)) acc) k0 p

(** val ksum :
    'a1 -> ('a1 -> 'a1 -> 'a1) -> 'a2 list -> ('a2 -> 'a1) -> 'a1 **)

let ksum k0 kadd l f =
  fold_right (fun a acc -> kadd (f a) acc) k0 l

(** val doc_magnetization_half : bool **)

let doc_magnetization_half =
  false

type 'k mat = state0 -> state0 -> 'k

(** val m_zero : 'a1 -> 'a1 mat **)

let m_zero k0 _ _ =
  k0

(** val m_add : ('a1 -> 'a1 -> 'a1) -> 'a1 mat -> 'a1 mat -> 'a1 mat **)

let m_add kadd a b s t =
  kadd (a s t) (b s t)

(** val m_sub : ('a1 -> 'a1 -> 'a1) -> 'a1 mat -> 'a1 mat -> 'a1 mat **)

let m_sub ksub a b s t =
  ksub (a s t) (b s t)

(** val m_scale : ('a1 -> 'a1 -> 'a1) -> 'a1 -> 'a1 mat -> 'a1 mat **)

let m_scale kmul c a s t =
  kmul c (a s t)

(** val m_sum :
    'a1 -> ('a1 -> 'a1 -> 'a1) -> 'a2 list -> ('a2 -> 'a1 mat) -> 'a1 mat **)

let m_sum k0 kadd l f s t =
  ksum k0 kadd l (fun x -> f x s t)

(** val m_diag : 'a1 -> (state0 -> 'a1) -> 'a1 mat **)

let m_diag k0 f s t =
  if state_eqb s t then f s else k0

(** val occ : 'a1 -> 'a1 -> int -> state0 -> 'a1 **)

let occ k0 k1 i s =
  if nth i s false then k1 else k0

(** val m_n : 'a1 -> 'a1 -> int -> 'a1 mat **)

let m_n k0 k1 i =
  m_diag k0 (occ k0 k1 i)

(** val m_nn : 'a1 -> 'a1 -> ('a1 -> 'a1 -> 'a1) -> int -> int -> 'a1 mat **)

let m_nn k0 k1 kmul i j =
  m_diag k0 (fun s -> kmul (occ k0 k1 i s) (occ k0 k1 j s))

(** val rng : int -> int list **)

let rng n =
  seq 0 n

(** val m_sum_if :
    'a1 -> ('a1 -> 'a1 -> 'a1) -> 'a2 list -> ('a2 -> bool) -> ('a2 -> 'a1
    mat) -> 'a1 mat **)

let m_sum_if k0 kadd l p f =
  m_sum k0 kadd l (fun x -> if p x then f x else m_zero k0)

(** val up : int **)

let up =
  spin_up

(** val down : int **)

let down =
  spin_down

(** val term_ops :
    ('a2 -> int -> int -> int) -> ('a2, 'a1) term -> op0 list **)

let term_ops idx t =
  map (fun x -> if fst x then cdag (snd x) else cann (snd x))
    (combine t.t_ops
      (map (fun y -> idx (fst (fst y)) (snd (fst y)) (snd y))
        (combine (combine t.t_labels t.t_orbs) t.t_spins)))

(** val spec_level :
    'a1 -> 'a1 -> ('a1 -> 'a1 -> 'a1) -> ('a1 -> 'a1 -> 'a1) -> ('a2 -> int
    -> int -> int) -> 'a2 -> int -> int -> 'a1 -> 'a1 mat **)

let spec_level k0 k1 kadd kmul idx l norb nspin eps =
  m_sum k0 kadd (rng norb) (fun a ->
    m_sum k0 kadd (rng nspin) (fun z0 ->
      m_scale kmul eps (m_n k0 k1 (idx l a z0))))

(** val spec_coulombS :
    'a1 -> 'a1 -> ('a1 -> 'a1 -> 'a1) -> ('a1 -> 'a1 -> 'a1) -> ('a2 -> int
    -> int -> int) -> 'a2 -> int -> int -> 'a1 -> 'a1 -> 'a1 mat **)

let spec_coulombS k0 k1 kadd kmul idx l norb nspin u eps =
  m_add kadd
    (m_sum k0 kadd (rng norb) (fun a ->
      m_sum k0 kadd (rng nspin) (fun z0 ->
        m_sum_if k0 kadd (rng nspin) (fun z' -> Nat.ltb z' z0) (fun z' ->
          m_scale kmul u (m_nn k0 k1 kmul (idx l a z0) (idx l a z'))))))
    (spec_level k0 k1 kadd kmul idx l norb nspin eps)

(** val m_nud :
    'a1 -> 'a1 -> ('a1 -> 'a1 -> 'a1) -> ('a2 -> int -> int -> int) -> 'a2 ->
    int -> 'a1 mat **)

let m_nud k0 k1 ksub idx l a =
  m_sub ksub (m_n k0 k1 (idx l a up)) (m_n k0 k1 (idx l a down))

(** val m_sz :
    'a1 -> 'a1 -> ('a1 -> 'a1 -> 'a1) -> ('a1 -> 'a1 -> 'a1) -> 'a1 -> ('a2
    -> int -> int -> int) -> 'a2 -> int -> 'a1 mat **)

let m_sz k0 k1 kmul ksub khalf idx l a =
  m_scale kmul khalf (m_nud k0 k1 ksub idx l a)

(** val spec_magnetization_with :
    'a1 -> 'a1 -> ('a1 -> 'a1 -> 'a1) -> ('a1 -> 'a1 -> 'a1) -> ('a1 -> 'a1
    -> 'a1) -> 'a1 -> ('a2 -> int -> int -> int) -> bool -> 'a2 -> int -> 'a1
    -> 'a1 mat **)

let spec_magnetization_with k0 k1 kadd kmul ksub khalf idx half l norb mH =
  m_sum k0 kadd (rng norb) (fun a ->
    m_scale kmul mH
      (if half
       then m_sz k0 k1 kmul ksub khalf idx l a
       else m_nud k0 k1 ksub idx l a))

(** val spec_magnetization :
    'a1 -> 'a1 -> ('a1 -> 'a1 -> 'a1) -> ('a1 -> 'a1 -> 'a1) -> ('a1 -> 'a1
    -> 'a1) -> 'a1 -> ('a2 -> int -> int -> int) -> 'a2 -> int -> 'a1 -> 'a1
    mat **)

let spec_magnetization k0 k1 kadd kmul ksub khalf idx l norb mH =
  spec_magnetization_with k0 k1 kadd kmul ksub khalf idx
    doc_magnetization_half l norb mH

(** val x_quartic :
    'a1 -> 'a1 -> ('a1 -> 'a1) -> int -> int -> int -> int -> 'a1 mat **)

let x_quartic k0 k1 kopp a b c d =
  coef_mono k0 k1 kopp
    ((cdag a) :: ((cdag b) :: ((cann c) :: ((cann d) :: []))))

(** val x_hop : 'a1 -> 'a1 -> ('a1 -> 'a1) -> int -> int -> 'a1 mat **)

let x_hop k0 k1 kopp i j =
  coef_mono k0 k1 kopp ((cdag i) :: ((cann j) :: []))

(** val sz_val :
    'a1 -> 'a1 -> ('a1 -> 'a1 -> 'a1) -> ('a1 -> 'a1 -> 'a1) -> 'a1 -> ('a2
    -> int -> int -> int) -> 'a2 -> int -> state0 -> 'a1 **)

let sz_val k0 k1 kmul ksub khalf idx l a s =
  kmul khalf (ksub (occ k0 k1 (idx l a up) s) (occ k0 k1 (idx l a down) s))

(** val x_szsz :
    'a1 -> 'a1 -> ('a1 -> 'a1 -> 'a1) -> ('a1 -> 'a1 -> 'a1) -> 'a1 -> ('a2
    -> int -> int -> int) -> 'a2 -> 'a2 -> int -> 'a1 mat **)

let x_szsz k0 k1 kmul ksub khalf idx l1 l2 a =
  m_diag k0 (fun s ->
    kmul (sz_val k0 k1 kmul ksub khalf idx l1 a s)
      (sz_val k0 k1 kmul ksub khalf idx l2 a s))

(** val x_spsm :
    'a1 -> 'a1 -> ('a1 -> 'a1) -> ('a2 -> int -> int -> int) -> 'a2 -> 'a2 ->
    int -> 'a1 mat **)

let x_spsm k0 k1 kopp idx l1 l2 a =
  coef_mono k0 k1 kopp
    ((cdag (idx l1 a up)) :: ((cann (idx l1 a down)) :: ((cdag
                                                           (idx l2 a down)) :: (
    (cann (idx l2 a up)) :: []))))

(** val x_smsp :
    'a1 -> 'a1 -> ('a1 -> 'a1) -> ('a2 -> int -> int -> int) -> 'a2 -> 'a2 ->
    int -> 'a1 mat **)

let x_smsp k0 k1 kopp idx l1 l2 a =
  coef_mono k0 k1 kopp
    ((cdag (idx l1 a down)) :: ((cann (idx l1 a up)) :: ((cdag (idx l2 a up)) :: (
    (cann (idx l2 a down)) :: []))))

(** val xspec_coulombP :
    'a1 -> 'a1 -> ('a1 -> 'a1 -> 'a1) -> ('a1 -> 'a1 -> 'a1) -> ('a1 -> 'a1
    -> 'a1) -> ('a1 -> 'a1) -> 'a1 -> ('a2 -> int -> int -> int) -> 'a2 ->
    int -> int -> 'a1 -> 'a1 -> 'a1 -> 'a1 -> 'a1 mat **)

let xspec_coulombP k0 k1 kadd kmul ksub kopp khalf idx l norb nspin u up0 j eps =
  let pairs = fun f ->
    m_sum k0 kadd (rng norb) (fun a ->
      m_sum_if k0 kadd (rng norb) (fun a' -> negb ((=) a a')) (fun a' ->
        f a a'))
  in
  let spins_gt = fun f ->
    m_sum k0 kadd (rng nspin) (fun z0 ->
      m_sum_if k0 kadd (rng nspin) (fun z' -> Nat.ltb z' z0) (fun z' ->
        f z0 z'))
  in
  m_add kadd
    (m_add kadd
      (m_add kadd
        (m_add kadd
          (m_scale kmul u
            (m_sum k0 kadd (rng norb) (fun a ->
              spins_gt (fun z0 z' ->
                m_nn k0 k1 kmul (idx l a z0) (idx l a z')))))
          (m_scale kmul up0
            (pairs (fun a a' ->
              spins_gt (fun z0 z' ->
                m_nn k0 k1 kmul (idx l a z0) (idx l a' z'))))))
        (m_scale kmul (kmul (ksub up0 j) khalf)
          (pairs (fun a a' ->
            m_sum k0 kadd (rng nspin) (fun z0 ->
              m_nn k0 k1 kmul (idx l a z0) (idx l a' z0))))))
      (m_scale kmul (kopp j)
        (pairs (fun a a' ->
          spins_gt (fun z0 z' ->
            m_add kadd
              (x_quartic k0 k1 kopp (idx l a z0) (idx l a' z') (idx l a' z0)
                (idx l a z'))
              (x_quartic k0 k1 kopp (idx l a' z0) (idx l a' z') (idx l a z0)
                (idx l a z')))))))
    (spec_level k0 k1 kadd kmul idx l norb nspin eps)

(** val xspec_coulombP3 :
    'a1 -> 'a1 -> ('a1 -> 'a1 -> 'a1) -> ('a1 -> 'a1 -> 'a1) -> ('a1 -> 'a1
    -> 'a1) -> ('a1 -> 'a1) -> 'a1 -> ('a2 -> int -> int -> int) -> 'a2 ->
    int -> int -> 'a1 -> 'a1 -> 'a1 -> 'a1 mat **)

let xspec_coulombP3 k0 k1 kadd kmul ksub kopp khalf idx l norb nspin u j eps =
  xspec_coulombP k0 k1 kadd kmul ksub kopp khalf idx l norb nspin u
    (ksub u (kadd j j)) j eps

(** val xspec_szsz :
    'a1 -> 'a1 -> ('a1 -> 'a1 -> 'a1) -> ('a1 -> 'a1 -> 'a1) -> ('a1 -> 'a1
    -> 'a1) -> 'a1 -> ('a2 -> int -> int -> int) -> 'a2 -> 'a2 -> int -> 'a1
    -> 'a1 mat **)

let xspec_szsz k0 k1 kadd kmul ksub khalf idx l1 l2 norb j =
  m_sum k0 kadd (rng norb) (fun a ->
    m_scale kmul j (x_szsz k0 k1 kmul ksub khalf idx l1 l2 a))

(** val xspec_ss :
    'a1 -> 'a1 -> ('a1 -> 'a1 -> 'a1) -> ('a1 -> 'a1 -> 'a1) -> ('a1 -> 'a1
    -> 'a1) -> ('a1 -> 'a1) -> 'a1 -> ('a2 -> int -> int -> int) -> 'a2 ->
    'a2 -> int -> 'a1 -> 'a1 mat **)

let xspec_ss k0 k1 kadd kmul ksub kopp khalf idx l1 l2 norb j =
  m_sum k0 kadd (rng norb) (fun a ->
    m_scale kmul j
      (m_add kadd (x_szsz k0 k1 kmul ksub khalf idx l1 l2 a)
        (m_scale kmul khalf
          (m_add kadd (x_spsm k0 k1 kopp idx l1 l2 a)
            (x_smsp k0 k1 kopp idx l1 l2 a)))))

(** val xspec_hopping8 :
    'a1 -> 'a1 -> ('a1 -> 'a1 -> 'a1) -> ('a1 -> 'a1 -> 'a1) -> ('a1 -> 'a1)
    -> ('a1 -> 'a1) -> ('a2 -> int -> int -> int) -> 'a2 -> 'a2 -> 'a1 -> int
    -> int -> int -> int -> 'a1 mat **)

let xspec_hopping8 k0 k1 kadd kmul kopp kconj idx l1 l2 t o1 o2 s1 s2 =
  m_add kadd
    (m_scale kmul t (x_hop k0 k1 kopp (idx l1 o1 s1) (idx l2 o2 s2)))
    (m_scale kmul (kconj t) (x_hop k0 k1 kopp (idx l2 o2 s2) (idx l1 o1 s1)))

(** val xspec_hopping6 :
    'a1 -> 'a1 -> ('a1 -> 'a1 -> 'a1) -> ('a1 -> 'a1 -> 'a1) -> ('a1 -> 'a1)
    -> ('a1 -> 'a1) -> ('a2 -> int -> int -> int) -> 'a2 -> 'a2 -> int -> 'a1
    -> int -> int -> 'a1 mat **)

let xspec_hopping6 k0 k1 kadd kmul kopp kconj idx l1 l2 nspin t o1 o2 =
  m_sum k0 kadd (rng nspin) (fun z0 ->
    xspec_hopping8 k0 k1 kadd kmul kopp kconj idx l1 l2 t o1 o2 z0 z0)

(** val xspec_hopping4 :
    'a1 -> 'a1 -> ('a1 -> 'a1 -> 'a1) -> ('a1 -> 'a1 -> 'a1) -> ('a1 -> 'a1)
    -> ('a1 -> 'a1) -> ('a2 -> int -> int -> int) -> 'a2 -> 'a2 -> int -> int
    -> 'a1 -> 'a1 mat **)

let xspec_hopping4 k0 k1 kadd kmul kopp kconj idx l1 l2 norb nspin t =
  m_sum k0 kadd (rng nspin) (fun z0 ->
    m_sum k0 kadd (rng norb) (fun a ->
      xspec_hopping8 k0 k1 kadd kmul kopp kconj idx l1 l2 t a a z0 z0))

(** val x_Splus_tot :
    'a1 -> 'a1 -> ('a1 -> 'a1 -> 'a1) -> ('a1 -> 'a1) -> ('a2 -> int -> int
    -> int) -> ('a2 * int) list -> 'a1 mat **)

let x_Splus_tot k0 k1 kadd kopp idx sites0 =
  m_sum k0 kadd sites0 (fun ln ->
    m_sum k0 kadd (rng (snd ln)) (fun a ->
      x_hop k0 k1 kopp (idx (fst ln) a up) (idx (fst ln) a down)))

(** val x_Sminus_tot :
    'a1 -> 'a1 -> ('a1 -> 'a1 -> 'a1) -> ('a1 -> 'a1) -> ('a2 -> int -> int
    -> int) -> ('a2 * int) list -> 'a1 mat **)

let x_Sminus_tot k0 k1 kadd kopp idx sites0 =
  m_sum k0 kadd sites0 (fun ln ->
    m_sum k0 kadd (rng (snd ln)) (fun a ->
      x_hop k0 k1 kopp (idx (fst ln) a down) (idx (fst ln) a up)))

(** val x_term_matrix :
    'a1 -> 'a1 -> ('a1 -> 'a1 -> 'a1) -> ('a1 -> 'a1) -> ('a2 -> int -> int
    -> int) -> ('a2, 'a1) term -> 'a1 mat **)

let x_term_matrix k0 k1 kmul kopp idx t =
  m_scale kmul t.t_val (coef_mono k0 k1 kopp (term_ops idx t))

(** val code_magnetization_half : bool **)

let code_magnetization_half =
  false

(** val prepare_first_by_index : bool **)

let prepare_first_by_index =
  true

(** val cfg_fixed : bool **)

let cfg_fixed =
  prepare_first_by_index

(** val cfg_mag_half : bool **)

let cfg_mag_half =
  code_magnetization_half

(** val cfg_doc_half : bool **)

let cfg_doc_half =
  doc_magnetization_half

type qC = q * q

(** val c_of_q : q -> qC **)

let c_of_q q0 =
  (q0, { qnum = Z0; qden = XH })

(** val c0 : qC **)

let c0 =
  ({ qnum = Z0; qden = XH }, { qnum = Z0; qden = XH })

(** val c1 : qC **)

let c1 =
  ({ qnum = (Zpos XH); qden = XH }, { qnum = Z0; qden = XH })

(** val chalf : qC **)

let chalf =
  (qhalf, { qnum = Z0; qden = XH })

(** val cadd : qC -> qC -> qC **)

let cadd a b =
  ((qadd (fst a) (fst b)), (qadd (snd a) (snd b)))

(** val csub : qC -> qC -> qC **)

let csub a b =
  ((qsub (fst a) (fst b)), (qsub (snd a) (snd b)))

(** val copp : qC -> qC **)

let copp a =
  ((qopp0 (fst a)), (qopp0 (snd a)))

(** val cmul : qC -> qC -> qC **)

let cmul a b =
  ((qsub (qmul (fst a) (fst b)) (qmul (snd a) (snd b))),
    (qadd (qmul (fst a) (snd b)) (qmul (snd a) (fst b))))

(** val cconj : qC -> qC **)

let cconj a =
  ((fst a), (qopp0 (snd a)))

(** val czero : qC -> bool **)

let czero a =
  (&&) (qzero (fst a)) (qzero (snd a))

(** val ceqb : qC -> qC -> bool **)

let ceqb a b =
  (&&) (qeq_bool (fst a) (fst b)) (qeq_bool (snd a) (snd b))

(** val cscale : q -> qC -> qC **)

let cscale q0 a =
  ((qmul q0 (fst a)), (qmul q0 (snd a)))

(** val c_ops : qC vops **)

let c_ops =
  { vnz = (fun c -> negb (czero c)); veqb = ceqb; vneg = copp; vsub = csub;
    vhalf = (cscale { qnum = (Zpos XH); qden = (XO XH) }); vquart =
    (cscale { qnum = (Zpos XH); qden = (XO (XO XH)) }); vdbl =
    (cscale { qnum = (Zpos (XO XH)); qden = XH }); vconj = cconj }

(** val idx_of :
    (((int * int) * int) * int) list -> int -> int -> int -> int -> int **)

let idx_of tbl dflt l a z0 =
  match find (fun e ->
          let (p, _) = e in
          let (p0, z') = p in
          let (l', a') = p0 in (&&) ((&&) ((=) l l') ((=) a a')) ((=) z0 z'))
          tbl with
  | Some p -> let (_, i) = p in i
  | None -> dflt

(** val states_nat : int -> state0 list **)

let states_nat m =
  map (state_of_nat m)
    (seq 0 (Nat.pow (Stdlib.Int.succ (Stdlib.Int.succ 0)) m))

(** val tabulate : int -> 'a1 mat -> 'a1 list list **)

let tabulate m a =
  let sts = states_nat m in map (fun t -> map (fun s -> a s t) sts) sts

(** val shape_of : int site_map -> int -> shape **)

let shape_of m l =
  match find_site (=) l m with
  | Some sh -> sh
  | None -> (0, 0)

(** val spec_of_pcall :
    'a1 -> 'a1 -> ('a1 -> 'a1 -> 'a1) -> ('a1 -> 'a1 -> 'a1) -> ('a1 -> 'a1
    -> 'a1) -> ('a1 -> 'a1) -> 'a1 -> ('a1 -> 'a1) -> (int -> int -> int ->
    int) -> int site_map -> (int, 'a1) pcall -> 'a1 mat **)

let spec_of_pcall k0 k1 kadd kmul ksub kopp khalf kconj idx m = function
| PCoulombS (l, u, e) ->
  let sh = shape_of m l in
  spec_coulombS k0 k1 kadd kmul idx l (fst sh) (snd sh) u e
| PCoulombP (l, u, up0, j, e) ->
  let sh = shape_of m l in
  xspec_coulombP k0 k1 kadd kmul ksub kopp khalf idx l (fst sh) (snd sh) u
    up0 j e
| PCoulombP3 (l, u, j, e) ->
  let sh = shape_of m l in
  xspec_coulombP3 k0 k1 kadd kmul ksub kopp khalf idx l (fst sh) (snd sh) u j
    e
| PLevel (l, e) ->
  let sh = shape_of m l in
  spec_level k0 k1 kadd kmul idx l (fst sh) (snd sh) e
| PMagnetization (l, mH) ->
  let sh = shape_of m l in
  spec_magnetization k0 k1 kadd kmul ksub khalf idx l (fst sh) mH
| PSzSz (l1, l2, j) ->
  let sh = shape_of m l1 in
  xspec_szsz k0 k1 kadd kmul ksub khalf idx l1 l2 (fst sh) j
| PSS (l1, l2, j) ->
  let sh = shape_of m l1 in
  xspec_ss k0 k1 kadd kmul ksub kopp khalf idx l1 l2 (fst sh) j
| PHopping8 (l1, l2, t, o1, o2, s1, s2) ->
  xspec_hopping8 k0 k1 kadd kmul kopp kconj idx l1 l2 t o1 o2 s1 s2
| PHopping7 (l1, l2, t, o1, o2, s) ->
  xspec_hopping8 k0 k1 kadd kmul kopp kconj idx l1 l2 t o1 o2 s s
| PHopping6 (l1, l2, t, o1, o2) ->
  let sh = shape_of m l1 in
  xspec_hopping6 k0 k1 kadd kmul kopp kconj idx l1 l2 (snd sh) t o1 o2
| PHopping4 (l1, l2, t) ->
  let sh = shape_of m l1 in
  xspec_hopping4 k0 k1 kadd kmul kopp kconj idx l1 l2 (fst sh) (snd sh) t

(** val spec_of_history :
    'a1 -> 'a1 -> ('a1 -> 'a1 -> 'a1) -> ('a1 -> 'a1 -> 'a1) -> ('a1 -> 'a1
    -> 'a1) -> ('a1 -> 'a1) -> 'a1 -> ('a1 -> 'a1) -> (int -> int -> int ->
    int) -> int site_map -> (int, 'a1) op list -> 'a1 mat **)

let rec spec_of_history k0 k1 kadd kmul ksub kopp khalf kconj idx m = function
| [] -> m_zero k0
| o :: h' ->
  (match o with
   | AddSite (l, a, b) ->
     spec_of_history k0 k1 kadd kmul ksub kopp khalf kconj idx
       (set_site (=) l (a, b) m) h'
   | AddTerm t ->
     m_add kadd (x_term_matrix k0 k1 kmul kopp idx t)
       (spec_of_history k0 k1 kadd kmul ksub kopp khalf kconj idx m h')
   | Preset p ->
     m_add kadd (spec_of_pcall k0 k1 kadd kmul ksub kopp khalf kconj idx m p)
       (spec_of_history k0 k1 kadd kmul ksub kopp khalf kconj idx m h')
   | _ -> spec_of_history k0 k1 kadd kmul ksub kopp khalf kconj idx m h')

(** val spec_table :
    'a1 -> 'a1 -> ('a1 -> 'a1 -> 'a1) -> ('a1 -> 'a1 -> 'a1) -> ('a1 -> 'a1
    -> 'a1) -> ('a1 -> 'a1) -> 'a1 -> ('a1 -> 'a1) -> (int -> int -> int ->
    int) -> int -> (int, 'a1) op list -> 'a1 list list **)

let spec_table k0 k1 kadd kmul ksub kopp khalf kconj idx m h =
  tabulate m (spec_of_history k0 k1 kadd kmul ksub kopp khalf kconj idx [] h)

(** val model_lattice :
    'a1 vops -> config -> (int, 'a1) op list -> (int, 'a1) state **)

let model_lattice vo cfg h =
  run (=) vo cfg h init

(** val halve_magnetization :
    'a1 vops -> (int, 'a1) op list -> (int, 'a1) op list **)

let halve_magnetization vo h =
  map (fun o ->
    match o with
    | Preset p ->
      (match p with
       | PMagnetization (l, mH) -> Preset (PMagnetization (l, (vo.vhalf mH)))
       | _ -> o)
    | _ -> o) h

(** val model_poly :
    'a1 -> ('a1 -> 'a1 -> 'a1) -> ('a1 -> 'a1 -> 'a1) -> ('a1 -> 'a1) -> ('a1
    -> bool) -> 'a1 vops -> (int -> int -> int -> int) -> config -> bool ->
    bool -> (int, 'a1) op list -> 'a1 poly outcome **)

let model_poly k1 kadd kmul kopp kzero vo idx cfg fixed mag_half h =
  prepare k1 kadd kmul kopp kzero idx fixed
    (model_lattice vo cfg (if mag_half then halve_magnetization vo h else h))

(** val poly_table :
    'a1 -> 'a1 -> ('a1 -> 'a1 -> 'a1) -> ('a1 -> 'a1 -> 'a1) -> ('a1 -> 'a1)
    -> int -> 'a1 poly -> 'a1 list list **)

let poly_table k0 k1 kadd kmul kopp m p =
  tabulate m (coef_poly k0 k1 kadd kmul kopp p)

(** val model_results :
    'a1 vops -> config -> (int, 'a1) op list -> (int, 'a1) obs outcome list **)

let model_results vo cfg h =
  results (=) vo cfg h init

(** val spin_sites :
    'a1 vops -> config -> (int, 'a1) op list -> (int * int) list **)

let spin_sites vo cfg h =
  map (fun e -> ((fst e), (fst (snd e)))) (model_lattice vo cfg h).sites

(** val splus_table :
    'a1 -> 'a1 -> ('a1 -> 'a1 -> 'a1) -> ('a1 -> 'a1) -> 'a1 vops -> (int ->
    int -> int -> int) -> int -> config -> (int, 'a1) op list -> 'a1 list list **)

let splus_table k0 k1 kadd kopp vo idx m cfg h =
  tabulate m (x_Splus_tot k0 k1 kadd kopp idx (spin_sites vo cfg h))

(** val sminus_table :
    'a1 -> 'a1 -> ('a1 -> 'a1 -> 'a1) -> ('a1 -> 'a1) -> 'a1 vops -> (int ->
    int -> int -> int) -> int -> config -> (int, 'a1) op list -> 'a1 list list **)

let sminus_table k0 k1 kadd kopp vo idx m cfg h =
  tabulate m (x_Sminus_tot k0 k1 kadd kopp idx (spin_sites vo cfg h))

(** val q_eqb : q -> q -> bool **)

let q_eqb =
  qeq_bool

(** val q_id : q -> q **)

let q_id a =
  a

(** val q_spec_table :
    (((int * int) * int) * int) list -> int -> qop list -> q list list **)

let q_spec_table tbl m h =
  spec_table { qnum = Z0; qden = XH } { qnum = (Zpos XH); qden = XH } qadd
    qmul qsub qopp0 qhalf q_id (idx_of tbl m) m h

(** val q_model_poly :
    (((int * int) * int) * int) list -> int -> config -> bool -> bool -> qop
    list -> q poly outcome **)

let q_model_poly tbl m cfg fixed mag_half h =
  model_poly { qnum = (Zpos XH); qden = XH } qadd qmul qopp0 qzero q_ops
    (idx_of tbl m) cfg fixed mag_half h

(** val q_model_results : config -> qop list -> (int, q) obs outcome list **)

let q_model_results cfg h =
  model_results q_ops cfg h

(** val q_splus_table :
    (((int * int) * int) * int) list -> int -> config -> qop list -> q list
    list **)

let q_splus_table tbl m cfg h =
  splus_table { qnum = Z0; qden = XH } { qnum = (Zpos XH); qden = XH } qadd
    qopp0 q_ops (idx_of tbl m) m cfg h

(** val q_sminus_table :
    (((int * int) * int) * int) list -> int -> config -> qop list -> q list
    list **)

let q_sminus_table tbl m cfg h =
  sminus_table { qnum = Z0; qden = XH } { qnum = (Zpos XH); qden = XH } qadd
    qopp0 q_ops (idx_of tbl m) m cfg h

(** val q_poly_table : int -> q poly -> q list list **)

let q_poly_table m p =
  poly_table { qnum = Z0; qden = XH } { qnum = (Zpos XH); qden = XH } qadd
    qmul qopp0 m p

(** val c_poly_table : int -> qC poly -> qC list list **)

let c_poly_table m p =
  poly_table c0 c1 cadd cmul copp m p

type cop = (int, qC) op

(** val c_spec_table :
    (((int * int) * int) * int) list -> int -> cop list -> qC list list **)

let c_spec_table tbl m h =
  spec_table c0 c1 cadd cmul csub copp chalf cconj (idx_of tbl m) m h

(** val c_model_poly :
    (((int * int) * int) * int) list -> int -> config -> bool -> bool -> cop
    list -> qC poly outcome **)

let c_model_poly tbl m cfg fixed mag_half h =
  model_poly c1 cadd cmul copp czero c_ops (idx_of tbl m) cfg fixed mag_half h

(** val c_model_results : config -> cop list -> (int, qC) obs outcome list **)

let c_model_results cfg h =
  model_results c_ops cfg h

(** val c_splus_table :
    (((int * int) * int) * int) list -> int -> config -> cop list -> qC list
    list **)

let c_splus_table tbl m cfg h =
  splus_table c0 c1 cadd copp c_ops (idx_of tbl m) m cfg h

(** val c_sminus_table :
    (((int * int) * int) * int) list -> int -> config -> cop list -> qC list
    list **)

let c_sminus_table tbl m cfg h =
  sminus_table c0 c1 cadd copp c_ops (idx_of tbl m) m cfg h
