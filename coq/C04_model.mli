
val xorb : bool -> bool -> bool

val negb : bool -> bool

val fst : ('a1 * 'a2) -> 'a1

val snd : ('a1 * 'a2) -> 'a2

val length : 'a1 list -> int

val app : 'a1 list -> 'a1 list -> 'a1 list

type comparison =
| Eq
| Lt
| Gt

val compOpp : comparison -> comparison

val add : int -> int -> int

val mul : int -> int -> int

type positive =
| XI of positive
| XO of positive
| XH

type z =
| Z0
| Zpos of positive
| Zneg of positive

val eqb : bool -> bool -> bool

module Nat :
 sig
  val add : int -> int -> int

  val mul : int -> int -> int

  val ltb : int -> int -> bool

  val compare : int -> int -> comparison

  val even : int -> bool

  val odd : int -> bool

  val pow : int -> int -> int

  val div2 : int -> int
 end

module Pos :
 sig
  type mask =
  | IsNul
  | IsPos of positive
  | IsNeg
 end

module Coq_Pos :
 sig
  val succ : positive -> positive

  val add : positive -> positive -> positive

  val add_carry : positive -> positive -> positive

  val pred_double : positive -> positive

  type mask = Pos.mask =
  | IsNul
  | IsPos of positive
  | IsNeg

  val succ_double_mask : mask -> mask

  val double_mask : mask -> mask

  val double_pred_mask : positive -> mask

  val sub_mask : positive -> positive -> mask

  val sub_mask_carry : positive -> positive -> mask

  val sub : positive -> positive -> positive

  val mul : positive -> positive -> positive

  val size_nat : positive -> int

  val compare_cont : comparison -> positive -> positive -> comparison

  val compare : positive -> positive -> comparison

  val eqb : positive -> positive -> bool

  val ggcdn : int -> positive -> positive -> positive * (positive * positive)

  val ggcd : positive -> positive -> positive * (positive * positive)
 end

module Z :
 sig
  val double : z -> z

  val succ_double : z -> z

  val pred_double : z -> z

  val pos_sub : positive -> positive -> z

  val add : z -> z -> z

  val opp : z -> z

  val mul : z -> z -> z

  val compare : z -> z -> comparison

  val sgn : z -> z

  val eqb : z -> z -> bool

  val abs : z -> z

  val to_pos : z -> positive

  val ggcd : z -> z -> z * (z * z)
 end

val zeq_bool : z -> z -> bool

val nth : int -> 'a1 list -> 'a1 -> 'a1

val rev : 'a1 list -> 'a1 list

val map : ('a1 -> 'a2) -> 'a1 list -> 'a2 list

val fold_left : ('a1 -> 'a2 -> 'a1) -> 'a2 list -> 'a1 -> 'a1

val fold_right : ('a2 -> 'a1 -> 'a1) -> 'a1 -> 'a2 list -> 'a1

val find : ('a1 -> bool) -> 'a1 list -> 'a1 option

val combine : 'a1 list -> 'a2 list -> ('a1 * 'a2) list

val seq : int -> int -> int list

type q = { qnum : z; qden : positive }

val qeq_bool : q -> q -> bool

val qplus : q -> q -> q

val qmult : q -> q -> q

val qopp : q -> q

val qminus : q -> q -> q

val qinv : q -> q

val qdiv : q -> q -> q

val qred : q -> q

type 'a outcome =
| Done of 'a
| OOB
| Uninit
| Throws of int
| OutOfFuel

val bind : 'a1 outcome -> ('a1 -> 'a2 outcome) -> 'a2 outcome

val spin_down : int

val spin_up : int

val hopping7_throws :
  ('a1 -> 'a1 -> bool) -> 'a1 -> 'a1 -> int -> int -> int -> int -> bool

val hopping7_ops :
  ('a1 -> 'a1 -> bool) -> 'a1 -> 'a1 -> int -> int -> int -> int -> bool list

val hopping7_labels :
  ('a1 -> 'a1 -> bool) -> 'a1 -> 'a1 -> int -> int -> int -> int -> 'a1 list

val hopping7_orbitals :
  ('a1 -> 'a1 -> bool) -> 'a1 -> 'a1 -> int -> int -> int -> int -> int list

val hopping7_spins :
  ('a1 -> 'a1 -> bool) -> 'a1 -> 'a1 -> int -> int -> int -> int -> int list

val hopping5_throws : ('a1 -> 'a1 -> bool) -> 'a1 -> 'a1 -> int -> int -> bool

val hopping5_ops :
  ('a1 -> 'a1 -> bool) -> 'a1 -> 'a1 -> int -> int -> bool list

val hopping5_labels :
  ('a1 -> 'a1 -> bool) -> 'a1 -> 'a1 -> int -> int -> 'a1 list

val hopping5_orbitals :
  ('a1 -> 'a1 -> bool) -> 'a1 -> 'a1 -> int -> int -> int list

val hopping5_spins :
  ('a1 -> 'a1 -> bool) -> 'a1 -> 'a1 -> int -> int -> int list

val level4_throws : ('a1 -> 'a1 -> bool) -> 'a1 -> int -> int -> bool

val level4_ops : ('a1 -> 'a1 -> bool) -> 'a1 -> int -> int -> bool list

val level4_labels : ('a1 -> 'a1 -> bool) -> 'a1 -> int -> int -> 'a1 list

val level4_orbitals : ('a1 -> 'a1 -> bool) -> 'a1 -> int -> int -> int list

val level4_spins : ('a1 -> 'a1 -> bool) -> 'a1 -> int -> int -> int list

val nupNdown7_throws :
  ('a1 -> 'a1 -> bool) -> 'a1 -> 'a1 -> int -> int -> int -> int -> bool

val nupNdown7_ops :
  ('a1 -> 'a1 -> bool) -> 'a1 -> 'a1 -> int -> int -> int -> int -> bool list

val nupNdown7_labels :
  ('a1 -> 'a1 -> bool) -> 'a1 -> 'a1 -> int -> int -> int -> int -> 'a1 list

val nupNdown7_orbitals :
  ('a1 -> 'a1 -> bool) -> 'a1 -> 'a1 -> int -> int -> int -> int -> int list

val nupNdown7_spins :
  ('a1 -> 'a1 -> bool) -> 'a1 -> 'a1 -> int -> int -> int -> int -> int list

val nupNdown6_throws :
  ('a1 -> 'a1 -> bool) -> 'a1 -> int -> int -> int -> int -> bool

val nupNdown6_ops :
  ('a1 -> 'a1 -> bool) -> 'a1 -> int -> int -> int -> int -> bool list

val nupNdown6_labels :
  ('a1 -> 'a1 -> bool) -> 'a1 -> int -> int -> int -> int -> 'a1 list

val nupNdown6_orbitals :
  ('a1 -> 'a1 -> bool) -> 'a1 -> int -> int -> int -> int -> int list

val nupNdown6_spins :
  ('a1 -> 'a1 -> bool) -> 'a1 -> int -> int -> int -> int -> int list

val nupNdown4_throws : ('a1 -> 'a1 -> bool) -> 'a1 -> int -> int -> bool

val nupNdown4_ops : ('a1 -> 'a1 -> bool) -> 'a1 -> int -> int -> bool list

val nupNdown4_labels : ('a1 -> 'a1 -> bool) -> 'a1 -> int -> int -> 'a1 list

val nupNdown4_orbitals : ('a1 -> 'a1 -> bool) -> 'a1 -> int -> int -> int list

val nupNdown4_spins : ('a1 -> 'a1 -> bool) -> 'a1 -> int -> int -> int list

val nupNdown5_throws :
  ('a1 -> 'a1 -> bool) -> 'a1 -> int -> int -> int -> bool

val nupNdown5_ops :
  ('a1 -> 'a1 -> bool) -> 'a1 -> int -> int -> int -> bool list

val nupNdown5_labels :
  ('a1 -> 'a1 -> bool) -> 'a1 -> int -> int -> int -> 'a1 list

val nupNdown5_orbitals :
  ('a1 -> 'a1 -> bool) -> 'a1 -> int -> int -> int -> int list

val nupNdown5_spins :
  ('a1 -> 'a1 -> bool) -> 'a1 -> int -> int -> int -> int list

val spinflip6_throws :
  ('a1 -> 'a1 -> bool) -> 'a1 -> int -> int -> int -> int -> bool

val spinflip6_ops :
  ('a1 -> 'a1 -> bool) -> 'a1 -> int -> int -> int -> int -> bool list

val spinflip6_labels :
  ('a1 -> 'a1 -> bool) -> 'a1 -> int -> int -> int -> int -> 'a1 list

val spinflip6_orbitals :
  ('a1 -> 'a1 -> bool) -> 'a1 -> int -> int -> int -> int -> int list

val spinflip6_spins :
  ('a1 -> 'a1 -> bool) -> 'a1 -> int -> int -> int -> int -> int list

val pairHopping6_throws :
  ('a1 -> 'a1 -> bool) -> 'a1 -> int -> int -> int -> int -> bool

val pairHopping6_ops :
  ('a1 -> 'a1 -> bool) -> 'a1 -> int -> int -> int -> int -> bool list

val pairHopping6_labels :
  ('a1 -> 'a1 -> bool) -> 'a1 -> int -> int -> int -> int -> 'a1 list

val pairHopping6_orbitals :
  ('a1 -> 'a1 -> bool) -> 'a1 -> int -> int -> int -> int -> int list

val pairHopping6_spins :
  ('a1 -> 'a1 -> bool) -> 'a1 -> int -> int -> int -> int -> int list

val splusSminus4_throws : ('a1 -> 'a1 -> bool) -> 'a1 -> 'a1 -> int -> bool

val splusSminus4_ops : ('a1 -> 'a1 -> bool) -> 'a1 -> 'a1 -> int -> bool list

val splusSminus4_labels :
  ('a1 -> 'a1 -> bool) -> 'a1 -> 'a1 -> int -> 'a1 list

val splusSminus4_orbitals :
  ('a1 -> 'a1 -> bool) -> 'a1 -> 'a1 -> int -> int list

val splusSminus4_spins : ('a1 -> 'a1 -> bool) -> 'a1 -> 'a1 -> int -> int list

val sminusSplus4_throws : ('a1 -> 'a1 -> bool) -> 'a1 -> 'a1 -> int -> bool

val sminusSplus4_ops : ('a1 -> 'a1 -> bool) -> 'a1 -> 'a1 -> int -> bool list

val sminusSplus4_labels :
  ('a1 -> 'a1 -> bool) -> 'a1 -> 'a1 -> int -> 'a1 list

val sminusSplus4_orbitals :
  ('a1 -> 'a1 -> bool) -> 'a1 -> 'a1 -> int -> int list

val sminusSplus4_spins : ('a1 -> 'a1 -> bool) -> 'a1 -> 'a1 -> int -> int list

val exWrongLabel : int

val exWrongIndices : int

type config = { fix_getsite : bool; fix_shapecheck : bool }

val as_is : config

val repaired : config

type 'v vops = { vnz : ('v -> bool); veqb : ('v -> 'v -> bool);
                 vneg : ('v -> 'v); vsub : ('v -> 'v -> 'v);
                 vhalf : ('v -> 'v); vquart : ('v -> 'v); vdbl : ('v -> 'v);
                 vconj : ('v -> 'v) }

type ('l, 'v) term = { t_ops : bool list; t_labels : 'l list;
                       t_orbs : int list; t_spins : int list; t_val : 
                       'v }

val t_order : ('a1, 'a2) term -> int

type shape = int * int

type ('l, 'v) obs =
| ONone
| OSite of shape
| OTerms of ('l, 'v) term list
| ONat of int

type 'l site_map = ('l * shape) list

val find_site : ('a1 -> 'a1 -> bool) -> 'a1 -> 'a1 site_map -> shape option

val set_site :
  ('a1 -> 'a1 -> bool) -> 'a1 -> shape -> 'a1 site_map -> 'a1 site_map

type ('l, 'v) term_map = (int * ('l, 'v) term list) list

val tm_get : int -> ('a1, 'a2) term_map -> ('a1, 'a2) term list

val tm_push :
  int -> ('a1, 'a2) term -> ('a1, 'a2) term_map -> ('a1, 'a2) term_map

type ('l, 'v) state = { sites : 'l site_map; terms : ('l, 'v) term_map;
                        maxorder : int }

val init : ('a1, 'a2) state

val ts_add : ('a1, 'a2) term -> ('a1, 'a2) state -> ('a1, 'a2) state

val push_all : ('a1, 'a2) term list -> ('a1, 'a2) state -> ('a1, 'a2) state

val getTerms : ('a1, 'a2) state -> int -> ('a1, 'a2) term list

type ('l, 'v) w = ('l, 'v) term list * unit outcome

val wret : ('a1, 'a2) w

val wthrow : int -> ('a1, 'a2) w

val woob : ('a1, 'a2) w

val wpush : ('a1, 'a2) term -> ('a1, 'a2) w

val wseq : ('a1, 'a2) w -> ('a1, 'a2) w -> ('a1, 'a2) w

val wwhen : bool -> ('a1, 'a2) w -> ('a1, 'a2) w

val wfor_from : int -> int -> (int -> ('a1, 'a2) w) -> ('a1, 'a2) w

val wfor : int -> (int -> ('a1, 'a2) w) -> ('a1, 'a2) w

val validate :
  ('a1 -> 'a1 -> bool) -> 'a1 site_map -> int -> 'a1 list -> int list -> int
  list -> unit outcome

val w_addTerm :
  ('a1 -> 'a1 -> bool) -> 'a2 vops -> 'a1 site_map -> ('a1, 'a2) term ->
  ('a1, 'a2) w

type ('l, 'v) fcall =
| FHopping7 of 'l * 'l * 'v * int * int * int * int
| FHopping5 of 'l * 'l * 'v * int * int
| FLevel4 of 'l * 'v * int * int
| FNupNdown7 of 'l * 'l * 'v * int * int * int * int
| FNupNdown6 of 'l * 'v * int * int * int * int
| FNupNdown4 of 'l * 'v * int * int
| FNupNdown5 of 'l * 'v * int * int * int
| FSpinflip6 of 'l * 'v * int * int * int * int
| FPairHopping6 of 'l * 'v * int * int * int * int
| FSplusSminus4 of 'l * 'l * 'v * int
| FSminusSplus4 of 'l * 'l * 'v * int

val mk :
  bool -> bool list -> 'a1 list -> int list -> int list -> 'a2 -> ('a1, 'a2)
  term outcome

val factory :
  ('a1 -> 'a1 -> bool) -> ('a1, 'a2) fcall -> ('a1, 'a2) term outcome

val wpush_f : ('a1 -> 'a1 -> bool) -> ('a1, 'a2) fcall -> ('a1, 'a2) w

val wadd_f :
  ('a1 -> 'a1 -> bool) -> 'a2 vops -> 'a1 site_map -> ('a1, 'a2) fcall ->
  ('a1, 'a2) w

val addCoulombS :
  ('a1 -> 'a1 -> bool) -> 'a2 vops -> 'a1 site_map -> 'a1 -> 'a2 -> 'a2 ->
  ('a1, 'a2) w

val addCoulombP :
  ('a1 -> 'a1 -> bool) -> 'a2 vops -> 'a1 site_map -> 'a1 -> 'a2 -> 'a2 ->
  'a2 -> 'a2 -> ('a1, 'a2) w

val addCoulombP3 :
  ('a1 -> 'a1 -> bool) -> 'a2 vops -> 'a1 site_map -> 'a1 -> 'a2 -> 'a2 ->
  'a2 -> ('a1, 'a2) w

val addLevel :
  ('a1 -> 'a1 -> bool) -> 'a2 vops -> 'a1 site_map -> 'a1 -> 'a2 -> ('a1,
  'a2) w

val addMagnetization :
  ('a1 -> 'a1 -> bool) -> 'a2 vops -> 'a1 site_map -> 'a1 -> 'a2 -> ('a1,
  'a2) w

val cmp_spins : config -> shape -> shape -> int

val addSzSz :
  ('a1 -> 'a1 -> bool) -> 'a2 vops -> config -> 'a1 site_map -> 'a1 -> 'a1 ->
  'a2 -> ('a1, 'a2) w

val addSS :
  ('a1 -> 'a1 -> bool) -> 'a2 vops -> config -> 'a1 site_map -> 'a1 -> 'a1 ->
  'a2 -> ('a1, 'a2) w

val addHopping8 :
  ('a1 -> 'a1 -> bool) -> 'a2 vops -> 'a1 site_map -> 'a1 -> 'a1 -> 'a2 ->
  int -> int -> int -> int -> ('a1, 'a2) w

val addHopping7 :
  ('a1 -> 'a1 -> bool) -> 'a2 vops -> 'a1 site_map -> 'a1 -> 'a1 -> 'a2 ->
  int -> int -> int -> ('a1, 'a2) w

val addHopping6 :
  ('a1 -> 'a1 -> bool) -> 'a2 vops -> config -> 'a1 site_map -> 'a1 -> 'a1 ->
  'a2 -> int -> int -> ('a1, 'a2) w

val addHopping4 :
  ('a1 -> 'a1 -> bool) -> 'a2 vops -> config -> 'a1 site_map -> 'a1 -> 'a1 ->
  'a2 -> ('a1, 'a2) w

type ('l, 'v) pcall =
| PCoulombS of 'l * 'v * 'v
| PCoulombP of 'l * 'v * 'v * 'v * 'v
| PCoulombP3 of 'l * 'v * 'v * 'v
| PLevel of 'l * 'v
| PMagnetization of 'l * 'v
| PSzSz of 'l * 'l * 'v
| PSS of 'l * 'l * 'v
| PHopping8 of 'l * 'l * 'v * int * int * int * int
| PHopping7 of 'l * 'l * 'v * int * int * int
| PHopping6 of 'l * 'l * 'v * int * int
| PHopping4 of 'l * 'l * 'v

val preset :
  ('a1 -> 'a1 -> bool) -> 'a2 vops -> config -> 'a1 site_map -> ('a1, 'a2)
  pcall -> ('a1, 'a2) w

val getSite :
  ('a1 -> 'a1 -> bool) -> config -> ('a1, 'a2) state -> 'a1 -> ('a1, 'a2) obs
  outcome

val copy : ('a1, 'a2) state -> ('a1, 'a2) state

type ('l, 'v) op =
| AddSite of 'l * int * int
| AddTerm of ('l, 'v) term
| AddFactoryTerm of ('l, 'v) fcall
| Preset of ('l, 'v) pcall
| GetSite of 'l
| GetTerms of int
| MaxOrder
| Copy

val effect :
  ('a1 -> 'a1 -> bool) -> 'a2 vops -> config -> 'a1 site_map -> ('a1, 'a2) op
  -> ('a1, 'a2) w

val result_of : unit outcome -> ('a1, 'a2) obs outcome

val step :
  ('a1 -> 'a1 -> bool) -> 'a2 vops -> config -> ('a1, 'a2) op -> ('a1, 'a2)
  state -> ('a1, 'a2) state * ('a1, 'a2) obs outcome

val run :
  ('a1 -> 'a1 -> bool) -> 'a2 vops -> config -> ('a1, 'a2) op list -> ('a1,
  'a2) state -> ('a1, 'a2) state

val results :
  ('a1 -> 'a1 -> bool) -> 'a2 vops -> config -> ('a1, 'a2) op list -> ('a1,
  'a2) state -> ('a1, 'a2) obs outcome list

val q_ops : q vops

type qop = (int, q) op

type op0 = bool * int

val op_ann : op0 -> bool

val op_idx : op0 -> int

val cdag : int -> op0

val cann : int -> op0

val flip_type : op0 -> op0

type state0 = bool list

val upd : int -> bool -> state0 -> state0

val par : int -> state0 -> bool

val act_op : op0 -> state0 -> (bool * state0) option outcome

val act_mono : op0 list -> state0 -> (bool * state0) option outcome

val state_of_nat : int -> int -> state0

val op_compare : op0 -> op0 -> comparison

val op_eqb : op0 -> op0 -> bool

val op_gtb : op0 -> op0 -> bool

type monomial = op0 list

val lex_compare : monomial -> monomial -> comparison

val mono_compare : monomial -> monomial -> comparison

type 'k poly = (monomial * 'k) list

val insert :
  ('a1 -> 'a1 -> 'a1) -> ('a1 -> bool) -> monomial -> 'a1 -> 'a1 poly -> 'a1
  poly

type 'k pass_result =
| PassVanish of 'k poly
| PassEnd of monomial * 'k * 'k poly * bool
| PassFail of 'k poly outcome

val pass :
  ('a1 -> 'a1) -> (monomial -> 'a1 -> 'a1 poly -> 'a1 poly outcome) -> op0
  list -> op0 -> op0 list -> 'a1 -> 'a1 poly -> bool -> 'a1 pass_result

val normalize_and_insert :
  ('a1 -> 'a1 -> 'a1) -> ('a1 -> 'a1) -> ('a1 -> bool) -> int -> monomial ->
  'a1 -> 'a1 poly -> 'a1 poly outcome

val fuel_for : monomial -> int

val normalize :
  ('a1 -> 'a1 -> 'a1) -> ('a1 -> 'a1) -> ('a1 -> bool) -> monomial -> 'a1 ->
  'a1 poly -> 'a1 poly outcome

val padd :
  ('a1 -> 'a1 -> 'a1) -> ('a1 -> bool) -> 'a1 poly -> 'a1 poly -> 'a1 poly

val pscale :
  ('a1 -> 'a1 -> 'a1) -> ('a1 -> bool) -> 'a1 -> 'a1 poly -> 'a1 poly

val pmul :
  ('a1 -> 'a1 -> 'a1) -> ('a1 -> 'a1 -> 'a1) -> ('a1 -> 'a1) -> ('a1 -> bool)
  -> 'a1 poly -> 'a1 poly -> 'a1 poly outcome

val qadd : q -> q -> q

val qmul : q -> q -> q

val qsub : q -> q -> q

val qopp0 : q -> q

val qzero : q -> bool

val qhalf : q

val factor_op : bool -> int -> op0

val factors :
  ('a1 -> int -> int -> int) -> int -> bool list -> 'a1 list -> int list ->
  int list -> op0 list outcome

val term_factors :
  ('a1 -> int -> int -> int) -> int -> ('a1, 'a2) term -> op0 list outcome

val p_factor : 'a1 -> op0 -> 'a1 poly

val is_empty : 'a1 poly -> bool

val product_loop :
  'a1 -> ('a1 -> 'a1 -> 'a1) -> ('a1 -> 'a1 -> 'a1) -> ('a1 -> 'a1) -> ('a1
  -> bool) -> bool -> op0 list -> 'a1 poly -> bool -> 'a1 poly outcome

val add_term :
  'a2 -> ('a2 -> 'a2 -> 'a2) -> ('a2 -> 'a2 -> 'a2) -> ('a2 -> 'a2) -> ('a2
  -> bool) -> ('a1 -> int -> int -> int) -> bool -> int -> ('a1, 'a2) term ->
  'a2 poly -> 'a2 poly outcome

val add_terms :
  'a2 -> ('a2 -> 'a2 -> 'a2) -> ('a2 -> 'a2 -> 'a2) -> ('a2 -> 'a2) -> ('a2
  -> bool) -> ('a1 -> int -> int -> int) -> bool -> int -> ('a1, 'a2) term
  list -> 'a2 poly outcome -> 'a2 poly outcome

val orders_down : int -> int list

val prepare :
  'a2 -> ('a2 -> 'a2 -> 'a2) -> ('a2 -> 'a2 -> 'a2) -> ('a2 -> 'a2) -> ('a2
  -> bool) -> ('a1 -> int -> int -> int) -> bool -> ('a1, 'a2) state -> 'a2
  poly outcome

val state_eqb : state0 -> state0 -> bool

val coef_mono :
  'a1 -> 'a1 -> ('a1 -> 'a1) -> monomial -> state0 -> state0 -> 'a1

val coef_poly :
  'a1 -> 'a1 -> ('a1 -> 'a1 -> 'a1) -> ('a1 -> 'a1 -> 'a1) -> ('a1 -> 'a1) ->
  'a1 poly -> state0 -> state0 -> 'a1

val ksum : 'a1 -> ('a1 -> 'a1 -> 'a1) -> 'a2 list -> ('a2 -> 'a1) -> 'a1

val doc_magnetization_half : bool

type 'k mat = state0 -> state0 -> 'k

val m_zero : 'a1 -> 'a1 mat

val m_add : ('a1 -> 'a1 -> 'a1) -> 'a1 mat -> 'a1 mat -> 'a1 mat

val m_sub : ('a1 -> 'a1 -> 'a1) -> 'a1 mat -> 'a1 mat -> 'a1 mat

val m_scale : ('a1 -> 'a1 -> 'a1) -> 'a1 -> 'a1 mat -> 'a1 mat

val m_sum :
  'a1 -> ('a1 -> 'a1 -> 'a1) -> 'a2 list -> ('a2 -> 'a1 mat) -> 'a1 mat

val m_diag : 'a1 -> (state0 -> 'a1) -> 'a1 mat

val occ : 'a1 -> 'a1 -> int -> state0 -> 'a1

val m_n : 'a1 -> 'a1 -> int -> 'a1 mat

val m_nn : 'a1 -> 'a1 -> ('a1 -> 'a1 -> 'a1) -> int -> int -> 'a1 mat

val rng : int -> int list

val m_sum_if :
  'a1 -> ('a1 -> 'a1 -> 'a1) -> 'a2 list -> ('a2 -> bool) -> ('a2 -> 'a1 mat)
  -> 'a1 mat

val up : int

val down : int

val term_ops : ('a2 -> int -> int -> int) -> ('a2, 'a1) term -> op0 list

val spec_level :
  'a1 -> 'a1 -> ('a1 -> 'a1 -> 'a1) -> ('a1 -> 'a1 -> 'a1) -> ('a2 -> int ->
  int -> int) -> 'a2 -> int -> int -> 'a1 -> 'a1 mat

val spec_coulombS :
  'a1 -> 'a1 -> ('a1 -> 'a1 -> 'a1) -> ('a1 -> 'a1 -> 'a1) -> ('a2 -> int ->
  int -> int) -> 'a2 -> int -> int -> 'a1 -> 'a1 -> 'a1 mat

val m_nud :
  'a1 -> 'a1 -> ('a1 -> 'a1 -> 'a1) -> ('a2 -> int -> int -> int) -> 'a2 ->
  int -> 'a1 mat

val m_sz :
  'a1 -> 'a1 -> ('a1 -> 'a1 -> 'a1) -> ('a1 -> 'a1 -> 'a1) -> 'a1 -> ('a2 ->
  int -> int -> int) -> 'a2 -> int -> 'a1 mat

val spec_magnetization_with :
  'a1 -> 'a1 -> ('a1 -> 'a1 -> 'a1) -> ('a1 -> 'a1 -> 'a1) -> ('a1 -> 'a1 ->
  'a1) -> 'a1 -> ('a2 -> int -> int -> int) -> bool -> 'a2 -> int -> 'a1 ->
  'a1 mat

val spec_magnetization :
  'a1 -> 'a1 -> ('a1 -> 'a1 -> 'a1) -> ('a1 -> 'a1 -> 'a1) -> ('a1 -> 'a1 ->
  'a1) -> 'a1 -> ('a2 -> int -> int -> int) -> 'a2 -> int -> 'a1 -> 'a1 mat

val x_quartic :
  'a1 -> 'a1 -> ('a1 -> 'a1) -> int -> int -> int -> int -> 'a1 mat

val x_hop : 'a1 -> 'a1 -> ('a1 -> 'a1) -> int -> int -> 'a1 mat

val sz_val :
  'a1 -> 'a1 -> ('a1 -> 'a1 -> 'a1) -> ('a1 -> 'a1 -> 'a1) -> 'a1 -> ('a2 ->
  int -> int -> int) -> 'a2 -> int -> state0 -> 'a1

val x_szsz :
  'a1 -> 'a1 -> ('a1 -> 'a1 -> 'a1) -> ('a1 -> 'a1 -> 'a1) -> 'a1 -> ('a2 ->
  int -> int -> int) -> 'a2 -> 'a2 -> int -> 'a1 mat

val x_spsm :
  'a1 -> 'a1 -> ('a1 -> 'a1) -> ('a2 -> int -> int -> int) -> 'a2 -> 'a2 ->
  int -> 'a1 mat

val x_smsp :
  'a1 -> 'a1 -> ('a1 -> 'a1) -> ('a2 -> int -> int -> int) -> 'a2 -> 'a2 ->
  int -> 'a1 mat

val xspec_coulombP :
  'a1 -> 'a1 -> ('a1 -> 'a1 -> 'a1) -> ('a1 -> 'a1 -> 'a1) -> ('a1 -> 'a1 ->
  'a1) -> ('a1 -> 'a1) -> 'a1 -> ('a2 -> int -> int -> int) -> 'a2 -> int ->
  int -> 'a1 -> 'a1 -> 'a1 -> 'a1 -> 'a1 mat

val xspec_coulombP3 :
  'a1 -> 'a1 -> ('a1 -> 'a1 -> 'a1) -> ('a1 -> 'a1 -> 'a1) -> ('a1 -> 'a1 ->
  'a1) -> ('a1 -> 'a1) -> 'a1 -> ('a2 -> int -> int -> int) -> 'a2 -> int ->
  int -> 'a1 -> 'a1 -> 'a1 -> 'a1 mat

val xspec_szsz :
  'a1 -> 'a1 -> ('a1 -> 'a1 -> 'a1) -> ('a1 -> 'a1 -> 'a1) -> ('a1 -> 'a1 ->
  'a1) -> 'a1 -> ('a2 -> int -> int -> int) -> 'a2 -> 'a2 -> int -> 'a1 ->
  'a1 mat

val xspec_ss :
  'a1 -> 'a1 -> ('a1 -> 'a1 -> 'a1) -> ('a1 -> 'a1 -> 'a1) -> ('a1 -> 'a1 ->
  'a1) -> ('a1 -> 'a1) -> 'a1 -> ('a2 -> int -> int -> int) -> 'a2 -> 'a2 ->
  int -> 'a1 -> 'a1 mat

val xspec_hopping8 :
  'a1 -> 'a1 -> ('a1 -> 'a1 -> 'a1) -> ('a1 -> 'a1 -> 'a1) -> ('a1 -> 'a1) ->
  ('a1 -> 'a1) -> ('a2 -> int -> int -> int) -> 'a2 -> 'a2 -> 'a1 -> int ->
  int -> int -> int -> 'a1 mat

val xspec_hopping6 :
  'a1 -> 'a1 -> ('a1 -> 'a1 -> 'a1) -> ('a1 -> 'a1 -> 'a1) -> ('a1 -> 'a1) ->
  ('a1 -> 'a1) -> ('a2 -> int -> int -> int) -> 'a2 -> 'a2 -> int -> 'a1 ->
  int -> int -> 'a1 mat

val xspec_hopping4 :
  'a1 -> 'a1 -> ('a1 -> 'a1 -> 'a1) -> ('a1 -> 'a1 -> 'a1) -> ('a1 -> 'a1) ->
  ('a1 -> 'a1) -> ('a2 -> int -> int -> int) -> 'a2 -> 'a2 -> int -> int ->
  'a1 -> 'a1 mat

val x_Splus_tot :
  'a1 -> 'a1 -> ('a1 -> 'a1 -> 'a1) -> ('a1 -> 'a1) -> ('a2 -> int -> int ->
  int) -> ('a2 * int) list -> 'a1 mat

val x_Sminus_tot :
  'a1 -> 'a1 -> ('a1 -> 'a1 -> 'a1) -> ('a1 -> 'a1) -> ('a2 -> int -> int ->
  int) -> ('a2 * int) list -> 'a1 mat

val x_term_matrix :
  'a1 -> 'a1 -> ('a1 -> 'a1 -> 'a1) -> ('a1 -> 'a1) -> ('a2 -> int -> int ->
  int) -> ('a2, 'a1) term -> 'a1 mat

val code_magnetization_half : bool

val prepare_first_by_index : bool

val cfg_fixed : bool

val cfg_mag_half : bool

val cfg_doc_half : bool

type qC = q * q

val c_of_q : q -> qC

val c0 : qC

val c1 : qC

val chalf : qC

val cadd : qC -> qC -> qC

val csub : qC -> qC -> qC

val copp : qC -> qC

val cmul : qC -> qC -> qC

val cconj : qC -> qC

val czero : qC -> bool

val ceqb : qC -> qC -> bool

val cscale : q -> qC -> qC

val c_ops : qC vops

val idx_of :
  (((int * int) * int) * int) list -> int -> int -> int -> int -> int

val states_nat : int -> state0 list

val tabulate : int -> 'a1 mat -> 'a1 list list

val shape_of : int site_map -> int -> shape

val spec_of_pcall :
  'a1 -> 'a1 -> ('a1 -> 'a1 -> 'a1) -> ('a1 -> 'a1 -> 'a1) -> ('a1 -> 'a1 ->
  'a1) -> ('a1 -> 'a1) -> 'a1 -> ('a1 -> 'a1) -> (int -> int -> int -> int)
  -> int site_map -> (int, 'a1) pcall -> 'a1 mat

val spec_of_history :
  'a1 -> 'a1 -> ('a1 -> 'a1 -> 'a1) -> ('a1 -> 'a1 -> 'a1) -> ('a1 -> 'a1 ->
  'a1) -> ('a1 -> 'a1) -> 'a1 -> ('a1 -> 'a1) -> (int -> int -> int -> int)
  -> int site_map -> (int, 'a1) op list -> 'a1 mat

val spec_table :
  'a1 -> 'a1 -> ('a1 -> 'a1 -> 'a1) -> ('a1 -> 'a1 -> 'a1) -> ('a1 -> 'a1 ->
  'a1) -> ('a1 -> 'a1) -> 'a1 -> ('a1 -> 'a1) -> (int -> int -> int -> int)
  -> int -> (int, 'a1) op list -> 'a1 list list

val model_lattice :
  'a1 vops -> config -> (int, 'a1) op list -> (int, 'a1) state

val halve_magnetization : 'a1 vops -> (int, 'a1) op list -> (int, 'a1) op list

val model_poly :
  'a1 -> ('a1 -> 'a1 -> 'a1) -> ('a1 -> 'a1 -> 'a1) -> ('a1 -> 'a1) -> ('a1
  -> bool) -> 'a1 vops -> (int -> int -> int -> int) -> config -> bool ->
  bool -> (int, 'a1) op list -> 'a1 poly outcome

val poly_table :
  'a1 -> 'a1 -> ('a1 -> 'a1 -> 'a1) -> ('a1 -> 'a1 -> 'a1) -> ('a1 -> 'a1) ->
  int -> 'a1 poly -> 'a1 list list

val model_results :
  'a1 vops -> config -> (int, 'a1) op list -> (int, 'a1) obs outcome list

val spin_sites : 'a1 vops -> config -> (int, 'a1) op list -> (int * int) list

val splus_table :
  'a1 -> 'a1 -> ('a1 -> 'a1 -> 'a1) -> ('a1 -> 'a1) -> 'a1 vops -> (int ->
  int -> int -> int) -> int -> config -> (int, 'a1) op list -> 'a1 list list

val sminus_table :
  'a1 -> 'a1 -> ('a1 -> 'a1 -> 'a1) -> ('a1 -> 'a1) -> 'a1 vops -> (int ->
  int -> int -> int) -> int -> config -> (int, 'a1) op list -> 'a1 list list

val q_eqb : q -> q -> bool

val q_id : q -> q

val q_spec_table :
  (((int * int) * int) * int) list -> int -> qop list -> q list list

val q_model_poly :
  (((int * int) * int) * int) list -> int -> config -> bool -> bool -> qop
  list -> q poly outcome

val q_model_results : config -> qop list -> (int, q) obs outcome list

val q_splus_table :
  (((int * int) * int) * int) list -> int -> config -> qop list -> q list list

val q_sminus_table :
  (((int * int) * int) * int) list -> int -> config -> qop list -> q list list

val q_poly_table : int -> q poly -> q list list

val c_poly_table : int -> qC poly -> qC list list

type cop = (int, qC) op

val c_spec_table :
  (((int * int) * int) * int) list -> int -> cop list -> qC list list

val c_model_poly :
  (((int * int) * int) * int) list -> int -> config -> bool -> bool -> cop
  list -> qC poly outcome

val c_model_results : config -> cop list -> (int, qC) obs outcome list

val c_splus_table :
  (((int * int) * int) * int) list -> int -> config -> cop list -> qC list
  list

val c_sminus_table :
  (((int * int) * int) * int) list -> int -> config -> cop list -> qC list
  list
