
val xorb : bool -> bool -> bool

val negb : bool -> bool

val fst : ('a1 * 'a2) -> 'a1

val snd : ('a1 * 'a2) -> 'a2

val length : 'a1 list -> int

val app : 'a1 list -> 'a1 list -> 'a1 list

type comparison =
| Eq
| Lt
| Gt

val compOpp : comparison -> comparison

val pred : int -> int

val add : int -> int -> int

val mul : int -> int -> int

val sub : int -> int -> int

type positive =
| XI of positive
| XO of positive
| XH

type z =
| Z0
| Zpos of positive
| Zneg of positive

val eqb : bool -> bool -> bool

module Nat :
 sig
  val add : int -> int -> int

  val mul : int -> int -> int

  val ltb : int -> int -> bool

  val even : int -> bool

  val odd : int -> bool

  val pow : int -> int -> int

  val div2 : int -> int
 end

module Pos :
 sig
  val succ : positive -> positive

  val add : positive -> positive -> positive

  val add_carry : positive -> positive -> positive

  val pred_double : positive -> positive

  val mul : positive -> positive -> positive

  val iter : ('a1 -> 'a1) -> 'a1 -> positive -> 'a1

  val compare_cont : comparison -> positive -> positive -> comparison

  val compare : positive -> positive -> comparison

  val of_succ_nat : int -> positive
 end

module Z :
 sig
  val double : z -> z

  val succ_double : z -> z

  val pred_double : z -> z

  val pos_sub : positive -> positive -> z

  val add : z -> z -> z

  val opp : z -> z

  val mul : z -> z -> z

  val pow_pos : z -> positive -> z

  val pow : z -> z -> z

  val compare : z -> z -> comparison

  val leb : z -> z -> bool

  val of_nat : int -> z
 end

val hd : 'a1 -> 'a1 list -> 'a1

val tl : 'a1 list -> 'a1 list

val nth : int -> 'a1 list -> 'a1 -> 'a1

val nth_error : 'a1 list -> int -> 'a1 option

val rev : 'a1 list -> 'a1 list

val map : ('a1 -> 'a2) -> 'a1 list -> 'a2 list

val flat_map : ('a1 -> 'a2 list) -> 'a1 list -> 'a2 list

val fold_left : ('a1 -> 'a2 -> 'a1) -> 'a2 list -> 'a1 -> 'a1

val forallb : ('a1 -> bool) -> 'a1 list -> bool

val filter : ('a1 -> bool) -> 'a1 list -> 'a1 list

val combine : 'a1 list -> 'a2 list -> ('a1 * 'a2) list

val seq : int -> int -> int list

val sqrt : Float64.t -> Float64.t

val opp0 : Float64.t -> Float64.t

val ltb0 : Float64.t -> Float64.t -> bool

val mul0 : Float64.t -> Float64.t -> Float64.t

val add0 : Float64.t -> Float64.t -> Float64.t

val sub0 : Float64.t -> Float64.t -> Float64.t

val div : Float64.t -> Float64.t -> Float64.t

type 'a outcome =
| Done of 'a
| OOB
| Uninit
| Throws of int
| OutOfFuel

type op = bool * int

val op_ann : op -> bool

val op_idx : op -> int

val cdag : int -> op

val cann : int -> op

type state = bool list

val upd : int -> bool -> state -> state

val par : int -> state -> bool

val act_op : op -> state -> (bool * state) option outcome

val act_mono : op list -> state -> (bool * state) option outcome

val state_of_nat : int -> int -> state

val nat_of_state : state -> int

type monomial = op list

type 'k numops = { n0 : 'k; n1 : 'k; nadd : ('k -> 'k -> 'k);
                   nsub : ('k -> 'k -> 'k); nmul : ('k -> 'k -> 'k);
                   ndiv : ('k -> 'k -> 'k); nopp : ('k -> 'k);
                   nconj : ('k -> 'k); nexp : ('k -> 'k);
                   nre_ltb : ('k -> 'k -> bool); nabs : ('k -> 'k);
                   nofZ : (z -> 'k); nI : 'k }

type 'k vec = 'k list

type 'k mat = 'k list list

val ksum : 'a1 numops -> 'a2 list -> ('a2 -> 'a1) -> 'a1

val dot : 'a1 numops -> 'a1 vec -> 'a1 vec -> 'a1

val transpose_aux : 'a1 numops -> int -> 'a1 mat -> 'a1 mat

val transpose : 'a1 numops -> int -> 'a1 mat -> 'a1 mat

val mmul : 'a1 numops -> int -> 'a1 mat -> 'a1 mat -> 'a1 mat

val adjoint : 'a1 numops -> int -> 'a1 mat -> 'a1 mat

val mget : 'a1 numops -> 'a1 mat -> int -> int -> 'a1

val idx : 'a1 list -> (int * 'a1) list

val mono_entry : int -> monomial -> int -> (bool * int) option

val poly_matrix : 'a1 numops -> int -> (monomial * 'a1) list -> 'a1 mat

val op_matrix : 'a1 numops -> int -> op -> 'a1 mat

val min_re : 'a1 numops -> 'a1 list -> 'a1

val weights : 'a1 numops -> 'a1 -> 'a1 vec -> 'a1 vec

val rotate : 'a1 numops -> int -> 'a1 mat -> 'a1 mat -> 'a1 mat

type fc = Float64.t * Float64.t

val fadd : fc -> fc -> fc

val fsub : fc -> fc -> fc

val fmul : fc -> fc -> fc

val fdiv : fc -> fc -> fc

val fopp : fc -> fc

val fconj : fc -> fc

val fabs : fc -> fc

val pos_to_float : positive -> Float64.t

val fofZ : z -> fc

val fops : (Float64.t -> Float64.t) -> fc numops

val lit_dec : 'a1 numops -> z -> z -> 'a1

val lit_nat : 'a1 numops -> int -> 'a1

type 'v cs = { cs_inner : int; cs_ptr : int list; cs_idx : int list;
               cs_val : 'v list }

val cs_outer : 'a1 cs -> int

val ptr_at : 'a1 cs -> int -> int

val mono_b : int list -> bool

val incr_from : int list -> int -> int -> bool

val cs_wf_b : 'a1 cs -> bool

type 'a read =
| Val of 'a
| PastEnd of 'a
| ROOB

val rd : 'a1 cs -> int -> int -> int read

val rdv : 'a1 cs -> int -> 'a1 option

val iter_begin : 'a1 cs -> int -> (int * int) option

type side =
| SideA
| SideB

type 'a wres =
| WDone of 'a
| WPastEnd of side * int
| WOOB of side * int
| WFuel

val wmap : ('a1 -> 'a2) -> 'a1 wres -> 'a2 wres

val wbind : 'a1 wres -> ('a1 -> 'a2 wres) -> 'a2 wres

val chase :
  bool -> bool -> side -> 'a1 cs -> int -> int -> int -> int -> int wres

val chase_fuel : 'a1 cs -> int

val wcons : 'a1 -> 'a1 list wres -> 'a1 list wres

val walk :
  bool -> bool -> 'a1 cs -> 'a2 cs -> int -> int -> int -> int -> int ->
  (int * int) list wres

val walk_fuel : int -> int -> int -> int -> int

val walk_outer :
  bool -> bool -> 'a1 cs -> 'a2 cs -> int -> (int * int) list wres

val part_walk_from :
  bool -> bool -> 'a1 cs -> 'a2 cs -> int -> int -> (int * (int * int)) list
  wres

val part_walk :
  bool -> bool -> 'a1 cs -> 'a2 cs -> (int * (int * int)) list wres

type ('p, 'c) term = 'p * 'c

val pole : ('a1, 'a2) term -> 'a1

val residue : ('a1, 'a2) term -> 'a2

val scan :
  (('a1, 'a2) term -> bool) -> ('a1, 'a2) term list -> ('a1, 'a2) term
  list * ('a1, 'a2) term list

type ('p, 'c) ins_res =
| Inserted of ('p, 'c) term list
| Blocked of ('p, 'c) term list * ('p, 'c) term * ('p, 'c) term list

val set_insert_res :
  ('a1 -> 'a1 -> bool) -> ('a1, 'a2) term -> ('a1, 'a2) term list -> ('a1,
  'a2) ins_res

type final =
| FinInserted
| FinNegligible
| FinFuel

type ('p, 'c) event =
| EvChain of (('p, 'c) term * ('p, 'c) term) list * final

val add_term_loop :
  ('a1 -> 'a1 -> bool) -> ('a2 -> int -> bool) -> ('a2 -> 'a2 -> 'a2) -> int
  -> ('a1, 'a2) term -> ('a1, 'a2) term list -> ('a1, 'a2) term
  list * ((('a1, 'a2) term * ('a1, 'a2) term) list * final)

val add_term :
  ('a1 -> 'a1 -> bool) -> ('a2 -> int -> bool) -> ('a2 -> 'a2 -> 'a2) ->
  ('a1, 'a2) term -> ('a1, 'a2) term list -> ('a1, 'a2) term list * ('a1,
  'a2) event

val add_terms :
  ('a1 -> 'a1 -> bool) -> ('a2 -> int -> bool) -> ('a2 -> 'a2 -> 'a2) ->
  ('a1, 'a2) term list -> ('a1, 'a2) term list -> ('a1, 'a2) term
  list * ('a1, 'a2) event list

val eval :
  'a3 -> ('a3 -> 'a3 -> 'a3) -> (('a1, 'a2) term -> 'a3) -> ('a1, 'a2) term
  list -> 'a3

val gf_term_eval : 'a1 numops -> 'a1 -> 'a1 -> 'a1 -> 'a1

val gf_term_tau : 'a1 numops -> 'a1 -> 'a1 -> 'a1 -> 'a1 -> 'a1

val gf_term_add : 'a1 numops -> 'a1 -> 'a1 -> 'a1

val gf_compare : 'a1 numops -> 'a1 -> 'a1 -> 'a1 -> bool

val gf_negligible : 'a1 numops -> 'a1 -> 'a1 -> int -> bool

val gf_tol_compare : 'a1 numops -> 'a1

val gf_tol_negligible : 'a1 numops -> 'a1

val gf_MatrixElementTolerance : 'a1 numops -> 'a1

val gf_ReduceResonanceTolerance : 'a1 numops -> 'a1

val gf_residue :
  'a1 numops -> 'a1 -> 'a1 -> (int -> 'a1) -> (int -> 'a1) -> int -> int ->
  'a1

val gf_pole : 'a1 numops -> (int -> 'a1) -> (int -> 'a1) -> int -> int -> 'a1

val gf_relevant : 'a1 numops -> 'a1 -> 'a1 -> bool

val gf_chase_guarded : bool

val gf_part_eval : 'a1 -> 'a1

val gf_part_tau : 'a1 -> 'a1

val susc_term_eval : 'a1 numops -> 'a1 -> 'a1 -> 'a1 -> 'a1

val susc_term_tau : 'a1 numops -> 'a1 -> 'a1 -> 'a1 -> 'a1 -> 'a1

val susc_term_add : 'a1 numops -> 'a1 -> 'a1 -> 'a1

val susc_compare : 'a1 numops -> 'a1 -> 'a1 -> 'a1 -> bool

val susc_negligible : 'a1 numops -> 'a1 -> 'a1 -> int -> bool

val susc_tol_compare : 'a1 numops -> 'a1

val susc_tol_negligible : 'a1 numops -> 'a1

val susc_MatrixElementTolerance : 'a1 numops -> 'a1

val susc_ReduceResonanceTolerance : 'a1 numops -> 'a1

val susc_residue :
  'a1 numops -> 'a1 -> 'a1 -> (int -> 'a1) -> (int -> 'a1) -> int -> int ->
  'a1

val susc_pole :
  'a1 numops -> (int -> 'a1) -> (int -> 'a1) -> int -> int -> 'a1

val susc_relevant : 'a1 numops -> 'a1 -> 'a1 -> bool

val susc_is_zero_pole : 'a1 numops -> 'a1 -> 'a1 -> bool

val susc_zero_weight :
  'a1 numops -> 'a1 -> 'a1 -> (int -> 'a1) -> (int -> 'a1) -> int -> int ->
  'a1

val susc_chase_guarded : bool

val susc_part_eval : 'a1 numops -> 'a1 -> 'a1 -> 'a1 -> 'a1 -> 'a1

val susc_part_tau : 'a1 numops -> 'a1 -> 'a1 -> 'a1

val susc_subtract : 'a1 numops -> 'a1 -> 'a1 -> 'a1 -> 'a1 -> 'a1 -> 'a1

val susc_subtract_tau : 'a1 numops -> 'a1 -> 'a1 -> 'a1 -> 'a1

val susc_total_matsubara_mult : z -> z

val gf_total_matsubara_mult : z -> z

val matsubara_spacing : 'a1 numops -> 'a1 -> 'a1 -> 'a1 -> 'a1

val chaseIndices_guarded : bool

val all_some : 'a1 option list -> 'a1 list option

type 'k gterm = ('k, 'k) term

type 'k part_in = { p_C : 'k cs; p_CX : 'k cs; p_eO : 'k list;
                    p_eI : 'k list; p_wO : 'k list; p_wI : 'k list }

type 'k tols = { t_matrix_element : 'k; t_compare : 'k; t_negligible : 
                 'k; t_resonance : 'k }

val gf_tols_cpp : 'a1 numops -> 'a1 tols

val gf_match :
  'a1 numops -> 'a1 tols -> 'a1 part_in -> (int * (int * int)) -> (bool * 'a1
  gterm) option

val kept : (bool * 'a1 gterm) list -> 'a1 gterm list

val dropped : (bool * 'a1 gterm) list -> 'a1 gterm list

val gf_add_terms :
  'a1 numops -> 'a1 tols -> 'a1 gterm list -> 'a1 gterm list * ('a1, 'a1)
  event list

type 'k part_out = { o_terms : 'k gterm list; o_raw : (bool * 'k gterm) list;
                     o_events : ('k, 'k) event list }

val gf_part_compute :
  'a1 numops -> bool -> bool -> 'a1 tols -> 'a1 part_in -> 'a1 part_out wres

val gf_terms_eval : 'a1 numops -> 'a1 gterm list -> 'a1 -> 'a1

val gf_terms_tau : 'a1 numops -> 'a1 gterm list -> 'a1 -> 'a1 -> 'a1

val gf_part_value : 'a1 numops -> 'a1 part_out -> 'a1 -> 'a1

val gf_part_value_tau : 'a1 numops -> 'a1 part_out -> 'a1 -> 'a1 -> 'a1

val stripes :
  int -> (int * int) list -> (int * int) list -> (int * int) list option

val stripes_fuel : (int * int) list -> (int * int) list -> int

type 'k gf_in = { g_cl : (int * int) list; g_cxr : (int * int) list;
                  g_cpart : (int -> 'k cs option);
                  g_cxpart : (int -> 'k cs option); g_E : (int -> 'k list);
                  g_W : (int -> 'k list); g_ret : (int -> bool) }

val gf_prepare : 'a1 gf_in -> ((int * int) * 'a1 part_in) list option

val compute_parts :
  'a1 numops -> bool -> bool -> 'a1 tols -> ((int * int) * 'a1 part_in) list
  -> ((int * int) * 'a1 part_out) list wres

val gf_compute :
  'a1 numops -> bool -> bool -> 'a1 tols -> 'a1 gf_in -> ((int * int) * 'a1
  part_out) list wres

val gf_value : 'a1 numops -> ((int * int) * 'a1 part_out) list -> 'a1 -> 'a1

val gf_value_tau :
  'a1 numops -> ((int * int) * 'a1 part_out) list -> 'a1 -> 'a1 -> 'a1

val gf_matsubara : 'a1 numops -> 'a1 -> 'a1 -> z -> 'a1

val susc_tols_cpp : 'a1 numops -> 'a1 tols

type 'k smatch =
| SZero of 'k * 'k
| STerm of bool * 'k gterm

val susc_match :
  'a1 numops -> 'a1 tols -> 'a1 part_in -> (int * (int * int)) -> 'a1 smatch
  option

val s_kept : 'a1 smatch list -> 'a1 gterm list

val s_dropped : 'a1 smatch list -> 'a1 gterm list

val s_zero : 'a1 numops -> 'a1 smatch list -> 'a1

val susc_add_terms :
  'a1 numops -> 'a1 tols -> 'a1 gterm list -> 'a1 gterm list * ('a1, 'a1)
  event list

type 'k spart_out = { so_terms : 'k gterm list; so_zero : 'k;
                      so_raw : 'k smatch list; so_events : ('k, 'k) event list }

val susc_part_compute :
  'a1 numops -> bool -> bool -> 'a1 tols -> 'a1 part_in -> 'a1 spart_out wres

val susc_terms_eval : 'a1 numops -> 'a1 gterm list -> 'a1 -> 'a1

val susc_terms_tau : 'a1 numops -> 'a1 gterm list -> 'a1 -> 'a1 -> 'a1

val susc_part_value : 'a1 numops -> 'a1 spart_out -> 'a1 -> 'a1 -> 'a1

val susc_part_value_tau : 'a1 numops -> 'a1 spart_out -> 'a1 -> 'a1 -> 'a1

val scompute_parts :
  'a1 numops -> bool -> bool -> 'a1 tols -> ((int * int) * 'a1 part_in) list
  -> ((int * int) * 'a1 spart_out) list wres

val susc_compute :
  'a1 numops -> bool -> bool -> 'a1 tols -> 'a1 gf_in -> ((int * int) * 'a1
  spart_out) list wres

val find_pos : int list -> int -> int -> int -> int option

val cs_coeff : 'a1 numops -> 'a1 cs -> int -> int -> 'a1

val ea_part : 'a1 numops -> 'a1 cs -> 'a1 list -> 'a1

val ea_sum : 'a1 numops -> 'a1 gf_in -> 'a1 -> 'a1

type 'k ea_state = { ea_prepared : bool; ea_result : 'k }

val ea_new : 'a1 numops -> 'a1 ea_state

val ea_prepare : 'a1 numops -> 'a1 gf_in -> 'a1 ea_state -> 'a1 ea_state

val ensemble_average : 'a1 numops -> 'a1 gf_in -> 'a1

type 'k supply =
| SupplyInternal
| SupplyObjects of 'k ea_state * 'k ea_state
| SupplyNumbers of 'k * 'k

val supplied : 'a1 numops -> 'a1 gf_in -> 'a1 gf_in -> 'a1 supply -> 'a1 * 'a1

val susc_sum :
  'a1 numops -> ((int * int) * 'a1 spart_out) list -> 'a1 -> 'a1 -> 'a1

val susc_value :
  'a1 numops -> ((int * int) * 'a1 spart_out) list -> ('a1 * 'a1) option ->
  'a1 -> 'a1 -> 'a1

val susc_sum_tau :
  'a1 numops -> ((int * int) * 'a1 spart_out) list -> 'a1 -> 'a1 -> 'a1

val susc_value_tau :
  'a1 numops -> ((int * int) * 'a1 spart_out) list -> ('a1 * 'a1) option ->
  'a1 -> 'a1 -> 'a1

val susc_matsubara : 'a1 numops -> 'a1 -> 'a1 -> z -> 'a1

val gf_lehmann :
  'a1 numops -> 'a1 list -> 'a1 list -> 'a1 list list -> 'a1 list list ->
  ('a1 * 'a1) list

val dropped_bound : 'a1 numops -> 'a1 -> ('a1 * 'a1) list -> 'a1 -> 'a1

val merge_delta : 'a1 numops -> 'a1 -> 'a1 -> ('a1 * 'a1) list -> 'a1 -> 'a1

val with_delta :
  'a1 numops -> 'a1 -> 'a1 -> ('a1 * 'a1) list -> (('a1 * 'a1) * 'a1) list

val merge_bound : 'a1 numops -> (('a1 * 'a1) * 'a1) list -> 'a1 -> 'a1

val susc_lehmann :
  'a1 numops -> 'a1 list -> 'a1 list -> 'a1 list list -> 'a1 list list ->
  ('a1 * ('a1 * ('a1 * 'a1))) list

val susc_terms :
  'a1 numops -> 'a1 -> ('a1 * ('a1 * ('a1 * 'a1))) list -> ('a1 * 'a1) list

val resonance_bound :
  'a1 numops -> 'a1 -> 'a1 -> ('a1 * ('a1 * ('a1 * 'a1))) list -> 'a1 -> bool
  -> 'a1

val tau_weight : 'a1 numops -> 'a1 -> 'a1 -> 'a1

val tau_dropped_bound : 'a1 numops -> 'a1 -> 'a1 -> ('a1 * 'a1) list -> 'a1

val tau_merge_bound : 'a1 numops -> 'a1 -> (('a1 * 'a1) * 'a1) list -> 'a1

val susc_tau_safe :
  'a1 numops -> 'a1 -> 'a1 list -> 'a1 list list -> 'a1 list list -> 'a1 ->
  'a1

type status =
| Constructed
| Prepared
| Computed

val status_max_prepared : status -> status

type elem = { el_id : int; el_c : int; el_cx : int; el_status : status }

type key = int * int

type cstate = { emap : (key * elem) list; next_id : int }

val cinit : cstate

val key_eqb : key -> key -> bool

val key_ltb : key -> key -> bool

val mfind : key -> (key * elem) list -> elem option

val mset : key -> elem -> (key * elem) list -> (key * elem) list

val sins : key -> key list -> key list

val set_of : key list -> key list

val all_indices : int -> key list

type cop =
| Fill of key list
| SetK of key
| IsIn of key
| Lookup of key
| PrepareAll of key list
| ComputeAll
| PrepareAt of key
| ComputeAt of key

type cout =
| OUnit
| OBool of bool
| OElem of elem
| OThrows

val create : int -> cstate -> key -> elem option

val do_set : int -> cstate -> key -> cstate * cout

val fill_loop : int -> cstate -> key list -> cstate * cout

val do_fill : int -> cstate -> key list -> cstate * cout

val upd_status :
  (status -> status) -> key -> (key * elem) list -> (key * elem) list

val all_status : (status -> status) -> (key * elem) list -> (key * elem) list

val do_lookup : int -> cstate -> key -> cstate * cout

val cstep : int -> cstate -> cop -> cstate * cout

val crun : int -> cstate -> cop list -> cstate

val c_gf_compute :
  (Float64.t -> Float64.t) -> bool -> bool -> fc tols -> fc gf_in ->
  ((int * int) * fc part_out) list wres

val c_gf_value :
  (Float64.t -> Float64.t) -> ((int * int) * fc part_out) list -> fc -> fc

val c_gf_value_tau :
  (Float64.t -> Float64.t) -> ((int * int) * fc part_out) list -> fc -> fc ->
  fc

val c_gf_matsubara : (Float64.t -> Float64.t) -> fc -> fc -> z -> fc

val c_gf_tols : (Float64.t -> Float64.t) -> fc tols

val c_gf_part_value : (Float64.t -> Float64.t) -> fc part_out -> fc -> fc

val c_susc_compute :
  (Float64.t -> Float64.t) -> bool -> bool -> fc tols -> fc gf_in ->
  ((int * int) * fc spart_out) list wres

val c_susc_value :
  (Float64.t -> Float64.t) -> ((int * int) * fc spart_out) list -> (fc * fc)
  option -> fc -> fc -> fc

val c_susc_value_tau :
  (Float64.t -> Float64.t) -> ((int * int) * fc spart_out) list -> (fc * fc)
  option -> fc -> fc -> fc

val c_susc_matsubara : (Float64.t -> Float64.t) -> fc -> fc -> z -> fc

val c_susc_tols : (Float64.t -> Float64.t) -> fc tols

val c_susc_part_value :
  (Float64.t -> Float64.t) -> fc spart_out -> fc -> fc -> fc

val c_ensemble_average : (Float64.t -> Float64.t) -> fc gf_in -> fc

val c_supplied :
  (Float64.t -> Float64.t) -> fc gf_in -> fc gf_in -> fc supply -> fc * fc

val c_ea_prepare :
  (Float64.t -> Float64.t) -> fc gf_in -> fc ea_state -> fc ea_state

val c_ea_new : (Float64.t -> Float64.t) -> fc ea_state

val c_cs_wf_b : fc cs -> bool

val c_kept : (bool * fc gterm) list -> fc gterm list

val c_dropped : (bool * fc gterm) list -> fc gterm list

val c_s_kept : fc smatch list -> fc gterm list

val c_s_dropped : fc smatch list -> fc gterm list

val c_gf_term_eval : (Float64.t -> Float64.t) -> fc -> fc -> fc -> fc

val c_susc_term_eval : (Float64.t -> Float64.t) -> fc -> fc -> fc -> fc

val c_gf_chase_guarded : bool

val c_susc_chase_guarded : bool

val c_chaseIndices_guarded : bool

val c_poly_matrix :
  (Float64.t -> Float64.t) -> int -> (monomial * fc) list -> fc mat

val c_op_matrix : (Float64.t -> Float64.t) -> int -> op -> fc mat

val c_weights : (Float64.t -> Float64.t) -> fc -> fc vec -> fc vec

val c_rotate : (Float64.t -> Float64.t) -> int -> fc mat -> fc mat -> fc mat

val c_mmul : (Float64.t -> Float64.t) -> int -> fc mat -> fc mat -> fc mat

val c_gf_lehmann :
  (Float64.t -> Float64.t) -> fc list -> fc list -> fc list list -> fc list
  list -> (fc * fc) list

val c_dropped_bound :
  (Float64.t -> Float64.t) -> fc -> (fc * fc) list -> fc -> fc

val c_with_delta :
  (Float64.t -> Float64.t) -> fc -> fc -> (fc * fc) list -> ((fc * fc) * fc)
  list

val c_merge_bound :
  (Float64.t -> Float64.t) -> ((fc * fc) * fc) list -> fc -> fc

val c_susc_lehmann :
  (Float64.t -> Float64.t) -> fc list -> fc list -> fc list list -> fc list
  list -> (fc * (fc * (fc * fc))) list

val c_susc_terms :
  (Float64.t -> Float64.t) -> fc -> (fc * (fc * (fc * fc))) list -> (fc * fc)
  list

val c_resonance_bound :
  (Float64.t -> Float64.t) -> fc -> fc -> (fc * (fc * (fc * fc))) list -> fc
  -> bool -> fc

val c_tau_dropped_bound :
  (Float64.t -> Float64.t) -> fc -> fc -> (fc * fc) list -> fc

val c_tau_merge_bound :
  (Float64.t -> Float64.t) -> fc -> ((fc * fc) * fc) list -> fc

val c_susc_tau_safe :
  (Float64.t -> Float64.t) -> fc -> fc list -> fc list list -> fc list list
  -> fc -> fc
