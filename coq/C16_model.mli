
val negb : bool -> bool

val fst : ('a1 * 'a2) -> 'a1

val snd : ('a1 * 'a2) -> 'a2

val length : 'a1 list -> int

val app : 'a1 list -> 'a1 list -> 'a1 list

val add : int -> int -> int

val mul : int -> int -> int

val sub : int -> int -> int

module Nat :
 sig
  val ltb : int -> int -> bool
 end

val map : ('a1 -> 'a2) -> 'a1 list -> 'a2 list

val flat_map : ('a1 -> 'a2 list) -> 'a1 list -> 'a2 list

val fold_left : ('a1 -> 'a2 -> 'a1) -> 'a2 list -> 'a1 -> 'a1

val existsb : ('a1 -> bool) -> 'a1 list -> bool

val forallb : ('a1 -> bool) -> 'a1 list -> bool

val filter : ('a1 -> bool) -> 'a1 list -> 'a1 list

val combine : 'a1 list -> 'a2 list -> ('a1 * 'a2) list

val seq : int -> int -> int list

type job = int

type wid = int

type wstat =
| Pending
| Work of job
| Finish

type msg =
| MWork of job
| MFinish
| MPend

type cfg = { np : int; ib : bool }

val pool : cfg -> wid list

val ranks : cfg -> wid list

val nprocs : cfg -> int

val is_worker : cfg -> wid -> bool

val valid_cfg : cfg -> bool

val upd : (int -> 'a1) -> int -> 'a1 -> int -> 'a1

type sys = { jobstack : job list; wstack : wid list; outst : (wid -> bool);
             wfin : (wid -> bool); dmap : (job -> wid option);
             alljobs : job list; wst : (wid -> wstat);
             chan : (wid -> msg list); pend_older : (wid -> bool);
             exited : (wid -> bool); log : (job * wid) list; err : bool;
             round : int }

type event =
| EOrder of (job * wid) list
| ECheck of wid list * wid list
| ERecv of wid * msg
| ERun of wid * job
| EExit of wid
| EIdle of wid
| ENewRound of job list

val order_worker : wid -> job -> sys -> sys

val set_stacks : job list -> wid list -> sys -> sys

val order_loop : job list -> wid list -> sys -> sys

val do_order : sys -> sys

val order_pairs : sys -> (job * wid) list

val is_pend : msg -> bool

val not_pend : msg -> bool

val take_first : (msg -> bool) -> msg list -> (msg * msg list) option

val shared : wid -> bool

val wildcard_posted : sys -> wid -> bool

val wild_match : sys -> wid -> (msg * msg list) option

val pend_match : sys -> wid -> msg list option

val see : wid -> sys -> sys option

val check_loop : wid list -> wid list -> sys -> sys option

val finish_cond : cfg -> sys -> bool

val finish_targets : cfg -> sys -> wid list

val send_finish : wid -> sys -> sys

val finish_all : wid list -> sys -> sys

val status_of : msg -> wstat

val do_recv : wid -> msg -> msg list -> sys -> sys

val do_run : wid -> job -> sys -> sys

val loop_done : cfg -> sys -> wid -> bool

val do_exit : wid -> sys -> sys

val fresh : cfg -> job list -> (wid -> msg list) -> bool -> int -> sys

val init : cfg -> job list -> sys

val restart : cfg -> sys -> job list -> sys

val nodupb : int list -> bool

val list_eqb : int list -> int list -> bool

val pairs_eqb : (int * int) list -> (int * int) list -> bool

val msg_eqb : msg -> msg -> bool

val step : cfg -> sys -> event -> sys option

val enabled : cfg -> sys -> event -> bool

val run : cfg -> sys -> event list -> sys option

val finalb : cfg -> sys -> bool

val cnt : int -> int list -> int

val opt_is : int option -> int -> bool

val final_okb : cfg -> sys -> bool

val sublists : 'a1 list -> 'a1 list list

val reportable : sys -> wid -> bool

val candidates : cfg -> sys -> event list

val sumf : (int -> int) -> int list -> int

val b2n : bool -> int

val msg_w : msg -> int

val chan_w : msg list -> int

val st_w : wstat -> int

val link_mu : sys -> wid -> int

val mu : cfg -> sys -> int
