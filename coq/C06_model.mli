
val negb : bool -> bool

val fst : ('a1 * 'a2) -> 'a1

val snd : ('a1 * 'a2) -> 'a2

val length : 'a1 list -> int

val app : 'a1 list -> 'a1 list -> 'a1 list

type comparison =
| Eq
| Lt
| Gt

val compOpp : comparison -> comparison

val add : int -> int -> int

module Nat :
 sig
  val ltb : int -> int -> bool
 end

type positive =
| XI of positive
| XO of positive
| XH

type n =
| N0
| Npos of positive

type z =
| Z0
| Zpos of positive
| Zneg of positive

module Pos :
 sig
  type mask =
  | IsNul
  | IsPos of positive
  | IsNeg
 end

module Coq_Pos :
 sig
  val succ : positive -> positive

  val add : positive -> positive -> positive

  val add_carry : positive -> positive -> positive

  val pred_double : positive -> positive

  type mask = Pos.mask =
  | IsNul
  | IsPos of positive
  | IsNeg

  val succ_double_mask : mask -> mask

  val double_mask : mask -> mask

  val double_pred_mask : positive -> mask

  val sub_mask : positive -> positive -> mask

  val sub_mask_carry : positive -> positive -> mask

  val mul : positive -> positive -> positive

  val iter : ('a1 -> 'a1) -> 'a1 -> positive -> 'a1

  val div2 : positive -> positive

  val div2_up : positive -> positive

  val compare_cont : comparison -> positive -> positive -> comparison

  val compare : positive -> positive -> comparison

  val iter_op : ('a1 -> 'a1 -> 'a1) -> positive -> 'a1 -> 'a1

  val to_nat : positive -> int

  val of_succ_nat : int -> positive
 end

module N :
 sig
  val succ_double : n -> n

  val double : n -> n

  val sub : n -> n -> n

  val compare : n -> n -> comparison

  val leb : n -> n -> bool

  val pos_div_eucl : positive -> n -> n * n
 end

val tl : 'a1 list -> 'a1 list

val in_dec : ('a1 -> 'a1 -> bool) -> 'a1 -> 'a1 list -> bool

val count_occ : ('a1 -> 'a1 -> bool) -> 'a1 list -> 'a1 -> int

val map : ('a1 -> 'a2) -> 'a1 list -> 'a2 list

val flat_map : ('a1 -> 'a2 list) -> 'a1 list -> 'a2 list

val fold_left : ('a1 -> 'a2 -> 'a1) -> 'a2 list -> 'a1 -> 'a1

val existsb : ('a1 -> bool) -> 'a1 list -> bool

val forallb : ('a1 -> bool) -> 'a1 list -> bool

val filter : ('a1 -> bool) -> 'a1 list -> 'a1 list

val find : ('a1 -> bool) -> 'a1 list -> 'a1 option

val combine : 'a1 list -> 'a2 list -> ('a1 * 'a2) list

val nodup : ('a1 -> 'a1 -> bool) -> 'a1 list -> 'a1 list

val seq : int -> int -> int list

val repeat : 'a1 -> int -> 'a1 list

module Z :
 sig
  val double : z -> z

  val succ_double : z -> z

  val pred_double : z -> z

  val pos_sub : positive -> positive -> z

  val add : z -> z -> z

  val opp : z -> z

  val sub : z -> z -> z

  val mul : z -> z -> z

  val compare : z -> z -> comparison

  val leb : z -> z -> bool

  val ltb : z -> z -> bool

  val max : z -> z -> z

  val min : z -> z -> z

  val to_nat : z -> int

  val of_nat : int -> z

  val of_N : n -> z

  val pos_div_eucl : positive -> z -> z * z

  val div_eucl : z -> z -> z * z

  val div : z -> z -> z

  val quotrem : z -> z -> z * z

  val quot : z -> z -> z

  val div2 : z -> z

  val shiftl : z -> z -> z

  val shiftr : z -> z -> z
 end

val lsl0 : Uint63.t -> Uint63.t -> Uint63.t

val lsr0 : Uint63.t -> Uint63.t -> Uint63.t

val land0 : Uint63.t -> Uint63.t -> Uint63.t

val lor0 : Uint63.t -> Uint63.t -> Uint63.t

val sub0 : Uint63.t -> Uint63.t -> Uint63.t

val eqb : Uint63.t -> Uint63.t -> bool

val abs : Float64.t -> Float64.t

val eqb0 : Float64.t -> Float64.t -> bool

val ltb0 : Float64.t -> Float64.t -> bool

val mul0 : Float64.t -> Float64.t -> Float64.t

val div0 : Float64.t -> Float64.t -> Float64.t

val of_uint63 : Uint63.t -> Float64.t

val normfr_mantissa : Float64.t -> Uint63.t

val frshiftexp : Float64.t -> Float64.t * Uint63.t

val infinity : Float64.t

val one : Float64.t

val zero : Float64.t

val is_nan : Float64.t -> bool

val is_zero : Float64.t -> bool

val is_infinity : Float64.t -> bool

val get_sign : Float64.t -> bool

type q = { qnum : z; qden : positive }

val inject_Z : z -> q

val qle_bool : q -> q -> bool

val qmult : q -> q -> q

val qopp : q -> q

val qinv : q -> q

val qdiv : q -> q -> q

type spec_float =
| S754_zero of bool
| S754_infinity of bool
| S754_nan
| S754_finite of bool * positive * z

val emin : z -> z -> z

val fexp : z -> z -> z -> z

val digits2_pos : positive -> positive

val zdigits2 : z -> z

val iter_pos : ('a1 -> 'a1) -> positive -> 'a1 -> 'a1

type location =
| Loc_Exact
| Loc_Inexact of comparison

type shr_record = { shr_m : z; shr_r : bool; shr_s : bool }

val shr_1 : shr_record -> shr_record

val shr_record_of_loc : z -> location -> shr_record

val shr : shr_record -> z -> z -> shr_record * z

val shr_fexp : z -> z -> z -> z -> location -> shr_record * z

val size : int

val is_zero0 : Uint63.t -> bool

val is_even : Uint63.t -> bool

val opp0 : Uint63.t -> Uint63.t

val to_Z_rec : int -> Uint63.t -> z

val to_Z : Uint63.t -> z

val of_pos_rec : int -> positive -> Uint63.t

val of_pos : positive -> Uint63.t

val of_Z : z -> Uint63.t

val prec : z

val emax : z

val shift : z

module Coq_Z :
 sig
  val frexp : Float64.t -> Float64.t * z
 end

val prim2SF : Float64.t -> spec_float

val qfloor : q -> z

val qceiling : q -> z

val gen_Z2f : z -> Float64.t

val gen_f2Z : Float64.t -> z

val gen_Qtrunc : q -> z

val gen_ncolors : z -> z -> z

val gen_color_size_f : z -> z -> Float64.t

val gen_color_size_exact : z -> z -> q

val gen_proc_color_f : z -> z -> z -> z

val gen_proc_color_exact : z -> z -> z -> z

val gen_root_is_first : bool

val gen_elem_color : z -> z -> z -> z

val gen_distribute_bcasts_per_part : int

val gen_parts_marked_computed : bool

val gen_skel_root : int

val gen_skel_barriers_before_loop : int

val gen_skel_barrier_on_comm : bool

val gen_skel_barriers_after : int

val gen_skel_bcasts_root_branch : int

val gen_skel_bcasts_other_branch : int

type fixes = { fix_barrier : bool; fix_root : bool; fix_status : bool }

val all_fixed : fixes

val none_fixed : fixes

val code_fixes : fixes

type component = { vanishing : bool; nparts : int }

val indexed : 'a1 list -> (int * 'a1) list

type colouring = { pcol : (int -> int); ecol : (int -> int) }

val ncolors : int -> int -> int

val elem_colour : int -> int -> int -> int

val float_colouring : int -> int -> colouring

val exact_colouring : int -> int -> colouring

val colours_ok_b : colouring -> int -> int -> bool

type commid =
| World
| Colour of int

type ckind =
| Barrier
| Bcast of int
| Reduce of int
| Split

type event = commid * ckind

val commid_eqb : commid -> commid -> bool

val ckind_eqb : ckind -> ckind -> bool

val members : colouring -> int -> commid -> int list

val local_rank : colouring -> commid -> int -> int

val proj : commid -> event list -> ckind list

val skel_run : fixes -> commid -> event list

val gf2_compute :
  fixes -> commid -> bool -> component -> (int -> int) -> event list

val upd : (int -> int option) -> int -> int -> int -> int option

val roots_step :
  fixes -> colouring -> (int -> int option) -> int -> int -> int option

val color_roots : fixes -> colouring -> int -> int -> int option

val sender : fixes -> colouring -> int -> int -> int

val split_trace :
  fixes -> colouring -> int -> component list -> bool -> (int -> int -> int)
  -> int -> event list

val nosplit_trace :
  fixes -> component list -> bool -> (int -> int -> int) -> int -> event list

val single_trace :
  fixes -> component -> bool -> (int -> int) -> int -> event list

val ham_prepare_trace :
  fixes -> commid -> int -> (int -> int) -> int -> event list

val ham_compute_trace :
  fixes -> commid -> int -> (int -> int) -> int -> event list

type table =
| TAbsent
| TEmpty
| TData of int list

type pstatus =
| PConstructed
| PComputed

type partst = { terms : bool; pstat : pstatus }

type gstatus =
| GPrepared
| GComputed

type compst = { tab : table; parts : partst list; gstat : gstatus }

val init_state : component -> compst

val run_part : bool -> int -> int -> partst

val partial_sum : int -> (int -> int) -> int -> int list

val reduce_all : int -> (int -> int) -> int -> int list

val gf2_state :
  bool -> bool -> component -> (int -> int) -> int -> int -> compst

val distribute_comp :
  fixes -> bool -> component -> compst -> compst -> bool -> compst

val split_state :
  fixes -> colouring -> int -> component list -> bool -> bool -> (int -> int
  -> int) -> int -> compst list

val nosplit_state :
  int -> component list -> bool -> bool -> (int -> int -> int) -> int ->
  compst list

val ham_block_source : int -> (int -> int) -> int -> int -> int option

val evaluable : component -> compst -> bool

val has_all_terms : component -> compst -> bool

val is_full_sum_b : int -> table -> bool

val is_zeros_b : table -> bool

val list_eqb : ('a1 -> 'a1 -> bool) -> 'a1 list -> 'a1 list -> bool

val comms_of : colouring -> int -> commid list

val collectives_match_b : colouring -> int -> (int -> event list) -> bool

val heads_agree : int list -> commid -> (int -> event list) -> ckind option

val coll_step :
  colouring -> int -> commid -> (int -> event list) -> (int -> event list)
  option

val all_done : int -> (int -> event list) -> bool

val no_step_b : colouring -> int -> (int -> event list) -> bool

val coll_exec :
  colouring -> int -> int -> (int -> event list) -> (bool * commid
  list) * (int -> event list)
