(** The two-particle spine for ANY partition of the Fock states satisfying C07's conclusions (Stage 5, full statement):
    for every classification S with [partition_ok] and [op_ok] for c_i, c_j, c^+_k, c^+_l the value of the model pipeline
    SpineChi.spine_chi -- Thermal.dm_compute weights; Spine.op_compute (FieldOperator::prepare / FieldOperatorPart::compute) for the four
    operators; TwoParticleGF::prepare over CX4's bimap with the six permutations, each selecting its own chain of four blocks
    L0 -> L1 -> L2 -> L3 -> L0; TwoParticleGFPart::compute (merge walks, addMultiterm, term lists with the retry loop); on-demand
    evaluation -- equals EDSpec.chi of the assembled eigenvalues / weights and the four Jordan-Wigner operators rotated by the assembled
    eigenvector matrix, at every triple satisfying the regularity predicate [chi_regular6] on the assembled data.

    Proof (PV.SpineChiPartitionPrep): [prepare_ops_spec] (chain_ok: the parts created are exactly the recorded chains),
    [chainp_value] (value of a chain part = sign * block sum; SpineChiChain.chain_part_emitted + SpineChiTermLists.termlists_faithful_exact),
    [ordering_sum] (four-fold regrouping of the full-space sum over block chains; unrecorded chains contribute 0), [world_value].
    Hypotheses: as in the one-block theorem (field; exact value tests; [cmp_exact] on the level differences of the assembled
    eigenvalues; [chi_regular6]); the inter-layer hypotheses are the NAMED conclusions of C07 ([partition_ok], [op_ok]) and the shapes
    of the eigen-data ([eig_ok]); they are discharged for the Symm model's partition in PV.SpineChiBridge. *)
Require Import Bool List Arith ZArith Lia Ring_theory Field_theory.
From PV Require Import Outcome Fock Poly EDSpec HPart HPartSpec HPartProofs Spine SpineLinAlg SpinePartition
     Chi ChiProofs ChiLehmann SpineChi SpineChiPart SpineChiOneBlock SpineChiTermLists SpineChiMain SpineChiChain SpineChiPartitionPrep.
From PV Require Thermal.
Import ListNotations.

Theorem spine_chi_partition (K : Type) (NO : numops K)
  (Kf : field_theory (n0 K NO) (n1 K NO) (nadd K NO) (nmul K NO) (nsub K NO) (nopp K NO) (ndiv K NO) (ChiLehmann.kinv K NO) (@eq K))
  (conj0 : nconj K NO (n0 K NO) = n0 K NO)
  (fb : bool) (eps : K)
  (one_not_small : nre_ltb K NO (nabs K NO (n1 K NO)) eps = false)
  (mone_not_small : nre_ltb K NO (nabs K NO (nopp K NO (n1 K NO))) eps = false)
  (one_large : nre_ltb K NO eps (nabs K NO (n1 K NO)) = true)
  (mone_large : nre_ltb K NO eps (nabs K NO (nopp K NO (n1 K NO))) = true)
  (keepf : K -> bool) (Hkeep : forall x, keepf x = false -> x = n0 K NO)
  (tl : Chi.tols K)
  (guards_exact : forall x, abs_gt K NO x (t_coeff K tl) = false -> x = n0 K NO)
  (nz_exact : forall x, nre_ltb K NO (n0 K NO) (nabs K NO x) = false -> x = n0 K NO)
  (negl_exact_nr : forall x d, abs_lt K NO x (ndiv K NO (t_neg_nr K tl) (nofZ K NO (Z.of_nat d))) = true -> x = n0 K NO)
  (negl_exact_r : forall x d, abs_lt K NO x (ndiv K NO (t_neg_r K tl) (nofZ K NO (Z.of_nat d))) = true -> x = n0 K NO)
  (ofZ_1 : nofZ K NO (Zpos xH) = n1 K NO) (ofZ_m1 : nofZ K NO (Zneg xH) = nopp K NO (n1 K NO))
  (ofZ_add : forall a b : Z, nofZ K NO (a + b)%Z = nadd K NO (nofZ K NO a) (nofZ K NO b))
  (ofZ_pos : forall z : Z, (0 < z)%Z -> nofZ K NO z <> n0 K NO)
  (g : nat) (S : classification) (ED : eigdata K) (beta : K) (i j k l : nat) (prs1 prs2 prs3 prs4 : list (nat * nat)) :
  partition_ok S -> eig_ok K S ED ->
  op_ok K NO fb eps S (FC i) prs1 -> op_ok K NO fb eps S (FC j) prs2 ->
  op_ok K NO fb eps S (FCdag k) prs3 -> op_ok K NO fb eps S (FCdag l) prs4 ->
  cmp_exact K NO (t_cmp_nr K tl) (pole_list K NO (state_size S) (assembled_E K ED)) ->
  cmp_exact K NO (t_cmp_r K tl) (pole_list K NO (state_size S) (assembled_E K ED)) ->
  forall s : gf_st K,
  spine_chi K NO keepf fb eps g tl S ED beta i j k l = Done s ->
  exists D, spine_dm K NO beta S ED = Done D /\
    forall z1 z2 z3 : K,
    chi_regular6 K NO tl (state_size S) (assembled_E K ED) (assembled_w K D) z1 z2 z3 ->
    Chi.gf_value K NO tl s z1 z2 z3 =
    Done (chi K NO beta (t_reduce K tl) (assembled_E K ED) (assembled_w K D)
            (rotate K NO (state_size S) (assembled_U K NO S ED) (op_matrix K NO (sc_M S) (cann i)))
            (rotate K NO (state_size S) (assembled_U K NO S ED) (op_matrix K NO (sc_M S) (cann j)))
            (rotate K NO (state_size S) (assembled_U K NO S ED) (op_matrix K NO (sc_M S) (cdag k)))
            (rotate K NO (state_size S) (assembled_U K NO S ED) (op_matrix K NO (sc_M S) (cdag l)))
            z1 z2 z3).
Proof.
  intros PO EO O1 O2 O3 O4 CE1 CE2 s. unfold spine_chi.
  destruct (spine_dm K NO beta S ED) as [D| | | |] eqn:HD; cbn [bind]; try discriminate.
  destruct (op_compute K NO fb eps S ED (FC i)) as [p1| | | |] eqn:H1; cbn [bind]; try discriminate.
  destruct (op_compute K NO fb eps S ED (FC j)) as [p2| | | |] eqn:H2; cbn [bind]; try discriminate.
  destruct (op_compute K NO fb eps S ED (FCdag k)) as [p3| | | |] eqn:H3; cbn [bind]; try discriminate.
  destruct (op_compute K NO fb eps S ED (FCdag l)) as [p4| | | |] eqn:H4; cbn [bind]; try discriminate.
  intros H. exists D. split; [reflexivity|]. intros z1 z2 z3 REG.
  exact (world_value K NO Kf conj0 fb eps one_not_small mone_not_small one_large mone_large keepf Hkeep S ED PO EO D
           (spine_dm_ok K NO S ED EO D beta HD) beta tl guards_exact negl_exact_nr negl_exact_r ofZ_add ofZ_pos g CE1 CE2 nz_exact ofZ_1 ofZ_m1
           (Build_opdata K NO fb eps S ED (FC i) prs1 p1 O1 H1) (Build_opdata K NO fb eps S ED (FC j) prs2 p2 O2 H2)
           (Build_opdata K NO fb eps S ED (FCdag k) prs3 p3 O3 H3) (Build_opdata K NO fb eps S ED (FCdag l) prs4 p4 O4 H4)
           z1 z2 z3 s REG H).
Qed.

(** the pipeline returns on such a partition whenever the density matrix does (no part lookup of TwoParticleGF::prepare fails, the
    merge walks of TwoParticleGFPart::compute terminate) *)
Theorem spine_chi_partition_total (K : Type) (NO : numops K)
  (Kf : field_theory (n0 K NO) (n1 K NO) (nadd K NO) (nmul K NO) (nsub K NO) (nopp K NO) (ndiv K NO) (ChiLehmann.kinv K NO) (@eq K))
  (fb : bool) (eps : K)
  (one_not_small : nre_ltb K NO (nabs K NO (n1 K NO)) eps = false)
  (mone_not_small : nre_ltb K NO (nabs K NO (nopp K NO (n1 K NO))) eps = false)
  (one_large : nre_ltb K NO eps (nabs K NO (n1 K NO)) = true)
  (mone_large : nre_ltb K NO eps (nabs K NO (nopp K NO (n1 K NO))) = true)
  (keepf : K -> bool) (tl : Chi.tols K)
  (g : nat) (S : classification) (ED : eigdata K) (beta : K) (i j k l : nat) (prs1 prs2 prs3 prs4 : list (nat * nat)) :
  partition_ok S -> eig_ok K S ED ->
  op_ok K NO fb eps S (FC i) prs1 -> op_ok K NO fb eps S (FC j) prs2 ->
  op_ok K NO fb eps S (FCdag k) prs3 -> op_ok K NO fb eps S (FCdag l) prs4 ->
  forall D, spine_dm K NO beta S ED = Done D ->
  exists s, spine_chi K NO keepf fb eps g tl S ED beta i j k l = Done s.
Proof.
  intros PO EO O1 O2 O3 O4 D HD. unfold spine_chi. rewrite HD. cbn [bind].
  destruct (op_compute_spec K NO (F_R Kf) fb eps one_not_small mone_not_small one_large mone_large S ED PO EO (FC i) prs1 O1) as [p1 H1].
  destruct (op_compute_spec K NO (F_R Kf) fb eps one_not_small mone_not_small one_large mone_large S ED PO EO (FC j) prs2 O2) as [p2 H2].
  destruct (op_compute_spec K NO (F_R Kf) fb eps one_not_small mone_not_small one_large mone_large S ED PO EO (FCdag k) prs3 O3) as [p3 H3].
  destruct (op_compute_spec K NO (F_R Kf) fb eps one_not_small mone_not_small one_large mone_large S ED PO EO (FCdag l) prs4 O4) as [p4 H4].
  rewrite H1, H2, H3, H4. cbn [bind].
  exact (world_total K NO Kf fb eps one_not_small mone_not_small one_large mone_large keepf S ED PO EO D
           (spine_dm_ok K NO S ED EO D beta HD) beta tl g
           (Build_opdata K NO fb eps S ED (FC i) prs1 p1 O1 H1) (Build_opdata K NO fb eps S ED (FC j) prs2 p2 O2 H2)
           (Build_opdata K NO fb eps S ED (FCdag k) prs3 p3 O3 H3) (Build_opdata K NO fb eps S ED (FCdag l) prs4 p4 O4 H4)).
Qed.
