(** Specification side for C05: the meaning of monomials and polynomials as matrices on
    the M-mode Fock space (Jordan-Wigner), independent of how the algebra is implemented.

    <t| m |s> for a monomial m is +1 / -1 / 0 according to [Fock.act_mono]; a polynomial
    is the linear combination of its monomials.  The statements of the C05 theorems are
    collected at the end as [Definition ..._stmt : Prop] so that they are type-checked
    even before their proofs exist; props/Properties_C05.v restates them explicitly. *)
Require Import Bool List Arith Ring_theory.
From PV Require Import Outcome Fock Poly.
Import ListNotations.

Fixpoint state_eqb (s t : state) : bool :=
  match s, t with
  | [], [] => true
  | a :: s', b :: t' => eqb a b && state_eqb s' t'
  | _, _ => false
  end.

(** all bit strings of length M *)
Fixpoint all_states (M : nat) : list state :=
  match M with
  | O => [[]]
  | S M' => flat_map (fun s => [false :: s; true :: s]) (all_states M')
  end.

Definition mono_in_range (M : nat) (m : monomial) : Prop := Forall (fun o => op_idx o < M) m.

Section Sem.
Variable K : Type.
Variables (k0 k1 : K) (kadd kmul ksub : K -> K -> K) (kopp : K -> K).
Variable kzero : K -> bool.

Definition poly_in_range (M : nat) (p : poly K) : Prop := Forall (fun mc => mono_in_range M (fst mc)) p.

(** <t| m |s> *)
Definition coef_mono (m : monomial) (s t : state) : K :=
  match act_mono m s with
  | Done (Some (sg, t')) => if state_eqb t' t then (if sg then kopp k1 else k1) else k0
  | _ => k0
  end.

(** <t| P |s> = sum_m c_m <t| m |s> *)
Definition coef_poly (p : poly K) (s t : state) : K :=
  fold_right (fun mc acc => kadd (kmul (snd mc) (coef_mono (fst mc) s t)) acc) k0 p.

Definition ksum {A} (l : list A) (f : A -> K) : K := fold_right (fun a acc => kadd (f a) acc) k0 l.

(** keys strictly increasing for the map order: the std::map invariant *)
Fixpoint poly_sorted (p : poly K) : Prop :=
  match p with
  | [] => True
  | (m, _) :: t => match t with [] => True | (m', _) :: _ => mono_compare m m' = Lt end /\ poly_sorted t
  end.
(** a monomial is normal ordered when its operators are strictly increasing for the operator
    order (all creations before all annihilations, indices increasing, no repeated factor) *)
Fixpoint mono_normal (m : monomial) : Prop :=
  match m with
  | [] => True
  | a :: t => match t with [] => True | b :: _ => op_compare a b = Lt end /\ mono_normal t
  end.
Definition poly_normal (p : poly K) : Prop := Forall (fun mc => mono_normal (fst mc)) p.
Definition poly_nonzero (p : poly K) : Prop := Forall (fun mc => snd mc <> k0) p.

(** ** Statements *)

Definition ring_ok : Prop :=
  ring_theory k0 k1 kadd kmul ksub kopp (@eq K) /\ (forall c, kzero c = true <-> c = k0).

Local Notation normalize := (normalize K kadd kopp kzero).
Local Notation insert := (insert K kadd kzero).
Local Notation padd := (padd K kadd kzero).
Local Notation psub := (psub K ksub kopp kzero).
Local Notation pneg := (pneg K kopp).
Local Notation pscale := (pscale K kmul kzero).
Local Notation pmul := (pmul K kadd kmul kopp kzero).
Local Notation commutator := (commutator K kadd kmul ksub kopp kzero).
Local Notation anticommutator := (anticommutator K kadd kmul kopp kzero).
Local Notation poly_eq := (poly_eq K ksub kzero).
Local Notation commutes := (commutes K kadd kmul ksub kopp kzero).

(** normalize_and_insert adds exactly c * (matrix of the raw monomial) to the target, for
    monomials of any length over any number of modes *)
Definition normalize_sound_stmt : Prop := ring_ok ->
  forall (M : nat) (m : monomial) (c : K) (tgt tgt' : poly K) (s t : state),
  mono_in_range M m -> length s = M ->
  normalize m c tgt = Done tgt' ->
  coef_poly tgt' s t = kadd (coef_poly tgt s t) (kmul c (coef_mono m s t)).

(** it always terminates within the model's fuel and never fails *)
Definition normalize_total_stmt : Prop :=
  forall (m : monomial) (c : K) (tgt : poly K), exists tgt', normalize m c tgt = Done tgt'.

(** it keeps the map sorted and only ever inserts normal-ordered keys *)
Definition normalize_wf_stmt : Prop :=
  forall (m : monomial) (c : K) (tgt tgt' : poly K),
  poly_sorted tgt -> poly_normal tgt -> normalize m c tgt = Done tgt' ->
  poly_sorted tgt' /\ poly_normal tgt'.

Definition padd_sound_stmt : Prop := ring_ok ->
  forall (a b : poly K) (s t : state),
  coef_poly (padd a b) s t = kadd (coef_poly a s t) (coef_poly b s t).
Definition psub_sound_stmt : Prop := ring_ok ->
  forall (a b : poly K) (s t : state),
  coef_poly (psub a b) s t = ksub (coef_poly a s t) (coef_poly b s t).
Definition pneg_sound_stmt : Prop := ring_ok ->
  forall (a : poly K) (s t : state), coef_poly (pneg a) s t = kopp (coef_poly a s t).
Definition pscale_sound_stmt : Prop := ring_ok ->
  forall (alpha : K) (a : poly K) (s t : state), coef_poly (pscale alpha a) s t = kmul alpha (coef_poly a s t).

(** matrix of A*B = matrix(A) . matrix(B) on the M-mode Fock space *)
Definition pmul_sound_stmt : Prop := ring_ok ->
  forall (M : nat) (a b ab : poly K) (s t : state),
  poly_in_range M a -> poly_in_range M b -> length s = M -> length t = M ->
  pmul a b = Done ab ->
  coef_poly ab s t = ksum (all_states M) (fun u => kmul (coef_poly a u t) (coef_poly b s u)).
Definition pmul_total_stmt : Prop := forall (a b : poly K), exists ab, pmul a b = Done ab.

Definition commutator_sound_stmt : Prop := ring_ok ->
  forall (M : nat) (a b r : poly K) (s t : state),
  poly_in_range M a -> poly_in_range M b -> length s = M -> length t = M ->
  commutator a b = Done r ->
  coef_poly r s t = ksub (ksum (all_states M) (fun u => kmul (coef_poly a u t) (coef_poly b s u)))
                         (ksum (all_states M) (fun u => kmul (coef_poly b u t) (coef_poly a s u))).
Definition anticommutator_sound_stmt : Prop := ring_ok ->
  forall (M : nat) (a b r : poly K) (s t : state),
  poly_in_range M a -> poly_in_range M b -> length s = M -> length t = M ->
  anticommutator a b = Done r ->
  coef_poly r s t = kadd (ksum (all_states M) (fun u => kmul (coef_poly a u t) (coef_poly b s u)))
                         (ksum (all_states M) (fun u => kmul (coef_poly b u t) (coef_poly a s u))).

(** the algorithm's own output for {c_i, c^+_j}: delta_ij *)
Definition car_poly_stmt : Prop := ring_ok -> k1 <> k0 ->
  forall i j : nat,
  anticommutator (p_c K k1 i) (p_cdag K k1 j) = Done (if Nat.eqb i j then [([], k1)] else []) /\
  anticommutator (p_c K k1 i) (p_c K k1 j) = Done [] /\
  anticommutator (p_cdag K k1 i) (p_cdag K k1 j) = Done [].

(** the (repaired) equality and commutation tests: never out of bounds; true implies equal / commuting matrices *)
Definition poly_eq_total_stmt : Prop := forall a b : poly K, exists r, poly_eq true a b = Done r.
Definition poly_eq_sound_stmt : Prop := ring_ok ->
  forall (a b : poly K), poly_eq true a b = Done true -> forall s t, coef_poly a s t = coef_poly b s t.
Definition commutes_sound_stmt : Prop := ring_ok ->
  forall (M : nat) (a b : poly K), poly_in_range M a -> poly_in_range M b ->
  commutes true a b = Done true ->
  forall s t, length s = M -> length t = M ->
  ksum (all_states M) (fun u => kmul (coef_poly a u t) (coef_poly b s u)) =
  ksum (all_states M) (fun u => kmul (coef_poly b u t) (coef_poly a s u)).
(** completeness: sorted, normal-ordered polynomials with non-zero coefficients that have the same
    matrix on a Fock space with enough modes are equal as maps (linear independence of
    normal-ordered monomials), hence the test returns true *)
Definition poly_eq_complete_stmt : Prop := ring_ok -> k1 <> k0 ->
  forall (M : nat) (a b : poly K),
  poly_sorted a -> poly_sorted b -> poly_normal a -> poly_normal b ->
  poly_nonzero a -> poly_nonzero b ->
  poly_in_range M a -> poly_in_range M b ->
  (forall s t, length s = M -> length t = M -> coef_poly a s t = coef_poly b s t) ->
  poly_eq true a b = Done true.

End Sem.
