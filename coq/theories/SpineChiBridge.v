(** The two-particle spine on the partition produced by the symmetry-analysis model (PV.Symm; C07), and from the Hamiltonian
    polynomial: the C02 counterparts of SpineBridge.spine_gf_symmetry, SpineBridgeMain.spine_gf_symmetry_analysis and
    SpineBridgeMain.spine_gf_of_hamiltonian.  [partition_ok] and [op_ok] for c_i, c_j, c^+_k, c^+_l are DISCHARGED from C07's
    partition_exact / single_target through SpineBridge.symm_partition_ok / symm_op_ok.
    Inter-layer hypotheses left: none.  Hypotheses on the INPUT: [eig_ok] (shapes), exact value tests, [cmp_exact] on the level
    differences of the assembled eigenvalues, [chi_regular6] for the frequency triple, and, for [spine_chi_of_hamiltonian], the exact
    per-block certificate of the external eigen-solver.  No axioms. *)
Require Import Bool List Arith ZArith Lia Ring Ring_theory Field Field_theory.
From PV Require Import Outcome Fock Poly PolySem EDSpec HPart HPartSpec HPartProofs Spine SpinePartition SpineBridge SpineBridgeHam SpineBridgeMain
     Chi ChiProofs ChiLehmann SpineChi SpineChiPart SpineChiOneBlock SpineChiTermLists SpineChiMain SpineChiPartition.
From PV Require Symm SymmProofs Thermal.
Import ListNotations.

Section SymmetryChi.
Variable KS : Type.
Variables (s0 s1 : KS) (sadd smul ssub : KS -> KS -> KS) (sopp : KS -> KS).
Variable szero : KS -> bool.
Variable shalf : KS.
Hypothesis SRING : ring_ok KS s0 s1 sadd smul ssub sopp szero.
Hypothesis S10 : s1 <> s0.

Variable K : Type.
Variable NO : numops K.
Hypothesis Kf : field_theory (n0 K NO) (n1 K NO) (nadd K NO) (nmul K NO) (nsub K NO) (nopp K NO) (ndiv K NO) (ChiLehmann.kinv K NO) (@eq K).
Hypothesis conj0 : nconj K NO (n0 K NO) = n0 K NO.
Variable fb : bool.
Variable eps : K.
Hypothesis one_not_small : nre_ltb K NO (nabs K NO (n1 K NO)) eps = false.
Hypothesis mone_not_small : nre_ltb K NO (nabs K NO (nopp K NO (n1 K NO))) eps = false.
Hypothesis one_large : nre_ltb K NO eps (nabs K NO (n1 K NO)) = true.
Hypothesis mone_large : nre_ltb K NO eps (nabs K NO (nopp K NO (n1 K NO))) = true.
Variable keepf : K -> bool.
Hypothesis Hkeep : forall x, keepf x = false -> x = n0 K NO.
Variable tl : Chi.tols K.
Hypothesis guards_exact : forall x, abs_gt K NO x (t_coeff K tl) = false -> x = n0 K NO.
Hypothesis nz_exact : forall x, nre_ltb K NO (n0 K NO) (nabs K NO x) = false -> x = n0 K NO.
Hypothesis negl_exact_nr : forall x d, abs_lt K NO x (ndiv K NO (t_neg_nr K tl) (nofZ K NO (Z.of_nat d))) = true -> x = n0 K NO.
Hypothesis negl_exact_r : forall x d, abs_lt K NO x (ndiv K NO (t_neg_r K tl) (nofZ K NO (Z.of_nat d))) = true -> x = n0 K NO.
Hypothesis ofZ_1 : nofZ K NO (Zpos xH) = n1 K NO.
Hypothesis ofZ_m1 : nofZ K NO (Zneg xH) = nopp K NO (n1 K NO).
Hypothesis ofZ_add : forall a b : Z, nofZ K NO (a + b)%Z = nadd K NO (nofZ K NO a) (nofZ K NO b).
Hypothesis ofZ_pos : forall z : Z, (0 < z)%Z -> nofZ K NO z <> n0 K NO.
Variable g : nat.

Section Classification.
Variables (N : nat) (ops : list (poly KS)) (c : Symm.qclass KS).
Hypothesis Hops : Forall (poly_in_range KS N) ops.
Hypothesis Ec : Symm.sc_compute KS s0 sadd ssub sopp szero N ops = Done c.
Hypothesis Hush : Forall (SymmProofs.uniform_shift KS s0 s1 sadd smul sopp N) ops.

Notation PO := (symm_partition_ok KS s0 s1 sadd smul ssub sopp szero SRING N ops c Hops Ec).
Notation OO o Ho := (symm_op_ok KS s0 s1 sadd smul ssub sopp szero SRING S10 N ops c Hops Ec Hush K NO fb eps one_not_small mone_not_small o Ho).

Theorem spine_chi_symmetry (ED : eigdata K) (beta : K) (i j k l : nat) : i < N -> j < N -> k < N -> l < N -> eig_ok K (bridge N c) ED ->
  cmp_exact K NO (t_cmp_nr K tl) (pole_list K NO (Nat.pow 2 N) (assembled_E K ED)) ->
  cmp_exact K NO (t_cmp_r K tl) (pole_list K NO (Nat.pow 2 N) (assembled_E K ED)) ->
  forall s : gf_st K,
  spine_chi K NO keepf fb eps g tl (bridge N c) ED beta i j k l = Done s ->
  exists D, spine_dm K NO beta (bridge N c) ED = Done D /\
    forall z1 z2 z3 : K,
    chi_regular6 K NO tl (Nat.pow 2 N) (assembled_E K ED) (assembled_w K D) z1 z2 z3 ->
    Chi.gf_value K NO tl s z1 z2 z3 =
    Done (chi K NO beta (t_reduce K tl) (assembled_E K ED) (assembled_w K D)
            (rotate K NO (Nat.pow 2 N) (assembled_U K NO (bridge N c) ED) (op_matrix K NO N (cann i)))
            (rotate K NO (Nat.pow 2 N) (assembled_U K NO (bridge N c) ED) (op_matrix K NO N (cann j)))
            (rotate K NO (Nat.pow 2 N) (assembled_U K NO (bridge N c) ED) (op_matrix K NO N (cdag k)))
            (rotate K NO (Nat.pow 2 N) (assembled_U K NO (bridge N c) ED) (op_matrix K NO N (cdag l)))
            z1 z2 z3).
Proof.
  intros Hi Hj Hk Hl EO CE1 CE2 s H.
  exact (spine_chi_partition K NO Kf conj0 fb eps one_not_small mone_not_small one_large mone_large keepf Hkeep tl guards_exact nz_exact
           negl_exact_nr negl_exact_r ofZ_1 ofZ_m1 ofZ_add ofZ_pos g (bridge N c) ED beta i j k l _ _ _ _ PO EO
           (OO (FC i) Hi) (OO (FC j) Hj) (OO (FCdag k) Hk) (OO (FCdag l) Hl) CE1 CE2 s H).
Qed.

Theorem spine_chi_symmetry_total (ED : eigdata K) (beta : K) (i j k l : nat) : i < N -> j < N -> k < N -> l < N -> eig_ok K (bridge N c) ED ->
  forall D, spine_dm K NO beta (bridge N c) ED = Done D ->
  exists s, spine_chi K NO keepf fb eps g tl (bridge N c) ED beta i j k l = Done s.
Proof.
  intros Hi Hj Hk Hl EO D HD.
  exact (spine_chi_partition_total K NO Kf fb eps one_not_small mone_not_small one_large mone_large keepf tl g (bridge N c) ED beta i j k l
           _ _ _ _ PO EO (OO (FC i) Hi) (OO (FC j) Hj) (OO (FCdag k) Hk) (OO (FCdag l) Hl) D HD).
Qed.
End Classification.

(** ... on the operators accepted by the symmetry analysis of a Hamiltonian *)
Theorem spine_chi_symmetry_analysis (fz sf : bool) (mode : Symm.symm_mode KS) (spins : list nat) (h : poly KS) (sy : Symm.symm KS) :
  mode_uniform KS sf mode (length spins) ->
  Symm.symmetrize KS s0 s1 sadd smul ssub sopp szero shalf fz sf mode spins h = Done sy ->
  exists c, Symm.sc_compute KS s0 sadd ssub sopp szero (length spins) (Symm.sy_ops sy) = Done c /\
    forall (ED : eigdata K) (beta : K) (i j k l : nat), i < length spins -> j < length spins -> k < length spins -> l < length spins ->
    eig_ok K (bridge (length spins) c) ED ->
    cmp_exact K NO (t_cmp_nr K tl) (pole_list K NO (Nat.pow 2 (length spins)) (assembled_E K ED)) ->
    cmp_exact K NO (t_cmp_r K tl) (pole_list K NO (Nat.pow 2 (length spins)) (assembled_E K ED)) ->
    forall s : gf_st K,
    spine_chi K NO keepf fb eps g tl (bridge (length spins) c) ED beta i j k l = Done s ->
    exists D, spine_dm K NO beta (bridge (length spins) c) ED = Done D /\
      forall z1 z2 z3 : K,
      chi_regular6 K NO tl (Nat.pow 2 (length spins)) (assembled_E K ED) (assembled_w K D) z1 z2 z3 ->
      Chi.gf_value K NO tl s z1 z2 z3 =
      Done (chi K NO beta (t_reduce K tl) (assembled_E K ED) (assembled_w K D)
              (rotate K NO (Nat.pow 2 (length spins)) (assembled_U K NO (bridge (length spins) c) ED) (op_matrix K NO (length spins) (cann i)))
              (rotate K NO (Nat.pow 2 (length spins)) (assembled_U K NO (bridge (length spins) c) ED) (op_matrix K NO (length spins) (cann j)))
              (rotate K NO (Nat.pow 2 (length spins)) (assembled_U K NO (bridge (length spins) c) ED) (op_matrix K NO (length spins) (cdag k)))
              (rotate K NO (Nat.pow 2 (length spins)) (assembled_U K NO (bridge (length spins) c) ED) (op_matrix K NO (length spins) (cdag l)))
              z1 z2 z3).
Proof.
  intros Hm Esy.
  destruct (analysis_ops_ok KS s0 s1 sadd smul ssub sopp szero shalf SRING fz sf mode spins h sy Hm Esy) as [Hr Hu].
  destruct (analysis_class_total KS s0 s1 sadd smul ssub sopp szero shalf SRING fz sf mode spins h sy Hm Esy) as [c Ec].
  exists c. split; [exact Ec|]. intros ED beta i j k l.
  exact (spine_chi_symmetry (length spins) (Symm.sy_ops sy) c Hr Ec Hu ED beta i j k l).
Qed.

End SymmetryChi.

(** * One number type (a field with an exact zero test): from the Hamiltonian polynomial to the two-particle function *)
Section OneNumberType.
Variable K : Type.
Variable NO : numops K.
Notation k0 := (n0 K NO).
Notation k1 := (n1 K NO).
Notation kadd := (nadd K NO).
Notation ksub := (nsub K NO).
Notation kmul := (nmul K NO).
Notation kdiv := (ndiv K NO).
Notation kopp := (nopp K NO).
Hypothesis Kf : field_theory k0 k1 kadd kmul ksub kopp kdiv (ChiLehmann.kinv K NO) (@eq K).
Variable kzero : K -> bool.
Variable khalf : K.
Hypothesis Kzero : forall x, kzero x = true <-> x = k0.
Hypothesis conj0 : nconj K NO k0 = k0.
Variable fb : bool.
Variable eps : K.
Hypothesis one_not_small : nre_ltb K NO (nabs K NO k1) eps = false.
Hypothesis mone_not_small : nre_ltb K NO (nabs K NO (kopp k1)) eps = false.
Hypothesis one_large : nre_ltb K NO eps (nabs K NO k1) = true.
Hypothesis mone_large : nre_ltb K NO eps (nabs K NO (kopp k1)) = true.
Hypothesis zero_test_exact : forall x, is_zero K NO eps x = true <-> x = k0.
Variable keepf : K -> bool.
Hypothesis Hkeep : forall x, keepf x = false -> x = k0.
Variable tl : Chi.tols K.
Hypothesis guards_exact : forall x, abs_gt K NO x (t_coeff K tl) = false -> x = k0.
Hypothesis nz_exact : forall x, nre_ltb K NO k0 (nabs K NO x) = false -> x = k0.
Hypothesis negl_exact_nr : forall x d, abs_lt K NO x (kdiv (t_neg_nr K tl) (nofZ K NO (Z.of_nat d))) = true -> x = k0.
Hypothesis negl_exact_r : forall x d, abs_lt K NO x (kdiv (t_neg_r K tl) (nofZ K NO (Z.of_nat d))) = true -> x = k0.
Hypothesis ofZ_1 : nofZ K NO (Zpos xH) = k1.
Hypothesis ofZ_m1 : nofZ K NO (Zneg xH) = kopp k1.
Hypothesis ofZ_add : forall a b : Z, nofZ K NO (a + b)%Z = kadd (nofZ K NO a) (nofZ K NO b).
Hypothesis ofZ_pos : forall z : Z, (0 < z)%Z -> nofZ K NO z <> k0.
Variable g : nat.

Theorem spine_chi_of_hamiltonian (fz sf : bool) (mode : Symm.symm_mode K) (spins : list nat) (h : poly K) (sy : Symm.symm K) :
  poly_in_range K (length spins) h ->
  mode_uniform K sf mode (length spins) ->
  Symm.symmetrize K k0 k1 kadd kmul ksub kopp kzero khalf fz sf mode spins h = Done sy ->
  exists c Hs,
    Symm.sc_compute K k0 kadd ksub kopp kzero (length spins) (Symm.sy_ops sy) = Done c /\
    spine_hblocks K NO fb eps (bridge (length spins) c) h = Done Hs /\
    forall ED : eigdata K, eig_ok K (bridge (length spins) c) ED ->
    (forall b, b < length (sc_states (bridge (length spins) c)) ->
       eigensystem K NO (block_size (bridge (length spins) c) b) (nth b Hs []) (Uof K ED b) (Eof K ED b)) ->
    eigensystem K NO (Nat.pow 2 (length spins)) (poly_matrix K NO (length spins) h)
                (assembled_U K NO (bridge (length spins) c) ED) (assembled_E K ED) /\
    forall (beta : K) (i j k l : nat), i < length spins -> j < length spins -> k < length spins -> l < length spins ->
    cmp_exact K NO (t_cmp_nr K tl) (pole_list K NO (Nat.pow 2 (length spins)) (assembled_E K ED)) ->
    cmp_exact K NO (t_cmp_r K tl) (pole_list K NO (Nat.pow 2 (length spins)) (assembled_E K ED)) ->
    forall s : gf_st K,
    spine_chi K NO keepf fb eps g tl (bridge (length spins) c) ED beta i j k l = Done s ->
    exists D, spine_dm K NO beta (bridge (length spins) c) ED = Done D /\
      forall z1 z2 z3 : K,
      chi_regular6 K NO tl (Nat.pow 2 (length spins)) (assembled_E K ED) (assembled_w K D) z1 z2 z3 ->
      Chi.gf_value K NO tl s z1 z2 z3 =
      Done (chi K NO beta (t_reduce K tl) (assembled_E K ED) (assembled_w K D)
              (rotate K NO (Nat.pow 2 (length spins)) (assembled_U K NO (bridge (length spins) c) ED) (op_matrix K NO (length spins) (cann i)))
              (rotate K NO (Nat.pow 2 (length spins)) (assembled_U K NO (bridge (length spins) c) ED) (op_matrix K NO (length spins) (cann j)))
              (rotate K NO (Nat.pow 2 (length spins)) (assembled_U K NO (bridge (length spins) c) ED) (op_matrix K NO (length spins) (cdag k)))
              (rotate K NO (Nat.pow 2 (length spins)) (assembled_U K NO (bridge (length spins) c) ED) (op_matrix K NO (length spins) (cdag l)))
              z1 z2 z3).
Proof.
  intros Hh Hm Esy.
  pose proof (F_R Kf) as Kr.
  pose proof (field_no_zero_divisors K NO (ChiLehmann.kinv K NO) Kf kzero Kzero) as Kdom.
  assert (RING : ring_ok K k0 k1 kadd kmul ksub kopp kzero) by (split; [exact Kr|exact Kzero]).
  assert (Hc : match mode with Symm.SymmCustom _ cands => Forall (poly_in_range K (length spins)) cands | _ => True end)
    by (destruct mode; [exact I|exact I|exact (proj2 Hm)]).
  destruct (analysis_ops_ok K k0 k1 kadd kmul ksub kopp kzero khalf RING fz sf mode spins h sy Hm Esy) as [Hr Hu].
  destruct (analysis_class_total K k0 k1 kadd kmul ksub kopp kzero khalf RING fz sf mode spins h sy Hm Esy) as [c Ec].
  exists c. eexists. split; [exact Ec|]. split.
  - exact (spine_hblocks_symmetry K NO kzero khalf Kr Kzero Kdom fz sf mode spins h Hh Hc sy Esy c Ec fb eps zero_test_exact).
  - intros ED EO CERT. split.
    + apply (spine_symmetry_eigensystem K NO kzero khalf Kr Kzero Kdom fz sf mode spins h Hh Hc sy Esy c Ec fb eps
               zero_test_exact conj0 ED _ EO
               (spine_hblocks_symmetry K NO kzero khalf Kr Kzero Kdom fz sf mode spins h Hh Hc sy Esy c Ec fb eps zero_test_exact)).
      exact CERT.
    + intros beta i j k l Hi Hj Hk Hl.
      exact (spine_chi_symmetry K k0 k1 kadd kmul ksub kopp kzero RING (F_1_neq_0 Kf) K NO Kf conj0 fb eps
               one_not_small mone_not_small one_large mone_large keepf Hkeep tl guards_exact nz_exact negl_exact_nr negl_exact_r
               ofZ_1 ofZ_m1 ofZ_add ofZ_pos g
               (length spins) (Symm.sy_ops sy) c Hr Ec Hu ED beta i j k l Hi Hj Hk Hl EO).
Qed.

End OneNumberType.
