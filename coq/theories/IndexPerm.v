(** C18, operator level -- definitions for ARBITRARY permutations of the single-particle indices.

    PV.IndexSem treats index permutations given as a word [ks] of adjacent transpositions
    ([perm_of ks], head acts last) and the signed permutation of Fock states they induce
    ([state_perm ks], [sign_of ks]).  Here:

    - [perm_on N pi]: what the table-level theorem PVprops.Properties_C18.rename_is_mode_permutation
      establishes about  pi = Index.index_perm t1 t2 f  (relabelling sites, re-ordering the addSite
      calls, switching the ordering mode): pi maps 0..N-1 into itself and is injective there
      (hence a bijection of 0..N-1), and an index >= N stays >= N (index_perm sends it to
      IndexSize t2 = N, the "unknown" value of getIndex);
    - [adj_decomp N pi]: a word of adjacent transpositions whose product is pi on 0..N-1, computed
      by moving pi(N-1), pi(N-2), ... into place (insertion sort).  PV.IndexPermProofs.adj_decomp_spec
      proves it correct for every [perm_on N pi];
    - [fock_perm N pi], [fock_sign N pi]: the signed permutation U_pi of the N-mode Fock basis,
        U_pi |s> = (-1)^(fock_sign N pi s) |fock_perm N pi s>.
      Intrinsic descriptions (independent of the chosen word), proved in PV.IndexPermProofs:
        bit pi(i) of [fock_perm N pi s] is bit i of [s]                    ([fock_perm_nth]),
        [fock_sign N pi s] = [inv_parity N pi s], the parity of the number of pairs i < j of
        occupied modes whose order pi reverses                             ([fock_sign_inversions]);
    - [ren_op pi], [poly_ren K pi]: every operator index i replaced by pi(i).

    Definitions only (all executable); proofs in PV.IndexPermProofs. *)
Require Import Bool List Arith.
From PV Require Import Outcome Fock Poly IndexSem.
Import ListNotations.

Definition perm_on (N : nat) (pi : nat -> nat) : Prop :=
  (forall i, i < N -> pi i < N) /\
  (forall i j, i < N -> j < N -> pi i = pi j -> i = j) /\
  (forall i, N <= i -> N <= pi i).

(** pi on 0..n:  let a = pi n.  The cycle  c = (a -> a+1 -> ... -> n)^{-1}-conjugate
    [perm_of (rev (seq a (n-a)))] takes a to n, so  c o pi  fixes n and permutes 0..n-1;
    pi = perm_of (seq a (n-a)) o (c o pi). *)
Fixpoint adj_decomp (N : nat) (pi : nat -> nat) : list nat :=
  match N with
  | O => []
  | S n => let cs := seq (pi n) (n - pi n) in
           cs ++ adj_decomp n (fun i => perm_of (rev cs) (pi i))
  end.

Definition fock_perm (N : nat) (pi : nat -> nat) (s : state) : state := state_perm (adj_decomp N pi) s.
Definition fock_sign (N : nat) (pi : nat -> nat) (s : state) : bool := sign_of (adj_decomp N pi) s.

(** parity of the number of pairs i < j < N, both occupied in s, with pi(i) > pi(j) *)
Definition inv_pairs (N : nat) : list (nat * nat) :=
  flat_map (fun j => map (fun i => (i, j)) (seq 0 j)) (seq 0 N).
Definition inv_term (pi : nat -> nat) (s : state) (ij : nat * nat) : bool :=
  nth (fst ij) s false && nth (snd ij) s false && (pi (snd ij) <? pi (fst ij)).
Definition xor_list {A} (f : A -> bool) (l : list A) : bool := fold_right (fun a acc => xorb (f a) acc) false l.
Definition inv_parity (N : nat) (pi : nat -> nat) (s : state) : bool := xor_list (inv_term pi s) (inv_pairs N).

Definition ren_op (pi : nat -> nat) (o : op) : op := (fst o, pi (snd o)).

Definition poly_ren (K : Type) (pi : nat -> nat) (p : poly K) : poly K :=
  map (fun mc => (map (ren_op pi) (fst mc), snd mc)) p.
