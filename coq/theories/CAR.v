(** The canonical anticommutation relations for the Jordan-Wigner action [Fock.act_op] /
    [Fock.act_mono] (the model of Operator::actRight), first on basis states, then lifted to the
    matrix elements [PolySem.coef_mono] of monomials, in the middle of an arbitrary monomial.

    No axioms are used. *)
Require Import Bool List Arith Lia Ring_theory Ring.
From PV Require Import Outcome Fock Poly PolySem.
Import ListNotations.

(** * Bit strings *)

Lemma upd_length : forall i v s, length (upd i v s) = length s.
Proof. induction i as [|i IH]; destruct s as [|b s]; simpl; auto. Qed.

Lemma nth_upd_same : forall i v s, i < length s -> nth i (upd i v s) false = v.
Proof.
  induction i as [|i IH]; destruct s as [|b s]; simpl; intros H; try lia; auto.
  apply IH; lia.
Qed.

Lemma nth_upd_other : forall i j v s, i <> j -> nth i (upd j v s) false = nth i s false.
Proof.
  induction i as [|i IH]; destruct j as [|j]; destruct s as [|b s]; simpl; intros H; try lia; auto.
Qed.

Lemma upd_comm : forall i j a b s, i <> j -> upd i a (upd j b s) = upd j b (upd i a s).
Proof.
  induction i as [|i IH]; destruct j as [|j]; destruct s as [|x s]; simpl; intros H; try lia; auto.
  f_equal. apply IH; lia.
Qed.

Lemma upd_upd_same : forall i a b s, upd i a (upd i b s) = upd i a s.
Proof.
  induction i as [|i IH]; destruct s as [|x s]; simpl; auto. f_equal; auto.
Qed.

Lemma upd_nth_id : forall i s, upd i (nth i s false) s = s.
Proof.
  induction i as [|i IH]; destruct s as [|x s]; simpl; auto. f_equal; auto.
Qed.

Lemma par_upd_ge : forall i j v s, i <= j -> par i (upd j v s) = par i s.
Proof.
  induction i as [|i IH]; intros j v s H; [reflexivity|].
  destruct j as [|j]; [lia|]. destruct s as [|x s]; simpl; auto.
  f_equal. apply IH; lia.
Qed.

Lemma par_upd_lt : forall i j v s, j < i -> j < length s ->
  par i (upd j v s) = xorb (par i s) (xorb (nth j s false) v).
Proof.
  induction i as [|i IH]; intros j v s H L; [lia|].
  destruct s as [|x s]; simpl in L; [lia|].
  destruct j as [|j]; simpl.
  - destruct x, v, (par i s); reflexivity.
  - rewrite IH by lia. destruct x, (par i s), (nth j s false), v; reflexivity.
Qed.

(** * One operator *)

Lemma act_op_length : forall o s sg s', act_op o s = Done (Some (sg, s')) -> length s' = length s.
Proof.
  intros o s sg s'. unfold act_op.
  destruct (op_idx o <? length s); [|discriminate].
  destruct (eqb (nth (op_idx o) s false) (negb (op_ann o))); [discriminate|].
  intro H; inversion H; subst. apply upd_length.
Qed.

Lemma act_op_in_range : forall o s, op_idx o < length s -> exists r, act_op o s = Done r.
Proof.
  intros o s H. unfold act_op. apply Nat.ltb_lt in H. rewrite H.
  destruct (eqb (nth (op_idx o) s false) (negb (op_ann o))); eauto.
Qed.

(** * Sequencing *)

Definition result := outcome (option (bool * state)).

(** apply [f] to the state of a non-zero result, multiplying the signs *)
Definition act_then (r : result) (f : state -> result) : result :=
  match r with
  | Done (Some (sg, u)) =>
    match f u with
    | Done (Some (sg', v)) => Done (Some (xorb sg sg', v))
    | r' => r'
    end
  | r' => r'
  end.

(** -1 times a result *)
Definition neg (r : option (bool * state)) : option (bool * state) :=
  match r with
  | Some (sg, u) => Some (negb sg, u)
  | None => None
  end.

Lemma act_mono_cons : forall o m s, act_mono (o :: m) s = act_then (act_mono m s) (act_op o).
Proof.
  intros o m s. cbn [act_mono]. unfold act_then.
  destruct (act_mono m s) as [[[sg u]|]| | | |]; try reflexivity.
Qed.

Lemma act_mono_single : forall o s, act_mono [o] s = act_op o s.
Proof.
  intros o s. cbn [act_mono].
  destruct (act_op o s) as [[[[|] u]|]| | | |]; reflexivity.
Qed.

(** compositionality: (m1 m2) |s> = m1 (m2 |s>), signs multiplied *)
Lemma act_mono_app : forall m1 m2 s, act_mono (m1 ++ m2) s = act_then (act_mono m2 s) (act_mono m1).
Proof.
  induction m1 as [|o m1 IH]; intros m2 s.
  - cbn [app act_mono]. unfold act_then.
    destruct (act_mono m2 s) as [[[sg u]|]| | | |]; try reflexivity.
    rewrite xorb_false_r. reflexivity.
  - rewrite <- app_comm_cons, act_mono_cons, IH. unfold act_then.
    destruct (act_mono m2 s) as [[[sg u]|]| | | |]; try reflexivity.
    rewrite act_mono_cons. unfold act_then.
    destruct (act_mono m1 u) as [[[sg' v]|]| | | |]; try reflexivity.
    destruct (act_op o v) as [[[sg'' w]|]| | | |]; try reflexivity.
    rewrite xorb_assoc. reflexivity.
Qed.

Lemma act_mono_pair : forall a b s, act_mono [a; b] s = act_then (act_op b s) (act_op a).
Proof. intros a b s. rewrite act_mono_cons, act_mono_single. reflexivity. Qed.

Lemma act_mono_length : forall m s sg s', act_mono m s = Done (Some (sg, s')) -> length s' = length s.
Proof.
  induction m as [|o m IH]; intros s sg s' H.
  - cbn [act_mono] in H. inversion H; reflexivity.
  - rewrite act_mono_cons in H. unfold act_then in H.
    destruct (act_mono m s) as [[[sg1 u]|]| | | |] eqn:E; try discriminate.
    destruct (act_op o u) as [[[sg2 v]|]| | | |] eqn:E2; try discriminate.
    inversion H; subst. apply act_op_length in E2. apply IH in E. congruence.
Qed.

(** with all indices below the number of modes, nothing is ever out of bounds *)
Lemma act_mono_in_range : forall M m s, mono_in_range M m -> length s = M ->
  exists r, act_mono m s = Done r.
Proof.
  intros M m s H L. induction H as [|o m Ho Hm IH].
  - cbn [act_mono]. eauto.
  - rewrite act_mono_cons. destruct IH as [r Hr]. rewrite Hr. unfold act_then.
    destruct r as [[sg u]|]; [|eauto].
    apply act_mono_length in Hr.
    destruct (act_op_in_range o u) as [r' Hr']; [lia|]. rewrite Hr'.
    destruct r' as [[sg' v]|]; eauto.
Qed.

(** * The anticommutation relations on basis states *)

(** operators on different modes anticommute: {a, b} = 0 *)
Lemma anticommute_distinct : forall a b s,
  op_idx a <> op_idx b -> op_idx a < length s -> op_idx b < length s ->
  exists r, act_mono [a; b] s = Done r /\ act_mono [b; a] s = Done (neg r).
Proof.
  intros [ta i] [tb j] s. unfold op_idx; cbn [fst snd]. intros Hij Hi Hj.
  rewrite !act_mono_pair. unfold act_then, act_op, op_idx, op_ann; cbn [fst snd].
  assert (Li : (i <? length s) = true) by (apply Nat.ltb_lt; exact Hi).
  assert (Lj : (j <? length s) = true) by (apply Nat.ltb_lt; exact Hj).
  rewrite Li, Lj.
  destruct (eqb (nth j s false) (negb tb)) eqn:Eb;
  destruct (eqb (nth i s false) (negb ta)) eqn:Ea; cbv beta iota;
  rewrite ?upd_length, ?Li, ?Lj, ?(nth_upd_other i j), ?(nth_upd_other j i), ?Ea, ?Eb by lia;
  cbv beta iota.
  - exists None; split; reflexivity.
  - exists None; split; reflexivity.
  - exists None; split; reflexivity.
  - eexists; split; [reflexivity|]. cbn [neg]. rewrite (upd_comm j i) by lia.
    do 3 f_equal.
    apply eqb_false_iff in Ea. apply eqb_false_iff in Eb.
    destruct (Nat.lt_ge_cases i j) as [L|L].
    + rewrite (par_upd_ge i j) by lia. rewrite (par_upd_lt j i) by lia.
      destruct (par i s), (par j s), (nth i s false), ta; try reflexivity; cbn [negb] in Ea; congruence.
    + rewrite (par_upd_ge j i) by lia. rewrite (par_upd_lt i j) by lia.
      destruct (par i s), (par j s), (nth j s false), tb; try reflexivity; cbn [negb] in Eb; congruence.
Qed.

(** Pauli principle: o o = 0 for both kinds of operators *)
Lemma same_op_twice : forall o s, op_idx o < length s -> act_mono [o; o] s = Done None.
Proof.
  intros [ty i] s. unfold op_idx; cbn [fst snd]. intros Hi.
  rewrite act_mono_pair. unfold act_then, act_op, op_idx, op_ann; cbn [fst snd].
  assert (Li : (i <? length s) = true) by (apply Nat.ltb_lt; exact Hi).
  rewrite Li.
  destruct (eqb (nth i s false) (negb ty)) eqn:E; cbv beta iota; [reflexivity|].
  rewrite upd_length, Li, nth_upd_same by exact Hi. rewrite eqb_reflx. reflexivity.
Qed.

(** c_i c^+_i + c^+_i c_i = 1: on every basis state exactly one of the two products is
    non-zero, and it gives the state back with sign + *)
Lemma car_same_index : forall i s, i < length s ->
  (act_mono [cann i; cdag i] s = Done (Some (false, s)) /\ act_mono [cdag i; cann i] s = Done None) \/
  (act_mono [cann i; cdag i] s = Done None /\ act_mono [cdag i; cann i] s = Done (Some (false, s))).
Proof.
  intros i s Hi. rewrite !act_mono_pair.
  unfold act_then, act_op, cann, cdag, op_idx, op_ann; cbn [fst snd negb].
  assert (Li : (i <? length s) = true) by (apply Nat.ltb_lt; exact Hi).
  rewrite Li.
  destruct (nth i s false) eqn:E; cbn [eqb]; cbv beta iota;
  rewrite upd_length, Li, nth_upd_same by exact Hi; cbn [eqb]; cbv beta iota.
  - right. split; [reflexivity|].
    rewrite par_upd_ge by lia. rewrite xorb_nilpotent, upd_upd_same.
    assert (Hs : upd i true s = s) by (rewrite <- E; apply upd_nth_id).
    rewrite Hs. reflexivity.
  - left. split; [|reflexivity].
    rewrite par_upd_ge by lia. rewrite xorb_nilpotent, upd_upd_same.
    assert (Hs : upd i false s = s) by (rewrite <- E; apply upd_nth_id).
    rewrite Hs. reflexivity.
Qed.

(** * Matrix elements *)

Section Coef.
Variable K : Type.
Variables (k0 k1 : K) (kadd kmul ksub : K -> K -> K) (kopp : K -> K).
Variable kzero : K -> bool.
Hypothesis Hring : ring_ok K k0 k1 kadd kmul ksub kopp kzero.

Let Rth : ring_theory k0 k1 kadd kmul ksub kopp (@eq K) := proj1 Hring.
Add Ring Kring_CAR : Rth.

Local Notation coef_mono := (coef_mono K k0 k1 kopp).

Definition sgn (b : bool) (x : K) : K := if b then kopp x else x.

(** <t| r> for a result r *)
Definition coef_res (r : result) (t : state) : K :=
  match r with
  | Done (Some (sg, t')) => if state_eqb t' t then (if sg then kopp k1 else k1) else k0
  | _ => k0
  end.

Lemma coef_mono_res : forall m s t, coef_mono m s t = coef_res (act_mono m s) t.
Proof. reflexivity. Qed.

(** coefficient-level compositionality *)
Lemma coef_mono_app : forall m1 m2 s t,
  coef_mono (m1 ++ m2) s t =
  match act_mono m2 s with
  | Done (Some (sg, u)) => sgn sg (coef_mono m1 u t)
  | _ => k0
  end.
Proof.
  intros m1 m2 s t. unfold PolySem.coef_mono. rewrite act_mono_app. unfold act_then.
  destruct (act_mono m2 s) as [[[sg u]|]| | | |]; try reflexivity.
  destruct (act_mono m1 u) as [[[sg' v]|]| | | |]; unfold sgn;
    try (destruct sg; [ring|reflexivity]).
  destruct (state_eqb v t); destruct sg, sg'; cbn [xorb]; ring.
Qed.

(** ** Local rewriting in the middle of a monomial *)

Lemma coef_mono_local_zero : forall X A B s t,
  (forall u, length u = length s -> act_mono X u = Done None) ->
  coef_mono (A ++ X ++ B) s t = k0.
Proof.
  intros X A B s t HX. rewrite coef_mono_app, act_mono_app. unfold act_then.
  destruct (act_mono B s) as [[[sg u]|]| | | |] eqn:EB; try reflexivity.
  rewrite (HX u) by (eapply act_mono_length; exact EB). reflexivity.
Qed.

Lemma coef_mono_local_neg : forall X Y A B s t,
  (forall u, length u = length s ->
     exists r, act_mono X u = Done r /\ act_mono Y u = Done (neg r)) ->
  coef_mono (A ++ X ++ B) s t = kopp (coef_mono (A ++ Y ++ B) s t).
Proof.
  intros X Y A B s t HXY. rewrite !coef_mono_app, !act_mono_app. unfold act_then.
  destruct (act_mono B s) as [[[sg u]|]| | | |] eqn:EB; try ring.
  destruct (HXY u) as [r [HX HY]]; [eapply act_mono_length; exact EB|].
  rewrite HX, HY. destruct r as [[sg' v]|]; cbn [neg]; [|ring].
  unfold sgn. destruct sg, sg'; cbn [xorb negb]; ring.
Qed.

Lemma coef_mono_local_car : forall X Y A B s t,
  (forall u, length u = length s ->
     (act_mono X u = Done (Some (false, u)) /\ act_mono Y u = Done None) \/
     (act_mono X u = Done None /\ act_mono Y u = Done (Some (false, u)))) ->
  coef_mono (A ++ B) s t = kadd (coef_mono (A ++ X ++ B) s t) (coef_mono (A ++ Y ++ B) s t).
Proof.
  intros X Y A B s t HXY. rewrite !coef_mono_app, !act_mono_app. unfold act_then.
  destruct (act_mono B s) as [[[sg u]|]| | | |] eqn:EB; try ring.
  destruct (HXY u) as [[HX HY]|[HX HY]]; try (eapply act_mono_length; exact EB);
    rewrite HX, HY; rewrite xorb_false_r; ring.
Qed.

(** ** The three rewriting rules used by the normal-ordering algorithm *)

Lemma coef_mono_same_twice : forall o A B s t, op_idx o < length s ->
  coef_mono (A ++ o :: o :: B) s t = k0.
Proof.
  intros o A B s t H. change (o :: o :: B) with ([o; o] ++ B).
  apply coef_mono_local_zero. intros u Hu. apply same_op_twice. lia.
Qed.

Lemma coef_mono_swap : forall a b A B s t,
  op_idx a <> op_idx b -> op_idx a < length s -> op_idx b < length s ->
  coef_mono (A ++ a :: b :: B) s t = kopp (coef_mono (A ++ b :: a :: B) s t).
Proof.
  intros a b A B s t Hab Ha Hb.
  change (a :: b :: B) with ([a; b] ++ B). change (b :: a :: B) with ([b; a] ++ B).
  apply coef_mono_local_neg. intros u Hu. apply anticommute_distinct; lia.
Qed.

Lemma coef_mono_car : forall i A B s t, i < length s ->
  coef_mono (A ++ cann i :: cdag i :: B) s t =
  ksub (coef_mono (A ++ B) s t) (coef_mono (A ++ cdag i :: cann i :: B) s t).
Proof.
  intros i A B s t Hi.
  change (cann i :: cdag i :: B) with ([cann i; cdag i] ++ B).
  change (cdag i :: cann i :: B) with ([cdag i; cann i] ++ B).
  rewrite (coef_mono_local_car [cann i; cdag i] [cdag i; cann i] A B s t).
  - ring.
  - intros u Hu. apply car_same_index. lia.
Qed.

End Coef.

Arguments sgn {K} kopp b x.
Arguments coef_res {K} k0 k1 kopp r t.
Arguments coef_mono_app {K k0 k1 kadd kmul ksub kopp kzero} Hring m1 m2 s t.
Arguments coef_mono_local_zero {K k0 k1 kadd kmul ksub kopp kzero} Hring X A B s t _.
Arguments coef_mono_local_neg {K k0 k1 kadd kmul ksub kopp kzero} Hring X Y A B s t _.
Arguments coef_mono_local_car {K k0 k1 kadd kmul ksub kopp kzero} Hring X Y A B s t _.
Arguments coef_mono_same_twice {K k0 k1 kadd kmul ksub kopp kzero} Hring o A B s t _.
Arguments coef_mono_swap {K k0 k1 kadd kmul ksub kopp kzero} Hring a b A B s t _ _ _.
Arguments coef_mono_car {K k0 k1 kadd kmul ksub kopp kzero} Hring i A B s t _.

(** the hypothesis [ring_ok] is satisfiable: the integers *)
Require Import ZArith.
Example ring_ok_Z :
  ring_ok Z 0%Z 1%Z Z.add Z.mul Z.sub Z.opp (fun c => Z.eqb c 0).
Proof.
  split; [exact InitialRing.Zth|]. intro c. apply Z.eqb_eq.
Qed.

(** c_1 c^+_1 and c^+_1 c_1 on the state with mode 0 occupied and mode 1 empty; the Jordan-Wigner
    sign of c^+_0 c^+_1 |00> against c^+_1 c^+_0 |00> *)
Example car_example :
  act_mono [cann 1; cdag 1] [true; false] = Done (Some (false, [true; false])) /\
  act_mono [cdag 1; cann 1] [true; false] = Done None /\
  act_mono [cdag 1; cdag 0] [false; false] = Done (Some (true, [true; true])) /\
  act_mono [cdag 0; cdag 1] [false; false] = Done (Some (false, [true; true])).
Proof. repeat split; reflexivity. Qed.
