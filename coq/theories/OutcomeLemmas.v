(** Generic lemmas about [PV.Outcome]: [bind], [inb], bounds-checked read lists and
    the invariant rule for the fuelled [loop_up].  Model-independent; reused by every
    model that is written with [loop_up]. *)
Require Import ZArith Bool List Lia ZifyBool.
From PV Require Import Outcome.
Local Open Scope Z_scope.

(** * bind *)

Lemma bind_Done {A B : Type} (x : outcome A) (f : A -> outcome B) (a : A) :
  x = Done a -> bind x f = f a.
Proof. intros E. rewrite E. reflexivity. Qed.

Lemma bind_Done_inv {A B : Type} (x : outcome A) (f : A -> outcome B) (b : B) :
  bind x f = Done b -> exists a, x = Done a /\ f a = Done b.
Proof.
  destruct x as [a| | |c|]; cbn [bind]; intros E; try discriminate E.
  exists a. split; [reflexivity|exact E].
Qed.

(** * inb *)

Lemma inb_true_iff (i n : Z) : inb i n = true <-> 0 <= i < n.
Proof. unfold inb. lia. Qed.

Lemma inb_false_iff (i n : Z) : inb i n = false <-> (i < 0 \/ n <= i).
Proof. unfold inb. lia. Qed.

Lemma inb_true (i n : Z) : 0 <= i < n -> inb i n = true.
Proof. apply inb_true_iff. Qed.

(** every index of a read list is in bounds *)
Lemma forallb_inb (l : list Z) (n : Z) :
  (forall i, In i l -> 0 <= i < n) -> forallb (fun i => inb i n) l = true.
Proof.
  intros H. apply forallb_forall. intros i Hi. apply inb_true. apply H. exact Hi.
Qed.

(** every index of a read list is the same, in-bounds, index [v] *)
Lemma forallb_inb_const (l : list Z) (v n : Z) :
  (forall i, In i l -> i = v) -> 0 <= v < n -> forallb (fun i => inb i n) l = true.
Proof.
  intros H Hv. apply forallb_inb. intros i Hi. rewrite (H i Hi). exact Hv.
Qed.

(** * loop_up *)

Lemma loop_up_false {St : Type} (fuel : nat) (i : Z) (cond : Z -> bool)
      (body : Z -> St -> outcome St) (s : St) :
  cond i = false -> loop_up fuel i cond body s = Done s.
Proof. intros E. destruct fuel; cbn [loop_up]; rewrite E; reflexivity. Qed.

Lemma loop_up_step {St : Type} (fuel : nat) (i : Z) (cond : Z -> bool)
      (body : Z -> St -> outcome St) (s s' : St) :
  cond i = true -> body i s = Done s' ->
  loop_up (S fuel) i cond body s = loop_up fuel (i + 1) cond body s'.
Proof. intros E Eb. cbn [loop_up]. rewrite E, Eb. reflexivity. Qed.

Lemma loop_up_no_fuel {St : Type} (i : Z) (cond : Z -> bool)
      (body : Z -> St -> outcome St) (s : St) :
  cond i = true -> loop_up O i cond body s = OutOfFuel.
Proof. intros E. cbn [loop_up]. rewrite E. reflexivity. Qed.

(** Invariant rule.  [for (i = lo; cond i; ++i) body] where on [lo..hi] the condition
    is equivalent to [i < hi], the fuel covers [hi - lo] iterations, and every
    iteration inside the range succeeds and carries [P i] to [P (i+1)]:
    the loop finishes normally in a state satisfying [P hi]. *)
Lemma loop_up_inv {St : Type} (P : Z -> St -> Prop) (cond : Z -> bool)
      (body : Z -> St -> outcome St) (hi : Z) :
  forall (fuel : nat) (lo : Z) (s : St),
  lo <= hi ->
  (forall i, lo <= i <= hi -> (cond i = true <-> i < hi)) ->
  (Z.to_nat (hi - lo) <= fuel)%nat ->
  P lo s ->
  (forall i t, lo <= i < hi -> P i t -> exists t', body i t = Done t' /\ P (i + 1) t') ->
  exists s', loop_up fuel lo cond body s = Done s' /\ P hi s'.
Proof.
  induction fuel as [|f IH]; intros lo s Hle Hc Hf HP Hb.
  - assert (lo = hi) by lia. subst lo. exists s. split; [|exact HP].
    apply loop_up_false. destruct (cond hi) eqn:E; [|reflexivity].
    apply (proj1 (Hc hi (conj (Z.le_refl hi) (Z.le_refl hi)))) in E. lia.
  - destruct (cond lo) eqn:E.
    + assert (Hlt : lo < hi).
      { apply (proj1 (Hc lo (conj (Z.le_refl lo) Hle))). exact E. }
      destruct (Hb lo s) as [s1 [Hs1 HP1]]; [lia|exact HP|].
      rewrite (loop_up_step f lo cond body s s1 E Hs1).
      apply IH.
      * lia.
      * intros i Hi. apply Hc. lia.
      * lia.
      * exact HP1.
      * intros i t Hi. apply Hb. lia.
    + assert (lo = hi).
      { destruct (Z.eq_dec lo hi) as [|Hne]; [assumption|].
        assert (cond lo = true) by (apply Hc; lia). congruence. }
      subst lo. exists s. split; [apply loop_up_false; exact E|exact HP].
Qed.

(** Same rule with a consequence step, in a shape that can be [apply]'d directly to a goal
    [exists s', loop_up ... = Done s' /\ Q s'] (cond and body are found by unification). *)
Lemma loop_up_inv_post {St : Type} (P : Z -> St -> Prop) (Q : St -> Prop) (hi : Z)
      (cond : Z -> bool) (body : Z -> St -> outcome St) (fuel : nat) (lo : Z) (s : St) :
  lo <= hi ->
  (forall i, lo <= i <= hi -> (cond i = true <-> i < hi)) ->
  (Z.to_nat (hi - lo) <= fuel)%nat ->
  P lo s ->
  (forall i t, lo <= i < hi -> P i t -> exists t', body i t = Done t' /\ P (i + 1) t') ->
  (forall s', P hi s' -> Q s') ->
  exists s', loop_up fuel lo cond body s = Done s' /\ Q s'.
Proof.
  intros Hle Hc Hf HP Hb HQ.
  destruct (loop_up_inv P cond body hi fuel lo s Hle Hc Hf HP Hb) as [s' [E HP']].
  exists s'. split; [exact E|apply HQ; exact HP'].
Qed.

(** A failing iteration: if the invariant holds up to [k] (lo <= k < hi) and the body
    does not return [Done] at [k] in any state satisfying [P k], the loop does not
    return [Done] either.  (Useful for models of defective code.) *)
Lemma loop_up_inv_fail {St : Type} (P : Z -> St -> Prop) (cond : Z -> bool)
      (body : Z -> St -> outcome St) (k : Z) :
  forall (fuel : nat) (lo : Z) (s : St),
  lo <= k ->
  (forall i, lo <= i <= k -> cond i = true) ->
  P lo s ->
  (forall i t, lo <= i < k -> P i t -> exists t', body i t = Done t' /\ P (i + 1) t') ->
  (forall t, P k t -> forall t', body k t <> Done t') ->
  forall s', loop_up fuel lo cond body s <> Done s'.
Proof.
  induction fuel as [|f IH]; intros lo s Hle Hc HP Hb Hk s'.
  - rewrite loop_up_no_fuel by (apply Hc; lia). discriminate.
  - assert (E : cond lo = true) by (apply Hc; lia).
    destruct (Z.eq_dec lo k) as [->|Hne].
    + cbn [loop_up]. rewrite E. specialize (Hk s HP).
      destruct (body k s) as [t| | |c|]; try discriminate.
      exfalso. apply (Hk t). reflexivity.
    + destruct (Hb lo s) as [s1 [Hs1 HP1]]; [lia|exact HP|].
      rewrite (loop_up_step f lo cond body s s1 E Hs1).
      apply IH.
      * lia.
      * intros i Hi. apply Hc. lia.
      * exact HP1.
      * intros i t Hi. apply Hb. lia.
      * exact Hk.
Qed.
