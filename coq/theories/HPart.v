(** Executable model of the diagonalisation layer and of the eigenbasis field operators
    (properties C03 and C10):

      StatesClassification::getBlockNumber / getInnerState   src/pomerol/StatesClassification.cpp:64-96
      HamiltonianPart::prepare / compute                     src/pomerol/HamiltonianPart.cpp:23-72
      Hamiltonian::computeGroundEnergy / getEigenValue /
                   getEigenValues                            src/pomerol/Hamiltonian.cpp:105-141
      FieldOperator::mapsTo / {Creation,Annihilation,Quadratic}Operator::prepare
                                                             src/pomerol/FieldOperator.cpp:110-211
      FieldOperatorPart::compute                             src/pomerol/FieldOperatorPart.cpp:13-67
      FieldOperatorContainer::computeAll                     src/pomerol/FieldOperatorContainer.cpp:24-43

    Numbers are an abstract type [K] with the operations of [EDSpec.numops] (executed at binary64
    complex numbers after extraction, reasoned about under explicit algebraic hypotheses in
    HPartProofs.v).  Fock states are their labels (sum of 2^i over occupied modes), converted to
    bit strings for [Fock.act_mono] / [Poly.act_poly], the model of Operator::actRight that the
    C05 correspondence check ties to the code.

    What is NOT modelled: Eigen::SelfAdjointEigenSolver.  Its result (eigenvalues, eigenvectors)
    is an input of [hpart_compute]; the per-run certificate (residuals) says what it is worth.
    ComputableObject::Status is not modelled either: the documented workflow calls prepare before
    compute, and the getters after compute.

    Every array access of the C++ that is not protected by a test is bounds-checked here and
    yields [OOB]; exceptions are [Throws code]. *)
Require Import Bool List Arith ZArith.
From PV Require Import Outcome Fock Poly EDSpec.
Import ListNotations.

(** exception classes *)
Definition ex_wrong_state : nat := 2.       (* StatesClassification::exWrongState *)

(** * StatesClassification (the data the other classes read) *)
Record classification := mkClass {
  sc_M : nat;                       (* IndexSize *)
  sc_states : list (list nat);      (* StatesContainer: Fock state labels of every block, in order of insertion *)
  sc_index : list nat               (* StateBlockIndex: block number of every label 0 .. 2^M - 1 *)
}.
Definition state_size (S : classification) : nat := Nat.pow 2 (sc_M S).      (* StateSize = 1 << IndexSize *)

(** StatesClassification::compute pushes each label 0..2^M-1 onto the list of its block and onto
    StateBlockIndex (StatesClassification.cpp:27-49); given the block lists, StateBlockIndex is
    therefore the position of the block that contains the label. *)
Fixpoint block_containing (blocks : list (list nat)) (s : nat) (b : nat) : nat :=
  match blocks with
  | [] => b                                             (* not found: an index past the last block *)
  | l :: rest => if existsb (Nat.eqb s) l then b else block_containing rest s (S b)
  end.
Definition classification_of_blocks (M : nat) (blocks : list (list nat)) : classification :=
  mkClass M blocks (map (fun s => block_containing blocks s 0) (seq 0 (Nat.pow 2 M))).

Fixpoint outcome_map {A B} (f : A -> outcome B) (l : list A) : outcome (list B) :=
  match l with
  | [] => Done []
  | a :: t => bind (f a) (fun b => bind (outcome_map f t) (fun r => Done (b :: r)))
  end.

(** write one cell of a vector; [None] = index out of range *)
Fixpoint set_nth {A} (l : list A) (i : nat) (v : A) : option (list A) :=
  match l, i with
  | [], _ => None
  | _ :: t, O => Some (v :: t)
  | x :: t, S j => match set_nth t j v with Some t' => Some (x :: t') | None => None end
  end.

Section Classification.
(** [fixed_bound = false]: the label test is [in > StateSize] (StatesClassification.cpp:67,74,81,94 as read);
    [fixed_bound = true]: [in >= StateSize].  Which one is current is established by the harness h_c03. *)
Variable fixed_bound : bool.

Definition label_rejected (S : classification) (s : nat) : bool :=
  if fixed_bound then state_size S <=? s else state_size S <? s.

(** getBlockNumber(FockState) / getBlockNumber(QuantumState): StateBlockIndex[in]   (cpp:64-76) *)
Definition getBlockNumber (S : classification) (s : nat) : outcome nat :=
  if label_rejected S s then Throws ex_wrong_state
  else match nth_error (sc_index S) s with Some b => Done b | None => OOB end.

Fixpoint find_pos (l : list nat) (s : nat) (n : nat) : option nat :=
  match l with
  | [] => None
  | x :: t => if Nat.eqb x s then Some n else find_pos t s (S n)
  end.

(** getInnerState(FockState): position of the state in the list of ITS OWN block   (cpp:78-89) *)
Definition getInnerState (S : classification) (s : nat) : outcome nat :=
  if label_rejected S s then Throws ex_wrong_state
  else bind (getBlockNumber S s) (fun b =>
    match nth_error (sc_states S) b with
    | None => OOB                                        (* StatesContainer[block] *)
    | Some l => match find_pos l s 0 with Some n => Done n | None => Throws ex_wrong_state end
    end).

(** getInnerState(QuantumState): FockState(IndexSize, state) keeps the low IndexSize bits   (cpp:91-96) *)
Definition getInnerState_label (S : classification) (q : nat) : outcome nat :=
  if label_rejected S q then Throws ex_wrong_state
  else getInnerState S (Nat.modulo q (state_size S)).

(** getFockStates(BlockNumber): StatesContainer[in]   (cpp:98-102) *)
Definition getFockStates (S : classification) (b : nat) : outcome (list nat) :=
  match nth_error (sc_states S) b with Some l => Done l | None => OOB end.

Section Numeric.
Variable K : Type.
Variable NO : numops K.
Variable eps : K.          (* std::numeric_limits<RealType>::epsilon() *)
Variable kre : K -> K.     (* std::real *)
Notation "0" := (n0 K NO).
Notation "1" := (n1 K NO).
Notation kadd := (nadd K NO).
Notation kmul := (nmul K NO).
Notation kopp := (nopp K NO).
Notation conj := (nconj K NO).
Notation ltb := (nre_ltb K NO).
Notation kabs := (nabs K NO).

(** * Operator::actRight(ket) as a std::map   (Operator.cpp:67-83)
    [Poly.act_poly] accumulates result1[bra] += melem * coeff in map order of the monomials;
    a std::map iterates in ascending key order; remove_copy_if drops |value| < eps. *)
Definition is_zero (x : K) : bool := ltb (kabs x) eps.          (* __is_zero *)

Fixpoint insert_sorted (e : nat * K) (l : list (nat * K)) : list (nat * K) :=
  match l with
  | [] => [e]
  | x :: t => if fst e <=? fst x then e :: l else x :: insert_sorted e t
  end.
Definition sort_by_label (l : list (nat * K)) : list (nat * K) := fold_right insert_sorted [] l.

Definition act_map (M : nat) (p : poly K) (ket : nat) : outcome (list (nat * K)) :=
  bind (act_poly K kadd kopp p (state_of_nat M ket)) (fun l =>
    Done (sort_by_label (filter (fun e => negb (is_zero (snd e)))
                                (map (fun sc => (nat_of_state (fst sc), snd sc)) l)))).

(** * HamiltonianPart::prepare   (HamiltonianPart.cpp:23-49)

    The outer loop runs over the kets of the block (right_st); the body only ever writes column
    right_st of H, so the model builds the columns one after the other and returns the rows.
    [S.getInnerState(bra)] is the position of bra in its own block: if the Hamiltonian leads out
    of the block the row index is the position in ANOTHER block -- a wrong cell if it is smaller
    than the size of this block, a write outside the matrix ([OOB]) otherwise. *)
Definition hpart_column (S : classification) (p : poly K) (n : nat) (ket : nat) : outcome (list K) :=
  bind (act_map (sc_M S) p ket) (fun entries =>                  (* mapStates = F.actRight(ket)          :34 *)
    fold_left (fun acc e =>                                      (* for melem_it in mapStates            :35 *)
      bind acc (fun col =>
      bind (getInnerState S (fst e)) (fun left_st =>             (* left_st = S.getInnerState(bra)       :39 *)
        match set_nth col left_st (snd e) with                   (* H(left_st,right_st) = melem          :41 *)
        | Some col' => Done col'
        | None => OOB
        end)))
      entries (Done (repeat 0 n))).                              (* H.setZero()                          :28 *)

Definition rows_of_columns (n : nat) (cols : list (list K)) : mat K :=
  map (fun i => map (fun col => nth i col 0) cols) (seq 0 n).

Definition hpart_prepare (S : classification) (p : poly K) (b : nat) : outcome (mat K) :=
  bind (getFockStates S b) (fun states =>                        (* BlockSize = S.getBlockSize(Block)    :25 *)
    let n := length states in
    bind (outcome_map (hpart_column S p n) states) (fun cols =>  (* for right_st < BlockSize             :31 *)
      Done (rows_of_columns n cols))).

(** * HamiltonianPart::compute   (HamiltonianPart.cpp:51-72)
    [solver] = (Solver.eigenvalues(), Solver.eigenvectors()) is an input. *)
Definition hpart_compute (H : mat K) (solver : list K * mat K) : list K * mat K :=
  if length H =? 1 then ([kre (mget K NO H 0 0)], [[1]])        (* Eigenvalues << real(H(0,0)); H(0,0) = 1   :54-65 *)
  else solver.                                                   (* :66-70 *)

(** a computed part: (Eigenvalues, H = eigenvectors as columns) *)
Definition hpart := (list K * mat K)%type.

(** Eigen's minCoeff: first coefficient, then [if (value < res) res = value]; empty vector = UB *)
Definition min_coeff (l : list K) : outcome K :=
  match l with
  | [] => OOB
  | x :: t => Done (fold_left (fun m v => if ltb v m then v else m) t x)
  end.

(** Hamiltonian::computeGroundEnergy   (Hamiltonian.cpp:105-113) *)
Definition computeGroundEnergy (parts : list hpart) : outcome K :=
  bind (outcome_map (fun p => min_coeff (fst p)) parts) min_coeff.

(** Hamiltonian::getEigenValue(QuantumState)   (Hamiltonian.cpp:125-129) *)
Definition getEigenValue (S : classification) (parts : list hpart) (q : nat) : outcome K :=
  bind (getInnerState_label S q) (fun inner =>                   (* S.getInnerState(state)               :127 *)
  bind (getBlockNumber S q) (fun b =>                            (* S.getBlockNumber(state)              :128 *)
    match nth_error parts b with                                 (* *parts[in]                           :122 *)
    | None => OOB
    | Some part =>
      match nth_error (fst part) inner with                      (* Eigenvalues(state)    HamiltonianPart.cpp:83 *)
      | Some e => Done e
      | None => OOB
      end
    end)).

(** Hamiltonian::getEigenValues   (Hamiltonian.cpp:131-141): an uninitialised vector of StateSize
    cells, every part's eigenvalues copied at the running offset *)
Fixpoint write_range {A} (out : list (option A)) (i : nat) (src : list A) : outcome (list (option A)) :=
  match src with
  | [] => Done out
  | x :: t => match set_nth out i (Some x) with
              | Some out' => write_range out' (S i) t
              | None => OOB
              end
  end.
Fixpoint read_all {A} (out : list (option A)) : outcome (list A) :=
  match out with
  | [] => Done []
  | Some x :: t => bind (read_all t) (fun r => Done (x :: r))
  | None :: _ => Uninit
  end.
Definition getEigenValues (S : classification) (parts : list hpart) : outcome (list K) :=
  bind (fold_left (fun acc part =>
          bind acc (fun oi => bind (write_range (fst oi) (snd oi) (fst part))       (* std::copy  :137 *)
                                   (fun out' => Done (out', snd oi + length (fst part)))))  (* i += tmp.size() :138 *)
          parts (Done (repeat None (state_size S), 0%nat)))
       (fun oi => read_all (fst oi)).

(** * Field operators *)
Inductive fop := FCdag (i : nat) | FC (i : nat) | FQuad (i j : nat).
(** the symbolic operator O of the part: OperatorPresets::Cdag / C / N_offdiag   (FieldOperatorPart.cpp:104-141) *)
Definition fop_poly (o : fop) : poly K :=
  match o with
  | FCdag i => p_cdag K 1 i
  | FC i => p_c K 1 i
  | FQuad i j => p_n_offdiag K 1 i j
  end.

(** FieldOperator::mapsTo(BlockNumber)   (FieldOperator.cpp:167-177): block of the image of the
    first state of the block that is not annihilated; [None] = ERROR_BLOCK_NUMBER *)
Fixpoint first_image (M : nat) (p : poly K) (states : list nat) : outcome (option nat) :=
  match states with
  | [] => Done None
  | s :: t => bind (act_map M p s) (fun r =>
                match r with
                | [] => first_image M p t
                | (bra, _) :: _ => Done (Some bra)                (* result.begin()->first *)
                end)
  end.
Definition mapsTo (S : classification) (o : fop) (right : nat) : outcome (option nat) :=
  bind (getFockStates S right) (fun states =>
  bind (first_image (sc_M S) (fop_poly o) states) (fun r =>
    match r with
    | None => Done None
    | Some bra => bind (getBlockNumber S bra) (fun b => Done (Some b))
    end)).

(** XOperator::prepare   (FieldOperator.cpp:110-149,193-211): the parts (left, right) in order of the
    right index *)
Definition fo_prepare (S : classification) (o : fop) : outcome (list (nat * nat)) :=
  fold_left (fun acc right =>
    bind acc (fun parts =>
    bind (mapsTo S o right) (fun l =>
      match l with
      | Some lft => Done (parts ++ [(lft, right)])
      | None => Done parts
      end)))
    (seq 0 (length (sc_states S))) (Done []).

(** LeftRightBlocks.insert(BlockMapping(Left,Right)): a boost::bimap with set_of on both sides
    refuses a pair whose left or right key is already present; iteration over .left is ascending *)
Definition bimap_insert (bm : list (nat * nat)) (lr : nat * nat) : list (nat * nat) :=
  if existsb (fun e => Nat.eqb (fst e) (fst lr) || Nat.eqb (snd e) (snd lr)) bm then bm
  else bm ++ [lr].
Definition fo_bimap (parts : list (nat * nat)) : list (nat * nat) := fold_left bimap_insert parts [].

(** bounds-checked H(i,j) *)
Definition mget_chk (m : mat K) (i j : nat) : outcome K :=
  match nth_error m i with
  | None => OOB
  | Some r => match nth_error r j with Some x => Done x | None => OOB end
  end.

(** * FieldOperatorPart::compute   (FieldOperatorPart.cpp:13-67)
    LeftMat is kept as its list of columns (column k is written as a whole by the n-loop),
    RightMat as its list of rows (row k is written as a whole by the m-loop). *)
Definition fop_fill (S : classification) (o : fop) (Hfrom Hto : mat K) (nt nf : nat) (fromStates : list nat)
  : outcome (list (list K) * list (list K)) :=
  fold_left (fun acc Kst =>                                              (* for CurrentState in fromStates :32 *)
    bind acc (fun LR =>
    bind (act_map (sc_M S) (fop_poly o) Kst) (fun result1 =>             (* result1 = O->actRight(K)       :35 *)
      match result1 with
      | [] => Done LR                                                    (* if (result1.size())            :36 *)
      | (Lst, sign) :: _ =>                                              (* result1.begin()                :37-42 *)
        if ltb eps (kabs sign) then                                      (* std::abs(sign) > eps           :43 *)
          bind (getInnerState S Lst) (fun l =>                           (* l = S.getInnerState(L)         :44 *)
          bind (getInnerState S Kst) (fun k =>                           (* k = S.getInnerState(K)         :44 *)
          bind (outcome_map (fun n => bind (mget_chk Hto l n) (fun x => Done (conj x))) (seq 0 nt))
               (fun lcol =>                                              (* LeftMat(n,k) = conj(HTo(l,n))  :46-52 *)
          bind (outcome_map (fun m => bind (mget_chk Hfrom k m) (fun x => Done (kmul sign x))) (seq 0 nf))
               (fun rrow =>                                              (* RightMat(k,m) = sign*HFrom(k,m) :54-56 *)
            match set_nth (fst LR) k lcol, set_nth (snd LR) k rrow with
            | Some L', Some R' => Done (L', R')
            | _, _ => OOB
            end))))
        else Done LR
      end)))
    fromStates (Done (repeat (repeat 0 nt) nf, repeat (repeat 0 nf) nf)).   (* setZero()  :22-25 *)

(** the dense product LeftMat * RightMat   (:61) as rows *)
Definition fop_dense (S : classification) (o : fop) (from to : nat) (Hfrom Hto : mat K) : outcome (mat K) :=
  bind (getFockStates S to) (fun toStates =>                             (* :19 *)
  bind (getFockStates S from) (fun fromStates =>                         (* :20 *)
    let nt := length toStates in
    let nf := length fromStates in
    bind (fop_fill S o Hfrom Hto nt nf fromStates) (fun LR =>
      Done (mmul K NO nf (transpose K NO nt (fst LR)) (snd LR))))).

(** sparseView(reference, epsilon = dummy_precision) and prune(reference, epsilon): an entry is
    kept unless it is "much smaller than" the reference, |x| <= |reference| * epsilon
    (Eigen/src/SparseCore/SparseView.h, SparseMatrix::prune).  Pruned cells are 0 in the dense view. *)
Definition keep_entry (reference prec : K) (x : K) : bool := ltb (kmul (kabs reference) prec) (kabs x).
Definition prune (reference prec : K) (m : mat K) : mat K :=
  map (map (fun x => if keep_entry reference prec x then x else 0)) m.

Definition fop_compute (S : classification) (o : fop) (from to : nat) (Hfrom Hto : mat K) (reference prec : K)
  : outcome (mat K) :=
  bind (fop_dense S o from to Hfrom Hto) (fun d => Done (prune reference prec d)).

(** * FieldOperatorContainer::computeAll   (FieldOperatorContainer.cpp:24-43)
    for every pair (left, right) of the creation operator's block map:
       c.getPartFromRightIndex(left).elements = cdag.getPartFromRightIndex(right).elements.adjoint()
    [cdag_parts]: ((left, right), stored matrix); [c_parts]: the (left, right) pairs of the prepared
    annihilation operator.  A missing part (find() == end()) is [OOB].  Result: for every part of c
    its matrix, [None] if it was never assigned. *)
Definition assoc_right {A} (parts : list ((nat * nat) * A)) (right : nat) : option ((nat * nat) * A) :=
  find (fun e => Nat.eqb (snd (fst e)) right) parts.

Definition container_copy (ncols : nat -> nat) (cdag_bimap : list (nat * nat)) (cdag_parts : list ((nat * nat) * mat K))
           (c_parts : list (nat * nat)) : outcome (list ((nat * nat) * option (mat K))) :=
  fold_left (fun acc lr =>
    bind acc (fun cs =>
      match assoc_right cdag_parts (snd lr), assoc_right cs (fst lr) with
      | Some (_, m), Some (key, _) =>
        Done (map (fun e => if Nat.eqb (snd (fst e)) (fst lr) then (fst e, Some (adjoint K NO (ncols (snd lr)) m)) else e) cs)
      | _, _ => OOB
      end))
    cdag_bimap (Done (map (fun lr => (lr, None)) c_parts)).

End Numeric.
End Classification.
