(** LatticeShapes.v -- the few extra combinators in which translator/gen_lattice.py writes Lattice / LatticePresets
    (property C20; the presets are shared with C04).

    The generated files coq/gen/Gen_Lattice*.v are statement-by-statement translations of the C++ functions into the
    vocabulary of PV.Lattice -- [wret], [wthrow], [wseq], [wfor] / [wfor_from], [wpush], [wpush_f] (L->Terms->addTerm(factory)),
    [wadd_f] (L->addTerm(factory)), the factory constructors [FLevel4] ..., the amplitude operations [vops] -- plus the
    combinators below for the three things Lattice.v writes as a [match] on [find_site]:

      Sites.find(l) == Sites.end()                 [site_absent m l]
      Sites[l]->OrbitalSize / ->SpinSize           [wsite m l (fun orb spin => ...)]: std::map::operator[] on an unknown label inserts a
                                                   null pointer, which is then dereferenced -- undefined behaviour, [OOB]
      T->SiteLabels[i], T->Orbitals[i], T->Spins[i]  [wterm_at t i (fun label orbital spin => ...)]: a vector shorter than i+1 is read
                                                   past its end, [OOB] (as PV.Lattice.validate)
      Terms.find(N)                                [tm_find N terms]
      addX(L, ...) inside a preset                 [p_addX<k> P m ...]: the field of [preset_table] for the overload with k C++ parameters
      L->addTerm(Presets::F(..)) inside a preset   [wadd_via (p_addTerm P) m (F<k> ..)]: as [PV.Lattice.wadd_f], with Lattice::addTerm taken from
                                                   the table (PV.LatticeGen puts its translation there)

    Hand-written; PV.LatticeGen interprets nothing else. *)
Require Import List Bool Arith.
From PV Require Import Outcome Lattice.
Import ListNotations.

Section Shapes.
Variable L : Type.
Variable leqb : L -> L -> bool.
Variable V : Type.

Definition site_absent (m : site_map L) (l : L) : bool :=
  match find_site L leqb l m with None => true | Some _ => false end.

Definition wsite (m : site_map L) (l : L) (k : nat -> nat -> W L V) : W L V :=
  match find_site L leqb l m with
  | Some (orb, spin) => k orb spin
  | None => woob L V
  end.

Definition wterm_at (t : term L V) (i : nat) (k : L -> nat -> nat -> W L V) : W L V :=
  match nth_error (t_labels t) i, nth_error (t_orbs t) i, nth_error (t_spins t) i with
  | Some l, Some o, Some s => k l o s
  | _, _, _ => woob L V
  end.

(** [L->addTerm(Presets::F(...))] for a given Lattice::addTerm *)
Definition wadd_via (addTerm : site_map L -> term L V -> W L V) (m : site_map L) (f : fcall L V) : W L V :=
  match factory L leqb V f with
  | Done t => addTerm m t
  | Throws c => wthrow L V c
  | _ => woob L V
  end.

(** std::map<unsigned int, TermList>::find *)
Fixpoint tm_find (n : nat) (m : term_map L V) : option (list (term L V)) :=
  match m with
  | [] => None
  | (k, l) :: m' => if k =? n then Some l else tm_find n m'
  end.

End Shapes.

(** Lattice::addTerm and the LatticePresets overloads, by name and number of C++ parameters (the lattice included): a translated preset that calls
    another preset reads the callee from such a table (PV.LatticeGen fills it with the translations themselves). *)
Record preset_table (L V : Type) : Type := mkPresetTable {
  p_addTerm : site_map L -> term L V -> W L V;          (* Lattice::addTerm *)
  p_addCoulombS4 : site_map L -> L -> V -> V -> W L V;
  p_addCoulombP6 : site_map L -> L -> V -> V -> V -> V -> W L V;
  p_addCoulombP5 : site_map L -> L -> V -> V -> V -> W L V;
  p_addLevel3 : site_map L -> L -> V -> W L V;
  p_addMagnetization3 : site_map L -> L -> V -> W L V;
  p_addSzSz4 : site_map L -> L -> L -> V -> W L V;
  p_addSS4 : site_map L -> L -> L -> V -> W L V;
  p_addHopping8 : site_map L -> L -> L -> V -> nat -> nat -> nat -> nat -> W L V;
  p_addHopping7 : site_map L -> L -> L -> V -> nat -> nat -> nat -> W L V;
  p_addHopping6 : site_map L -> L -> L -> V -> nat -> nat -> W L V;
  p_addHopping4 : site_map L -> L -> L -> V -> W L V
}.
