(** C18 -- non-vacuity of PV.IndexPermProofs / PV.IndexObsProofs: concrete instances evaluated by
    vm_compute.  pi3 = the 3-cycle 0 -> 2 -> 1 -> 0 on three modes (not an adjacent transposition,
    not even a transposition); coefficients in Z. *)
Require Import Bool List Arith Lia ZArith Ring_theory Permutation.
Require Strings.String.
From PV Require Import Outcome Fock Poly PolySem EDSpec Index IndexProofs IndexSem IndexPerm IndexPermProofs
                       IndexObs IndexObsProofs.
Import ListNotations.

Definition pi3 (i : nat) : nat := match i with 0 => 2 | 1 => 0 | 2 => 1 | _ => i end.

Example pi3_perm_on : perm_on 3 pi3.
Proof.
  split; [|split].
  - intros [|[|[|i]]] H; cbn; lia.
  - intros [|[|[|i]]] [|[|[|j]]] Hi Hj; cbn; lia.
  - intros [|[|[|i]]] H; cbn; lia.
Qed.

(** the word found by [adj_decomp], its product, and the signed permutation of the 8 Fock states
    (label = b0 + 2 b1 + 4 b2): |011> = label 3 has modes 0,1 occupied, pi3 reverses their order: sign -1 *)
Example pi3_decomp :
  adj_decomp 3 pi3 = [1; 0] /\
  map (perm_of (adj_decomp 3 pi3)) [0; 1; 2; 3; 7] = map pi3 [0; 1; 2; 3; 7] /\
  map (sp_fwd (fock_sperm 3 pi3)) (seq 0 8) = [0; 4; 1; 5; 2; 6; 3; 7] /\
  map (sp_inv (fock_sperm 3 pi3)) (seq 0 8) = [0; 2; 4; 6; 1; 3; 5; 7] /\
  map (sp_sg (fock_sperm 3 pi3)) (seq 0 8) = [false; false; false; true; false; true; false; false] /\
  map (fun s => inv_parity 3 pi3 (state_of_nat 3 s)) (seq 0 8) = map (sp_sg (fock_sperm 3 pi3)) (seq 0 8).
Proof. repeat split; vm_compute; reflexivity. Qed.

(** [sem_permute_monomial]: c^+_2 c_0 on |110>; renamed: c^+_1 c_2 on U|110> *)
Example sem_permute_monomial_pi3 :
  let m := [cdag 2; cann 0] in
  let s := [true; true; false] in
  length s = 3 /\
  act_mono m s = Done (Some (true, [false; true; true])) /\
  map (ren_op pi3) m = [cdag 1; cann 2] /\
  fock_perm 3 pi3 s = [true; false; true] /\ fock_sign 3 pi3 s = true /\
  fock_perm 3 pi3 [false; true; true] = [true; true; false] /\ fock_sign 3 pi3 [false; true; true] = false /\
  act_mono (map (ren_op pi3) m) (fock_perm 3 pi3 s) = Done (Some (false, [true; true; false])).
Proof. cbn zeta. repeat split; vm_compute; reflexivity. Qed.

(** a polynomial that is not invariant: H = 3 (c^+_0 c_2 + h.c.) + 7 (c^+_1 c_0 + h.c.) - 2 n_1 + 5 n_0 n_1 *)
Definition p3 : poly Z :=
  [([cdag 0; cann 2], 3%Z); ([cdag 2; cann 0], 3%Z); ([cdag 1; cann 0], 7%Z); ([cdag 0; cann 1], 7%Z);
   ([cdag 1; cann 1], (-2)%Z); ([cdag 0; cdag 1; cann 1; cann 0], 5%Z)].

Example sem_permute_poly_pi3 :
  let s := [false; true; true] in
  let t := [true; true; false] in
  ring_theory 0%Z 1%Z Z.add Z.mul Z.sub Z.opp (@eq Z) /\ length s = 3 /\
  PolySem.coef_poly Z 0%Z 1%Z Z.add Z.mul Z.opp p3 s t = (-3)%Z /\
  PolySem.coef_poly Z 0%Z 1%Z Z.add Z.mul Z.opp (poly_ren Z pi3 p3) (fock_perm 3 pi3 s) (fock_perm 3 pi3 t) = 3%Z /\
  xorb (fock_sign 3 pi3 s) (fock_sign 3 pi3 t) = true.
Proof. cbn zeta. split; [exact Zth|]. repeat split; vm_compute; reflexivity. Qed.

(** * The executable specification at Z *)
Definition ZopsC18 : numops Z :=
  {| n0 := 0%Z; n1 := 1%Z; nadd := Z.add; nsub := Z.sub; nmul := Z.mul; ndiv := Z.div; nopp := Z.opp;
     nconj := fun x => x; nexp := fun x => x; nre_ltb := Z.ltb; nabs := Z.abs; nofZ := fun z => z; nI := 0%Z |}.

Example ZopsC18_ring :
  ring_theory (n0 Z ZopsC18) (n1 Z ZopsC18) (nadd Z ZopsC18) (nmul Z ZopsC18) (nsub Z ZopsC18) (nopp Z ZopsC18) (@eq Z).
Proof. exact Zth. Qed.
Example ZopsC18_conj : forall x, nconj Z ZopsC18 (nopp Z ZopsC18 x) = nopp Z ZopsC18 (nconj Z ZopsC18 x).
Proof. reflexivity. Qed.
Example ZopsC18_abs0 : nabs Z ZopsC18 (n0 Z ZopsC18) = n0 Z ZopsC18.
Proof. reflexivity. Qed.

(** the Hamiltonian matrix: renamed polynomial = P H P^T (computed on both sides), and it differs from H *)
Example poly_matrix_pi3 :
  let P := fock_sperm 3 pi3 in
  let H := poly_matrix Z ZopsC18 3 p3 in
  let H' := poly_matrix Z ZopsC18 3 (poly_ren Z pi3 p3) in
  H' = pconj Z ZopsC18 P H /\
  H' = mmul Z ZopsC18 8 (mmul Z ZopsC18 8 (Pmat Z ZopsC18 P) H) (transpose Z ZopsC18 8 (Pmat Z ZopsC18 P)) /\
  mmul Z ZopsC18 8 (transpose Z ZopsC18 8 (Pmat Z ZopsC18 P)) (Pmat Z ZopsC18 P) = identity_matrix Z ZopsC18 8 /\
  H' <> H /\
  mget Z ZopsC18 H 6 3 = (-3)%Z /\ mget Z ZopsC18 H' (sp_fwd P 6) (sp_fwd P 3) = 3%Z.
Proof.
  cbn zeta. split; [vm_compute; reflexivity|]. split; [vm_compute; reflexivity|]. split; [vm_compute; reflexivity|].
  split; [vm_compute; discriminate|]. split; vm_compute; reflexivity.
Qed.

(** an exact (unnormalised, integer) eigen-system of H0 = 3 (c^+_0 c_2 + h.c.) - 2 n_1 and its image *)
Definition p0 : poly Z := [([cdag 0; cann 2], 3%Z); ([cdag 2; cann 0], 3%Z); ([cdag 1; cann 1], (-2)%Z)].
Definition U0 : EDSpec.mat Z :=
  [[1; 0; 0; 0; 0; 0; 0; 0]; [0; 1; 0; 0; 1; 0; 0; 0]; [0; 0; 1; 0; 0; 0; 0; 0]; [0; 0; 0; 1; 0; 0; 1; 0];
   [0; 1; 0; 0; -1; 0; 0; 0]; [0; 0; 0; 0; 0; 1; 0; 0]; [0; 0; 0; -1; 0; 0; 1; 0]; [0; 0; 0; 0; 0; 0; 0; 1]]%Z.
Definition E0 : EDSpec.vec Z := [0; 3; -2; 1; -3; 0; -5; -2]%Z.

Example U0_wfm : wfm Z 8 U0.
Proof. split; [reflexivity|]. repeat constructor. Qed.

Example eigen_system_pi3 :
  eigen_system Z ZopsC18 8 (poly_matrix Z ZopsC18 3 p0) U0 E0 /\
  residual_HU Z ZopsC18 8 (poly_matrix Z ZopsC18 3 p0) U0 E0 = 0%Z /\
  residual_HU Z ZopsC18 8 (poly_matrix Z ZopsC18 3 (poly_ren Z pi3 p0)) (prow Z ZopsC18 (fock_sperm 3 pi3) U0) E0 = 0%Z /\
  prow Z ZopsC18 (fock_sperm 3 pi3) U0 <> U0.
Proof.
  split; [|split; [vm_compute; reflexivity|split; [vm_compute; reflexivity|vm_compute; discriminate]]].
  assert (Hm : mmul Z ZopsC18 8 (poly_matrix Z ZopsC18 3 p0) U0 =
               map (fun i => map (fun j => Z.mul (mget Z ZopsC18 U0 i j) (nth j E0 0%Z)) (seq 0 8)) (seq 0 8))
    by (vm_compute; reflexivity).
  intros i j Hi Hj. rewrite Hm. unfold mget at 1.
  rewrite (nth_map_seq _ 8 i []) by exact Hi. rewrite (nth_map_seq _ 8 j 0%Z) by exact Hj. reflexivity.
Qed.

(** observables: any 8 x 8 matrix U (here a non-symmetric integer one) -- the rotated operators, G, <c^+ c>
    and chi computed with (P U, indices pi3(i)) and with (U, indices i), both sides evaluated *)
Definition U1 : EDSpec.mat Z :=
  map (fun r => map (fun c => (Z.of_nat ((r * r + 3 * c + r * c) mod 5) - 2)%Z) (seq 0 8)) (seq 0 8).
Definition E1 : EDSpec.vec Z := [0; 3; -2; 1; -3; 5; -5; 2]%Z.
Definition w1 : EDSpec.vec Z := [1; 2; 3; 4; 5; 6; 7; 8]%Z.

Example observables_pi3 :
  let P := fock_sperm 3 pi3 in
  let U' := prow Z ZopsC18 P U1 in
  let C u i := rotate Z ZopsC18 8 u (op_matrix Z ZopsC18 3 (cann i)) in
  let CX u i := rotate Z ZopsC18 8 u (op_matrix Z ZopsC18 3 (cdag i)) in
  wfm Z 8 U1 /\ U' <> U1 /\
  C U' (pi3 0) = C U1 0 /\ C U' (pi3 0) <> C U1 (pi3 0) /\
  gf Z ZopsC18 E1 w1 (C U' (pi3 0)) (CX U' (pi3 1)) 100%Z = gf Z ZopsC18 E1 w1 (C U1 0) (CX U1 1) 100%Z /\
  gf Z ZopsC18 E1 w1 (C U1 0) (CX U1 1) 100%Z <> 0%Z /\
  trace_rho Z ZopsC18 w1 (quad Z ZopsC18 3 U' (pi3 0) (pi3 1)) = trace_rho Z ZopsC18 w1 (quad Z ZopsC18 3 U1 0 1) /\
  trace_rho Z ZopsC18 w1 (quad Z ZopsC18 3 U1 0 1) <> 0%Z.
Proof.
  cbn zeta. split; [split; [reflexivity|vm_compute; repeat constructor]|].
  split; [vm_compute; discriminate|]. split; [vm_compute; reflexivity|]. split; [vm_compute; discriminate|].
  split; [vm_compute; reflexivity|]. split; [vm_compute; discriminate|]. split; [vm_compute; reflexivity|].
  vm_compute; discriminate.
Qed.

(** * The pi of the relabelling example of PV.IndexProofs (11 modes: relabelled, calls reversed, other mode) *)
Import IndexProofs.Examples.
Example relabel_perm_on :
  match prepare_lattice true false ex_calls, prepare_lattice true true ex_calls2 with
  | Done t1, Done t2 =>
    IndexSize t1 = 11 /\ perm_on (IndexSize t1) (index_perm t1 t2 ex_f) /\
    adj_decomp 11 (index_perm t1 t2 ex_f) =
      [1; 2; 3; 4; 5; 6; 7; 8; 9; 0; 1; 2; 3; 4; 5; 6; 7; 8; 6; 7; 2; 3; 4; 5; 6; 4; 5; 1; 2; 3; 4; 2; 3; 0; 1; 2] /\
    map (perm_of (adj_decomp 11 (index_perm t1 t2 ex_f))) (seq 0 11) = [5; 9; 10; 2; 6; 3; 7; 4; 8; 0; 1]
  | _, _ => False
  end.
Proof.
  destruct ex_rename_hyps as [H1 [H2 [H3 [H4 [H5 [[t1 E1'] [t2 E2']]]]]]].
  rewrite E1', E2'.
  split; [|split; [|split]].
  - vm_compute in E1'. injection E1' as <-. reflexivity.
  - exact (proj1 (index_perm_perm_on true false true true ex_calls ex_calls2 ex_f ex_g t1 t2 H1 H2 H3 H4 H5 E1' E2')).
  - vm_compute in E1', E2'. injection E1' as <-. injection E2' as <-. vm_compute. reflexivity.
  - vm_compute in E1', E2'. injection E1' as <-. injection E2' as <-. vm_compute. reflexivity.
Qed.
