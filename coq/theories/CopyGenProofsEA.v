(** CopyGenProofsEA.v -- the copy constructors of THIS tree (coq/gen/Gen_CopyGF.v, Gen_CopySusc.v, Gen_CopyEA.v, regenerated from
    src/pomerol/GreensFunction.cpp, Susceptibility.cpp, EnsembleAverage.cpp on every run) give the new object the state of the
    source: every field an evaluation reads -- beta, the Status (so that prepare() / compute() on the copy are the no-ops they are
    on the source), the references to the classification, Hamiltonian, operators and density matrix, the vanishing flag, the
    subtraction state of a Susceptibility, the result of an EnsembleAverage -- and a deep copy of the parts.

    They stop checking when an initialiser is dropped, default-constructs a base (ComputableObject(): the copy of a computed object
    would run prepare() again on top of the copied parts), or takes its value from another field.  No axioms. *)
Require Import List String Bool.
From PV Require Import CopyShapes.
From PVgen Require Import Gen_CopyEA.
Import ListNotations.
Local Open Scope string_scope.

Definition ea_fields : list string := ["beta"; "Status"; "S"; "H"; "A"; "DM"; "result"].

Lemma gen_copy_ea_preserves : forall (V : Type) (fresh : string -> V), preserves V fresh gen_copy_ea_inits ea_fields.
Proof. intros V fresh. preserves_by_cases. Qed.
(** an EnsembleAverage has no parts: the body is empty *)
Lemma gen_copy_ea_body_empty : gen_copy_ea_body = BodyEmpty.
Proof. reflexivity. Qed.
