(** Proofs about the container-history model (ContainerHistory.v), property C10:
    after any history that ends with computeAll, every operator that some prepareAll asked for is Computed, its creation part is
    the one-by-one creation operator and its annihilation part the adjoint of that. *)
From Coq Require Import List Arith Bool Lia.
Import ListNotations.
From PV Require Import ContainerHistory.

Section Proofs.
  Variable V : Type.
  Variable single_cx : nat -> V.
  Variable adjoint : V -> V.

  Notation entry := (entry V).
  Notation container := (container V).
  Notation fresh := (fresh V).
  Notation computed := (computed V single_cx adjoint).
  Notation compute_entry := (compute_entry V single_cx adjoint).
  Notation compute_all := (compute_all V single_cx adjoint).
  Notation prepare_all := (prepare_all V).
  Notation do_step := (do_step V single_cx adjoint).
  Notation run_from := (run_from V single_cx adjoint).
  Notation run := (run V single_cx adjoint).

  Lemma get_put_same : forall i (e : entry) (c : container), get V i (put V i e c) = Some e.
  Proof.
    intros i e c. induction c as [|[j f] r IH].
    - cbn [put get]. rewrite Nat.eqb_refl. reflexivity.
    - cbn [put]. destruct (i <? j) eqn:Hlt.
      + cbn [get]. rewrite Nat.eqb_refl. reflexivity.
      + destruct (i =? j) eqn:Heq.
        * cbn [get]. rewrite Nat.eqb_refl. reflexivity.
        * cbn [get]. rewrite Heq. exact IH.
  Qed.

  Lemma get_put_other : forall i j (e : entry) (c : container), i <> j -> get V i (put V j e c) = get V i c.
  Proof.
    intros i j e c Hij. induction c as [|[k f] r IH].
    - cbn [put get]. destruct (i =? j) eqn:Heq.
      + apply Nat.eqb_eq in Heq. contradiction.
      + reflexivity.
    - cbn [put]. destruct (j <? k) eqn:Hlt.
      + cbn [get]. destruct (i =? j) eqn:Heq.
        * apply Nat.eqb_eq in Heq. contradiction.
        * reflexivity.
      + destruct (j =? k) eqn:Hjk.
        * apply Nat.eqb_eq in Hjk. subst k. cbn [get]. destruct (i =? j) eqn:Heq.
          -- apply Nat.eqb_eq in Heq. contradiction.
          -- reflexivity.
        * cbn [get]. destruct (i =? k) eqn:Hik.
          -- reflexivity.
          -- exact IH.
  Qed.

  Lemma get_compute_all : forall i (c : container),
    get V i (compute_all c) = match get V i c with Some e => Some (compute_entry i e) | None => None end.
  Proof.
    intros i c. induction c as [|[j f] r IH].
    - reflexivity.
    - cbn [ContainerHistory.compute_all map get fst snd]. destruct (i =? j) eqn:Heq.
      + apply Nat.eqb_eq in Heq. subst j. reflexivity.
      + exact IH.
  Qed.

  Lemma compute_entry_fresh : forall i, compute_entry i fresh = computed i.
  Proof. reflexivity. Qed.

  Lemma compute_entry_computed : forall i, compute_entry i (computed i) = computed i.
  Proof. reflexivity. Qed.

  (** every entry is either just prepared or completely and correctly computed *)
  Definition good (c : container) : Prop := forall i e, get V i c = Some e -> e = fresh \/ e = computed i.
  Definition has (c : container) (i : nat) : Prop := get V i c <> None.

  Lemma good_nil : good [].
  Proof. intros i e H. discriminate H. Qed.

  Lemma good_put_fresh : forall j c, good c -> good (put V j fresh c).
  Proof.
    intros j c Hg i e Hget. destruct (Nat.eq_dec i j) as [Heq|Hne].
    - subst j. rewrite get_put_same in Hget. injection Hget as Hget. left. symmetry. exact Hget.
    - rewrite get_put_other in Hget by exact Hne. exact (Hg i e Hget).
  Qed.

  Lemma good_fold_put : forall l c, good c -> good (fold_left (fun c i => put V i fresh c) l c).
  Proof.
    induction l as [|j l IH]; intros c Hg.
    - exact Hg.
    - cbn [fold_left]. apply IH. apply good_put_fresh. exact Hg.
  Qed.

  Lemma good_compute_all : forall c, good c -> good (compute_all c).
  Proof.
    intros c Hg i e Hget. rewrite get_compute_all in Hget. destruct (get V i c) as [f|] eqn:Hf.
    - injection Hget as Hget. right. destruct (Hg i f Hf) as [H|H]; subst f; subst e; reflexivity.
    - discriminate Hget.
  Qed.

  Lemma good_step : forall n st c, good c -> good (do_step n st c).
  Proof.
    intros n [s|] c Hg.
    - apply good_fold_put. exact Hg.
    - apply good_compute_all. exact Hg.
  Qed.

  Lemma has_put : forall i j (e : entry) c, has c i -> has (put V j e c) i.
  Proof.
    intros i j e c Hh. unfold has in *. destruct (Nat.eq_dec i j) as [Heq|Hne].
    - subst j. rewrite get_put_same. discriminate.
    - rewrite get_put_other by exact Hne. exact Hh.
  Qed.

  Lemma has_fold_put : forall l i c, has c i -> has (fold_left (fun c i => put V i fresh c) l c) i.
  Proof.
    induction l as [|j l IH]; intros i c Hh.
    - exact Hh.
    - cbn [fold_left]. apply IH. apply has_put. exact Hh.
  Qed.

  Lemma has_fold_put_in : forall l i c, In i l -> has (fold_left (fun c i => put V i fresh c) l c) i.
  Proof.
    induction l as [|j l IH]; intros i c Hin.
    - destruct Hin.
    - cbn [fold_left]. destruct Hin as [Heq|Hin].
      + subst j. apply has_fold_put. unfold has. rewrite get_put_same. discriminate.
      + apply IH. exact Hin.
  Qed.

  Lemma has_compute_all : forall i c, has c i -> has (compute_all c) i.
  Proof.
    intros i c Hh. unfold has in *. rewrite get_compute_all. destruct (get V i c) as [f|].
    - discriminate.
    - exact Hh.
  Qed.

  Lemma has_step : forall n st i c, has c i -> has (do_step n st c) i.
  Proof.
    intros n [s|] i c Hh.
    - apply has_fold_put. exact Hh.
    - apply has_compute_all. exact Hh.
  Qed.

  Lemma good_run_from : forall n h c, good c -> good (run_from n h c).
  Proof.
    intros n h. induction h as [|st h IH]; intros c Hg.
    - exact Hg.
    - cbn [ContainerHistory.run_from fold_left]. apply IH. apply good_step. exact Hg.
  Qed.

  Lemma has_run_from : forall n h i c, has c i -> has (run_from n h c) i.
  Proof.
    intros n h. induction h as [|st h IH]; intros i c Hh.
    - exact Hh.
    - cbn [ContainerHistory.run_from fold_left]. apply IH. apply has_step. exact Hh.
  Qed.

  Lemma requested_has : forall n h i c, requested n h i -> has (run_from n h c) i.
  Proof.
    intros n h. induction h as [|st h IH]; intros i c [s [Hin Hi]].
    - destruct Hin.
    - cbn [ContainerHistory.run_from fold_left]. destruct Hin as [Heq|Hin].
      + subst st. apply has_run_from. cbn [ContainerHistory.do_step]. apply has_fold_put_in. exact Hi.
      + apply IH. exists s. split; assumption.
  Qed.

  Lemma run_app_compute : forall n h, run n (h ++ [ComputeAll]) = compute_all (run n h).
  Proof.
    intros n h. unfold ContainerHistory.run, ContainerHistory.run_from. rewrite fold_left_app. reflexivity.
  Qed.

  (** main statement *)
  Theorem history_complete : forall n h i,
    requested n h i -> get V i (run n (h ++ [ComputeAll])) = Some (computed i).
  Proof.
    intros n h i Hreq. rewrite run_app_compute. rewrite get_compute_all.
    pose proof (requested_has n h i [] Hreq) as Hh.
    pose proof (good_run_from n h [] good_nil) as Hg.
    unfold has in Hh. fold (run n h) in Hh, Hg.
    destruct (get V i (run n h)) as [e|] eqn:He.
    - destruct (Hg i e He) as [H|H]; subst e; reflexivity.
    - exfalso. apply Hh. reflexivity.
  Qed.

  (** nothing that was not asked for is in the container *)
  Lemma not_requested_absent_put : forall l i c, ~ In i l -> get V i (fold_left (fun c i => put V i fresh c) l c) = get V i c.
  Proof.
    induction l as [|j l IH]; intros i c Hni.
    - reflexivity.
    - cbn [fold_left]. rewrite IH.
      + apply get_put_other. intro Heq. apply Hni. left. symmetry. exact Heq.
      + intro Hin. apply Hni. right. exact Hin.
  Qed.

  Theorem history_nothing_else : forall n h i, ~ requested n h i -> get V i (run n h) = None.
  Proof.
    intros n h i. unfold ContainerHistory.run.
    assert (Hgen : forall c, get V i c = None -> ~ requested n h i -> get V i (run_from n h c) = None).
    { induction h as [|st h IH]; intros c Hc Hnr.
      - exact Hc.
      - cbn [ContainerHistory.run_from fold_left]. apply IH.
        + destruct st as [s|]; cbn [ContainerHistory.do_step].
          * unfold ContainerHistory.prepare_all. rewrite not_requested_absent_put.
            -- exact Hc.
            -- intro Hin. apply Hnr. exists s. split; [left; reflexivity | exact Hin].
          * rewrite get_compute_all. rewrite Hc. reflexivity.
        + intros [s [Hin Hi]]. apply Hnr. exists s. split; [right; exact Hin | exact Hi]. }
    intro Hnr. apply Hgen; [reflexivity | exact Hnr].
  Qed.
End Proofs.

(** the hypothesis of [history_complete] is satisfiable, and the model runs: the two-step history of the seeded change,
    operators represented by numbers (one-by-one c^+_i = 10 + i, adjoint v = 100 + v) *)
Example requested_example : requested 4 [PrepareAll [0; 1]; ComputeAll; PrepareAll [2; 3]] 2.
Proof. exists [2; 3]. split; [right; right; left; reflexivity | left; reflexivity]. Qed.

Example run_example :
  run nat (fun i => 10 + i) (fun v => 100 + v) 4 [PrepareAll [0; 1]; ComputeAll; PrepareAll [2; 3]; ComputeAll]
  = [(0, mkEntry (Some 10) (Some 110)); (1, mkEntry (Some 11) (Some 111)); (2, mkEntry (Some 12) (Some 112)); (3, mkEntry (Some 13) (Some 113))].
Proof. reflexivity. Qed.

(** prepareAll() with the default (empty) argument asks for every index; an operator prepared again is computed again *)
Example run_example_default :
  run nat (fun i => 10 + i) (fun v => 100 + v) 3 [PrepareAll []; ComputeAll; PrepareAll [1]; ComputeAll]
  = [(0, mkEntry (Some 10) (Some 110)); (1, mkEntry (Some 11) (Some 111)); (2, mkEntry (Some 12) (Some 112))].
Proof. reflexivity. Qed.

(** the statement is not vacuous: with the shortcut "first annihilation operator Computed => return" (not the code, see
    ContainerHistory.compute_all_early) the same history leaves the operators of the second step uncomputed *)
Example early_return_breaks :
  get nat 2 (run_early nat (fun i => 10 + i) (fun v => 100 + v) 4 [PrepareAll [0; 1]; ComputeAll; PrepareAll [2; 3]; ComputeAll])
  = Some (mkEntry None None).
Proof. reflexivity. Qed.

(** ... while the descending order goes unnoticed by that shortcut *)
Example early_return_descending_unnoticed :
  run_early nat (fun i => 10 + i) (fun v => 100 + v) 4 [PrepareAll [2; 3]; ComputeAll; PrepareAll [0; 1]; ComputeAll]
  = run nat (fun i => 10 + i) (fun v => 100 + v) 4 [PrepareAll [2; 3]; ComputeAll; PrepareAll [0; 1]; ComputeAll].
Proof. reflexivity. Qed.
