(** C13 -- non-vacuity of the exchange-symmetry theorems of ChiSymmetryProofs on exact numbers.

    Number type: canonical rationals Qc (a field with Leibniz equality; the order and |.| are the rational ones,
    conjugation is the identity, the exponential is not used by chi).  Eigen-data: the Hubbard atom
    (two modes: 0 = up, 1 = down; H = -mu (n_up + n_dn) + U n_up n_dn with mu = 1, U = 3 is diagonal in the
    Fock basis, so the eigenbasis is the Fock basis and c_i, c^+_i are the specification's Jordan-Wigner
    matrices EDSpec.op_matrix): E = (0, -1, -1, 1), weights (2, 4, 4, 1)/11 (equal on the degenerate pair),
    beta = 1, tol = 1/1000.  The rationals have no imaginary unit: the "Matsubara frequencies" are the
    stand-ins 7 (2m+1)/2 -- what the second symmetry needs of frequencies (ChiSymmetry.regular) is decided
    here by a checker ([regularb], proved sound) and evaluated; ChiSymmetryC.v shows the same predicate for
    genuine Matsubara frequencies over the complex numbers.  *)
Require Import Bool List Arith ZArith Lia QArith Qcanon Qcabs Field.
From PV Require Import Fock EDSpec Container4 Container4Spec ChiSymmetry ChiSymmetryProofs.
Import ListNotations.
Local Open Scope Qc_scope.

Definition qltb (a b : Qc) : bool := match (this a ?= this b)%Q with Lt => true | _ => false end.
Definition qeqb (a b : Qc) : bool := Qeq_bool (this a) (this b).

Definition QcNum : numops Qc := {|
  n0 := 0; n1 := 1; nadd := Qcplus; nsub := Qcminus; nmul := Qcmult; ndiv := Qcdiv;
  nopp := Qcopp; nconj := fun x => x; nexp := fun x => x;
  nre_ltb := qltb; nabs := Qcabs; nofZ := fun k => Q2Qc (inject_Z k); nI := 0 |}.

Lemma qltb_spec (a b : Qc) : qltb a b = true <-> a < b.
Proof.
  unfold qltb, Qclt. rewrite Qlt_alt. destruct (this a ?= this b)%Q; split; intros H; try reflexivity; discriminate.
Qed.
Lemma qeqb_spec (a b : Qc) : qeqb a b = true <-> a = b.
Proof.
  unfold qeqb. rewrite Qeq_bool_iff. split; intros H; [apply Qc_is_canon; exact H | rewrite H; reflexivity].
Qed.

Lemma QcNum_field :
  field_theory (n0 Qc QcNum) (n1 Qc QcNum) (nadd Qc QcNum) (nmul Qc QcNum) (nsub Qc QcNum) (nopp Qc QcNum)
               (ndiv Qc QcNum) Qcinv eq.
Proof. exact Qcft. Qed.
Lemma QcNum_ring :
  ring_theory (n0 Qc QcNum) (n1 Qc QcNum) (nadd Qc QcNum) (nmul Qc QcNum) (nsub Qc QcNum) (nopp Qc QcNum) eq.
Proof. exact Qcrt. Qed.
Lemma QcNum_abs_opp : forall x, nabs Qc QcNum (nopp Qc QcNum x) = nabs Qc QcNum x.
Proof. exact Qcabs_opp. Qed.
Lemma QcNum_nz_exact : forall x, nre_ltb Qc QcNum (n0 Qc QcNum) (nabs Qc QcNum x) = false -> x = n0 Qc QcNum.
Proof.
  intros x H. cbn [nre_ltb nabs n0 QcNum] in *. apply Qcabs_null. apply Qcle_antisym.
  - apply Qcnot_lt_le. intros L. apply qltb_spec in L. rewrite L in H. discriminate.
  - apply Qcabs_nonneg.
Qed.

(** * Checkers *)
Definition squareb (n : nat) (M : list (list Qc)) : bool :=
  Nat.eqb (length M) n && forallb (fun r => Nat.eqb (length r) n) M.

Lemma squareb_sound n M : squareb n M = true -> square Qc n M.
Proof.
  unfold squareb, square. rewrite andb_true_iff, forallb_forall. intros [H1 H2]. split.
  - apply Nat.eqb_eq. exact H1.
  - intros r Hr. apply Nat.eqb_eq. apply H2. exact Hr.
Qed.

Definition res_okb (tol x y Ea Eb wa wb : Qc) : bool :=
  if qltb (Qcabs (x + y)) tol && qltb (Qcabs (Ea - Eb)) tol
  then qeqb (x + y + Ea - Eb) 0 && qeqb wa wb
  else negb (qeqb (x + y + Ea - Eb) 0).

Definition regularb (n : nat) (tol : Qc) (E w fs : list Qc) : bool :=
  forallb (fun f => forallb (fun a => forallb (fun b => negb (qeqb (f + nth a E 0 - nth b E 0) 0)) (seq 0 n)) (seq 0 n)) fs &&
  forallb (fun x => forallb (fun y => forallb (fun a => forallb (fun b =>
     res_okb tol x y (nth a E 0) (nth b E 0) (nth a w 0) (nth b w 0)) (seq 0 n)) (seq 0 n)) fs) fs.

Lemma res_okb_sound tol x y Ea Eb wa wb : res_okb tol x y Ea Eb wa wb = true -> res_ok Qc QcNum tol x y Ea Eb wa wb.
Proof.
  unfold res_okb, res_ok. cbn [nre_ltb nabs nadd nsub n0 QcNum].
  destruct (qltb (Qcabs (x + y)) tol && qltb (Qcabs (Ea - Eb)) tol).
  - rewrite andb_true_iff, !qeqb_spec. tauto.
  - rewrite negb_true_iff. intros H1 H2. apply qeqb_spec in H2. rewrite H2 in H1. discriminate.
Qed.

Lemma regularb_sound n tol E w fs : regularb n tol E w fs = true -> regular Qc QcNum n tol E w fs.
Proof.
  unfold regularb, regular. rewrite andb_true_iff. intros [H1 H2]. split.
  - intros f a b Hf Ha Hb. rewrite forallb_forall in H1. specialize (H1 f Hf).
    rewrite forallb_forall in H1. specialize (H1 a ltac:(apply in_seq; lia)).
    rewrite forallb_forall in H1. specialize (H1 b ltac:(apply in_seq; lia)).
    rewrite negb_true_iff in H1. cbn [nadd nsub n0 QcNum]. intros H0. apply qeqb_spec in H0.
    rewrite H0 in H1. discriminate.
  - intros x y a b Hx Hy Ha Hb. rewrite forallb_forall in H2. specialize (H2 x Hx).
    rewrite forallb_forall in H2. specialize (H2 y Hy).
    rewrite forallb_forall in H2. specialize (H2 a ltac:(apply in_seq; lia)).
    rewrite forallb_forall in H2. specialize (H2 b ltac:(apply in_seq; lia)).
    apply res_okb_sound. exact H2.
Qed.

(** * The Hubbard atom *)
Definition qz (k : Z) : Qc := Q2Qc (inject_Z k).
Definition qq (a : Z) (b : positive) : Qc := Q2Qc (a # b).

Definition hub : edata Qc := {|
  ed_beta := 1; ed_tol := qq 1 1000;
  ed_E := [qz 0; qz (-1); qz (-1); qz 1];
  ed_w := [qq 2 11; qq 4 11; qq 4 11; qq 1 11];
  ed_C := fun i => op_matrix Qc QcNum 2 (cann i);
  ed_CX := fun i => op_matrix Qc QcNum 2 (cdag i);
  ed_freq := fun m => qq (7 * (2 * m + 1)) 2 |}.

Notation chiL := (chi_lehmann Qc QcNum hub).

Lemma hub_square_C i : square Qc 4 (ed_C Qc hub i).
Proof.
  destruct i as [|[|i]]; apply squareb_sound; vm_compute; reflexivity.
Qed.
Lemma hub_square_CX i : square Qc 4 (ed_CX Qc hub i).
Proof.
  destruct i as [|[|i]]; apply squareb_sound; vm_compute; reflexivity.
Qed.

(** ** First symmetry: applies to all data; here at a resonant triple (n1 + n2 = -1, n1 = n3), values non-zero *)
Example swap12_applies :
  chiL (1, 0, 1, 0)%nat (0, -1, 0)%Z = - chiL (0, 1, 1, 0)%nat (-1, 0, 0)%Z /\
  this (chiL (1, 0, 1, 0)%nat (0, -1, 0)%Z) = (57836 # 299475)%Q /\
  this (chiL (0, 1, 1, 0)%nat (-1, 0, 0)%Z) = (-57836 # 299475)%Q.
Proof.
  split; [|split; vm_compute; reflexivity].
  exact (chi_lehmann_swap12 Qc QcNum QcNum_ring hub 0%nat 1%nat 1%nat 0%nat 0%Z (-1)%Z 0%Z).
Qed.

(** ** Second symmetry *)
Ltac swap34_example :=
  match goal with
  | |- chi_lehmann _ _ _ (?i, ?j, ?l, ?k) (?m1, ?m2, ?m4) = _ (chi_lehmann _ _ _ _ (_, _, ?m3)) =>
    unfold chi_lehmann;
    let H := fresh "H" in
    pose proof (chi_spec_swap34 Qc QcNum Qcinv QcNum_field QcNum_abs_opp QcNum_nz_exact 4
                  (ed_beta Qc hub) (ed_tol Qc hub) (ed_E Qc hub) (ed_w Qc hub)
                  (ed_C Qc hub i) (ed_C Qc hub j) (ed_CX Qc hub k) (ed_CX Qc hub l)
                  (ed_freq Qc hub m1) (ed_freq Qc hub m2) (ed_freq Qc hub m3)
                  (hub_square_C i) (hub_square_C j) (hub_square_CX k) (hub_square_CX l)
                  ltac:(apply regularb_sound; vm_compute; reflexivity)) as H;
    cbn [nopp nadd nsub QcNum] in H; rewrite <- H;
    f_equal; apply Qc_is_canon; vm_compute; reflexivity
  end.

(** generic triple: no resonance *)
Example swap34_applies_generic :
  chiL (0, 1, 0, 1)%nat (1, 0, -1)%Z = - chiL (0, 1, 1, 0)%nat (1, 0, 2)%Z /\
  this (chiL (0, 1, 1, 0)%nat (1, 0, 2)%Z) = (6372064 # 3527271605)%Q /\
  this (chiL (0, 1, 0, 1)%nat (1, 0, -1)%Z) = (-6372064 # 3527271605)%Q.
Proof.
  split; [|split; vm_compute; reflexivity]. swap34_example.
Qed.

(** resonant triple: n1 + n2 = -1 and n1 = n3, so that z1 + z2 = 0, z1 - z3 = 0, z2 + z4 = 0: both resonant
    branches of phi occur (on the degenerate pair |up>, |dn> and on equal states) *)
Example swap34_applies_resonant :
  chiL (0, 1, 0, 1)%nat (0, -1, -1)%Z = - chiL (0, 1, 1, 0)%nat (0, -1, 0)%Z /\
  this (chiL (0, 1, 1, 0)%nat (0, -1, 0)%Z) = (-26816 # 299475)%Q /\
  this (chiL (0, 1, 0, 1)%nat (0, -1, -1)%Z) = (26816 # 299475)%Q.
Proof.
  split; [|split; vm_compute; reflexivity]. swap34_example.
Qed.

(** the regularity hypothesis is not vacuous on this data either way: it fails when a frequency meets a level
    difference (stand-in frequency 1 = E_3 - E_0) *)
Example regular_can_fail :
  regularb 4 (ed_tol Qc hub) (ed_E Qc hub) (ed_w Qc hub) (fset Qc QcNum (qz 1) (qz 3) (qz 5)) = false.
Proof. vm_compute. reflexivity. Qed.
