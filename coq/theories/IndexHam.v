(** IndexHam.v -- model of Pomerol::IndexHamiltonian::prepare (property C04).

    Source modelled: src/pomerol/IndexHamiltonian.cpp:16-34 (file:line comments refer to /repo at the time of
    writing), together with the pieces of include/pomerol/Operator.h it calls:

      for (unsigned int N = L->getTermStorage().getMaxTermOrder(); N; --N)                         // :19
        if (L->getTermStorage().getTerms(N).size())                                                 // :20
        for (current = getTerms(N).begin(); current != getTerms(N).end(); ++current) {              // :21
            Operator tmp;                                                                           // :22  EMPTY operator
            for (unsigned int i = 0; i < N; ++i) {                                                  // :23
                ParticleIndex i1 = IndexInfo.getIndex(SiteLabels[i], Orbitals[i], Spins[i]);        // :24
                Operator t1 = (OperatorSequence[i]==creation) ? c_dag(i1) : c(i1);                  // :25
                if (<first-factor test>) tmp = t1;                                                  // :26
                else tmp *= t1;                                                                     // :27
            }
            this->operator+=( current->Value * tmp );                                                     // :31
        }

    * The first-factor test has two variants, selected by [fixed]:
        [fixed = true ]  [i == 0]          -- the code since /repo commit 698bb7e;
        [fixed = false]  [tmp.isEmpty()]   -- the code before it.  [Operator::isEmpty()] (Operator.h:219) is
      [monomials.size()==0]: true before the first factor AND whenever the running product has vanished
      (c^+_0 c^+_0 normal-orders to nothing), in which case the next factor *replaces* the product instead of
      multiplying it (refuted: PresetsPrepare.prepare_sound_refuted).
      Which variant the tree at hand has is read from the source text on every run (translator/gen_c04.py ->
      PVgen.Gen_IndexHamiltonian.prepare_first_by_index; PresetsConfig.prepare_code) and confirmed by the
      correspondence check (checks/C04.py compares the model's polynomial with the library's), never assumed.
    * [Value * tmp] is boost::multipliable2's [operator*(MelemType, Operator)]: a copy of tmp followed by
      [operator*=(MelemType)] (Operator.h:160-170), which CLEARS the polynomial when |Value| < 100 eps and
      multiplies every coefficient from the right otherwise: [Poly.pscale].
    * [*this += ...] is [operator+=(Operator)] (Operator.h:173-185): [Poly.padd].
    * The loop starts at MaxTermOrder and stops before N = 0: terms of order 0 (constants) are never read.
    * The index map [getIndex : label -> orbital -> spin -> ParticleIndex] is a parameter (C18's
      [Index.getIndex] of a prepared table, or the INFO records of a dump in the correspondence check);
      an unknown (label, orbital, spin) yields IndexSize (IndexClassification.cpp:91-101), i.e. an index that
      is out of range for the Fock space -- the theorems assume indices below the number of modes.
    * Reading OperatorSequence / SiteLabels / Orbitals / Spins past their end is [OOB] (cannot happen for terms
      built by the Term constructors or the factories, whose four vectors all have length N).

    Definitions only; the proofs are in PresetsPrepare.v. *)
Require Import Bool List Arith.
From PV Require Import Outcome Fock Poly Lattice.
Import ListNotations.

Section IndexHam.
Variable L : Type.                     (* site labels *)
Variable K : Type.                     (* MelemType *)
Variables (k1 : K) (kadd kmul : K -> K -> K) (kopp : K -> K).
Variable kzero : K -> bool.            (* std::abs(c) < 100*eps *)
Variable getIndex : L -> nat -> nat -> nat.

Notation term := (Lattice.term L K).

(** :25  OperatorSequence[i]==Lattice::Term::creation ? c_dag(i1) : c(i1); [t_ops]: true = creation *)
Definition factor_op (creation : bool) (i1 : nat) : Fock.op := if creation then cdag i1 else cann i1.

(** :23-25 the operators t1 of the i-loop, i = 0..n-1, in loop order; a vector shorter than n is read past its end *)
Fixpoint factors (n : nat) (ops : list bool) (ls : list L) (os ss : list nat) : outcome (list Fock.op) :=
  match n with
  | O => Done []
  | S n' =>
    match ops, ls, os, ss with
    | o :: ops', l :: ls', a :: os', s :: ss' =>
      bind (factors n' ops' ls' os' ss') (fun r => Done (factor_op o (getIndex l a s) :: r))
    | _, _, _, _ => OOB
    end
  end.

Definition term_factors (n : nat) (t : term) : outcome (list Fock.op) :=
  factors n (t_ops t) (t_labels t) (t_orbs t) (t_spins t).

(** OperatorPresets::c / c_dag (Operator.h:336-356): the one-monomial polynomial 1.0 * [o] *)
Definition p_factor (o : Fock.op) : poly K := [([o], k1)].

Definition is_empty (p : poly K) : bool := match p with [] => true | _ => false end.   (* Operator.h:219 *)

(** :23-28 the running product. [first] = "no factor has been processed yet" (i == 0); the variant [fixed = false]
    does not use this information and tests [tmp.isEmpty()] instead. *)
Fixpoint product_loop (fixed : bool) (fs : list Fock.op) (tmp : poly K) (first : bool) : outcome (poly K) :=
  match fs with
  | [] => Done tmp
  | f :: fs' =>
    let t1 := p_factor f in
    if (if fixed then first else is_empty tmp)                              (* :26 *)
    then product_loop fixed fs' t1 false                                    (* tmp = t1 *)
    else bind (pmul K kadd kmul kopp kzero tmp t1)                          (* :27 tmp *= t1 *)
              (fun tmp' => product_loop fixed fs' tmp' false)
  end.

(** :22-31 one term of order n added to the Hamiltonian [h] *)
Definition add_term (fixed : bool) (n : nat) (t : term) (h : poly K) : outcome (poly K) :=
  bind (term_factors n t) (fun fs =>
  bind (product_loop fixed fs [] true) (fun tmp =>                          (* :22 Operator tmp; *)
  Done (padd K kadd kzero h (pscale K kmul kzero (t_val t) tmp)))).         (* :31 *)

(** :21 the terms of one order, in insertion order *)
Definition add_terms (fixed : bool) (n : nat) (ts : list term) (h : outcome (poly K)) : outcome (poly K) :=
  fold_left (fun acc t => bind acc (add_term fixed n t)) ts h.

(** :19 N = MaxTermOrder, MaxTermOrder-1, ..., 1 *)
Fixpoint orders_down (n : nat) : list nat :=
  match n with
  | O => []
  | S n' => S n' :: orders_down n'
  end.

(** IndexHamiltonian::prepare on a freshly constructed object (the Operator base starts empty) *)
Definition prepare (fixed : bool) (st : Lattice.state L K) : outcome (poly K) :=
  fold_left (fun acc n => add_terms fixed n (getTerms L K st n) acc) (orders_down (maxorder st)) (Done []).

(** the terms in the order in which prepare reads them, each with the order under which it is stored *)
Definition terms_read (st : Lattice.state L K) : list (nat * term) :=
  flat_map (fun n => map (fun t => (n, t)) (getTerms L K st n)) (orders_down (maxorder st)).

End IndexHam.

(** * Execution instance (exact rationals, as PolyQ; labels are numbers) used by the correspondence check. *)
Require Import QArith.
From PV Require Import PolyQ.

Definition q_prepare (fixed : bool) (getIndex : nat -> nat -> nat -> nat) (st : Lattice.qstate) : outcome qpoly :=
  prepare nat Q 1%Q qadd qmul qopp qzero getIndex fixed st.

(** the lattice obtained from a history of calls (Lattice.v's state machine) *)
Definition q_lattice (cfg : config) (h : list qop) : Lattice.qstate :=
  Lattice.run nat Nat.eqb Q q_ops cfg h (Lattice.init nat Q).
