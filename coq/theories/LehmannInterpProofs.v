(** LehmannInterpProofs.v -- the interpreters of PV.LehmannInterp, run on the descriptions the hand-written models were written
    after, ARE the model functions (PV.Sparse.walk / part_walk, the match bodies of PV.GFPart / PV.SuscPart).  Nothing here
    mentions a generated Gen_Leh*.v file: these lemmas are proved once; PV.LehmannGenProofs* prove, per C++ function, that the
    description generated from the tree under test is the model description (closed computations), and conclude. *)
Require Import Bool List Arith ZArith Lia.
From PV Require Import Sparse LehmannShapes LehmannInterp.
Import ListNotations.

(** * The merge loop of GreensFunctionPart::compute / SusceptibilityPart::compute as PV.Sparse.walk has it.
    [guarded] = the chase loops test the iterator before reading index() (PV.Sparse's switch [fixed]). *)
Definition chase_cond (guarded : bool) (i : itr) (target : ival) : icond :=
  if guarded then IcAnd (IcValid i) (IcCmp CmpLt (IvRead i) target) else IcCmp CmpLt (IvRead i) target.
Definition model_merge_body (guarded : bool) : list wstmt :=
  [WsReadIndex ItA; WsReadIndex ItB;
   WsIf (IcCmp CmpEq (IvLocal ItA) (IvLocal ItB))
     [WsBody 0; WsAdvance ItA; WsAdvance ItB]
     [WsIf (IcCmp CmpLt (IvLocal ItB) (IvLocal ItA))
        [WsFor (chase_cond guarded ItB (IvLocal ItA)) ItB]
        [WsFor (chase_cond guarded ItA (IvLocal ItB)) ItA]]].
Definition model_merge_nest (guarded : bool) : merge_nest :=
  mk_merge_nest 0 CmpLt ItA (IcAnd (IcValid ItA) (IcValid ItB)) (model_merge_body guarded).

Definition tag0 (l : list (nat * nat)) : list (nat * (nat * nat)) := map (fun pq => (0, pq)) l.

Section Walk.
Context {VA VB : Type}.
Variables (g lenient : bool) (a : cs VA) (b : cs VB) (pe qe o : nat).

Lemma for_src_is_chase_B : forall fuel p q la lb,
  for_src lenient a b pe qe o (chase_cond g ItB (IvLocal ItA)) ItB fuel (mk_wst p q la lb) =
  wmap (fun q' => mk_wst p q' la lb) (chase g lenient SideB b qe la fuel q).
Proof.
  induction fuel as [|f IH]; intros p q la lb; [reflexivity|].
  cbn [for_src chase]. destruct g; cbn [chase_cond icond_eval ival_eval it_valid it_read w_p w_q w_la w_lb wbind andb].
  - destruct (q <? qe) eqn:Eq; cbn [negb wbind wmap]; [|reflexivity].
    unfold read_at. destruct (rd b qe q) as [j|j|]; cbn [wbind wmap cmp_eval].
    + destruct (j <? la); [apply IH|reflexivity].
    + destruct lenient; cbn [wbind wmap cmp_eval]; [|reflexivity]. destruct (j <? la); [apply IH|reflexivity].
    + reflexivity.
  - unfold read_at. destruct (rd b qe q) as [j|j|]; cbn [wbind wmap cmp_eval].
    + destruct (j <? la); [apply IH|reflexivity].
    + destruct lenient; cbn [wbind wmap cmp_eval]; [|reflexivity]. destruct (j <? la); [apply IH|reflexivity].
    + reflexivity.
Qed.

Lemma for_src_is_chase_A : forall fuel p q la lb,
  for_src lenient a b pe qe o (chase_cond g ItA (IvLocal ItB)) ItA fuel (mk_wst p q la lb) =
  wmap (fun p' => mk_wst p' q la lb) (chase g lenient SideA a pe lb fuel p).
Proof.
  induction fuel as [|f IH]; intros p q la lb; [reflexivity|].
  cbn [for_src chase]. destruct g; cbn [chase_cond icond_eval ival_eval it_valid it_read w_p w_q w_la w_lb wbind andb].
  - destruct (p <? pe) eqn:Ep; cbn [negb wbind wmap]; [|reflexivity].
    unfold read_at. destruct (rd a pe p) as [j|j|]; cbn [wbind wmap cmp_eval].
    + destruct (j <? lb); [apply IH|reflexivity].
    + destruct lenient; cbn [wbind wmap cmp_eval]; [|reflexivity]. destruct (j <? lb); [apply IH|reflexivity].
    + reflexivity.
  - unfold read_at. destruct (rd a pe p) as [j|j|]; cbn [wbind wmap cmp_eval].
    + destruct (j <? lb); [apply IH|reflexivity].
    + destruct lenient; cbn [wbind wmap cmp_eval]; [|reflexivity]. destruct (j <? lb); [apply IH|reflexivity].
    + reflexivity.
Qed.

(** a read below the end of the inner vector is never a PastEnd read *)
Lemma rd_below {V} (m : cs V) e id : id <? e = true -> (exists j, rd m e id = Val j) \/ rd m e id = ROOB.
Proof.
  intros H. unfold rd. destruct (nth_error (cs_idx m) id) as [v|]; [|right; reflexivity].
  rewrite H. left. exists v. reflexivity.
Qed.

Lemma wmap_wmap {A B C} (f : A -> B) (h : B -> C) (r : wres A) : wmap h (wmap f r) = wmap (fun x => h (f x)) r.
Proof. destruct r; reflexivity. Qed.
Lemma wbind_wmap {A B C} (f : A -> B) (h : B -> wres C) (r : wres A) : wbind (wmap f r) h = wbind r (fun x => h (f x)).
Proof. destruct r; reflexivity. Qed.
Lemma wmap_wbind {A B C} (h : A -> wres B) (f : B -> C) (r : wres A) : wmap f (wbind r h) = wbind r (fun x => wmap f (h x)).
Proof. destruct r; reflexivity. Qed.
Lemma wbind_ret {A} (r : wres A) : wbind r (fun x => WDone x) = r.
Proof. destruct r; reflexivity. Qed.
Lemma wbind_ext {A B} (f h : A -> wres B) (r : wres A) : (forall x, f x = h x) -> wbind r f = wbind r h.
Proof. intros E. destruct r; cbn; [apply E|reflexivity|reflexivity|reflexivity]. Qed.

Lemma while_src_is_walk : forall fuel p q la lb,
  while_src lenient a b pe qe o (IcAnd (IcValid ItA) (IcValid ItB)) (model_merge_body g) fuel (mk_wst p q la lb) =
  wmap tag0 (walk g lenient a b pe qe fuel p q).
Proof.
  induction fuel as [|f IH]; intros p q la lb; [reflexivity|].
  cbn [while_src walk icond_eval it_valid w_p w_q wbind].
  destruct (p <? pe) eqn:Ep; cbn [wbind andb]; [|reflexivity].
  destruct (q <? qe) eqn:Eq; cbn [wbind]; [|reflexivity].
  cbn [model_merge_body exec_list exec x_ret x_w it_read w_p w_q wbind].
  unfold read_at at 1.
  destruct (rd_below a pe p Ep) as [[i Ei]|Ei]; rewrite Ei; cbn [wmap wbind]; [|reflexivity].
  cbn [exec x_ret x_w upd_w set_local it_read w_p w_q w_la w_lb x_out].
  unfold read_at at 1.
  destruct (rd_below b qe q Eq) as [[j Ej]|Ej]; rewrite Ej; cbn [wmap wbind]; [|reflexivity].
  cbn [exec x_ret x_w upd_w set_local icond_eval ival_eval w_p w_q w_la w_lb x_out wbind cmp_eval].
  destruct (i =? j) eqn:Eij.
  - cbn [exec x_ret x_w x_out upd_w it_advance wbind w_p w_q w_la w_lb app].
    rewrite IH. unfold wcons. rewrite wmap_wmap. rewrite wmap_wmap. reflexivity.
  - cbn [exec x_ret x_w x_out upd_w icond_eval ival_eval w_p w_q w_la w_lb wbind cmp_eval].
    destruct (j <? i) eqn:Eji.
    + cbn [exec x_ret x_w x_out upd_w wbind it_fuel].
      rewrite for_src_is_chase_B. rewrite !wbind_ret. rewrite wmap_wmap, wbind_wmap, wmap_wbind.
      apply wbind_ext. intros q'. cbn [x_ret x_out x_w upd_w wbind app]. rewrite IH. destruct (walk g lenient a b pe qe f p q'); reflexivity.
    + cbn [exec x_ret x_w x_out upd_w wbind it_fuel].
      rewrite for_src_is_chase_A. rewrite !wbind_ret. rewrite wmap_wmap, wbind_wmap, wmap_wbind.
      apply wbind_ext. intros p'. cbn [x_ret x_out x_w upd_w wbind app]. rewrite IH. destruct (walk g lenient a b pe qe f p' q); reflexivity.
Qed.
End Walk.

Lemma walk_outer_src_is_model {VA VB} (g lenient : bool) (a : cs VA) (b : cs VB) (o : nat) :
  walk_outer_src lenient (model_merge_nest g) a b o = wmap tag0 (walk_outer g lenient a b o).
Proof.
  unfold walk_outer_src, walk_outer. destruct (iter_begin a o) as [[p pe]|]; [|reflexivity].
  destruct (iter_begin b o) as [[q qe]|]; [|reflexivity].
  cbn [model_merge_nest mn_while mn_body]. apply while_src_is_walk.
Qed.

Definition tag0o (l : list (nat * (nat * nat))) : list (nat * (nat * (nat * nat))) := map (fun v => (0, v)) l.

Lemma part_walk_list_is_model {VA VB} (g lenient : bool) (a : cs VA) (b : cs VB) : forall n o,
  part_walk_list lenient (model_merge_nest g) a b (seq o n) = wmap tag0o (part_walk_from g lenient a b n o).
Proof.
  induction n as [|n IH]; intros o; [reflexivity|].
  cbn [seq part_walk_list part_walk_from]. rewrite walk_outer_src_is_model.
  destruct (walk_outer g lenient a b o) as [l| | |]; cbn [wmap wbind]; try reflexivity.
  rewrite IH. destruct (part_walk_from g lenient a b n (S o)) as [r| | |]; cbn [wmap]; try reflexivity.
  f_equal. unfold tag0o, tag0. rewrite map_app, !map_map. reflexivity.
Qed.

Theorem part_walk_src_is_model {VA VB} (g lenient : bool) (a : cs VA) (b : cs VB) :
  part_walk_src lenient (model_merge_nest g) a b = wmap tag0o (part_walk g lenient a b).
Proof.
  unfold part_walk_src, part_walk. cbn [model_merge_nest mn_first mn_cmp mn_bound outer_range].
  rewrite Nat.sub_0_r. apply part_walk_list_is_model.
Qed.

(** * What the models do at a matched position, in the vocabulary of PV.LehmannShapes; the leaf expressions are parameters
    (PV.GFPart / PV.SuscPart take them from PVgen.Gen_C01) *)
Section Bodies.
Variable K : Type.
Variable k0 : K.
Variables (residue : K -> K -> (nat -> K) -> (nat -> K) -> nat -> nat -> K)
          (pole : (nat -> K) -> (nat -> K) -> nat -> nat -> K)
          (relevant : K -> K -> bool).
Definition e_residue (e : menv K) : K := residue (me_va e) (me_vb e) (me_wO e) (me_wI e) (me_index1 e) (me_idxA e).
Definition e_pole (e : menv K) : K := pole (me_eO e) (me_eI e) (me_index1 e) (me_idxA e).

(** GreensFunctionPart::compute:  Residue = ...; if(relevant) { Pole = ...; Terms.add_term(Term(Residue, Pole)); } *)
Definition model_gf_body : list (mstmt K) :=
  [MsLet (fun e loc => residue (me_va e) (me_vb e) (me_wO e) (me_wI e) (me_index1 e) (me_idxA e));
   MsIf (fun e loc => relevant (me_tol_me e) (loc 0))
     [MsLet (fun e loc => pole (me_eO e) (me_eI e) (me_index1 e) (me_idxA e)); MsAddTerm (fun e loc => loc 0) (fun e loc => loc 1)] []].
Lemma model_gf_body_events (e : menv K) :
  block_events K k0 [model_gf_body] 0 e =
  if relevant (me_tol_me e) (e_residue e) then [MeAdd (e_residue e) (e_pole e)] else [].
Proof.
  unfold block_events, e_residue, e_pole. cbn [nth model_gf_body mexec_list mexec fst snd app locf nth].
  destruct (relevant _ _); reflexivity.
Qed.

(** SusceptibilityPart::compute:  Pole = ...; if(zero pole) ZeroPoleWeight += ...; else { Residue = ...; if(relevant) add_term } *)
Variables (is_zero_pole : K -> K -> bool)
          (zero_weight : K -> K -> (nat -> K) -> (nat -> K) -> nat -> nat -> K).
Definition e_zero_weight (e : menv K) : K := zero_weight (me_va e) (me_vb e) (me_wO e) (me_wI e) (me_index1 e) (me_idxA e).
Definition model_susc_body : list (mstmt K) :=
  [MsLet (fun e loc => pole (me_eO e) (me_eI e) (me_index1 e) (me_idxA e));
   MsIf (fun e loc => is_zero_pole (me_tol_rr e) (loc 0))
     [MsZeroAdd (fun e loc => zero_weight (me_va e) (me_vb e) (me_wO e) (me_wI e) (me_index1 e) (me_idxA e))]
     [MsLet (fun e loc => residue (me_va e) (me_vb e) (me_wO e) (me_wI e) (me_index1 e) (me_idxA e));
      MsIf (fun e loc => relevant (me_tol_me e) (loc 1)) [MsAddTerm (fun e loc => loc 1) (fun e loc => loc 0)] []]].
Lemma model_susc_body_events (e : menv K) :
  block_events K k0 [model_susc_body] 0 e =
  if is_zero_pole (me_tol_rr e) (e_pole e) then [MeZero (e_zero_weight e)]
  else if relevant (me_tol_me e) (e_residue e) then [MeAdd (e_residue e) (e_pole e)] else [].
Proof.
  unfold block_events, e_residue, e_pole, e_zero_weight. cbn [nth model_susc_body mexec_list mexec fst snd app locf nth].
  destruct (is_zero_pole _ _); [reflexivity|]. cbn [nth mexec_list mexec fst snd app locf].
  destruct (relevant _ _); reflexivity.
Qed.
End Bodies.

(** * TermList::add_term as it is since the repair of the refused re-insertion (commit b3c7635): insert; while an equivalent
    stored term blocks the insertion, reduce with it, erase it, drop the sum if negligible, retry *)
Definition model_add_term : list at_stmt :=
  [AtSumInit;
   AtLoop [AtInsert; AtIf AcInserted [AtReturn] []; AtReducedInit; AtReducedAddSum; AtErase;
           AtIf (AcNegligible 1) [AtReturn] []; AtSumAssign]].

Section AddTermRef.
Variable T : Type.
Variable comp : T -> T -> bool.
Variable plus : T -> T -> T.
Variable negl : T -> nat -> bool.
(** the loop written directly (the shape of Chi.add_term_loop) *)
Fixpoint add_term_ref (fuel : nat) (sum : T) (l : list T) : bool * list T :=
  let r := insert_src T comp sum l in
  if fst (fst (fst r)) then (true, snd r)
  else
    let reduced := plus (snd (fst (fst r))) sum in
    let rest := snd (fst r) in
    if negl reduced (length rest + 1) then (true, rest)
    else match fuel with
         | O => (false, rest)
         | S f => add_term_ref f reduced rest
         end.

Definition model_loop_tail : list at_stmt :=
  [AtIf AcInserted [AtReturn] []; AtReducedInit; AtReducedAddSum; AtErase; AtIf (AcNegligible 1) [AtReturn] []; AtSumAssign].

(** the statements after `res = data.insert(sum)`, on a state whose fields are explicit *)
Lemma tail_exec (term sum red : T) (l' : list T) (ins : bool) (e : T) (rest : list T) :
  at_exec_list T comp plus negl term model_loop_tail (mk_ast T l' sum red (ins, e, rest) false false) =
  if ins then mk_ast T l' sum red (ins, e, rest) true false
  else if negl (plus e sum) (length rest + 1) then mk_ast T rest sum (plus e sum) (ins, e, rest) true false
       else mk_ast T rest (plus e sum) (plus e sum) (ins, e, rest) false false.
Proof.
  destruct ins.
  - reflexivity.
  - unfold model_loop_tail.
    change (at_exec_list T comp plus negl term
              [AtIf (AcNegligible 1) [AtReturn] []; AtSumAssign]
              (mk_ast T rest sum (plus e sum) (false, e, rest) false false) =
            if negl (plus e sum) (length rest + 1) then mk_ast T rest sum (plus e sum) (false, e, rest) true false
            else mk_ast T rest (plus e sum) (plus e sum) (false, e, rest) false false).
    cbn [at_exec_list at_exec a_done at_cond_eval a_reduced a_data].
    destruct (negl (plus e sum) (length rest + 1)); reflexivity.
Qed.

Lemma body_exec (term sum red : T) (res : bool * T * list T) (l : list T) :
  at_exec_list T comp plus negl term (AtInsert :: model_loop_tail) (mk_ast T l sum red res false false) =
  at_exec_list T comp plus negl term model_loop_tail
    (mk_ast T (snd (insert_src T comp sum l)) sum red (fst (insert_src T comp sum l)) false false).
Proof. reflexivity. Qed.

Lemma at_loop_is_ref (term : T) : forall fuel sum red res l,
  let s := at_loop T (at_exec_list T comp plus negl term (AtInsert :: model_loop_tail)) fuel (mk_ast T l sum red res false false) in
  (negb (a_fail T s), a_data T s) = add_term_ref fuel sum l.
Proof.
  induction fuel as [|f IH]; intros sum red res l; cbv zeta.
  - cbn [at_loop add_term_ref]. rewrite body_exec.
    destruct (insert_src T comp sum l) as [[[ins e] rest] l']. cbn [fst snd]. rewrite tail_exec.
    destruct ins; [reflexivity|]. destruct (negl (plus e sum) (length rest + 1)); reflexivity.
  - cbn [at_loop add_term_ref]. rewrite body_exec.
    destruct (insert_src T comp sum l) as [[[ins e] rest] l']. cbn [fst snd]. rewrite tail_exec.
    destruct ins; [reflexivity|]. destruct (negl (plus e sum) (length rest + 1)); [reflexivity|].
    cbn [a_done]. apply IH.
Qed.

Theorem add_term_by_model (term : T) (l : list T) :
  add_term_by T comp plus negl model_add_term term l = add_term_ref (length l) term l.
Proof.
  unfold add_term_by.
  change (at_exec_list T comp plus negl term model_add_term (mk_ast T l term term (false, term, l) false false))
    with (at_loop T (at_exec_list T comp plus negl term (AtInsert :: model_loop_tail)) (length l)
                  (mk_ast T l term term (false, term, l) false false)).
  apply at_loop_is_ref.
Qed.
End AddTermRef.
