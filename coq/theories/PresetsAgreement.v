(** PresetsAgreement.v -- C04: the source text and the documentation of THIS tree agree with the variants of the
    model for which the theorems of PresetsPrepare / PresetsProofs / PresetsSU2 are proved.

    The three constants are translator output (translator/gen_c04.py, regenerated from /repo on every run):
      prepare_first_by_index   ([if (i==0) tmp=t1; else tmp*=t1;] in IndexHamiltonian::prepare  => true)
      code_magnetization_half  (LatticePresets::addMagnetization passes Magnetization/2. to Level => true)
      doc_magnetization_half   (the doxygen formula of addMagnetization carries \frac{1}{2}      => true)
    Both lemmas are closed computations.  They fail -- and with them every theorem of props/Properties_C04.v
    that is stated about [PresetsConfig.prepare_code], [PresetsConfig.addMagnetization_code] or
    [PresetsSpec.spec_magnetization] -- as soon as
      * IndexHamiltonian::prepare goes back to deciding "first factor" by an empty running product
        (refuted: PresetsPrepare.prepare_sound_refuted), or
      * code and documentation of addMagnetization are of different variants
        (refuted: PresetsProofs.addMagnetization_denotes_mixed_refuted). *)
Require Import Bool.
From PV Require Import PresetsConfig.
From PVgen Require Import Gen_LatticeDocs Gen_MagnetizationCode Gen_IndexHamiltonian.

Lemma prepare_decides_first_factor_by_loop_index : prepare_first_by_index = true.
Proof. reflexivity. Qed.

Lemma magnetization_code_agrees_with_documentation : code_magnetization_half = doc_magnetization_half.
Proof. reflexivity. Qed.

Lemma cfg_summary : cfg_fixed = true /\ cfg_mag_half = cfg_doc_half.
Proof.
  split; [exact prepare_decides_first_factor_by_loop_index|exact magnetization_code_agrees_with_documentation].
Qed.
