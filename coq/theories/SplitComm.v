(** SplitComm.v -- executable model of what pomerol's MPI-parallel entry points do *collectively*:
    which collective operations every rank issues, on which communicator, in which order, and where the
    data ends up.  Property C06.

    Sources modelled (line numbers of the tree this was written against, /repo at 8654395):
      include/mpi_dispatcher/mpi_skel.hpp:45-109           mpi_skel<WrapType>::run
      src/pomerol/TwoParticleGF.cpp:124-151                ComputeAndClearWrap::run
      src/pomerol/TwoParticleGF.cpp:153-189                TwoParticleGF::compute
      src/pomerol/TwoParticleGFContainer.cpp:57-66         TwoParticleGFContainer::computeAll_nosplit
      src/pomerol/TwoParticleGFContainer.cpp:68-132        TwoParticleGFContainer::computeAll_split
      src/pomerol/Hamiltonian.cpp:18-51, 54-93             Hamiltonian::prepare / compute
      include/pomerol/TwoParticleGF.h:148-160,
      src/pomerol/TwoParticleGFPart.cpp:232-245, 257-262   what evaluation of a component requires

    Nothing else in the library communicates: the MPI block of FieldOperator::compute is commented out
    (FieldOperator.cpp:65-95; every rank computes all parts itself), GreensFunction, DensityMatrix, Susceptibility
    and the containers of single-particle objects take no communicator.

    Besides the traces the file defines a blocking execution semantics for them ([coll_step], [coll_run]: a
    collective completes when all members of its communicator have reached it with the same kind and root), used
    for the termination theorems, and the OpenMP loop of ComputeAndClearWrap::run ([iter], [run_schedule], and the
    read/write-grain [par_run]).

    The point-to-point traffic of the dispatch loop (mpi_skel.hpp:68-79) is the subject of Dispatch.v (C16) and is
    not repeated here: that loop issues no collective, every rank leaves it (C16 no_deadlock / progress_measure),
    every job is executed exactly once and the job map names the executing rank, a member of the communicator
    (C16 final_state).  Here the outcome of a dispatch round is therefore a PARAMETER: an arbitrary function
    [jm : part -> rank of the communicator] ("any timing of the workers").

    Three defects of the original code are selectable through [fixes] so that both the refutations for the old
    behaviour and the theorems for the repaired behaviour are statements about this one model:
      fix_barrier  mpi_skel.hpp:82   false: MPI_Barrier(MPI_COMM_WORLD)        true: comm.barrier()
      fix_root     Container.cpp:83  false: color_roots[color]=p (last wins)   true: guarded by !count (first wins)
      fix_status   Container.cpp:125 false: nothing                            true: parts marked Computed on receivers
    [code_fixes] is the variant the translator reads off the current source text.

    Colours.  The colour of a rank is computed in C++ with doubles; the translator emits that expression over
    primitive floats and over exact rationals (PVgen.Gen_SplitColors).  The two DIFFER from P = 18 on (SplitCommProofs:
    float_color_neq_exact_18), so the model is generic in a [colouring] and both instances are provided.

    Communicators.  [World] is the communicator passed in (`comm`); [Colour c] is the result of
    comm.split(c) (Container.cpp:98): its members are the world ranks of colour c, ordered by world rank
    (boost::mpi::communicator::split(color) uses key = rank()), so the local rank of world rank r is the number of
    smaller world ranks of the same colour.  Roots of broadcasts / reductions are LOCAL ranks of the communicator
    the operation is issued on, as in MPI. *)
Require Import List Arith Bool PeanoNat ZArith.
From PVgen Require Import Gen_SplitColors.
Import ListNotations.

(* ------------------------------------------------------------------------------------------------------- *)
(** * Code variants *)

Record fixes := mkfixes { fix_barrier : bool; fix_root : bool; fix_status : bool }.
Definition all_fixed : fixes := mkfixes true true true.
Definition none_fixed : fixes := mkfixes false false false.
(** the variant the source text in /repo currently is, as far as the translator can see it *)
Definition code_fixes : fixes := mkfixes gen_skel_barrier_on_comm gen_root_is_first gen_parts_marked_computed.

(* ------------------------------------------------------------------------------------------------------- *)
(** * Inputs *)

(** One element of NonTrivialElements (split) / ElementsMap (unsplit): TwoParticleGF::Vanishing and parts.size().
    TwoParticleGF::prepare (TwoParticleGF.cpp:108-110) establishes [vanishing = (nparts = 0)]; the model does not
    assume it.  (An element whose Status is already Computed -- e.g. the second visit of an aliased element by
    computeAll_nosplit -- returns at TwoParticleGF.cpp:157 exactly like a vanishing one: no collective, empty table.) *)
Record component := mkcomp { vanishing : bool; nparts : nat }.

Definition indexed {A} (l : list A) : list (nat * A) := combine (seq 0 (length l)) l.

(* ------------------------------------------------------------------------------------------------------- *)
(** * Colours (Container.cpp:73-88) *)

Record colouring := mkcol { pcol : nat -> nat;      (* proc_colors[p]  :81-82 *)
                            ecol : nat -> nat }.    (* elem_colors[i]  :86-87 *)

Definition ncolors (P ncomp : nat) : nat := Z.to_nat (gen_ncolors (Z.of_nat P) (Z.of_nat ncomp)).       (* :74 *)

Definition elem_colour (P ncomp i : nat) : nat :=                                                         (* :86 *)
  Z.to_nat (gen_elem_color (Z.of_nat (ncolors P ncomp)) (Z.of_nat ncomp) (Z.of_nat i)).

(** what the C++ computes: doubles, operations in source order, truncation *)
Definition float_colouring (P ncomp : nat) : colouring :=
  mkcol (fun p => Z.to_nat (gen_proc_color_f (Z.of_nat P) (Z.of_nat (ncolors P ncomp)) (Z.of_nat p)))
        (elem_colour P ncomp).

(** the same expressions in exact arithmetic *)
Definition exact_colouring (P ncomp : nat) : colouring :=
  mkcol (fun p => Z.to_nat (gen_proc_color_exact (Z.of_nat P) (Z.of_nat (ncolors P ncomp)) (Z.of_nat p)))
        (elem_colour P ncomp).

(** every element's colour has at least one rank (executable; the driver prints it for the P it is given) *)
Definition colours_ok_b (col : colouring) (P ncomp : nat) : bool :=
  forallb (fun k => existsb (fun r => pcol col r =? ecol col k) (seq 0 P)) (seq 0 ncomp).

(* ------------------------------------------------------------------------------------------------------- *)
(** * Communicators and collective events *)

Inductive commid := World | Colour (c : nat).
Inductive ckind := Barrier | Bcast (root : nat) | Reduce (root : nat) | Split.
Definition event := (commid * ckind)%type.

Definition commid_eqb (a b : commid) : bool :=
  match a, b with World, World => true | Colour x, Colour y => x =? y | _, _ => false end.

Definition ckind_eqb (a b : ckind) : bool :=
  match a, b with
  | Barrier, Barrier => true | Split, Split => true
  | Bcast x, Bcast y => x =? y | Reduce x, Reduce y => x =? y
  | _, _ => false
  end.

Definition members (col : colouring) (P : nat) (cm : commid) : list nat :=
  match cm with
  | World => seq 0 P
  | Colour c => filter (fun r => pcol col r =? c) (seq 0 P)
  end.

Definition local_rank (col : colouring) (cm : commid) (r : nat) : nat :=
  match cm with
  | World => r
  | Colour c => length (filter (fun q => pcol col q =? c) (seq 0 r))
  end.

(** the operations a rank issues on communicator [cm], in order *)
Definition proj (cm : commid) (t : list event) : list ckind :=
  map snd (filter (fun e => commid_eqb (fst e) cm) t).

Section Model.
Variable fx : fixes.

(* ------------------------------------------------------------------------------------------------------- *)
(** * Collective traces *)

(** mpi_skel<WrapType>::run(comm) -- identical on root and non-root as far as collectives go
    (the two branches :87-100 / :101-107 both issue two broadcasts from ROOT = 0). *)
Definition skel_run (cm : commid) : list event :=
  [ (cm, Barrier)                                          (* mpi_skel.hpp:49  comm.barrier() *)
  ; (cm, Barrier)                                          (* :65              comm.barrier() *)
    (* :68-79 dispatch loop: point-to-point only, see Dispatch.v *)
  ; ((if fix_barrier fx then cm else World), Barrier)      (* :82  MPI_Barrier(MPI_COMM_WORLD)  |  comm.barrier() *)
  ; (cm, Barrier)                                          (* :85              comm.barrier() *)
  ; (cm, Bcast 0)                                          (* :98 / :103       broadcast(comm, jobs, ROOT) *)
  ; (cm, Bcast 0) ].                                       (* :99 / :105       broadcast(comm, workers, ROOT) *)

(** TwoParticleGF::compute(clear, freqs, comm); [jmk p] = job_map[p], the local rank that ran part p.
    Status < Prepared throws before any collective (:156) and is not modelled. *)
Definition gf2_compute (cm : commid) (clear : bool) (c : component) (jmk : nat -> nat) : list event :=
  if vanishing c then []                                                        (* TwoParticleGF.cpp:158 *)
  else skel_run cm                                                              (* :167 *)
       ++ [ (cm, Barrier)                                                       (* :173 *)
          ; (cm, Reduce 0) ]                                                    (* :176 *)
       ++ (if clear then []                                                     (* :178 *)
           else flat_map (fun p => [ (cm, Bcast (jmk p))                        (* :180 NonResonantTerms *)
                                   ; (cm, Bcast (jmk p)) ])                     (* :181 ResonantTerms *)
                         (seq 0 (nparts c))
                ++ [ (cm, Barrier) ]).                                          (* :184 *)

(** the loop Container.cpp:80-84 over p = 0 .. comm.size()-1 with std::map<int,int> color_roots as a partial function *)
Definition upd (m : nat -> option nat) (c v : nat) : nat -> option nat :=
  fun x => if x =? c then Some v else m x.

Definition roots_step (col : colouring) (m : nat -> option nat) (p : nat) : nat -> option nat :=
  let c := pcol col p in
  if fix_root fx
  then match m c with Some _ => m | None => upd m c p end     (* :83 repaired: if (!color_roots.count(color)) color_roots[color]=p; *)
  else upd m c p.                                             (* :83 original: color_roots[color]=p; *)

Definition color_roots (col : colouring) (P : nat) : nat -> option nat :=
  fold_left (roots_step col) (seq 0 P) (fun _ => None).

(** :112 int sender = color_roots[elem_colors[comp]] -- std::map::operator[] yields 0 for a missing key *)
Definition sender (col : colouring) (P k : nat) : nat :=
  match color_roots col P (ecol col k) with Some r => r | None => 0 end.

(** TwoParticleGFContainer::computeAll_split(clear, freqs, comm) on world rank r;
    [jm k] is the job map of component k's dispatch round (local ranks of its colour's communicator). *)
Definition split_trace (col : colouring) (P : nat) (comps : list component) (clear : bool)
                       (jm : nat -> nat -> nat) (r : nat) : list event :=
  let mycol := pcol col r in
  [ (World, Barrier)                                                            (* Container.cpp:95 *)
  ; (World, Split) ]                                                            (* :98 comm.split(proc_colors[rank]) *)
  ++ flat_map (fun kc => if ecol col (fst kc) =? mycol                          (* :101 calc *)
                         then gf2_compute (Colour mycol) clear (snd kc) (jm (fst kc))   (* :104 on comm_split *)
                         else []) (indexed comps)
  ++ [ (World, Barrier) ]                                                       (* :107 *)
  ++ flat_map (fun kc => flat_map (fun _ => [ (World, Bcast (sender col P (fst kc)))       (* :116 *)
                                            ; (World, Bcast (sender col P (fst kc)))       (* :117 *)
                                            ; (World, Bcast (sender col P (fst kc))) ])    (* :120 *)
                                  (seq 0 (nparts (snd kc)))) (indexed comps)    (* :111, :114 *)
  ++ [ (World, Barrier) ].                                                      (* :129 *)

(** TwoParticleGFContainer::computeAll_nosplit: every element's compute on the communicator passed in (:60-64) *)
Definition nosplit_trace (comps : list component) (clear : bool) (jm : nat -> nat -> nat) (r : nat) : list event :=
  flat_map (fun kc => gf2_compute World clear (snd kc) (jm (fst kc))) (indexed comps).

(** a single TwoParticleGF::compute on the communicator passed in *)
Definition single_trace (c : component) (clear : bool) (jmk : nat -> nat) (r : nat) : list event :=
  gf2_compute World clear c jmk.

(** Hamiltonian::prepare(comm): Hamiltonian.cpp:34 skel.run, :35 barrier, :36-49 one broadcast per block from job_map[p]
    (:42 on the owner, :46 elsewhere).  Hamiltonian::compute(comm): :62, :67, :68-83 two broadcasts per block
    (:74-75 on the owner, :79-80 elsewhere). *)
Definition ham_prepare_trace (cm : commid) (nblocks : nat) (jmk : nat -> nat) (r : nat) : list event :=
  skel_run cm ++ [ (cm, Barrier) ] ++ map (fun p => (cm, Bcast (jmk p))) (seq 0 nblocks).
Definition ham_compute_trace (cm : commid) (nblocks : nat) (jmk : nat -> nat) (r : nat) : list event :=
  skel_run cm ++ [ (cm, Barrier) ] ++ flat_map (fun p => [ (cm, Bcast (jmk p)); (cm, Bcast (jmk p)) ]) (seq 0 nblocks).

(* ------------------------------------------------------------------------------------------------------- *)
(** * Where the data is afterwards *)

(** A frequency table (std::vector<ComplexType>).
      TAbsent    the returned map has no entry for the component
      TEmpty     a vector of length 0
      TData l    a vector of length freqs.size() > 0 whose cell w holds  sum_{p in l} part_p(freqs[w]);
                 TData [] is all zeros, TData l with l a permutation of 0..nparts-1 is the full sum over the
                 parts, which is what a single-rank run returns (there one rank runs every part). *)
Inductive table := TAbsent | TEmpty | TData (contrib : list nat).

(** TwoParticleGFPart::Status takes two values only: Constructed (initially, and after clear(), Part.cpp:261)
    and Computed (Part.cpp:172, TwoParticleGF.cpp:182, Container.cpp:125). *)
Inductive pstatus := PConstructed | PComputed.
(** [terms]: the two term lists hold the part's terms (false: they are empty). *)
Record partst := mkpart { terms : bool; pstat : pstatus }.
Inductive gstatus := GPrepared | GComputed.
Record compst := mkcst { tab : table; parts : list partst; gstat : gstatus }.

(** after prepareAll *)
Definition init_state (c : component) : compst :=
  mkcst TEmpty (repeat (mkpart false PConstructed) (nparts c)) GPrepared.

(** ComputeAndClearWrap::run on the rank the dispatcher gave the job to (TwoParticleGF.cpp:127 compute,
    :140 clear); on every other rank the part is untouched. *)
Definition run_part (clear : bool) (lr runner : nat) : partst :=
  if lr =? runner then (if clear then mkpart false PConstructed else mkpart true PComputed)
  else mkpart false PConstructed.

(** m_data on local rank lr after skel.run: the parts this rank ran have been added cell by cell (:133-135) *)
Definition partial_sum (np : nat) (jmk : nat -> nat) (lr : nat) : list nat :=
  filter (fun p => jmk p =? lr) (seq 0 np).

(** :176 boost::mpi::reduce(comm, m_data, ..., m_data2, std::plus, 0): rank 0 receives the sum over all n ranks;
    on the other ranks m_data2 keeps its zero initialisation (:175); :177 swaps it into m_data. *)
Definition reduce_all (np : nat) (jmk : nat -> nat) (n : nat) : list nat :=
  flat_map (partial_sum np jmk) (seq 0 n).

(** state of a component on the member with local rank lr of a communicator of size n after TwoParticleGF::compute;
    [tab] is the returned vector. *)
Definition gf2_state (clear fne : bool) (c : component) (jmk : nat -> nat) (n lr : nat) : compst :=
  if vanishing c
  then mkcst TEmpty (repeat (mkpart false PConstructed) (nparts c)) GComputed         (* :155, :158, :187 *)
  else
    let part p :=
      if clear then run_part clear lr (jmk p)                                          (* :178 no exchange *)
      else mkpart (if jmk p <? n then terms (run_part clear (jmk p) (jmk p)) else false)   (* :180-181 everybody ends with the root's lists *)
                  PComputed in                                                         (* :182 *)
    mkcst (if fne then TData (if lr =? 0 then reduce_all (nparts c) jmk n else []) else TEmpty)   (* :163, :175-177 *)
          (map part (seq 0 (nparts c))) GComputed.                                     (* :187 *)

(** the distribution loop Container.cpp:111-127 for one component on one rank *)
Definition distribute_comp (clear : bool) (c : component) (at_sender at_me : compst) (is_sender : bool) : compst :=
  mkcst (if nparts c =? 0 then TAbsent else tab at_sender)           (* :118-121 executed once per part; storage[...] read on the sender only *)
        (map (fun sm => mkpart (terms (fst sm))                      (* :116-117 *)
                               (if is_sender then pstat (snd sm)
                                else if fix_status fx && negb clear then PComputed     (* :125 (repaired code only) *)
                                else pstat (snd sm)))
             (combine (parts at_sender) (parts at_me)))
        (if is_sender || (nparts c =? 0) then gstat at_me else GComputed).             (* :124 *)

(** state of all components on world rank r after computeAll_split; [tab] is the entry of the returned map *)
Definition split_state (col : colouring) (P : nat) (comps : list component) (clear fne : bool)
                       (jm : nat -> nat -> nat) (r : nat) : list compst :=
  map (fun kc =>
         let k := fst kc in let c := snd kc in
         let ck := ecol col k in
         let n := length (members col P (Colour ck)) in
         let st1 q := if pcol col q =? ck                                               (* :101 *)
                      then gf2_state clear fne c (jm k) n (local_rank col (Colour ck) q)    (* :104; storage[key] = result *)
                      else init_state c in                                              (* storage[key] default-constructed if read *)
         let s := sender col P k in
         distribute_comp clear c (st1 s) (st1 r) (r =? s)) (indexed comps).

(** state after computeAll_nosplit on a communicator of size P (local rank = r); also a single compute *)
Definition nosplit_state (P : nat) (comps : list component) (clear fne : bool)
                         (jm : nat -> nat -> nat) (r : nat) : list compst :=
  map (fun kc => gf2_state clear fne (snd kc) (jm (fst kc)) P r) (indexed comps).

(** eigen-data of block p on rank r after Hamiltonian::compute on a communicator of size P: the rank whose
    diagonalisation it is (own result on the owner, received by broadcast elsewhere; None: broadcast root invalid) *)
Definition ham_block_source (P : nat) (jmk : nat -> nat) (r p : nat) : option nat :=
  if r =? jmk p then Some r                                       (* Hamiltonian.cpp:69-75 *)
  else if jmk p <? P then Some (jmk p) else None.                 (* :77-81 *)

End Model.

(** TwoParticleGF::operator() (TwoParticleGF.h:148-160): 0 if Vanishing, else the sum over the parts of
    TwoParticleGFPart::operator(), which throws unless Status == Computed (Part.cpp:240). *)
Definition evaluable (c : component) (s : compst) : bool :=
  vanishing c || forallb (fun p => match pstat p with PComputed => true | PConstructed => false end) (parts s).

(** ... and evaluates to the value of a single-rank run: every part's term lists are filled *)
Definition has_all_terms (c : component) (s : compst) : bool :=
  vanishing c || forallb terms (parts s).

(** classification of a table for printing and for the theorems *)
Definition is_full_sum_b (np : nat) (t : table) : bool :=
  match t with
  | TData l => (length l =? np) && forallb (fun p => count_occ Nat.eq_dec l p =? 1) (seq 0 np)
  | _ => false
  end.
Definition is_zeros_b (t : table) : bool := match t with TData [] => true | _ => false end.

(* ------------------------------------------------------------------------------------------------------- *)
(** * Matching of collectives *)

Definition list_eqb {A} (eqb : A -> A -> bool) := fix go (a b : list A) : bool :=
  match a, b with [] , [] => true | x :: a', y :: b' => eqb x y && go a' b' | _, _ => false end.

(** executable check used by the driver and the refutations: on every communicator all members issue the same
    sequence of (kind, root) *)
Definition comms_of (col : colouring) (P : nat) : list commid :=
  World :: map Colour (nodup Nat.eq_dec (map (pcol col) (seq 0 P))).

Definition collectives_match_b (col : colouring) (P : nat) (trace : nat -> list event) : bool :=
  forallb (fun cm => match members col P cm with
                     | [] => true
                     | r0 :: rs => forallb (fun r => list_eqb ckind_eqb (proj cm (trace r0)) (proj cm (trace r))) rs
                     end) (comms_of col P).

(* ------------------------------------------------------------------------------------------------------- *)
(** * Blocking semantics of collectives (for the termination argument)

    A global state gives every rank the list of collectives it still has to issue.  A step on communicator cm is
    possible when EVERY member of cm is at a collective on cm and all of them agree on (kind, root); all members
    then complete it together.  This is the most demanding reading of MPI (every collective synchronises all
    members); a run that completes under it completes under every weaker one. *)
Definition heads_agree (ms : list nat) (cm : commid) (st : nat -> list event) : option ckind :=
  match ms with
  | [] => None
  | r0 :: _ =>
      match st r0 with
      | (cm0, k) :: _ =>
          if commid_eqb cm0 cm &&
             forallb (fun r => match st r with (cm', k') :: _ => commid_eqb cm' cm && ckind_eqb k' k | [] => false end) ms
          then Some k else None
      | [] => None
      end
  end.

Definition coll_step (col : colouring) (P : nat) (cm : commid) (st : nat -> list event) : option (nat -> list event) :=
  match heads_agree (members col P cm) cm st with
  | Some _ => Some (fun r => if existsb (Nat.eqb r) (members col P cm) then tl (st r) else st r)
  | None => None
  end.

Fixpoint coll_run (col : colouring) (P : nat) (sched : list commid) (st : nat -> list event) : option (nat -> list event) :=
  match sched with
  | [] => Some st
  | cm :: rest => match coll_step col P cm st with Some st' => coll_run col P rest st' | None => None end
  end.

Definition all_done (P : nat) (st : nat -> list event) : bool :=
  forallb (fun r => match st r with [] => true | _ => false end) (seq 0 P).

(** no communicator can proceed *)
Definition no_step_b (col : colouring) (P : nat) (st : nat -> list event) : bool :=
  forallb (fun cm => match coll_step col P cm st with Some _ => false | None => true end) (comms_of col P).

(** greedy scheduler with fuel, for the driver and the refutations: repeatedly fire the first enabled communicator;
    returns (true, schedule, _) if every rank finished, (false, schedule, stuck state) if ranks are left but no
    communicator is enabled (deadlock) or the fuel ran out (fuel = total number of events suffices) *)
Fixpoint coll_exec (col : colouring) (P : nat) (fuel : nat) (st : nat -> list event)
  : bool * list commid * (nat -> list event) :=
  match fuel with
  | 0 => (all_done P st, [], st)
  | S f =>
      if all_done P st then (true, [], st)
      else match find (fun cm => match coll_step col P cm st with Some _ => true | None => false end) (comms_of col P) with
           | Some cm => match coll_step col P cm st with
                        | Some st' => let '(ok, sched, fin) := coll_exec col P f st' in (ok, cm :: sched, fin)
                        | None => (false, [], st)
                        end
           | None => (false, [], st)
           end
  end.

(* ------------------------------------------------------------------------------------------------------- *)
(** * OpenMP loop of ComputeAndClearWrap::run (TwoParticleGF.cpp:131-135)

      #pragma omp parallel for
      for (int w = 0; w < wsize; ++w) data[w] += part(freqs[w]);

    Iteration w reads and writes cell w of the table and nothing else that is written (part(...) is const and only
    reads the term lists).  [iter] is one iteration; a schedule is the order in which the iterations take effect. *)
Section OMP.
Variable V : Type.
Variable add : V -> V -> V.
Variable val : nat -> V.           (* part(freqs[w]) *)

Fixpoint set_nth (d : list V) (w : nat) (v : V) : list V :=
  match d, w with
  | [], _ => []
  | _ :: t, 0 => v :: t
  | x :: t, S w' => x :: set_nth t w' v
  end.

Definition iter (d : list V) (w : nat) : list V :=
  match nth_error d w with Some x => set_nth d w (add x (val w)) | None => d end.

Definition run_schedule (sched : list nat) (d : list V) : list V := fold_left iter sched d.

(** Finer grain: every iteration is two shared-memory actions of its thread, a read of cell w into a private
    temporary and a write of cell w.  [thread] programs are lists of iterations; a scheduler picks which thread
    performs its next action.  State: table, per thread (remaining iterations, pending temporary). *)
Definition tstate := (list nat * option V)%type.

Definition micro_step (d : list V) (ts : tstate) : option (list V * tstate) :=
  match ts with
  | (w :: rest, None) => match nth_error d w with
                         | Some x => Some (d, (w :: rest, Some x))            (* read  data[w] *)
                         | None => Some (d, (rest, None))                      (* w out of range: not executed by the loop *)
                         end
  | (w :: rest, Some x) => Some (set_nth d w (add x (val w)), (rest, None))    (* write data[w] *)
  | ([], _) => None
  end.

Fixpoint set_thread (ths : list tstate) (t : nat) (ts : tstate) : list tstate :=
  match ths, t with
  | [], _ => []
  | _ :: r, 0 => ts :: r
  | x :: r, S t' => x :: set_thread r t' ts
  end.

(** one scheduler decision: thread t performs its next action (a finished or non-existent thread: no-op) *)
Definition par_step (st : list V * list tstate) (t : nat) : list V * list tstate :=
  match nth_error (snd st) t with
  | Some ts => match micro_step (fst st) ts with
               | Some (d', ts') => (d', set_thread (snd st) t ts')
               | None => st
               end
  | None => st
  end.

Definition par_run (choices : list nat) (d : list V) (chunks : list (list nat)) : list V * list tstate :=
  fold_left par_step choices (d, map (fun c => (c, None)) chunks).

Definition threads_done (ths : list tstate) : bool :=
  forallb (fun ts => match fst ts with [] => true | _ => false end) ths.
End OMP.

(* ------------------------------------------------------------------------------------------------------- *)
(** * Specification predicates (used by SplitCommProofs.v and props/Properties_C06.v) *)
Require Import Permutation.

(** On every communicator all members issue the same sequence of (kind, root); and no rank issues a collective on
    a communicator it does not belong to. *)
Definition collectives_match (col : colouring) (P : nat) (trace : nat -> list event) : Prop :=
  (forall cm r1 r2, In r1 (members col P cm) -> In r2 (members col P cm) -> proj cm (trace r1) = proj cm (trace r2)) /\
  (forall r e, r < P -> In e (trace r) -> In r (members col P (fst e))).

(** every colour 0..ncolors-1 has a rank and an element; all colours are in range *)
Definition colours_well_formed (col : colouring) (P ncomp : nat) : Prop :=
  let nc := ncolors P ncomp in
  (forall c, c < nc -> exists r, r < P /\ pcol col r = c) /\
  (forall r, r < P -> pcol col r < Nat.max 1 nc) /\
  (forall k, k < ncomp -> ecol col k < nc) /\
  (forall c, c < nc -> exists k, k < ncomp /\ ecol col k = c).

(** what the data theorems need of a colouring: the colour of every element has a rank *)
Definition colours_inhabited (col : colouring) (P ncomp : nat) : Prop :=
  forall k, k < ncomp -> exists r, r < P /\ pcol col r = ecol col k.

(** the table is the sum over all parts, each exactly once: the value a single-rank run returns *)
Definition is_full_sum (np : nat) (t : table) : Prop :=
  exists l, t = TData l /\ Permutation l (seq 0 np).

(** the job map of component k names ranks of the communicator the component is computed on (size n) --
    C16 final_state: dmap s j = Some w with w in the pool *)
Definition jm_in_range (jmk : nat -> nat) (np n : nat) : Prop := forall p, p < np -> jmk p < n.
