(** Representation glue 2: entries of the list-of-rows matrix products of PV.EDSpec as finite sums (PV.BigSum),
    offsets into concatenated block vectors, sums over all Fock labels regrouped into sums over the blocks of a partition.
    Commutative ring given by [ring_theory]; no axioms. *)
Require Import Bool List Arith Lia Ring Ring_theory.
From PV Require Import Outcome EDSpec HPart HPartProofs BigSum.
Import ListNotations.

(** * Offsets into a concatenation *)
Section Offsets.
Variable A : Type.

Fixpoint goff (ls : list (list A)) (o : nat) : nat :=
  match o, ls with
  | S o', l :: t => length l + goff t o'
  | _, _ => 0
  end.

Lemma goff_S : forall ls o, o < length ls -> goff ls (S o) = goff ls o + length (nth o ls []).
Proof.
  induction ls as [|r t IH]; intros o Ho; cbn [length] in Ho; [lia|].
  destruct o as [|o].
  - cbn [goff nth]. destruct t; cbn [goff]; lia.
  - change (goff (r :: t) (S (S o))) with (length r + goff t (S o)). rewrite IH by lia. cbn [goff nth]. lia.
Qed.

Lemma goff_all : forall ls, goff ls (length ls) = length (concat ls).
Proof. induction ls as [|r t IH]; [reflexivity|]. cbn [length goff concat]. rewrite app_length, IH. reflexivity. Qed.

Lemma nth_concat_goff (d : A) : forall ls o k, o < length ls -> k < length (nth o ls []) ->
  nth (goff ls o + k) (concat ls) d = nth k (nth o ls []) d.
Proof.
  induction ls as [|r t IH]; intros o k Ho Hk; cbn [length] in Ho; [lia|].
  destruct o as [|o]; cbn [goff nth concat] in *.
  - rewrite app_nth1 by exact Hk. reflexivity.
  - rewrite app_nth2 by lia. replace (length r + goff t o + k - length r) with (goff t o + k) by lia. apply IH; [lia|exact Hk].
Qed.

(** GFFullProofs.off (defined from a size function) agrees *)
Lemma off_goff (off : nat -> nat) (dim : nat -> nat) (ls : list (list A)) :
  off 0 = 0 -> (forall b, off (S b) = off b + dim b) -> (forall b, b < length ls -> dim b = length (nth b ls [])) ->
  forall b, b <= length ls -> off b = goff ls b.
Proof.
  intros H0 HS Hd. induction b as [|b IH]; intros Hb.
  - rewrite H0. destruct ls; reflexivity.
  - rewrite HS, IH, goff_S, Hd by lia. reflexivity.
Qed.

End Offsets.

Section LinAlg.
Variable K : Type.
Variable NO : numops K.
Notation k0 := (n0 K NO).
Notation k1 := (n1 K NO).
Notation kadd := (nadd K NO).
Notation ksub := (nsub K NO).
Notation kmul := (nmul K NO).
Notation kopp := (nopp K NO).
Notation conj := (nconj K NO).
Hypothesis Kr : ring_theory k0 k1 kadd kmul ksub kopp (@eq K).
Add Ring KringSLA : Kr.
Notation bsum := (bigsum K k0 kadd).

Let BS_fold := @fold_left_bigsum K k0 k1 kadd kmul ksub kopp Kr.
Let BS_ext := @bigsum_ext K k0 kadd.
Let BS_zero := @bigsum_zero K k0 k1 kadd kmul ksub kopp Kr.
Let BS_scale_l := @bigsum_scale_l K k0 k1 kadd kmul ksub kopp Kr.
Let BS_delta := @bigsum_delta_seq K k0 k1 kadd kmul ksub kopp Kr.
Let BS_plus := @bigsum_plus K k0 k1 kadd kmul ksub kopp Kr.

Lemma bsum_shift' (s n : nat) (f : nat -> K) : bsum (seq s n) f = bsum (seq 0 n) (fun k => f (s + k)).
Proof.
  revert s f. induction n as [|n IH]; intros s f; [reflexivity|]. cbn [seq bigsum].
  rewrite (IH (S s) f), (IH 1 (fun k => f (s + k))). rewrite Nat.add_0_r. f_equal. apply BS_ext. intros k _. f_equal. lia.
Qed.

Lemma bsum_combine_mul : forall (u v : list K), length u = length v ->
  bsum (combine u v) (fun ab => kmul (fst ab) (snd ab)) = bsum (seq 0 (length u)) (fun k => kmul (nth k u k0) (nth k v k0)).
Proof.
  induction u as [|x u IH]; intros v Hl; destruct v as [|y v]; cbn [length] in Hl; try lia; [reflexivity|].
  cbn [combine bigsum length seq fst snd nth]. f_equal. rewrite IH by lia. rewrite (bsum_shift' 1). reflexivity.
Qed.

Lemma dot_seq (u v : list K) n : length u = n -> length v = n ->
  dot K NO u v = bsum (seq 0 n) (fun k => kmul (nth k u k0) (nth k v k0)).
Proof.
  intros Hu Hv. unfold dot. rewrite BS_fold. rewrite bsum_combine_mul by lia. rewrite Hu. ring.
Qed.

Lemma mmul_length ncb (a b : mat K) : length (mmul K NO ncb a b) = length a.
Proof. unfold mmul. apply map_length. Qed.
Lemma mmul_row_length ncb (a b : mat K) i : i < length a -> length (nth i (mmul K NO ncb a b) []) = ncb.
Proof.
  intros Hi. unfold mmul. cbv zeta.
  rewrite (nth_indep _ [] (map (fun c => dot K NO [] c) (transpose K NO ncb b))) by (rewrite map_length; exact Hi).
  rewrite (map_nth (fun r => map (fun c => dot K NO r c) (transpose K NO ncb b)) a [] i).
  rewrite map_length. unfold transpose. apply transpose_aux_length.
Qed.

(** (a b)_ij = sum_k a_ik b_kj *)
Lemma mmul_entry_sum ncb (a b : mat K) i j n : i < length a -> j < ncb -> length (nth i a []) = n -> length b = n ->
  mget K NO (mmul K NO ncb a b) i j = bsum (seq 0 n) (fun k => kmul (mget K NO a i k) (mget K NO b k j)).
Proof.
  intros Hi Hj Hr Hb. rewrite mmul_entry by assumption.
  rewrite (dot_seq _ _ n) by (rewrite ?map_length; assumption).
  apply BS_ext. intros k Hk. apply in_seq in Hk. unfold mget. f_equal.
  rewrite (nth_indep _ k0 (nth j [] k0)) by (rewrite map_length; lia).
  rewrite (map_nth (fun r => nth j r k0) b [] k). reflexivity.
Qed.

Lemma adjoint_length nc (m : mat K) : length (adjoint K NO nc m) = nc.
Proof. unfold adjoint. rewrite map_length. unfold transpose. apply transpose_aux_length. Qed.
Lemma adjoint_row nc (m : mat K) n : n < nc -> nth n (adjoint K NO nc m) [] = map (fun r => conj (nth n r k0)) m.
Proof.
  intros Hn. unfold adjoint.
  change (@nil K) with (map conj []). rewrite map_nth. rewrite (transpose_nth K NO nc m n Hn). rewrite map_map. reflexivity.
Qed.
Lemma adjoint_entry nc (m : mat K) n s : n < nc -> s < length m -> mget K NO (adjoint K NO nc m) n s = conj (mget K NO m s n).
Proof.
  intros Hn Hs. unfold mget. rewrite adjoint_row by exact Hn.
  rewrite (nth_indep _ k0 (conj (nth n [] k0))) by (rewrite map_length; exact Hs).
  rewrite (map_nth (fun r => conj (nth n r k0)) m [] s). reflexivity.
Qed.

(** (U^+ O U)_{g g'} = sum_s sum_t conj(U_sg) O_st U_tg' *)
Theorem rotate_entry dim (U Om : mat K) g g' : square K dim U -> square K dim Om -> g < dim -> g' < dim ->
  mget K NO (rotate K NO dim U Om) g g' =
  bsum (seq 0 dim) (fun s => bsum (seq 0 dim) (fun t => kmul (conj (mget K NO U s g)) (kmul (mget K NO Om s t) (mget K NO U t g')))).
Proof.
  intros [HU HUr] [HO HOr] Hg Hg'. unfold rotate.
  rewrite (mmul_entry_sum dim _ _ g g' dim).
  - apply BS_ext. intros s Hs. apply in_seq in Hs.
    rewrite adjoint_entry by lia.
    rewrite (mmul_entry_sum dim Om U s g' dim) by (try apply HOr; lia).
    rewrite BS_scale_l. reflexivity.
  - rewrite adjoint_length. exact Hg.
  - exact Hg'.
  - rewrite adjoint_row by exact Hg. rewrite map_length. exact HU.
  - rewrite mmul_length. exact HO.
Qed.

Lemma rotate_length dim (U Om : mat K) : length (rotate K NO dim U Om) = dim.
Proof. unfold rotate. rewrite mmul_length. apply adjoint_length. Qed.
Lemma rotate_row_length dim (U Om : mat K) i : i < dim -> length (nth i (rotate K NO dim U Om) []) = dim.
Proof. intros Hi. unfold rotate. apply mmul_row_length. rewrite adjoint_length. exact Hi. Qed.

(** * Regrouping sums over labels into sums over a block *)
(** a sum over 0..N-1 restricted to the members of a duplicate-free list = the sum over the list *)
Lemma bsum_members (N : nat) (l : list nat) (f : nat -> K) : NoDup l -> (forall s, In s l -> s < N) ->
  bsum (seq 0 N) (fun s => if existsb (Nat.eqb s) l then f s else k0) = bsum l f.
Proof.
  induction l as [|x l IH]; intros Hnd Hlt.
  - cbn [existsb bigsum]. apply BS_zero. reflexivity.
  - inversion Hnd as [|x' l' Hx Hnd']; subst. cbn [bigsum]. rewrite <- IH by (try assumption; intros s Hs; apply Hlt; right; exact Hs).
    transitivity (kadd (bsum (seq 0 N) (fun s => if x =? s then f s else k0))
                       (bsum (seq 0 N) (fun s => if existsb (Nat.eqb s) l then f s else k0))).
    + rewrite <- BS_plus. apply BS_ext. intros s _. cbn [existsb]. rewrite (Nat.eqb_sym s x).
      destruct (Nat.eqb_spec x s) as [->|NE]; cbn [orb].
      * assert (E : existsb (Nat.eqb s) l = false).
        { apply not_true_iff_false. intros E. apply existsb_exists in E. destruct E as [y [Hy Ey]]. apply Nat.eqb_eq in Ey. subst y. exact (Hx Hy). }
        rewrite E. ring.
      * ring.
    + f_equal. rewrite BS_delta. cbn [Nat.leb andb Nat.add].
      destruct (Nat.ltb_spec x N) as [_|H]; [reflexivity|]. exfalso. specialize (Hlt x (or_introl eq_refl)). lia.
Qed.

(** a sum over a list = the sum over its positions *)
Lemma bsum_positions {A} (d : A) (G : A -> K) : forall l : list A, bsum l G = bsum (seq 0 (length l)) (fun k => G (nth k l d)).
Proof.
  induction l as [|x l IH]; [reflexivity|]. cbn [length seq bigsum nth]. f_equal.
  rewrite (bsum_shift' 1). rewrite IH. apply BS_ext. intros k _. reflexivity.
Qed.

Lemma bsum_fold (n : nat) (f : nat -> K) : fold_left (fun acc k => kadd acc (f k)) (seq 0 n) k0 = bsum (seq 0 n) f.
Proof. rewrite BS_fold. ring. Qed.

End LinAlg.
