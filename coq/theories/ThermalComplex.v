(** ThermalComplex.v -- the trace statements of C09 for the build with POMEROL_COMPLEX_MATRIX_ELEMENTS:
    PV.ThermalTraces instantiated at Coquelicot's complex numbers.  Weights and eigenvalues are RealType in
    the C++ and appear here embedded as complex numbers (the statements hold for arbitrary complex entries:
    they are identities between finite sums); eigenvector components and operator matrix elements are
    genuinely complex; |v|^2 is computed as |v*v| (std::abs(v*v), DensityMatrixPart.cpp:50). *)
Require Import Reals Bool List Arith Lra Lia.
From Coquelicot Require Import Complex.
From PV Require Import Outcome Thermal ThermalSpec ThermalProofs ThermalTraces.
Import ListNotations.
Local Open Scope R_scope.

Definition C0 : C := RtoC 0.
Definition C1 : C := RtoC 1.
Definition Cabs (v : C) : C := RtoC (Cmod v).            (* std::abs of a complex number, as a RealType *)
Definition CofNat (n : nat) : C := RtoC (INR n).

Lemma Cconj_0 : Cconj C0 = C0.
Proof. unfold Cconj, C0, RtoC. cbn [fst snd]. f_equal. lra. Qed.

Lemma Cabs_sq (v : C) : Cabs (Cmult v v) = Cmult v (Cconj v).
Proof.
  unfold Cabs. rewrite Cmod_mult. destruct v as [a b]. unfold Cmod, Cconj, Cmult, RtoC. cbn [fst snd].
  rewrite sqrt_sqrt by nra. f_equal; ring.
Qed.

Lemma CofNat_0 : CofNat 0 = C0.
Proof. reflexivity. Qed.
Lemma CofNat_1 : CofNat 1 = C1.
Proof. reflexivity. Qed.

(** the model at C *)
Notation Chpart := (hpart C).
Notation Cdmpart := (dmpart C).
Definition Cdm_average_energy := dm_average_energy C C0 Cplus Cmult.
Definition Cdm_average_occupancy := dm_average_occupancy C C0 Cplus Cmult Cabs CofNat.
Definition Cdm_average_occupancy_i := dm_average_occupancy_i C C0 Cplus Cmult Cabs CofNat.
Definition Cdm_average_double_occupancy := dm_average_double_occupancy C C0 Cplus Cmult Cabs CofNat.
Definition Cea_prepare := ea_prepare C C0 Cplus Cmult.
(** the specification at C: rho f g = Sum_n w_n <f|n> conj<g|n>,  Tr(rho O) = Sum_{f,g} rho f g O g f *)
Definition Ccomp := compK C C0.
Definition Ctrace_rho_op := trace_rho_opK C C0 Cplus Cmult Cconj.
Definition Cexpect := expectK C C0 Cplus Cmult Cconj.
Definition Cdiag_op := diag_opK C C0.
Definition Cb2 := b2K C C0 C1.
Definition Csum {A : Type} := @ksum C C0 Cplus A.

Theorem occupancy_is_trace_complex (fock : list nat) (H : list Chpart) (D : list Cdmpart) :
  NoDup fock -> (forall hp, In hp H -> wf_hpartK C hp) -> (forall hp, In hp H -> incl (hp_states C hp) fock) ->
  forall M i : nat, (i < M)%nat ->
  Cdm_average_occupancy_i M i H D = Done (Ctrace_rho_op fock H D (Cdiag_op (fun f => Cb2 (Nat.testbit f i)))).
Proof.
  exact (occupancy_is_traceK C C0 C1 Cplus Cmult Cminus Copp C_ring_theory Cconj Cabs CofNat Cconj_0 Cabs_sq CofNat_0 CofNat_1 fock H D).
Qed.

Theorem total_occupancy_is_trace_complex (fock : list nat) (H : list Chpart) (D : list Cdmpart) :
  NoDup fock -> (forall hp, In hp H -> wf_hpartK C hp) -> (forall hp, In hp H -> incl (hp_states C hp) fock) ->
  forall M : nat,
  Cdm_average_occupancy M H D = Ctrace_rho_op fock H D (Cdiag_op (fun f => CofNat (popcount M f))).
Proof.
  exact (total_occupancy_is_traceK C C0 C1 Cplus Cmult Cminus Copp C_ring_theory Cconj Cabs CofNat Cconj_0 Cabs_sq fock H D).
Qed.

Theorem double_occ_is_trace_complex (fock : list nat) (H : list Chpart) (D : list Cdmpart) :
  NoDup fock -> (forall hp, In hp H -> wf_hpartK C hp) -> (forall hp, In hp H -> incl (hp_states C hp) fock) ->
  forall M i j : nat, (i < M)%nat -> (j < M)%nat ->
  Cdm_average_double_occupancy M i j H D =
  Done (Ctrace_rho_op fock H D (Cdiag_op (fun f => Cmult (Cb2 (Nat.testbit f i)) (Cb2 (Nat.testbit f j))))).
Proof.
  exact (double_occ_is_traceK C C0 C1 Cplus Cmult Cminus Copp C_ring_theory Cconj Cabs CofNat Cconj_0 Cabs_sq CofNat_0 CofNat_1 fock H D).
Qed.

Theorem avg_energy_is_trace_complex (fock : list nat) (H : list Chpart) (D : list Cdmpart) (Hm : nat -> nat -> C) :
  (* eigen_equation *)
  (forall hp s f, In hp H -> (s < hp_size C hp)%nat -> In f fock ->
     Csum (fun g => Cmult (Hm f g) (Ccomp hp s g)) fock = Cmult (nth s (hp_eig C hp) C0) (Ccomp hp s f)) ->
  (* eigenvectors_normalised *)
  (forall hp s, In hp H -> (s < hp_size C hp)%nat -> Csum (fun f => Cmult (Cconj (Ccomp hp s f)) (Ccomp hp s f)) fock = C1) ->
  (* weights_sized *)
  (forall hd, In hd (combine H D) -> length (dp_weights C (snd hd)) = hp_size C (fst hd)) ->
  Cdm_average_energy H D = Ctrace_rho_op fock H D Hm.
Proof.
  exact (avg_energy_is_traceK C C0 C1 Cplus Cmult Cminus Copp C_ring_theory Cconj fock H D Hm).
Qed.

Theorem ensemble_average_is_trace_complex (fock : list nat) (H : list Chpart) (D : list Cdmpart) :
  length D = length H ->
  (forall hd, In hd (combine H D) -> length (dp_weights C (snd hd)) = hp_size C (fst hd)) ->
  forall (A : fieldop C) (O : nat -> nat -> C),
  NoDup (map (op_left C) A) ->
  (forall p, In p A -> (op_left C p < length H)%nat) ->
  (* rotated *)
  (forall p, In p A -> op_left C p = op_right C p ->
     length (op_mat C p) = hp_size C (nth (op_left C p) H (dummy_hpK C)) /\
     forall n, (n < hp_size C (nth (op_left C p) H (dummy_hpK C)))%nat ->
       coeff C C0 (op_mat C p) n n = Cexpect fock O (nth (op_left C p) H (dummy_hpK C)) n) ->
  (* bimap_complete *)
  (forall b, (b < length H)%nat -> (forall p, In p A -> op_left C p = op_right C p -> op_left C p <> b) ->
     forall s, (s < hp_size C (nth b H (dummy_hpK C)))%nat -> Cexpect fock O (nth b H (dummy_hpK C)) s = C0) ->
  (forall b, (b < length D)%nat -> is_retained C D b = true) ->
  Cea_prepare A D = Done (Ctrace_rho_op fock H D O).
Proof.
  exact (ensemble_average_is_traceK C C0 C1 Cplus Cmult Cminus Copp C_ring_theory Cconj fock H D).
Qed.

Theorem trace_eigen_form_complex (fock : list nat) (H : list Chpart) (D : list Cdmpart) (O : nat -> nat -> C) :
  Ctrace_rho_op fock H D O = sum_statesK C C0 Cplus Cmult H D (Cexpect fock O).
Proof.
  exact (trace_eigen_formK C C0 C1 Cplus Cmult Cminus Copp C_ring_theory Cconj fock H D O).
Qed.

(** * The hypotheses are satisfiable with genuinely complex eigenvectors.
    Two spinless modes; in the block {1,2} the eigenvectors are the columns of ((3/5, 4i/5), (4i/5, 3/5)) with
    eigenvalues -1, +1: H restricted to {1,2} is ((7/25, 24i/25), (-24i/25, -7/25)). *)
Definition cx_b0 : Chpart := mk_hpart C [0%nat] [C0] [[C1]].
Definition cx_b1 : Chpart := mk_hpart C [1%nat; 2%nat] [RtoC (-1); C1] [[RtoC (3/5); (0, 4/5)]; [(0, 4/5); RtoC (3/5)]].
Definition cx_b2 : Chpart := mk_hpart C [3%nat] [RtoC 2] [[C1]].
Definition cxH : list Chpart := [cx_b0; cx_b1; cx_b2].
Definition cxfock : list nat := [0; 1; 2; 3]%nat.
Definition cxHm (f g : nat) : C :=
  match f, g with
  | 1%nat, 1%nat => RtoC (7/25) | 1%nat, 2%nat => (0, 24/25) | 2%nat, 1%nat => (0, -24/25) | 2%nat, 2%nat => RtoC (-7/25)
  | 3%nat, 3%nat => RtoC 2
  | _, _ => C0
  end.
Definition cxD : list Cdmpart :=
  [mk_dmpart C [RtoC (1/10)] (RtoC (1/10)) true; mk_dmpart C [RtoC (2/10); RtoC (3/10)] (RtoC (5/10)) true;
   mk_dmpart C [RtoC (4/10)] (RtoC (4/10)) true].

Ltac in_cases H := repeat (destruct H as [H|H]; [subst|]); try destruct H.
Ltac ceq := apply injective_projections; cbn; lra.

Example cx_fock_nodup : NoDup cxfock.
Proof. unfold cxfock. repeat constructor; cbn; intuition lia. Qed.

Example cx_blocks_wf : forall hp, In hp cxH -> wf_hpartK C hp.
Proof.
  intros hp Hhp. unfold cxH in Hhp. in_cases Hhp; unfold wf_hpartK; cbn; repeat split; try reflexivity;
    repeat constructor; cbn; intuition lia.
Qed.

Example cx_blocks_in_fock : forall hp, In hp cxH -> incl (hp_states C hp) cxfock.
Proof. intros hp Hhp f Hf. unfold cxH in Hhp. in_cases Hhp; cbn in Hf; in_cases Hf; cbn; intuition. Qed.

Example cx_eigen_equation : forall hp s f, In hp cxH -> (s < hp_size C hp)%nat -> In f cxfock ->
  Csum (fun g => Cmult (cxHm f g) (Ccomp hp s g)) cxfock = Cmult (nth s (hp_eig C hp) C0) (Ccomp hp s f).
Proof.
  intros hp s f Hhp Hs Hf. unfold cxH in Hhp. unfold cxfock in Hf.
  in_cases Hhp; cbn in Hs; in_cases Hf;
    (destruct s as [|[|s]]; [| |]; try lia; unfold Csum, Ccomp, compK, vcompK, cxfock; cbn; ceq).
Qed.

Example cx_eigenvectors_normalised : forall hp s, In hp cxH -> (s < hp_size C hp)%nat ->
  Csum (fun f => Cmult (Cconj (Ccomp hp s f)) (Ccomp hp s f)) cxfock = C1.
Proof.
  intros hp s Hhp Hs. unfold cxH in Hhp.
  in_cases Hhp; cbn in Hs; (destruct s as [|[|s]]; [| |]; try lia; unfold Csum, Ccomp, compK, vcompK, cxfock; cbn; ceq).
Qed.

Example cx_weights_sized : forall hd, In hd (combine cxH cxD) -> length (dp_weights C (snd hd)) = hp_size C (fst hd).
Proof. intros hd Hhd. cbn in Hhd. in_cases Hhd; reflexivity. Qed.

(** the theorems apply: e.g. <n_0> of the example is Tr(rho n_0) and <H> = Tr(rho H) *)
Example cx_occupancy : Cdm_average_occupancy_i 2 0 cxH cxD = Done (Ctrace_rho_op cxfock cxH cxD (Cdiag_op (fun f => Cb2 (Nat.testbit f 0)))).
Proof. apply (occupancy_is_trace_complex cxfock cxH cxD cx_fock_nodup cx_blocks_wf cx_blocks_in_fock 2 0). lia. Qed.

Example cx_avg_energy : Cdm_average_energy cxH cxD = Ctrace_rho_op cxfock cxH cxD cxHm.
Proof. exact (avg_energy_is_trace_complex cxfock cxH cxD cxHm cx_eigen_equation cx_eigenvectors_normalised cx_weights_sized). Qed.
