(** HPartGen.v -- the diagonalisation layer rebuilt around the control structure that the translator reads off the C++ (C03).

    PV.HPart is hand-written.  translator/gen_ham.py regenerates, on every run, from the source text of the tree under test:

      PVgen.Gen_HamGround        gen_ground_energy, gen_ground_vector_size                  Hamiltonian::computeGroundEnergy
      PVgen.Gen_HamEigenValue    gen_eigenvalue_part, gen_eigenvalue_index                  Hamiltonian::getEigenValue (+ getPart, HamiltonianPart::getEigenValue)
      PVgen.Gen_HamEigenValues   gen_eigenvalues_size / _blocks / _part / _offset0 / _copy / _next      Hamiltonian::getEigenValues
      PVgen.Gen_HPartCompute     gen_hp_compute_cases, gen_hp_compute_otherwise             HamiltonianPart::compute
      PVgen.Gen_HPartPrepare     gen_hprep_shape / _zeroed / _sources / _cell / _skip / _skip_read    HamiltonianPart::prepare
      PVgen.Gen_HamPrepareBcast  gen_ham_prepare_...                                        Hamiltonian::prepare(comm)
      PVgen.Gen_HamComputeBcast  gen_ham_compute_...                                        Hamiltonian::compute(comm)

    Below every function of PV.HPart that one of these describes is written once more, loop for loop as in HPart.v, with the
    GENERATED range / index / case list / cell in the place of the hand-written one ([..._src]); the inner pieces that the
    translator does not describe (Operator::actRight = HPart.act_map, S.getInnerState(bra) and the bounds-checked write of the inner
    loop of prepare, the label
    look-ups of StatesClassification, Eigen's minCoeff = HPart.min_coeff) are shared with HPart.v.  The broadcast loops of
    Hamiltonian::prepare(comm) / compute(comm) have no counterpart in HPart.v (its theorems are about one process): a small
    model of "what a rank that did not run a part holds after the loop" is given here ([ham_compute_receive], ...).

    PV.HPartGenProofs proves `generated piece = what HPart.v has` (closed computations that stop checking when the source says
    something else), from them `..._src = model`, and the theorems of props/Properties_C03_source.v.   Definitions only. *)
Require Import Bool List Arith ZArith.
From PV Require Import Outcome Fock Poly EDSpec HPart HamShapes.
From PVgen Require Import Gen_HamGround Gen_HamEigenValue Gen_HamEigenValues Gen_HPartCompute Gen_HPartPrepare
                          Gen_HamPrepareBcast Gen_HamComputeBcast.
Import ListNotations.

(** "the source does something here that the model has no description for" ([...Unrecognised] of PV.HamShapes) *)
Definition ex_unmodelled : nat := 99.
(** two ranks enter different collective calls (boost::mpi::broadcast with different buffers / counts, or only one of them) *)
Definition ex_mpi_mismatch : nat := 98.

Section Src.
Variable fb : bool.
Variable K : Type.
Variable NO : numops K.
Variable eps : K.
Variable kre : K -> K.
Notation "0" := (n0 K NO).
Notation "1" := (n1 K NO).
Notation ltb := (nre_ltb K NO).

(** * Hamiltonian::computeGroundEnergy
    The generated expression is generic in the type of the minima; here it is read at [outcome K]:
    parts[b]->getMinimumEigenvalue() is Eigenvalues.minCoeff() of part b (a part that does not exist: OOB),
    V.minCoeff() is HPart.min_coeff of the cells in order, std::min(a, b) = (b < a) ? b : a. *)
Definition part_min_src (parts : list (hpart K)) (b : nat) : outcome K :=
  match nth_error parts b with Some p => min_coeff K NO (fst p) | None => OOB end.
Definition lift_min_coeff (l : list (outcome K)) : outcome K := bind (outcome_map (fun x => x) l) (min_coeff K NO).
Definition lift_min2 (a b : outcome K) : outcome K :=
  bind a (fun x => bind b (fun y => Done (if ltb y x then y else x))).

Definition computeGroundEnergy_src (nblocks : nat) (parts : list (hpart K)) : outcome K :=
  gen_ground_energy (outcome K) (part_min_src parts) lift_min_coeff lift_min2 nblocks (length parts).

(** * Hamiltonian::getEigenValue(QuantumState) *)
Definition getEigenValue_src (S : classification) (parts : list (hpart K)) (q : nat) : outcome K :=
  bind (getInnerState_label fb S q) (fun inner =>
  bind (getBlockNumber fb S q) (fun b =>
    match nth_error parts (gen_eigenvalue_part b inner) with
    | None => OOB
    | Some part =>
      match nth_error (fst part) (gen_eigenvalue_index b inner) with
      | Some e => Done e
      | None => OOB
      end
    end)).

(** * Hamiltonian::getEigenValues: the vector [out] of uninitialised cells, the loop over the blocks as generated *)
Definition getEigenValues_src (S : classification) (parts : list (hpart K)) : outcome (list K) :=
  let nblocks := length (sc_states S) in
  bind (fold_left (fun acc b =>
          bind acc (fun oi =>
            match nth_error parts (gen_eigenvalues_part b) with
            | None => OOB                                                        (* parts[b] *)
            | Some part =>
              let tmp := fst part in
              let abc := gen_eigenvalues_copy (snd oi) (length tmp) in
              if snd (fst abc) <=? length tmp then                               (* std::copy reads tmp[a .. e) *)
                bind (write_range (fst oi) (snd abc) (firstn (snd (fst abc) - fst (fst abc)) (skipn (fst (fst abc)) tmp)))
                     (fun out' => Done (out', gen_eigenvalues_next (snd oi) (length tmp)))
              else OOB
            end))
          (gen_eigenvalues_blocks nblocks (length parts))
          (Done (repeat None (gen_eigenvalues_size (state_size S) nblocks (length parts)), gen_eigenvalues_offset0)))
       (fun oi => read_all (fst oi)).

(** * HamiltonianPart::compute: the generated chain of (condition, action), [None] when it reaches something unrecognised *)
Definition hp_cond_holds (c : hp_cond) (rows : nat) : option bool :=
  match c with
  | CondRowsEq n => Some (rows =? n)
  | CondRowsLt n => Some (rows <? n)
  | CondRowsGt n => Some (n <? rows)
  | CondUnrecognised => None
  end.
Definition hp_run_act (a : hp_act) (H : mat K) (solver : list K * mat K) : option (list K * mat K) :=
  match a with
  | ActOneByOne => Some ([kre (mget K NO H 0 0)], [[1]])
  | ActSolverWholeBlock => Some solver
  | ActNothing => None                       (* Eigenvalues is never assigned *)
  | ActUnrecognised => None
  end.
Fixpoint hp_run_cases (cases : list (hp_cond * hp_act)) (otherwise : hp_act) (H : mat K) (solver : list K * mat K)
  : option (list K * mat K) :=
  match cases with
  | [] => hp_run_act otherwise H solver
  | (c, a) :: r =>
    match hp_cond_holds c (length H) with
    | None => None
    | Some true => hp_run_act a H solver
    | Some false => hp_run_cases r otherwise H solver
    end
  end.
Definition hpart_compute_src (H : mat K) (solver : list K * mat K) : option (list K * mat K) :=
  hp_run_cases gen_hp_compute_cases gen_hp_compute_otherwise H solver.

(** * HamiltonianPart::prepare
    Every iteration of the outer loop writes only cells whose "source" coordinate is the loop variable: one line of the matrix
    (HPart.hpart_column: the image of the ket, S.getInnerState(bra), the bounds-checked write).  The generated cell convention
    says whether that line is a column (H(position of bra, position of ket), what HPart.v has) or a row. *)
(** The inner loop once more, as HPart.hpart_column, with the statements the translator found in FRONT of the store: an entry of
    the image for which the generated test [gen_hprep_skip] holds is not stored (`if (std::abs(melem) < 1e-8) continue;` and the
    like: the block is then no longer the Hamiltonian restricted to the block); a test that could not be read is
    [Throws ex_unmodelled].  HPart.v stores every entry. *)
Definition lit_src (m e : Z) : K :=                 (* the decimal literal m * 10^e *)
  if (0 <=? e)%Z then nmul K NO (nofZ K NO m) (nofZ K NO (10 ^ e)%Z)
  else ndiv K NO (nofZ K NO m) (nofZ K NO (10 ^ (- e))%Z).

Definition hpart_column_src (S : classification) (p : poly K) (n : nat) (ket : nat) : outcome (list K) :=
  bind (act_map K NO eps (sc_M S) p ket) (fun entries =>
    fold_left (fun acc e =>
      bind acc (fun col =>
        if negb gen_hprep_skip_read then Throws ex_unmodelled
        else if gen_hprep_skip K ltb (nabs K NO) lit_src eps (snd e) then Done col
        else
          bind (getInnerState fb S (fst e)) (fun left_st =>
            match set_nth col left_st (snd e) with
            | Some col' => Done col'
            | None => OOB
            end)))
      entries (Done (repeat 0 n))).

Definition hpart_prepare_src (S : classification) (p : poly K) (b : nat) : outcome (mat K) :=
  bind (getFockStates S b) (fun states =>
    let n := length states in
    let shape := gen_hprep_shape n in
    if gen_hprep_zeroed then
      match gen_hprep_cell with
      | (PosOfResultState, PosOfSourceState) =>
        bind (outcome_map (fun r => match nth_error states r with
                                    | Some ket => hpart_column_src S p (fst shape) ket
                                    | None => OOB end) (gen_hprep_sources n))
             (fun cols => Done (rows_of_columns K NO (fst shape) cols))
      | (PosOfSourceState, PosOfResultState) =>
        outcome_map (fun r => match nth_error states r with
                              | Some ket => hpart_column_src S p (snd shape) ket
                              | None => OOB end) (gen_hprep_sources n)
      | _ => Throws ex_unmodelled
      end
    else Uninit).                                  (* cells that no image touches are read without having been written *)

(** * Hamiltonian::prepare(comm) / compute(comm): the loop of broadcasts after the dispatch
    One rank's copy of a part is (Eigenvalues, H).  [owner] is the copy of the rank that ran the part, [mine] the copy of any other
    rank.  Both walk through their lists of broadcast calls; a call whose guard is false is skipped; a pair of calls that does not
    match is [ex_mpi_mismatch]; a matrix is transferred as a whole (count = rows * cols on equal shapes, anything else is not
    modelled), a vector by its first [count] cells. *)
Definition dims (p : hpart K) : nat * nat := (length (snd p), match snd p with [] => 0%nat | r :: _ => length r end).
Definition buf_eqb (a b : bcast_buf) : bool :=
  match a, b with BufMatrix, BufMatrix | BufEigenvalues, BufEigenvalues => true | _, _ => false end.

Fixpoint run_bcasts (size : nat) (own oth : list bcast) (owner mine : hpart K) : outcome (hpart K) :=
  match own, oth with
  | [], [] => Done mine
  | a :: own', b :: oth' =>
    let ro := fst (dims owner) in let co := snd (dims owner) in
    let rm := fst (dims mine) in let cm := snd (dims mine) in
    let go := bc_guard a ro co size in
    if negb (Bool.eqb go (bc_guard b rm cm size)) then Throws ex_mpi_mismatch
    else if negb go then run_bcasts size own' oth' owner mine
    else
      match bc_root a, bc_root b with
      | RootThisRank, RootOwner =>
        if buf_eqb (bc_buf a) (bc_buf b) && (bc_count a ro co size =? bc_count b rm cm size) then
          match bc_buf a with
          | BufMatrix =>
            if (bc_count a ro co size =? ro * co) && (ro =? rm) && (co =? cm)
            then run_bcasts size own' oth' owner (fst mine, snd owner)
            else Throws ex_unmodelled
          | BufEigenvalues =>
            let n := bc_count a ro co size in
            if (n <=? length (fst owner)) && (n <=? length (fst mine))
            then run_bcasts size own' oth' owner (firstn n (fst owner) ++ skipn n (fst mine), snd mine)
            else OOB
          end
        else Throws ex_mpi_mismatch
      | _, _ => Throws ex_mpi_mismatch
      end
  | _, _ => Throws ex_mpi_mismatch
  end.

(** Eigen's resize keeps nothing: the new cells hold no defined value; the model fills them with 0 (they are overwritten or the
    theorems do not speak about them) *)
Definition resize_vec (n : nat) (l : list K) : list K := firstn n l ++ repeat 0 (n - length l).

(** compute(comm), a rank other than the owner: Eigenvalues.resize(..); the broadcasts *)
Definition ham_compute_receive (size : nat) (owner mine : hpart K) : outcome (hpart K) :=
  let rm := fst (dims mine) in let cm := snd (dims mine) in
  run_bcasts size gen_ham_compute_owner gen_ham_compute_others owner
             (resize_vec (gen_ham_compute_others_resize_eigenvalues rm cm size) (fst mine), snd mine).

(** prepare(comm), a rank other than the owner: H.resize(..); the broadcast *)
Definition ham_prepare_receive (size : nat) (owner mine : hpart K) : outcome (hpart K) :=
  let rm := fst (dims mine) in let cm := snd (dims mine) in
  let rc := gen_ham_prepare_others_resize_matrix rm cm size in
  run_bcasts size gen_ham_prepare_owner gen_ham_prepare_others owner
             (fst mine, repeat (repeat 0 (snd rc)) (fst rc)).

(** the whole loop on a rank that ran none of the parts: part p is received when p is in the generated range, left alone otherwise *)
Definition ham_distribute (receive : nat -> hpart K -> hpart K -> outcome (hpart K)) (range : list nat)
    (sizes : nat -> nat) (owners mine : list (hpart K)) : outcome (list (hpart K)) :=
  outcome_map (fun p => match nth_error owners p, nth_error mine p with
                        | Some o, Some m => if existsb (Nat.eqb p) range then receive (sizes p) o m else Done m
                        | _, _ => OOB
                        end) (seq 0 (length mine)).
Definition ham_compute_distribute (nblocks : nat) (sizes : nat -> nat) (owners mine : list (hpart K)) : outcome (list (hpart K)) :=
  ham_distribute ham_compute_receive (gen_ham_compute_bcast_range nblocks (length mine)) sizes owners mine.
Definition ham_prepare_distribute (nblocks : nat) (sizes : nat -> nat) (owners mine : list (hpart K)) : outcome (list (hpart K)) :=
  ham_distribute ham_prepare_receive (gen_ham_prepare_bcast_range nblocks (length mine)) sizes owners mine.

End Src.
