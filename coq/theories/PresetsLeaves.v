(** PresetsLeaves.v -- C04, layer 3: what one call of a Lattice::Term::Presets factory contributes.
    The operator / label / orbital / spin arrays are translator output (PVgen.Gen_LatticePresets); the lemmas
    below are therefore re-checked against the C++ text on every run.

    [wgs w A]: the writer [w] (PV.Lattice) finishes normally, every term it pushes is well formed, of order
    >= 1 and in range, and the sum of the pushed terms (each read as Value * Jordan-Wigner product) is the
    matrix [A].  Combinator rules for wseq / wwhen / wfor and one leaf rule per factory. *)
Require Import Bool List Arith Lia Ring Ring_theory.
From PV Require Import Lattice.
From PV Require Import Outcome Fock Poly PolySem CAR AlgebraBasics AlgebraProofs NormalizeProofs.
From PV Require Import PresetsSpec IndexHam PresetsBasics PresetsPrepare.
From PVgen Require Import Gen_LatticePresets.
Import ListNotations.

Ltac unfold_gen :=
  cbv [Lattice.factory Lattice.mk
       Hopping7_throws Hopping7_ops Hopping7_labels Hopping7_orbitals Hopping7_spins
       Hopping5_throws Hopping5_ops Hopping5_labels Hopping5_orbitals Hopping5_spins
       Level4_throws Level4_ops Level4_labels Level4_orbitals Level4_spins
       NupNdown7_throws NupNdown7_ops NupNdown7_labels NupNdown7_orbitals NupNdown7_spins
       NupNdown6_throws NupNdown6_ops NupNdown6_labels NupNdown6_orbitals NupNdown6_spins
       NupNdown4_throws NupNdown4_ops NupNdown4_labels NupNdown4_orbitals NupNdown4_spins
       NupNdown5_throws NupNdown5_ops NupNdown5_labels NupNdown5_orbitals NupNdown5_spins
       Spinflip6_throws Spinflip6_ops Spinflip6_labels Spinflip6_orbitals Spinflip6_spins
       PairHopping6_throws PairHopping6_ops PairHopping6_labels PairHopping6_orbitals PairHopping6_spins
       SplusSminus4_throws SplusSminus4_ops SplusSminus4_labels SplusSminus4_orbitals SplusSminus4_spins
       SminusSplus4_throws SminusSplus4_ops SminusSplus4_labels SminusSplus4_orbitals SminusSplus4_spins].

Section PL.
Variable K : Type.
Variables (k0 k1 : K) (kadd kmul ksub : K -> K -> K) (kopp : K -> K).
Variable kzero : K -> bool.
Hypothesis Hring : ring_ok K k0 k1 kadd kmul ksub kopp kzero.
Let Rth : ring_theory k0 k1 kadd kmul ksub kopp (@eq K) := proj1 Hring.
Add Ring Kring_PL : Rth.
Variable khalf : K.
Variable kconj : K -> K.
Variable M : nat.
Variable L : Type.
Variable leqb : L -> L -> bool.
Variable idx : L -> nat -> nat -> nat.

(** the arithmetic the presets perform on their parameters (Lattice.vops), over the ring:
    [std::abs(x)] non-zero, -x, x - y, x / 2., x / 4., 2.0 * x, conj(x) *)
Definition kvops : vops K :=
  mkVops K (fun x => negb (kzero x)) (fun a b => kzero (ksub a b)) kopp ksub
         (fun x => kmul x khalf) (fun x => kmul x (kmul khalf khalf)) (fun x => kadd x x) kconj.

Notation term := (Lattice.term L K).
Notation W := (Lattice.W L K).
Local Notation cm := (coef_mono K k0 k1 kopp).
Local Notation cp := (coef_poly K k0 k1 kadd kmul kopp).
Local Notation ksum := (@PolySem.ksum K k0 kadd _).
Local Notation mat := (PresetsSpec.mat K).
Local Notation m_zero := (PresetsSpec.m_zero K k0).
Local Notation m_add := (PresetsSpec.m_add K kadd).
Local Notation m_scale := (PresetsSpec.m_scale K kmul).
Local Notation m_sum := (@PresetsSpec.m_sum K k0 kadd _).
Local Notation meq := (PresetsSpec.meq K M).
Local Notation m_n := (PresetsSpec.m_n K k0 k1).
Local Notation m_nn := (PresetsSpec.m_nn K k0 k1 kmul).
Local Notation rng := PresetsSpec.rng.
Local Notation x_quartic := (PresetsSpec.x_quartic K k0 k1 kopp).
Local Notation x_hop := (PresetsSpec.x_hop K k0 k1 kopp).
Local Notation x_spsm := (PresetsSpec.x_spsm K k0 k1 kopp L idx).
Local Notation x_smsp := (PresetsSpec.x_smsp K k0 k1 kopp L idx).
Local Notation term_ops := (PresetsSpec.term_ops K L idx).
Local Notation x_term_matrix := (PresetsSpec.x_term_matrix K k0 k1 kmul kopp L idx).
Local Notation term_ok := (PresetsPrepare.term_ok K M L idx).
Local Notation wsem := (PresetsPrepare.wsem K k0 k1 kadd kmul kopp L idx).
Local Notation wdone := (PresetsPrepare.wdone K L).
Local Notation prepare := (IndexHam.prepare L K k1 kadd kmul kopp kzero idx).
Local Notation lattice_of := (PresetsPrepare.lattice_of K L).
Local Notation factory := (Lattice.factory L leqb K).
Local Notation wpush_f := (Lattice.wpush_f L leqb K).
Local Notation wadd_f := (Lattice.wadd_f L leqb K kvops).
Local Notation find_site := (Lattice.find_site L leqb).

Definition good_term (t : term) : Prop := 1 <= t_order t /\ term_ok (t_order t) t.

Definition wgs (w : W) (A : mat) : Prop :=
  wdone w /\ Forall good_term (fst w) /\ meq (wsem w) A.

(** ** from a writer to the Hamiltonian *)
Theorem wgs_denotes : forall (m : site_map L) (w : W) (A : mat), wgs w A ->
  exists h, prepare true (lattice_of m (fst w)) = Done h /\ meq (cp h) A.
Proof.
  intros m w A (D & G & S).
  destruct (prepare_of_terms K k0 k1 kadd kmul ksub kopp kzero Hring M L idx m (fst w)) as (h & E & _ & Sh).
  - eapply Forall_impl; [|exact G]. intros t [_ Ht]. exact Ht.
  - exists h. split; [exact E|]. intros s u Hs Hu. rewrite Sh by assumption. rewrite <- (S s u Hs Hu).
    unfold PresetsPrepare.wsem. apply (AlgebraBasics.ksum_ext K k0 kadd). intros t Ht.
    rewrite Forall_forall in G. destruct (G t Ht) as [Ho _].
    replace (1 <=? t_order t) with true by (symmetry; apply Nat.leb_le; exact Ho). reflexivity.
Qed.

(** ... and to the Hamiltonian of ANY lattice the terms are added to: the new Hamiltonian is the old one plus [A] *)
Theorem wgs_adds : forall (st : Lattice.state L K) (w : W) (A : mat), wgs w A ->
  PresetsPrepare.storage_ok K M L idx st -> PresetsPrepare.storage_bounded K L st ->
  exists h h', prepare true st = Done h /\ prepare true (push_all L K (fst w) st) = Done h' /\
    meq (cp h') (m_add (cp h) A).
Proof.
  intros st w A (D & G & S) Hok Hb.
  destruct (prepare_after_push K k0 k1 kadd kmul ksub kopp kzero Hring M L idx st (fst w) Hok Hb) as (h & h' & E & E' & Sh).
  - eapply Forall_impl; [|exact G]. intros t [_ Ht]. exact Ht.
  - exists h, h'. split; [exact E|]. split; [exact E'|]. intros s u Hs Hu. rewrite Sh by assumption.
    unfold PresetsSpec.m_add. f_equal. rewrite <- (S s u Hs Hu).
    unfold PresetsPrepare.wsem. apply (AlgebraBasics.ksum_ext K k0 kadd). intros t Ht.
    rewrite Forall_forall in G. destruct (G t Ht) as [Ho _].
    replace (1 <=? t_order t) with true by (symmetry; apply Nat.leb_le; exact Ho). reflexivity.
Qed.

Lemma wgs_meq : forall w A B, wgs w A -> meq A B -> wgs w B.
Proof.
  intros w A B (D & G & S) H. split; [exact D|]. split; [exact G|].
  intros s u Hs Hu. rewrite S by assumption. apply H; assumption.
Qed.

(** ** combinators *)
Lemma wgs_ret : wgs (wret L K) m_zero.
Proof. split; [reflexivity|]. split; [constructor|]. intros s u _ _. reflexivity. Qed.

Lemma wgs_seq : forall a b A B, wgs a A -> wgs b B -> wgs (wseq L K a b) (m_add A B).
Proof.
  intros a b A B (Da & Ga & Sa) (Db & Gb & Sb). split; [apply wseq_done; assumption|]. split.
  - destruct a as [ta ra], b as [tb rb]. unfold PresetsPrepare.wdone in Da. cbn [snd] in Da. subst ra.
    unfold Lattice.wseq. cbn [fst snd]. apply Forall_app. split; assumption.
  - intros s u Hs Hu. erewrite wsem_seq; [|exact Hring|exact Da].
    unfold PresetsSpec.m_add. rewrite Sa, Sb by assumption. reflexivity.
Qed.

Lemma wgs_when : forall (c : bool) a A, (c = true -> wgs a A) -> wgs (wwhen L K c a) (if c then A else m_zero).
Proof. intros [|] a A H; [apply H; reflexivity|apply wgs_ret]. Qed.

Lemma wgs_for_from : forall k i body (F : nat -> mat), (forall j, i <= j < i + k -> wgs (body j) (F j)) ->
  wgs (wfor_from L K k i body) (m_sum (seq i k) F).
Proof.
  induction k as [|k IH]; intros i body F H; cbn [Lattice.wfor_from seq].
  - apply wgs_ret.
  - eapply wgs_meq; [apply wgs_seq; [apply H; lia|apply (IH (S i) body F); intros j Hj; apply H; lia]|].
    intros s u _ _. reflexivity.
Qed.

Lemma wgs_for : forall n body (F : nat -> mat), (forall j, j < n -> wgs (body j) (F j)) ->
  wgs (wfor L K n body) (m_sum (rng n) F).
Proof. intros n body F H. apply wgs_for_from. intros j Hj. apply H. lia. Qed.

(** ** leaves: one pushed term *)
Lemma wgs_push : forall t, good_term t -> wgs (wpush L K t) (x_term_matrix t).
Proof.
  intros t G. split; [reflexivity|]. split; [constructor; [exact G|constructor]|].
  intros s u _ _. eapply wsem_push; exact Hring.
Qed.

Lemma range2 : forall a b : op, op_idx a < M -> op_idx b < M -> mono_in_range M [a; b].
Proof. intros a b Ha Hb. repeat constructor; assumption. Qed.
Lemma range4 : forall a b c d : op, op_idx a < M -> op_idx b < M -> op_idx c < M -> op_idx d < M ->
  mono_in_range M [a; b; c; d].
Proof. intros a b c d Ha Hb Hc Hd. repeat constructor; assumption. Qed.

(** Level(Label, Value, orbital, spin): Value * n_{label orbital spin} *)
Lemma leaf_level : forall l v a z, idx l a z < M ->
  wgs (wpush_f (FLevel4 l v a z)) (m_scale v (m_n (idx l a z))).
Proof.
  intros l v a z Hi. unfold Lattice.wpush_f. unfold_gen.
  eapply wgs_meq; [apply wgs_push|].
  - split; [cbn; lia|]. unfold PresetsPrepare.term_ok. cbn. repeat split; try reflexivity.
    apply range2; exact Hi.
  - unfold PresetsSpec.x_term_matrix. cbn [t_val]. apply meq_scale.
    unfold PresetsSpec.term_ops. cbn [t_ops t_labels t_orbs t_spins combine map fst snd].
    apply cm_n_diag. exact Hi.
Qed.

(** NupNdown(Label1, Label2, Value, orbital1, orbital2, spin1, spin2): Value * n n; when the two number
    operators coincide the factory returns a Level term instead, and n n = n *)
Lemma leaf_nn7 : forall l1 l2 v o1 o2 s1 s2, idx l1 o1 s1 < M -> idx l2 o2 s2 < M ->
  (leqb l1 l2 = true -> l1 = l2) ->
  wgs (wpush_f (FNupNdown7 l1 l2 v o1 o2 s1 s2)) (m_scale v (m_nn (idx l1 o1 s1) (idx l2 o2 s2))).
Proof.
  intros l1 l2 v o1 o2 s1 s2 H1 H2 Hl. unfold Lattice.wpush_f. unfold_gen.
  destruct (leqb l1 l2 && (s1 =? s2) && (o1 =? o2)) eqn:E.
  - apply andb_true_iff in E. destruct E as [E E3]. apply andb_true_iff in E. destruct E as [E1 E2].
    apply Hl in E1. apply Nat.eqb_eq in E2. apply Nat.eqb_eq in E3. subst l2 s2 o2.
    eapply wgs_meq; [apply wgs_push|].
    + split; [cbn; lia|]. unfold PresetsPrepare.term_ok. cbn. repeat split; try reflexivity.
      apply range2; exact H1.
    + unfold PresetsSpec.x_term_matrix. cbn [t_val]. apply meq_scale.
      unfold PresetsSpec.term_ops. cbn [t_ops t_labels t_orbs t_spins combine map fst snd].
      eapply meq_trans; [apply cm_n_diag; exact H1|].
      unfold PresetsSpec.m_n, PresetsSpec.m_nn. apply m_diag_ext. intros s _.
      symmetry. eapply occ_idem; exact Hring.
  - eapply wgs_meq; [apply wgs_push|].
    + split; [cbn; lia|]. unfold PresetsPrepare.term_ok. cbn. repeat split; try reflexivity.
      apply range4; assumption.
    + unfold PresetsSpec.x_term_matrix. cbn [t_val]. apply meq_scale.
      unfold PresetsSpec.term_ops. cbn [t_ops t_labels t_orbs t_spins combine map fst snd].
      eapply cm_nn_diag; try exact Hring; assumption.
Qed.

Lemma leaf_nn6 : forall l v o1 o2 s1 s2, idx l o1 s1 < M -> idx l o2 s2 < M ->
  wgs (wpush_f (FNupNdown6 l v o1 o2 s1 s2)) (m_scale v (m_nn (idx l o1 s1) (idx l o2 s2))).
Proof.
  intros l v o1 o2 s1 s2 H1 H2.
  pose proof (leaf_nn7 l l v o1 o2 s1 s2 H1 H2 (fun _ => eq_refl)) as H.
  unfold Lattice.wpush_f in *. revert H. unfold_gen. exact (fun x => x).
Qed.

(** Spinflip(Label, Value, o1, o2, s1, s2) = Value c^+_{o1 s1} c^+_{o2 s2} c_{o2 s1} c_{o1 s2} *)
Lemma leaf_spinflip : forall l v o1 o2 s1 s2, o1 <> o2 -> s1 <> s2 ->
  idx l o1 s1 < M -> idx l o2 s2 < M -> idx l o2 s1 < M -> idx l o1 s2 < M ->
  wgs (wpush_f (FSpinflip6 l v o1 o2 s1 s2))
      (m_scale v (x_quartic (idx l o1 s1) (idx l o2 s2) (idx l o2 s1) (idx l o1 s2))).
Proof.
  intros l v o1 o2 s1 s2 No Ns H1 H2 H3 H4. unfold Lattice.wpush_f. unfold_gen.
  replace (o1 =? o2) with false by (symmetry; apply Nat.eqb_neq; exact No).
  replace (s1 =? s2) with false by (symmetry; apply Nat.eqb_neq; exact Ns). cbn [orb].
  eapply wgs_meq; [apply wgs_push|].
  - split; [cbn; lia|]. unfold PresetsPrepare.term_ok. cbn. repeat split; try reflexivity.
    apply range4; assumption.
  - apply meq_refl.
Qed.

(** PairHopping(Label, Value, o1, o2, s1, s2) = Value c^+_{o1 s1} c^+_{o1 s2} c_{o2 s1} c_{o2 s2} *)
Lemma leaf_pairhopping : forall l v o1 o2 s1 s2, o1 <> o2 -> s1 <> s2 ->
  idx l o1 s1 < M -> idx l o1 s2 < M -> idx l o2 s1 < M -> idx l o2 s2 < M ->
  wgs (wpush_f (FPairHopping6 l v o1 o2 s1 s2))
      (m_scale v (x_quartic (idx l o1 s1) (idx l o1 s2) (idx l o2 s1) (idx l o2 s2))).
Proof.
  intros l v o1 o2 s1 s2 No Ns H1 H2 H3 H4. unfold Lattice.wpush_f. unfold_gen.
  replace (o1 =? o2) with false by (symmetry; apply Nat.eqb_neq; exact No).
  replace (s1 =? s2) with false by (symmetry; apply Nat.eqb_neq; exact Ns). cbn [orb].
  eapply wgs_meq; [apply wgs_push|].
  - split; [cbn; lia|]. unfold PresetsPrepare.term_ok. cbn. repeat split; try reflexivity.
    apply range4; assumption.
  - apply meq_refl.
Qed.

(** SplusSminus(Label1, Label2, Value, orbital) = Value c^+_{1 up} c_{1 down} c^+_{2 down} c_{2 up} *)
Lemma leaf_spsm : forall l1 l2 v a,
  idx l1 a spin_up < M -> idx l1 a spin_down < M -> idx l2 a spin_up < M -> idx l2 a spin_down < M ->
  wgs (wpush_f (FSplusSminus4 l1 l2 v a)) (m_scale v (x_spsm l1 l2 a)).
Proof.
  intros l1 l2 v a H1 H2 H3 H4. unfold Lattice.wpush_f. unfold_gen.
  eapply wgs_meq; [apply wgs_push|].
  - split; [cbn; lia|]. unfold PresetsPrepare.term_ok. cbn. repeat split; try reflexivity.
    apply range4; assumption.
  - apply meq_refl.
Qed.

(** SminusSplus(Label1, Label2, Value, orbital) = Value c^+_{1 down} c_{1 up} c^+_{2 up} c_{2 down} *)
Lemma leaf_smsp : forall l1 l2 v a,
  idx l1 a spin_up < M -> idx l1 a spin_down < M -> idx l2 a spin_up < M -> idx l2 a spin_down < M ->
  wgs (wpush_f (FSminusSplus4 l1 l2 v a)) (m_scale v (x_smsp l1 l2 a)).
Proof.
  intros l1 l2 v a H1 H2 H3 H4. unfold Lattice.wpush_f. unfold_gen.
  eapply wgs_meq; [apply wgs_push|].
  - split; [cbn; lia|]. unfold PresetsPrepare.term_ok. cbn. repeat split; try reflexivity.
    apply range4; assumption.
  - apply meq_refl.
Qed.

(** L->addTerm(Hopping(Label1, Label2, Value, o1, o2, s1, s2)): validated, zero-filtered;
    Value c^+_{1 o1 s1} c_{2 o2 s2} *)
Lemma leaf_hop : forall (m : site_map L) l1 l2 v o1 o2 s1 s2 sh1 sh2,
  find_site l1 m = Some sh1 -> find_site l2 m = Some sh2 ->
  o1 < fst sh1 -> s1 < snd sh1 -> o2 < fst sh2 -> s2 < snd sh2 ->
  idx l1 o1 s1 < M -> idx l2 o2 s2 < M ->
  wgs (wadd_f m (FHopping7 l1 l2 v o1 o2 s1 s2)) (m_scale v (x_hop (idx l1 o1 s1) (idx l2 o2 s2))).
Proof.
  intros m l1 l2 v o1 o2 s1 s2 [n1 p1] [n2 p2] F1 F2 A1 A2 A3 A4 H1 H2. cbn [fst snd] in *.
  unfold Lattice.wadd_f. unfold_gen. unfold Lattice.w_addTerm.
  cbn [t_order t_ops t_labels t_orbs t_spins t_val length Lattice.validate].
  rewrite F1.
  replace (n1 <=? o1) with false by (symmetry; apply Nat.leb_gt; exact A1).
  replace (p1 <=? s1) with false by (symmetry; apply Nat.leb_gt; exact A2).
  rewrite F2.
  replace (n2 <=? o2) with false by (symmetry; apply Nat.leb_gt; exact A3).
  replace (p2 <=? s2) with false by (symmetry; apply Nat.leb_gt; exact A4).
  cbn [vnz kvops].
  destruct (kzero v) eqn:Z; cbn [negb Lattice.wwhen].
  - apply (proj2 Hring) in Z. subst v. eapply wgs_meq; [apply wgs_ret|].
    intros s u _ _. unfold PresetsSpec.m_zero, PresetsSpec.m_scale. ring.
  - eapply wgs_meq; [apply wgs_push|].
    + split; [cbn; lia|]. unfold PresetsPrepare.term_ok. cbn. repeat split; try reflexivity.
      apply range2; assumption.
    + apply meq_refl.
Qed.

(** [if (std::abs(v)) push(v * A)] contributes v * A in either case *)
Lemma when_nz_scale : forall v A,
  meq (if vnz kvops v then m_scale v A else m_zero) (m_scale v A).
Proof.
  intros v A s u _ _. cbn [vnz kvops]. destruct (kzero v) eqn:Z; cbn [negb]; [|reflexivity].
  apply (proj2 Hring) in Z. subst v. unfold PresetsSpec.m_zero, PresetsSpec.m_scale. ring.
Qed.

End PL.
