(** DispatchShapes.v -- the vocabulary in which translator/gen_dispatch.py describes the CONTROL STRUCTURE of the job dispatcher
    (property C16): src/mpi_dispatcher/mpi_dispatcher.cpp (MPIWorker, MPIMaster) and mpi_skel<WrapType>::run of
    include/mpi_dispatcher/mpi_skel.hpp.

    The generated files coq/gen/Gen_Disp*.v say, in these terms, what the source text of the tree under test does: which message
    MPIMaster::order_worker sends to whom and which receive it posts, what the loop of MPIMaster::order pops, which workers
    MPIMaster::check_workers polls, under which condition it sends Finish and to whom, how the constructors fill the two stacks,
    what MPIWorker::receive_order does when its receive has completed, which calls one iteration of the dispatch loop of
    mpi_skel::run makes on which rank and in which order, where its barriers are, and what is broadcast afterwards.
    PV.DispatchGen interprets these descriptions (the [..._src] functions).  A constructor named [...Unrecognised] stands for
    source text the translator could split into statements but not understand; an [...EarlyExit] for an added
    `if (...) return / break / continue`: the interpreters answer [None] (no step) for them, which no theorem accepts.

    Hand-written, no definitions that compute anything. *)
Require Import List.

(** * Messages *)
(** enum WorkerTag { Pending, Work, Finish } used as MPI tag; MPI_ANY_TAG in a receive *)
Inductive d_tag : Set := TagPending | TagWork | TagFinish | TagAny | TagUnrecognised.

(** the other end of a send / receive *)
Inductive d_peer : Set :=
| PeerWorkerArg                 (* the parameter `worker` of MPIMaster::order_worker *)
| PeerPoolAt                    (* worker_pool[i], i the variable of the enclosing loop *)
| PeerBoss                      (* the member `boss` of MPIWorker *)
| PeerUnrecognised.

Inductive d_payload : Set :=
| PayJobArg                     (* the parameter `job` of MPIMaster::order_worker *)
| PayCurrentJob                 (* the member current_job_ of MPIWorker (receive buffer) *)
| PayNone                       (* no value: send(dest, tag) / irecv(source, tag) *)
| PayUnrecognised.

(** a test of the member Status of MPIWorker *)
Inductive d_status_cond : Set :=
| StatusIs (t : d_tag)          (* Status == pMPI::t *)
| StatusIsNot (t : d_tag)       (* Status != pMPI::t *)
| StatusCondUnrecognised.

(** * MPIMaster::order_worker(worker, job): the statements in order *)
Inductive ow_stmt : Set :=
| OwSend (to : d_peer) (t : d_tag) (p : d_payload)   (* Comm.send(to, int(pMPI::t), p); *)
| OwRecordDispatch                                    (* DispatchMap[job] = worker; *)
| OwPostCompletionRecv (from : d_peer) (t : d_tag)    (* wait_statuses[WorkerIndices[worker]] = Comm.irecv(from, int(pMPI::t)); *)
| OwEarlyExit.                                        (* if (...) return; *)

(** * MPIMaster::order: `while (COND) { BODY }` *)
Inductive ord_loop : Set :=
| OrdWhile                      (* while (COND) BODY *)
| OrdOnce                       (* if (COND) BODY: at most one pair per call *)
| OrdLoopUnrecognised.
Inductive ord_arg : Set :=
| ArgTopWorker                  (* WorkerStack.top() (directly or through a local bound to it, not popped in between) *)
| ArgTopJob                     (* JobStack.top() *)
| ArgUnrecognised.
Inductive ord_stmt : Set :=
| OrdOrderWorker (w j : ord_arg)                      (* order_worker(w, j); *)
| OrdPopWorker                                        (* WorkerStack.pop(); *)
| OrdPopJob                                           (* JobStack.pop(); *)
| OrdEarlyExit.                                       (* if (...) break / continue / return; *)

(** * MPIMaster::check_workers: the top-level statements in order *)
Inductive cw_stmt : Set :=
| CwPollLoop                    (* for (i over POSITIONS) if (TEST) { THEN } *)
| CwFinishBlock                 (* if (COND) { for (i over POSITIONS) if (GUARD) { THEN } } *)
| CwEarlyExit.                  (* if (...) return; *)
Inductive cw_loop : Set :=
| CwOverPositions               (* an index loop whose range is given as a list of positions of worker_pool *)
| CwLoopUnrecognised.           (* any other loop (e.g. over the stack of idle workers) *)
Inductive cw_test : Set :=
| CwTestCompletionAt            (* wait_statuses[i].test() *)
| CwTestUnrecognised.
Inductive cw_guard : Set :=
| CwNotYetFinishedAt            (* !workers_finish[i] *)
| CwGuardNone                   (* no `if` around the statements *)
| CwGuardUnrecognised.
Inductive cw_act : Set :=
| CwPushIdle (w : d_peer)                             (* WorkerStack.push(w); *)
| CwSend (to : d_peer) (t : d_tag) (p : d_payload)    (* Comm.send(to, int(pMPI::t)); *)
| CwMarkFinishedAt                                    (* workers_finish[i] = true; *)
| CwActEarlyExit.                                     (* if (...) break / continue / return; *)

(** * _autorange_workers / MPIMaster::fill_stack_ / the constructors *)
Inductive ar_item : Set :=
| ArLoopVariable                (* out.push_back(p), p the loop variable *)
| ArItemUnrecognised.
Inductive fs_source : Set :=
| FsTaskNumbersAt               (* task_numbers[i] *)
| FsWorkerPoolAt                (* worker_pool[p] *)
| FsSourceUnrecognised.
Inductive fs_stmt : Set :=
| FsPushJob (x : fs_source)                           (* JobStack.push(x); *)
| FsPushWorker (x : fs_source)                        (* WorkerStack.push(x); *)
| FsRecordIndex                                       (* WorkerIndices[worker_pool[p]] = p; *)
| FsEarlyExit.
(** the data members of MPIMaster *)
Inductive m_member : Set :=
| MComm | MNtasks | MNprocs | MJobStack | MWorkerStack | MDispatchMap | MTaskNumbers | MWorkerPool | MWorkerIndices
| MWaitStatuses | MWorkersFinish | MMemberUnrecognised.
(** a member initialiser of MPIMaster(comm, worker_pool, task_numbers) *)
Inductive ctor_init : Set :=
| InitComm                      (* Comm(comm) *)
| InitNtasksFromTasks           (* Ntasks(task_numbers.size()) *)
| InitNprocsFromPool            (* Nprocs(worker_pool.size()) *)
| InitTaskNumbers               (* task_numbers(task_numbers) *)
| InitWorkerPool                (* worker_pool(worker_pool) *)
| InitWaitStatusesNull          (* wait_statuses(Nprocs): Nprocs null requests *)
| InitWorkersFinishFalse        (* workers_finish(Nprocs, false) *)
| InitUnrecognised.
Inductive ctor_pool : Set :=
| PoolAutorange                 (* _autorange_workers(comm, include_boss) *)
| PoolArgument                  (* the constructor's own worker_pool parameter *)
| PoolUnrecognised.             (* anything else, e.g. a local vector that is modified before use *)
Inductive ctor_tasks : Set :=
| TasksArgument                 (* the constructor's own task_numbers parameter *)
| TasksAutorange                (* _autorange_tasks(ntasks) *)
| TasksUnrecognised.
Inductive ctor_stmt : Set :=
| CtFillStack                                         (* fill_stack_(); *)
| CtBuild (p : ctor_pool) (t : ctor_tasks)            (* MPIMaster x(comm, p, t); *)
| CtSwap                                              (* this->swap(x); *)
| CtEarlyExit.

(** * MPIMaster::is_finished *)
Inductive mf_count : Set :=
| MfSumOfWorkersFinish          (* the number of true entries of workers_finish: std::accumulate(begin, end, 0 [, std::plus<int>()]) or std::count(begin, end, true) *)
| MfCountUnrecognised.

(** * MPIWorker::receive_order *)
Inductive ro_stmt : Set :=
| RoReturnIf (c : d_status_cond)                      (* if (c) return; *)
| RoTestThen                                          (* st = req.test(); if (st) { COMPLETED } *)
| RoEarlyExit.                                        (* any other if (...) return; *)
Inductive ro_act : Set :=
| RaStatusFromTag                                     (* Status = WorkerTag(st.tag()); *)
| RaRepost (from : d_peer) (t : d_tag) (p : d_payload)   (* req = Comm.irecv(from, t, p); *)
| RaCancelIfFinished                                  (* if (is_finished()) req.cancel(); *)
| RaCancelAlways                                      (* req.cancel(); *)
| RaEarlyExit.

(** * MPIWorker::report_job_done *)
Inductive rd_stmt : Set :=
| RdSend (to : d_peer) (t : d_tag) (p : d_payload)    (* Comm.send(to, int(pMPI::t)); *)
| RdSetStatus (t : d_tag)                             (* Status = pMPI::t; *)
| RdEarlyExit.

(** * mpi_skel<WrapType>::run *)
Inductive sk_comm : Set :=
| BarComm                       (* comm.barrier() / MPI_Barrier(comm) *)
| BarWorld                      (* MPI_Barrier(MPI_COMM_WORLD) *)
| BarUnrecognised.
Inductive sk_stmt : Set :=
| SkBarrier (c : sk_comm)
| SkBuildMasterOnRoot           (* if (comm.rank() == ROOT) { job_order ...; disp.reset(new MPIMaster(...)); } *)
| SkDispatchLoop                (* for (MPIWorker worker(comm, BOSS); COND;) { BODY } *)
| SkGuardedDispatchLoop         (* the same under an `if (...)` *)
| SkMapExchange                 (* job_map; if (rank == ROOT) { ROOT BRANCH } else { OTHER BRANCH } *)
| SkReturnMap                   (* return job_map; *)
| SkEarlyExit.                  (* if (...) return; *)
(** the rank a quantity refers to *)
Inductive sk_rank : Set := RkRoot (* the constant ROOT *) | RkUnrecognised.
(** which constructor of MPIMaster is called with what *)
Inductive sk_master : Set :=
| SmTaskList (include_boss : bool)    (* new MPIMaster(comm, job_order, include_boss) *)
| SmMasterUnrecognised.
Inductive sk_loop_cond : Set :=
| LcUntilWorkerFinished         (* !worker.is_finished() *)
| LcCondUnrecognised.
(** on which ranks a statement of the loop body is executed *)
Inductive sk_guard : Set :=
| GdAlways
| GdRoot                        (* if (rank == ROOT) *)
| GdUnrecognised.
Inductive sk_call : Set :=
| CallOrder                     (* disp->order(); *)
| CallCheckWorkers              (* disp->check_workers(); *)
| CallReceiveOrder              (* worker.receive_order(); *)
| CallRunCurrentJob             (* p = worker.current_job(); parts[p].run(); *)
| CallReportDone                (* worker.report_job_done(); *)
| CallUnrecognised.
Inductive sk_loop_stmt : Set :=
| LbCall (g : sk_guard) (c : sk_call)
| LbIfWorking (cs : list sk_call)                     (* if (worker.is_working()) { cs } *)
| LbEarlyExit.                                        (* if (...) break / continue / return; *)
(** how a vector that is broadcast is filled on the root *)
Inductive sk_vec_fill : Set :=
| VfKeysInMapOrder              (* v[i] = it->first, it running over job_map from begin() *)
| VfValuesInMapOrder            (* v[i] = it->second *)
| VfTaskNumbers                 (* copy of disp->task_numbers (the order the jobs were handed out in) *)
| VfUnrecognised.
Inductive sk_vec : Set := VecJobs | VecWorkers.
Inductive sk_map_source : Set :=
| MapFromDispatchMap            (* job_map = disp->DispatchMap; *)
| MapSourceUnrecognised.
Inductive sk_map_stmt : Set :=
| MsCopyMap (m : sk_map_source)
| MsFill (v : sk_vec) (f : sk_vec_fill)
| MsBcast (v : sk_vec) (root : sk_rank)               (* boost::mpi::broadcast(comm, v, root); *)
| MsRebuildPairwise                                   (* for (i < jobs.size()) job_map[jobs[i]] = workers[i]; *)
| MsEarlyExit.
