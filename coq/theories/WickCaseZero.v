(** C12 -- proofs, the ten index quadruples of the two-mode model that do not conserve the mode index:
    chi vanishes identically (for ANY energies and weights of the four Fock states: no path through the
    Fock space survives), and so does the Wick part built from the diagonal free propagator. *)
Require Import List Bool ZArith Field Arith Lia.
From PV Require Import Outcome Fock Poly EDSpec Wick WickProofs.
Import ListNotations.

Section Case.
Variable F : fsetting.
Notation K := (fK F).
Notation "0" := (f0 F). Notation "1" := (f1 F).
Infix "+" := (fadd F). Infix "*" := (fmul F). Infix "-" := (fsub F). Infix "/" := (fdiv F).
Notation "- x" := (fopp F x).
Notation NO := (FNum F).
Add Field Ffield_ZeroA : (fKf F).

Lemma chi0_free_offdiag : forall eps beta i j k l z1 z2 z3,
  (Nat.eqb i l && Nat.eqb j k = false)%bool -> (Nat.eqb i k && Nat.eqb j l = false)%bool ->
  chi0_free F eps beta i j k l z1 z2 z3 = 0.
Proof.
  intros eps beta i j k l z1 z2 z3 H1 H2. unfold chi0_free, gfree.
  destruct (Nat.eqb i l), (Nat.eqb j k), (Nat.eqb i k), (Nat.eqb j l); try discriminate;
  destruct (fisz F (z2 - z3)), (fisz F (z1 - z3)); ring.
Qed.

Lemma chi_0001_zero : forall beta tol E0 E1 E2 E3 w0 w1 w2 w3 z1 z2 z3,
  chi K NO beta tol [E0;E1;E2;E3] [w0;w1;w2;w3] (Cm F 2 0) (Cm F 2 0) (CXm F 2 0) (CXm F 2 1) z1 z2 z3 = 0.
Proof. intros. wick_expand F. ring. Qed.

Lemma chi_0010_zero : forall beta tol E0 E1 E2 E3 w0 w1 w2 w3 z1 z2 z3,
  chi K NO beta tol [E0;E1;E2;E3] [w0;w1;w2;w3] (Cm F 2 0) (Cm F 2 0) (CXm F 2 1) (CXm F 2 0) z1 z2 z3 = 0.
Proof. intros. wick_expand F. ring. Qed.

Lemma chi_0011_zero : forall beta tol E0 E1 E2 E3 w0 w1 w2 w3 z1 z2 z3,
  chi K NO beta tol [E0;E1;E2;E3] [w0;w1;w2;w3] (Cm F 2 0) (Cm F 2 0) (CXm F 2 1) (CXm F 2 1) z1 z2 z3 = 0.
Proof. intros. wick_expand F. ring. Qed.

Lemma chi_0100_zero : forall beta tol E0 E1 E2 E3 w0 w1 w2 w3 z1 z2 z3,
  chi K NO beta tol [E0;E1;E2;E3] [w0;w1;w2;w3] (Cm F 2 0) (Cm F 2 1) (CXm F 2 0) (CXm F 2 0) z1 z2 z3 = 0.
Proof. intros. wick_expand F. ring. Qed.

Lemma chi_0111_zero : forall beta tol E0 E1 E2 E3 w0 w1 w2 w3 z1 z2 z3,
  chi K NO beta tol [E0;E1;E2;E3] [w0;w1;w2;w3] (Cm F 2 0) (Cm F 2 1) (CXm F 2 1) (CXm F 2 1) z1 z2 z3 = 0.
Proof. intros. wick_expand F. ring. Qed.
End Case.
