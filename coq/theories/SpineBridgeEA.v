(** Stage 3 of the spine, MODEL: the pipeline for one ensemble average <c^+_i c_j> = Tr(rho c^+_i c_j), composed from the
    models of the layers.  DEFINITIONS ONLY (executable); theorems in SpineBridgeEAProofs.v.

      DensityMatrix::prepare/compute        PV.Thermal.dm_compute (PV.Spine.spine_dm)                         (C09)
      QuadraticOperator::prepare/compute    PV.HPart.fo_prepare + fop_dense for every block pair (PV.Spine.op_compute), stored as
                                            row-major sparse matrices keeping what HPart.prune keeps          (C07 / C10)
      EnsembleAverage::prepare / compute    PV.Thermal.ea_prepare over the parts in the order of LeftRightBlocks.left (C09) *)
Require Import Bool List Arith.
From PV Require Import Outcome Fock Poly EDSpec HPart HPartSpec Spine.
From PV Require Symm Thermal.
Import ListNotations.

Section PipelineEA.
Variable K : Type.
Variable NO : numops K.
Variable fb : bool.
Variable eps : K.
Variables reference prec : K.

(** the FieldOperator as EnsembleAverage sees it: its parts in ascending left index; coefficients of the pruned sparse
    matrix (0 where nothing is stored) *)
Definition ea_part (qparts : list ((nat * nat) * mat K)) (lr : nat * nat) : Thermal.oppart K :=
  Thermal.mk_oppart K (fst lr) (snd lr)
    (match part_from_left K qparts (fst lr) with
     | Some (_, Dm) => prune K NO reference prec Dm
     | None => []
     end).
Definition ea_parts (qparts : list ((nat * nat) * mat K)) : Thermal.fieldop K :=
  map (ea_part qparts) (Symm.left_view (fo_bimap (map fst qparts))).

(** the whole chain for <c^+_i c_j> *)
Definition spine_ea (S : classification) (ED : eigdata K) (beta : K) (i j : nat) : outcome K :=
  bind (spine_dm K NO beta S ED) (fun D =>
  bind (op_compute K NO fb eps S ED (FQuad i j)) (fun qparts =>
    Thermal.ea_prepare K (n0 K NO) (nadd K NO) (nmul K NO) (ea_parts qparts) D)).

End PipelineEA.
