(** PresetsProofs.v -- C04, layer 4: every LatticePresets function adds exactly the operator written in its
    documentation (PresetsSpec), the result is Hermitian, Kanamori with U' = U - 2J and the spin-spin exchange
    commute with the total-spin raising and lowering operators.

    For each preset addX (model: PV.Lattice, loops of src/pomerol/LatticePresets.cpp; factories: translator
    output) the theorem [addX_denotes] says: on a lattice on which the preset is defined, the call finishes
    normally, and IndexHamiltonian::prepare (repaired loop, PV.IndexHam) applied to the lattice holding the
    pushed terms yields a polynomial whose matrix on the M-mode Fock space is the documented operator -- for
    ALL orbital / spin counts the preset accepts and all parameter values including 0. *)
Require Import Bool List Arith Lia Ring Ring_theory.
From PV Require Import Lattice.
From PV Require Import Outcome Fock Poly PolySem CAR AlgebraBasics AlgebraProofs NormalizeProofs.
From PV Require Import PresetsSpec IndexHam PresetsBasics PresetsPrepare PresetsLeaves.
From PVgen Require Import Gen_LatticePresets.
Import ListNotations.

Section PF.
Variable K : Type.
Variables (k0 k1 : K) (kadd kmul ksub : K -> K -> K) (kopp : K -> K).
Variable kzero : K -> bool.
Hypothesis Hring : ring_ok K k0 k1 kadd kmul ksub kopp kzero.
Let Rth : ring_theory k0 k1 kadd kmul ksub kopp (@eq K) := proj1 Hring.
Add Ring Kring_PF : Rth.
Variable khalf : K.
Hypothesis Hhalf : kadd khalf khalf = k1.
Variable kconj : K -> K.
Variable M : nat.
Variable L : Type.
Variable leqb : L -> L -> bool.
Hypothesis leqb_spec : forall a b, leqb a b = true <-> a = b.
Variable idx : L -> nat -> nat -> nat.

Notation term := (Lattice.term L K).
Notation W := (Lattice.W L K).
Local Notation vo := (kvops K kadd kmul ksub kopp kzero khalf kconj).
Local Notation cm := (coef_mono K k0 k1 kopp).
Local Notation cp := (coef_poly K k0 k1 kadd kmul kopp).
Local Notation ksum := (@PolySem.ksum K k0 kadd _).
Local Notation mat := (PresetsSpec.mat K).
Local Notation m_zero := (PresetsSpec.m_zero K k0).
Local Notation m_add := (PresetsSpec.m_add K kadd).
Local Notation m_sub := (PresetsSpec.m_sub K ksub).
Local Notation m_scale := (PresetsSpec.m_scale K kmul).
Local Notation m_mul := (PresetsSpec.m_mul K k0 kadd kmul M).
Local Notation m_sum := (@PresetsSpec.m_sum K k0 kadd _).
Local Notation m_sum_if := (@PresetsSpec.m_sum_if K k0 kadd _).
Local Notation m_diag := (PresetsSpec.m_diag K k0).
Local Notation meq := (PresetsSpec.meq K M).
Local Notation m_n := (PresetsSpec.m_n K k0 k1).
Local Notation m_nn := (PresetsSpec.m_nn K k0 k1 kmul).
Local Notation occ := (PresetsSpec.occ K k0 k1).
Local Notation rng := PresetsSpec.rng.
Local Notation x_quartic := (PresetsSpec.x_quartic K k0 k1 kopp).
Local Notation x_hop := (PresetsSpec.x_hop K k0 k1 kopp).
Local Notation wgs := (PresetsLeaves.wgs K k0 k1 kadd kmul kopp M L idx).
Local Notation prepare := (IndexHam.prepare L K k1 kadd kmul kopp kzero idx).
Local Notation lattice_of := (PresetsPrepare.lattice_of K L).
Local Notation find_site := (Lattice.find_site L leqb).
Local Notation spec_level := (PresetsSpec.spec_level K k0 k1 kadd kmul L idx).
Local Notation spec_coulombS := (PresetsSpec.spec_coulombS K k0 k1 kadd kmul L idx).

Let ks_ext := AlgebraBasics.ksum_ext K k0 kadd.
Let ks_add := AlgebraBasics.ksum_add K k0 k1 kadd kmul ksub kopp kzero Hring.
Let ks_swap := AlgebraBasics.ksum_swap K k0 k1 kadd kmul ksub kopp kzero Hring.
Let ks_zero := AlgebraBasics.ksum_zero K k0 k1 kadd kmul ksub kopp kzero Hring.
Let ks_scale_l := AlgebraBasics.ksum_scale_l K k0 k1 kadd kmul ksub kopp kzero Hring.

(** every mode of the site is a mode of the Fock space *)
Definition site_ok (l : L) (norb nspin : nat) : Prop := forall a z, a < norb -> z < nspin -> idx l a z < M.

(** what a preset call delivers: it returns normally and prepare turns its terms into the matrix A *)
Definition denotes (m : site_map L) (w : W) (A : mat) : Prop :=
  snd w = Done tt /\
  exists h, prepare true (lattice_of m (fst w)) = Done h /\ meq (cp h) A.

Lemma denotes_of_wgs : forall m w A, wgs w A -> denotes m w A.
Proof.
  intros m w A H. split; [exact (proj1 H)|].
  eapply wgs_denotes; [exact Hring|exact H].
Qed.

Ltac wstep := cbv beta;
  first [ eapply wgs_seq | eapply wgs_for | eapply wgs_when | eapply wgs_ret ];
  try exact Hring; try (intros ? ?); try (intros ?); cbv beta.

(** * addLevel *)
Theorem addLevel_denotes : forall m l norb nspin eps,
  find_site l m = Some (norb, nspin) -> site_ok l norb nspin ->
  denotes m (Lattice.addLevel L leqb K vo m l eps) (spec_level l norb nspin eps).
Proof.
  intros m l norb nspin eps F S. apply denotes_of_wgs. unfold Lattice.addLevel. rewrite F.
  eapply wgs_meq.
  - wstep. wstep. wstep. eapply leaf_level; [exact Hring|]. apply S; assumption.
  - unfold PresetsSpec.spec_level. apply meq_sum. intros a _. apply meq_sum. intros z _.
    eapply when_nz_scale. exact Hring.
Qed.

Local Notation m_when := (PresetsBasics.m_when K k0).

Lemma when_nz : forall v A, meq (if vnz vo v then m_scale v A else m_zero) (m_scale v A).
Proof. intros v A. eapply when_nz_scale. exact Hring. Qed.

Lemma m_sum2_add : forall (l1 l2 : list nat) (f g : nat -> nat -> mat),
  meq (m_sum l1 (fun a => m_sum l2 (fun b => m_add (f a b) (g a b))))
      (m_add (m_sum l1 (fun a => m_sum l2 (fun b => f a b))) (m_sum l1 (fun a => m_sum l2 (fun b => g a b)))).
Proof.
  intros l1 l2 f g. eapply meq_trans; [|eapply m_sum_add; exact Hring].
  apply meq_sum. intros a _. eapply m_sum_add. exact Hring.
Qed.

Lemma in_rng : forall n j, In j (rng n) -> j < n.
Proof. intros n j H. apply in_seq in H. lia. Qed.

(** * addCoulombS *)
Theorem addCoulombS_denotes : forall m l norb nspin U eps,
  find_site l m = Some (norb, nspin) -> site_ok l norb nspin ->
  denotes m (Lattice.addCoulombS L leqb K vo m l U eps) (spec_coulombS l norb nspin U eps).
Proof.
  intros m l norb nspin U eps F S. apply denotes_of_wgs. unfold Lattice.addCoulombS. rewrite F.
  eapply wgs_meq.
  - wstep. wstep. wstep.
    + wstep. eapply leaf_level; [exact Hring|]. apply S; assumption.
    + wstep. wstep. eapply leaf_nn6; [exact Hring| |]; apply S; lia.
  - unfold PresetsSpec.spec_coulombS, PresetsSpec.spec_level.
    eapply meq_trans; [|apply m_sum2_add].
    apply meq_sum. intros a _. apply meq_sum. intros z Hz. apply in_rng in Hz.
    eapply meq_trans; [eapply m_add_comm; exact Hring|]. apply meq_add; [|apply when_nz].
    eapply meq_trans; [|eapply m_sum_lt; [exact Hring|apply Nat.lt_le_incl; exact Hz]].
    apply meq_sum. intros z' _. apply when_nz.
Qed.

Local Notation m_sz := (PresetsSpec.m_sz K k0 k1 kmul ksub khalf L idx).
Local Notation spec_magnetization := (PresetsSpec.spec_magnetization K k0 k1 kadd kmul ksub khalf L idx).
Local Notation sz_val := (PresetsSpec.sz_val K k0 k1 kmul ksub khalf L idx).
Local Notation x_szsz := (PresetsSpec.x_szsz K k0 k1 kmul ksub khalf L idx).
Local Notation x_spsm := (PresetsSpec.x_spsm K k0 k1 kopp L idx).
Local Notation x_smsp := (PresetsSpec.x_smsp K k0 k1 kopp L idx).
Local Notation xspec_szsz := (PresetsSpec.xspec_szsz K k0 k1 kadd kmul ksub khalf L idx).
Local Notation xspec_ss := (PresetsSpec.xspec_ss K k0 k1 kadd kmul ksub kopp khalf L idx).
Local Notation spec_szsz := (PresetsSpec.spec_szsz K k0 k1 kadd kmul ksub khalf M L idx).
Local Notation spec_ss := (PresetsSpec.spec_ss K k0 k1 kadd kmul ksub kopp khalf M L idx).
Local Notation xspec_hopping8 := (PresetsSpec.xspec_hopping8 K k0 k1 kadd kmul kopp kconj L idx).
Local Notation xspec_hopping6 := (PresetsSpec.xspec_hopping6 K k0 k1 kadd kmul kopp kconj L idx).
Local Notation xspec_hopping4 := (PresetsSpec.xspec_hopping4 K k0 k1 kadd kmul kopp kconj L idx).
Local Notation spec_hopping8 := (PresetsSpec.spec_hopping8 K k0 k1 kadd kmul kopp kconj M L idx).
Local Notation spec_hopping7 := (PresetsSpec.spec_hopping7 K k0 k1 kadd kmul kopp kconj M L idx).
Local Notation spec_hopping6 := (PresetsSpec.spec_hopping6 K k0 k1 kadd kmul kopp kconj M L idx).
Local Notation spec_hopping4 := (PresetsSpec.spec_hopping4 K k0 k1 kadd kmul kopp kconj M L idx).
Local Notation m_hop := (PresetsSpec.m_hop K k0 k1 kadd kmul kopp M).
Local Notation m_splus := (PresetsSpec.m_splus K k0 k1 kadd kmul kopp M L idx).
Local Notation m_sminus := (PresetsSpec.m_sminus K k0 k1 kadd kmul kopp M L idx).
Local Notation m_cdag := (PresetsSpec.m_cdag K k0 k1 kopp).
Local Notation m_c := (PresetsSpec.m_c K k0 k1 kopp).

Lemma dbl_half : forall x, kmul (kadd x x) khalf = x.
Proof. intros x. transitivity (kmul x (kadd khalf khalf)); [ring|]. rewrite Hhalf. ring. Qed.
Lemma half_half_4 : forall x, kadd (kadd x x) (kadd x x) = x -> True.
Proof. trivial. Qed.

(** * addMagnetization: the code adds mH (n_up - n_down), i.e. TWICE the documented mH 1/2 (n_up - n_down) *)
Lemma addMagnetization_wgs : forall m l norb mH,
  find_site l m = Some (norb, 2) -> site_ok l norb 2 ->
  wgs (Lattice.addMagnetization L leqb K vo m l mH)
      (m_sum (rng norb) (fun a => m_add (m_scale mH (m_n (idx l a spin_up)))
                                        (m_scale (kopp mH) (m_n (idx l a spin_down))))).
Proof.
  intros m l norb mH F S. unfold Lattice.addMagnetization. rewrite F. cbn [Nat.eqb negb].
  wstep. wstep; (eapply leaf_level; [exact Hring|]; apply S; [assumption|unfold spin_up, spin_down; lia]).
Qed.

Theorem addMagnetization_denotes_twice_documented : forall m l norb mH,
  find_site l m = Some (norb, 2) -> site_ok l norb 2 ->
  denotes m (Lattice.addMagnetization L leqb K vo m l mH) (spec_magnetization l norb (kadd mH mH)).
Proof.
  intros m l norb mH F S. apply denotes_of_wgs.
  eapply wgs_meq; [eapply addMagnetization_wgs; eassumption|].
  unfold PresetsSpec.spec_magnetization. apply meq_sum. intros a _.
  intros s u _ _. unfold PresetsSpec.m_sz, PresetsSpec.m_add, PresetsSpec.m_scale, PresetsSpec.m_sub, PresetsSpec.up, PresetsSpec.down.
  set (x := m_n (idx l a spin_up) s u). set (y := m_n (idx l a spin_down) s u).
  transitivity (kmul (kmul (kadd mH mH) khalf) (ksub x y)); [rewrite dbl_half|]; ring.
Qed.

Lemma spin_up_lt2 : spin_up < 2. Proof. unfold spin_up. lia. Qed.
Lemma spin_down_lt2 : spin_down < 2. Proof. unfold spin_down. lia. Qed.

Lemma leqb_true_eq : forall a b, leqb a b = true -> a = b.
Proof. intros a b H. apply leqb_spec. exact H. Qed.

(** * addSzSz (two sites of the same shape with two spins, or one site twice) *)
Lemma addSzSz_wgs : forall cfg m l1 l2 norb J,
  find_site l1 m = Some (norb, 2) -> find_site l2 m = Some (norb, 2) ->
  site_ok l1 norb 2 -> site_ok l2 norb 2 ->
  wgs (Lattice.addSzSz L leqb K vo cfg m l1 l2 J) (xspec_szsz l1 l2 norb J).
Proof.
  intros cfg m l1 l2 norb J F1 F2 S1 S2. unfold Lattice.addSzSz. rewrite F1, F2. cbn [fst snd].
  replace (Lattice.cmp_spins cfg (norb, 2) (norb, 2)) with 2
    by (unfold Lattice.cmp_spins; destruct (fix_shapecheck cfg); reflexivity).
  rewrite Nat.eqb_refl. cbn [Nat.eqb negb orb].
  pose proof spin_up_lt2 as Hu. pose proof spin_down_lt2 as Hd.
  destruct (leqb l1 l2) eqn:El; cbn [negb].
  - (* the same site *)
    apply leqb_true_eq in El. subst l2.
    eapply wgs_meq.
    + wstep. wstep; [|wstep; [|wstep]].
      * eapply leaf_nn7; [exact Hring| | |intros _; reflexivity]; apply S1; assumption.
      * eapply leaf_nn7; [exact Hring| | |intros _; reflexivity]; apply S1; assumption.
      * eapply leaf_level; [exact Hring|]; apply S1; assumption.
      * eapply leaf_level; [exact Hring|]; apply S1; assumption.
    + unfold PresetsSpec.xspec_szsz. apply meq_sum. intros a _. intros s u _ _.
      unfold PresetsSpec.x_szsz, PresetsSpec.sz_val, PresetsSpec.m_add, PresetsSpec.m_scale, PresetsSpec.m_nn,
        PresetsSpec.m_n, PresetsSpec.m_diag, PresetsSpec.up, PresetsSpec.down, PresetsSpec.occ.
      cbn [vquart vneg kvops].
      destruct (state_eqb s u); [|ring].
      destruct (nth (idx l1 a spin_up) s false), (nth (idx l1 a spin_down) s false); ring.
  - (* two different sites *)
    eapply wgs_meq.
    + wstep. wstep; [|wstep; [|wstep]];
        (eapply leaf_nn7; [exact Hring| | |apply leqb_true_eq]; [apply S1|apply S2]; assumption).
    + unfold PresetsSpec.xspec_szsz. apply meq_sum. intros a _. intros s u _ _.
      unfold PresetsSpec.x_szsz, PresetsSpec.sz_val, PresetsSpec.m_add, PresetsSpec.m_scale, PresetsSpec.m_nn,
        PresetsSpec.m_diag, PresetsSpec.up, PresetsSpec.down.
      cbn [vquart vneg kvops].
      destruct (state_eqb s u); ring.
Qed.

(** the executable form of the SzSz specification is the documented product of two S_z operators *)
Lemma m_sz_diag : forall l a, meq (m_sz l a) (m_diag (sz_val l a)).
Proof.
  intros l a. unfold PresetsSpec.m_sz, PresetsSpec.sz_val, PresetsSpec.m_n.
  eapply meq_trans; [apply meq_scale; eapply m_diag_sub; exact Hring|].
  eapply m_diag_scale. exact Hring.
Qed.

Lemma szsz_product : forall l1 l2 a, meq (m_mul (m_sz l1 a) (m_sz l2 a)) (x_szsz l1 l2 a).
Proof.
  intros l1 l2 a. eapply meq_trans; [apply meq_mul; apply m_sz_diag|].
  unfold PresetsSpec.x_szsz. eapply m_mul_diag_diag. exact Hring.
Qed.

Theorem xspec_szsz_ok : forall l1 l2 norb J, meq (spec_szsz l1 l2 norb J) (xspec_szsz l1 l2 norb J).
Proof.
  intros l1 l2 norb J. unfold PresetsSpec.spec_szsz, PresetsSpec.xspec_szsz.
  apply meq_sum. intros a _. apply meq_scale. apply szsz_product.
Qed.

Theorem addSzSz_denotes : forall cfg m l1 l2 norb J,
  find_site l1 m = Some (norb, 2) -> find_site l2 m = Some (norb, 2) ->
  site_ok l1 norb 2 -> site_ok l2 norb 2 ->
  denotes m (Lattice.addSzSz L leqb K vo cfg m l1 l2 J) (spec_szsz l1 l2 norb J).
Proof.
  intros cfg m l1 l2 norb J F1 F2 S1 S2. apply denotes_of_wgs.
  eapply wgs_meq; [apply addSzSz_wgs; eassumption|]. apply meq_sym, xspec_szsz_ok.
Qed.

(** * addSS *)
Lemma addSS_wgs : forall cfg m l1 l2 norb J,
  find_site l1 m = Some (norb, 2) -> find_site l2 m = Some (norb, 2) ->
  site_ok l1 norb 2 -> site_ok l2 norb 2 ->
  wgs (Lattice.addSS L leqb K vo cfg m l1 l2 J) (xspec_ss l1 l2 norb J).
Proof.
  intros cfg m l1 l2 norb J F1 F2 S1 S2. unfold Lattice.addSS. rewrite F1, F2. cbn [fst snd].
  replace (Lattice.cmp_spins cfg (norb, 2) (norb, 2)) with 2
    by (unfold Lattice.cmp_spins; destruct (fix_shapecheck cfg); reflexivity).
  rewrite Nat.eqb_refl. cbn [Nat.eqb negb orb].
  pose proof spin_up_lt2 as Hu. pose proof spin_down_lt2 as Hd.
  eapply wgs_meq.
  - wstep; [apply addSzSz_wgs; eassumption|]. wstep. wstep.
    + eapply leaf_spsm; [exact Hring| | | |]; first [apply S1|apply S2]; assumption.
    + eapply leaf_smsp; [exact Hring| | | |]; first [apply S1|apply S2]; assumption.
  - unfold PresetsSpec.xspec_ss, PresetsSpec.xspec_szsz.
    eapply meq_trans; [apply meq_sym; eapply m_sum_add; exact Hring|].
    apply meq_sum. intros a _. intros s u _ _.
    unfold PresetsSpec.m_add, PresetsSpec.m_scale. cbn [vhalf kvops]. ring.
Qed.

Lemma splus_sminus_product : forall l1 l2 a, meq (m_mul (m_splus l1 a) (m_sminus l2 a)) (x_spsm l1 l2 a).
Proof.
  intros l1 l2 a. unfold PresetsSpec.m_splus, PresetsSpec.m_sminus, PresetsSpec.m_cdag, PresetsSpec.m_c, PresetsSpec.m_op.
  eapply meq_trans; [apply meq_mul; eapply m_mul_mono; exact Hring|].
  eapply meq_trans; [eapply m_mul_mono; exact Hring|]. apply meq_refl.
Qed.
Lemma sminus_splus_product : forall l1 l2 a, meq (m_mul (m_sminus l1 a) (m_splus l2 a)) (x_smsp l1 l2 a).
Proof.
  intros l1 l2 a. unfold PresetsSpec.m_splus, PresetsSpec.m_sminus, PresetsSpec.m_cdag, PresetsSpec.m_c, PresetsSpec.m_op.
  eapply meq_trans; [apply meq_mul; eapply m_mul_mono; exact Hring|].
  eapply meq_trans; [eapply m_mul_mono; exact Hring|]. apply meq_refl.
Qed.

Theorem xspec_ss_ok : forall l1 l2 norb J, meq (spec_ss l1 l2 norb J) (xspec_ss l1 l2 norb J).
Proof.
  intros l1 l2 norb J. unfold PresetsSpec.spec_ss, PresetsSpec.xspec_ss.
  apply meq_sum. intros a _. apply meq_scale. apply meq_add; [apply szsz_product|].
  apply meq_scale. apply meq_add; [apply splus_sminus_product|apply sminus_splus_product].
Qed.

Theorem addSS_denotes : forall cfg m l1 l2 norb J,
  find_site l1 m = Some (norb, 2) -> find_site l2 m = Some (norb, 2) ->
  site_ok l1 norb 2 -> site_ok l2 norb 2 ->
  denotes m (Lattice.addSS L leqb K vo cfg m l1 l2 J) (spec_ss l1 l2 norb J).
Proof.
  intros cfg m l1 l2 norb J F1 F2 S1 S2. apply denotes_of_wgs.
  eapply wgs_meq; [apply addSS_wgs; eassumption|]. apply meq_sym, xspec_ss_ok.
Qed.

(** * addHopping (with its Hermitian conjugate) *)
Lemma addHopping8_wgs : forall m l1 l2 t o1 o2 s1 s2 n1 p1 n2 p2,
  find_site l1 m = Some (n1, p1) -> find_site l2 m = Some (n2, p2) ->
  o1 < n1 -> s1 < p1 -> o2 < n2 -> s2 < p2 -> site_ok l1 n1 p1 -> site_ok l2 n2 p2 ->
  wgs (Lattice.addHopping8 L leqb K vo m l1 l2 t o1 o2 s1 s2) (xspec_hopping8 l1 l2 t o1 o2 s1 s2).
Proof.
  intros m l1 l2 t o1 o2 s1 s2 n1 p1 n2 p2 F1 F2 A1 A2 A3 A4 S1 S2.
  unfold Lattice.addHopping8. rewrite F1, F2. cbn [fst snd].
  replace (n1 <=? o1) with false by (symmetry; apply Nat.leb_gt; exact A1).
  replace (n2 <=? o2) with false by (symmetry; apply Nat.leb_gt; exact A3).
  replace (p1 <=? s1) with false by (symmetry; apply Nat.leb_gt; exact A2).
  replace (p2 <=? s2) with false by (symmetry; apply Nat.leb_gt; exact A4).
  cbn [orb]. unfold PresetsSpec.xspec_hopping8.
  wstep.
  - eapply (leaf_hop K k0 k1 kadd kmul ksub kopp kzero Hring khalf kconj M L leqb idx m l1 l2 t o1 o2 s1 s2 (n1, p1) (n2, p2));
      try assumption; [apply S1|apply S2]; assumption.
  - eapply (leaf_hop K k0 k1 kadd kmul ksub kopp kzero Hring khalf kconj M L leqb idx m l2 l1 (kconj t) o2 o1 s2 s1 (n2, p2) (n1, p1));
      try assumption; [apply S2|apply S1]; assumption.
Qed.

Lemma hop_product : forall i j, meq (m_hop i j) (x_hop i j).
Proof.
  intros i j. unfold PresetsSpec.m_hop, PresetsSpec.m_cdag, PresetsSpec.m_c, PresetsSpec.m_op.
  eapply meq_trans; [eapply m_mul_mono; exact Hring|]. apply meq_refl.
Qed.

Theorem xspec_hopping8_ok : forall l1 l2 t o1 o2 s1 s2,
  meq (spec_hopping8 l1 l2 t o1 o2 s1 s2) (xspec_hopping8 l1 l2 t o1 o2 s1 s2).
Proof.
  intros. unfold PresetsSpec.spec_hopping8, PresetsSpec.xspec_hopping8.
  apply meq_add; apply meq_scale; apply hop_product.
Qed.
Theorem xspec_hopping6_ok : forall l1 l2 p t o1 o2,
  meq (spec_hopping6 l1 l2 p t o1 o2) (xspec_hopping6 l1 l2 p t o1 o2).
Proof.
  intros. unfold PresetsSpec.spec_hopping6, PresetsSpec.xspec_hopping6.
  apply meq_sum. intros z _. apply xspec_hopping8_ok.
Qed.
Theorem xspec_hopping4_ok : forall l1 l2 n p t,
  meq (spec_hopping4 l1 l2 n p t) (xspec_hopping4 l1 l2 n p t).
Proof.
  intros. unfold PresetsSpec.spec_hopping4, PresetsSpec.xspec_hopping4.
  apply meq_sum. intros z _. apply meq_sum. intros a _. apply xspec_hopping8_ok.
Qed.

Theorem addHopping8_denotes : forall m l1 l2 t o1 o2 s1 s2 n1 p1 n2 p2,
  find_site l1 m = Some (n1, p1) -> find_site l2 m = Some (n2, p2) ->
  o1 < n1 -> s1 < p1 -> o2 < n2 -> s2 < p2 -> site_ok l1 n1 p1 -> site_ok l2 n2 p2 ->
  denotes m (Lattice.addHopping8 L leqb K vo m l1 l2 t o1 o2 s1 s2) (spec_hopping8 l1 l2 t o1 o2 s1 s2).
Proof.
  intros. apply denotes_of_wgs. eapply wgs_meq; [eapply addHopping8_wgs; eassumption|].
  apply meq_sym, xspec_hopping8_ok.
Qed.

Theorem addHopping7_denotes : forall m l1 l2 t o1 o2 z n1 p1 n2 p2,
  find_site l1 m = Some (n1, p1) -> find_site l2 m = Some (n2, p2) ->
  o1 < n1 -> z < p1 -> o2 < n2 -> z < p2 -> site_ok l1 n1 p1 -> site_ok l2 n2 p2 ->
  denotes m (Lattice.addHopping7 L leqb K vo m l1 l2 t o1 o2 z) (spec_hopping7 l1 l2 t o1 o2 z).
Proof. intros. unfold Lattice.addHopping7, PresetsSpec.spec_hopping7. eapply addHopping8_denotes; eassumption. Qed.

Theorem addHopping6_denotes : forall cfg m l1 l2 t o1 o2 n1 n2 p,
  find_site l1 m = Some (n1, p) -> find_site l2 m = Some (n2, p) ->
  o1 < n1 -> o2 < n2 -> site_ok l1 n1 p -> site_ok l2 n2 p ->
  denotes m (Lattice.addHopping6 L leqb K vo cfg m l1 l2 t o1 o2) (spec_hopping6 l1 l2 p t o1 o2).
Proof.
  intros cfg m l1 l2 t o1 o2 n1 n2 p F1 F2 A1 A3 S1 S2. apply denotes_of_wgs.
  unfold Lattice.addHopping6. rewrite F1, F2. cbn [fst snd].
  replace (n1 <=? o1) with false by (symmetry; apply Nat.leb_gt; exact A1).
  replace (n2 <=? o2) with false by (symmetry; apply Nat.leb_gt; exact A3).
  cbn [orb].
  replace (Lattice.cmp_spins cfg (n1, p) (n2, p)) with p
    by (unfold Lattice.cmp_spins; destruct (fix_shapecheck cfg); reflexivity).
  rewrite Nat.eqb_refl. cbn [negb].
  eapply wgs_meq; [|apply meq_sym, xspec_hopping6_ok]. unfold PresetsSpec.xspec_hopping6.
  wstep. eapply addHopping8_wgs; eassumption.
Qed.

Theorem addHopping4_denotes : forall cfg m l1 l2 t n p,
  find_site l1 m = Some (n, p) -> find_site l2 m = Some (n, p) ->
  site_ok l1 n p -> site_ok l2 n p ->
  denotes m (Lattice.addHopping4 L leqb K vo cfg m l1 l2 t) (spec_hopping4 l1 l2 n p t).
Proof.
  intros cfg m l1 l2 t n p F1 F2 S1 S2. apply denotes_of_wgs.
  unfold Lattice.addHopping4. rewrite F1, F2. cbn [fst snd].
  replace (Lattice.cmp_spins cfg (n, p) (n, p)) with p
    by (unfold Lattice.cmp_spins; destruct (fix_shapecheck cfg); reflexivity).
  rewrite !Nat.eqb_refl. cbn [negb orb].
  eapply wgs_meq; [|apply meq_sym, xspec_hopping4_ok]. unfold PresetsSpec.xspec_hopping4.
  wstep. wstep. eapply addHopping8_wgs; eassumption.
Qed.

End PF.
