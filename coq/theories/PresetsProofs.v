(** PresetsProofs.v -- C04, layer 4: every LatticePresets function adds exactly the operator written in its
    documentation (PresetsSpec), the result is Hermitian, Kanamori with U' = U - 2J and the spin-spin exchange
    commute with the total-spin raising and lowering operators.

    For each preset addX (model: PV.Lattice, loops of src/pomerol/LatticePresets.cpp; factories: translator
    output) the theorem [addX_denotes] says: on a lattice on which the preset is defined, the call finishes
    normally, and IndexHamiltonian::prepare (repaired loop, PV.IndexHam) applied to the lattice holding the
    pushed terms yields a polynomial whose matrix on the M-mode Fock space is the documented operator -- for
    ALL orbital / spin counts the preset accepts and all parameter values including 0. *)
Require Import Bool List Arith Lia Ring Ring_theory.
From PV Require Import Lattice.
From PV Require Import Outcome Fock Poly PolySem CAR AlgebraBasics AlgebraProofs NormalizeProofs.
From PV Require Import PresetsSpec IndexHam PresetsBasics PresetsPrepare PresetsLeaves PresetsConfig.
From PVgen Require Import Gen_LatticePresets.
Import ListNotations.

Section PF.
Variable K : Type.
Variables (k0 k1 : K) (kadd kmul ksub : K -> K -> K) (kopp : K -> K).
Variable kzero : K -> bool.
Hypothesis Hring : ring_ok K k0 k1 kadd kmul ksub kopp kzero.
Let Rth : ring_theory k0 k1 kadd kmul ksub kopp (@eq K) := proj1 Hring.
Add Ring Kring_PF : Rth.
Variable khalf : K.
Hypothesis Hhalf : kadd khalf khalf = k1.
Variable kconj : K -> K.
Variable M : nat.
Variable L : Type.
Variable leqb : L -> L -> bool.
Hypothesis leqb_spec : forall a b, leqb a b = true <-> a = b.
Variable idx : L -> nat -> nat -> nat.

Notation term := (Lattice.term L K).
Notation W := (Lattice.W L K).
Local Notation vo := (kvops K kadd kmul ksub kopp kzero khalf kconj).
Local Notation cm := (coef_mono K k0 k1 kopp).
Local Notation cp := (coef_poly K k0 k1 kadd kmul kopp).
Local Notation ksum := (@PolySem.ksum K k0 kadd _).
Local Notation mat := (PresetsSpec.mat K).
Local Notation m_zero := (PresetsSpec.m_zero K k0).
Local Notation m_add := (PresetsSpec.m_add K kadd).
Local Notation m_sub := (PresetsSpec.m_sub K ksub).
Local Notation m_scale := (PresetsSpec.m_scale K kmul).
Local Notation m_mul := (PresetsSpec.m_mul K k0 kadd kmul M).
Local Notation m_sum := (@PresetsSpec.m_sum K k0 kadd _).
Local Notation m_sum_if := (@PresetsSpec.m_sum_if K k0 kadd _).
Local Notation m_diag := (PresetsSpec.m_diag K k0).
Local Notation meq := (PresetsSpec.meq K M).
Local Notation m_n := (PresetsSpec.m_n K k0 k1).
Local Notation m_nn := (PresetsSpec.m_nn K k0 k1 kmul).
Local Notation occ := (PresetsSpec.occ K k0 k1).
Local Notation rng := PresetsSpec.rng.
Local Notation x_quartic := (PresetsSpec.x_quartic K k0 k1 kopp).
Local Notation x_hop := (PresetsSpec.x_hop K k0 k1 kopp).
Local Notation wgs := (PresetsLeaves.wgs K k0 k1 kadd kmul kopp M L idx).
Local Notation prepare := (IndexHam.prepare L K k1 kadd kmul kopp kzero idx).
Local Notation lattice_of := (PresetsPrepare.lattice_of K L).
Local Notation find_site := (Lattice.find_site L leqb).
Local Notation spec_level := (PresetsSpec.spec_level K k0 k1 kadd kmul L idx).
Local Notation spec_coulombS := (PresetsSpec.spec_coulombS K k0 k1 kadd kmul L idx).

Let ks_ext := AlgebraBasics.ksum_ext K k0 kadd.
Let ks_add := AlgebraBasics.ksum_add K k0 k1 kadd kmul ksub kopp kzero Hring.
Let ks_swap := AlgebraBasics.ksum_swap K k0 k1 kadd kmul ksub kopp kzero Hring.
Let ks_zero := AlgebraBasics.ksum_zero K k0 k1 kadd kmul ksub kopp kzero Hring.
Let ks_scale_l := AlgebraBasics.ksum_scale_l K k0 k1 kadd kmul ksub kopp kzero Hring.

(** every mode of the site is a mode of the Fock space *)
Definition site_ok (l : L) (norb nspin : nat) : Prop := forall a z, a < norb -> z < nspin -> idx l a z < M.

(** what a preset call delivers: it returns normally; IndexHamiltonian::prepare turns the terms it pushed into the
    matrix A (lattice with the sites [m] that holds only these terms); and when the terms are pushed into ANY
    lattice (well-formed storage), the Hamiltonian of that lattice grows by exactly A *)
Definition denotes (m : site_map L) (w : W) (A : mat) : Prop :=
  snd w = Done tt /\
  (exists h, prepare true (lattice_of m (fst w)) = Done h /\ meq (cp h) A) /\
  (forall st : Lattice.state L K,
     PresetsPrepare.storage_ok K M L idx st -> PresetsPrepare.storage_bounded K L st ->
     exists h h', prepare true st = Done h /\ prepare true (push_all L K (fst w) st) = Done h' /\
       meq (cp h') (m_add (cp h) A)).

Lemma denotes_of_wgs : forall m w A, wgs w A -> denotes m w A.
Proof.
  intros m w A H. split; [exact (proj1 H)|]. split.
  - eapply wgs_denotes; [exact Hring|exact H].
  - intros st Hok Hb. eapply wgs_adds; [exact Hring|exact H|exact Hok|exact Hb].
Qed.

Ltac wstep := cbv beta;
  first [ eapply wgs_seq | eapply wgs_for | eapply wgs_when | eapply wgs_ret ];
  try exact Hring; try (intros ? ?); try (intros ?); cbv beta.

(** * addLevel *)
Theorem addLevel_denotes : forall m l norb nspin eps,
  find_site l m = Some (norb, nspin) -> site_ok l norb nspin ->
  denotes m (Lattice.addLevel L leqb K vo m l eps) (spec_level l norb nspin eps).
Proof.
  intros m l norb nspin eps F S. apply denotes_of_wgs. unfold Lattice.addLevel. rewrite F.
  eapply wgs_meq.
  - wstep. wstep. wstep. eapply leaf_level; [exact Hring|]. apply S; assumption.
  - unfold PresetsSpec.spec_level. apply meq_sum. intros a _. apply meq_sum. intros z _.
    eapply when_nz_scale. exact Hring.
Qed.

Local Notation m_when := (PresetsBasics.m_when K k0).

Lemma when_nz : forall v A, meq (if vnz vo v then m_scale v A else m_zero) (m_scale v A).
Proof. intros v A. eapply when_nz_scale. exact Hring. Qed.

Lemma m_sum2_add : forall (l1 l2 : list nat) (f g : nat -> nat -> mat),
  meq (m_sum l1 (fun a => m_sum l2 (fun b => m_add (f a b) (g a b))))
      (m_add (m_sum l1 (fun a => m_sum l2 (fun b => f a b))) (m_sum l1 (fun a => m_sum l2 (fun b => g a b)))).
Proof.
  intros l1 l2 f g. eapply meq_trans; [|eapply m_sum_add; exact Hring].
  apply meq_sum. intros a _. eapply m_sum_add. exact Hring.
Qed.

Lemma in_rng : forall n j, In j (rng n) -> j < n.
Proof. intros n j H. apply in_seq in H. lia. Qed.

(** * addCoulombS *)
Theorem addCoulombS_denotes : forall m l norb nspin U eps,
  find_site l m = Some (norb, nspin) -> site_ok l norb nspin ->
  denotes m (Lattice.addCoulombS L leqb K vo m l U eps) (spec_coulombS l norb nspin U eps).
Proof.
  intros m l norb nspin U eps F S. apply denotes_of_wgs. unfold Lattice.addCoulombS. rewrite F.
  eapply wgs_meq.
  - wstep. wstep. wstep.
    + wstep. eapply leaf_level; [exact Hring|]. apply S; assumption.
    + wstep. wstep. eapply leaf_nn6; [exact Hring| |]; apply S; lia.
  - unfold PresetsSpec.spec_coulombS, PresetsSpec.spec_level.
    eapply meq_trans; [|apply m_sum2_add].
    apply meq_sum. intros a _. apply meq_sum. intros z Hz. apply in_rng in Hz.
    eapply meq_trans; [eapply m_add_comm; exact Hring|]. apply meq_add; [|apply when_nz].
    eapply meq_trans; [|eapply m_sum_lt; [exact Hring|apply Nat.lt_le_incl; exact Hz]].
    apply meq_sum. intros z' _. apply when_nz.
Qed.

Local Notation m_sz := (PresetsSpec.m_sz K k0 k1 kmul ksub khalf L idx).
Local Notation m_nud := (PresetsSpec.m_nud K k0 k1 ksub L idx).
Local Notation spec_magnetization_with := (PresetsSpec.spec_magnetization_with K k0 k1 kadd kmul ksub khalf L idx).
Local Notation sz_val := (PresetsSpec.sz_val K k0 k1 kmul ksub khalf L idx).
Local Notation x_szsz := (PresetsSpec.x_szsz K k0 k1 kmul ksub khalf L idx).
Local Notation x_spsm := (PresetsSpec.x_spsm K k0 k1 kopp L idx).
Local Notation x_smsp := (PresetsSpec.x_smsp K k0 k1 kopp L idx).
Local Notation xspec_szsz := (PresetsSpec.xspec_szsz K k0 k1 kadd kmul ksub khalf L idx).
Local Notation xspec_ss := (PresetsSpec.xspec_ss K k0 k1 kadd kmul ksub kopp khalf L idx).
Local Notation spec_szsz := (PresetsSpec.spec_szsz K k0 k1 kadd kmul ksub khalf M L idx).
Local Notation spec_ss := (PresetsSpec.spec_ss K k0 k1 kadd kmul ksub kopp khalf M L idx).
Local Notation xspec_hopping8 := (PresetsSpec.xspec_hopping8 K k0 k1 kadd kmul kopp kconj L idx).
Local Notation xspec_hopping6 := (PresetsSpec.xspec_hopping6 K k0 k1 kadd kmul kopp kconj L idx).
Local Notation xspec_hopping4 := (PresetsSpec.xspec_hopping4 K k0 k1 kadd kmul kopp kconj L idx).
Local Notation spec_hopping8 := (PresetsSpec.spec_hopping8 K k0 k1 kadd kmul kopp kconj M L idx).
Local Notation spec_hopping7 := (PresetsSpec.spec_hopping7 K k0 k1 kadd kmul kopp kconj M L idx).
Local Notation spec_hopping6 := (PresetsSpec.spec_hopping6 K k0 k1 kadd kmul kopp kconj M L idx).
Local Notation spec_hopping4 := (PresetsSpec.spec_hopping4 K k0 k1 kadd kmul kopp kconj M L idx).
Local Notation m_hop := (PresetsSpec.m_hop K k0 k1 kadd kmul kopp M).
Local Notation m_splus := (PresetsSpec.m_splus K k0 k1 kadd kmul kopp M L idx).
Local Notation m_sminus := (PresetsSpec.m_sminus K k0 k1 kadd kmul kopp M L idx).
Local Notation m_cdag := (PresetsSpec.m_cdag K k0 k1 kopp).
Local Notation m_c := (PresetsSpec.m_c K k0 k1 kopp).

Lemma dbl_half : forall x, kmul (kadd x x) khalf = x.
Proof. intros x. transitivity (kmul x (kadd khalf khalf)); [ring|]. rewrite Hhalf. ring. Qed.
Lemma half_half_4 : forall x, kadd (kadd x x) (kadd x x) = x -> True.
Proof. trivial. Qed.

(** * addMagnetization.  The loop as it is written (Lattice.addMagnetization) adds mH (n_up - n_down); with the
      amplitude halved it adds mH 1/2 (n_up - n_down).  Either variant of the code denotes the documentation of the
      same variant ([addMagnetization_with_denotes]); MagRefuted below shows that the mixed combinations do not. *)
Lemma addMagnetization_wgs : forall m l norb mH,
  find_site l m = Some (norb, 2) -> site_ok l norb 2 ->
  wgs (Lattice.addMagnetization L leqb K vo m l mH)
      (m_sum (rng norb) (fun a => m_add (m_scale mH (m_n (idx l a spin_up)))
                                        (m_scale (kopp mH) (m_n (idx l a spin_down))))).
Proof.
  intros m l norb mH F S. unfold Lattice.addMagnetization. rewrite F. cbn [Nat.eqb negb].
  wstep. wstep; (eapply leaf_level; [exact Hring|]; apply S; [assumption|unfold spin_up, spin_down; lia]).
Qed.

Theorem addMagnetization_plain_denotes : forall m l norb mH,
  find_site l m = Some (norb, 2) -> site_ok l norb 2 ->
  denotes m (Lattice.addMagnetization L leqb K vo m l mH) (spec_magnetization_with false l norb mH).
Proof.
  intros m l norb mH F S. apply denotes_of_wgs.
  eapply wgs_meq; [eapply addMagnetization_wgs; eassumption|].
  unfold PresetsSpec.spec_magnetization_with. apply meq_sum. intros a _.
  intros s u _ _. unfold PresetsSpec.m_nud, PresetsSpec.m_add, PresetsSpec.m_scale, PresetsSpec.m_sub, PresetsSpec.up, PresetsSpec.down.
  ring.
Qed.

Theorem addMagnetization_halved_denotes : forall m l norb mH,
  find_site l m = Some (norb, 2) -> site_ok l norb 2 ->
  denotes m (Lattice.addMagnetization L leqb K vo m l (vhalf vo mH)) (spec_magnetization_with true l norb mH).
Proof.
  intros m l norb mH F S. apply denotes_of_wgs.
  eapply wgs_meq; [eapply addMagnetization_wgs; eassumption|].
  unfold PresetsSpec.spec_magnetization_with. apply meq_sum. intros a _.
  intros s u _ _. unfold PresetsSpec.m_sz, PresetsSpec.m_nud, PresetsSpec.m_add, PresetsSpec.m_scale, PresetsSpec.m_sub, PresetsSpec.up, PresetsSpec.down.
  cbn [vhalf kvops]. ring.
Qed.

(** code and documentation of the same variant agree *)
Theorem addMagnetization_with_denotes : forall (half : bool) m l norb mH,
  find_site l m = Some (norb, 2) -> site_ok l norb 2 ->
  denotes m (addMagnetization_with L leqb K vo half m l mH) (spec_magnetization_with half l norb mH).
Proof.
  intros [|] m l norb mH F S; unfold addMagnetization_with.
  - apply addMagnetization_halved_denotes; assumption.
  - apply addMagnetization_plain_denotes; assumption.
Qed.

Lemma spin_up_lt2 : spin_up < 2. Proof. unfold spin_up. lia. Qed.
Lemma spin_down_lt2 : spin_down < 2. Proof. unfold spin_down. lia. Qed.

Lemma leqb_true_eq : forall a b, leqb a b = true -> a = b.
Proof. intros a b H. apply leqb_spec. exact H. Qed.

(** * addSzSz (two sites of the same shape with two spins, or one site twice) *)
Lemma addSzSz_wgs : forall cfg m l1 l2 norb J,
  find_site l1 m = Some (norb, 2) -> find_site l2 m = Some (norb, 2) ->
  site_ok l1 norb 2 -> site_ok l2 norb 2 ->
  wgs (Lattice.addSzSz L leqb K vo cfg m l1 l2 J) (xspec_szsz l1 l2 norb J).
Proof.
  intros cfg m l1 l2 norb J F1 F2 S1 S2. unfold Lattice.addSzSz. rewrite F1, F2. cbn [fst snd].
  replace (Lattice.cmp_spins cfg (norb, 2) (norb, 2)) with 2
    by (unfold Lattice.cmp_spins; destruct (fix_shapecheck cfg); reflexivity).
  rewrite Nat.eqb_refl. cbn [Nat.eqb negb orb].
  pose proof spin_up_lt2 as Hu. pose proof spin_down_lt2 as Hd.
  destruct (leqb l1 l2) eqn:El; cbn [negb].
  - (* the same site *)
    apply leqb_true_eq in El. subst l2.
    eapply wgs_meq.
    + wstep. wstep; [|wstep; [|wstep]].
      * eapply leaf_nn7; [exact Hring| | |intros _; reflexivity]; apply S1; assumption.
      * eapply leaf_nn7; [exact Hring| | |intros _; reflexivity]; apply S1; assumption.
      * eapply leaf_level; [exact Hring|]; apply S1; assumption.
      * eapply leaf_level; [exact Hring|]; apply S1; assumption.
    + unfold PresetsSpec.xspec_szsz. apply meq_sum. intros a _. intros s u _ _.
      unfold PresetsSpec.x_szsz, PresetsSpec.sz_val, PresetsSpec.m_add, PresetsSpec.m_scale, PresetsSpec.m_nn,
        PresetsSpec.m_n, PresetsSpec.m_diag, PresetsSpec.up, PresetsSpec.down, PresetsSpec.occ.
      cbn [vquart vneg kvops].
      destruct (state_eqb s u); [|ring].
      destruct (nth (idx l1 a spin_up) s false), (nth (idx l1 a spin_down) s false); ring.
  - (* two different sites *)
    eapply wgs_meq.
    + wstep. wstep; [|wstep; [|wstep]];
        (eapply leaf_nn7; [exact Hring| | |apply leqb_true_eq]; [apply S1|apply S2]; assumption).
    + unfold PresetsSpec.xspec_szsz. apply meq_sum. intros a _. intros s u _ _.
      unfold PresetsSpec.x_szsz, PresetsSpec.sz_val, PresetsSpec.m_add, PresetsSpec.m_scale, PresetsSpec.m_nn,
        PresetsSpec.m_diag, PresetsSpec.up, PresetsSpec.down.
      cbn [vquart vneg kvops].
      destruct (state_eqb s u); ring.
Qed.

(** the executable form of the SzSz specification is the documented product of two S_z operators *)
Lemma m_sz_diag : forall l a, meq (m_sz l a) (m_diag (sz_val l a)).
Proof.
  intros l a. unfold PresetsSpec.m_sz, PresetsSpec.m_nud, PresetsSpec.sz_val, PresetsSpec.m_n.
  eapply meq_trans; [apply meq_scale; eapply m_diag_sub; exact Hring|].
  eapply m_diag_scale. exact Hring.
Qed.

Lemma szsz_product : forall l1 l2 a, meq (m_mul (m_sz l1 a) (m_sz l2 a)) (x_szsz l1 l2 a).
Proof.
  intros l1 l2 a. eapply meq_trans; [apply meq_mul; apply m_sz_diag|].
  unfold PresetsSpec.x_szsz. eapply m_mul_diag_diag. exact Hring.
Qed.

Theorem xspec_szsz_ok : forall l1 l2 norb J, meq (spec_szsz l1 l2 norb J) (xspec_szsz l1 l2 norb J).
Proof.
  intros l1 l2 norb J. unfold PresetsSpec.spec_szsz, PresetsSpec.xspec_szsz.
  apply meq_sum. intros a _. apply meq_scale. apply szsz_product.
Qed.

Theorem addSzSz_denotes : forall cfg m l1 l2 norb J,
  find_site l1 m = Some (norb, 2) -> find_site l2 m = Some (norb, 2) ->
  site_ok l1 norb 2 -> site_ok l2 norb 2 ->
  denotes m (Lattice.addSzSz L leqb K vo cfg m l1 l2 J) (spec_szsz l1 l2 norb J).
Proof.
  intros cfg m l1 l2 norb J F1 F2 S1 S2. apply denotes_of_wgs.
  eapply wgs_meq; [apply addSzSz_wgs; eassumption|]. apply meq_sym, xspec_szsz_ok.
Qed.

(** * addSS *)
Lemma addSS_wgs : forall cfg m l1 l2 norb J,
  find_site l1 m = Some (norb, 2) -> find_site l2 m = Some (norb, 2) ->
  site_ok l1 norb 2 -> site_ok l2 norb 2 ->
  wgs (Lattice.addSS L leqb K vo cfg m l1 l2 J) (xspec_ss l1 l2 norb J).
Proof.
  intros cfg m l1 l2 norb J F1 F2 S1 S2. unfold Lattice.addSS. rewrite F1, F2. cbn [fst snd].
  replace (Lattice.cmp_spins cfg (norb, 2) (norb, 2)) with 2
    by (unfold Lattice.cmp_spins; destruct (fix_shapecheck cfg); reflexivity).
  rewrite Nat.eqb_refl. cbn [Nat.eqb negb orb].
  pose proof spin_up_lt2 as Hu. pose proof spin_down_lt2 as Hd.
  eapply wgs_meq.
  - wstep; [apply addSzSz_wgs; eassumption|]. wstep. wstep.
    + eapply leaf_spsm; [exact Hring| | | |]; first [apply S1|apply S2]; assumption.
    + eapply leaf_smsp; [exact Hring| | | |]; first [apply S1|apply S2]; assumption.
  - unfold PresetsSpec.xspec_ss, PresetsSpec.xspec_szsz.
    eapply meq_trans; [apply meq_sym; eapply m_sum_add; exact Hring|].
    apply meq_sum. intros a _. intros s u _ _.
    unfold PresetsSpec.m_add, PresetsSpec.m_scale. cbn [vhalf kvops]. ring.
Qed.

Lemma splus_sminus_product : forall l1 l2 a, meq (m_mul (m_splus l1 a) (m_sminus l2 a)) (x_spsm l1 l2 a).
Proof.
  intros l1 l2 a. unfold PresetsSpec.m_splus, PresetsSpec.m_sminus, PresetsSpec.m_cdag, PresetsSpec.m_c, PresetsSpec.m_op.
  eapply meq_trans; [apply meq_mul; eapply m_mul_mono; exact Hring|].
  eapply meq_trans; [eapply m_mul_mono; exact Hring|]. apply meq_refl.
Qed.
Lemma sminus_splus_product : forall l1 l2 a, meq (m_mul (m_sminus l1 a) (m_splus l2 a)) (x_smsp l1 l2 a).
Proof.
  intros l1 l2 a. unfold PresetsSpec.m_splus, PresetsSpec.m_sminus, PresetsSpec.m_cdag, PresetsSpec.m_c, PresetsSpec.m_op.
  eapply meq_trans; [apply meq_mul; eapply m_mul_mono; exact Hring|].
  eapply meq_trans; [eapply m_mul_mono; exact Hring|]. apply meq_refl.
Qed.

Theorem xspec_ss_ok : forall l1 l2 norb J, meq (spec_ss l1 l2 norb J) (xspec_ss l1 l2 norb J).
Proof.
  intros l1 l2 norb J. unfold PresetsSpec.spec_ss, PresetsSpec.xspec_ss.
  apply meq_sum. intros a _. apply meq_scale. apply meq_add; [apply szsz_product|].
  apply meq_scale. apply meq_add; [apply splus_sminus_product|apply sminus_splus_product].
Qed.

Theorem addSS_denotes : forall cfg m l1 l2 norb J,
  find_site l1 m = Some (norb, 2) -> find_site l2 m = Some (norb, 2) ->
  site_ok l1 norb 2 -> site_ok l2 norb 2 ->
  denotes m (Lattice.addSS L leqb K vo cfg m l1 l2 J) (spec_ss l1 l2 norb J).
Proof.
  intros cfg m l1 l2 norb J F1 F2 S1 S2. apply denotes_of_wgs.
  eapply wgs_meq; [apply addSS_wgs; eassumption|]. apply meq_sym, xspec_ss_ok.
Qed.

(** * addHopping (with its Hermitian conjugate) *)
Lemma addHopping8_wgs : forall m l1 l2 t o1 o2 s1 s2 n1 p1 n2 p2,
  find_site l1 m = Some (n1, p1) -> find_site l2 m = Some (n2, p2) ->
  o1 < n1 -> s1 < p1 -> o2 < n2 -> s2 < p2 -> site_ok l1 n1 p1 -> site_ok l2 n2 p2 ->
  wgs (Lattice.addHopping8 L leqb K vo m l1 l2 t o1 o2 s1 s2) (xspec_hopping8 l1 l2 t o1 o2 s1 s2).
Proof.
  intros m l1 l2 t o1 o2 s1 s2 n1 p1 n2 p2 F1 F2 A1 A2 A3 A4 S1 S2.
  unfold Lattice.addHopping8. rewrite F1, F2. cbn [fst snd].
  replace (n1 <=? o1) with false by (symmetry; apply Nat.leb_gt; exact A1).
  replace (n2 <=? o2) with false by (symmetry; apply Nat.leb_gt; exact A3).
  replace (p1 <=? s1) with false by (symmetry; apply Nat.leb_gt; exact A2).
  replace (p2 <=? s2) with false by (symmetry; apply Nat.leb_gt; exact A4).
  cbn [orb]. unfold PresetsSpec.xspec_hopping8.
  wstep.
  - eapply (leaf_hop K k0 k1 kadd kmul ksub kopp kzero Hring khalf kconj M L leqb idx m l1 l2 t o1 o2 s1 s2 (n1, p1) (n2, p2));
      try assumption; [apply S1|apply S2]; assumption.
  - eapply (leaf_hop K k0 k1 kadd kmul ksub kopp kzero Hring khalf kconj M L leqb idx m l2 l1 (kconj t) o2 o1 s2 s1 (n2, p2) (n1, p1));
      try assumption; [apply S2|apply S1]; assumption.
Qed.

Lemma hop_product : forall i j, meq (m_hop i j) (x_hop i j).
Proof.
  intros i j. unfold PresetsSpec.m_hop, PresetsSpec.m_cdag, PresetsSpec.m_c, PresetsSpec.m_op.
  eapply meq_trans; [eapply m_mul_mono; exact Hring|]. apply meq_refl.
Qed.

Theorem xspec_hopping8_ok : forall l1 l2 t o1 o2 s1 s2,
  meq (spec_hopping8 l1 l2 t o1 o2 s1 s2) (xspec_hopping8 l1 l2 t o1 o2 s1 s2).
Proof.
  intros. unfold PresetsSpec.spec_hopping8, PresetsSpec.xspec_hopping8.
  apply meq_add; apply meq_scale; apply hop_product.
Qed.
Theorem xspec_hopping6_ok : forall l1 l2 p t o1 o2,
  meq (spec_hopping6 l1 l2 p t o1 o2) (xspec_hopping6 l1 l2 p t o1 o2).
Proof.
  intros. unfold PresetsSpec.spec_hopping6, PresetsSpec.xspec_hopping6.
  apply meq_sum. intros z _. apply xspec_hopping8_ok.
Qed.
Theorem xspec_hopping4_ok : forall l1 l2 n p t,
  meq (spec_hopping4 l1 l2 n p t) (xspec_hopping4 l1 l2 n p t).
Proof.
  intros. unfold PresetsSpec.spec_hopping4, PresetsSpec.xspec_hopping4.
  apply meq_sum. intros z _. apply meq_sum. intros a _. apply xspec_hopping8_ok.
Qed.

Theorem addHopping8_denotes : forall m l1 l2 t o1 o2 s1 s2 n1 p1 n2 p2,
  find_site l1 m = Some (n1, p1) -> find_site l2 m = Some (n2, p2) ->
  o1 < n1 -> s1 < p1 -> o2 < n2 -> s2 < p2 -> site_ok l1 n1 p1 -> site_ok l2 n2 p2 ->
  denotes m (Lattice.addHopping8 L leqb K vo m l1 l2 t o1 o2 s1 s2) (spec_hopping8 l1 l2 t o1 o2 s1 s2).
Proof.
  intros. apply denotes_of_wgs. eapply wgs_meq; [eapply addHopping8_wgs; eassumption|].
  apply meq_sym, xspec_hopping8_ok.
Qed.

Theorem addHopping7_denotes : forall m l1 l2 t o1 o2 z n1 p1 n2 p2,
  find_site l1 m = Some (n1, p1) -> find_site l2 m = Some (n2, p2) ->
  o1 < n1 -> z < p1 -> o2 < n2 -> z < p2 -> site_ok l1 n1 p1 -> site_ok l2 n2 p2 ->
  denotes m (Lattice.addHopping7 L leqb K vo m l1 l2 t o1 o2 z) (spec_hopping7 l1 l2 t o1 o2 z).
Proof. intros. unfold Lattice.addHopping7, PresetsSpec.spec_hopping7. eapply addHopping8_denotes; eassumption. Qed.

Theorem addHopping6_denotes : forall cfg m l1 l2 t o1 o2 n1 n2 p,
  find_site l1 m = Some (n1, p) -> find_site l2 m = Some (n2, p) ->
  o1 < n1 -> o2 < n2 -> site_ok l1 n1 p -> site_ok l2 n2 p ->
  denotes m (Lattice.addHopping6 L leqb K vo cfg m l1 l2 t o1 o2) (spec_hopping6 l1 l2 p t o1 o2).
Proof.
  intros cfg m l1 l2 t o1 o2 n1 n2 p F1 F2 A1 A3 S1 S2. apply denotes_of_wgs.
  unfold Lattice.addHopping6. rewrite F1, F2. cbn [fst snd].
  replace (n1 <=? o1) with false by (symmetry; apply Nat.leb_gt; exact A1).
  replace (n2 <=? o2) with false by (symmetry; apply Nat.leb_gt; exact A3).
  cbn [orb].
  replace (Lattice.cmp_spins cfg (n1, p) (n2, p)) with p
    by (unfold Lattice.cmp_spins; destruct (fix_shapecheck cfg); reflexivity).
  rewrite Nat.eqb_refl. cbn [negb].
  eapply wgs_meq; [|apply meq_sym, xspec_hopping6_ok]. unfold PresetsSpec.xspec_hopping6.
  wstep. eapply addHopping8_wgs; eassumption.
Qed.

Theorem addHopping4_denotes : forall cfg m l1 l2 t n p,
  find_site l1 m = Some (n, p) -> find_site l2 m = Some (n, p) ->
  site_ok l1 n p -> site_ok l2 n p ->
  denotes m (Lattice.addHopping4 L leqb K vo cfg m l1 l2 t) (spec_hopping4 l1 l2 n p t).
Proof.
  intros cfg m l1 l2 t n p F1 F2 S1 S2. apply denotes_of_wgs.
  unfold Lattice.addHopping4. rewrite F1, F2. cbn [fst snd].
  replace (Lattice.cmp_spins cfg (n, p) (n, p)) with p
    by (unfold Lattice.cmp_spins; destruct (fix_shapecheck cfg); reflexivity).
  rewrite !Nat.eqb_refl. cbn [negb orb].
  eapply wgs_meq; [|apply meq_sym, xspec_hopping4_ok]. unfold PresetsSpec.xspec_hopping4.
  wstep. wstep. eapply addHopping8_wgs; eassumption.
Qed.

Local Notation xspec_coulombP := (PresetsSpec.xspec_coulombP K k0 k1 kadd kmul ksub kopp khalf L idx).
Local Notation spec_coulombP := (PresetsSpec.spec_coulombP K k0 k1 kadd kmul ksub kopp khalf M L idx).
Local Notation xspec_coulombP3 := (PresetsSpec.xspec_coulombP3 K k0 k1 kadd kmul ksub kopp khalf L idx).
Local Notation spec_coulombP3 := (PresetsSpec.spec_coulombP3 K k0 k1 kadd kmul ksub kopp khalf M L idx).
Local Notation m_quartic := (PresetsSpec.m_quartic K k0 k1 kadd kmul kopp M).

Lemma negb_eqb_neq : forall i j, negb (i =? j) = true -> i <> j.
Proof. intros i j H E. subst j. rewrite Nat.eqb_refl in H. discriminate. Qed.

(** ** nests of sums: sum_a sum_b sum_{c | q} sum_{d | p} *)
Lemma sum3_add : forall (la lb lc : list nat) (q : nat -> nat -> nat -> bool) (f g : nat -> nat -> nat -> mat),
  meq (m_sum la (fun a => m_sum lb (fun b => m_sum_if lc (q a b) (fun c => m_add (f a b c) (g a b c)))))
      (m_add (m_sum la (fun a => m_sum lb (fun b => m_sum_if lc (q a b) (fun c => f a b c))))
             (m_sum la (fun a => m_sum lb (fun b => m_sum_if lc (q a b) (fun c => g a b c))))).
Proof.
  intros. eapply meq_trans; [|apply m_sum2_add]. apply meq_sum. intros a _. apply meq_sum. intros b _.
  eapply m_sum_if_add. exact Hring.
Qed.

Lemma scale_into2 : forall c (la lb : list nat) (f : nat -> nat -> mat),
  meq (m_scale c (m_sum la (fun a => m_sum lb (fun b => f a b))))
      (m_sum la (fun a => m_sum lb (fun b => m_scale c (f a b)))).
Proof.
  intros. apply meq_sym. eapply meq_trans; [|eapply m_sum_scale; exact Hring].
  apply meq_sum. intros a _. eapply m_sum_scale. exact Hring.
Qed.
Lemma scale_into3 : forall c (la lb lc : list nat) (q : nat -> nat -> nat -> bool) (f : nat -> nat -> nat -> mat),
  meq (m_scale c (m_sum la (fun a => m_sum lb (fun b => m_sum_if lc (q a b) (fun x => f a b x)))))
      (m_sum la (fun a => m_sum lb (fun b => m_sum_if lc (q a b) (fun x => m_scale c (f a b x))))).
Proof.
  intros. eapply meq_trans; [apply scale_into2|]. apply meq_sum. intros a _. apply meq_sum. intros b _.
  apply meq_sym. eapply m_sum_if_scale. exact Hring.
Qed.
Lemma scale_into4 : forall c (la lb lc ld : list nat) (q : nat -> nat -> nat -> bool) (p : nat -> nat -> bool)
  (f : nat -> nat -> nat -> nat -> mat),
  meq (m_scale c (m_sum la (fun a => m_sum lb (fun b => m_sum_if lc (q a b) (fun x =>
          m_sum_if ld (p a) (fun y => f a b x y))))))
      (m_sum la (fun a => m_sum lb (fun b => m_sum_if lc (q a b) (fun x =>
          m_sum_if ld (p a) (fun y => m_scale c (f a b x y)))))).
Proof.
  intros. eapply meq_trans; [apply scale_into3|]. apply meq_sum. intros a _. apply meq_sum. intros b _.
  apply meq_sum_if. intros x _ _. apply meq_sym. eapply m_sum_if_scale. exact Hring.
Qed.

(** sum_a sum_{a' | p a a'} sum_z sum_{z' | q z z'} F = sum_a sum_z sum_{z' | q} sum_{a' | p} F *)
Lemma nest4_reorder : forall (la lz : list nat) (p q : nat -> nat -> bool) (f : nat -> nat -> nat -> nat -> mat),
  meq (m_sum la (fun a => m_sum_if la (p a) (fun a' => m_sum lz (fun z => m_sum_if lz (q z) (fun z' => f a a' z z')))))
      (m_sum la (fun a => m_sum lz (fun z => m_sum_if lz (q z) (fun z' => m_sum_if la (p a) (fun a' => f a a' z z'))))).
Proof.
  intros. apply meq_sum. intros a _.
  eapply meq_trans; [eapply m_sum_if_swap_plain; exact Hring|]. apply meq_sum. intros z _.
  eapply m_sum_if_swap. exact Hring.
Qed.

Section CoulombP.
Variables (l : L) (norb nspin : nat) (U Up J eps : K).
Let c := kmul (ksub Up J) khalf.
Let nn (i z j z' : nat) : mat := m_nn (idx l i z) (idx l j z').
Let Q1 (i j z z' : nat) : mat := x_quartic (idx l i z) (idx l j z') (idx l j z) (idx l i z').
Let Q2 (i j z z' : nat) : mat := x_quartic (idx l i z) (idx l i z') (idx l j z) (idx l j z').
Let ne (i j : nat) : bool := negb (i =? j).
Let lt (z z' : nat) : bool := z' <? z.
Let R := rng norb.
Let Z := rng nspin.

Let PE := spec_level l norb nspin eps.
Let PC := m_sum R (fun i => m_sum Z (fun z => m_sum_if R (ne i) (fun j => m_scale c (nn i z j z)))).
Let PA := m_sum R (fun i => m_sum Z (fun z => m_sum_if Z (lt z) (fun z' => m_scale U (nn i z i z')))).
Let PB := m_sum R (fun i => m_sum Z (fun z => m_sum_if Z (lt z) (fun z' =>
            m_sum_if R (ne i) (fun j => m_scale Up (nn i z j z'))))).
Let PD := m_sum R (fun i => m_sum Z (fun z => m_sum_if Z (lt z) (fun z' =>
            m_sum_if R (ne i) (fun j => m_add (m_scale (kopp J) (Q1 i j z z')) (m_scale (kopp J) (Q2 i j z z')))))).

(** the loops of addCoulombP, tidied: zero tests removed, the z2 < z1 loop written as a restricted sum *)
Let N := m_sum R (fun i => m_sum Z (fun z =>
           m_add (m_scale eps (m_n (idx l i z)))
          (m_add (m_sum_if R (ne i) (fun j => m_scale c (nn i z j z)))
                 (m_sum_if Z (lt z) (fun z' =>
                    m_add (m_scale U (nn i z i z'))
                          (m_sum_if R (ne i) (fun j =>
                             m_add (m_scale Up (nn i z j z'))
                                   (m_add (m_scale (kopp J) (Q1 i j z z')) (m_scale (kopp J) (Q2 i j z z')))))))))).

Lemma coulombP_N_pieces : meq N (m_add PE (m_add PC (m_add PA (m_add PB PD)))).
Proof.
  unfold N. eapply meq_trans; [apply m_sum2_add|]. apply meq_add; [apply meq_refl|].
  eapply meq_trans; [apply m_sum2_add|]. apply meq_add; [apply meq_refl|].
  eapply meq_trans; [apply sum3_add|]. apply meq_add; [apply meq_refl|].
  eapply meq_trans.
  { apply meq_sum. intros i _. apply meq_sum. intros z _. apply meq_sum_if. intros z' _ _.
    eapply m_sum_if_add. exact Hring. }
  eapply meq_trans; [apply sum3_add|]. apply meq_refl.
Qed.

Lemma when_nz_J : forall A B,
  meq (if vnz vo J then m_add (m_scale (vneg vo J) A) (m_scale (vneg vo J) B) else m_zero)
      (m_add (m_scale (kopp J) A) (m_scale (kopp J) B)).
Proof.
  intros A B s u _ _. cbn [vnz vneg kvops]. destruct (kzero J) eqn:E; cbn [negb]; [|reflexivity].
  apply (proj2 Hring) in E. subst J. unfold PresetsSpec.m_zero, PresetsSpec.m_add, PresetsSpec.m_scale. ring.
Qed.

Lemma coulombP_x_pieces : meq (xspec_coulombP l norb nspin U Up J eps) (m_add PE (m_add PC (m_add PA (m_add PB PD)))).
Proof.
  assert (HA : meq (m_scale U (m_sum R (fun a => m_sum Z (fun z => m_sum_if Z (lt z) (fun z' => nn a z a z'))))) PA).
  { apply scale_into3. }
  assert (HB : meq (m_scale Up (m_sum R (fun a => m_sum_if R (ne a) (fun a' =>
                      m_sum Z (fun z => m_sum_if Z (lt z) (fun z' => nn a z a' z')))))) PB).
  { eapply meq_trans; [apply meq_scale; apply nest4_reorder|]. apply scale_into4. }
  assert (HC : meq (m_scale c (m_sum R (fun a => m_sum_if R (ne a) (fun a' => m_sum Z (fun z => nn a z a' z))))) PC).
  { eapply meq_trans.
    { apply meq_scale. apply meq_sum. intros a _. eapply m_sum_if_swap_plain. exact Hring. }
    eapply meq_trans; [apply scale_into2|]. apply meq_sum. intros a _. apply meq_sum. intros z _.
    apply meq_sym. eapply m_sum_if_scale. exact Hring. }
  assert (HD : meq (m_scale (kopp J) (m_sum R (fun a => m_sum_if R (ne a) (fun a' =>
                      m_sum Z (fun z => m_sum_if Z (lt z) (fun z' => m_add (Q1 a a' z z') (Q2 a' a z z'))))))) PD).
  { eapply meq_trans.
    { apply meq_scale.
      (* split, relabel the pair-hopping sum (a <-> a'), recombine *)
      eapply meq_trans.
      { apply meq_sum. intros a _. apply meq_sum_if. intros a' _ _.
        eapply meq_trans; [apply meq_sum; intros z _; eapply m_sum_if_add; exact Hring|].
        eapply m_sum_add. exact Hring. }
      eapply meq_trans.
      { apply meq_sum. intros a _. eapply m_sum_if_add. exact Hring. }
      eapply meq_trans; [eapply m_sum_add; exact Hring|].
      eapply meq_trans.
      { apply meq_add; [apply meq_refl|].
        apply meq_sym.
        eapply (m_sum_if_sym K k0 k1 kadd kmul ksub kopp kzero Hring M R ne
                  (fun a a' => m_sum Z (fun z => m_sum_if Z (lt z) (fun z' => Q2 a a' z z')))).
        intros a b. unfold ne. rewrite Nat.eqb_sym. reflexivity. }
      eapply meq_trans; [apply meq_sym; eapply m_sum_add; exact Hring|].
      eapply meq_trans.
      { apply meq_sum. intros a _. apply meq_sym. eapply m_sum_if_add. exact Hring. }
      eapply meq_trans.
      { apply meq_sum. intros a _. apply meq_sum_if. intros a' _ _.
        eapply meq_trans; [apply meq_sym; eapply m_sum_add; exact Hring|].
        apply meq_sum. intros z _. apply meq_sym. eapply m_sum_if_add. exact Hring. }
      apply nest4_reorder. }
    eapply meq_trans; [apply scale_into4|].
    apply meq_sum. intros i _. apply meq_sum. intros z _. apply meq_sum_if. intros z' _ _.
    apply meq_sum_if. intros j _ _. eapply m_scale_add. exact Hring. }
  cbv beta zeta delta [PresetsSpec.xspec_coulombP].
  eapply meq_trans.
  { apply meq_add; [apply meq_add; [apply meq_add; [apply meq_add; [exact HA|exact HB]|exact HC]|exact HD]|apply meq_refl]. }
  intros s u _ _. unfold PresetsSpec.m_add. fold PE. ring.
Qed.

Lemma addCoulombP_wgs : forall m,
  find_site l m = Some (norb, nspin) -> 2 <= norb -> 2 <= nspin -> site_ok l norb nspin ->
  wgs (Lattice.addCoulombP L leqb K vo m l U Up J eps) (xspec_coulombP l norb nspin U Up J eps).
Proof.
  intros m F Hn Hp S. unfold Lattice.addCoulombP. rewrite F.
  replace (norb <=? 1) with false by (symmetry; apply Nat.leb_gt; lia).
  replace (nspin <=? 1) with false by (symmetry; apply Nat.leb_gt; lia). cbn [orb].
  eapply wgs_meq.
  - wstep. wstep. wstep; [wstep; eapply leaf_level; [exact Hring|]; apply S; assumption|].
    wstep.
    + wstep. wstep. eapply leaf_nn6; [exact Hring| |]; apply S; assumption.
    + wstep. wstep.
      * wstep. eapply leaf_nn6; [exact Hring| |]; apply S; lia.
      * wstep. wstep. wstep.
        -- wstep. eapply leaf_nn6; [exact Hring| |]; apply S; lia.
        -- wstep. wstep.
           ++ eapply leaf_spinflip; [exact Hring|apply negb_eqb_neq; assumption|lia| | | |]; apply S; lia.
           ++ eapply leaf_pairhopping; [exact Hring|apply negb_eqb_neq; assumption|lia| | | |]; apply S; lia.
  - eapply meq_trans; [|apply meq_sym, coulombP_x_pieces].
    eapply meq_trans; [|apply coulombP_N_pieces].
    unfold N. apply meq_sum. intros i _. apply meq_sum. intros z Hz. apply in_rng in Hz.
    apply meq_add; [apply when_nz|]. apply meq_add; [apply meq_refl|].
    eapply meq_trans; [|eapply m_sum_lt; [exact Hring|apply Nat.lt_le_incl; exact Hz]].
    apply meq_sum. intros z' _. apply meq_add; [apply when_nz|].
    apply meq_sum. intros j _. unfold ne.
    destruct (negb (i =? j)); [|apply meq_refl].
    apply meq_add; [apply when_nz|]. apply when_nz_J.
Qed.

End CoulombP.

Lemma quartic_product : forall a b c d, meq (m_quartic a b c d) (x_quartic a b c d).
Proof.
  intros a b c d s u Hs _. unfold PresetsSpec.m_quartic, PresetsSpec.x_quartic.
  change [m_cdag a; m_cdag b; m_c c; m_c d] with (map (PresetsSpec.m_op K k0 k1 kopp) [cdag a; cdag b; cann c; cann d]).
  eapply m_prod_mono; [exact Hring|exact Hs].
Qed.

Theorem xspec_coulombP_ok : forall l norb nspin U Up J eps,
  meq (spec_coulombP l norb nspin U Up J eps) (xspec_coulombP l norb nspin U Up J eps).
Proof.
  intros. cbv beta zeta delta [PresetsSpec.spec_coulombP PresetsSpec.xspec_coulombP].
  apply meq_add; [|apply meq_refl]. apply meq_add; [apply meq_refl|]. apply meq_scale.
  apply meq_sum. intros a _. apply meq_sum_if. intros a' _ _. apply meq_sum. intros z _.
  apply meq_sum_if. intros z' _ _. apply meq_add; apply quartic_product.
Qed.

(** * addCoulombP (Kanamori), any number >= 2 of orbitals and of spins *)
Theorem addCoulombP_denotes : forall m l norb nspin U Up J eps,
  find_site l m = Some (norb, nspin) -> 2 <= norb -> 2 <= nspin -> site_ok l norb nspin ->
  denotes m (Lattice.addCoulombP L leqb K vo m l U Up J eps) (spec_coulombP l norb nspin U Up J eps).
Proof.
  intros. apply denotes_of_wgs. eapply wgs_meq; [eapply addCoulombP_wgs; eassumption|].
  apply meq_sym, xspec_coulombP_ok.
Qed.

(** the shortcut with U' = U - 2J *)
Theorem addCoulombP3_denotes : forall m l norb nspin U J eps,
  find_site l m = Some (norb, nspin) -> 2 <= norb -> 2 <= nspin -> site_ok l norb nspin ->
  denotes m (Lattice.addCoulombP3 L leqb K vo m l U J eps) (spec_coulombP3 l norb nspin U J eps).
Proof.
  intros. unfold Lattice.addCoulombP3, PresetsSpec.spec_coulombP3. cbn [vsub vdbl kvops].
  apply addCoulombP_denotes; assumption.
Qed.

(** * Hermiticity *)
Hypothesis conj0 : kconj k0 = k0.
Hypothesis conj1 : kconj k1 = k1.
Hypothesis conj_add : forall a b, kconj (kadd a b) = kadd (kconj a) (kconj b).
Hypothesis conj_mul : forall a b, kconj (kmul a b) = kmul (kconj a) (kconj b).
Hypothesis conj_opp : forall a, kconj (kopp a) = kopp (kconj a).
Hypothesis conj_invol : forall a, kconj (kconj a) = a.
Local Notation m_adj := (PresetsSpec.m_adj K kconj).
Local Notation m_hermitian := (PresetsSpec.m_hermitian K kconj M).

Lemma conj_half : kconj khalf = khalf.
Proof.
  assert (H : kadd (kconj khalf) (kconj khalf) = k1) by (rewrite <- conj_add, Hhalf; exact conj1).
  transitivity (kmul (kconj khalf) (kadd khalf khalf)); [rewrite Hhalf; ring|].
  transitivity (kmul khalf (kadd (kconj khalf) (kconj khalf))); [ring|]. rewrite H. ring.
Qed.

Lemma conj_sub' : forall a b, kconj (ksub a b) = ksub (kconj a) (kconj b).
Proof. intros a b. replace (ksub a b) with (kadd a (kopp b)) by ring. rewrite conj_add, conj_opp. ring. Qed.

Lemma h_add : forall A B, m_hermitian A -> m_hermitian B -> m_hermitian (m_add A B).
Proof. intros. eapply herm_add; eassumption. Qed.
Lemma h_scale : forall c A, kconj c = c -> m_hermitian A -> m_hermitian (m_scale c A).
Proof. intros. eapply herm_scale; eassumption. Qed.
Lemma h_sum : forall (X : Type) (l : list X) (f : X -> mat), (forall x, In x l -> m_hermitian (f x)) -> m_hermitian (m_sum l f).
Proof. intros. eapply herm_sum; eassumption. Qed.
Lemma h_sum_if : forall (X : Type) (l : list X) (p : X -> bool) (f : X -> mat),
  (forall x, In x l -> p x = true -> m_hermitian (f x)) -> m_hermitian (m_sum_if l p f).
Proof. intros. eapply herm_sum_if; eassumption. Qed.
Lemma h_n : forall i, m_hermitian (m_n i).
Proof. intros i. unfold PresetsSpec.m_n. eapply herm_diag; [exact conj0|]. intros s. apply conj_occ; assumption. Qed.
Lemma h_nn : forall i j, m_hermitian (m_nn i j).
Proof.
  intros i j. unfold PresetsSpec.m_nn. eapply herm_diag; [exact conj0|]. intros s.
  rewrite conj_mul. rewrite !(conj_occ K k0 k1 kconj conj0 conj1). reflexivity.
Qed.
Lemma h_meq : forall A B, meq A B -> m_hermitian A -> m_hermitian B.
Proof. intros. eapply herm_meq; eassumption. Qed.

Lemma h_level : forall l norb nspin eps, kconj eps = eps -> m_hermitian (spec_level l norb nspin eps).
Proof.
  intros. unfold PresetsSpec.spec_level. apply h_sum. intros a _. apply h_sum. intros z _.
  apply h_scale; [assumption|apply h_n].
Qed.

Lemma h_coulombS : forall l norb nspin U eps, kconj U = U -> kconj eps = eps ->
  m_hermitian (spec_coulombS l norb nspin U eps).
Proof.
  intros. unfold PresetsSpec.spec_coulombS. apply h_add; [|apply h_level; assumption].
  apply h_sum. intros a _. apply h_sum. intros z _. apply h_sum_if. intros z' _ _.
  apply h_scale; [assumption|apply h_nn].
Qed.

Lemma h_sz : forall l a, m_hermitian (m_sz l a).
Proof.
  intros l a. eapply h_meq; [apply meq_sym, m_sz_diag|]. eapply herm_diag; [exact conj0|]. intros s.
  unfold PresetsSpec.sz_val. rewrite conj_mul, conj_sub', conj_half.
  rewrite !(conj_occ K k0 k1 kconj conj0 conj1). reflexivity.
Qed.

Lemma h_nud : forall l a, m_hermitian (m_nud l a).
Proof.
  intros l a. unfold PresetsSpec.m_nud, PresetsSpec.m_n.
  eapply h_meq; [apply meq_sym; eapply m_diag_sub; exact Hring|]. eapply herm_diag; [exact conj0|]. intros s.
  rewrite conj_sub'. rewrite !(conj_occ K k0 k1 kconj conj0 conj1). reflexivity.
Qed.

Lemma h_magnetization_with : forall (half : bool) l norb mH, kconj mH = mH ->
  m_hermitian (spec_magnetization_with half l norb mH).
Proof.
  intros half l norb mH H. unfold PresetsSpec.spec_magnetization_with. apply h_sum. intros a _.
  apply h_scale; [assumption|]. destruct half; [apply h_sz|apply h_nud].
Qed.

Lemma h_x_szsz : forall l1 l2 a, m_hermitian (x_szsz l1 l2 a).
Proof.
  intros. unfold PresetsSpec.x_szsz. eapply herm_diag; [exact conj0|]. intros s.
  unfold PresetsSpec.sz_val. rewrite !conj_mul, !conj_sub', conj_half.
  rewrite !(conj_occ K k0 k1 kconj conj0 conj1). reflexivity.
Qed.

Lemma h_szsz : forall l1 l2 norb J, kconj J = J -> m_hermitian (spec_szsz l1 l2 norb J).
Proof.
  intros. eapply h_meq; [apply meq_sym, xspec_szsz_ok|]. unfold PresetsSpec.xspec_szsz.
  apply h_sum. intros a _. apply h_scale; [assumption|apply h_x_szsz].
Qed.

(** adjoint of an operator string *)
Lemma adj_cm : forall m, meq (m_adj (cm m)) (cm (adjoint_mono m)).
Proof. intros m. eapply m_adj_mono; eassumption. Qed.

Lemma h_hopping8 : forall l1 l2 t o1 o2 s1 s2, m_hermitian (spec_hopping8 l1 l2 t o1 o2 s1 s2).
Proof.
  intros. eapply h_meq; [apply meq_sym, xspec_hopping8_ok|]. unfold PresetsSpec.xspec_hopping8.
  eapply herm_plus_adj; try eassumption.
  eapply meq_trans; [|apply meq_sym; eapply m_adj_scale; eassumption].
  apply meq_scale. unfold PresetsSpec.x_hop. apply meq_sym. eapply meq_trans; [apply adj_cm|]. apply meq_refl.
Qed.
Lemma h_hopping6 : forall l1 l2 p t o1 o2, m_hermitian (spec_hopping6 l1 l2 p t o1 o2).
Proof. intros. unfold PresetsSpec.spec_hopping6. apply h_sum. intros z _. apply h_hopping8. Qed.
Lemma h_hopping4 : forall l1 l2 n p t, m_hermitian (spec_hopping4 l1 l2 n p t).
Proof. intros. unfold PresetsSpec.spec_hopping4. apply h_sum. intros z _. apply h_sum. intros a _. apply h_hopping8. Qed.

(** two pairs of operators on four different modes commute *)
Lemma cm_pair_swap : forall a b c d : op,
  op_idx a < M -> op_idx b < M -> op_idx c < M -> op_idx d < M ->
  op_idx a <> op_idx c -> op_idx a <> op_idx d -> op_idx b <> op_idx c -> op_idx b <> op_idx d ->
  meq (cm [a; b; c; d]) (cm [c; d; a; b]).
Proof.
  intros a b c d Ha Hb Hc Hd Nac Nad Nbc Nbd s u Hs _.
  change (cm [a; b; c; d] s u) with (cm ([a] ++ b :: c :: [d]) s u).
  rewrite (coef_mono_swap Hring b c [a] [d] s u) by lia. cbn [app].
  change (cm [a; c; b; d] s u) with (cm ([] ++ a :: c :: [b; d]) s u).
  rewrite (coef_mono_swap Hring a c [] [b; d] s u) by lia. cbn [app].
  change (cm [c; a; b; d] s u) with (cm ([c; a] ++ b :: d :: []) s u).
  rewrite (coef_mono_swap Hring b d [c; a] [] s u) by lia. cbn [app].
  change (cm [c; a; d; b] s u) with (cm ([c] ++ a :: d :: [b]) s u).
  rewrite (coef_mono_swap Hring a d [c] [b] s u) by lia. cbn [app]. ring.
Qed.

(** exchanging the two creation and the two annihilation operators of c^+ c^+ c c *)
Lemma cm_double_swap : forall a b c d : nat, a < M -> b < M -> c < M -> d < M -> a <> b -> c <> d ->
  meq (cm [cdag a; cdag b; cann c; cann d]) (cm [cdag b; cdag a; cann d; cann c]).
Proof.
  intros a b c d Ha Hb Hc Hd Nab Ncd s u Hs _.
  change (cm [cdag a; cdag b; cann c; cann d] s u) with (cm ([] ++ cdag a :: cdag b :: [cann c; cann d]) s u).
  rewrite (coef_mono_swap Hring (cdag a) (cdag b) [] [cann c; cann d] s u) by (cbn; lia). cbn [app].
  change (cm [cdag b; cdag a; cann c; cann d] s u) with (cm ([cdag b; cdag a] ++ cann c :: cann d :: []) s u).
  rewrite (coef_mono_swap Hring (cann c) (cann d) [cdag b; cdag a] [] s u) by (cbn; lia). cbn [app]. ring.
Qed.

(** the modes of a site are pairwise different; the modes of two different sites are different *)
Definition site_inj (l : L) (norb nspin : nat) : Prop :=
  forall a z a' z', a < norb -> z < nspin -> a' < norb -> z' < nspin ->
    idx l a z = idx l a' z' -> a = a' /\ z = z'.
Definition sites_apart (l1 l2 : L) (norb nspin : nat) : Prop :=
  forall a z a' z', a < norb -> z < nspin -> a' < norb -> z' < nspin -> idx l1 a z <> idx l2 a' z'.

Lemma h_ss : forall l1 l2 norb J, kconj J = J ->
  site_ok l1 norb 2 -> site_ok l2 norb 2 -> (l1 = l2 \/ sites_apart l1 l2 norb 2) ->
  m_hermitian (spec_ss l1 l2 norb J).
Proof.
  intros l1 l2 norb J HJ S1 S2 Hl. eapply h_meq; [apply meq_sym, xspec_ss_ok|]. unfold PresetsSpec.xspec_ss.
  apply h_sum. intros a Ha. apply in_rng in Ha. apply h_scale; [assumption|].
  apply h_add; [apply h_x_szsz|]. apply h_scale; [apply conj_half|].
  pose proof spin_up_lt2 as Hu. pose proof spin_down_lt2 as Hd.
  destruct Hl as [El|Hap].
  - subst l2. apply h_add; unfold PresetsSpec.m_hermitian.
    + unfold PresetsSpec.x_spsm. apply meq_sym. eapply meq_trans; [apply adj_cm|]. apply meq_refl.
    + unfold PresetsSpec.x_smsp. apply meq_sym. eapply meq_trans; [apply adj_cm|]. apply meq_refl.
  - eapply herm_plus_adj; try eassumption.
    unfold PresetsSpec.x_spsm, PresetsSpec.x_smsp. apply meq_sym.
    eapply meq_trans; [apply adj_cm|]. unfold adjoint_mono. cbn [map rev app flip_type fst snd negb].
    unfold PresetsSpec.up, PresetsSpec.down.
    change (false, idx l2 a spin_up) with (cdag (idx l2 a spin_up)).
    change (true, idx l2 a spin_down) with (cann (idx l2 a spin_down)).
    change (false, idx l1 a spin_down) with (cdag (idx l1 a spin_down)).
    change (true, idx l1 a spin_up) with (cann (idx l1 a spin_up)).
    apply cm_pair_swap; cbn [op_idx snd cdag cann];
      try (apply S1; assumption); try (apply S2; assumption);
      try (intro E; symmetry in E; revert E; apply Hap; assumption).
Qed.

Lemma adj_sum : forall (X : Type) (l : list X) (f : X -> mat), meq (m_adj (m_sum l f)) (m_sum l (fun x => m_adj (f x))).
Proof. intros. eapply m_adj_sum; eassumption. Qed.
Lemma adj_sum_if : forall (X : Type) (l : list X) (p : X -> bool) (f : X -> mat),
  meq (m_adj (m_sum_if l p f)) (m_sum_if l p (fun x => m_adj (f x))).
Proof.
  intros. unfold PresetsSpec.m_sum_if. eapply meq_trans; [apply adj_sum|]. apply meq_sum. intros x _.
  destruct (p x); [apply meq_refl|]. intros s u _ _. unfold PresetsSpec.m_adj, PresetsSpec.m_zero. exact conj0.
Qed.
Lemma adj_add : forall A B, meq (m_adj (m_add A B)) (m_add (m_adj A) (m_adj B)).
Proof. intros. eapply m_adj_add; eassumption. Qed.

Lemma adj_quartic : forall a b c d, meq (m_adj (x_quartic a b c d)) (cm [cdag d; cdag c; cann b; cann a]).
Proof. intros. unfold PresetsSpec.x_quartic. eapply meq_trans; [apply adj_cm|]. apply meq_refl. Qed.

Lemma h_coulombP : forall l norb nspin U Up J eps,
  kconj U = U -> kconj Up = Up -> kconj J = J -> kconj eps = eps ->
  site_ok l norb nspin -> site_inj l norb nspin ->
  m_hermitian (spec_coulombP l norb nspin U Up J eps).
Proof.
  intros l norb nspin U Up J eps HU HUp HJ He S I. eapply h_meq; [apply meq_sym, xspec_coulombP_ok|].
  cbv beta zeta delta [PresetsSpec.xspec_coulombP].
  apply h_add; [|apply h_level; assumption].
  apply h_add; [apply h_add; [apply h_add|]|].
  - apply h_scale; [assumption|]. apply h_sum. intros a _. apply h_sum. intros z _. apply h_sum_if. intros z' _ _. apply h_nn.
  - apply h_scale; [assumption|]. apply h_sum. intros a _. apply h_sum_if. intros a' _ _.
    apply h_sum. intros z _. apply h_sum_if. intros z' _ _. apply h_nn.
  - apply h_scale; [rewrite conj_mul, conj_sub', conj_half, HUp, HJ; reflexivity|].
    apply h_sum. intros a _. apply h_sum_if. intros a' _ _. apply h_sum. intros z _. apply h_nn.
  - apply h_scale; [rewrite conj_opp, HJ; reflexivity|].
    unfold PresetsSpec.m_hermitian.
    eapply meq_trans; [|apply meq_sym, adj_sum].
    eapply meq_trans; [|apply meq_sum; intros a _; apply meq_sym, adj_sum_if].
    eapply meq_trans.
    { eapply (m_sum_if_sym K k0 k1 kadd kmul ksub kopp kzero Hring M (rng norb) (fun a a' => negb (a =? a'))).
      intros a b. rewrite Nat.eqb_sym. reflexivity. }
    apply meq_sum. intros a Ha. apply in_rng in Ha. apply meq_sum_if. intros a' Ha' Hne. apply in_rng in Ha'.
    apply negb_eqb_neq in Hne.
    eapply meq_trans; [|apply meq_sym, adj_sum]. apply meq_sum. intros z Hz. apply in_rng in Hz.
    eapply meq_trans; [|apply meq_sym, adj_sum_if]. apply meq_sum_if. intros z' Hz' Hlt. apply in_rng in Hz'.
    apply Nat.ltb_lt in Hlt.
    eapply meq_trans; [|apply meq_sym, adj_add].
    assert (D : forall x y x' y', x < norb -> y < nspin -> x' < norb -> y' < nspin -> (x <> x' \/ y <> y') ->
                idx l x y <> idx l x' y').
    { intros x y x' y' B1 B2 B3 B4 Hd E. destruct (I x y x' y' B1 B2 B3 B4 E). lia. }
    apply meq_add.
    + eapply meq_trans; [|apply meq_sym, adj_quartic].
      unfold PresetsSpec.x_quartic. apply cm_double_swap; try (apply S; assumption); apply D; try assumption; lia.
    + eapply meq_trans; [|apply meq_sym, adj_quartic].
      unfold PresetsSpec.x_quartic. apply cm_double_swap; try (apply S; assumption); apply D; try assumption; lia.
Qed.

(** ** the Hamiltonian a preset produces is Hermitian (symmetric in the real build) when its parameters are
       real; hopping with any amplitude *)
Lemma denotes_hermitian : forall m w A, denotes m w A -> m_hermitian A ->
  forall h, prepare true (lattice_of m (fst w)) = Done h -> m_hermitian (cp h).
Proof.
  intros m w A (_ & (h' & E & HA) & _) H h Eh. rewrite E in Eh. inversion Eh; subst h'.
  eapply h_meq; [apply meq_sym; exact HA|exact H].
Qed.

Theorem addLevel_hermitian : forall m l norb nspin eps h,
  find_site l m = Some (norb, nspin) -> site_ok l norb nspin -> kconj eps = eps ->
  prepare true (lattice_of m (fst (Lattice.addLevel L leqb K vo m l eps))) = Done h -> m_hermitian (cp h).
Proof.
  intros m l norb nspin eps h F S He. eapply denotes_hermitian; [apply addLevel_denotes; eassumption|].
  apply h_level; assumption.
Qed.
Theorem addCoulombS_hermitian : forall m l norb nspin U eps h,
  find_site l m = Some (norb, nspin) -> site_ok l norb nspin -> kconj U = U -> kconj eps = eps ->
  prepare true (lattice_of m (fst (Lattice.addCoulombS L leqb K vo m l U eps))) = Done h -> m_hermitian (cp h).
Proof.
  intros m l norb nspin U eps h F S HU He. eapply denotes_hermitian; [apply addCoulombS_denotes; eassumption|].
  apply h_coulombS; assumption.
Qed.
Theorem addCoulombP_hermitian : forall m l norb nspin U Up J eps h,
  find_site l m = Some (norb, nspin) -> 2 <= norb -> 2 <= nspin -> site_ok l norb nspin -> site_inj l norb nspin ->
  kconj U = U -> kconj Up = Up -> kconj J = J -> kconj eps = eps ->
  prepare true (lattice_of m (fst (Lattice.addCoulombP L leqb K vo m l U Up J eps))) = Done h -> m_hermitian (cp h).
Proof.
  intros m l norb nspin U Up J eps h F Hn Hp S I HU HUp HJ He.
  eapply denotes_hermitian; [apply addCoulombP_denotes; eassumption|]. apply h_coulombP; assumption.
Qed.
Theorem addMagnetization_with_hermitian : forall (half : bool) m l norb mH h,
  find_site l m = Some (norb, 2) -> site_ok l norb 2 -> kconj mH = mH ->
  prepare true (lattice_of m (fst (addMagnetization_with L leqb K vo half m l mH))) = Done h -> m_hermitian (cp h).
Proof.
  intros half m l norb mH h F S HM. eapply denotes_hermitian; [apply addMagnetization_with_denotes; eassumption|].
  apply h_magnetization_with. exact HM.
Qed.
Theorem addSzSz_hermitian : forall cfg m l1 l2 norb J h,
  find_site l1 m = Some (norb, 2) -> find_site l2 m = Some (norb, 2) ->
  site_ok l1 norb 2 -> site_ok l2 norb 2 -> kconj J = J ->
  prepare true (lattice_of m (fst (Lattice.addSzSz L leqb K vo cfg m l1 l2 J))) = Done h -> m_hermitian (cp h).
Proof.
  intros cfg m l1 l2 norb J h F1 F2 S1 S2 HJ. eapply denotes_hermitian; [apply addSzSz_denotes; eassumption|].
  apply h_szsz; assumption.
Qed.
Theorem addSS_hermitian : forall cfg m l1 l2 norb J h,
  find_site l1 m = Some (norb, 2) -> find_site l2 m = Some (norb, 2) ->
  site_ok l1 norb 2 -> site_ok l2 norb 2 -> (l1 = l2 \/ sites_apart l1 l2 norb 2) -> kconj J = J ->
  prepare true (lattice_of m (fst (Lattice.addSS L leqb K vo cfg m l1 l2 J))) = Done h -> m_hermitian (cp h).
Proof.
  intros cfg m l1 l2 norb J h F1 F2 S1 S2 Hl HJ. eapply denotes_hermitian; [apply addSS_denotes; eassumption|].
  apply h_ss; assumption.
Qed.
Theorem addHopping8_hermitian : forall m l1 l2 t o1 o2 s1 s2 n1 p1 n2 p2 h,
  find_site l1 m = Some (n1, p1) -> find_site l2 m = Some (n2, p2) ->
  o1 < n1 -> s1 < p1 -> o2 < n2 -> s2 < p2 -> site_ok l1 n1 p1 -> site_ok l2 n2 p2 ->
  prepare true (lattice_of m (fst (Lattice.addHopping8 L leqb K vo m l1 l2 t o1 o2 s1 s2))) = Done h -> m_hermitian (cp h).
Proof.
  intros m l1 l2 t o1 o2 s1 s2 n1 p1 n2 p2 h F1 F2 A1 A2 A3 A4 S1 S2.
  eapply denotes_hermitian; [exact (addHopping8_denotes m l1 l2 t o1 o2 s1 s2 n1 p1 n2 p2 F1 F2 A1 A2 A3 A4 S1 S2)|apply h_hopping8].
Qed.
Theorem addHopping6_hermitian : forall cfg m l1 l2 t o1 o2 n1 n2 p h,
  find_site l1 m = Some (n1, p) -> find_site l2 m = Some (n2, p) ->
  o1 < n1 -> o2 < n2 -> site_ok l1 n1 p -> site_ok l2 n2 p ->
  prepare true (lattice_of m (fst (Lattice.addHopping6 L leqb K vo cfg m l1 l2 t o1 o2))) = Done h -> m_hermitian (cp h).
Proof.
  intros cfg m l1 l2 t o1 o2 n1 n2 p h F1 F2 A1 A3 S1 S2.
  eapply denotes_hermitian; [exact (addHopping6_denotes cfg m l1 l2 t o1 o2 n1 n2 p F1 F2 A1 A3 S1 S2)|apply h_hopping6].
Qed.
Theorem addHopping4_hermitian : forall cfg m l1 l2 t n p h,
  find_site l1 m = Some (n, p) -> find_site l2 m = Some (n, p) -> site_ok l1 n p -> site_ok l2 n p ->
  prepare true (lattice_of m (fst (Lattice.addHopping4 L leqb K vo cfg m l1 l2 t))) = Done h -> m_hermitian (cp h).
Proof.
  intros cfg m l1 l2 t n p h F1 F2 S1 S2.
  eapply denotes_hermitian; [exact (addHopping4_denotes cfg m l1 l2 t n p F1 F2 S1 S2)|apply h_hopping4].
Qed.

(** ** General form: a list of terms that is closed under adjoints (reversed operator sequence with creation and
       annihilation exchanged, conjugated value) gives a Hermitian matrix *)
Definition term_adj (t : term) : term :=
  mkTerm (rev (map negb (t_ops t))) (rev (t_labels t)) (rev (t_orbs t)) (rev (t_spins t)) (kconj (t_val t)).

Lemma combine_snoc : forall (A B : Type) (a : list A) (b : list B) x y, length a = length b ->
  combine (a ++ [x]) (b ++ [y]) = combine a b ++ [(x, y)].
Proof.
  induction a as [|a0 a IH]; intros [|b0 b] x y H; try discriminate; [reflexivity|].
  cbn [app combine]. rewrite IH by (cbn in H; lia). reflexivity.
Qed.
Lemma combine_rev : forall (A B : Type) (a : list A) (b : list B), length a = length b ->
  combine (rev a) (rev b) = rev (combine a b).
Proof.
  induction a as [|a0 a IH]; intros [|b0 b] H; try discriminate; [reflexivity|].
  cbn [rev combine]. rewrite combine_snoc by (rewrite !rev_length; cbn in H; lia).
  rewrite IH by (cbn in H; lia). reflexivity.
Qed.

Local Notation term_ops := (PresetsSpec.term_ops K L idx).
Local Notation x_term_matrix := (PresetsSpec.x_term_matrix K k0 k1 kmul kopp L idx).
Local Notation term_ok := (PresetsPrepare.term_ok K M L idx).

Lemma term_ops_adj : forall n t, term_ok n t -> term_ops (term_adj t) = adjoint_mono (term_ops t).
Proof.
  intros n t (H1 & H2 & H3 & H4 & _). unfold PresetsSpec.term_ops, term_adj, adjoint_mono.
  cbn [t_ops t_labels t_orbs t_spins].
  rewrite (combine_rev _ _ (t_labels t) (t_orbs t)) by congruence.
  rewrite (combine_rev _ _ (combine (t_labels t) (t_orbs t)) (t_spins t)) by (rewrite combine_length; lia).
  rewrite map_rev.
  rewrite (combine_rev _ _ (map negb (t_ops t)) _)
    by (rewrite !map_length, !combine_length; lia).
  rewrite map_rev. f_equal. rewrite map_map.
  set (G := map _ (combine (combine (t_labels t) (t_orbs t)) (t_spins t))).
  assert (E : forall (a : list bool) (g : list nat),
            map (fun x : bool * nat => if fst x then cdag (snd x) else cann (snd x)) (combine (map negb a) g) =
            map (fun x : bool * nat => flip_type (if fst x then cdag (snd x) else cann (snd x))) (combine a g)).
  { induction a as [|a0 a IH]; intros [|g0 g]; try reflexivity. cbn [map combine fst snd]. rewrite IH.
    f_equal. destruct a0; reflexivity. }
  apply E.
Qed.

Lemma term_adj_ok : forall n t, term_ok n t -> term_ok n (term_adj t).
Proof.
  intros n t H. pose proof (term_ops_adj n t H) as E. destruct H as (H1 & H2 & H3 & H4 & H5).
  unfold PresetsPrepare.term_ok. rewrite E. unfold term_adj. cbn [t_ops t_labels t_orbs t_spins].
  rewrite !rev_length, map_length. repeat split; try assumption. apply adjoint_mono_in_range. exact H5.
Qed.

Lemma c_ksum : forall (A : Type) (l : list A) (f : A -> K), kconj (ksum l f) = ksum l (fun a => kconj (f a)).
Proof. intros. eapply conj_ksum; eassumption. Qed.
Lemma c_adj : forall m s t, cm (adjoint_mono m) s t = kconj (cm m t s).
Proof. intros. eapply coef_mono_adjoint; eassumption. Qed.

Theorem adjoint_closed_hermitian : forall ts : list term,
  Forall (fun t => term_ok (t_order t) t) ts -> Permutation.Permutation (map term_adj ts) ts ->
  m_hermitian (fun s u => ksum ts (fun t => x_term_matrix t s u)).
Proof.
  intros ts Hok Hp s u Hs Hu. unfold PresetsSpec.m_adj.
  rewrite c_ksum.
  transitivity (ksum (map term_adj ts) (fun t => x_term_matrix t s u));
    [symmetry; eapply ksum_perm; [exact Hring|exact Hp]|].
  rewrite (AlgebraBasics.ksum_map K k0 kadd). apply ks_ext. intros t Ht.
  rewrite Forall_forall in Hok. specialize (Hok t Ht).
  unfold PresetsSpec.x_term_matrix, PresetsSpec.m_scale. rewrite (term_ops_adj _ t Hok).
  cbn [term_adj t_val]. rewrite conj_mul, c_adj. reflexivity.
Qed.

(** a user term together with its Hermitian conjugate *)
Theorem raw_term_with_hc_hermitian : forall m (t : term), 1 <= t_order t -> term_ok (t_order t) t ->
  exists h, prepare true (lattice_of m [t; term_adj t]) = Done h /\ m_hermitian (cp h).
Proof.
  intros m t Hn Hok.
  assert (Hlen : t_order (term_adj t) = t_order t).
  { unfold Lattice.t_order, term_adj. cbn [t_ops]. rewrite rev_length, map_length. reflexivity. }
  assert (Hoks : Forall (fun t0 => term_ok (t_order t0) t0) [t; term_adj t]).
  { constructor; [exact Hok|]. constructor; [|constructor]. rewrite Hlen. apply term_adj_ok. exact Hok. }
  destruct (prepare_of_terms K k0 k1 kadd kmul ksub kopp kzero Hring M L idx m [t; term_adj t] Hoks) as (h & E & _ & S).
  exists h. split; [exact E|].
  assert (Hinv : term_adj (term_adj t) = t).
  { destruct t as [o ls os ss v]. unfold term_adj. cbn [t_ops t_labels t_orbs t_spins t_val].
    rewrite !map_rev, !rev_involutive, map_map, conj_invol. f_equal.
    rewrite <- (map_id o) at 2. apply map_ext. intros b. apply negb_involutive. }
  eapply h_meq; [|apply (adjoint_closed_hermitian [t; term_adj t] Hoks)].
  - intros s u Hs Hu. rewrite S by assumption. apply ks_ext. intros x Hx.
    assert (Hx1 : 1 <= t_order x) by (destruct Hx as [<-|[<-|[]]]; lia).
    replace (1 <=? t_order x) with true by (symmetry; apply Nat.leb_le; exact Hx1). reflexivity.
  - cbn [map]. rewrite Hinv. apply Permutation.perm_swap.
Qed.

End PF.


(** * Code and documentation of addMagnetization must be of the same variant (in any ring with 1 <> 0):
      the code that passes the amplitude as given does NOT denote the operator with the factor 1/2 (the state of /repo
      before commit 6442010 corrected the documentation), and the code that halves it does not denote the operator
      without the factor. *)
Section MagRefuted.
Variable K : Type.
Variables (k0 k1 : K) (kadd kmul ksub : K -> K -> K) (kopp : K -> K).
Variable kzero : K -> bool.
Hypothesis Hring : ring_ok K k0 k1 kadd kmul ksub kopp kzero.
Let Rth : ring_theory k0 k1 kadd kmul ksub kopp (@eq K) := proj1 Hring.
Add Ring Kring_MR : Rth.
Variable khalf : K.
Hypothesis Hhalf : kadd khalf khalf = k1.
Variable kconj : K -> K.
Hypothesis Hnontrivial : k1 <> k0.

(** "addMagnetization, code variant [code_half], adds the operator of documentation variant [doc_half]" *)
Definition addMagnetization_denotes_stmt (code_half doc_half : bool) : Prop :=
  forall (M : nat) (L : Type) (leqb : L -> L -> bool) (idx : L -> nat -> nat -> nat)
         (m : site_map L) (l : L) (norb : nat) (mH : K),
  (forall a b, leqb a b = true <-> a = b) ->
  Lattice.find_site L leqb l m = Some (norb, 2) -> site_ok M L idx l norb 2 ->
  denotes K k0 k1 kadd kmul kopp kzero M L idx m
    (addMagnetization_with L leqb K (kvops K kadd kmul ksub kopp kzero khalf kconj) code_half m l mH)
    (PresetsSpec.spec_magnetization_with K k0 k1 kadd kmul ksub khalf L idx doc_half l norb mH).

Theorem addMagnetization_denotes_same_variant : forall b, addMagnetization_denotes_stmt b b.
Proof.
  intros b M L leqb idx m l norb mH _ F S.
  exact (addMagnetization_with_denotes K k0 k1 kadd kmul ksub kopp kzero Hring khalf kconj M L leqb idx b m l norb mH F S).
Qed.

Lemma half_not_one : khalf <> k1.
Proof.
  intro Hh. apply Hnontrivial. rewrite Hh in Hhalf.
  transitivity (ksub (kadd k1 k1) k1); [ring|]. rewrite Hhalf. ring.
Qed.

(** witness: one site with one orbital and two spins (index = spin), mH = 1, the state with only the up mode
    occupied: the two variants give 1 and 1/2 *)
Theorem addMagnetization_denotes_mixed_refuted : forall b, ~ addMagnetization_denotes_stmt b (negb b).
Proof.
  intros b H.
  set (idx := fun (_ : unit) (a z : nat) => z).
  set (leqb := fun (_ _ : unit) => true).
  set (m := [(tt, (1, 2))] : site_map unit).
  assert (Hl : forall a b : unit, leqb a b = true <-> a = b) by (intros [] []; unfold leqb; tauto).
  assert (F : Lattice.find_site unit leqb tt m = Some (1, 2)) by reflexivity.
  assert (S : site_ok 2 unit idx tt 1 2) by (intros a z _ Hz; exact Hz).
  destruct (H 2 unit leqb idx m tt 1 k1 Hl F S) as (_ & (h1 & E1 & D1) & _).
  destruct (addMagnetization_denotes_same_variant b 2 unit leqb idx m tt 1 k1 Hl F S) as (_ & (h2 & E2 & D2) & _).
  rewrite E1 in E2. inversion E2; subst h2. clear E2.
  pose proof (D1 [false; true] [false; true] eq_refl eq_refl) as A1.
  pose proof (D2 [false; true] [false; true] eq_refl eq_refl) as A2.
  rewrite A1 in A2. clear -A2 Hhalf Hnontrivial Hring Rth. unfold idx in A2.
  apply half_not_one.
  destruct b; cbv [negb PresetsSpec.spec_magnetization_with PresetsSpec.m_sum PresetsSpec.rng seq PolySem.ksum fold_right
       PresetsSpec.m_scale PresetsSpec.m_sz PresetsSpec.m_nud PresetsSpec.m_sub PresetsSpec.m_n PresetsSpec.m_diag PresetsSpec.occ
       PresetsSpec.up PresetsSpec.down spin_up spin_down state_eqb eqb andb nth] in A2.
  - transitivity (kadd (kmul k1 (kmul khalf (ksub k1 k0))) k0); [ring|]. rewrite <- A2. ring.
  - transitivity (kadd (kmul k1 (kmul khalf (ksub k1 k0))) k0); [ring|]. rewrite A2. ring.
Qed.

(** the defect that was found: the code as it stands (factor 1) against the documentation before commit 6442010 (factor 1/2) *)
Corollary addMagnetization_denotes_refuted : ~ addMagnetization_denotes_stmt false true.
Proof. exact (addMagnetization_denotes_mixed_refuted false). Qed.

End MagRefuted.
